import RawPanelVerif.Lemmas.NetFeed
import RawPanelVerif.Lemmas.NetTimed
import RawPanelVerif.Lemmas.NetAscii
import RawPanelVerif.Lemmas.NetRun
import RawPanelVerif.Lemmas.NetContract
import RawPanelVerif.Lemmas.NetScript
/-!
# C08 — receive framing is independent of TCP segmentation and timing

Property theorems only.  `Net.feed` is the binary read loop consuming a byte stream (connecttopanel.go 183-213),
`Net.asciiFeed` the ASCII read loop (216-230), `Net.step` / `Net.runL` the binary loop as a timed LTS with the
connection's deadlines as explicit state and every `Set…Deadline` call site as a field of the configuration
(`Net.Cfg`; `Net.repaired` = the code as it is), `Net.runT` the deterministic script runner the trace validation uses.
"Exactly those messages" is the Spec's reference reader (`Spec.Net.parse`, `Spec.Net.lines`), which shares no code
with the model.  No bound on stream length, number of messages, number of segments or length of a run.

**Observation outside the domain: what "the 2 s in-frame timeout" is.**  The code's in-frame limit is *absolute
per read*: the rest of the header must arrive less than 2 s after the frame's first byte, the whole payload less than
2 s after the header's last byte (`Spec.Net.inContractT`).  The property's "2 s in-frame timeout" is read accordingly
as "each frame completes within 2 s of its header" (decision of the project lead); a frame that trickles in with
gaps below 2 s but a payload read longer than 2 s is outside the domain: the client drops it (`slow_trickle_dropped`
is the witness), the monitors skip such scripts (`frame-slower-than-contract`), the generators do not contain them.
The theorems below state the contract exactly as the code gives it.

Untimed (every stream, every segmentation):
* `delivered_eq_parse`              deliveries after any byte stream = the messages the reference parser finds in it
* `feed_segmentation_independent`, `same_stream_same_outcome`   any cut of a stream gives the same state and deliveries
* `delivered_prefix`                after any prefix of the stream, the deliveries are a prefix of the stream's messages
* `quiescent_complete`(`_any`)      when all bytes of a message sequence are consumed, all of it has been delivered
Timed LTS (every run, every configuration unless said otherwise):
* `runL_arrivals_eq_feed`           the effects of a labelled run are those of `feed` on the bytes that arrived before
                                    the loop ended; the final loop state is what they lead to plus what ended the loop
* `runL_deliveries_eq_parse`        hence the deliveries of any run of a fresh connection are the reference messages
* `idle_gap_harmless`               (configurations with the loop-top reset, 184) in every reachable state in which the
                                    loop waits for the first byte of a header no read deadline is armed and `expire` is
                                    disabled, whatever the time
* `entry_clears_probe_deadline`     the `enter` step (lines 117 … 184) leaves no read deadline, whatever the probe left
* `resets_moved_counterexample`     without the reset at 117 and with the loop-top reset moved behind the delivery (the
                                    shape of seeded change C08-4) the probe deadline is still armed when the loop waits
                                    for its first header: `expire` is enabled before any byte has arrived
* `loop_top_reset_needed_counterexample`   without the reset at 184 an idle gap after a frame ends the connection
* `expire_only_outside_contract`, `in_contract_never_expires`   the timeout can fire only inside a frame, `frameTimeout`
                                    or more after the first byte of that frame
* `runT_in_contract_complete`       for every script without close whose time-stamped bytes keep the contract
                                    (`Spec.Net.inContractT`: complete frames below the limit, header rest < 2 s after the
                                    first byte, payload < 2 s after the header), whatever the idle periods between
                                    frames: `runT` never stops, delivers exactly the reference messages, and the stream
                                    ends at a message boundary
* `slow_trickle_dropped`            witness for the observation above: gaps of 700 ms, payload read 2.1 s: dropped
Tie to the source:
* `repaired_is_the_source_layout`   `Net.cfgOfSites Gen.deadlineSites = some Net.repaired`: the ordered list of deadline
                                    call sites regenerated from connecttopanel.go on every run (function, position in
                                    the loop structure, read-only or both, zero time or now + constant) is the
                                    configuration the theorems call "the code as it is" (`source_layout_is_coded`)
* `constants_are_those_of_the_property_text`   the regenerated in-frame deadline, frame limit and probe deadline are
                                    the 2000 ms / 500000 / 2000 ms the monitors take from the property text
ASCII:
* `lines_model`                     deliveries = `TrimSpace(line + LF)` per LF-terminated line (all streams)
* `lines_eq_reference`              = the reference lines, for streams whose lines have no non-ASCII white space at an
                                    edge (`Spec.Net.edgeClean`; guard exact for the trimming step: `trimSpace_eq_trim`),
* `nbsp_line_counterexample`        and not otherwise: `strings.TrimSpace` also strips U+00A0, U+0085, U+2028 …
* `lines_segmentation_independent`, `unterminated_line_not_delivered`, `crlf_eq_lf`
* `ascii_idle_gap_harmless`         with the reset at 117 no deadline is in force in the ASCII loop: no script without
                                    close ever stops it; `ascii_reset_needed_counterexample`: without 117 a panel that is
                                    silent for 2 s after the probe is dropped
-/
namespace RawPanelVerif.C08
open RawPanelVerif RawPanelVerif.Net

/-- **exactly those messages, each once, in order, nothing else** -/
theorem delivered_eq_parse (s : Bytes) :
    deliveries (feed .init s).2 = (Spec.Net.parse limit s).1 := (feed_init_parse s).2

/-- **independent of segmentation**: however the stream is cut, state and effects are those of the uncut stream -/
theorem feed_segmentation_independent (segs : List Bytes) :
    feedAll .init segs = feedAll .init [segs.flatten] := by
  simp only [feedAll_eq_feed_flatten, List.flatten_cons, List.flatten_nil, List.append_nil]

/-- two segmentations of the same stream are indistinguishable -/
theorem same_stream_same_outcome (segs segs' : List Bytes) (h : segs.flatten = segs'.flatten) :
    feedAll .init segs = feedAll .init segs' := by
  simp only [feedAll_eq_feed_flatten, h]

/-- **prefix**: after any prefix of the byte stream the deliveries are a prefix of the stream's messages
(nothing is delivered early, twice, or out of order) -/
theorem delivered_prefix (pre suf : Bytes) :
    ∃ more, (Spec.Net.parse limit (pre ++ suf)).1 = deliveries (feed .init pre).2 ++ more := by
  refine ⟨deliveries (feed (feed .init pre).1 suf).2, ?_⟩
  rw [← delivered_eq_parse, feed_append, deliveries_append]

/-- **complete at quiescence**: once every byte of a sequence of messages (each shorter than the limit) has been
consumed, exactly these messages have been delivered and the loop waits for the next header -/
theorem quiescent_complete (fs : List Bytes) (h : ∀ f ∈ fs, f.length < limit) :
    (feed .init (encode fs)).1 = .waitHdr [] ∧ deliveries (feed .init (encode fs)).2 = fs := by
  have hp := parse_encode limit (by decide) fs h
  have := feed_init_parse (encode fs)
  rw [hp] at this
  exact ⟨by simpa [stateOfTail] using this.1, this.2⟩

/-- … and for any stream: what the reference parser calls complete has been delivered when the bytes are consumed -/
theorem quiescent_complete_any (s : Bytes) (fs : List Bytes) (t : Spec.Net.Tail) (h : Spec.Net.parse limit s = (fs, t)) :
    deliveries (feed .init s).2 = fs := by
  rw [delivered_eq_parse, h]

/-! ### the timed LTS -/

/-- **a labelled run against the untimed loop** (every configuration, every run): the effects of the run are those of
`feed` on the bytes that arrived before the loop ended; the final loop state is the one these bytes lead to, followed
by the label that ended the loop -/
theorem runL_arrivals_eq_feed (cfg : Cfg) (s s' : CState) (ls : List Lbl) (e : List Eff)
    (h : runL cfg s ls = some (s', e)) :
    e = (feed s.r (arrivedBefore ls)).2 ∧ s'.r = afterStop (firstStop ls) (feed s.r (arrivedBefore ls)).1 :=
  runL_feed cfg ls s s' e h

/-- … so the deliveries of *any* run of a fresh connection are exactly the messages the reference parser finds in the
bytes that arrived before the loop ended -/
theorem runL_deliveries_eq_parse (cfg : Cfg) (tp : Nat) (s' : CState) (ls : List Lbl) (e : List Eff)
    (h : runL cfg (CState.probed cfg tp) ls = some (s', e)) :
    deliveries e = (Spec.Net.parse limit (arrivedBefore ls)).1 := by
  rw [(runL_feed cfg ls _ s' e h).1]
  exact delivered_eq_parse _

/-- **idle gaps are harmless** (every configuration with the loop-top reset; `repaired` and `pinned` are such): in
every state reachable by any sequence of labels, if the loop has been entered and waits for the first byte of a
header then no read deadline is armed and `expire` is not enabled, whatever the time -/
theorem idle_gap_harmless (cfg : Cfg) (hc : Coded cfg) (s : CState) (h : Reachable cfg s) (he : s.entered = true)
    (hw : s.r = .waitHdr []) : s.dl.rd = none ∧ ∀ now, step cfg s (.expire now) = none := by
  have hi := (inv_reachable cfg hc s h).armedIff he (by rw [hw]; rfl)
  rw [hw] at hi
  have hd : s.dl.rd = none := by
    cases hdl : s.dl.rd with
    | none => rfl
    | some d => rw [hdl] at hi; simp [armed] at hi
  exact ⟨hd, fun now => by simp [step, hd]⟩

/-- the `enter` step (line 117, then the loop top at 184) leaves no read deadline armed, whatever line 88 armed and
whatever sits at 117: in binary mode the reset at 184 alone suffices -/
theorem entry_clears_probe_deadline (cfg : Cfg) (hc : Coded cfg) (tp now : Nat) :
    (CState.start cfg tp now).dl.rd = none := enterLoop_rd cfg hc now _

/-- the configuration of seeded change C08-4: no reset at 117 (binary path), the loop-top reset moved behind the
delivery of a frame -/
def resetsMoved : Cfg := { repaired with afterProbe := .skip, loopTop := .skip, afterPayload := .clear .read }

/-- **the resets are needed where they are**: in that configuration the probe deadline (armed at 0, due at 2000) is
still in force when the loop waits for its first header; a panel that is idle for 2 s after the handshake is dropped
before it has sent anything, and a byte arriving later is not read -/
theorem resets_moved_counterexample :
    (runL resetsMoved (CState.probed resetsMoved 0) [.enter 10, .expire 2000]).map (fun r => r.1.r)
      = some (.stopped .timeout) ∧
    runL resetsMoved (CState.probed resetsMoved 0) [.enter 10, .arrive 2500 1] = none ∧
    (runT resetsMoved 0 (CState.start resetsMoved 0 10) [(2490, .bytes [1, 0, 0, 0, 7])] {}).stop = some (.timeout, 2000) ∧
    (runT repaired 0 (CState.start repaired 0 10) [(2490, .bytes [1, 0, 0, 0, 7])] {}).stop = none := by
  refine ⟨by decide, by decide, by decide, by decide⟩

/-- without the reset at the loop top the payload deadline of a delivered frame stays armed: an idle gap of more
than 2 s after a frame ends the connection -/
theorem loop_top_reset_needed_counterexample :
    (runT { repaired with loopTop := .skip } 0 (CState.start { repaired with loopTop := .skip } 0 0)
      [(100, .bytes [1, 0, 0, 0, 7]), (2500, .bytes [1, 0, 0, 0, 8])] {}).stop = some (.timeout, 2100) ∧
    deliveries (runT repaired 0 (CState.start repaired 0 0)
      [(100, .bytes [1, 0, 0, 0, 7]), (2500, .bytes [1, 0, 0, 0, 8])] {}).effs = [[7], [8]] := by
  refine ⟨by decide, by decide⟩

/-- **a panel inside its timing contract is never dropped by a deadline**: in every reachable state, the timeout
can only fire inside a frame and only when `frameTimeout` or more has passed since the *first* byte of that frame was
consumed (`fstart`) -/
theorem expire_only_outside_contract (cfg : Cfg) (hc : Coded cfg) (s s' : CState) (e : List Eff) (now : Nat)
    (h : Reachable cfg s) (hx : step cfg s (.expire now) = some (s', e)) :
    s.r ≠ .waitHdr [] ∧ s.r.live = true ∧ s.fstart + frameTimeout ≤ now := by
  have hi := inv_reachable cfg hc s h
  obtain ⟨d, hd, he, _, hdn, hl, _, _⟩ := step_expire hx
  refine ⟨?_, hl, ?_⟩
  · intro hw
    have := (idle_gap_harmless cfg hc s h he hw).1
    rw [this] at hd; cases hd
  · have := hi.startBound he hl d hd
    omega

theorem in_contract_never_expires (cfg : Cfg) (hc : Coded cfg) (s : CState) (now : Nat) (h : Reachable cfg s)
    (hcn : now < s.fstart + frameTimeout) : step cfg s (.expire now) = none := by
  cases hx : step cfg s (.expire now) with
  | none => rfl
  | some r =>
    have := (expire_only_outside_contract cfg hc s r.1 r.2 now h hx).2.2
    omega

/-- consequence for timed runs: a script that only waits (no bytes) between messages never stops the loop -/
theorem idle_wait_does_not_stop (cfg : Cfg) (m : Nat) (s : CState) (hd : s.dl.rd = none)
    (d : Nat) (rest : TScript) (o : Outcome) :
    (runT cfg m s ((d, .nothing) :: rest) o).stop = (runT cfg m { s with clock := s.clock + d } rest o).stop ∧
    (runT cfg m s ((d, .nothing) :: rest) o).effs = (runT cfg m { s with clock := s.clock + d } rest o).effs := by
  simp [runT, hd, firedAt, tightAt]

/-- **complete inside the contract**: take any script without `close` (any segmentation, any delays, any idle
periods) whose time-stamped byte stream keeps the timing contract of the code — a sequence of complete frames below
the limit, the rest of each header less than `frameTimeout` after the frame's first byte, each payload less than
`frameTimeout` after its header.  Then the run of the client never stops, its deliveries are exactly the messages
of the stream, and the stream ends at a message boundary.  (`tp`: when the probe deadline was armed; `t0`: when the
loop was entered; `m`: the margin used for the `tight` flag, irrelevant here.) -/
theorem runT_in_contract_complete (m tp t0 : Nat) (ts : TScript) (hnc : noClose ts = true)
    (hct : Spec.Net.inContractT limit frameTimeout (timedBytes t0 ts) = true) :
    (runT repaired m (CState.start repaired tp t0) ts {}).stop = none ∧
    deliveries (runT repaired m (CState.start repaired tp t0) ts {}).effs = (Spec.Net.parse limit (scriptBytes ts)).1 ∧
    (Spec.Net.parse limit (scriptBytes ts)).2 = .done := by
  have hst : St (CState.start repaired tp t0) (.waitHdr []) none t0 :=
    ⟨rfl, enterLoop_rd repaired coded_repaired t0 _, rfl, rfl⟩
  obtain ⟨s', e, hr, hs'⟩ := run_in_contract repaired coded_repaired rfl _ (timedBytes t0 ts) _ t0 (Nat.le_refl _) hst
    (timedBytes_sorted ts t0) hct
  obtain ⟨he, hr'⟩ := runL_feed repaired _ _ s' e hr
  rw [arrivedBefore_arrivals, timedBytes_bytes] at he hr'
  rw [firstStop_arrivals] at hr'
  have hfin : (feed .init (scriptBytes ts)).1 = .waitHdr [] := by
    have : s'.r = (feed .init (scriptBytes ts)).1 := hr'
    rw [← this]; exact hs'.1
  have h := runT_of_runL repaired m ts (CState.start repaired tp t0) {} s' e hnc hr (by rw [hs'.1]; rfl) hs'.2.1
  refine ⟨h.1, ?_, ?_⟩
  · rw [h.2, List.nil_append, he]; exact delivered_eq_parse _
  · have hp := (feed_init_parse (scriptBytes ts)).1
    rw [hfin] at hp
    exact stateOfTail_boundary _ (fun r hr => parse_incomplete_ne limit _ r (by rw [hr])) hp.symm

/-- **the contract is absolute, not a gap** (the observation recorded in the header): a 3-byte payload whose bytes come
700 ms apart — never a gap of 2 s — is outside the contract and the client drops the connection 2000 ms after the
header, having delivered nothing -/
theorem slow_trickle_dropped :
    Spec.Net.inContractT limit frameTimeout
      (timedBytes 0 [(0, .bytes [3, 0, 0, 0]), (700, .bytes [1]), (700, .bytes [2]), (700, .bytes [3])]) = false ∧
    runT repaired 0 (CState.start repaired 0 0)
      [(0, .bytes [3, 0, 0, 0]), (700, .bytes [1]), (700, .bytes [2]), (700, .bytes [3])] {}
      = { effs := [.alloc 3], stop := some (.timeout, 2000), tight := false } := by
  refine ⟨by simp [timedBytes, Spec.Net.inContractT, Spec.Net.u32le, limit, frameTimeout, Gen.clientFrameLimit,
    Gen.clientFrameTimeoutMs], by decide⟩

/-! ### ASCII -/

/-- **ASCII, every stream**: one delivery per LF-terminated line, in order: `strings.TrimSpace` of the line -/
theorem lines_model (s : Bytes) :
    (asciiFeed [] s).2 = (Spec.Net.splitLF s).1.map (fun l => trimSpace (l ++ [10])) := by
  simpa using (asciiFeed_lines [] s (by simp)).1

/-- **ASCII: exactly the lines**: deliveries = the reference reader's lines (split at LF, CR / ASCII blanks trimmed),
for every stream whose lines carry no *non-ASCII* white space at an edge -/
theorem lines_eq_reference (s : Bytes) (hc : ∀ l ∈ (Spec.Net.splitLF s).1, Spec.Net.edgeClean l = true) :
    (asciiFeed [] s).2 = Spec.Net.lines s := by
  have := (asciiFeed_spec [] s (by simp) (by simpa using hc)).1
  simpa [Spec.Net.lines] using this

/-- the guard of `lines_eq_reference` is needed: Go's `TrimSpace` also strips U+00A0 (and the other non-ASCII white
space); the reference keeps it.  `48 57 43 23 35 3d 44 6f 77 6e c2 a0 0a` = `HWC#5=Down<NBSP><LF>` -/
theorem nbsp_line_counterexample :
    (asciiFeed [] [0x48, 0x57, 0x43, 0x23, 0x35, 0x3d, 0x44, 0x6f, 0x77, 0x6e, 0xc2, 0xa0, 10]).2
      = [[0x48, 0x57, 0x43, 0x23, 0x35, 0x3d, 0x44, 0x6f, 0x77, 0x6e]] ∧
    Spec.Net.lines [0x48, 0x57, 0x43, 0x23, 0x35, 0x3d, 0x44, 0x6f, 0x77, 0x6e, 0xc2, 0xa0, 10]
      = [[0x48, 0x57, 0x43, 0x23, 0x35, 0x3d, 0x44, 0x6f, 0x77, 0x6e, 0xc2, 0xa0]] ∧
    Spec.Net.edgeClean [0x48, 0x57, 0x43, 0x23, 0x35, 0x3d, 0x44, 0x6f, 0x77, 0x6e, 0xc2, 0xa0] = false := by
  refine ⟨by decide, by decide, by decide⟩

theorem lines_segmentation_independent (segs : List Bytes) :
    asciiFeedAll [] segs = asciiFeedAll [] [segs.flatten] := by
  simp only [asciiFeedAll_eq_flatten, List.flatten_cons, List.flatten_nil, List.append_nil]

/-- the buffer of the ASCII loop never contains LF -/
theorem asciiFeed_buf_noLF : ∀ (t buf : Bytes), (10 : UInt8) ∉ buf → (10 : UInt8) ∉ (asciiFeed buf t).1 := by
  intro t
  induction t with
  | nil => intro buf hb; simpa [asciiFeed] using hb
  | cons b r ih =>
    intro buf hb
    by_cases h10 : b = 10
    · simp only [asciiFeed_cons, asciiStep, h10, if_true]; exact ih [] (by simp)
    · simp only [asciiFeed_cons, asciiStep, h10, if_false]
      exact ih _ (by simp only [List.mem_append, List.mem_singleton, not_or]; exact ⟨hb, fun e => h10 e.symm⟩)

/-- an unterminated last line is not delivered (it stays in the buffer) -/
theorem unterminated_line_not_delivered (s tail : Bytes) (h : (10 : UInt8) ∉ tail) :
    (asciiFeed [] (s ++ tail)).2 = (asciiFeed [] s).2 := by
  rw [asciiFeed_append]
  have hno : (10 : UInt8) ∉ (asciiFeed [] s).1 := asciiFeed_buf_noLF s [] (by simp)
  have := (asciiFeed_lines (asciiFeed [] s).1 tail hno).1
  rw [this, splitLF_noLF _ (by simp only [List.mem_append, not_or]; exact ⟨hno, h⟩)]
  simp

def joinEol (eol : Bytes) (ls : List Bytes) : Bytes := (ls.map (· ++ eol)).flatten

theorem splitLF_join (ls : List Bytes) (pad : Bytes) (hls : ∀ l ∈ ls, (10 : UInt8) ∉ l)
    (hpad : ∀ c ∈ pad, Spec.Net.isBlank c = true ∧ c ≠ 10) :
    Spec.Net.splitLF (joinEol (pad ++ [10]) ls) = (ls.map (· ++ pad), []) := by
  induction ls with
  | nil => rfl
  | cons l r ih =>
    have hl : (10 : UInt8) ∉ l ++ pad := by
      simp only [List.mem_append, not_or]
      exact ⟨hls l (by simp), fun h => (hpad 10 h).2 rfl⟩
    have ih := ih (fun x hx => hls x (by simp [hx]))
    simp only [joinEol] at ih ⊢
    simp only [List.map_cons, List.flatten_cons]
    rw [show l ++ (pad ++ [10]) ++ (List.map (fun x => x ++ (pad ++ [10])) r).flatten
          = (l ++ pad) ++ 10 :: (List.map (fun x => x ++ (pad ++ [10])) r).flatten by simp]
    rw [splitLF_line _ _ hl, ih]

theorem lines_join (ls : List Bytes) (pad : Bytes) (hls : ∀ l ∈ ls, (10 : UInt8) ∉ l)
    (hpad : ∀ c ∈ pad, Spec.Net.isBlank c = true ∧ c ≠ 10) :
    Spec.Net.lines (joinEol (pad ++ [10]) ls) = ls.map Spec.Net.trim := by
  simp only [Spec.Net.lines, splitLF_join ls pad hls hpad, List.map_map]
  exact List.map_congr_left (fun l _ => trim_append_blanks l pad (fun c hc => (hpad c hc).1))

/-- **CRLF = LF**: the same lines (no non-ASCII white space at their edges) terminated by CR LF or by LF (or padded
with blanks before the terminator) are delivered identically -/
theorem crlf_eq_lf (ls : List Bytes) (hls : ∀ l ∈ ls, (10 : UInt8) ∉ l) (hcl : ∀ l ∈ ls, Spec.Net.edgeClean l = true) :
    (asciiFeed [] (joinEol [13, 10] ls)).2 = (asciiFeed [] (joinEol [10] ls)).2 := by
  have p13 : ∀ c ∈ ([13] : Bytes), Spec.Net.isBlank c = true ∧ c ≠ 10 := by intro c hc; simp at hc; subst hc; decide
  have p0 : ∀ c ∈ ([] : Bytes), Spec.Net.isBlank c = true ∧ c ≠ 10 := by intro c hc; simp at hc
  have s1 := splitLF_join ls [13] hls p13
  have s2 := splitLF_join ls [] hls p0
  have h1 := lines_join ls [13] hls p13
  have h2 := lines_join ls [] hls p0
  simp only [List.cons_append, List.nil_append] at h1 h2 s1 s2
  rw [lines_eq_reference _ (by
        rw [s1]; intro x hx
        obtain ⟨l, hl, rfl⟩ := List.mem_map.mp hx
        exact edgeClean_append_blank l 13 (by decide) (hcl l hl)),
      lines_eq_reference _ (by
        rw [s2]; intro x hx
        obtain ⟨l, hl, rfl⟩ := List.mem_map.mp hx
        simpa using hcl l hl), h1, h2]

/-- the ASCII loop never touches the deadline: what `AState.start` leaves stays -/
theorem runA_stop (ts : TScript) : ∀ (s : AState) (acc : Outcome × List Bytes), s.rd = none →
    (runA s ts acc).1.stop = acc.1.stop ∨ ∃ t, (runA s ts acc).1.stop = some (.peerClosed, t) := by
  induction ts with
  | nil => intro s acc _; exact Or.inl rfl
  | cons a rest ih =>
    intro s acc hrd
    obtain ⟨d, act⟩ := a
    cases act with
    | nothing => simp only [runA, hrd, firedAt]; exact ih _ _ rfl
    | close => simp only [runA, hrd, firedAt]; exact Or.inr ⟨_, rfl⟩
    | bytes b => simp only [runA, hrd, firedAt]; exact ih _ _ rfl

/-- **ASCII: idle periods are harmless** given the reset at line 117 (whichever `Set…Deadline` clears the read
deadline there): the ASCII loop runs without a deadline, so no script — whatever its delays — ends it by a timeout;
only `close` ends it -/
theorem ascii_idle_gap_harmless (cfg : Cfg) (k : DlKind) (h117 : cfg.afterProbe = .clear k) (tp now : Nat)
    (ts : TScript) :
    (AState.start cfg tp now).rd = none ∧
    ((runA (AState.start cfg tp now) ts ({}, [])).1.stop = none ∨
      ∃ t, (runA (AState.start cfg tp now) ts ({}, [])).1.stop = some (.peerClosed, t)) := by
  have hrd : (AState.start cfg tp now).rd = none := by
    simp only [AState.start, h117]
    cases k <;> simp [DlOp.apply]
  exact ⟨hrd, runA_stop ts _ _ hrd⟩

/-- without line 117 the probe deadline stays in force in ASCII mode: a panel that sends its first line 2.5 s after
the probe is dropped at 2000 ms (probe at 0); with 117 the line is delivered -/
theorem ascii_reset_needed_counterexample :
    (runA (AState.start { repaired with afterProbe := .skip } 0 10) [(2490, .bytes [112, 10])] ({}, [])).1.stop
      = some (.timeout, 2000) ∧
    runA (AState.start repaired 0 10) [(2490, .bytes [112, 10])] ({}, []) = ({}, [[112]]) := by
  refine ⟨by decide, by decide⟩

/-! ### the tie to the source: where the deadline calls are, and the numbers of the property text -/

/-- **the configuration the theorems call "the code as it is" is the layout of the source**: the ordered list of
`Set…Deadline` call sites the extractor finds in `ConnectToPanel` on this run (function, position in the loop structure,
`SetReadDeadline` / `SetDeadline`, zero time / now + constant) is exactly `repaired` — five calls, read-only, the probe
reset under no condition, the loop-top reset first in the binary loop, 2000 ms for header rest and payload.  A change
that drops, moves, adds or rewrites one of them (seeded changes C08-1, C08-4, C08-7; the pinned tree before 7e5ba25)
makes this fail. -/
theorem repaired_is_the_source_layout : cfgOfSites Gen.deadlineSites = some repaired := by decide

/-- hence the theorems stated for `Coded` configurations speak about the source -/
theorem source_layout_is_coded : ∃ cfg, cfgOfSites Gen.deadlineSites = some cfg ∧ Coded cfg :=
  ⟨repaired, repaired_is_the_source_layout, coded_repaired⟩

/-- the constants regenerated from the source are the numbers of the property text the monitors use ("the 2 s in-frame
timeout", "the 500000-byte limit") -/
theorem constants_are_those_of_the_property_text :
    frameTimeout = Spec.Net.frameTimeoutMs ∧ limit = Spec.Net.frameLimit ∧ probeTimeout = Spec.Net.probeWindowMs := by decide

/-! non-vacuity -/
-- `cfgOfSites` tells layouts apart: without the loop-top reset, with the probe reset under a condition (C08-4), with a
-- non-constant argument, the result is another configuration or none
example : cfgOfSites (exampleSites.eraseIdx 2) = some { repaired with loopTop := .skip } := by decide
example : cfgOfSites (exampleSites.eraseIdx 3) = some pinned := by decide
example : cfgOfSites [{ fn := 0, clear := false, addMs := some 2000, loops := 1, path := [0], first := false, reads := 0 },
    { fn := 0, clear := true, addMs := none, loops := 1, path := [0, 1], first := false, reads := 1 }] = none := by decide
example : cfgOfSites [{ fn := 0, clear := false, addMs := none, loops := 1, path := [0], first := false, reads := 0 }] = none := by decide
example : deliveries (feedAll .init [[2, 0], [0, 0, 8], [1, 0, 0, 0, 0, 1, 0, 0], [0, 7]]).2 = [[8, 1], [], [7]] := by decide
example : Reachable repaired (CState.start repaired 0 5) := ⟨0, [.enter 5], [], by decide⟩
example : (runL repaired (CState.probed repaired 0) [.enter 5, .arrive 5 1, .arrive 5 0, .arrive 5 0, .arrive 6 0,
    .arrive 900 42]).map (fun r => (r.1.r, r.1.dl.rd, r.2)) = some (.waitHdr [], none, [.alloc 1, .deliver [42]]) := by decide
example : Spec.Net.inContractT limit frameTimeout
    (timedBytes 0 [(9000, .bytes [1, 0]), (1900, .bytes [0, 0]), (1900, .bytes [7]), (60000, .bytes [0, 0, 0, 0])]) = true := by
  simp [timedBytes, Spec.Net.inContractT, Spec.Net.u32le, limit, frameTimeout, Gen.clientFrameLimit, Gen.clientFrameTimeoutMs]
example : deliveries (runT repaired 0 (CState.start repaired 0 0)
    [(9000, .bytes [1, 0]), (1900, .bytes [0, 0]), (1900, .bytes [7]), (60000, .bytes [0, 0, 0, 0])] {}).effs = [[7], []] := by decide
example : (asciiFeed [] [112, 13, 10, 32, 113, 32, 10, 10, 114]).2 = [[112], [113], []] := by decide
example : Spec.Net.edgeClean [112, 13] = true := by decide

end RawPanelVerif.C08
