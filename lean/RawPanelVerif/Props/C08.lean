import RawPanelVerif.Lemmas.NetFeed
import RawPanelVerif.Lemmas.NetTimed
import RawPanelVerif.Lemmas.NetAscii
/-!
# C08 — receive framing is independent of TCP segmentation and timing

Property theorems only.  `Net.feed` is the binary read loop consuming a byte stream (connecttopanel.go 178-205),
`Net.asciiFeed` the ASCII read loop (206-223), `Net.step` the binary loop with its read deadline as explicit state.
The statement of "exactly those messages" is the Spec's reference reader (`Spec.Net.parse`, `Spec.Net.lines`),
which shares no code with the model.  No bound on stream length, number of messages or number of segments.

* `delivered_eq_parse`              deliveries after any byte stream = the messages the reference parser finds in it
* `feed_segmentation_independent`   any cut of a stream into segments gives the same state and the same deliveries
* `delivered_prefix`                after any prefix of the stream, the deliveries are a prefix of the stream's messages
* `quiescent_complete`              when all bytes of a message sequence are consumed, all of it has been delivered
                                    (each once, in order) and the loop is waiting for a header again
* `idle_gap_harmless`               in every reachable state of the timed LTS, while the loop waits for the first
                                    byte of a header no deadline is armed: no idle period, however long, can end the
                                    connection (what a dropped `SetReadDeadline(time.Time{})` would falsify)
* `expire_only_outside_contract`, `in_contract_never_expires`   the timeout can fire only ≥ 2 s after the first byte of
                                    an incomplete frame: a panel inside its timing contract is never dropped by it
* `lines_eq_reference`, `lines_segmentation_independent`, `crlf_eq_lf`   the ASCII analogues
-/
namespace RawPanelVerif.C08
open RawPanelVerif RawPanelVerif.Net

/-- **exactly those messages, each once, in order, nothing else** -/
theorem delivered_eq_parse (s : Bytes) :
    deliveries (feed .init s).2 = (Spec.Net.parse limit s).1 := (feed_init_parse s).2

/-- **independent of segmentation**: however the stream is cut, state and effects are those of the uncut stream -/
theorem feed_segmentation_independent (segs : List Bytes) :
    feedAll .init segs = feedAll .init [segs.flatten] := by
  simp only [feedAll_eq_feed_flatten, List.flatten_cons, List.flatten_nil, List.append_nil]

/-- two segmentations of the same stream are indistinguishable -/
theorem same_stream_same_outcome (segs segs' : List Bytes) (h : segs.flatten = segs'.flatten) :
    feedAll .init segs = feedAll .init segs' := by
  simp only [feedAll_eq_feed_flatten, h]

/-- **prefix**: after any prefix of the byte stream the deliveries are a prefix of the stream's messages
(nothing is delivered early, twice, or out of order) -/
theorem delivered_prefix (pre suf : Bytes) :
    ∃ more, (Spec.Net.parse limit (pre ++ suf)).1 = deliveries (feed .init pre).2 ++ more := by
  refine ⟨deliveries (feed (feed .init pre).1 suf).2, ?_⟩
  rw [← delivered_eq_parse, feed_append, deliveries_append]

/-- **complete at quiescence**: once every byte of a sequence of messages (each shorter than the limit) has been
consumed, exactly these messages have been delivered and the loop waits for the next header -/
theorem quiescent_complete (fs : List Bytes) (h : ∀ f ∈ fs, f.length < limit) :
    (feed .init (encode fs)).1 = .waitHdr [] ∧ deliveries (feed .init (encode fs)).2 = fs := by
  have hp := parse_encode limit (by decide) fs h
  have := feed_init_parse (encode fs)
  rw [hp] at this
  exact ⟨by simpa [stateOfTail] using this.1, this.2⟩

/-- … and for any stream: what the reference parser calls complete has been delivered when the bytes are consumed -/
theorem quiescent_complete_any (s : Bytes) (fs : List Bytes) (t : Spec.Net.Tail) (h : Spec.Net.parse limit s = (fs, t)) :
    deliveries (feed .init s).2 = fs := by
  rw [delivered_eq_parse, h]

/-- **idle gaps are harmless** (both the pinned and the repaired deadline discipline): in every state reachable by
any sequence of arrivals, expiries and closes, if the loop is waiting for the first byte of a header then no
deadline is armed and `expire` is not enabled, whatever the time -/
theorem idle_gap_harmless (cfg : Cfg) (s : CState) (h : Reachable cfg s) (hw : s.r = .waitHdr []) :
    s.dl = none ∧ ∀ now, step cfg s (.expire now) = none := by
  have hi := (inv_reachable cfg s h).armedIff
  rw [hw] at hi
  have hd : s.dl = none := by
    cases hdl : s.dl with
    | none => rfl
    | some d => rw [hdl] at hi; simp [armed] at hi
  exact ⟨hd, fun now => by simp [step, hd]⟩

/-- **a panel inside its timing contract is never dropped by a deadline** (both deadline disciplines): in every
reachable state, the timeout can only fire inside a frame and only when `frameTimeout` or more has passed since the
*first* byte of that frame was consumed (`fstart`).  So if every message arrives completely within less than 2 s of
its first byte — whatever the idle periods between messages — `expire` is never enabled. -/
theorem expire_only_outside_contract (cfg : Cfg) (s s' : CState) (e : List Eff) (now : Nat) (h : Reachable cfg s)
    (hx : step cfg s (.expire now) = some (s', e)) :
    s.r ≠ .waitHdr [] ∧ s.r.live = true ∧ s.fstart + frameTimeout ≤ now := by
  have hi := inv_reachable cfg s h
  simp only [step] at hx
  split at hx
  · rename_i d hd
    split at hx
    · rename_i hg
      refine ⟨?_, hg.2.2, ?_⟩
      · intro hw
        have := (idle_gap_harmless cfg s h hw).1
        rw [this] at hd; cases hd
      · have := hi.startBound d hd
        omega
    · simp at hx
  · simp at hx

theorem in_contract_never_expires (cfg : Cfg) (s : CState) (now : Nat) (h : Reachable cfg s)
    (hc : now < s.fstart + frameTimeout) : step cfg s (.expire now) = none := by
  cases hx : step cfg s (.expire now) with
  | none => rfl
  | some r =>
    have := (expire_only_outside_contract cfg s r.1 r.2 now h hx).2.2
    omega

/-- consequence for timed runs: a script that only waits (no bytes) between messages never stops the loop -/
theorem idle_wait_does_not_stop (cfg : Cfg) (m : Nat) (s : CState) (hw : s.r = .waitHdr []) (hd : s.dl = none)
    (d : Nat) (rest : TScript) (o : Outcome) :
    runT cfg m s ((d, .nothing) :: rest) o = runT cfg m { s with clock := s.clock + d } rest o := by
  simp [runT, hd]

/-! ### ASCII -/

/-- **ASCII: exactly the lines**: deliveries = the reference reader's lines (split at LF, CR / blanks trimmed),
one delivery per LF-terminated line, in order -/
theorem lines_eq_reference (s : Bytes) : (asciiFeed [] s).2 = Spec.Net.lines s := by
  have := (asciiFeed_spec [] s (by simp)).1
  simpa [Spec.Net.lines] using this

theorem lines_segmentation_independent (segs : List Bytes) :
    asciiFeedAll [] segs = asciiFeedAll [] [segs.flatten] := by
  simp only [asciiFeedAll_eq_flatten, List.flatten_cons, List.flatten_nil, List.append_nil]

/-- an unterminated last line is not delivered (it stays in the buffer) -/
theorem unterminated_line_not_delivered (s tail : Bytes) (h : (10 : UInt8) ∉ tail) :
    (asciiFeed [] (s ++ tail)).2 = (asciiFeed [] s).2 := by
  rw [asciiFeed_append]
  have hs := (asciiFeed_spec [] s (by simp)).2
  have hno : (10 : UInt8) ∉ (asciiFeed [] s).1 := by
    -- the buffer never contains LF
    have : ∀ (buf t : Bytes), (10 : UInt8) ∉ buf → (10 : UInt8) ∉ (asciiFeed buf t).1 := by
      intro buf t
      induction t generalizing buf with
      | nil => intro hb; simpa [asciiFeed] using hb
      | cons b r ih =>
        intro hb
        by_cases h10 : b = 10
        · simp only [asciiFeed_cons, asciiStep, h10, if_true]; exact ih [] (by simp)
        · simp only [asciiFeed_cons, asciiStep, h10, if_false]
          exact ih _ (by simp only [List.mem_append, List.mem_singleton, not_or]; exact ⟨hb, fun e => h10 e.symm⟩)
    exact this [] s (by simp)
  have := (asciiFeed_spec (asciiFeed [] s).1 tail hno).1
  rw [this, splitLF_noLF _ (by simp only [List.mem_append, not_or]; exact ⟨hno, h⟩)]
  simp

def joinEol (eol : Bytes) (ls : List Bytes) : Bytes := (ls.map (· ++ eol)).flatten

theorem lines_join (ls : List Bytes) (pad : Bytes) (hls : ∀ l ∈ ls, (10 : UInt8) ∉ l)
    (hpad : ∀ c ∈ pad, Spec.Net.isBlank c = true ∧ c ≠ 10) :
    Spec.Net.lines (joinEol (pad ++ [10]) ls) = ls.map Spec.Net.trim := by
  induction ls with
  | nil => rfl
  | cons l r ih =>
    have hl : (10 : UInt8) ∉ l ++ pad := by
      simp only [List.mem_append, not_or]
      exact ⟨hls l (by simp), fun h => (hpad 10 h).2 rfl⟩
    have ih := ih (fun x hx => hls x (by simp [hx]))
    simp only [Spec.Net.lines, joinEol] at ih ⊢
    simp only [List.map_cons, List.flatten_cons]
    rw [show l ++ (pad ++ [10]) ++ (List.map (fun x => x ++ (pad ++ [10])) r).flatten
          = (l ++ pad) ++ 10 :: (List.map (fun x => x ++ (pad ++ [10])) r).flatten by simp]
    rw [splitLF_line _ _ hl]
    simp only [List.map_cons, ih]
    rw [trim_append_blanks l pad (fun c hc => (hpad c hc).1)]

/-- **CRLF = LF**: the same lines terminated by CR LF or by LF (or padded with blanks before the terminator) are
delivered identically -/
theorem crlf_eq_lf (ls : List Bytes) (hls : ∀ l ∈ ls, (10 : UInt8) ∉ l) :
    (asciiFeed [] (joinEol [13, 10] ls)).2 = (asciiFeed [] (joinEol [10] ls)).2 := by
  rw [lines_eq_reference, lines_eq_reference]
  have h1 := lines_join ls [13] hls (by intro c hc; simp at hc; subst hc; decide)
  have h2 := lines_join ls [] hls (by intro c hc; simp at hc)
  simp only [List.cons_append, List.nil_append] at h1 h2
  rw [h1, h2]

/-! non-vacuity -/
example : deliveries (feedAll .init [[2, 0], [0, 0, 8], [1, 0, 0, 0, 0, 1, 0, 0], [0, 7]]).2 = [[8, 1], [], [7]] := by decide
example : Reachable repaired ⟨.waitHdr [], none, 5, 5, 5⟩ :=
  ⟨0, [.arrive 5 1, .arrive 5 0, .arrive 5 0, .arrive 5 0, .arrive 5 42], [.alloc 1, .deliver [42]], by decide⟩
example : (asciiFeed [] [112, 13, 10, 32, 113, 32, 10, 10, 114]).2 = [[112], [113], []] := by decide

end RawPanelVerif.C08
