import RawPanelVerif.Lemmas.StripLemmas
import RawPanelVerif.Spec.StripSpec
/-!
# The forward white-space scanner of the Spec (`Spec.Strip.contentOf`) against the per-line trim of the model

White-space runes are self-synchronising (first byte ASCII or a lead byte ≥ 0xC2, every other byte a continuation byte
0x80..0xBF), so deleting them commutes with concatenation `x ++ y` unless a rune straddles the cut — which needs `y` to
begin with a continuation byte.

* `contentOf_append`       : `contentOf (x ++ y) = contentOf x ++ contentOf y` when `y` does not begin with a continuation byte
* `contentOf_append_ascii` : … or when `x` ends in an ASCII byte
* `contentOf_trimSpace`    : `contentOf (trimSpace l) = contentOf l`, for every `l`
* `contentOf_join`         : `contentOf (join 10 ls) = (ls.map contentOf).flatten`
* guard `joinSafe s` (decidable): no line of `s` after the first begins, once trimmed, with a continuation byte
* `validUtf8 s` (decidable; Go `utf8.ValidString`) implies `joinSafe s`
-/
namespace RawPanelVerif.Strip
open RawPanelVerif RawPanelVerif.Bytes
open RawPanelVerif.Spec.Strip (wsLen content contentOf)

/-- UTF-8 continuation byte 0x80..0xBF -/
def isCont (b : UInt8) : Bool := 0x80 ≤ b && b ≤ 0xBF

/-- the string begins with a continuation byte -/
def startsCont : Bytes → Bool
  | [] => false
  | b :: _ => isCont b

/-! ## white-space runes and `wsLen` -/

/-- a white-space rune in front is seen by `wsLen` with its length -/
theorem wsLen_wsRune (w r : Bytes) (h : WsRune w) : wsLen (w ++ r) = w.length ∧ w ≠ [] := by
  unfold WsRune dropSpace1 at h
  split at h
  all_goals first
    | (injection h with h; subst h; exact ⟨rfl, by simp⟩)
    | (split at h
       · rename_i hc
         injection h with h; subst h
         refine ⟨?_, by simp⟩
         simp only [List.cons_append, List.nil_append, wsLen, hc, if_true, List.length_cons, List.length_nil]
       · exact absurd h (by simp))
    | exact absurd h (by simp)

/-- `wsLen s = k+1`: the first `k+1` bytes of `s` are one white-space rune -/
theorem wsLen_succ (s : Bytes) (k : Nat) (h : wsLen s = k + 1) :
    ∃ w, WsRune w ∧ w.length = k + 1 ∧ s = w ++ s.drop (k + 1) := by
  refine ⟨s.take (k + 1), ?_, ?_, (List.take_append_drop _ _).symm⟩
  · unfold wsLen at h
    split at h
    all_goals first
      | (have hk : k = 0 := by omega
         subst hk; rfl)
      | (have hk : k = 1 := by omega
         subst hk; rfl)
      | (have hk : k = 2 := by omega
         subst hk; rfl)
      | (split at h
         · rename_i hc
           have hk : k = 2 := by omega
           subst hk
           unfold WsRune dropSpace1
           simp [hc]
         · omega)
      | omega
  · unfold wsLen at h
    split at h
    all_goals first
      | (split at h
         · have hk : k = 2 := by omega
           subst hk; rfl
         · omega)
      | (have hk : k = 0 := by omega
         subst hk; rfl)
      | (have hk : k = 1 := by omega
         subst hk; rfl)
      | (have hk : k = 2 := by omega
         subst hk; rfl)
      | omega

/-! ## the scanner without fuel -/

theorem content_fuel (n m : Nat) (s : Bytes) (hn : s.length ≤ n) (hm : s.length ≤ m) : content n s = content m s := by
  induction n generalizing m s with
  | zero =>
    have : s = [] := by cases s with | nil => rfl | cons c cs => simp at hn
    subst this
    cases m <;> rfl
  | succ n ih =>
    cases s with
    | nil => cases m <;> rfl
    | cons b r =>
      cases m with
      | zero => simp at hm
      | succ m =>
        simp only [List.length_cons] at hn hm
        unfold content
        cases hw : wsLen (b :: r) with
        | zero => simp only []; rw [ih m r (by omega) (by omega)]
        | succ k =>
          simp only []
          exact ih m _ (by simp; omega) (by simp; omega)

theorem contentOf_nil : contentOf [] = [] := rfl

/-- no white-space rune at the head: the byte is kept -/
theorem contentOf_keep (b : UInt8) (r : Bytes) (h : wsLen (b :: r) = 0) : contentOf (b :: r) = b :: contentOf r := by
  unfold contentOf
  show content ((b :: r).length + 1) (b :: r) = _
  simp only [List.length_cons]
  conv => lhs; unfold content
  rw [h]
  simp only []

/-- a white-space rune at the head is skipped -/
theorem contentOf_skip (s : Bytes) (k : Nat) (h : wsLen s = k + 1) : contentOf s = contentOf (s.drop (k + 1)) := by
  cases s with
  | nil => rfl
  | cons b r =>
    unfold contentOf
    simp only [List.length_cons]
    conv => lhs; unfold content
    rw [h]
    simp only []
    exact content_fuel _ _ _ (by simp; omega) (by simp)

theorem contentOf_wsRune (w r : Bytes) (h : WsRune w) : contentOf (w ++ r) = contentOf r := by
  obtain ⟨h1, h2⟩ := wsLen_wsRune w r h
  have hl : w.length = (w.length - 1) + 1 := by
    cases w with
    | nil => exact absurd rfl h2
    | cons a as => simp
  rw [hl] at h1
  rw [contentOf_skip _ _ h1, ← hl, List.drop_left]

theorem contentOf_allWs (p r : Bytes) (h : AllWs p) : contentOf (p ++ r) = contentOf r := by
  induction h with
  | nil => rfl
  | cons w q hw _ ih => rw [List.append_assoc, contentOf_wsRune w _ hw, ih]

/-! ## white-space runes are self-synchronising -/

theorem isCont_of_e280 (b : UInt8) (hc : (0x80 ≤ b ∧ b ≤ 0x8A) ∨ b = 0xA8 ∨ b = 0xA9 ∨ b = 0xAF) : isCont b = true := by
  unfold isCont
  simp only [Bool.and_eq_true, decide_eq_true_eq]
  rcases hc with ⟨h1, h2⟩ | h | h | h
  · exact ⟨h1, UInt8.le_trans h2 (by decide)⟩
  all_goals (subst h; decide)

/-- every byte of a white-space rune but the first is a continuation byte -/
theorem wsRune_tail_cont (w : Bytes) (h : WsRune w) : w.tail.all isCont = true := by
  unfold WsRune dropSpace1 at h
  split at h
  all_goals first
    | (injection h with h; subst h; decide)
    | (split at h
       · rename_i hc
         injection h with h; subst h
         simp [isCont_of_e280 _ hc]
         decide
       · exact absurd h (by simp))
    | exact absurd h (by simp)

/-- the first byte of a white-space rune is not a continuation byte -/
theorem wsRune_head (w r : Bytes) (h : WsRune w) : startsCont (w ++ r) = false := by
  unfold WsRune dropSpace1 at h
  split at h
  all_goals first
    | (injection h with h; subst h; rfl)
    | (split at h
       · injection h with h; subst h; rfl
       · exact absurd h (by simp))
    | exact absurd h (by simp)

/-- **no straddling**: if `y` does not begin with a continuation byte, a white-space rune found at the head of `x ++ y`
(`x ≠ []`) lies inside `x` -/
theorem wsLen_append_zero (x y : Bytes) (hx : x ≠ []) (hy : startsCont y = false) (h0 : wsLen x = 0) :
    wsLen (x ++ y) = 0 := by
  cases hk : wsLen (x ++ y) with
  | zero => rfl
  | succ k =>
    exfalso
    obtain ⟨w, hw, _, e⟩ := wsLen_succ _ _ hk
    have inside : ∀ c', x = w ++ c' → False := by
      intro c' hc
      have := (wsLen_wsRune w c' hw)
      rw [← hc, h0] at this
      exact this.2 (List.length_eq_zero_iff.1 this.1.symm)
    rcases List.append_eq_append_iff.1 e with ⟨a', h1, h2⟩ | ⟨c', h1, _⟩
    · cases a' with
      | nil => exact inside [] (by simpa using h1.symm)
      | cons c cs =>
        cases x with
        | nil => exact hx rfl
        | cons a x' =>
          have ht := wsRune_tail_cont w hw
          rw [h1] at ht
          simp only [List.cons_append, List.tail_cons, List.all_append, List.all_cons, Bool.and_eq_true] at ht
          rw [h2] at hy
          simp only [List.cons_append, startsCont] at hy
          rw [ht.2.1] at hy
          exact absurd hy (by decide)
    · exact inside c' h1

/-- **deleting white-space runes commutes with concatenation** when the right part does not begin with a continuation byte -/
theorem contentOf_append (x y : Bytes) (hy : startsCont y = false) : contentOf (x ++ y) = contentOf x ++ contentOf y := by
  generalize hn : x.length = n
  induction n using Nat.strongRecOn generalizing x with
  | _ n ih =>
    cases x with
    | nil => rfl
    | cons b r =>
      cases hw : wsLen (b :: r) with
      | zero =>
        have h2 := wsLen_append_zero (b :: r) y (by simp) hy hw
        rw [contentOf_keep b r hw]
        rw [List.cons_append] at h2 ⊢
        rw [contentOf_keep b (r ++ y) h2, ih r.length (by simp at hn; omega) r rfl]
        rfl
      | succ k =>
        obtain ⟨w, hwr, hl, e⟩ := wsLen_succ _ _ hw
        have hlen : ((b :: r).drop (k + 1)).length < n := by
          rw [← hn]; simp only [List.length_drop, List.length_cons]; omega
        generalize (b :: r).drop (k + 1) = t at e hlen
        rw [e, List.append_assoc, contentOf_wsRune w _ hwr, contentOf_wsRune w _ hwr]
        exact ih t.length hlen t rfl

/-! ## ASCII bytes -/

/-- ASCII white space (the single-byte white-space runes) -/
def isAws (b : UInt8) : Bool := b = 9 || b = 10 || b = 11 || b = 12 || b = 13 || b = 32

theorem wsLen_ascii (b : UInt8) (r : Bytes) (hb : b < 0x80) : wsLen (b :: r) = if isAws b = true then 1 else 0 := by
  by_cases hw : isAws b = true
  · rw [if_pos hw]
    unfold isAws at hw
    simp only [Bool.or_eq_true, decide_eq_true_eq] at hw
    rcases hw with ((((h | h) | h) | h) | h) | h <;> subst h <;> rfl
  · rw [if_neg hw]
    unfold wsLen
    split
    all_goals first
      | rfl
      | (rename_i heq; injection heq with e1 _; subst e1; exfalso; first | (revert hb; decide) | (apply hw; decide))

theorem not_isCont_ascii (b : UInt8) (hb : b < 0x80) : isCont b = false := by
  unfold isCont
  rw [Bool.and_eq_false_iff]
  left
  simp only [decide_eq_false_iff_not, UInt8.not_le]
  exact hb

theorem contentOf_ascii_cons (a : UInt8) (y : Bytes) (ha : a < 0x80) : contentOf (a :: y) = contentOf [a] ++ contentOf y := by
  have h1 := wsLen_ascii a y ha
  have h2 := wsLen_ascii a [] ha
  by_cases hw : isAws a = true
  · rw [if_pos hw] at h1 h2
    rw [contentOf_skip _ 0 h1, contentOf_skip _ 0 h2]
    rfl
  · rw [if_neg hw] at h1 h2
    rw [contentOf_keep _ _ h1, contentOf_keep _ _ h2]
    rfl

/-- … or when the left part ends in an ASCII byte -/
theorem contentOf_append_ascii (x y : Bytes) (a : UInt8) (ha : a < 0x80) :
    contentOf ((x ++ [a]) ++ y) = contentOf (x ++ [a]) ++ contentOf y := by
  have hc : ∀ z, startsCont (a :: z) = false := fun z => not_isCont_ascii a ha
  rw [List.append_assoc, List.singleton_append, contentOf_append x _ (hc y), contentOf_append x [a] (hc []),
    contentOf_ascii_cons a y ha, List.append_assoc]

/-! ## `TrimSpace` keeps the content of a line -/

theorem wsRuneRev_reverse (w : Bytes) (h : WsRuneRev w) : WsRune w.reverse := by
  unfold WsRuneRev dropSpace1Rev at h
  split at h
  all_goals first
    | (injection h with h; subst h; rfl)
    | (split at h
       · rename_i hc
         injection h with h; subst h
         unfold WsRune dropSpace1
         simp [hc]
       · exact absurd h (by simp))
    | exact absurd h (by simp)

theorem allWs_append (a b : Bytes) (ha : AllWs a) (hb : AllWs b) : AllWs (a ++ b) := by
  induction ha with
  | nil => exact hb
  | cons w r hw _ ih => rw [List.append_assoc]; exact AllWs.cons w _ hw ih

theorem allWsRev_reverse (p : Bytes) (h : AllWsRev p) : AllWs p.reverse := by
  induction h with
  | nil => exact AllWs.nil
  | cons w r hw _ ih =>
    rw [List.reverse_append]
    refine allWs_append _ _ ih ?_
    have := AllWs.cons w.reverse [] (wsRuneRev_reverse w hw) AllWs.nil
    simpa using this

theorem allWs_startsCont (p : Bytes) (h : AllWs p) : startsCont p = false := by
  cases h with
  | nil => rfl
  | cons w r hw _ => exact wsRune_head w r hw

theorem contentOf_allWs_nil (p : Bytes) (h : AllWs p) : contentOf p = [] := by
  have := contentOf_allWs p [] h
  rw [List.append_nil] at this
  exact this

/-- **`TrimSpace` keeps the content of every byte string** (valid UTF-8 or not) -/
theorem contentOf_trimSpace (l : Bytes) : contentOf (trimSpace l) = contentOf l := by
  obtain ⟨pre, suf, e, hp, hs⟩ := trimSpace_decomp l
  have hs' : AllWs suf := by simpa using allWsRev_reverse _ hs
  conv => rhs; rw [e]
  rw [List.append_assoc, contentOf_allWs pre _ hp, contentOf_append _ suf (allWs_startsCont suf hs'),
    contentOf_allWs_nil suf hs', List.append_nil]

/-! ## lines -/

theorem contentOf_join (ls : List Bytes) : contentOf (join 10 ls) = (ls.map contentOf).flatten := by
  induction ls with
  | nil => rfl
  | cons f rest ih =>
    cases rest with
    | nil => simp [join]
    | cons g gs =>
      simp only [join, List.map_cons, List.flatten_cons]
      rw [contentOf_append f _ (by rfl), show (10 : UInt8) :: join 10 (g :: gs) = [10] ++ join 10 (g :: gs) from rfl,
        contentOf_wsRune [10] _ (by rfl), ih]
      rfl

theorem startsCont_append (a b : Bytes) (ha : startsCont a = false) (hb : startsCont b = false) : startsCont (a ++ b) = false := by
  cases a with
  | nil => exact hb
  | cons c cs => exact ha

/-- flattening per-line images `f l`: the content is the concatenation of the contents, provided no image after the
first begins with a continuation byte -/
theorem contentOf_flatten (f : Bytes → Bytes) (x : Bytes) (rest : List Bytes)
    (h : ∀ l ∈ rest, startsCont (f l) = false) :
    startsCont (rest.map f).flatten = false ∧
    contentOf (x ++ (rest.map f).flatten) = contentOf x ++ (rest.map (fun l => contentOf (f l))).flatten := by
  induction rest generalizing x with
  | nil => exact ⟨rfl, by simp⟩
  | cons l ls ih =>
    have hl := h l (by simp)
    have hls : ∀ l ∈ ls, startsCont (f l) = false := fun y hy => h y (by simp [hy])
    obtain ⟨i1, i2⟩ := ih (f l) hls
    have hsc : startsCont ((l :: ls).map f).flatten = false := by
      simp only [List.map_cons, List.flatten_cons]
      exact startsCont_append _ _ hl i1
    refine ⟨hsc, ?_⟩
    rw [contentOf_append x _ hsc]
    simp only [List.map_cons, List.flatten_cons]
    rw [i2]

/-! ## the guard, and the two flattenings -/

/-- **Guard of the content theorem for `stripLineBreaks`**: no line of `s` after the first begins, once trimmed, with a
UTF-8 continuation byte 0x80..0xBF.  (Joining the trimmed lines can then not create a white-space rune out of the end of
one line and the beginning of the next.)  Holds for every valid UTF-8 string (`joinSafe_of_validUtf8`), every ASCII
string and every string without line feed. -/
def joinSafe (s : Bytes) : Bool := (splitOn 10 s).tail.all (fun l => !startsCont (trimSpace l))

abbrev JoinSafe (s : Bytes) : Prop := joinSafe s = true

theorem contentOf_strip (s : Bytes) (h : JoinSafe s) : contentOf (stripLineBreaks s) = contentOf s := by
  unfold JoinSafe joinSafe at h
  unfold stripLineBreaks
  conv => rhs; rw [← join_splitOn 10 s]
  rw [contentOf_join]
  have hne := splitOn_ne_nil 10 s
  cases hs : splitOn 10 s with
  | nil => exact absurd hs hne
  | cons l rest =>
    rw [hs] at h
    simp only [List.tail_cons, List.all_eq_true, Bool.not_eq_true'] at h
    have := (contentOf_flatten trimSpace (trimSpace l) rest h).2
    simp only [List.map_cons, List.flatten_cons]
    rw [this, contentOf_trimSpace]
    congr 2
    exact List.map_congr_left (fun x _ => contentOf_trimSpace x)

/-- every SVG line image ends in an ASCII byte (`>` or the appended space) and keeps the content of the line -/
theorem svgPart_spec (l : Bytes) :
    (∃ x a, svgPart l = x ++ [a] ∧ a < 0x80) ∧ contentOf (svgPart l) = contentOf l := by
  unfold svgPart
  simp only []
  split
  · rename_i hg
    unfold endsWithGt at hg
    rw [beq_iff_eq, List.getLast?_eq_some_iff] at hg
    obtain ⟨x, hx⟩ := hg
    exact ⟨⟨x, 62, hx, by decide⟩, contentOf_trimSpace l⟩
  · refine ⟨⟨trimSpace l, 32, rfl, by decide⟩, ?_⟩
    rw [contentOf_append _ [32] (by rfl), contentOf_trimSpace]
    have : contentOf [32] = [] := by decide
    rw [this, List.append_nil]

theorem contentOf_svg_lines (ls : List Bytes) : contentOf (ls.map svgPart).flatten = (ls.map contentOf).flatten := by
  induction ls with
  | nil => rfl
  | cons l rest ih =>
    obtain ⟨⟨x, a, e, ha⟩, hc⟩ := svgPart_spec l
    simp only [List.map_cons, List.flatten_cons]
    rw [← hc, ← ih, e]
    exact contentOf_append_ascii x _ a ha

/-- the SVG flattening keeps the content of EVERY byte string: each line image ends in `>` or in the appended space, so
no white-space rune can form across a line boundary -/
theorem contentOf_stripSvg (s : Bytes) : contentOf (stripLineBreaksSvg s) = contentOf s := by
  unfold stripLineBreaksSvg
  conv => rhs; rw [← join_splitOn 10 s]
  rw [contentOf_join, contentOf_svg_lines]

/-! ## valid UTF-8 (Go `utf8.ValidString`) implies the guard -/

/-- state of the UTF-8 recogniser: the ranges the pending continuation bytes of the current rune must lie in -/
abbrev Utf8St := List (UInt8 × UInt8)

/-- ranges of the continuation bytes after lead byte `a` (RFC 3629, Go `utf8.ValidString`: no overlong forms, no
surrogates, nothing above U+10FFFF) -/
def leadInfo (a : UInt8) : Option Utf8St :=
  if a < 0x80 then some []
  else if 0xC2 ≤ a ∧ a ≤ 0xDF then some [(0x80, 0xBF)]
  else if a = 0xE0 then some [(0xA0, 0xBF), (0x80, 0xBF)]
  else if a = 0xED then some [(0x80, 0x9F), (0x80, 0xBF)]
  else if 0xE1 ≤ a ∧ a ≤ 0xEF then some [(0x80, 0xBF), (0x80, 0xBF)]
  else if a = 0xF0 then some [(0x90, 0xBF), (0x80, 0xBF), (0x80, 0xBF)]
  else if a = 0xF4 then some [(0x80, 0x8F), (0x80, 0xBF), (0x80, 0xBF)]
  else if 0xF1 ≤ a ∧ a ≤ 0xF3 then some [(0x80, 0xBF), (0x80, 0xBF), (0x80, 0xBF)]
  else none

def utf8Step : Utf8St → UInt8 → Option Utf8St
  | [], a => leadInfo a
  | (lo, hi) :: rest, b => if isCont b = true ∧ lo ≤ b ∧ b ≤ hi then some rest else none

def utf8Run : Utf8St → Bytes → Option Utf8St
  | st, [] => some st
  | st, a :: r => match utf8Step st a with
    | none => none
    | some st' => utf8Run st' r

/-- Go `utf8.ValidString` -/
def validUtf8 (s : Bytes) : Bool := utf8Run [] s == some []

theorem leadInfo_cont (c : UInt8) (h : isCont c = true) : leadInfo c = none := by
  unfold isCont at h
  simp only [Bool.and_eq_true, decide_eq_true_eq] at h
  obtain ⟨h1, h2⟩ := h
  unfold leadInfo
  simp only [UInt8.le_iff_toNat_le, UInt8.lt_iff_toNat_lt, ← UInt8.toNat_inj, UInt8.toNat_ofNat] at *
  repeat' split
  all_goals first | rfl | omega

theorem utf8Step_ascii (st st' : Utf8St) (a : UInt8) (ha : a < 0x80) (h : utf8Step st a = some st') : st = [] ∧ st' = [] := by
  cases st with
  | nil =>
    have h' : leadInfo a = some st' := h
    unfold leadInfo at h'
    rw [if_pos ha] at h'
    injection h' with h'
    exact ⟨rfl, h'.symm⟩
  | cons p rest =>
    obtain ⟨lo, hi⟩ := p
    have h' : (if isCont a = true ∧ lo ≤ a ∧ a ≤ hi then some rest else none) = some st' := h
    rw [not_isCont_ascii a ha] at h'
    simp at h'

theorem utf8Run_append (st : Utf8St) (x y : Bytes) :
    utf8Run st (x ++ y) = (utf8Run st x).bind (fun st' => utf8Run st' y) := by
  induction x generalizing st with
  | nil => rfl
  | cons a r ih =>
    simp only [List.cons_append, utf8Run]
    cases utf8Step st a with
    | none => rfl
    | some st' => exact ih st'

/-- every white-space rune is one valid UTF-8 rune -/
theorem utf8Run_wsRune (w : Bytes) (h : WsRune w) : utf8Run [] w = some [] := by
  unfold WsRune dropSpace1 at h
  split at h
  all_goals first
    | (injection h with h; subst h; decide)
    | (split at h
       · rename_i hc
         injection h with h; subst h
         have hb := isCont_of_e280 _ hc
         have hb' := hb
         unfold isCont at hb'
         simp only [Bool.and_eq_true, decide_eq_true_eq] at hb'
         have e1 : utf8Step [] 0xE2 = some [(0x80, 0xBF), (0x80, 0xBF)] := by decide
         have e2 : utf8Step [(0x80, 0xBF), (0x80, 0xBF)] 0x80 = some [(0x80, 0xBF)] := by decide
         simp only [utf8Run, e1, e2]
         simp only [utf8Step, hb, hb', and_self, if_true]
       · exact absurd h (by simp))
    | exact absurd h (by simp)

theorem utf8Run_allWs (p r : Bytes) (h : AllWs p) : utf8Run [] (p ++ r) = utf8Run [] r := by
  induction h with
  | nil => rfl
  | cons w q hw _ ih =>
    rw [List.append_assoc, utf8Run_append, utf8Run_wsRune w hw]
    exact ih

/-- the lines of a valid UTF-8 string are valid UTF-8 -/
theorem utf8Run_lines (ls : List Bytes) (h : utf8Run [] (join 10 ls) = some []) : ∀ l ∈ ls, utf8Run [] l = some [] := by
  induction ls with
  | nil => intro l hl; simp at hl
  | cons f rest ih =>
    cases rest with
    | nil =>
      intro l hl
      simp only [List.mem_cons, List.not_mem_nil, or_false] at hl
      subst hl; exact h
    | cons g gs =>
      simp only [join] at h
      rw [utf8Run_append] at h
      cases hf : utf8Run [] f with
      | none => rw [hf] at h; simp at h
      | some st =>
        rw [hf] at h
        simp only [Option.bind_some, utf8Run] at h
        cases hs : utf8Step st 10 with
        | none => rw [hs] at h; simp at h
        | some st' =>
          rw [hs] at h
          simp only [] at h
          obtain ⟨e1, e2⟩ := utf8Step_ascii st st' 10 (by decide) hs
          subst e1; subst e2
          intro l hl
          simp only [List.mem_cons] at hl
          rcases hl with rfl | hl
          · exact hf
          · exact ih h l (by simp only [List.mem_cons]; exact hl)

/-- a valid UTF-8 line, trimmed, does not begin with a continuation byte -/
theorem startsCont_trim_valid (l : Bytes) (h : utf8Run [] l = some []) : startsCont (trimSpace l) = false := by
  obtain ⟨pre, suf, e, hp, _⟩ := trimSpace_decomp l
  rw [e, List.append_assoc, utf8Run_allWs pre _ hp] at h
  cases hc : trimSpace l with
  | nil => rfl
  | cons c cs =>
    rw [hc] at h
    simp only [List.cons_append, utf8Run] at h
    cases hb : isCont c with
    | false => exact hb
    | true =>
      have : utf8Step [] c = none := leadInfo_cont c hb
      rw [this] at h
      simp at h

/-- **valid UTF-8 strings satisfy the guard** -/
theorem joinSafe_of_validUtf8 (s : Bytes) (h : validUtf8 s = true) : JoinSafe s := by
  unfold validUtf8 at h
  rw [beq_iff_eq, ← join_splitOn 10 s] at h
  have hl := utf8Run_lines _ h
  unfold JoinSafe joinSafe
  rw [List.all_eq_true]
  intro l hm
  rw [startsCont_trim_valid l (hl l (List.mem_of_mem_tail hm))]
  rfl

/-- ASCII strings are valid UTF-8 -/
theorem validUtf8_of_ascii (s : Bytes) (h : ∀ b ∈ s, b < 0x80) : validUtf8 s = true := by
  unfold validUtf8
  rw [beq_iff_eq]
  induction s with
  | nil => rfl
  | cons a r ih =>
    have ha : a < 0x80 := h a (by simp)
    have e : utf8Step [] a = some [] := by
      show leadInfo a = some []
      unfold leadInfo
      rw [if_pos ha]
    simp only [utf8Run, e]
    exact ih (fun b hb => h b (by simp [hb]))

theorem joinSafe_of_ascii (s : Bytes) (h : ∀ b ∈ s, b < 0x80) : JoinSafe s :=
  joinSafe_of_validUtf8 s (validUtf8_of_ascii s h)

/-- a string without line feed satisfies the guard (there is no line boundary) -/
theorem joinSafe_of_noLF (s : Bytes) (h : (10 : UInt8) ∉ s) : JoinSafe s := by
  unfold JoinSafe joinSafe
  rw [splitOn_nosep 10 s h]
  rfl

end RawPanelVerif.Strip
