import RawPanelVerif.Lemmas.LifecycleInvC
/-! Invariants W (wait-group accounting) and D (a dial only after the retry sleep) of the lifecycle LTS. -/
namespace RawPanelVerif.Lifecycle

/-- contribution of a writer goroutine to the wait-group counter.  Pinned code (`ae = false`): a goroutine that
has been spawned but has not yet executed its own `wg.Add(1)` is not counted. -/
def weight (ae : Bool) : WSt → Int
  | .spawned => if ae then 1 else 0
  | .running => 1
  | .writing => 1
  | _ => 0

def pendingW (ae : Bool) : List Conn → Int
  | [] => 0
  | c :: r => weight ae c.w + pendingW ae r

def base : Phase → Int
  | .returned => 0
  | _ => 1

def InvW (ae : Bool) (s : St) : Prop := s.wg = base s.phase + pendingW ae s.conns

theorem weight_nonneg (ae : Bool) (w : WSt) : 0 ≤ weight ae w := by
  cases w <;> cases ae <;> simp [weight]

theorem pendingW_nonneg (ae : Bool) : ∀ cs, 0 ≤ pendingW ae cs
  | [] => by simp [pendingW]
  | c :: r => by
    have := weight_nonneg ae c.w; have := pendingW_nonneg ae r
    simp only [pendingW]; omega

theorem pendingW_zero (ae : Bool) : ∀ cs, pendingW ae cs = 0 → ∀ c ∈ cs, weight ae c.w = 0
  | [], _, c, hc => by simp at hc
  | d :: r, h, c, hc => by
    have h1 := weight_nonneg ae d.w; have h2 := pendingW_nonneg ae r
    simp only [pendingW] at h
    simp at hc
    rcases hc with hc | hc
    · subst hc; omega
    · exact pendingW_zero ae r (by omega) c hc

theorem pendingW_set (ae : Bool) : ∀ (cs : List Conn) (i : Nat) (c c' : Conn), cs[i]? = some c →
    pendingW ae (cs.set i c') = pendingW ae cs - weight ae c.w + weight ae c'.w
  | [], i, c, c', h => by simp at h
  | d :: r, 0, c, c', h => by
    simp at h; subst h
    simp [pendingW]; omega
  | d :: r, i + 1, c, c', h => by
    simp at h
    have := pendingW_set ae r i c c' h
    simp [pendingW, this]; omega

theorem invW_init (ae : Bool) (nc rc : Nat) : InvW ae (initWith nc rc) := by simp [InvW, initWith, base, pendingW]

theorem invW_step (ae : Bool) (s s' : St) (l : Lbl) (hc : InvC s) (hi : InvW ae s) (hs : step ae s l = some s') : InvW ae s' := by
  unfold InvW at *
  cases l with
  | cancel => have := step_cancel hs; subst this; exact hi
  | offer => have := step_offer hs; subst this; exact hi
  | consumerStop => have := step_consumerStop hs; subst this; exact hi
  | consumerResume => have := step_consumerResume hs; subst this; exact hi
  | tick d => have := step_tick hs; subst this; exact hi
  | dialFail => obtain ⟨hp, rfl⟩ := step_dialFail hs; simp [hp, base] at hi ⊢; exact hi
  | noConnTimer => obtain ⟨hp, _, rfl⟩ := step_noConnTimer hs; simp [hp, base] at hi ⊢; exact hi
  | noConnDrain => obtain ⟨hp, _, rfl⟩ := step_noConnDrain hs; simp [hp, base] at hi ⊢; exact hi
  | sleepDone => obtain ⟨hp, _, rfl⟩ := step_sleepDone hs; simp [hp, base] at hi ⊢; exact hi
  | onConnect => obtain ⟨hp, rfl⟩ := step_onConnect hs; simp [hp, base] at hi ⊢; exact hi
  | dialOk bin =>
    obtain ⟨hp, rfl⟩ := step_dialOk hs
    simp [hp, base, pendingW, weight] at hi ⊢; exact hi
  | ret =>
    obtain ⟨hp, rfl⟩ := step_ret hs
    rcases hp with hp | ⟨hp, _⟩ <;> simp [hp, base] at hi ⊢ <;> omega
  | peerClose =>
    obtain ⟨c, rest, hcs, _, rfl⟩ := step_peerClose hs
    simp [hcs, pendingW] at hi ⊢; exact hi
  | byteArrive fin =>
    obtain ⟨c, rest, hcs, _, _, rfl⟩ := step_byteArrive hs
    simp [hcs, pendingW] at hi ⊢; exact hi
  | takeFrame =>
    obtain ⟨c, rest, hcs, _, _, _, _, rfl⟩ := step_takeFrame hs
    simp [hcs, pendingW] at hi ⊢; exact hi
  | deliver =>
    obtain ⟨c, rest, hcs, _, _, _, rfl⟩ := step_deliver hs
    simp [hcs, pendingW] at hi ⊢; exact hi
  | readErr =>
    obtain ⟨c, rest, hcs, hp, _, _, rfl⟩ := step_readErr hs
    simp [hp, base] at hi ⊢; exact hi
  | readFault =>
    obtain ⟨c, rest, hcs, hp, _, _, _, _, _, rfl⟩ := step_readFault hs
    simp [hcs, hp, base, pendingW] at hi ⊢; exact hi
  | closeQuit =>
    obtain ⟨c, rest, hcs, hp, rfl⟩ := step_closeQuit hs
    simp [hcs, hp, base, pendingW] at hi ⊢; exact hi
  | connClose =>
    obtain ⟨c, rest, hcs, hp, rfl⟩ := step_connClose hs
    simp [hcs, hp, base, pendingW] at hi ⊢; exact hi
  | onDisconnect b =>
    obtain ⟨c, rest, hcs, hp, _, rfl⟩ := step_onDisconnect hs
    cases b <;> simp [hp, base] at hi ⊢ <;> exact hi
  | spawnWriter =>
    obtain ⟨c, rest, hcs, hp, rfl⟩ := step_spawnWriter hs
    have hu : c.w = .unborn := (hc 0 c (by simp [hcs])).unbornIff.mpr ⟨rfl, hp⟩
    cases ae <;> simp [hcs, hp, base, pendingW, weight, hu] at hi ⊢ <;> omega
  | writerStart i =>
    obtain ⟨c, hcs, hw, rfl⟩ := step_writerStart hs
    simp only []
    rw [pendingW_set ae s.conns i c _ hcs]
    cases ae <;> simp [weight, hw] at hi ⊢ <;> omega
  | writerSeesCancel i =>
    obtain ⟨c, hcs, hw, _, rfl⟩ := step_writerSeesCancel hs
    simp only []
    rw [pendingW_set ae s.conns i c _ hcs]
    simp [weight, hw] at hi ⊢; omega
  | writerSeesQuit i =>
    obtain ⟨c, hcs, hw, _, rfl⟩ := step_writerSeesQuit hs
    simp only []
    rw [pendingW_set ae s.conns i c _ hcs]
    simp [weight, hw] at hi ⊢; omega
  | writerTake i =>
    obtain ⟨c, hcs, hw, _, rfl⟩ := step_writerTake hs
    simp only []
    rw [pendingW_set ae s.conns i c _ hcs]
    simp [weight, hw] at hi ⊢; omega
  | writeDone i =>
    obtain ⟨c, hcs, hw, _, rfl⟩ := step_writeDone hs
    simp only []
    rw [pendingW_set ae s.conns i c _ hcs]
    simp [weight, hw] at hi ⊢; omega
  | writeErr i =>
    obtain ⟨c, hcs, hw, _, rfl⟩ := step_writeErr hs
    simp only []
    rw [pendingW_set ae s.conns i c _ hcs]
    simp [weight, hw] at hi ⊢; omega

theorem invW_reachable {ae : Bool} {s : St} (h : Reachable ae s) : InvW ae s := by
  induction h with
  | init nc rc => exact invW_init ae nc rc
  | step l hr hs ih => exact invW_step ae _ _ l (invC_reachable hr) ih hs

/-! ### D: a new dial only after the retry sleep -/

/-- scanning the history backwards from now: the retry sleep has finished since the last disconnect callback -/
def sleptSinceDisc : List Ev → Bool
  | [] => true
  | .sleepDone :: _ => true
  | .disconnect _ :: _ => false
  | _ :: r => sleptSinceDisc r

/-- every established connection in the history was dialled after the retry sleep that followed the previous disconnect -/
def dialsOk : List Ev → Bool
  | [] => true
  | .dial :: r => sleptSinceDisc r && dialsOk r
  | _ :: r => dialsOk r

structure InvD (s : St) : Prop where
  dials : dialsOk s.log = true
  slept : (s.phase = .dialing ∨ s.phase = .noConnWait) → sleptSinceDisc s.log = true

theorem invD_init (nc rc : Nat) : InvD (initWith nc rc) := ⟨by simp [initWith, dialsOk], by simp [initWith, sleptSinceDisc]⟩

theorem invD_step (ae : Bool) (s s' : St) (l : Lbl) (hi : InvD s) (hs : step ae s l = some s') : InvD s' := by
  cases l with
  | cancel => have := step_cancel hs; subst this; exact ⟨hi.dials, hi.slept⟩
  | offer => have := step_offer hs; subst this; exact ⟨hi.dials, hi.slept⟩
  | consumerStop => have := step_consumerStop hs; subst this; exact ⟨hi.dials, hi.slept⟩
  | consumerResume => have := step_consumerResume hs; subst this; exact ⟨hi.dials, hi.slept⟩
  | tick d => have := step_tick hs; subst this; exact ⟨hi.dials, hi.slept⟩
  | dialFail => obtain ⟨hp, rfl⟩ := step_dialFail hs; exact ⟨hi.dials, fun _ => hi.slept (Or.inl hp)⟩
  | noConnTimer => obtain ⟨hp, _, rfl⟩ := step_noConnTimer hs; exact ⟨hi.dials, fun _ => hi.slept (Or.inr hp)⟩
  | noConnDrain => obtain ⟨hp, _, rfl⟩ := step_noConnDrain hs; exact ⟨hi.dials, fun _ => hi.slept (Or.inr hp)⟩
  | sleepDone => obtain ⟨hp, _, rfl⟩ := step_sleepDone hs; exact ⟨by simpa [dialsOk] using hi.dials, by simp [sleptSinceDisc]⟩
  | onConnect => obtain ⟨hp, rfl⟩ := step_onConnect hs; exact ⟨by simpa [dialsOk] using hi.dials, by simp⟩
  | dialOk bin =>
    obtain ⟨hp, rfl⟩ := step_dialOk hs
    exact ⟨by simp [dialsOk, hi.dials, hi.slept (Or.inl hp)], by simp⟩
  | ret => obtain ⟨hp, rfl⟩ := step_ret hs; exact ⟨by simpa [dialsOk] using hi.dials, by simp⟩
  | peerClose => obtain ⟨c, rest, hcs, _, rfl⟩ := step_peerClose hs; exact ⟨hi.dials, hi.slept⟩
  | byteArrive fin => obtain ⟨c, rest, hcs, _, _, rfl⟩ := step_byteArrive hs; exact ⟨hi.dials, hi.slept⟩
  | takeFrame => obtain ⟨c, rest, hcs, _, _, _, _, rfl⟩ := step_takeFrame hs; exact ⟨hi.dials, hi.slept⟩
  | deliver =>
    obtain ⟨c, rest, hcs, hp, _, _, rfl⟩ := step_deliver hs
    exact ⟨by simpa [dialsOk] using hi.dials, by simp [hp]⟩
  | readErr => obtain ⟨c, rest, hcs, hp, _, _, rfl⟩ := step_readErr hs; exact ⟨hi.dials, by simp⟩
  | readFault => obtain ⟨c, rest, hcs, hp, _, _, _, _, _, rfl⟩ := step_readFault hs; exact ⟨hi.dials, by simp⟩
  | closeQuit => obtain ⟨c, rest, hcs, hp, rfl⟩ := step_closeQuit hs; exact ⟨hi.dials, by simp⟩
  | connClose => obtain ⟨c, rest, hcs, hp, rfl⟩ := step_connClose hs; exact ⟨hi.dials, by simp⟩
  | onDisconnect b =>
    obtain ⟨c, rest, hcs, hp, _, rfl⟩ := step_onDisconnect hs
    exact ⟨by simpa [dialsOk] using hi.dials, by cases b <;> simp⟩
  | spawnWriter => obtain ⟨c, rest, hcs, hp, rfl⟩ := step_spawnWriter hs; exact ⟨hi.dials, by simp⟩
  | writerStart i => obtain ⟨c, hcs, hw, rfl⟩ := step_writerStart hs; exact ⟨hi.dials, hi.slept⟩
  | writerSeesCancel i => obtain ⟨c, hcs, hw, _, rfl⟩ := step_writerSeesCancel hs; exact ⟨hi.dials, hi.slept⟩
  | writerSeesQuit i => obtain ⟨c, hcs, hw, _, rfl⟩ := step_writerSeesQuit hs; exact ⟨hi.dials, hi.slept⟩
  | writerTake i => obtain ⟨c, hcs, hw, _, rfl⟩ := step_writerTake hs; exact ⟨hi.dials, hi.slept⟩
  | writeDone i => obtain ⟨c, hcs, hw, _, rfl⟩ := step_writeDone hs; exact ⟨hi.dials, hi.slept⟩
  | writeErr i => obtain ⟨c, hcs, hw, _, rfl⟩ := step_writeErr hs; exact ⟨hi.dials, hi.slept⟩

theorem invD_reachable {ae : Bool} {s : St} (h : Reachable ae s) : InvD s := by
  induction h with
  | init nc rc => exact invD_init nc rc
  | step l _ hs ih => exact invD_step ae _ _ l ih hs

end RawPanelVerif.Lifecycle
