import RawPanelVerif.Lemmas.EncSoundCmd
/-! C01 `enc_sound`, single-line state sections (`HWC#`, `HWCc#`, `HWCx#`, `HWCrawADCValues#`) and registers. -/
namespace RawPanelVerif.EncSound
open RawPanelVerif RawPanelVerif.Bytes RawPanelVerif.MsgIn RawPanelVerif.Model.In RawPanelVerif.InBits RawPanelVerif.ReadIn
open RawPanelVerif.Spec.In

variable (O : Oracles)

theorem keyHeadOk_append (F x : Bytes) (h : keyHeadOk F = true) : keyHeadOk (F ++ x) = true := by
  cases F with
  | nil => simp [keyHeadOk] at h
  | cons c cs => exact h

/-- `family#id=value` -/
theorem read_hash (F Fh : Bytes) (id : Nat) (v : Bytes) (hF : Fh = F ++ [35]) (h0 : keyHeadOk F = true)
    (h61 : (61 : UInt8) ∉ F) (h35 : (35 : UInt8) ∉ F) :
    readLine O (Fh ++ utoa id ++ asc "=" ++ v) = readHash F (utoa id) v := by
  have e : Fh ++ utoa id ++ asc "=" ++ v = (F ++ 35 :: utoa id) ++ 61 :: v := by
    rw [hF, show asc "=" = [61] by decide]; simp
  rw [e, readLine_kv' O _ _ (keyHeadOk_append _ _ h0) (by
    intro hm
    simp only [List.mem_append, List.mem_cons] at hm
    rcases hm with hm | hm | hm
    · exact h61 hm
    · exact absurd hm (by decide)
    · exact not_mem_utoa id 61 (by decide) hm)]
  rw [cut_append 35 F (utoa id) h35]

theorem mode_reads (id : Nat) (hid : id < 4294967296) (m : Option Mode)
    (h : (match m with | some m => enumOk m.state 5 && decide (m.blink < 16) | none => true) = true) :
    Reads O (modeLines id m)
      (opt m (fun m => [Effect.setMode id { state := m.state.toNat, output := m.output, blink := m.blink }])) := by
  unfold modeLines
  refine optLine_reads O _ _ _ (fun m hm => Reads.single ?_)
  subst hm
  simp only [Bool.and_eq_true, decide_eq_true_eq] at h
  have hs := enumOk_range _ _ h.1
  rw [read_hash O (asc "HWC") (asc "HWC#") id _ (by decide) (by decide) (by decide) (by decide)]
  unfold readHash
  rw [if_pos rfl]
  obtain ⟨s, o, b⟩ := m
  simp only [] at hs h ⊢
  have es : s = ((s.toNat : Nat) : Int) := by omega
  have hmi : modeInt { state := s, output := o, blink := b } < 4294967296 := by
    rw [modeInt_eq]; cases o <;> simp <;> omega
  rw [num_utoa _ hmi]
  simp only []
  rw [forIds_utoa id hid]
  have := InBits.mode_pack s.toNat b o (by omega) h.2
  rw [← es] at this
  rw [this]

theorem ext_reads (id : Nat) (hid : id < 4294967296) (e : Option Ext)
    (h : (match e with | some e => enumOk e.interp 15 && decide (e.value < 4096) | none => true) = true) :
    Reads O (extLines id e)
      (opt e (fun e => [Effect.setExt id { interp := e.interp.toNat, value := e.value }])) := by
  unfold extLines
  refine optLine_reads O _ _ _ (fun e he => Reads.single ?_)
  subst he
  simp only [Bool.and_eq_true, decide_eq_true_eq] at h
  have hs := enumOk_range _ _ h.1
  rw [read_hash O (asc "HWCx") (asc "HWCx#") id _ (by decide) (by decide) (by decide) (by decide)]
  unfold readHash
  rw [if_neg (by decide), if_pos rfl]
  obtain ⟨i, v⟩ := e
  simp only [] at hs h ⊢
  have es : i = ((i.toNat : Nat) : Int) := by omega
  have hmi : extInt { interp := i, value := v } < 4294967296 := by
    rw [extInt_eq]; omega
  rw [num_utoa _ hmi]
  simp only []
  rw [forIds_utoa id hid]
  have := InBits.ext_pack i.toNat v (by omega) h.2
  rw [← es] at this
  rw [this]

theorem raw_reads (id : Nat) (hid : id < 4294967296) (r : Option Bool) :
    Reads O (rawLines id r) (opt r (fun on => [Effect.setRawADC id on])) := by
  unfold rawLines
  refine optLine_reads O _ _ _ (fun on _ => Reads.single ?_)
  rw [read_hash O (asc "HWCrawADCValues") (asc "HWCrawADCValues#") id _ (by decide) (by decide) (by decide) (by decide)]
  unfold readHash
  rw [if_neg (by decide), if_neg (by decide), if_neg (by decide), if_neg (by decide), if_pos rfl]
  cases on
  · rw [show b01 false = asc "0" from rfl, if_neg (by decide), if_pos rfl, forIds_utoa id hid]
  · rw [show b01 true = asc "1" from rfl, if_pos rfl, forIds_utoa id hid]

theorem color_reads (id : Nat) (hid : id < 4294967296) (c : Option Color)
    (h : (match c with | some c => colorOk c | none => true) = true) :
    Reads O (colorLines id c) (opt c (fun c => opt (colorOf c) (fun ce => [Effect.setColor id ce]))) := by
  unfold colorLines
  refine optLine_reads O _ _ _ (fun c hc => ?_)
  subst hc
  obtain ⟨rgb, idx⟩ := c
  simp only [] at h ⊢
  cases rgb with
  | some rgb =>
    cases idx with
    | some i => simp [colorOk] at h
    | none =>
      refine Reads.single ?_
      rw [read_hash O (asc "HWCc") (asc "HWCc#") id _ (by decide) (by decide) (by decide) (by decide)]
      unfold readHash
      rw [if_neg (by decide), if_neg (by decide), if_pos rfl]
      have hmi : colorRGBInt rgb < 4294967296 := by rw [colorRGBInt_eq]; omega
      rw [num_utoa _ hmi]
      simp only []
      rw [forIds_utoa id hid]
      obtain ⟨r, g, b⟩ := rgb
      rw [InBits.colRGB_pack]
      rfl
  | none =>
    cases idx with
    | none => exact Reads.nil O
    | some i =>
      refine Reads.single ?_
      simp only [colorOk] at h
      have hr := enumOk_range _ _ h
      rw [read_hash O (asc "HWCc") (asc "HWCc#") id _ (by decide) (by decide) (by decide) (by decide)]
      unfold readHash
      rw [if_neg (by decide), if_neg (by decide), if_pos rfl]
      have hmi : colorIndexInt i < 4294967296 := by rw [colorIndexInt_eq]; omega
      rw [num_utoa _ hmi]
      simp only []
      rw [forIds_utoa id hid]
      have es : i = ((i.toNat : Nat) : Int) := by omega
      have := InBits.colIndex_pack i.toNat (by omega)
      rw [← es] at this
      rw [this]
      rfl

theorem read_hash' (F Fh idsText v : Bytes) (hF : Fh = F ++ [35]) (h0 : keyHeadOk F = true)
    (h61 : (61 : UInt8) ∉ F) (h35 : (35 : UInt8) ∉ F) (hi : (61 : UInt8) ∉ idsText) :
    readLine O (Fh ++ idsText ++ asc "=" ++ v) = readHash F idsText v := by
  have e : Fh ++ idsText ++ asc "=" ++ v = (F ++ 35 :: idsText) ++ 61 :: v := by
    rw [hF, show asc "=" = [61] by decide]; simp
  rw [e, readLine_kv' O _ _ (keyHeadOk_append _ _ h0) (by
    intro hm
    simp only [List.mem_append, List.mem_cons] at hm
    rcases hm with hm | hm | hm
    · exact h61 hm
    · exact absurd hm (by decide)
    · exact hi hm)]
  rw [cut_append 35 F idsText h35]

theorem all_not_mem (p : UInt8 → Bool) (l : Bytes) (b : UInt8) (h : l.all p = true) (hb : p b = false) : b ∉ l := by
  intro hm
  rw [List.all_eq_true] at h
  rw [h b hm] at hb
  exact absurd hb (by simp)

/-- two strings that differ within their first two bytes -/
def differ2 (W K : Bytes) : Bool := W.length ≥ 2 && W.take 2 != K.take 2

theorem differ2_ne (W K id : Bytes) (h : differ2 W K = true) : W ++ id ≠ K := by
  unfold differ2 at h
  simp only [Bool.and_eq_true, decide_eq_true_eq, bne_iff_ne, ne_eq] at h
  intro e
  apply h.2
  rw [← e, List.take_append_of_le_length h.1]

theorem lookup_none {β : Type} (W id : Bytes) (tbl : List (Bytes × β)) (h : tbl.all (fun p => differ2 W p.1) = true) :
    tbl.lookup (W ++ id) = none := by
  induction tbl with
  | nil => rfl
  | cons p ps ih =>
    simp only [List.all_cons, Bool.and_eq_true] at h
    obtain ⟨k, v⟩ := p
    have hne : W ++ id ≠ k := differ2_ne W k id h.1
    simp only [List.lookup]
    have : (W ++ id == k) = false := by simp [hne]
    rw [this]
    exact ih h.2

theorem dropPrefix_append (W id : Bytes) : dropPrefix W (W ++ id) = some id := by
  induction W with
  | nil => cases id <;> rfl
  | cons c cs ih => simp [dropPrefix, ih]

/-- plain register lines `Mem…`, `Shift…`, `State…` -/
theorem read_regPlain (W Weq id : Bytes) (k : RegKind) (v : Nat) (hv : v < 4294967296)
    (hW : asc "=" = [61])
    (h0 : keyHeadOk W = true) (h61 : (61 : UInt8) ∉ W) (h35 : (35 : UInt8) ∉ W)
    (hid : id.all Spec.In.isUpperDigit = true)
    (hsp : [asc "ActivePanel", asc "PanelBrightness", asc "SetCalibrationProfile", asc "SetNetworkConfig",
            asc "SimulateEnvironmentalHealth"].all (fun K => differ2 W K) = true)
    (hnum : numCmdTable.all (fun p => differ2 W p.1) = true)
    (hreg : readRegKey regWord (W ++ id) = some (k, id)) (hWeq : Weq = W) :
    readLine O (Weq ++ id ++ asc "=" ++ utoa v) = .effects [.reg k id v] := by
  rw [hWeq]
  have h61' : (61 : UInt8) ∉ W ++ id := by
    intro hm
    simp only [List.mem_append] at hm
    rcases hm with hm | hm
    · exact h61 hm
    · exact all_not_mem _ id 61 hid (by decide) hm
  have h35' : (35 : UInt8) ∉ W ++ id := by
    intro hm
    simp only [List.mem_append] at hm
    rcases hm with hm | hm
    · exact h35 hm
    · exact all_not_mem _ id 35 hid (by decide) hm
  rw [hW, List.append_assoc, List.singleton_append,
    readLine_kv' O _ _ (keyHeadOk_append _ _ h0) h61', cut_none 35 _ h35']
  simp only []
  unfold readPlain
  simp only [List.all_cons, List.all_nil, Bool.and_true, Bool.and_eq_true] at hsp
  rw [if_neg (differ2_ne _ _ _ hsp.1), if_neg (differ2_ne _ _ _ hsp.2.1), if_neg (differ2_ne _ _ _ hsp.2.2.1),
    if_neg (differ2_ne _ _ _ hsp.2.2.2.1), if_neg (differ2_ne _ _ _ hsp.2.2.2.2)]
  rw [lookup_none W id numCmdTable hnum]
  simp only [hreg, num_utoa v hv]

theorem regKey_mem (id : Bytes) (h : id.all Spec.In.isUpperDigit = true) : readRegKey regWord (asc "Mem" ++ id) = some (.mem, id) := by
  unfold regWord readRegKey
  rw [dropPrefix_append]
  simp only [h, if_true]

theorem regKey_shift (id : Bytes) (h : id.all Spec.In.isUpperDigit = true) : readRegKey regWord (asc "Shift" ++ id) = some (.shift, id) := by
  unfold regWord readRegKey
  have : dropPrefix (asc "Mem") (asc "Shift" ++ id) = none := by
    rw [show asc "Mem" = [77, 101, 109] by decide, show asc "Shift" = [83, 104, 105, 102, 116] by decide]
    simp [dropPrefix]
  rw [this]
  simp only []
  unfold readRegKey
  rw [dropPrefix_append]
  simp only [h, if_true]

theorem regKey_state (id : Bytes) (h : id.all Spec.In.isUpperDigit = true) : readRegKey regWord (asc "State" ++ id) = some (.state, id) := by
  unfold regWord readRegKey
  have : dropPrefix (asc "Mem") (asc "State" ++ id) = none := by
    rw [show asc "Mem" = [77, 101, 109] by decide, show asc "State" = [83, 116, 97, 116, 101] by decide]
    simp [dropPrefix]
  rw [this]
  simp only []
  unfold readRegKey
  have : dropPrefix (asc "Shift") (asc "State" ++ id) = none := by
    rw [show asc "Shift" = [83, 104, 105, 102, 116] by decide, show asc "State" = [83, 116, 97, 116, 101] by decide]
    simp [dropPrefix]
  rw [this]
  simp only []
  unfold readRegKey
  rw [dropPrefix_append]
  simp only [h, if_true]


theorem reg_reads (r : Register) (h : regOk r = true) : Reads O (regLine r) (effectsOfReg r) := by
  unfold regOk at h
  simp only [Bool.and_eq_true] at h
  obtain ⟨⟨hk, hv⟩, hid⟩ := h
  have hr := enumOk_range _ _ hk
  have hv' := u32ok_lt _ hv
  unfold regLine effectsOfReg
  have : r.reg = 0 ∨ r.reg = 1 ∨ r.reg = 2 ∨ r.reg = 3 := by omega
  rcases this with e | e | e | e
  · rw [e] at hid ⊢
    simp only [show ¬ ((0 : Int) = 1) by decide, if_false] at hid
    simp only [if_true]
    exact Reads.single (read_regPlain O (asc "Mem") (asc "Mem") r.id .mem r.value hv' (by decide) (by decide) (by decide) (by decide)
      hid (by decide) (by decide) (regKey_mem r.id hid) rfl)
  · rw [e] at hid ⊢
    simp only [if_true] at hid
    simp only [show ¬ ((1 : Int) = 0) by decide, if_false, if_true]
    refine Reads.single ?_
    rw [read_hash' O (asc "Flag") (asc "Flag#") r.id _ (by decide) (by decide) (by decide) (by decide)
      (all_not_mem _ r.id 61 hid (by decide))]
    unfold readHash
    rw [if_neg (by decide), if_neg (by decide), if_neg (by decide), if_neg (by decide), if_neg (by decide),
      if_neg (by decide), if_neg (by decide), if_neg (by decide), if_pos rfl, num_utoa _ hv']
    cases flagId? r.id <;> rfl
  · rw [e] at hid ⊢
    simp only [show ¬ ((2 : Int) = 1) by decide, if_false] at hid
    simp only [show ¬ ((2 : Int) = 0) by decide, show ¬ ((2 : Int) = 1) by decide, if_false, if_true]
    exact Reads.single (read_regPlain O (asc "Shift") (asc "Shift") r.id .shift r.value hv' (by decide) (by decide) (by decide) (by decide)
      hid (by decide) (by decide) (regKey_shift r.id hid) rfl)
  · rw [e] at hid ⊢
    simp only [show ¬ ((3 : Int) = 1) by decide, if_false] at hid
    simp only [show ¬ ((3 : Int) = 0) by decide, show ¬ ((3 : Int) = 1) by decide, show ¬ ((3 : Int) = 2) by decide, if_false, if_true]
    exact Reads.single (read_regPlain O (asc "State") (asc "State") r.id .state r.value hv' (by decide) (by decide) (by decide) (by decide)
      hid (by decide) (by decide) (regKey_state r.id hid) rfl)

end RawPanelVerif.EncSound
