import RawPanelVerif.Model.Pix
import RawPanelVerif.Lemmas.MonoFrame
import RawPanelVerif.Spec.PixSpec
/-!
# Helper lemmas for C17: invariants of the panicking loops, `image.RGBA` model, bit fields
-/
namespace RawPanelVerif.Pix
open RawPanelVerif RawPanelVerif.Mono

/-! ## loops -/

theorem loopFrom_inv {σ : Type} (f : σ → Nat → Option σ) (Inv : Nat → σ → Prop) :
    ∀ (k i : Nat) (s : σ), Inv i s →
      (∀ j s, i ≤ j → j < i + k → Inv j s → ∃ s', f s j = some s' ∧ Inv (j + 1) s') →
      ∃ s', loopFrom f k i s = some s' ∧ Inv (i + k) s' := by
  intro k
  induction k with
  | zero => intro i s h _; exact ⟨s, rfl, h⟩
  | succ k ih =>
    intro i s h hstep
    obtain ⟨s1, h1, h2⟩ := hstep i s (Nat.le_refl _) (by omega) h
    obtain ⟨s2, h3, h4⟩ := ih (i + 1) s1 h2 (fun j s hj hj' => hstep j s (by omega) (by omega))
    refine ⟨s2, ?_, ?_⟩
    · simp only [loopFrom, h1]; exact h3
    · have : i + (k + 1) = i + 1 + k := by omega
      rw [this]; exact h4

/-- invariant rule for `for i := 0; i < n; i++`: the loop does not panic and the invariant holds at exit -/
theorem forN_inv {σ : Type} (n : Nat) (f : σ → Nat → Option σ) (s : σ) (Inv : Nat → σ → Prop)
    (h0 : Inv 0 s) (hstep : ∀ j s, j < n → Inv j s → ∃ s', f s j = some s' ∧ Inv (j + 1) s') :
    ∃ s', forN n f s = some s' ∧ Inv n s' := by
  have := loopFrom_inv f Inv n 0 s h0 (fun j s _ hj => hstep j s (by omega))
  simpa [forN] using this

/-- invariant rule for the row/column double loop; `Inv r k` = "about to process column k of row r" -/
theorem raster_inv {σ : Type} (H W : Nat) (body : σ → Nat → Nat → Option σ) (Inv : Nat → Nat → σ → Prop) (s0 : σ)
    (h0 : Inv 0 0 s0)
    (hwrap : ∀ r s, r < H → Inv r W s → Inv (r + 1) 0 s)
    (hstep : ∀ r k s, r < H → k < W → Inv r k s → ∃ s', body s r k = some s' ∧ Inv r (k + 1) s') :
    ∃ s', raster H W body s0 = some s' ∧ Inv H 0 s' := by
  unfold raster
  apply forN_inv H _ s0 (fun r s => Inv r 0 s) h0
  intro r s hr hinv
  obtain ⟨s', h1, h2⟩ := forN_inv W (fun s k => body s r k) s (fun k s => Inv r k s) hinv
    (fun k s hk hi => hstep r k s hr hk hi)
  exact ⟨s', h1, hwrap r s' hr h2⟩

/-- pixel (x,y) comes before (k,r) in row-major order -/
def before (r k x y : Nat) : Prop := y < r ∨ (y = r ∧ x < k)

theorem before_succ {r k x y : Nat} : before r (k + 1) x y ↔ before r k x y ∨ (x = k ∧ y = r) := by
  unfold before; omega

theorem before_wrap {r W x y : Nat} (hx : x < W) : before (r + 1) 0 x y ↔ before r W x y := by
  unfold before; omega

theorem before_end {H x y : Nat} (hy : y < H) : before H 0 x y := by unfold before; omega

theorem not_before_zero {x y : Nat} : ¬ before 0 0 x y := by unfold before; omega

/-- row-major pixel index is below `w*h` -/
theorem idx_lt (w h x y : Nat) (hx : x < w) (hy : y < h) : y * w + x < w * h := by
  have : (y + 1) * w ≤ h * w := Nat.mul_le_mul_right w (by omega)
  rw [Nat.add_mul, Nat.one_mul, Nat.mul_comm h w] at this
  omega

/-- strict row-major order of indices -/
theorem idx_lt_of_before (w r k x y : Nat) (hx : x < w) (hb : before r k x y) : y * w + x < r * w + k := by
  rcases hb with h | ⟨h, h'⟩
  · have : (y + 1) * w ≤ r * w := Nat.mul_le_mul_right w (by omega)
    rw [Nat.add_mul, Nat.one_mul] at this
    omega
  · subst h; omega

/-! ## `image.RGBA` -/

theorem Img.new_wf (w h : Nat) : (Img.new w h).WF := by simp [Img.new, Img.WF]
theorem Img.fill_wf (w h : Nat) (c : RGBA) : (Img.fill w h c).WF := by simp [Img.fill, Img.WF]

theorem Img.setPx_w (i : Img) (x y : Int) (c : RGBA) : (i.setPx x y c).w = i.w := by
  unfold Img.setPx; split <;> rfl
theorem Img.setPx_h (i : Img) (x y : Int) (c : RGBA) : (i.setPx x y c).h = i.h := by
  unfold Img.setPx; split <;> rfl
theorem Img.setPx_wf (i : Img) (x y : Int) (c : RGBA) (h : i.WF) : (i.setPx x y c).WF := by
  unfold Img.setPx Img.WF at *; split <;> simp [h]

/-- `Set` then `At` -/
theorem Img.at_setPx (i : Img) (hwf : i.WF) (x y : Int) (c : RGBA) (x' y' : Int) :
    (i.setPx x y c).at x' y' =
      if x' = x ∧ y' = y ∧ 0 ≤ x ∧ x < i.w ∧ 0 ≤ y ∧ y < i.h then c else i.at x' y' := by
  unfold Img.setPx
  by_cases hin : 0 ≤ x ∧ x < i.w ∧ 0 ≤ y ∧ y < i.h
  · rw [if_pos hin]
    unfold Img.at
    simp only []
    by_cases hin' : 0 ≤ x' ∧ x' < i.w ∧ 0 ≤ y' ∧ y' < i.h
    · rw [if_pos hin', if_pos hin']
      obtain ⟨X, hX⟩ := Int.eq_ofNat_of_zero_le hin.1
      obtain ⟨Y, hY⟩ := Int.eq_ofNat_of_zero_le hin.2.2.1
      obtain ⟨X', hX'⟩ := Int.eq_ofNat_of_zero_le hin'.1
      obtain ⟨Y', hY'⟩ := Int.eq_ofNat_of_zero_le hin'.2.2.1
      subst hX hY hX' hY'
      simp only [Int.toNat_natCast]
      have hlt : Y * i.w + X < i.px.size := by
        rw [hwf]; exact idx_lt i.w i.h X Y (by omega) (by omega)
      rw [Array.getD_eq_getD_getElem?, Array.getElem?_setIfInBounds]
      by_cases he : Y * i.w + X = Y' * i.w + X'
      · obtain ⟨h1, h2⟩ := idx_inj i.w Y Y' X X' (by omega) (by omega) he
        subst h1 h2
        simp [hlt]
        omega
      · rw [if_neg he, ← Array.getD_eq_getD_getElem?]
        have : ¬ ((X' : Int) = X ∧ (Y' : Int) = Y ∧ 0 ≤ (X : Int) ∧ (X : Int) < i.w ∧ 0 ≤ (Y : Int) ∧ (Y : Int) < i.h) := by
          rintro ⟨h1, h2, _⟩
          apply he
          have : X' = X := by omega
          have : Y' = Y := by omega
          subst_vars; rfl
        rw [if_neg this]
    · rw [if_neg hin', if_neg hin', if_neg]
      rintro ⟨h1, h2, _⟩; subst h1 h2; exact hin' hin
  · rw [if_neg hin, if_neg]
    rintro ⟨_, _, h⟩; exact hin h

theorem Img.at_new (w h : Nat) (x y : Int) : (Img.new w h).at x y = (0, 0, 0, 0) := by
  unfold Img.at Img.new
  split
  · simp [Array.getD_eq_getD_getElem?, Array.getElem?_replicate]; split <;> rfl
  · rfl

/-! ## bit fields -/

theorem mask_bit (s i : Nat) (hs : s < 8) (hi : i < 8) : (1#8 <<< s).getLsbD i = decide (i = s) := by
  rw [BitVec.getLsbD_shiftLeft, BitVec.getLsbD_one]
  by_cases h : i = s
  · subst h; simp [hi]
  · by_cases h2 : i < s
    · simp [h2, h]
    · have : i - s ≠ 0 := by omega
      simp [this, h]

theorem bitSet_eq (b : Byte) (s : Nat) (hs : s < 8) : bitSet b s = b.getLsbD s := by
  unfold bitSet
  cases hb : b.getLsbD s
  · have : b &&& (1#8 <<< s) = 0#8 := by
      apply BitVec.eq_of_getLsbD_eq
      intro i hi
      rw [BitVec.getLsbD_and, mask_bit s i hs hi]
      by_cases h : i = s
      · subst h; simp [hb]
      · simp [h]
    rw [this]; rfl
  · have : b &&& (1#8 <<< s) ≠ 0#8 := by
      intro h
      have h2 : (b &&& (1#8 <<< s)).getLsbD s = true := by
        rw [BitVec.getLsbD_and, mask_bit s s hs hs, hb]; simp
      rw [h] at h2; simp at h2
    simp [this]

/-! ## colours, luma, expansions -/

theorem mapValue_nat (n a b : Nat) : mapValue (n : Int) 0 (a : Int) 0 (b : Int) = ((n * b / a : Nat) : Int) := by
  unfold mapValue
  simp only [Int.sub_zero, Int.add_zero]
  rw [Int.tdiv_eq_ediv_of_nonneg (by exact Int.mul_nonneg (Int.natCast_nonneg _) (Int.natCast_nonneg _))]
  norm_cast

theorem and_3 (x : Nat) : x &&& 3 = x % 4 := Nat.and_two_pow_sub_one_eq_mod x 2
theorem and_15 (x : Nat) : x &&& 15 = x % 16 := Nat.and_two_pow_sub_one_eq_mod x 4
theorem and_31 (x : Nat) : x &&& 31 = x % 32 := Nat.and_two_pow_sub_one_eq_mod x 5
theorem and_63 (x : Nat) : x &&& 63 = x % 64 := Nat.and_two_pow_sub_one_eq_mod x 6
theorem and_255 (x : Nat) : x &&& 255 = x % 256 := Nat.and_two_pow_sub_one_eq_mod x 8
theorem and_65535 (x : Nat) : x &&& 65535 = x % 65536 := Nat.and_two_pow_sub_one_eq_mod x 16

theorem color565_closed (code : Nat) :
    color565 code = (code % 4 * 31 / 3) * 2048 + (code / 4 % 4 * 63 / 3) * 32 + code / 16 % 4 * 31 / 3 := by
  unfold color565
  have e1 : ((3 : Int)) = ((3 : Nat) : Int) := rfl
  have e2 : ((31 : Int)) = ((31 : Nat) : Int) := rfl
  have e3 : ((63 : Int)) = ((63 : Nat) : Int) := rfl
  simp only [e1, e2, e3, mapValue_nat, Int.toNat_natCast]
  simp only [and_3, Nat.shiftRight_eq_div_pow, Nat.pow_zero, Nat.div_one, Nat.reducePow]
  generalize hr : code / 16 % 4 = r
  generalize hg : code / 4 % 4 = g
  generalize hb : code % 4 = b
  have : r = 0 ∨ r = 1 ∨ r = 2 ∨ r = 3 := by omega
  have : g = 0 ∨ g = 1 ∨ g = 2 ∨ g = 3 := by omega
  have : b = 0 ∨ b = 1 ∨ b = 2 ∨ b = 3 := by omega
  rcases ‹r = 0 ∨ _› with h|h|h|h <;> rcases ‹g = 0 ∨ _› with h'|h'|h'|h' <;> rcases ‹b = 0 ∨ _› with h''|h''|h''|h'' <;>
    subst h h' h'' <;> rfl

theorem spec_color565_closed (code : Nat) :
    Spec.Pix.color565 code = (code % 4 * 31 / 3) * 2048 + (code / 4 % 4 * 63 / 3) * 32 + code / 16 % 4 * 31 / 3 := by
  unfold Spec.Pix.color565
  generalize hr : code / 16 % 4 = r
  generalize hg : code / 4 % 4 = g
  generalize hb : code % 4 = b
  have : r = 0 ∨ r = 1 ∨ r = 2 ∨ r = 3 := by omega
  have : g = 0 ∨ g = 1 ∨ g = 2 ∨ g = 3 := by omega
  have : b = 0 ∨ b = 1 ∨ b = 2 ∨ b = 3 := by omega
  rcases ‹r = 0 ∨ _› with h|h|h|h <;> rcases ‹g = 0 ∨ _› with h'|h'|h'|h' <;> rcases ‹b = 0 ∨ _› with h''|h''|h''|h'' <;>
    subst h h' h'' <;> rfl

theorem sixbit_table : ∀ code : Fin 64, color565 code.val = Spec.Pix.color565 code.val := by decide

theorem rgb16ToGray_eq (c : Nat) : (rgb16ToGray c).toNat = Spec.Pix.luma8 c := by
  unfold rgb16ToGray Spec.Pix.luma8
  simp only [and_31, and_63, and_65535, Nat.shiftRight_eq_div_pow, Nat.shiftLeft_eq, Nat.reducePow, Nat.one_mul,
    BitVec.toNat_ofNat]
  generalize hr : c % 32 = r
  generalize hg : c / 32 % 64 = g
  generalize hb : c / 2048 % 32 = b
  have hr' : r < 32 := by omega
  have hg' : g < 64 := by omega
  have hb' : b < 32 := by omega
  have h1 : r * 2114 % 65536 = r * 2114 := Nat.mod_eq_of_lt (by omega)
  have h2 : g * 1040 % 65536 = g * 1040 := Nat.mod_eq_of_lt (by omega)
  have h3 : b * 2114 % 65536 = b * 2114 := Nat.mod_eq_of_lt (by omega)
  rw [h1, h2, h3]
  generalize hs : 19595 * (r * 2114) + 38470 * (g * 1040) + 7471 * (b * 2114) + 32768 = S
  have hS : S < 4294967296 := by omega
  rw [Nat.mod_eq_of_lt hS]
  clear hs h1 h2 h3 hr hg hb
  have hl : S / 65536 < 65536 := by omega
  rw [Nat.mod_eq_of_lt hl]
  omega

theorem msb_toNat (c : Nat) (hc : c < 65536) : (BitVec.ofNat 8 (c >>> 8)).toNat = c / 256 := by
  simp only [BitVec.toNat_ofNat, Nat.shiftRight_eq_div_pow, Nat.reducePow]; omega
theorem lsb_toNat (c : Nat) : (BitVec.ofNat 8 (c &&& 0xFF)).toNat = c % 256 := by
  simp only [BitVec.toNat_ofNat, and_255, Nat.reducePow]; omega

theorem u8_nat (n : Nat) : u8 (n : Int) = n % 256 := by
  unfold u8; omega

theorem rgbOfWord_eq (word : Nat) :
    rgbOfWord word = (word % 32 * 255 / 31 % 256, word / 32 % 64 * 255 / 63 % 256, word / 2048 % 32 * 255 / 31 % 256, 255) := by
  unfold rgbOfWord
  have e1 : ((0b11111 : Int)) = ((31 : Nat) : Int) := rfl
  have e2 : ((0b111111 : Int)) = ((63 : Nat) : Int) := rfl
  have e3 : ((255 : Int)) = ((255 : Nat) : Int) := rfl
  simp only [e1, e2, e3, mapValue_nat, u8_nat, and_31, and_63, Nat.shiftRight_eq_div_pow, Nat.reducePow]

theorem grayOfNibble_eq (n : Byte) (hn : n.toNat < 16) : grayOfNibble n = (n.toNat * 17, n.toNat * 17, n.toNat * 17, 255) := by
  unfold grayOfNibble
  have e1 : ((0b1111 : Int)) = ((15 : Nat) : Int) := rfl
  have e3 : ((255 : Int)) = ((255 : Nat) : Int) := rfl
  simp only [e1, e3, mapValue_nat, u8_nat]
  have : n.toNat * 255 / 15 % 256 = n.toNat * 17 := by omega
  rw [this]

/-! ## RGB565 export -/

/-- reading the byte of pixel (x,y) of a well-formed canvas succeeds and its bit is `getPx` -/
theorem canvas_read (c : Canvas) (hsz : c.geo.wib * c.geo.H ≤ c.bytes.size)
    (x y : Nat) (hx : x < c.geo.wib * 8) (hy : y < c.geo.H) :
    ∃ b, c.bytes[y * c.geo.wib + x / 8]? = some b ∧ bitSet b (7 - x % 8) = getPx c x y := by
  have hlt : y * c.geo.wib + x / 8 < c.bytes.size := by
    have := idx_lt c.geo.wib c.geo.H (x / 8) y (by omega) hy
    omega
  refine ⟨c.bytes[y * c.geo.wib + x / 8], Array.getElem?_eq_getElem hlt, ?_⟩
  rw [bitSet_eq _ _ (by omega)]
  unfold getPx
  rw [Array.getD_eq_getD_getElem?, Array.getElem?_eq_getElem hlt]
  rfl

theorem wr_some {α : Type} (a : Array α) (i : Nat) (v : α) (h : i < a.size) : wr a i v = some (a.set i v h) := by
  unfold wr; rw [dif_pos h]

def hiB (c : Canvas) (pcol bcol : Nat) (x y : Nat) : Byte :=
  if getPx c x y then BitVec.ofNat 8 (pcol >>> 8) else BitVec.ofNat 8 (bcol >>> 8)
def loB (c : Canvas) (pcol bcol : Nat) (x y : Nat) : Byte :=
  if getPx c x y then BitVec.ofNat 8 (pcol &&& 0xFF) else BitVec.ofNat 8 (bcol &&& 0xFF)

theorem sliceRGB_spec (c : Canvas) (hwf : c.WF) (pcol bcol : Nat) :
    ∃ out, sliceRGB c pcol bcol = some out ∧ out.size = c.geo.W * c.geo.H * 2 ∧
      ∀ x y, x < c.geo.W → y < c.geo.H →
        out[2 * (y * c.geo.W + x)]? = some (hiB c pcol bcol x y) ∧
        out[2 * (y * c.geo.W + x) + 1]? = some (loB c pcol bcol x y) := by
  obtain ⟨hW, hsz⟩ := hwf
  let Inv : Nat → Nat → Array Byte × Nat → Prop := fun r k st =>
    st.1.size = c.geo.W * c.geo.H * 2 ∧ st.2 = 2 * (r * c.geo.W + k) ∧
    ∀ x y, x < c.geo.W → before r k x y →
      st.1[2 * (y * c.geo.W + x)]? = some (hiB c pcol bcol x y) ∧
      st.1[2 * (y * c.geo.W + x) + 1]? = some (loB c pcol bcol x y)
  obtain ⟨s', hs, hinv⟩ := raster_inv c.geo.H c.geo.W
    (rgbBody c (BitVec.ofNat 8 (pcol >>> 8)) (BitVec.ofNat 8 (pcol &&& 0xFF)) (BitVec.ofNat 8 (bcol >>> 8)) (BitVec.ofNat 8 (bcol &&& 0xFF)))
    Inv (Array.replicate (c.geo.W * c.geo.H * 2) 0#8, 0)
    (by
      refine ⟨by simp, by simp, ?_⟩
      intro x y _ hb; exact absurd hb not_before_zero)
    (by
      rintro r ⟨o, p⟩ hr ⟨h1, h2, h3⟩
      refine ⟨h1, ?_, ?_⟩
      · simp only [] at h2 ⊢; rw [h2, Nat.add_mul]; omega
      · intro x y hx hb; exact h3 x y hx ((before_wrap hx).1 hb))
    (by
      rintro r k ⟨o, p⟩ hr hk ⟨h1, h2, h3⟩
      simp only [] at h1 h2 h3
      obtain ⟨b, hb1, hb2⟩ := canvas_read c (by omega) k r (by omega) hr
      have hidx := idx_lt c.geo.W c.geo.H k r hk hr
      have hp0 : p < o.size := by omega
      have hp1 : p + 1 < (o.set p (if bitSet b (7 - k % 8) then BitVec.ofNat 8 (pcol >>> 8) else BitVec.ofNat 8 (bcol >>> 8)) hp0).size := by
        rw [Array.size_set]; omega
      refine ⟨((o.set p (if bitSet b (7 - k % 8) then BitVec.ofNat 8 (pcol >>> 8) else BitVec.ofNat 8 (bcol >>> 8)) hp0).set (p + 1)
          (if bitSet b (7 - k % 8) then BitVec.ofNat 8 (pcol &&& 0xFF) else BitVec.ofNat 8 (bcol &&& 0xFF)) hp1, p + 2), ?_, ?_⟩
      · unfold rgbBody
        simp only [hb1, wr_some _ _ _ hp0, wr_some _ _ _ hp1]
      · refine ⟨by simp [h1], by simp only []; omega, ?_⟩
        intro x y hx hbf
        simp only []
        rcases before_succ.1 hbf with hb' | ⟨rfl, rfl⟩
        · have := idx_lt_of_before c.geo.W r k x y hx hb'
          obtain ⟨g1, g2⟩ := h3 x y hx hb'
          have e1 : p ≠ 2 * (y * c.geo.W + x) := by omega
          have e2 : p + 1 ≠ 2 * (y * c.geo.W + x) := by omega
          have e3 : p ≠ 2 * (y * c.geo.W + x) + 1 := by omega
          have e4 : p + 1 ≠ 2 * (y * c.geo.W + x) + 1 := by omega
          simp only [Array.getElem?_set, if_neg e1, if_neg e2, if_neg e3, if_neg e4]
          exact ⟨g1, g2⟩
        · subst h2
          constructor
          · have e1 : 2 * (y * c.geo.W + x) + 1 ≠ 2 * (y * c.geo.W + x) := by omega
            simp only [Array.getElem?_set, if_neg e1, if_true, hiB, hb2]
          · simp only [Array.getElem?_set, if_true, loB, hb2])
  refine ⟨s'.1, ?_, hinv.1, ?_⟩
  · unfold sliceRGB; simp only [hs, Option.map_some]
  · intro x y hx hy
    exact hinv.2.2 x y hx (before_end hy)


/-! ## 4-bit grey export -/

theorem grayRow_total (c : Canvas) (hW : c.geo.W ≤ c.geo.wib * 8) (hsz : c.geo.wib * c.geo.H ≤ c.bytes.size)
    (gp gb : Byte) (row : Nat) (hr : row < c.geo.H) (col ptr : Nat) (out : Array Byte)
    (h : col % 2 = 0 ∨ out.size ≤ ptr) :
    ∃ ptr' out', grayRow c gp gb row col ptr out = some (ptr', out') ∧ out'.size = out.size := by
  fun_induction grayRow c gp gb row col ptr out with
  | case1 col ptr out hc hp hnone =>
    obtain ⟨b, hb, _⟩ := canvas_read c hsz col row (by omega) hr
    rw [hb] at hnone; cases hnone
  | case2 col ptr out hc hp b1 hb1 hnone =>
    obtain ⟨b, hb, _⟩ := canvas_read c hsz (col + 1) row (by omega) hr
    rw [hb] at hnone; cases hnone
  | case3 col ptr out hc hp b1 hb1 hiV b2 hb2 v ih =>
    obtain ⟨p', o', h1, h2⟩ := ih (Or.inl (by omega))
    exact ⟨p', o', h1, by rw [h2, Array.size_set]⟩
  | case4 col ptr out hc hp ih =>
    exact ih (Or.inr (by omega))
  | case5 col ptr out hc => exact ⟨ptr, out, rfl, rfl⟩

theorem nib_cases (i : Nat) (hi : i < 8) : i = 0 ∨ i = 1 ∨ i = 2 ∨ i = 3 ∨ i = 4 ∨ i = 5 ∨ i = 6 ∨ i = 7 := by omega

theorem nib_hi (a b : Byte) : ((a &&& 0xF0#8) ||| ((b >>> 4) &&& 0x0F#8)) >>> 4 = a >>> 4 := by
  apply BitVec.eq_of_getLsbD_eq
  intro i hi
  rcases nib_cases i hi with h|h|h|h|h|h|h|h <;> subst h <;>
    simp

theorem nib_lo (a b : Byte) : ((a &&& 0xF0#8) ||| ((b >>> 4) &&& 0x0F#8)) &&& 0x0F#8 = b >>> 4 := by
  apply BitVec.eq_of_getLsbD_eq
  intro i hi
  rcases nib_cases i hi with h|h|h|h|h|h|h|h <;> subst h <;>
    simp

/-- colour byte of pixel (x,y): the pixel or background grey by its bit -/
def gv (c : Canvas) (gp gb : Byte) (x y : Nat) : Byte := if getPx c x y then gp else gb

/-- the nibble of pixel number `i` in a 4-bit-grey slice (first pixel of a byte in the high nibble) -/
def nibOf (out : Array Byte) (i : Nat) : Byte :=
  if i % 2 = 0 then (out.getD (i / 2) 0#8) >>> 4 else (out.getD (i / 2) 0#8) &&& 0x0F#8

theorem grayRow_even (c : Canvas) (hW : c.geo.W ≤ c.geo.wib * 8) (hsz : c.geo.wib * c.geo.H ≤ c.bytes.size)
    (gp gb : Byte) (row : Nat) (hr : row < c.geo.H) (hev : c.geo.W % 2 = 0) (col ptr : Nat) (out : Array Byte)
    (hc : col % 2 = 0) (hp : ptr * 2 = row * c.geo.W + col) (hs : out.size * 2 = c.geo.W * c.geo.H) :
    ∃ ptr' out', grayRow c gp gb row col ptr out = some (ptr', out') ∧ ptr' * 2 = row * c.geo.W + (max col c.geo.W) ∧
      out'.size = out.size ∧ (∀ j, j < ptr → out'[j]? = out[j]?) ∧
      (∀ x, col ≤ x → x < c.geo.W → nibOf out' (row * c.geo.W + x) = gv c gp gb x row >>> 4) := by
  fun_induction grayRow c gp gb row col ptr out with
  | case1 col ptr out hcw hps hnone =>
    obtain ⟨b, hb, _⟩ := canvas_read c hsz col row (by omega) hr
    rw [hb] at hnone; cases hnone
  | case2 col ptr out hcw hps b1 hb1 hnone =>
    obtain ⟨b, hb, _⟩ := canvas_read c hsz (col + 1) row (by omega) hr
    rw [hb] at hnone; cases hnone
  | case3 col ptr out hcw hps b1 hb1 hiV b2 hb2 v ih =>
    obtain ⟨p', o', h1, h2, h3, h4, h5⟩ := ih (by omega) (by omega) (by rw [Array.size_set]; exact hs)
    obtain ⟨b, hb, hbit1⟩ := canvas_read c hsz col row (by omega) hr
    obtain ⟨b', hb', hbit2⟩ := canvas_read c hsz (col + 1) row (by omega) hr
    rw [hb] at hb1; cases hb1
    rw [hb'] at hb2; cases hb2
    refine ⟨p', o', h1, by omega, by rw [h3, Array.size_set], ?_, ?_⟩
    · intro j hj
      have hne : ptr ≠ j := by omega
      rw [h4 j (by omega)]
      simp only [Array.getElem?_set, if_neg hne]
    · intro x hx1 hx2
      by_cases hx : col + 2 ≤ x
      · exact h5 x hx hx2
      · have hptr : o'[ptr]? = some v := by
          rw [h4 ptr (by omega), Array.getElem?_set_self]
        have hget : o'.getD ptr 0#8 = v := by
          rw [Array.getD_eq_getD_getElem?, hptr]; rfl
        by_cases hx' : x = col
        · subst hx'
          unfold nibOf
          have e1 : (row * c.geo.W + x) % 2 = 0 := by omega
          have e2 : (row * c.geo.W + x) / 2 = ptr := by omega
          rw [if_pos e1, e2, hget]
          show ((hiV ||| _) >>> 4) = _
          simp only [hiV, nib_hi, gv, hbit1, dite_eq_ite]
        · have hx'' : x = col + 1 := by omega
          subst hx''
          unfold nibOf
          have e1 : ¬ (row * c.geo.W + (col + 1)) % 2 = 0 := by omega
          have e2 : (row * c.geo.W + (col + 1)) / 2 = ptr := by omega
          rw [if_neg e1, e2, hget]
          simp only [v, hiV, nib_lo, gv, hbit2, dite_eq_ite]
  | case4 col ptr out hcw hps ih =>
    exfalso
    have := idx_lt c.geo.W c.geo.H col row hcw hr
    omega
  | case5 col ptr out hcw =>
    refine ⟨ptr, out, rfl, by omega, rfl, fun _ _ => rfl, ?_⟩
    intro x h1 h2; omega

theorem even_mul_half (W H : Nat) (hev : W % 2 = 0) : W * H / 2 * 2 = W * H := by
  have h1 : W = 2 * (W / 2) := by omega
  have h2 : W * H = 2 * (W / 2 * H) := by
    conv => lhs; rw [h1]
    rw [Nat.mul_assoc]
  omega

theorem sliceGray_total (c : Canvas) (hwf : c.WF) (pcol bcol : Nat) :
    ∃ out, sliceGray c pcol bcol = some out ∧ out.size = c.geo.W * c.geo.H / 2 := by
  obtain ⟨hW, hsz⟩ := hwf
  obtain ⟨s', hs, hinv⟩ := forN_inv c.geo.H
    (fun (st : Nat × Array Byte) row => grayRow c (rgb16ToGray pcol) (rgb16ToGray bcol) row 0 st.1 st.2)
    (0, Array.replicate (c.geo.W * c.geo.H / 2) 0#8)
    (fun _ st => st.2.size = c.geo.W * c.geo.H / 2) (by simp)
    (by
      rintro r ⟨p, o⟩ hr hi
      obtain ⟨p', o', h1, h2⟩ := grayRow_total c hW (by omega) (rgb16ToGray pcol) (rgb16ToGray bcol) r hr 0 p o (Or.inl rfl)
      exact ⟨(p', o'), h1, by simp only [] at hi ⊢; omega⟩)
  exact ⟨s'.2, by unfold sliceGray; simp only [hs, Option.map_some], hinv⟩

theorem sliceGray_spec (c : Canvas) (hwf : c.WF) (pcol bcol : Nat) (hev : c.geo.W % 2 = 0) :
    ∃ out, sliceGray c pcol bcol = some out ∧ out.size = c.geo.W * c.geo.H / 2 ∧
      ∀ x y, x < c.geo.W → y < c.geo.H →
        nibOf out (y * c.geo.W + x) = gv c (rgb16ToGray pcol) (rgb16ToGray bcol) x y >>> 4 := by
  obtain ⟨hW, hsz⟩ := hwf
  obtain ⟨s', hs, hinv⟩ := forN_inv c.geo.H
    (fun (st : Nat × Array Byte) row => grayRow c (rgb16ToGray pcol) (rgb16ToGray bcol) row 0 st.1 st.2)
    (0, Array.replicate (c.geo.W * c.geo.H / 2) 0#8)
    (fun r st => st.2.size * 2 = c.geo.W * c.geo.H ∧ st.1 * 2 = r * c.geo.W ∧
      ∀ x y, x < c.geo.W → y < r →
        nibOf st.2 (y * c.geo.W + x) = gv c (rgb16ToGray pcol) (rgb16ToGray bcol) x y >>> 4)
    (by
      refine ⟨by simp only [Array.size_replicate]; exact even_mul_half _ _ hev, by simp, ?_⟩
      intro x y _ hy; omega)
    (by
      rintro r ⟨p, o⟩ hr ⟨hi1, hi2, hi3⟩
      simp only [] at hi1 hi2 hi3
      obtain ⟨p', o', h1, h2, h3, h4, h5⟩ := grayRow_even c hW (by omega) (rgb16ToGray pcol) (rgb16ToGray bcol) r hr hev 0 p o
        rfl (by omega) hi1
      refine ⟨(p', o'), h1, by simp only []; omega, ?_, ?_⟩
      · simp only []; rw [h2, Nat.add_mul]; omega
      · intro x y hx hy
        simp only []
        by_cases hyr : y = r
        · subst hyr; exact h5 x (by omega) hx
        · have hlt := idx_lt_of_before c.geo.W r 0 x y hx (Or.inl (by omega))
          have hj : (y * c.geo.W + x) / 2 < p := by omega
          have := hi3 x y hx (by omega)
          unfold nibOf at this ⊢
          rw [Array.getD_eq_getD_getElem?, h4 _ hj, ← Array.getD_eq_getD_getElem?]
          exact this)
  refine ⟨s'.2, by unfold sliceGray; simp only [hs, Option.map_some], ?_, ?_⟩
  · have := hinv.1; have := even_mul_half c.geo.W c.geo.H hev; omega
  · intro x y hx hy; exact hinv.2.2 x y hx hy


/-! ## mono bitmap → image object -/

/-- colour `ConvertToImage(invert)` gives a pixel whose bit is `bit` -/
def monoColour (bit invert : Bool) : RGBA := if bit != invert then black else white

theorem toImageByte_spec (b : Byte) (invert : Bool) (row col : Nat) (dest : Img) (hwf : dest.WF) :
    ∃ d, toImageByte b invert row col dest = some d ∧ d.WF ∧ d.w = dest.w ∧ d.h = dest.h ∧
      ∀ (x y : Nat), d.at x y =
        if y = row ∧ col * 8 ≤ x ∧ x < col * 8 + 8 ∧ x < dest.w ∧ y < dest.h
        then monoColour (b.getLsbD (7 - (x - col * 8))) invert else dest.at x y := by
  unfold toImageByte
  obtain ⟨d, h1, h2⟩ := forN_inv 8
    (fun (dest : Img) p => some (dest.setPx ((col <<< 3 : Nat) + p : Nat) row
      (if (bitSet b ((7 - p) &&& 0xFF)) != invert then black else white))) dest
    (fun p d => d.WF ∧ d.w = dest.w ∧ d.h = dest.h ∧
      ∀ (x y : Nat), d.at x y =
        if y = row ∧ col * 8 ≤ x ∧ x < col * 8 + p ∧ x < dest.w ∧ y < dest.h
        then monoColour (b.getLsbD (7 - (x - col * 8))) invert else dest.at x y)
    (by
      refine ⟨hwf, rfl, rfl, ?_⟩
      intro x y; rw [if_neg]; omega)
    (by
      rintro p d hp ⟨g1, g2, g3, g4⟩
      refine ⟨_, rfl, Img.setPx_wf _ _ _ _ g1, by rw [Img.setPx_w, g2], by rw [Img.setPx_h, g3], ?_⟩
      intro x y
      rw [Img.at_setPx _ g1, g4 x y, g2, g3]
      have e7 : (7 - p) &&& 0xFF = 7 - p := by
        rw [and_255]; omega
      rw [e7, bitSet_eq _ _ (by omega), Nat.shiftLeft_eq]
      simp only [Nat.reducePow]
      have hiff : ((x : Int) = ((col * 8 + p : Nat) : Int) ∧ (y : Int) = (row : Int) ∧
          0 ≤ ((col * 8 + p : Nat) : Int) ∧ ((col * 8 + p : Nat) : Int) < dest.w ∧ 0 ≤ (row : Int) ∧ (row : Int) < dest.h) ↔
          (x = col * 8 + p ∧ y = row ∧ x < dest.w ∧ y < dest.h) := by omega
      simp only [hiff]
      by_cases hA : x = col * 8 + p ∧ y = row ∧ x < dest.w ∧ y < dest.h
      · have hB : y = row ∧ col * 8 ≤ x ∧ x < col * 8 + (p + 1) ∧ x < dest.w ∧ y < dest.h := by omega
        rw [if_pos hA, if_pos hB]
        have : x - col * 8 = p := by omega
        rw [this]; rfl
      · rw [if_neg hA]
        by_cases hc2 : y = row ∧ col * 8 ≤ x ∧ x < col * 8 + p ∧ x < dest.w ∧ y < dest.h
        · have hB : y = row ∧ col * 8 ≤ x ∧ x < col * 8 + (p + 1) ∧ x < dest.w ∧ y < dest.h := by omega
          rw [if_pos hc2, if_pos hB]
        · have hB : ¬ (y = row ∧ col * 8 ≤ x ∧ x < col * 8 + (p + 1) ∧ x < dest.w ∧ y < dest.h) := by omega
          rw [if_neg hc2, if_neg hB])
  exact ⟨d, h1, h2⟩

theorem toImage_spec (c : Canvas) (hW : c.geo.W ≤ c.geo.wib * 8) (hsz : c.geo.wib * c.geo.H ≤ c.bytes.size) (invert : Bool) :
    ∃ img, toImage c invert = some img ∧ img.WF ∧ img.w = c.geo.W ∧ img.h = c.geo.H ∧
      ∀ (x y : Nat), x < c.geo.W → y < c.geo.H → img.at x y = monoColour (getPx c x y) invert := by
  obtain ⟨s', hs, hinv⟩ := raster_inv c.geo.H c.geo.wib (toImageBody c invert)
    (fun r k (st : Img × Nat) => st.2 = r * c.geo.wib + k ∧ st.1.WF ∧ st.1.w = c.geo.W ∧ st.1.h = c.geo.H ∧
      ∀ (x y : Nat), x < c.geo.W → y < c.geo.H → before r (k * 8) x y → st.1.at x y = monoColour (getPx c x y) invert)
    (Img.new c.geo.W c.geo.H, 0)
    (by
      refine ⟨by simp, Img.new_wf _ _, rfl, rfl, ?_⟩
      intro x y _ _ hb; exact absurd hb (by unfold before; omega))
    (by
      rintro r ⟨im, i⟩ hr ⟨h1, h2, h3, h4, h5⟩
      refine ⟨by simp only [] at h1 ⊢; rw [h1, Nat.add_mul]; omega, h2, h3, h4, ?_⟩
      intro x y hx hy hb
      exact h5 x y hx hy (by unfold before at hb ⊢; omega))
    (by
      rintro r k ⟨im, i⟩ hr hk ⟨h1, h2, h3, h4, h5⟩
      simp only [] at h1 h2 h3 h4 h5
      have hlt : i < c.bytes.size := by
        have := idx_lt c.geo.wib c.geo.H k r hk hr
        omega
      obtain ⟨d, g1, g2, g3, g4, g5⟩ := toImageByte_spec c.bytes[i] invert r k im h2
      refine ⟨(d, i + 1), ?_, by simp only []; omega, g2, by rw [g3, h3], by rw [g4, h4], ?_⟩
      · unfold toImageBody
        simp only [Array.getElem?_eq_getElem hlt, g1, Option.map_some]
      · intro x y hx hy hb
        simp only []
        rw [g5 x y]
        by_cases hc : y = r ∧ k * 8 ≤ x ∧ x < k * 8 + 8 ∧ x < im.w ∧ y < im.h
        · rw [if_pos hc]
          obtain ⟨rfl, hx1, hx2, _, _⟩ := hc
          unfold getPx
          have e1 : y * c.geo.wib + x / 8 = i := by omega
          have e2 : x % 8 = x - k * 8 := by omega
          rw [e1, e2, Array.getD_eq_getD_getElem?, Array.getElem?_eq_getElem hlt]
          rfl
        · rw [if_neg hc]
          exact h5 x y hx hy (by unfold before at hb ⊢; omega))
  refine ⟨s'.1, by unfold toImage; simp only [hs, Option.map_some], hinv.2.1, hinv.2.2.1, hinv.2.2.2.1, ?_⟩
  intro x y hx hy
  exact hinv.2.2.2.2 x y hx hy (before_end hy)


/-! ## image object → mono bitmap -/

/-- bit `CreateFromImage` stores for a source pixel: 1 unless the 16-bit red channel is `> 127` -/
def darkBit (p : RGBA) : Bool := !decide (p.1 * 0x101 > 127)

theorem orMask_bit : ∀ (v : Fin 2) (s j : Fin 8),
    (BitVec.ofNat 8 ((v.val <<< s.val) &&& 0xFF)).getLsbD j.val = (decide (v.val = 1) && decide (j.val = s.val)) := by
  decide

theorem orMask_bit' (v s j : Nat) (hv : v < 2) (hs : s < 8) (hj : j < 8) :
    (BitVec.ofNat 8 ((v <<< s) &&& 0xFF)).getLsbD j = (decide (v = 1) && decide (j = s)) :=
  orMask_bit ⟨v, hv⟩ ⟨s, hs⟩ ⟨j, hj⟩

/-- the 8 `|=` of one byte: every other byte untouched, bit `q` of byte `i` = old bit or the dark bit of pixel `7-q` -/
theorem fromImageByte_spec (src : Img) (row col i : Nat) (bytes : Array Byte) (hi : i < bytes.size) :
    ∃ bytes', forN 8 (fromImageBit src row col i) bytes = some bytes' ∧ bytes'.size = bytes.size ∧
      (∀ j, j ≠ i → bytes'[j]? = bytes[j]?) ∧
      ∃ b', bytes'[i]? = some b' ∧ ∀ q, q < 8 →
        b'.getLsbD q = (bytes[i].getLsbD q || darkBit (src.at ((col * 8 + (7 - q) : Nat) : Int) row)) := by
  obtain ⟨o, h1, h2, h3, b', h4, h5⟩ := forN_inv 8 (fromImageBit src row col i) bytes
    (fun p o => o.size = bytes.size ∧ (∀ j, j ≠ i → o[j]? = bytes[j]?) ∧
      ∃ b', o[i]? = some b' ∧ ∀ q, q < 8 →
        b'.getLsbD q = (bytes[i].getLsbD q || (decide (7 - q < p) && darkBit (src.at ((col * 8 + (7 - q) : Nat) : Int) row))))
    (by
      refine ⟨rfl, fun _ _ => rfl, bytes[i], Array.getElem?_eq_getElem hi, ?_⟩
      intro q hq; simp)
    (by
      rintro p o hp ⟨g1, g2, b', g3, g4⟩
      have hio : i < o.size := by omega
      refine ⟨o.set i (b' ||| BitVec.ofNat 8 (((if (src.at ((col <<< 3 : Nat) + p : Nat) row).1 * 0x101 > 127 then 0 else 1) <<< (7 - p)) &&& 0xFF)) hio, ?_, ?_⟩
      · unfold fromImageBit
        simp only [g3, wr_some _ _ _ hio]
      · refine ⟨by rw [Array.size_set]; exact g1, ?_, _, by rw [Array.getElem?_set_self], ?_⟩
        · intro j hj
          simp only [Array.getElem?_set, if_neg (Ne.symm hj)]
          exact g2 j hj
        · intro q hq
          have e0 : col <<< 3 = col * 8 := by rw [Nat.shiftLeft_eq]
          rw [BitVec.getLsbD_or, g4 q hq, e0, orMask_bit' _ _ _ (by split <;> omega) (by omega) hq]
          unfold darkBit
          by_cases hq7 : p = 7 - q
          · subst hq7
            have e1 : (7 - q < 7 - q) = False := eq_false (by omega)
            have e2 : (7 - q < 7 - q + 1) = True := eq_true (by omega)
            have e4 : (q = 7 - (7 - q)) = True := eq_true (by omega)
            generalize (src.at ((col * 8 + (7 - q) : Nat) : Int) row).1 = X
            by_cases hpx : X * 0x101 > 127
            · have e6 : 127 < X * 257 := by omega
              simp [e1, e2, e4, e6]
            · have e6 : ¬ (127 < X * 257) := by omega
              simp [e1, e2, e4, e6]
          · have e1 : (7 - q < p + 1) = (7 - q < p) := by
              apply propext; omega
            have e4 : (q = 7 - p) = False := eq_false (by omega)
            simp [e1, e4])
  refine ⟨o, h1, h2, h3, b', h4, ?_⟩
  intro q hq
  rw [h5 q hq]
  have e : (7 - q < 8) = True := eq_true (by omega)
  simp [e]


theorem fromImage_spec (src : Img) :
    ∃ cv, fromImage src = some cv ∧ cv.geo = (newCanvas src.w src.h).geo ∧
      cv.bytes.size = (src.w + 7) / 8 * src.h ∧
      ∀ (x y : Nat), x < (src.w + 7) / 8 * 8 → y < src.h → getPx cv x y = darkBit (src.at x y) := by
  generalize hwib : (src.w + 7) / 8 = wib
  obtain ⟨s', hs, hinv⟩ := raster_inv src.h wib (fromImageBody src)
    (fun r k (st : Array Byte × Nat) => st.2 = r * wib + k ∧ st.1.size = wib * src.h ∧
      (∀ j, st.2 ≤ j → j < st.1.size → st.1[j]? = some 0#8) ∧
      ∀ (x y : Nat), x < wib * 8 → y < src.h → before r (k * 8) x y →
        (st.1.getD (y * wib + x / 8) 0#8).getLsbD (7 - x % 8) = darkBit (src.at x y))
    (Array.replicate (wib * src.h) 0#8, 0)
    (by
      refine ⟨by simp, by simp, ?_, ?_⟩
      · intro j _ hj
        simp only [Array.size_replicate] at hj
        simp [hj]
      · intro x y _ _ hb; exact absurd hb (by unfold before; omega))
    (by
      rintro r ⟨by0, i⟩ hr ⟨h1, h2, h3, h4⟩
      refine ⟨by simp only [] at h1 ⊢; rw [h1, Nat.add_mul]; omega, h2, h3, ?_⟩
      intro x y hx hy hb
      exact h4 x y hx hy (by unfold before at hb ⊢; omega))
    (by
      rintro r k ⟨by0, i⟩ hr hk ⟨h1, h2, h3, h4⟩
      simp only [] at h1 h2 h3 h4
      have hlt : i < by0.size := by
        have := idx_lt wib src.h k r hk hr
        omega
      obtain ⟨by1, g1, g2, g3, b', g4, g5⟩ := fromImageByte_spec src r k i by0 hlt
      have hz : by0[i] = 0#8 := by
        have := h3 i (Nat.le_refl _) hlt
        rw [Array.getElem?_eq_getElem hlt] at this
        exact Option.some.inj this
      refine ⟨(by1, i + 1), ?_, by simp only []; omega, by simp only []; omega, ?_, ?_⟩
      · unfold fromImageBody
        simp only [g1, Option.map_some]
      · intro j hj1 hj2
        simp only [] at hj1 hj2 ⊢
        rw [g3 j (by omega)]
        exact h3 j (by omega) (by omega)
      · intro x y hx hy hb
        simp only []
        by_cases hc : y = r ∧ k * 8 ≤ x
        · obtain ⟨rfl, hx1⟩ := hc
          have hx2 : x < k * 8 + 8 := by unfold before at hb; omega
          have e1 : y * wib + x / 8 = i := by omega
          rw [e1, Array.getD_eq_getD_getElem?, g4]
          show b'.getLsbD (7 - x % 8) = _
          rw [g5 _ (by omega), hz]
          have e2 : k * 8 + (7 - (7 - x % 8)) = x := by omega
          rw [e2]; simp
        · have hb' : before r (k * 8) x y := by unfold before at hb ⊢; omega
          have hlt2 := idx_lt_of_before wib r k (x / 8) y (by omega) (by unfold before at hb' ⊢; omega)
          rw [Array.getD_eq_getD_getElem?, g3 _ (by omega), ← Array.getD_eq_getD_getElem?]
          exact h4 x y hx hy hb')
  refine ⟨{ geo := (newCanvas src.w src.h).geo, bytes := s'.1 }, ?_, rfl, hinv.2.1, ?_⟩
  · unfold fromImage; simp only [hwib, hs, Option.map_some]
  · intro x y hx hy
    unfold getPx
    simp only [newCanvas, hwib]
    exact hinv.2.2.2 x y hx hy (before_end hy)


/-! ## graphics states -/

/-- the data contain the value of pixel (x,y) — exactly the guards of the Go loops -/
def covered (fmt : Fmt) (W : Nat) (data : Array Byte) (x y : Nat) : Prop :=
  match fmt with
  | .mono => y * ((W + 7) / 8) + x / 8 < data.size
  | .rgb => 2 * (y * W + x) + 1 < data.size
  | .gray => (y * W + x) / 2 < data.size

instance (fmt : Fmt) (W : Nat) (data : Array Byte) (x y : Nat) : Decidable (covered fmt W data x y) := by
  unfold covered; cases fmt <;> infer_instance

/-- what every routine paints for a covered pixel -/
def expandM (fmt : Fmt) (W : Nat) (data : Array Byte) (x y : Nat) : RGBA :=
  match fmt with
  | .mono => if (data.getD (y * ((W + 7) / 8) + x / 8) 0#8).getLsbD (7 - x % 8) then white else black
  | .rgb => rgbOfWord ((data.getD (2 * (y * W + x)) 0#8).toNat * 256 + (data.getD (2 * (y * W + x) + 1) 0#8).toNat)
  | .gray =>
    let d := data.getD ((y * W + x) / 2) 0#8
    grayOfNibble (if (y * W + x) % 2 = 0 then (d >>> 4) &&& 0xF#8 else d &&& 0xF#8)

/-- a row/column loop whose body paints pixel (k,r) at offset (ox,oy) when `cov k r`, and does nothing otherwise -/
theorem paint_raster (H W : Nat) (body : Img → Nat → Nat → Option Img) (ox oy : Int)
    (cov : Nat → Nat → Prop) [∀ x y, Decidable (cov x y)] (E : Nat → Nat → RGBA) (img0 : Img) (hwf0 : img0.WF)
    (hbody : ∀ img r k, r < H → k < W →
      body img r k = some (if cov k r then img.setPx (k + ox) (r + oy) (E k r) else img)) :
    ∃ img, raster H W body img0 = some img ∧ img.WF ∧ img.w = img0.w ∧ img.h = img0.h ∧
      ∀ (x y : Nat), x < W → y < H → cov x y →
        0 ≤ x + ox → x + ox < img0.w → 0 ≤ y + oy → y + oy < img0.h → img.at (x + ox) (y + oy) = E x y := by
  obtain ⟨s', hs, hinv⟩ := raster_inv H W body
    (fun r k (img : Img) => img.WF ∧ img.w = img0.w ∧ img.h = img0.h ∧
      ∀ (x y : Nat), x < W → before r k x y → cov x y →
        0 ≤ x + ox → x + ox < img0.w → 0 ≤ y + oy → y + oy < img0.h → img.at (x + ox) (y + oy) = E x y)
    img0
    (by
      refine ⟨hwf0, rfl, rfl, ?_⟩
      intro x y _ hb; exact absurd hb not_before_zero)
    (by
      rintro r img hr ⟨h1, h2, h3, h4⟩
      refine ⟨h1, h2, h3, ?_⟩
      intro x y hx hb; exact h4 x y hx ((before_wrap hx).1 hb))
    (by
      rintro r k img hr hk ⟨h1, h2, h3, h4⟩
      refine ⟨_, hbody img r k hr hk, ?_⟩
      by_cases hc : cov k r
      · rw [if_pos hc]
        refine ⟨Img.setPx_wf _ _ _ _ h1, by rw [Img.setPx_w, h2], by rw [Img.setPx_h, h3], ?_⟩
        intro x y hx hb hcov b1 b2 b3 b4
        rw [Img.at_setPx _ h1, h2, h3]
        rcases before_succ.1 hb with hb' | ⟨rfl, rfl⟩
        · have : ¬ ((x : Int) + ox = k + ox ∧ (y : Int) + oy = r + oy ∧ 0 ≤ (k : Int) + ox ∧ (k : Int) + ox < img0.w ∧
              0 ≤ (r : Int) + oy ∧ (r : Int) + oy < img0.h) := by
            unfold before at hb'; omega
          rw [if_neg this]
          exact h4 x y hx hb' hcov b1 b2 b3 b4
        · rw [if_pos ⟨rfl, rfl, b1, b2, b3, b4⟩]
      · rw [if_neg hc]
        refine ⟨h1, h2, h3, ?_⟩
        intro x y hx hb hcov b1 b2 b3 b4
        rcases before_succ.1 hb with hb' | ⟨rfl, rfl⟩
        · exact h4 x y hx hb' hcov b1 b2 b3 b4
        · exact absurd hcov hc)
  refine ⟨s', hs, hinv.1, hinv.2.1, hinv.2.2.1, ?_⟩
  intro x y hx hy
  exact hinv.2.2.2 x y hx (before_end hy)

theorem getD_of_lt (a : Array Byte) (i : Nat) (h : i < a.size) : a[i]? = some (a.getD i 0#8) := by
  rw [Array.getD_eq_getD_getElem?, Array.getElem?_eq_getElem h]; rfl

theorem rgbBytesBody_eq (w : Nat) (data : Array Byte) (dest : Img) (r k : Nat) :
    rgbBytesBody w data dest r k =
      some (if covered .rgb w data k r then dest.setPx ((k : Int) + 0) ((r : Int) + 0) (expandM .rgb w data k r) else dest) := by
  unfold rgbBytesBody expandM
  simp only [Int.add_zero]
  have e : (r * w + k) * 2 = 2 * (r * w + k) := by omega
  rw [e]
  by_cases h : covered .rgb w data k r
  · have h' : 2 * (r * w + k) + 1 < data.size := h
    rw [if_pos h, if_pos h', getD_of_lt data _ (by omega), getD_of_lt data _ h']
    simp only []
    have hlo : (data.getD (2 * (r * w + k) + 1) 0#8).toNat < 2 ^ 8 := (data.getD _ _).isLt
    rw [← Nat.shiftLeft_add_eq_or_of_lt hlo, Nat.shiftLeft_eq]
  · have h' : ¬ 2 * (r * w + k) + 1 < data.size := h
    rw [if_neg h, if_neg h']

theorem grayBytesBody_eq (w : Nat) (data : Array Byte) (dest : Img) (r k : Nat) :
    grayBytesBody w data dest r k =
      some (if covered .gray w data k r then dest.setPx ((k : Int) + 0) ((r : Int) + 0) (expandM .gray w data k r) else dest) := by
  unfold grayBytesBody expandM
  simp only [Int.add_zero]
  by_cases h : covered .gray w data k r
  · have h' : (r * w + k) / 2 < data.size := h
    rw [if_pos h, if_pos h', getD_of_lt data _ h']
  · have h' : ¬ (r * w + k) / 2 < data.size := h
    rw [if_neg h, if_neg h']

theorem rwpBody_eq (fmt : Fmt) (W : Nat) (data : Array Byte) (ox oy : Int) (out : Img) (r k : Nat) :
    rwpBody fmt W data ox oy out r k =
      some (if covered fmt W data k r then out.setPx (k + ox) (r + oy) (expandM fmt W data k r) else out) := by
  cases fmt with
  | rgb =>
    unfold rwpBody expandM
    simp only []
    have e : W * r + k = r * W + k := by rw [Nat.mul_comm]
    rw [e]
    by_cases h : covered .rgb W data k r
    · have h' : 2 * (r * W + k) + 1 < data.size := h
      rw [if_pos h, if_pos h', getD_of_lt data _ (by omega), getD_of_lt data _ h']
      simp only []
      have hlo : (data.getD (2 * (r * W + k) + 1) 0#8).toNat < 2 ^ 8 := (data.getD _ _).isLt
      have hhi : (data.getD (2 * (r * W + k)) 0#8).toNat < 2 ^ 8 := (data.getD _ _).isLt
      have e2 : (data.getD (2 * (r * W + k)) 0#8).toNat <<< 8 % 65536 = (data.getD (2 * (r * W + k)) 0#8).toNat <<< 8 := by
        rw [Nat.shiftLeft_eq]; apply Nat.mod_eq_of_lt; omega
      rw [e2, ← Nat.shiftLeft_add_eq_or_of_lt hlo, Nat.shiftLeft_eq]
    · have h' : ¬ 2 * (r * W + k) + 1 < data.size := h
      rw [if_neg h, if_neg h']
  | gray =>
    unfold rwpBody expandM
    simp only []
    have e : W * r + k = r * W + k := by rw [Nat.mul_comm]
    rw [e]
    by_cases h : covered .gray W data k r
    · have h' : (r * W + k) / 2 < data.size := h
      rw [if_pos h, if_pos h', getD_of_lt data _ h']
      simp only []
      by_cases hodd : (r * W + k) % 2 = 0
      · rw [if_pos hodd, if_pos hodd]
      · rw [if_neg hodd, if_neg hodd]
    · have h' : ¬ (r * W + k) / 2 < data.size := h
      rw [if_neg h, if_neg h']
  | mono =>
    unfold rwpBody expandM
    simp only []
    by_cases h : covered .mono W data k r
    · have h' : r * ((W + 7) / 8) + k / 8 < data.size := h
      rw [if_pos h, if_pos h', getD_of_lt data _ h']
      simp only []
      rw [bitSet_eq _ _ (by omega)]
    · have h' : ¬ r * ((W + 7) / 8) + k / 8 < data.size := h
      rw [if_neg h, if_neg h']


theorem imgFromRGBBytes_spec (w h : Nat) (data : Array Byte) :
    ∃ img, imgFromRGBBytes w h data = some img ∧ img.WF ∧ img.w = w ∧ img.h = h ∧
      ∀ (x y : Nat), x < w → y < h → covered .rgb w data x y → img.at x y = expandM .rgb w data x y := by
  obtain ⟨img, h1, h2, h3, h4, h5⟩ := paint_raster h w (rgbBytesBody w data) 0 0 (covered .rgb w data) (expandM .rgb w data)
    (Img.new w h) (Img.new_wf w h) (fun img r k _ _ => rgbBytesBody_eq w data img r k)
  refine ⟨img, h1, h2, h3, h4, ?_⟩
  intro x y hx hy hc
  have := h5 x y hx hy hc (by omega) (by simp [Img.new]; omega) (by omega) (by simp [Img.new]; omega)
  simpa using this

theorem imgFromGrayBytes_spec (w h : Nat) (data : Array Byte) :
    ∃ img, imgFromGrayBytes w h data = some img ∧ img.WF ∧ img.w = w ∧ img.h = h ∧
      ∀ (x y : Nat), x < w → y < h → covered .gray w data x y → img.at x y = expandM .gray w data x y := by
  obtain ⟨img, h1, h2, h3, h4, h5⟩ := paint_raster h w (grayBytesBody w data) 0 0 (covered .gray w data) (expandM .gray w data)
    (Img.new w h) (Img.new_wf w h) (fun img r k _ _ => grayBytesBody_eq w data img r k)
  refine ⟨img, h1, h2, h3, h4, ?_⟩
  intro x y hx hy hc
  have := h5 x y hx hy hc (by omega) (by simp [Img.new]; omega) (by omega) (by simp [Img.new]; omega)
  simpa using this

theorem rwpImgToImage_spec (fmt : Fmt) (W H : Nat) (data : Array Byte) (tw th : Nat) :
    ∃ img, rwpImgToImage fmt W H data tw th = some img ∧ img.WF ∧ img.w = tw ∧ img.h = th ∧
      ∀ (x y : Nat), x < W → y < H → covered fmt W data x y →
        0 ≤ (x : Int) + ((tw : Int) - W).tdiv 2 → (x : Int) + ((tw : Int) - W).tdiv 2 < tw →
        0 ≤ (y : Int) + ((th : Int) - H).tdiv 2 → (y : Int) + ((th : Int) - H).tdiv 2 < th →
        img.at (x + ((tw : Int) - W).tdiv 2) (y + ((th : Int) - H).tdiv 2) = expandM fmt W data x y := by
  unfold rwpImgToImage
  exact paint_raster H W _ _ _ (covered fmt W data) (expandM fmt W data)
    (Img.fill tw th black) (Img.fill_wf tw th black) (fun img r k _ _ => rwpBody_eq fmt W data _ _ img r k)

/-- frame of a painting loop: a target pixel that no covered source pixel maps to keeps the value it had -/
theorem paint_raster_frame (H W : Nat) (body : Img → Nat → Nat → Option Img) (ox oy : Int)
    (cov : Nat → Nat → Prop) [∀ x y, Decidable (cov x y)] (E : Nat → Nat → RGBA) (img0 : Img) (hwf0 : img0.WF)
    (hbody : ∀ img r k, r < H → k < W →
      body img r k = some (if cov k r then img.setPx (k + ox) (r + oy) (E k r) else img)) :
    ∃ img, raster H W body img0 = some img ∧
      ∀ (X Y : Int), (¬ ∃ x y : Nat, x < W ∧ y < H ∧ cov x y ∧ (x : Int) + ox = X ∧ (y : Int) + oy = Y) →
        img.at X Y = img0.at X Y := by
  obtain ⟨s', hs, hinv⟩ := raster_inv H W body
    (fun r k (img : Img) => img.WF ∧ img.w = img0.w ∧ img.h = img0.h ∧
      ∀ (X Y : Int), (¬ ∃ x y : Nat, x < W ∧ before r k x y ∧ cov x y ∧ (x : Int) + ox = X ∧ (y : Int) + oy = Y) →
        img.at X Y = img0.at X Y)
    img0
    (by exact ⟨hwf0, rfl, rfl, fun _ _ _ => rfl⟩)
    (by
      rintro r img hr ⟨h1, h2, h3, h4⟩
      refine ⟨h1, h2, h3, ?_⟩
      intro X Y hn
      exact h4 X Y (fun ⟨x, y, hx, hb, hc, e1, e2⟩ => hn ⟨x, y, hx, (before_wrap hx).2 hb, hc, e1, e2⟩))
    (by
      rintro r k img hr hk ⟨h1, h2, h3, h4⟩
      refine ⟨_, hbody img r k hr hk, ?_⟩
      by_cases hc : cov k r
      · rw [if_pos hc]
        refine ⟨Img.setPx_wf _ _ _ _ h1, by rw [Img.setPx_w, h2], by rw [Img.setPx_h, h3], ?_⟩
        intro X Y hn
        rw [Img.at_setPx _ h1]
        have hne : ¬ (X = k + ox ∧ Y = r + oy ∧ 0 ≤ (k : Int) + ox ∧ (k : Int) + ox < img.w ∧ 0 ≤ (r : Int) + oy ∧ (r : Int) + oy < img.h) := by
          rintro ⟨e1, e2, _⟩
          exact hn ⟨k, r, hk, before_succ.2 (Or.inr ⟨rfl, rfl⟩), hc, e1.symm, e2.symm⟩
        rw [if_neg hne]
        exact h4 X Y (fun ⟨x, y, hx, hb, hcv, e1, e2⟩ => hn ⟨x, y, hx, before_succ.2 (Or.inl hb), hcv, e1, e2⟩)
      · rw [if_neg hc]
        refine ⟨h1, h2, h3, ?_⟩
        intro X Y hn
        exact h4 X Y (fun ⟨x, y, hx, hb, hcv, e1, e2⟩ => hn ⟨x, y, hx, before_succ.2 (Or.inl hb), hcv, e1, e2⟩))
  refine ⟨s', hs, ?_⟩
  intro X Y hn
  exact hinv.2.2.2 X Y (fun ⟨x, y, hx, hb, hcv, e1, e2⟩ => by
    have hy : y < H := by unfold before at hb; omega
    exact hn ⟨x, y, hx, hy, hcv, e1, e2⟩)

theorem Img.at_fill (w h : Nat) (c : RGBA) (x y : Int) (hx : 0 ≤ x ∧ x < w) (hy : 0 ≤ y ∧ y < h) :
    (Img.fill w h c).at x y = c := by
  unfold Img.at Img.fill
  simp only []
  rw [if_pos ⟨hx.1, hx.2, hy.1, hy.2⟩]
  obtain ⟨X, hX⟩ := Int.eq_ofNat_of_zero_le hx.1
  obtain ⟨Y, hY⟩ := Int.eq_ofNat_of_zero_le hy.1
  subst hX hY
  simp only [Int.toNat_natCast]
  have hlt : Y * w + X < w * h := idx_lt w h X Y (by omega) (by omega)
  rw [Array.getD_eq_getD_getElem?, Array.getElem?_replicate, if_pos hlt]
  rfl

/-- `RwpImgToImage`: every pixel of the target canvas that no *covered* pixel of the image lands on is black — the
canvas around the image, and the positions of pixels the data do not reach -/
theorem rwpImgToImage_frame (fmt : Fmt) (W H : Nat) (data : Array Byte) (tw th : Nat) :
    ∃ img, rwpImgToImage fmt W H data tw th = some img ∧
      ∀ (X Y : Int), 0 ≤ X → X < tw → 0 ≤ Y → Y < th →
        (¬ ∃ x y : Nat, x < W ∧ y < H ∧ covered fmt W data x y ∧
          (x : Int) + ((tw : Int) - W).tdiv 2 = X ∧ (y : Int) + ((th : Int) - H).tdiv 2 = Y) →
        img.at X Y = black := by
  unfold rwpImgToImage
  obtain ⟨img, h1, h2⟩ := paint_raster_frame H W _ _ _ (covered fmt W data) (expandM fmt W data)
    (Img.fill tw th black) (Img.fill_wf tw th black) (fun img r k _ _ => rwpBody_eq fmt W data _ _ img r k)
  refine ⟨img, h1, ?_⟩
  intro X Y a1 a2 a3 a4 hn
  rw [h2 X Y hn]
  exact Img.at_fill tw th black X Y ⟨a1, a2⟩ ⟨a3, a4⟩

theorem copyInto_size {α : Type} (dst src : Array α) : (copyInto dst src).size = dst.size := by
  simp [copyInto]

theorem copyInto_get (dst src : Array Byte) (i : Nat) (h1 : i < dst.size) (h2 : i < src.size) :
    (copyInto dst src).getD i 0#8 = src.getD i 0#8 := by
  have hs : i < (copyInto dst src).size := by rw [copyInto_size]; exact h1
  rw [Array.getD_eq_getD_getElem?, Array.getElem?_eq_getElem hs, Array.getD_eq_getD_getElem?, Array.getElem?_eq_getElem h2]
  simp [copyInto, h2]

/-- `CreateFromBytes` (repaired): geometry of `NewImage`, buffer long enough, and every byte that exists in `data` is in place -/
theorem createFromBytes_spec (W H : Nat) (data : Array Byte) :
    let c := (createFromBytes W H data).1
    c.geo = (newCanvas W H).geo ∧ c.geo.wib * c.geo.H ≤ c.bytes.size ∧
      ∀ i, i < (W + 7) / 8 * H → i < data.size → c.bytes.getD i 0#8 = data.getD i 0#8 := by
  unfold createFromBytes
  simp only []
  by_cases h : (newCanvas W H).geo.wib * H > data.size
  · rw [if_pos h]
    refine ⟨rfl, ?_, ?_⟩
    · simp [copyInto_size, newCanvas]
    · intro i hi hd
      exact copyInto_get _ _ i (by simp [newCanvas]; exact hi) hd
  · rw [if_neg h]
    refine ⟨rfl, ?_, fun _ _ _ => rfl⟩
    simp only [newCanvas] at h ⊢
    omega

theorem gfxToPngImage_spec (fmt : Fmt) (W H : Nat) (data : Array Byte) :
    ∃ img, gfxToPngImage fmt W H data = some img ∧ img.WF ∧ img.w = W ∧ img.h = H ∧
      ∀ (x y : Nat), x < W → y < H → covered fmt W data x y → img.at x y = expandM fmt W data x y := by
  cases fmt with
  | rgb => exact imgFromRGBBytes_spec W H data
  | gray => exact imgFromGrayBytes_spec W H data
  | mono =>
    obtain ⟨hg, hsz, hby⟩ := createFromBytes_spec W H data
    have hW : (createFromBytes W H data).1.geo.W ≤ (createFromBytes W H data).1.geo.wib * 8 := by
      rw [hg]; simp only [newCanvas]; omega
    obtain ⟨img, h1, h2, h3, h4, h5⟩ := toImage_spec (createFromBytes W H data).1 hW hsz true
    have gW : (createFromBytes W H data).1.geo.W = W := by rw [hg]; rfl
    have gH : (createFromBytes W H data).1.geo.H = H := by rw [hg]; rfl
    have gwib : (createFromBytes W H data).1.geo.wib = (W + 7) / 8 := by rw [hg]; rfl
    refine ⟨img, h1, h2, by rw [h3, gW], by rw [h4, gH], ?_⟩
    intro x y hx hy hc
    rw [h5 x y (by omega) (by omega)]
    have hc' : y * ((W + 7) / 8) + x / 8 < data.size := hc
    have hi : y * ((W + 7) / 8) + x / 8 < (W + 7) / 8 * H := by
      have := idx_lt ((W + 7) / 8) H (x / 8) y (by omega) hy
      omega
    have hpx : getPx (createFromBytes W H data).1 x y =
        (data.getD (y * ((W + 7) / 8) + x / 8) 0#8).getLsbD (7 - x % 8) := by
      unfold getPx
      rw [gwib]
      exact congrArg (fun b => BitVec.getLsbD b (7 - x % 8)) (hby _ hi hc')
    rw [hpx]
    unfold monoColour expandM
    simp only []
    cases (data.getD (y * ((W + 7) / 8) + x / 8) 0#8).getLsbD (7 - x % 8) <;> rfl



/-! ## bridge to the Spec's vocabulary -/

/-- a byte slice as the Spec sees it -/
def byteAt (a : Array Byte) (i : Nat) : Nat := (a.getD i 0#8).toNat

/-- an image object as the Spec sees it -/
def Img.obs (i : Img) : Spec.Pix.Obs := { w := i.w, h := i.h, px := fun x y => i.at x y }

def Fmt.code : Fmt → Nat
  | .mono => 0
  | .rgb => 1
  | .gray => 2

theorem covered_iff (fmt : Fmt) (W : Nat) (data : Array Byte) (x y : Nat) :
    Spec.Pix.covered fmt.code W data.size x y = true ↔ covered fmt W data x y := by
  cases fmt <;> simp [Spec.Pix.covered, covered, Fmt.code]

theorem getLsbD_eq_div (b : Byte) (s : Nat) : b.getLsbD s = decide (b.toNat / 2 ^ s % 2 = 1) := by
  show b.toNat.testBit s = _
  exact Nat.testBit_eq_decide_div_mod_eq

theorem expand_eq (fmt : Fmt) (W : Nat) (data : Array Byte) (x y : Nat) :
    Spec.Pix.expand fmt.code W (byteAt data) x y = expandM fmt W data x y := by
  cases fmt with
  | mono =>
    simp only [Spec.Pix.expand, expandM, Fmt.code, byteAt, getLsbD_eq_div, white, black, decide_eq_true_eq]
    simp
  | rgb =>
    simp only [Spec.Pix.expand, expandM, Fmt.code, byteAt, rgbOfWord_eq]
    generalize (data.getD (2 * (y * W + x)) 0#8).toNat * 256 + (data.getD (2 * (y * W + x) + 1) 0#8).toNat = word
    have k5 : ∀ n, n < 32 → n * 255 / 31 % 256 = n * 255 / 31 := by intro n hn; omega
    have k6 : ∀ n, n < 64 → n * 255 / 63 % 256 = n * 255 / 63 := by intro n hn; omega
    rw [k5 (word % 32) (by omega), k6 (word / 32 % 64) (by omega), k5 (word / 2048 % 32) (by omega)]
  | gray =>
    simp only [Spec.Pix.expand, expandM, Fmt.code, byteAt]
    generalize data.getD ((y * W + x) / 2) 0#8 = d
    by_cases hodd : (y * W + x) % 2 = 0
    · rw [if_pos hodd, if_pos hodd]
      have hn : ((d >>> 4) &&& 0xF#8).toNat = d.toNat / 16 := by
        rw [BitVec.toNat_and, BitVec.toNat_ushiftRight, Nat.shiftRight_eq_div_pow]
        show d.toNat / 2 ^ 4 &&& 15 = _
        rw [and_15]; have := d.isLt; omega
      rw [grayOfNibble_eq _ (by rw [hn]; have := d.isLt; omega), hn]
    · rw [if_neg hodd, if_neg hodd]
      have hn : (d &&& 0xF#8).toNat = d.toNat % 16 := by
        rw [BitVec.toNat_and]
        show d.toNat &&& 15 = _
        rw [and_15]
      rw [grayOfNibble_eq _ (by rw [hn]; omega), hn]

theorem mem_allPixels {w h : Nat} {p : Nat × Nat} (hp : p ∈ Spec.Pix.allPixels w h) : p.1 < w ∧ p.2 < h := by
  unfold Spec.Pix.allPixels at hp
  simp only [List.mem_flatMap, List.mem_map, List.mem_range] at hp
  obtain ⟨y, hy, x, hx, rfl⟩ := hp
  exact ⟨hx, hy⟩


end RawPanelVerif.Pix
