import RawPanelVerif.Model.EncIn
/-!
# The inbound encoder reads a field only where `Model.In.carried` keeps it

`carried m` puts the default into every field the encoder does not read given the other fields of `m` (colour index next
to an RGB colour, X / Y without offset flag, a scale without positive type, the integer value under formatting 7 / 10 /
11, the unformatted font size under any other formatting, id and value of a register of unknown kind).
`encIn_carried`: the lines of `carried m` are the lines of `m`, for every message list.
-/
namespace RawPanelVerif.EncCarried
open RawPanelVerif RawPanelVerif.Bytes RawPanelVerif.MsgIn RawPanelVerif.Model.In

theorem flatMap_congr' {α β : Type} (l : List α) (f g : α → List β) (h : ∀ a ∈ l, f a = g a) : l.flatMap f = l.flatMap g := by
  induction l with
  | nil => rfl
  | cons a as ih =>
    simp only [List.flatMap_cons]
    rw [h a (by simp), ih (fun x hx => h x (by simp [hx]))]

theorem colorInt_carried (c : Color) : colorInt (carriedColor c) = colorInt c := by
  unfold carriedColor colorInt
  cases h : c.rgb with
  | none => simp [h]
  | some r => simp

theorem colorLines_carried (id : Nat) (c : Option Color) : colorLines id (c.map carriedColor) = colorLines id c := by
  cases c with
  | none => rfl
  | some c =>
    simp only [Option.map_some, colorLines, optLine, carriedColor]
    cases h : c.rgb with
    | none => simp [h]
    | some r => simp

theorem colorField_carried (c : Option Color) : colorField (c.map carriedColor) = colorField c := by
  cases c with
  | none => rfl
  | some c => simp only [Option.map_some, colorField, colorInt_carried]

theorem scaleOn_carried (t : Text) : scaleOn { t with scale := t.scale.map carriedScale } = scaleOn t := by
  unfold scaleOn
  cases h : t.scale with
  | none => simp
  | some s =>
    simp only [Option.map_some, carriedScale]
    by_cases hs : s.scaleType > 0
    · simp [hs]
    · simp [hs]

theorem scaleOn_carriedText (t : Text) : scaleOn (carriedText t) = scaleOn t := by
  have : scaleOn (carriedText t) = scaleOn { t with scale := t.scale.map carriedScale } := by
    unfold scaleOn carriedText
    rfl
  rw [this, scaleOn_carried]

theorem scaleField_carried (t : Text) (f : Scale → Int) : scaleField (carriedText t) f = scaleField t f := by
  unfold scaleField
  rw [scaleOn_carriedText]

theorem styleField_carried (t : Text) (f : TextStyle → Nat)
    (hf : ∀ ts : TextStyle, f { ts with unformattedFontSize := 0 } = f ts) :
    styleField (carriedText t) f = styleField t f := by
  unfold styleField carriedText
  cases h : t.textStyling with
  | none => simp
  | some ts =>
    simp only [Option.map_some, carriedStyle]
    by_cases hfm : isFmt t.formatting [10, 11] = true
    · simp [hfm]
    · simp [hfm, hf]

theorem isFmt_sub (f : Int) (h : isFmt f [10, 11] = true) : isFmt f [7, 10, 11] = true := by
  unfold isFmt at *
  simp only [List.contains_cons, List.contains_nil, Bool.or_false, Bool.or_eq_true, beq_iff_eq] at *
  rcases h with h | h
  · exact Or.inr (Or.inl h)
  · exact Or.inr (Or.inr h)

theorem textField0P_carried (t : Text) : textField0P (carriedText t) = textField0P t := by
  unfold textField0P
  have hfmt : (carriedText t).formatting = t.formatting := rfl
  rw [hfmt]
  by_cases h1 : isFmt t.formatting [7, 10, 11] = true
  · simp only [h1, Bool.not_true, Bool.false_eq_true, if_false]
    by_cases h2 : isFmt t.formatting [10, 11] = true
    · simp only [h2, if_true]
      unfold ufsOf carriedText
      cases hts : t.textStyling with
      | none => simp
      | some ts => simp [carriedStyle, h2]
    · simp [h2]
  · have h1' : isFmt t.formatting [7, 10, 11] = false := by simpa using h1
    simp only [h1', Bool.not_false, if_true]
    unfold carriedText
    simp [h1']

theorem textFieldsTail_carried (t : Text) : textFieldsTail (carriedText t) = textFieldsTail t := by
  unfold textFieldsTail
  rw [scaleField_carried, scaleField_carried, scaleField_carried, scaleField_carried, scaleField_carried,
    styleField_carried t fontFaceBits (fun _ => rfl), styleField_carried t fontSizeBits (fun _ => rfl),
    styleField_carried t advSettingsBits (fun _ => rfl)]
  have e1 : (carriedText t).pixelColor = t.pixelColor.map carriedColor := rfl
  have e2 : (carriedText t).backgroundColor = t.backgroundColor.map carriedColor := rfl
  rw [e1, e2, colorField_carried, colorField_carried]
  rfl

/-- a text record is the all-default one iff its carried part is -/
theorem carriedText_empty (t : Text) : (carriedText t = {}) ↔ (t = {}) := by
  constructor
  · intro h
    have hf : t.formatting = 0 := by have := congrArg Text.formatting h; exact this
    have hiv : (carriedText t).integerValue = 0 := by rw [h]
    have hsc : (carriedText t).scale = none := by rw [h]
    have hst : (carriedText t).textStyling = none := by rw [h]
    have hpc : (carriedText t).pixelColor = none := by rw [h]
    have hbc : (carriedText t).backgroundColor = none := by rw [h]
    have h1 : t.stateIcon = 0 := by have := congrArg Text.stateIcon h; exact this
    have h2 : t.modifierIcon = 0 := by have := congrArg Text.modifierIcon h; exact this
    have h3 : t.title = [] := by have := congrArg Text.title h; exact this
    have h4 : t.solidHeaderBar = false := by have := congrArg Text.solidHeaderBar h; exact this
    have h5 : t.textline1 = [] := by have := congrArg Text.textline1 h; exact this
    have h6 : t.textline2 = [] := by have := congrArg Text.textline2 h; exact this
    have h7 : t.integerValue2 = 0 := by have := congrArg Text.integerValue2 h; exact this
    have h8 : t.pairMode = 0 := by have := congrArg Text.pairMode h; exact this
    have h9 : t.inverted = false := by have := congrArg Text.inverted h; exact this
    cases t with
    | mk iv fmt si mi title solid l1 l2 iv2 pm sc st inv pc bc =>
      simp only at hf h1 h2 h3 h4 h5 h6 h7 h8 h9
      subst hf h1 h2 h3 h4 h5 h6 h7 h8 h9
      simp only [carriedText] at hiv hsc hst hpc hbc
      have e : isFmt 0 [7, 10, 11] = false := by decide
      rw [e] at hiv
      simp only [Bool.false_eq_true, if_false] at hiv
      subst hiv
      cases sc with
      | some s => simp at hsc
      | none =>
        cases st with
        | some s => simp at hst
        | none =>
          cases pc with
          | some s => simp at hpc
          | none =>
            cases bc with
            | some s => simp at hbc
            | none => rfl
  · intro h
    subst h
    decide

theorem textLinesP_carried (id : Nat) (t : Option Text) : textLinesP id (t.map carriedText) = textLinesP id t := by
  cases t with
  | none => rfl
  | some t =>
    by_cases h : t = {}
    · subst h
      rfl
    · have h' : ¬ carriedText t = {} := fun e => h ((carriedText_empty t).1 e)
      have b1 : textIsEmpty t = false := by simp [textIsEmpty, h]
      have b2 : textIsEmpty (carriedText t) = false := by simp [textIsEmpty, h']
      simp only [Option.map_some, textLinesP, b1, b2, Bool.false_eq_true, if_false, textField0P_carried, textFieldsTail_carried]

theorem gfxLinesP_carried (id : Nat) (g : Option Gfx) : gfxLinesP id (g.map carriedGfx) = gfxLinesP id g := by
  cases g with
  | none => rfl
  | some g =>
    simp only [Option.map_some, carriedGfx]
    by_cases hxy : g.xyOffset = true
    · simp [hxy]
    · have hx : g.xyOffset = false := by simpa using hxy
      rw [if_neg hxy]
      generalize hg' : ({ g with x := 0, y := 0 } : Gfx) = g'
      have e1 : g'.imageData = g.imageData := by rw [← hg']
      have e2 : g'.xyOffset = false := by rw [← hg']; exact hx
      have e3 : g'.imageType = g.imageType := by rw [← hg']
      have e4 : g'.w = g.w := by rw [← hg']
      have e5 : g'.h = g.h := by rw [← hg']
      -- without image data there is no line either way; with data neither record is the default one
      by_cases hd : g.imageData = []
      · have t0 : totalLines 0 = 0 := by decide
        unfold gfxLinesP
        simp only [e1, hd, List.length_nil, t0, List.range_zero, List.map_nil, ite_self]
      · have n1 : gfxIsEmpty g = false := by
          have : g ≠ {} := fun e => hd (by rw [e])
          simp [gfxIsEmpty, this]
        have n2 : gfxIsEmpty g' = false := by
          have : g' ≠ {} := fun e => hd (by rw [← e1, e])
          simp [gfxIsEmpty, this]
        unfold gfxLinesP
        simp only [n1, n2, e1, Bool.false_eq_true, if_false]
        apply List.map_congr_left
        intro i _
        unfold gfxLineOf gfxHeader gfxKeyword
        simp [hx, e2, e3, e4, e5]

theorem idLinesP_carried (s : State) (id : Nat) : idLinesP (carriedState s) id = idLinesP s id := by
  unfold idLinesP carriedState
  simp only [colorLines_carried, textLinesP_carried, gfxLinesP_carried]

theorem stateLinesP_carried (s : State) : stateLinesP (carriedState s) = stateLinesP s := by
  unfold stateLinesP
  have : (carriedState s).ids = s.ids := rfl
  rw [this]
  exact flatMap_congr' _ _ _ (fun id _ => idLinesP_carried s id)

theorem regLine_carried (r : Register) : regLine (carriedReg r) = regLine r := by
  unfold carriedReg
  by_cases h : r.reg = 0 ∨ r.reg = 1 ∨ r.reg = 2 ∨ r.reg = 3
  · rw [if_pos h]
  · rw [if_neg h]
    have h0 : r.reg ≠ 0 := fun e => h (Or.inl e)
    have h1 : r.reg ≠ 1 := fun e => h (Or.inr (Or.inl e))
    have h2 : r.reg ≠ 2 := fun e => h (Or.inr (Or.inr (Or.inl e)))
    have h3 : r.reg ≠ 3 := fun e => h (Or.inr (Or.inr (Or.inr e)))
    unfold regLine
    simp [h0, h1, h2, h3]

theorem msgLinesP_carried (O : Oracles) (m : InMsg) : msgLinesP O (carried m) = msgLinesP O m := by
  unfold msgLinesP carried
  simp only [List.flatMap_map]
  congr 1
  · congr 1
    exact flatMap_congr' _ _ _ (fun s _ => stateLinesP_carried s)
  · exact flatMap_congr' _ _ _ (fun r _ => regLine_carried r)

/-- the encoder's lines depend on the carried part of the messages only -/
theorem encIn_carried (O : Oracles) (ms : List InMsg) : encIn O (ms.map carried) = encIn O ms := by
  unfold encIn encRawP
  rw [List.flatMap_map]
  congr 1
  exact flatMap_congr' _ _ _ (fun m _ => msgLinesP_carried O m)

end RawPanelVerif.EncCarried
