import RawPanelVerif.Lemmas.SvgXmldomDoc
/-!
# The `go-xmldom` round trip at token level (C15): processing instructions; duplicate attributes
-/
namespace RawPanelVerif.Xmldom
open RawPanelVerif.Xml RawPanelVerif.Spec.SvgBase
open RawPanelVerif.Topo (Str SvgNode)

/-! ## a processing instruction that is not the first token of the document -/

theorem no_pi_behind (app ts : List Tok) (happ : ∀ a ∈ app, plain a = true) :
    ∀ x ∈ content (dirs ts ++ elemToks app [] false ts), x.isPI = false := by
  intro x hx
  simp only [content, List.mem_filter, List.mem_append] at hx
  rcases hx.1 with h | h
  · simp only [dirs, List.mem_filter] at h
    have := h.2
    cases x <;> simp_all [Tok.isDir, Tok.isPI]
  · rcases elemToks_mem app ts [] false x h with h | h
    · have := happ x h; cases x <;> simp_all [plain, elemKind, Tok.isPI]
    · cases x <;> simp_all [plain, elemKind, Tok.isPI]

/-- a processing instruction behind another token of the base is never kept: the printed document has at most one, in
front of everything -/
theorem pi_not_kept (app ts : List Tok) (happ : ∀ a ∈ app, plain a = true) (h : piMoved ts = true) :
    keepsContent ts (printedToks app ts) = false := by
  cases hk : keepsContent ts (printedToks app ts) with
  | false => rfl
  | true =>
    exfalso
    have hs := (keeps_iff _ _).mp hk
    simp only [piMoved, List.any_eq_true] at h
    obtain ⟨q, hq, hqp⟩ := h
    have hnb := no_pi_behind app ts happ
    have hR : content (printedToks app ts) = content (lastPI ts).toList ++ content (dirs ts ++ elemToks app [] false ts) := by
      simp only [printedToks, content, List.filter_append, List.append_assoc]
    rw [hR] at hs
    cases hc : content ts with
    | nil => rw [hc] at hq; simp at hq
    | cons x L =>
      rw [hc] at hq hs
      simp only [List.drop_succ_cons, List.drop_zero] at hq
      cases hl : lastPI ts with
      | none =>
        rw [hl] at hs
        have := hs.subset (List.mem_cons_of_mem _ hq)
        simp only [Option.toList_none, content, List.filter_nil, List.nil_append] at this
        have := hnb q this
        rw [hqp] at this; cases this
      | some p =>
        rw [hl] at hs
        have hp1 : content [p] = [p] := content_eq_self (by
          intro y hy
          simp only [List.mem_cons, List.not_mem_nil, or_false] at hy
          subst hy
          have := (lastPI_some hl).1
          cases y <;> simp_all [Tok.isPI, Tok.isBlank])
        simp only [Option.toList_some, hp1, List.singleton_append] at hs
        rcases List.sublist_cons_iff.mp hs with h1 | ⟨r', h1, h2⟩
        · have := hnb q (h1.subset (List.mem_cons_of_mem _ hq))
          rw [hqp] at this; cases this
        · simp only [List.cons.injEq] at h1
          have := hnb q (h2.subset (h1.2 ▸ hq))
          rw [hqp] at this; cases this

/-! ## duplicate attribute names in the printed document -/

theorem noDupAttrs_append (a b : List Tok) : noDupAttrs (a ++ b) = (noDupAttrs a && noDupAttrs b) := by
  simp [noDupAttrs, List.all_append]

theorem noDupAttrs_cons (t : Tok) (r : List Tok) : noDupAttrs (t :: r) = (distinctP (attrNames t) && noDupAttrs r) := by
  simp [noDupAttrs, List.all_cons]

theorem contains_pair {α : Type} (f : α → Str) (l : List α) (x : Str) :
    (l.map (fun a => (([] : Str), f a))).contains ([], x) = (l.map f).contains x := by
  induction l with
  | nil => rfl
  | cons a r _ => simp

theorem distinctP_pair {α : Type} (f : α → Str) (l : List α) :
    distinctP (l.map (fun a => (([] : Str), f a))) = distinct (l.map f) := by
  induction l with
  | nil => rfl
  | cons a r ih =>
    simp only [List.map_cons, distinctP, distinct, ih]
    rw [contains_pair]

/-- the printed start tag has an attribute twice exactly when two attributes of the base's tag share a local name -/
theorem distinctP_stripped (p l : Str) (as : List (Str × Str × Str)) :
    distinctP (attrNames (Tok.start [] l (as.map stripAttr))) = !dupLocal (Tok.start p l as) := by
  simp only [attrNames, dupLocal, List.map_map, Bool.not_not]
  exact distinctP_pair (fun a => a.2.1) as

theorem noDupAttrs_pend (s : Str) : noDupAttrs (pend s) = true := by
  unfold pend; split <;> rfl

/-- the root is still to be closed: the appended elements are still to be printed -/
def rootPending (st : List Frame) (seen : Bool) : Bool := !(st.isEmpty && seen)

theorem noDupAttrs_elemToks (app : List Tok) : ∀ (ts : List Tok) (st : List Frame) (ns : List (Str × Str)) (seen : Bool),
    st.length = ns.length → (∀ f ∈ st, f.live = true) → docShape ns seen ts = true →
    noDupAttrs (elemToks app st seen ts) = ((!rootPending st seen || noDupAttrs app) && ts.all (fun t => !dupLocal t)) := by
  intro ts
  induction ts with
  | nil =>
    intro st ns seen hl _ hd
    cases ns with
    | nil =>
      cases st with
      | nil => simp only [docShape] at hd; simp [elemToks, noDupAttrs, rootPending, hd]
      | cons _ _ => simp at hl
    | cons _ _ => simp [docShape] at hd
  | cons t r ih =>
    intro st ns seen hl hlive hd
    cases t with
    | start p l as =>
      have hln : liveNext st seen = true := by
        cases st with
        | nil =>
          cases ns with
          | nil => simp only [docShape, Bool.and_eq_true] at hd; simp [liveNext, hd.1]
          | cons _ _ => simp at hl
        | cons f st' => exact hlive f List.mem_cons_self
      have hrp : rootPending st seen = true := by
        cases st with
        | nil =>
          cases ns with
          | nil => simp only [docShape, Bool.and_eq_true, Bool.not_eq_true'] at hd; simp [rootPending, hd.1]
          | cons _ _ => simp at hl
        | cons f st' => rfl
      have hd' : docShape ((p, l) :: ns) true r = true := by
        cases ns with
        | nil => simp only [docShape, Bool.and_eq_true] at hd; exact hd.2
        | cons o ns' => simpa [docShape] using hd
      have := ih ({ name := l, live := liveNext st seen } :: st) ((p, l) :: ns) true (by simp [hl])
        (by
          intro f hf
          rcases List.mem_cons.mp hf with rfl | hf
          · exact hln
          · exact hlive f hf) hd'
      rw [hln] at this
      have hrp2 : rootPending ({ name := l } :: st) true = true := rfl
      rw [hrp2] at this
      simp only [elemToks, hln, if_true, List.singleton_append, noDupAttrs_cons, this, distinctP_stripped p l as, hrp,
        List.all_cons, Bool.not_true, Bool.false_or]
      cases dupLocal (Tok.start p l as) <;> cases noDupAttrs app <;> simp
    | stop p l =>
      cases st with
      | nil =>
        cases ns with
        | nil => simp [docShape] at hd
        | cons _ _ => simp at hl
      | cons f st' =>
        cases ns with
        | nil => simp at hl
        | cons o ns' =>
          simp only [docShape, Bool.and_eq_true] at hd
          have := ih st' ns' seen (by simpa using hl) (fun g hg => hlive g (List.mem_cons_of_mem _ hg)) hd.2
          simp only [elemToks, hlive f List.mem_cons_self, if_true, noDupAttrs_append, this, noDupAttrs_pend, List.all_cons,
            dupLocal, Bool.not_false, Bool.true_and]
          have h1 : noDupAttrs [Tok.stop [] f.name] = true := rfl
          rw [h1]
          cases st' with
          | nil =>
            simp only [appAt, List.isEmpty_nil, if_true, rootPending, List.isEmpty_cons, Bool.false_and, Bool.not_false,
              Bool.not_true, Bool.false_or, Bool.and_true, Bool.true_and]
            cases noDupAttrs app <;> cases seen <;> simp
          | cons g q =>
            simp [appAt, rootPending, noDupAttrs]
    | text s =>
      cases st with
      | nil =>
        have hd' : docShape ns seen r = true := by
          cases ns with
          | nil => simp only [docShape, Bool.and_eq_true] at hd; exact hd.2
          | cons _ _ => simp at hl
        have := ih [] ns seen hl hlive hd'
        simp only [elemToks, this, List.all_cons, dupLocal, Bool.not_false, Bool.true_and]
      | cons f st' =>
        have hd' : docShape ns seen r = true := by
          cases ns with
          | nil => simp at hl
          | cons _ _ => simpa [docShape] using hd
        have := ih ({ f with text := s } :: st') ns seen (by simpa using hl)
          (by
            intro g hg
            rcases List.mem_cons.mp hg with rfl | hg
            · exact hlive f List.mem_cons_self
            · exact hlive g (List.mem_cons_of_mem _ hg)) hd'
        simp only [elemToks, this, List.all_cons, dupLocal, Bool.not_false, Bool.true_and]
        rfl
    | comment c =>
      have := ih st ns seen hl hlive (by cases ns <;> simpa [docShape] using hd)
      simp only [elemToks, this, List.all_cons, dupLocal, Bool.not_false, Bool.true_and]
    | pi a b =>
      have := ih st ns seen hl hlive (by cases ns <;> simpa [docShape] using hd)
      simp only [elemToks, this, List.all_cons, dupLocal, Bool.not_false, Bool.true_and]
    | dir c =>
      cases ns with
      | nil =>
        simp only [docShape, Bool.and_eq_true] at hd
        have := ih st [] seen hl hlive hd.2
        simp only [elemToks, this, List.all_cons, dupLocal, Bool.not_false, Bool.true_and]
      | cons _ _ => simp [docShape] at hd

theorem all_not_dupLocal (ts : List Tok) : ts.all (fun t => !dupLocal t) = !attrCollision ts := by
  unfold attrCollision
  induction ts with
  | nil => rfl
  | cons t r ih => simp [List.all_cons, List.any_cons, ih]

/-- The printed document has an attribute name twice in a start tag exactly when the appended elements have, or a start
tag of the base has two attributes with the same local name (after the prefixes are dropped they collide). -/
theorem noDupAttrs_printed (app ts : List Tok) (hd : docShape [] false ts = true) :
    noDupAttrs (printedToks app ts) = (noDupAttrs app && !attrCollision ts) := by
  have h1 : noDupAttrs (lastPI ts).toList = true := by
    simp only [noDupAttrs, List.all_eq_true]
    intro x hx
    simp only [Option.mem_toList] at hx
    have := (lastPI_some hx).1
    cases x <;> simp_all [Tok.isPI, attrNames, distinctP]
  have h2 : noDupAttrs (dirs ts) = true := by
    simp only [noDupAttrs, List.all_eq_true]
    intro x hx
    simp only [dirs, List.mem_filter] at hx
    have := hx.2
    cases x <;> simp_all [Tok.isDir, attrNames, distinctP]
  have h3 := noDupAttrs_elemToks app ts [] [] false rfl (by simp) hd
  simp only [printedToks, noDupAttrs_append, h1, h2, h3, Bool.true_and, all_not_dupLocal]
  simp [rootPending]

/-- the tokens of the appended elements are plain -/
theorem appToks_plain (nodes : List SvgNode) : ∀ a ∈ appToks nodes, plain a = true := by
  intro a ha
  simp only [appToks, List.mem_flatMap] at ha
  obtain ⟨n, _, ha⟩ := ha
  simp only [nodeToks, List.mem_append, List.mem_cons, List.not_mem_nil, or_false] at ha
  rcases ha with (rfl | ha) | rfl
  · simp [plain, elemKind, prefixed]
  · exact pend_plain _ a ha
  · simp [plain, elemKind, prefixed]

theorem distinct_iff_nodup (l : List Str) : distinct l = true ↔ l.Nodup := by
  induction l with
  | nil => simp [distinct]
  | cons a r ih => simp [distinct, ih, List.nodup_cons]

theorem noDupAttrs_appToks (nodes : List SvgNode) (h : ∀ n ∈ nodes, (n.attrs.map (·.1)).Nodup) :
    noDupAttrs (appToks nodes) = true := by
  induction nodes with
  | nil => rfl
  | cons n r ih =>
    simp only [appToks, List.flatMap_cons, noDupAttrs_append] at ih ⊢
    rw [ih (fun m hm => h m (List.mem_cons_of_mem _ hm))]
    simp only [nodeToks, noDupAttrs_append, noDupAttrs_pend, noDupAttrs_cons, attrNames, List.map_map, Bool.and_true]
    have h0 : noDupAttrs [] = true := rfl
    simp only [h0, distinctP, Bool.and_true]
    have e : List.map ((fun (a : Str × Str × Str) => (a.fst, a.snd.fst)) ∘ fun (a : Str × Str) => (([] : Str), a.fst, a.snd)) n.attrs
        = n.attrs.map (fun a => (([] : Str), a.1)) := by
      apply List.map_congr_left
      intro a _
      rfl
    rw [e, distinctP_pair (fun (a : Str × Str) => a.1) n.attrs]
    exact (distinct_iff_nodup _).mpr (h n List.mem_cons_self)

end RawPanelVerif.Xmldom
