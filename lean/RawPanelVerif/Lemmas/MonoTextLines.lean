import RawPanelVerif.Lemmas.MonoTextXform
/-!
# Text with line feeds, on any canvas

`RenderText` treats byte 10 as a command: the cursor goes to column 0 of the next line (`nl`).  So a string is rendered
line by line (`renderText_lf`), the first line at the cursor, every following line at `x = 0`.

`textRL` / `textR0L` / `NoEarlyL` are the line-aware versions of `textR` / `textR0` / `NoEarly` (equal to them for strings
without LF), and all statements are for an arbitrary well-formed starting canvas with an arbitrary bounding box:
`renderText_paintL` (exact effect: painted on the region, every other stored bit kept), `textR0L_shift` (translation,
pixel pairs inside the clip) and `textR0L_scale` (scaling with the extra spacing scaled as well).
-/
namespace RawPanelVerif.Mono
open RawPanelVerif.Gen

/-- the cursor movement of byte 10 -/
def nl (t : TextSt) : TextSt := { t with cy := t.cy + lineAdvance t, cx := 0 }

theorem writeChar_lf (c : Canvas) (t : TextSt) : writeChar (c, t) 10 = (c, nl t) := by
  unfold writeChar nl; simp

/-- **Line by line**: rendering `a ++ [LF] ++ b` is rendering `a`, moving the cursor to column 0 of the next line, and
rendering `b` (whatever the wrap mode, colours, canvas). -/
theorem renderText_lf (ct : Canvas × TextSt) (a b : List Nat) :
    renderText ct (a ++ 10 :: b) = renderText ((renderText ct a).1, nl (renderText ct a).2) b := by
  unfold renderText
  rw [List.foldl_append, List.foldl_cons, writeChar_lf]

/-- region painted by a string (wrapping off), line feeds included -/
def textRL (g : Geom) : TextSt → List Nat → Region
  | _, [] => fun _ _ => False
  | t, ch :: rest =>
    if ch = 10 then textRL g (nl t) rest
    else if ch = 13 then textRL g t rest
    else fun X Y =>
      (¬ earlyRet g t t.cx t.cy ch t.tsH t.tsV ∧ glyphR g t t.cx t.cy ch t.tsH t.tsV X Y) ∨
      textRL g { t with cx := t.cx + t.tsH * (charWidth t ch : Int) + t.spacing } rest X Y

theorem textRL_eq_textR (g : Geom) (s : List Nat) (hs : 10 ∉ s) (t : TextSt) : textRL g t s = textR g t s := by
  induction s generalizing t with
  | nil => rfl
  | cons ch rest ih =>
    have hch : ch ≠ 10 := fun e => hs (by simp [e])
    have hrest : 10 ∉ rest := fun e => hs (by simp [e])
    simp only [textRL, textR, hch, if_false]
    by_cases h13 : ch = 13
    · simp only [h13, if_true]; exact ih hrest t
    · simp only [h13, if_false]; rw [ih hrest]

/-- **Exact effect of `RenderText`** for every string (line feeds included), wrapping off, transparent background, on any
well-formed canvas: painted in the text colour on `textRL`, every other stored bit unchanged. -/
theorem renderText_paintL (s : List Nat) (c : Canvas) (hwf : c.WF) (t : TextSt)
    (hw : t.wrap = false) (hbg : t.tbg = t.tcol) :
    Paint (textRL c.geo t s) (t.tcol != c.geo.inv) c (renderText (c, t) s).1 := by
  unfold renderText
  induction s generalizing c t with
  | nil => exact Paint.skip _ c hwf _ (fun _ _ h => h)
  | cons ch rest ih =>
    rw [List.foldl_cons]
    by_cases h10 : ch = 10
    · subst h10
      rw [writeChar_lf]
      have := ih c hwf (nl t) hw hbg
      simp only [textRL, if_true]
      exact this
    · by_cases h13 : ch = 13
      · have hw13 : writeChar (c, t) ch = (c, t) := by unfold writeChar; simp [h13]
        rw [hw13]
        have := ih c hwf t hw hbg
        simp only [textRL, h10, h13, if_true, if_false]; exact this
      · have hwc : writeChar (c, t) ch =
            (drawChar c t t.cx t.cy ch t.tcol t.tbg t.tsH t.tsV,
              { t with cx := t.cx + t.tsH * (charWidth t ch : Int) + t.spacing }) := by
          unfold writeChar; simp [h10, h13, hw]
        rw [hwc]
        have edc : drawChar c t t.cx t.cy ch t.tcol t.tbg t.tsH t.tsV = drawChar c t t.cx t.cy ch t.tcol t.tcol t.tsH t.tsV := by
          rw [hbg]
        rw [edc]
        have p1 : Paint (fun X Y => ¬ earlyRet c.geo t t.cx t.cy ch t.tsH t.tsV ∧ glyphR c.geo t t.cx t.cy ch t.tsH t.tsV X Y)
            (t.tcol != c.geo.inv) c (drawChar c t t.cx t.cy ch t.tcol t.tcol t.tsH t.tsV) := by
          by_cases he : earlyRet c.geo t t.cx t.cy ch t.tsH t.tsV
          · have : drawChar c t t.cx t.cy ch t.tcol t.tcol t.tsH t.tsV = c := by
              have he' : t.cx > getBWidth c.geo - ((charWidth t ch : Int) - 1) * t.tsH ∨ t.cy > (c.geo.H : Int) ∨
                  t.cx + (t.fp.bbW : Int) * t.tsH - 1 < 0 ∨ t.cy + (t.fp.bbH : Int) * t.tsV - 1 < 0 := he
              unfold drawChar; simp only []; rw [if_pos he']
            rw [this]
            exact Paint.skip _ c hwf _ (fun X Y hh => hh.1 he)
          · exact (drawChar_paint c hwf t t.cx t.cy ch t.tcol t.tsH t.tsV he).congr
              (fun X Y => ⟨fun hh => ⟨he, hh⟩, fun hh => hh.2⟩)
        have p2 := ih _ p1.wf { t with cx := t.cx + t.tsH * (charWidth t ch : Int) + t.spacing } hw hbg
        rw [p1.geo] at p2
        have := p1.seq p2
        simp only [textRL, h10, h13, if_false]
        exact this

/-- no character is skipped by `DrawChar`'s whole-glyph clip tests (line-aware) -/
def NoEarlyL (g : Geom) : TextSt → List Nat → Prop
  | _, [] => True
  | t, ch :: rest =>
    if ch = 10 then NoEarlyL g (nl t) rest
    else if ch = 13 then NoEarlyL g t rest
    else ¬ earlyRet g t t.cx t.cy ch t.tsH t.tsV ∧
         NoEarlyL g { t with cx := t.cx + t.tsH * (charWidth t ch : Int) + t.spacing } rest

/-- `textRL` without the clip-test conjunct -/
def textR0L (g : Geom) : TextSt → List Nat → Region
  | _, [] => fun _ _ => False
  | t, ch :: rest =>
    if ch = 10 then textR0L g (nl t) rest
    else if ch = 13 then textR0L g t rest
    else fun X Y => glyphR g t t.cx t.cy ch t.tsH t.tsV X Y ∨
      textR0L g { t with cx := t.cx + t.tsH * (charWidth t ch : Int) + t.spacing } rest X Y

theorem textRL_iff_textR0L (g : Geom) (s : List Nat) (t : TextSt) (h : NoEarlyL g t s) (X Y : Nat) :
    textRL g t s X Y ↔ textR0L g t s X Y := by
  induction s generalizing t with
  | nil => exact Iff.rfl
  | cons ch rest ih =>
    simp only [textRL, textR0L]
    simp only [NoEarlyL] at h
    by_cases h10 : ch = 10
    · simp only [h10, if_true] at h ⊢; exact ih (nl t) h
    · by_cases h13 : ch = 13
      · simp only [h10, h13, if_true, if_false] at h ⊢; exact ih t h
      · simp only [h10, h13, if_false] at h ⊢
        obtain ⟨hne, hrest⟩ := h
        constructor
        · rintro (⟨_, hg⟩ | hr)
          · exact Or.inl hg
          · exact Or.inr ((ih _ hrest).1 hr)
        · rintro (hg | hr)
          · exact Or.inl ⟨hne, hg⟩
          · exact Or.inr ((ih _ hrest).2 hr)

theorem textR0L_eq_textR0 (g : Geom) (s : List Nat) (hs : 10 ∉ s) (t : TextSt) : textR0L g t s = textR0 g t s := by
  induction s generalizing t with
  | nil => rfl
  | cons ch rest ih =>
    have hch : ch ≠ 10 := fun e => hs (by simp [e])
    have hrest : 10 ∉ rest := fun e => hs (by simp [e])
    simp only [textR0L, textR0, hch, if_false]
    by_cases h13 : ch = 13
    · simp only [h13, if_true]; exact ih hrest t
    · simp only [h13, if_false]; rw [ih hrest]

theorem noEarlyL_iff_noEarly (g : Geom) (s : List Nat) (hs : 10 ∉ s) (t : TextSt) : NoEarlyL g t s ↔ NoEarly g t s := by
  induction s generalizing t with
  | nil => exact Iff.rfl
  | cons ch rest ih =>
    have hch : ch ≠ 10 := fun e => hs (by simp [e])
    have hrest : 10 ∉ rest := fun e => hs (by simp [e])
    simp only [NoEarlyL, NoEarly, hch, if_false]
    by_cases h13 : ch = 13
    · simp only [h13, if_true]; exact ih hrest t
    · simp only [h13, if_false]; rw [ih hrest]

/-- **Pixel value after `RenderText` on any canvas**: the text colour on `textR0L`, the old value elsewhere -/
theorem renderText_value (c : Canvas) (hwf : c.WF) (t : TextSt) (s : List Nat) (hw : t.wrap = false)
    (hbg : t.tbg = t.tcol) (hne : NoEarlyL c.geo t s) (X Y : Nat) (hX : X < c.geo.wib * 8) (hY : Y < c.geo.H)
    [Decidable (textR0L c.geo t s X Y)] :
    getPx (renderText (c, t) s).1 X Y = if textR0L c.geo t s X Y then (t.tcol != c.geo.inv) else getPx c X Y := by
  have p := renderText_paintL s c hwf t hw hbg
  split
  · rename_i hr
    exact p.inside X Y hX hY ((textRL_iff_textR0L _ s t hne X Y).2 hr)
  · rename_i hr
    exact p.same X Y hX hY (fun h => hr ((textRL_iff_textR0L _ s t hne X Y).1 h))

/-! ## translation (any geometry; both pixels inside the clip) -/

theorem glyphR_shiftG (g : Geom) (t : TextSt) (x y dx dy : Int) (ch : Nat) (h v : Int) (X Y X' Y' : Nat)
    (hc : clipR g X Y) (hc' : clipR g X' Y') (ex : (X' : Int) = X + dx) (ey : (Y' : Int) = Y + dy) :
    glyphR g t (x + dx) (y + dy) ch h v X' Y' ↔ glyphR g t x y ch h v X Y := by
  unfold glyphR blockR boxR
  constructor
  · rintro ⟨i, j, hi, hj, hink, _, q1, q2, q3, q4⟩
    exact ⟨i, j, hi, hj, hink, hc, by omega, by omega, by omega, by omega⟩
  · rintro ⟨i, j, hi, hj, hink, _, q1, q2, q3, q4⟩
    exact ⟨i, j, hi, hj, hink, hc', by omega, by omega, by omega, by omega⟩

/-- moving the cursor by `(dx, dy)` moves the painted region by `(dx, dy)` — for strings without line feed; with line feeds
for `dx = 0` (every line after the first starts at column 0 wherever the cursor was) -/
theorem textR0L_shift (g : Geom) (s : List Nat) (t : TextSt) (dx dy : Int) (hlf : dx = 0 ∨ 10 ∉ s) (X Y X' Y' : Nat)
    (hc : clipR g X Y) (hc' : clipR g X' Y') (ex : (X' : Int) = X + dx) (ey : (Y' : Int) = Y + dy) :
    textR0L g { t with cx := t.cx + dx, cy := t.cy + dy } s X' Y' ↔ textR0L g t s X Y := by
  induction s generalizing t with
  | nil => exact Iff.rfl
  | cons ch rest ih =>
    have hlf' : dx = 0 ∨ 10 ∉ rest := hlf.imp id (fun h e => h (by simp [e]))
    simp only [textR0L]
    by_cases h10 : ch = 10
    · simp only [h10, if_true]
      have hdx : dx = 0 := by
        rcases hlf with h | h
        · exact h
        · exact absurd (by simp [h10]) h
      have e : nl { t with cx := t.cx + dx, cy := t.cy + dy } = { nl t with cx := (nl t).cx + dx, cy := (nl t).cy + dy } := by
        unfold nl lineAdvance TextSt.fp
        simp only [TextSt.mk.injEq, and_true, true_and]
        constructor <;> omega
      rw [e]
      exact ih (nl t) hlf'
    · by_cases h13 : ch = 13
      · simp only [h10, h13, if_true, if_false]; exact ih t hlf'
      · simp only [h10, h13, if_false]
        have hg := glyphR_shiftG g t t.cx t.cy dx dy ch t.tsH t.tsV X Y X' Y' hc hc' ex ey
        have hcw : charWidth { t with cx := t.cx + dx, cy := t.cy + dy } ch = charWidth t ch := rfl
        have hgl : glyphR g { t with cx := t.cx + dx, cy := t.cy + dy } (t.cx + dx) (t.cy + dy) ch t.tsH t.tsV X' Y'
            ↔ glyphR g t (t.cx + dx) (t.cy + dy) ch t.tsH t.tsV X' Y' := Iff.rfl
        have hrec := ih { t with cx := t.cx + t.tsH * (charWidth t ch : Int) + t.spacing } hlf'
        have hst : ({ ({ t with cx := t.cx + dx, cy := t.cy + dy } : TextSt) with
              cx := t.cx + dx + t.tsH * (charWidth t ch : Int) + t.spacing } : TextSt) =
            { ({ t with cx := t.cx + t.tsH * (charWidth t ch : Int) + t.spacing } : TextSt) with
              cx := t.cx + t.tsH * (charWidth t ch : Int) + t.spacing + dx, cy := t.cy + dy } := by
          simp only [TextSt.mk.injEq, and_true, true_and]; omega
        simp only [hcw]
        rw [hst]
        constructor
        · rintro (hh | hh)
          · exact Or.inl (hg.1 (hgl.1 hh))
          · exact Or.inr (hrec.1 hh)
        · rintro (hh | hh)
          · exact Or.inl (hgl.2 (hg.2 hh))
          · exact Or.inr (hrec.2 hh)

/-! ## scaling, extra spacing scaled as well -/

/-- text state at size `(h,v)` with extra spacing `sp` and the cursor at `(cx, cy)` -/
def atSizeSp (t : TextSt) (h v : Int) (sp : Nat) (cx cy : Int) : TextSt :=
  { t with tsH := h, tsV := v, spacing := sp, cx := cx, cy := cy }

theorem glyphR_scaleG (g : Geom) (th t1 : TextSt) (hf : th.font = t1.font) (hp : th.prop = t1.prop)
    (h v cx cy S T : Int) (hh : 0 < h) (hv : 0 < v) (ch : Nat)
    (I J p q : Int) (Xh Yh X1 Y1 : Nat) (hch : clipR g Xh Yh) (hc1 : clipR g X1 Y1)
    (hp0 : 0 ≤ p) (hp' : p < h) (hq0 : 0 ≤ q) (hq : q < v)
    (eXh : (Xh : Int) = cx + g.bx + h * I + p) (eYh : (Yh : Int) = cy + g.byy + v * J + q)
    (eX1 : (X1 : Int) = cx + g.bx + I) (eY1 : (Y1 : Int) = cy + g.byy + J) :
    glyphR g th (cx + h * S) (cy + v * T) ch h v Xh Yh ↔ glyphR g t1 (cx + S) (cy + T) ch 1 1 X1 Y1 := by
  unfold glyphR blockR boxR
  have hcw : charWidth th ch = charWidth t1 ch := by unfold charWidth TextSt.fp; rw [hf, hp]
  have hbb : th.fp.bbH = t1.fp.bbH := by unfold TextSt.fp; rw [hf]
  have hink : ∀ i j, inkBit th ch i j = inkBit t1 ch i j := by
    intro i j
    unfold inkBit glyphColumn charStart charWidth TextSt.fp; rw [hf, hp]
  constructor
  · rintro ⟨i, j, hi, hj, hk, _, q1, q2, q3, q4⟩
    have ei : (i : Int) * h = h * i := Int.mul_comm _ _
    have ej : (j : Int) * v = v * j := Int.mul_comm _ _
    have eI : I = S + i := by
      have e1 : h * (S + i) = h * S + h * i := Int.mul_add _ _ _
      exact block_index h (S + i) I p hh hp0 hp' (by omega) (by omega)
    have eJ : J = T + j := by
      have e1 : v * (T + j) = v * T + v * j := Int.mul_add _ _ _
      exact block_index v (T + j) J q hv hq0 hq (by omega) (by omega)
    refine ⟨i, j, by rw [← hcw]; exact hi, by rw [← hbb]; exact hj, by rw [← hink]; exact hk, hc1, ?_, ?_, ?_, ?_⟩ <;> omega
  · rintro ⟨i, j, hi, hj, hk, _, q1, q2, q3, q4⟩
    have ei : (i : Int) * h = h * i := Int.mul_comm _ _
    have ej : (j : Int) * v = v * j := Int.mul_comm _ _
    have eI : I = S + i := by omega
    have eJ : J = T + j := by omega
    subst eI eJ
    have e1 : h * (S + i) = h * S + h * i := Int.mul_add _ _ _
    have e2 : v * (T + j) = v * T + v * j := Int.mul_add _ _ _
    refine ⟨i, j, by rw [hcw]; exact hi, by rw [hbb]; exact hj, by rw [hink]; exact hk, hch, ?_, ?_, ?_, ?_⟩ <;> omega

/-- **Scale consistency, general spacing**: the text at size `(h, v)` with extra spacing `h·k` (cursor at `cx + h·S`,
`cy + v·T`) paints stored bit `(cx + h·I + p, cy + v·J + q)` exactly when the text at size 1 with extra spacing `k` (cursor
at `cx + S`, `cy + T`) paints `(cx + I, cy + J)`.  Strings with line feeds: for `cx = 0`, the column every new line
starts at. -/
theorem textR0L_scale (g : Geom) (s : List Nat) (t : TextSt) (h : Int) (k sph : Nat) (hsp : (sph : Int) = h * k) (v cx cy : Int)
    (hh : 0 < h) (hv : 0 < v) (hlf : cx = 0 ∨ 10 ∉ s) (S T : Int)
    (I J p q : Int) (Xh Yh X1 Y1 : Nat) (hch : clipR g Xh Yh) (hc1 : clipR g X1 Y1)
    (hp0 : 0 ≤ p) (hp : p < h) (hq0 : 0 ≤ q) (hq : q < v)
    (eXh : (Xh : Int) = cx + g.bx + h * I + p) (eYh : (Yh : Int) = cy + g.byy + v * J + q)
    (eX1 : (X1 : Int) = cx + g.bx + I) (eY1 : (Y1 : Int) = cy + g.byy + J) :
    textR0L g (atSizeSp t h v sph (cx + h * S) (cy + v * T)) s Xh Yh ↔
    textR0L g (atSizeSp t 1 1 k (cx + S) (cy + T)) s X1 Y1 := by
  induction s generalizing S T with
  | nil => exact Iff.rfl
  | cons ch rest ih =>
    have hlf' : cx = 0 ∨ 10 ∉ rest := hlf.imp id (fun h e => h (by simp [e]))
    simp only [textR0L]
    by_cases h10 : ch = 10
    · simp only [h10, if_true]
      have hcx : cx = 0 := by
        rcases hlf with h | h
        · exact h
        · exact absurd (by simp [h10]) h
      have eh : nl (atSizeSp t h v sph (cx + h * S) (cy + v * T)) =
          atSizeSp t h v sph (cx + h * 0) (cy + v * (T + (t.fp.bbH : Int))) := by
        unfold nl atSizeSp lineAdvance TextSt.fp
        simp only [TextSt.mk.injEq, and_true, true_and]
        have : v * (T + ((fontParams t.font).bbH : Int)) = v * T + v * ((fontParams t.font).bbH : Int) := Int.mul_add _ _ _
        constructor <;> omega
      have e1 : nl (atSizeSp t 1 1 k (cx + S) (cy + T)) = atSizeSp t 1 1 k (cx + 0) (cy + (T + (t.fp.bbH : Int))) := by
        unfold nl atSizeSp lineAdvance TextSt.fp
        simp only [TextSt.mk.injEq, and_true, true_and]
        constructor <;> omega
      rw [eh, e1]
      exact ih hlf' 0 (T + (t.fp.bbH : Int))
    · by_cases h13 : ch = 13
      · simp only [h10, h13, if_true, if_false]; exact ih hlf' S T
      · simp only [h10, h13, if_false]
        have hg := glyphR_scaleG g (atSizeSp t h v sph (cx + h * S) (cy + v * T)) (atSizeSp t 1 1 k (cx + S) (cy + T)) rfl rfl
          h v cx cy S T hh hv ch I J p q Xh Yh X1 Y1 hch hc1 hp0 hp hq0 hq eXh eYh eX1 eY1
        have hcwh : charWidth (atSizeSp t h v sph (cx + h * S) (cy + v * T)) ch = charWidth t ch := rfl
        have hcw1 : charWidth (atSizeSp t 1 1 k (cx + S) (cy + T)) ch = charWidth t ch := rfl
        have sth : ({ atSizeSp t h v sph (cx + h * S) (cy + v * T) with
              cx := (atSizeSp t h v sph (cx + h * S) (cy + v * T)).cx +
                (atSizeSp t h v sph (cx + h * S) (cy + v * T)).tsH * (charWidth (atSizeSp t h v sph (cx + h * S) (cy + v * T)) ch : Int)
                + (atSizeSp t h v sph (cx + h * S) (cy + v * T)).spacing } : TextSt) =
            atSizeSp t h v sph (cx + h * (S + ((charWidth t ch : Int) + k))) (cy + v * T) := by
          unfold atSizeSp
          simp only [TextSt.mk.injEq, and_true, true_and]
          have e1 : h * (S + ((charWidth t ch : Int) + k)) = h * S + (h * (charWidth t ch : Int) + h * k) := by
            rw [Int.mul_add, Int.mul_add]
          show cx + h * S + h * (charWidth t ch : Int) + (sph : Int) = cx + h * (S + ((charWidth t ch : Int) + k))
          omega
        have st1 : ({ atSizeSp t 1 1 k (cx + S) (cy + T) with
              cx := (atSizeSp t 1 1 k (cx + S) (cy + T)).cx +
                (atSizeSp t 1 1 k (cx + S) (cy + T)).tsH * (charWidth (atSizeSp t 1 1 k (cx + S) (cy + T)) ch : Int)
                + (atSizeSp t 1 1 k (cx + S) (cy + T)).spacing } : TextSt) =
            atSizeSp t 1 1 k (cx + (S + ((charWidth t ch : Int) + k))) (cy + T) := by
          unfold atSizeSp
          simp only [TextSt.mk.injEq, and_true, true_and]
          show cx + S + 1 * (charWidth t ch : Int) + (k : Int) = cx + (S + ((charWidth t ch : Int) + k))
          omega
        rw [sth, st1]
        have hrec := ih hlf' (S + ((charWidth t ch : Int) + k)) T
        constructor
        · rintro (hh' | hh')
          · exact Or.inl (hg.1 hh')
          · exact Or.inr (hrec.1 hh')
        · rintro (hh' | hh')
          · exact Or.inl (hg.2 hh')
          · exact Or.inr (hrec.2 hh')

end RawPanelVerif.Mono
