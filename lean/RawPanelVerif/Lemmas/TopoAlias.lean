import RawPanelVerif.Model.TopoAlias
import RawPanelVerif.Lemmas.TopoLookup
/-! C13 helper lemmas: the store-of-cells model refines to the value model; heap extension; closedness. -/
namespace RawPanelVerif.Topo.Alias
open RawPanelVerif RawPanelVerif.Topo

/-! ## abstraction commutes with the map / list look-ups -/

theorem lookup_map_abs (h : Heap) (m : Map TypeDefR) (k : Nat) :
    Map.lookup (m.map (absE h)) k = (Map.lookup m k).map (absTD h) := by
  induction m with
  | nil => rfl
  | cons e r ih =>
    obtain ⟨k', v⟩ := e
    simp only [List.map_cons, absE, Map.lookup]
    by_cases hk : k = k'
    · simp [hk]
    · simp only [hk, if_false]; exact ih

theorem absTD_zero (h : Heap) : absTD h zeroR = zeroTD := rfl

theorem findIdxR_abs (h : Heap) (l : List HWcR) (id k : Nat) :
    findIdx (l.map (absHWc h)) id k = (findIdxR l id k).map (fun p => (p.1, absHWc h p.2)) := by
  induction l generalizing k with
  | nil => rfl
  | cons c r ih =>
    simp only [List.map_cons, findIdx, findIdxR]
    have : (absHWc h c).id = c.c.id := rfl
    rw [this]
    by_cases hc : c.c.id = id
    · simp [hc]
    · simp only [hc, if_false]; exact ih (k + 1)

theorem getElem?_map_abs (h : Heap) (l : List HWcR) (k : Nat) :
    (l.map (absHWc h))[k]? = (l[k]?).map (absHWc h) := by simp

/-! ## the scalar assignments do not look at the references -/

section scalars
variable (o o' x : TypeDef) (d : Option Disp) (s : List SubEl)
theorem ovW_setDS (e : o'.w = o.w) : ovW o' (setDS x d s) = setDS (ovW o x) d s := by
  unfold ovW; rw [e]; split <;> rfl
theorem ovH_setDS (e : o'.h = o.h) : ovH o' (setDS x d s) = setDS (ovH o x) d s := by
  unfold ovH; rw [e]; split <;> rfl
theorem ovSubidx_setDS (e : o'.subidx = o.subidx) : ovSubidx o' (setDS x d s) = setDS (ovSubidx o x) d s := by
  unfold ovSubidx; rw [e]; split <;> rfl
theorem ovOut_setDS (e : o'.out = o.out) : ovOut o' (setDS x d s) = setDS (ovOut o x) d s := by
  unfold ovOut; rw [e]; split <;> rfl
theorem ovIn_setDS (e : o'.inp = o.inp) : ovIn o' (setDS x d s) = setDS (ovIn o x) d s := by
  unfold ovIn; rw [e]; split <;> rfl
theorem ovExt_setDS (e : o'.ext = o.ext) : ovExt o' (setDS x d s) = setDS (ovExt o x) d s := by
  unfold ovExt; rw [e]; split <;> rfl
theorem ovDesc_setDS (e : o'.desc = o.desc) : ovDesc o' (setDS x d s) = setDS (ovDesc o x) d s := by
  unfold ovDesc; rw [e]; split <;> rfl
theorem ovRender_setDS (e : o'.render = o.render) : ovRender o' (setDS x d s) = setDS (ovRender o x) d s := by
  unfold ovRender; rw [e]; split <;> rfl
theorem ovRotate_setDS (e : o'.rotate = o.rotate) : ovRotate o' (setDS x d s) = setDS (ovRotate o x) d s := by
  unfold ovRotate; rw [e]; split <;> rfl
theorem ovDisp_setDS : ovDisp o' (setDS x d s) = setDS x (if o'.disp.isSome then o'.disp else d) s := by
  unfold ovDisp; split <;> rfl
theorem ovSub_setDS : ovSub o' (setDS x d s) = setDS x d (if o'.sub.length > 0 then o'.sub else s) := by
  unfold ovSub; split <;> rfl
end scalars

theorem abs_dispP (h : Heap) (o td : TypeDefR) :
    (ovDispP o td).map h.dispAt
      = if (absTD h o).disp.isSome then (absTD h o).disp else td.dispP.map h.dispAt := by
  unfold ovDispP
  have : (absTD h o).disp = o.dispP.map h.dispAt := rfl
  rw [this]
  cases o.dispP <;> rfl

theorem abs_subP (h : Heap) (o td : TypeDefR) :
    derefSub h (ovSubP h o td)
      = if (absTD h o).sub.length > 0 then (absTD h o).sub else derefSub h td.subP := by
  unfold ovSubP
  have : (absTD h o).sub = derefSub h o.subP := rfl
  rw [this]
  split <;> rfl

/-- the first resolver on laid-out data denotes the value model's result -/
theorem resolveAR_refines (h : Heap) (t : TopologyR) (c : HWcR) :
    absTD h (resolveAR h t c) = getTypeDefWithOverride (absTopo h t) (absHWc h c) := by
  unfold resolveAR getTypeDefWithOverride
  have e1 : (absHWc h c).type = c.c.type := rfl
  have e2 : (absHWc h c).ov = c.ovP.map (fun a => absTD h (h.tdAt a)) := rfl
  have e3 : (absTopo h t).ti = t.ti.map (absE h) := rfl
  rw [e1, e2, e3, lookup_map_abs]
  have hb : ((Map.lookup t.ti c.c.type).map (absTD h)).getD zeroTD
      = absTD h ((Map.lookup t.ti c.c.type).getD zeroR) := by
    cases Map.lookup t.ti c.c.type <;> rfl
  rw [hb]
  generalize (Map.lookup t.ti c.c.type).getD zeroR = td
  cases c.ovP with
  | none => rfl
  | some a =>
    simp only [Option.map_some]
    generalize h.tdAt a = o
    have hx : absTD h td = setDS td.v (td.dispP.map h.dispAt) (derefSub h td.subP) := rfl
    rw [hx]
    rw [ovW_setDS (o := o.v) (o' := absTD h o) (e := rfl), ovH_setDS (o := o.v) (o' := absTD h o) (e := rfl), ovSubidx_setDS (o := o.v) (o' := absTD h o) (e := rfl),
      ovOut_setDS (o := o.v) (o' := absTD h o) (e := rfl), ovIn_setDS (o := o.v) (o' := absTD h o) (e := rfl), ovExt_setDS (o := o.v) (o' := absTD h o) (e := rfl),
      ovDesc_setDS (o := o.v) (o' := absTD h o) (e := rfl), ovRender_setDS (o := o.v) (o' := absTD h o) (e := rfl), ovRotate_setDS (o := o.v) (o' := absTD h o) (e := rfl),
      ovDisp_setDS, ovSub_setDS, ← abs_dispP, ← abs_subP]
    rfl

/-- the second resolver likewise (incl. its panic for a negative index) -/
theorem resolveBR_refines (h : Heap) (t : TopologyR) (k : Int) :
    (resolveBR h t k).map (absTD h) = getHWCTypeDefinition (absTopo h t) k := by
  unfold resolveBR getHWCTypeDefinition
  have e0 : (absTopo h t).hwc.length = t.hwc.length := by simp [absTopo]
  rw [e0]
  split
  · rfl
  split
  · rfl
  have e4 : (absTopo h t).hwc = t.hwc.map (absHWc h) := rfl
  rw [e4, getElem?_map_abs]
  cases t.hwc[k.toNat]? with
  | none => rfl
  | some c =>
    simp only [Option.map_some]
    have e1 : (absHWc h c).type = c.c.type := rfl
    have e2 : (absHWc h c).ov = c.ovP.map (fun a => absTD h (h.tdAt a)) := rfl
    have e3 : (absTopo h t).ti = t.ti.map (absE h) := rfl
    rw [e1, e2, e3, lookup_map_abs]
    cases Map.lookup t.ti c.c.type with
    | none => rfl
    | some td =>
      simp only [Option.map_some]
      cases c.ovP with
      | none => rfl
      | some a =>
        simp only [Option.map_some, Option.some.injEq]
        generalize h.tdAt a = o
        have hx : absTD h td = setDS td.v (td.dispP.map h.dispAt) (derefSub h td.subP) := rfl
        rw [hx]
        rw [ovW_setDS (o := o.v) (o' := absTD h o) (e := rfl), ovH_setDS (o := o.v) (o' := absTD h o) (e := rfl), ovOut_setDS (o := o.v) (o' := absTD h o) (e := rfl),
          ovIn_setDS (o := o.v) (o' := absTD h o) (e := rfl), ovExt_setDS (o := o.v) (o' := absTD h o) (e := rfl), ovSubidx_setDS (o := o.v) (o' := absTD h o) (e := rfl),
          ovDisp_setDS, ovSub_setDS, ovRotate_setDS (o := o.v) (o' := absTD h o) (e := rfl), ← abs_dispP, ← abs_subP]
        rfl

/-! ## closed heaps, heap extension -/

/-- the references of a laid-out definition point into the heap -/
def ClosedTD (h : Heap) (r : TypeDefR) : Prop :=
  (∀ a, r.dispP = some a → a < h.length) ∧ (∀ a, r.subP = some a → a < h.length)

def ClosedHWc (h : Heap) (c : HWcR) : Prop := ∀ a, c.ovP = some a → a < h.length ∧ ClosedTD h (h.tdAt a)

/-- no dangling reference anywhere in the topology -/
def Closed (h : Heap) (t : TopologyR) : Prop := (∀ c ∈ t.hwc, ClosedHWc h c) ∧ (∀ e ∈ t.ti, ClosedTD h e.2)

theorem get_ext (h x : Heap) (a : Nat) (ha : a < h.length) : (h ++ x)[a]? = h[a]? :=
  List.getElem?_append_left ha

theorem dispAt_ext (h x : Heap) (a : Nat) (ha : a < h.length) : (h ++ x).dispAt a = h.dispAt a := by
  unfold Heap.dispAt; rw [get_ext h x a ha]
theorem subsAt_ext (h x : Heap) (a : Nat) (ha : a < h.length) : (h ++ x).subsAt a = h.subsAt a := by
  unfold Heap.subsAt; rw [get_ext h x a ha]
theorem tdAt_ext (h x : Heap) (a : Nat) (ha : a < h.length) : (h ++ x).tdAt a = h.tdAt a := by
  unfold Heap.tdAt; rw [get_ext h x a ha]

theorem closedTD_ext (h x : Heap) (r : TypeDefR) (hc : ClosedTD h r) : ClosedTD (h ++ x) r :=
  ⟨fun a ha => by have := hc.1 a ha; simp only [List.length_append]; omega,
   fun a ha => by have := hc.2 a ha; simp only [List.length_append]; omega⟩

theorem absTD_ext (h x : Heap) (r : TypeDefR) (hc : ClosedTD h r) : absTD (h ++ x) r = absTD h r := by
  obtain ⟨v, dp, sp⟩ := r
  unfold absTD
  have h1 : dp.map (h ++ x).dispAt = dp.map h.dispAt := by
    cases dp with
    | none => rfl
    | some a => simp only [Option.map_some, dispAt_ext h x a (hc.1 a rfl)]
  have h2 : derefSub (h ++ x) sp = derefSub h sp := by
    cases sp with
    | none => rfl
    | some a => simp only [derefSub, subsAt_ext h x a (hc.2 a rfl)]
  simp only [h1, h2]

theorem absHWc_ext (h x : Heap) (c : HWcR) (hc : ClosedHWc h c) : absHWc (h ++ x) c = absHWc h c := by
  obtain ⟨cc, p⟩ := c
  unfold absHWc
  cases p with
  | none => rfl
  | some a =>
    obtain ⟨ha, hcl⟩ := hc a rfl
    simp only [Option.map_some, tdAt_ext h x a ha, absTD_ext h x _ hcl]

theorem closedHWc_ext (h x : Heap) (c : HWcR) (hc : ClosedHWc h c) : ClosedHWc (h ++ x) c := by
  intro a ha
  obtain ⟨h1, h2⟩ := hc a ha
  refine ⟨by simp only [List.length_append]; omega, ?_⟩
  rw [tdAt_ext h x a h1]
  exact closedTD_ext h x _ h2

theorem closed_ext (h x : Heap) (t : TopologyR) (hc : Closed h t) : Closed (h ++ x) t :=
  ⟨fun c hm => closedHWc_ext h x c (hc.1 c hm), fun e hm => closedTD_ext h x e.2 (hc.2 e hm)⟩

/-- a closed topology reads the same in every extension of the heap -/
theorem absTopo_ext (h x : Heap) (t : TopologyR) (hc : Closed h t) : absTopo (h ++ x) t = absTopo h t := by
  unfold absTopo
  have h1 : t.hwc.map (absHWc (h ++ x)) = t.hwc.map (absHWc h) :=
    List.map_congr_left (fun c hm => absHWc_ext h x c (hc.1 c hm))
  have h2 : t.ti.map (absE (h ++ x)) = t.ti.map (absE h) :=
    List.map_congr_left (fun e hm => by simp only [absE, absTD_ext h x e.2 (hc.2 e hm)])
  rw [h1, h2]

/-! ## where the references of a resolved definition come from -/

theorem closedTD_zero (h : Heap) : ClosedTD h zeroR :=
  ⟨fun a ha => (by cases ha), fun a ha => (by cases ha)⟩

theorem lookup_mem (m : Map TypeDefR) (k : Nat) (v : TypeDefR) (hl : Map.lookup m k = some v) : (k, v) ∈ m := by
  induction m with
  | nil => cases hl
  | cons e r ih =>
    obtain ⟨k', v'⟩ := e
    simp only [Map.lookup] at hl
    by_cases hk : k = k'
    · simp only [hk, if_true, Option.some.injEq] at hl; subst hk hl; exact List.mem_cons_self
    · simp only [hk, if_false] at hl; exact List.mem_cons_of_mem _ (ih hl)

theorem closed_base (h : Heap) (t : TopologyR) (hc : Closed h t) (k : Nat) :
    ClosedTD h ((Map.lookup t.ti k).getD zeroR) := by
  cases hl : Map.lookup t.ti k with
  | none => exact closedTD_zero h
  | some v => exact hc.2 (k, v) (lookup_mem t.ti k v hl)

theorem ovDispP_cases (o td : TypeDefR) : ovDispP o td = o.dispP ∨ ovDispP o td = td.dispP := by
  unfold ovDispP; split
  · exact Or.inl rfl
  · exact Or.inr rfl

theorem ovSubP_cases (h : Heap) (o td : TypeDefR) : ovSubP h o td = o.subP ∨ ovSubP h o td = td.subP := by
  unfold ovSubP; split
  · exact Or.inl rfl
  · exact Or.inr rfl

/-- **aliasing**: every reference in the definition the first resolver returns is a reference stored in the
indexed base type or in the component's override cell — no cell is copied -/
theorem resolveAR_refs (h : Heap) (t : TopologyR) (c : HWcR) :
    ((resolveAR h t c).dispP = ((Map.lookup t.ti c.c.type).getD zeroR).dispP ∨
      ∃ a, c.ovP = some a ∧ (resolveAR h t c).dispP = (h.tdAt a).dispP) ∧
    ((resolveAR h t c).subP = ((Map.lookup t.ti c.c.type).getD zeroR).subP ∨
      ∃ a, c.ovP = some a ∧ (resolveAR h t c).subP = (h.tdAt a).subP) := by
  unfold resolveAR
  cases hp : c.ovP with
  | none => exact ⟨Or.inl rfl, Or.inl rfl⟩
  | some a =>
    simp only
    refine ⟨?_, ?_⟩
    · rcases ovDispP_cases (h.tdAt a) ((Map.lookup t.ti c.c.type).getD zeroR) with e | e
      · exact Or.inr ⟨a, rfl, e⟩
      · exact Or.inl e
    · rcases ovSubP_cases h (h.tdAt a) ((Map.lookup t.ti c.c.type).getD zeroR) with e | e
      · exact Or.inr ⟨a, rfl, e⟩
      · exact Or.inl e

theorem resolveAR_closed (h : Heap) (t : TopologyR) (c : HWcR) (hc : Closed h t) (hcc : ClosedHWc h c) :
    ClosedTD h (resolveAR h t c) := by
  have hb := closed_base h t hc c.c.type
  obtain ⟨h1, h2⟩ := resolveAR_refs h t c
  refine ⟨fun a ha => ?_, fun a ha => ?_⟩
  · rcases h1 with e | ⟨b, hb1, e⟩
    · exact hb.1 a (by rw [← e]; exact ha)
    · exact (hcc b hb1).2.1 a (by rw [← e]; exact ha)
  · rcases h2 with e | ⟨b, hb1, e⟩
    · exact hb.2 a (by rw [← e]; exact ha)
    · exact (hcc b hb1).2.2 a (by rw [← e]; exact ha)

theorem resolveBR_closed (h : Heap) (t : TopologyR) (k : Int) (r : TypeDefR) (hc : Closed h t)
    (hr : resolveBR h t k = some r) : ClosedTD h r := by
  unfold resolveBR at hr
  split at hr
  · cases hr; exact closedTD_zero h
  split at hr
  · cases hr
  cases hg : t.hwc[k.toNat]? with
  | none => simp [hg] at hr
  | some c =>
    have hm : c ∈ t.hwc := List.mem_of_getElem? hg
    simp only [hg] at hr
    cases hl : Map.lookup t.ti c.c.type with
    | none => simp only [hl, Option.some.injEq] at hr; subst hr; exact closedTD_zero h
    | some td =>
      have htd : ClosedTD h td := hc.2 _ (lookup_mem t.ti _ td hl)
      simp only [hl] at hr
      cases hp : c.ovP with
      | none => simp only [hp, Option.some.injEq] at hr; subst hr; exact htd
      | some a =>
        simp only [hp, Option.some.injEq] at hr
        subst hr
        obtain ⟨_, ho⟩ := hc.1 c hm a hp
        refine ⟨fun x hx => ?_, fun x hx => ?_⟩
        · simp only at hx
          rcases ovDispP_cases (h.tdAt a) td with e | e
          · exact ho.1 x (by rw [← e]; exact hx)
          · exact htd.1 x (by rw [← e]; exact hx)
        · simp only at hx
          rcases ovSubP_cases h (h.tdAt a) td with e | e
          · exact ho.2 x (by rw [← e]; exact hx)
          · exact htd.2 x (by rw [← e]; exact hx)

theorem findIdxR_mem (l : List HWcR) (id k j : Nat) (c : HWcR) (hf : findIdxR l id k = some (j, c)) :
    c ∈ l ∧ k ≤ j ∧ l[j - k]? = some c := by
  induction l generalizing k with
  | nil => cases hf
  | cons d r ih =>
    simp only [findIdxR] at hf
    by_cases hd : d.c.id = id
    · simp only [hd, if_true, Option.some.injEq, Prod.mk.injEq] at hf
      obtain ⟨rfl, rfl⟩ := hf
      exact ⟨List.mem_cons_self, Nat.le_refl _, by simp⟩
    · simp only [hd, if_false] at hf
      obtain ⟨h1, h2, h3⟩ := ih (k + 1) hf
      refine ⟨List.mem_cons_of_mem _ h1, by omega, ?_⟩
      have : j - k = (j - (k + 1)) + 1 := by omega
      rw [this, List.getElem?_cons_succ]; exact h3

/-! ## the look-up interface -/

theorem retFresh_abs (h : Heap) (r : TypeDefR) (hc : ClosedTD h r) :
    absRes (retFresh h r).2 (retFresh h r).1 = .typeDef (absTD h r) := by
  simp only [retFresh, Heap.alloc, absRes]
  have : (h ++ [Cell.td r]).tdAt h.length = r := by
    unfold Heap.tdAt
    rw [List.getElem?_append_right (Nat.le_refl _)]
    simp
  rw [this, absTD_ext h _ r hc]

theorem retFresh_ext (h : Heap) (r : TypeDefR) : (retFresh h r).2 = h ++ [Cell.td r] := rfl

/-- the only heap effect of a look-up is allocation at the end -/
theorem execR_extends (h : Heap) (t : TopologyR) (q : Query) : ∃ x, (execR h t q).2 = h ++ x := by
  cases q with
  | type id =>
    simp only [execR]
    split
    · exact ⟨_, retFresh_ext _ _⟩
    · exact ⟨[], by simp⟩
  | resolveA k =>
    simp only [execR]
    split <;> exact ⟨[], by simp⟩
  | resolveB k =>
    simp only [execR]
    split
    · exact ⟨_, retFresh_ext _ _⟩
    · exact ⟨[], by simp⟩
  | resolveBid id =>
    simp only [execR]
    split
    · split
      · exact ⟨_, retFresh_ext _ _⟩
      · exact ⟨[], by simp⟩
    · exact ⟨_, retFresh_ext _ _⟩
  | defId id =>
    simp only [execR]
    split <;> exact ⟨[], by simp⟩
  | hwcs => exact ⟨[], by simp [execR]⟩
  | xy _ => exact ⟨[], by simp [execR]⟩
  | text _ => exact ⟨[], by simp [execR]⟩
  | withDisplay => exact ⟨[], by simp [execR]⟩
  | resolveAx _ => exact ⟨[], by simp [execR]⟩
  | pred _ => exact ⟨[], by simp [execR]⟩
  | predOf _ => exact ⟨[], by simp [execR]⟩

/-! ## the caller edits the struct it was handed (`own`, `ownrefs`): no cell of the topology is written -/

/-- a pointer handed out by a look-up points at a cell the look-up allocated -/
theorem execR_ptr_fresh (h : Heap) (t : TopologyR) (q : Query) (a : Nat) (hr : (execR h t q).1 = .tdP a) : h.length ≤ a := by
  have hf : ∀ r, (retFresh h r).1 = .tdP a → h.length ≤ a := by
    intro r hr
    simp only [retFresh, Heap.alloc, ResR.tdP.injEq] at hr
    omega
  cases q with
  | type id =>
    simp only [execR] at hr
    split at hr
    · exact hf _ hr
    · cases hr
  | resolveA k => simp only [execR] at hr; split at hr <;> cases hr
  | resolveB k =>
    simp only [execR] at hr
    split at hr
    · exact hf _ hr
    · cases hr
  | resolveBid id =>
    simp only [execR] at hr
    split at hr
    · split at hr
      · exact hf _ hr
      · cases hr
    · exact hf _ hr
  | defId id => simp only [execR] at hr; split at hr <;> cases hr
  | hwcs => simp [execR] at hr
  | xy _ => simp [execR] at hr
  | text _ => simp [execR] at hr
  | withDisplay => simp [execR] at hr
  | resolveAx _ => simp [execR] at hr
  | pred _ => simp [execR] at hr
  | predOf _ => simp [execR] at hr

theorem modify_append_ge (f : Cell → Cell) : ∀ (h y : Heap) (a : Nat), h.length ≤ a →
    (h ++ y).modify a f = h ++ y.modify (a - h.length) f := by
  intro h
  induction h with
  | nil => intro y a _; simp
  | cons c r ih =>
    intro y a ha
    cases a with
    | zero => simp at ha
    | succ n =>
      simp only [List.length_cons, Nat.add_le_add_iff_right] at ha
      simp only [List.cons_append, List.modify_succ_cons, List.length_cons, Nat.add_sub_add_right, ih y n ha]

/-- writing the struct a look-up handed out (any new contents, any cells allocated for it first) leaves the heap the
topology lives in as it was: the heap afterwards is that heap plus cells behind it -/
theorem writeOwn_extends (h : Heap) (t : TopologyR) (q : Query) (fresh : List Cell) (f : TypeDefR → TypeDefR) (h' : Heap)
    (hw : writeOwn (execR h t q).2 (execR h t q).1 fresh f = some h') : ∃ z, h' = h ++ z := by
  obtain ⟨x, hx⟩ := execR_extends h t q
  unfold writeOwn at hw
  split at hw
  · rename_i a hr
    simp only [Option.some.injEq] at hw
    have ha := execR_ptr_fresh h t q a hr
    rw [hx, List.append_assoc, Heap.writeTDR, modify_append_ge _ h (x ++ fresh) a ha] at hw
    exact ⟨_, hw.symm⟩
  · simp only [Option.some.injEq] at hw
    rw [hx, List.append_assoc] at hw
    exact ⟨_, hw.symm⟩
  · simp only [Option.some.injEq] at hw
    rw [hx, List.append_assoc] at hw
    exact ⟨_, hw.symm⟩
  · cases hw

theorem absTopo_hwc (h : Heap) (t : TopologyR) : (absTopo h t).hwc = t.hwc.map (absHWc h) := rfl

theorem resB_refines (h : Heap) (t : TopologyR) (hc : Closed h t) (k : Int) :
    absRes (match resolveBR h t k with | some r => retFresh h r | none => (ResR.panic, h)).2
           (match resolveBR h t k with | some r => retFresh h r | none => (ResR.panic, h)).1
      = (match getHWCTypeDefinition (absTopo h t) k with | some td => Result.typeDef td | none => Result.panic) := by
  rw [← resolveBR_refines]
  cases hr : resolveBR h t k with
  | none => rfl
  | some r => simp only [Option.map_some, retFresh_abs h r (resolveBR_closed h t k r hc hr)]

/-- the value model is the abstraction of the store-of-cells model: every look-up, every closed heap -/
theorem execR_refines' (h : Heap) (t : TopologyR) (hc : Closed h t) (q : Query) :
    absRes (execR h t q).2 (execR h t q).1 = (execRes (absTopo h t) q).1 := by
  cases q with
  | type id =>
    simp only [execR, execRes, getHWCtype, absTopo_hwc, findIdxR_abs]
    cases hf : findIdxR t.hwc id 0 with
    | none => rfl
    | some jc =>
      obtain ⟨j, c⟩ := jc
      have hm := (findIdxR_mem t.hwc id 0 j c hf).1
      simp only [Option.map_some, retFresh_abs h _ (resolveAR_closed h t c hc (hc.1 c hm)), resolveAR_refines]
  | resolveA k =>
    simp only [execR, execRes, absTopo_hwc, getElem?_map_abs]
    cases hg : t.hwc[k]? with
    | none => rfl
    | some c => simp only [Option.map_some, absRes, resolveAR_refines]
  | resolveB k =>
    simp only [execR, execRes]
    exact resB_refines h t hc k
  | resolveBid id =>
    simp only [execR, execRes, getHWCTypeDefinitionFromHWCid, absTopo_hwc, findIdxR_abs]
    cases hf : findIdxR t.hwc (toU32 id) 0 with
    | none =>
      simp only [Option.map_none, retFresh_abs h zeroR (closedTD_zero h)]
      rfl
    | some jc =>
      obtain ⟨j, c⟩ := jc
      simp only [Option.map_some]
      exact resB_refines h t hc j
  | defId id =>
    simp only [execR, execRes, getHWCDefinitionFromHWCid, absTopo_hwc, findIdxR_abs]
    cases hf : findIdxR t.hwc (toU32 id) 0 with
    | none => rfl
    | some jc => rfl
  | hwcs => rfl
  | xy _ => rfl
  | text _ => rfl
  | withDisplay => rfl
  | resolveAx _ => rfl
  | pred _ => rfl
  | predOf _ => rfl

/-! ## laying out a value topology -/

theorem layTD_spec (h : Heap) (td : TypeDef) :
    (∃ x, (layTD h td).1 = h ++ x) ∧ ClosedTD (layTD h td).1 (layTD h td).2 ∧
      absTD (layTD h td).1 (layTD h td).2 = td := by
  obtain ⟨w, hh, out, inp, desc, ext, subidx, rotate, disp, sub, render⟩ := td
  cases disp with
  | none =>
    cases sub with
    | nil =>
      refine ⟨⟨[], by simp [layTD]⟩, ⟨fun a ha => (by cases ha), fun a ha => (by cases ha)⟩, rfl⟩
    | cons s0 sr =>
      refine ⟨⟨[.subs (s0 :: sr)], rfl⟩, ⟨fun a ha => (by cases ha), fun a ha => ?_⟩, ?_⟩
      · simp only [layTD, Option.some.injEq] at ha; subst ha; simp [layTD]
      · simp only [layTD, absTD, setDS, derefSub, Heap.subsAt, Option.map_none]
        rw [List.getElem?_append_right (Nat.le_refl _)]
        simp
  | some d =>
    cases sub with
    | nil =>
      refine ⟨⟨[.disp d], rfl⟩, ⟨fun a ha => ?_, fun a ha => (by cases ha)⟩, ?_⟩
      · simp only [layTD, Option.some.injEq] at ha; subst ha; simp [layTD]
      · simp only [layTD, absTD, setDS, derefSub, Heap.dispAt, Option.map_some]
        rw [List.getElem?_append_right (Nat.le_refl _)]
        simp
    | cons s0 sr =>
      refine ⟨⟨[.disp d, .subs (s0 :: sr)], by simp [layTD]⟩, ⟨fun a ha => ?_, fun a ha => ?_⟩, ?_⟩
      · simp only [layTD, Option.some.injEq] at ha; subst ha; simp [layTD]
      · simp only [layTD, Option.some.injEq] at ha; subst ha; simp [layTD]
      · simp only [layTD, absTD, setDS, derefSub, Heap.dispAt, Heap.subsAt, Option.map_some]
        rw [List.getElem?_append_right (Nat.le_refl _)]
        have : (h ++ [Cell.disp d] ++ [Cell.subs (s0 :: sr)])[h.length]? = some (Cell.disp d) := by
          rw [List.append_assoc, List.getElem?_append_right (Nat.le_refl _)]; simp
        rw [this]
        simp

theorem layHWc_spec (h : Heap) (c : HWc) :
    (∃ x, (layHWc h c).1 = h ++ x) ∧ ClosedHWc (layHWc h c).1 (layHWc h c).2 ∧
      absHWc (layHWc h c).1 (layHWc h c).2 = c := by
  obtain ⟨id, x, y, txt, type, ov, p, q⟩ := c
  cases ov with
  | none => exact ⟨⟨[], by simp [layHWc]⟩, fun a ha => (by cases ha), rfl⟩
  | some o =>
    obtain ⟨⟨x1, hx1⟩, hcl, habs⟩ := layTD_spec h o
    have hget : ((layTD h o).1 ++ [Cell.td (layTD h o).2]).tdAt (layTD h o).1.length = (layTD h o).2 := by
      unfold Heap.tdAt
      rw [List.getElem?_append_right (Nat.le_refl _)]
      simp
    refine ⟨⟨x1 ++ [.td (layTD h o).2], by simp [layHWc, hx1]⟩, ?_, ?_⟩
    · intro a ha
      simp only [layHWc, Option.some.injEq] at ha
      subst ha
      refine ⟨by simp [layHWc], ?_⟩
      simp only [layHWc]
      rw [hget]
      exact closedTD_ext _ _ _ hcl
    · simp only [layHWc, absHWc, Option.map_some]
      rw [hget, absTD_ext _ _ _ hcl, habs]

theorem layHWcs_spec (h : Heap) (l : List HWc) :
    (∃ x, (layHWcs h l).1 = h ++ x) ∧ (∀ c ∈ (layHWcs h l).2, ClosedHWc (layHWcs h l).1 c) ∧
      (layHWcs h l).2.map (absHWc (layHWcs h l).1) = l := by
  induction l generalizing h with
  | nil => exact ⟨⟨[], by simp [layHWcs]⟩, fun c hm => (by cases hm), rfl⟩
  | cons c r ih =>
    obtain ⟨⟨x1, hx1⟩, hcl1, habs1⟩ := layHWc_spec h c
    obtain ⟨⟨x2, hx2⟩, hcl2, habs2⟩ := ih (layHWc h c).1
    simp only [layHWcs]
    refine ⟨⟨x1 ++ x2, by rw [hx2, hx1, List.append_assoc]⟩, ?_, ?_⟩
    · intro d hm
      simp only [List.mem_cons] at hm
      rcases hm with rfl | hm
      · rw [hx2]; exact closedHWc_ext _ _ _ hcl1
      · exact hcl2 d hm
    · simp only [List.map_cons, habs2, List.cons.injEq, and_true]
      rw [hx2, absHWc_ext _ _ _ hcl1, habs1]

theorem layTI_spec (h : Heap) (m : Map TypeDef) :
    (∃ x, (layTI h m).1 = h ++ x) ∧ (∀ e ∈ (layTI h m).2, ClosedTD (layTI h m).1 e.2) ∧
      (layTI h m).2.map (absE (layTI h m).1) = m := by
  induction m generalizing h with
  | nil => exact ⟨⟨[], by simp [layTI]⟩, fun c hm => (by cases hm), rfl⟩
  | cons e r ih =>
    obtain ⟨⟨x1, hx1⟩, hcl1, habs1⟩ := layTD_spec h e.2
    obtain ⟨⟨x2, hx2⟩, hcl2, habs2⟩ := ih (layTD h e.2).1
    simp only [layTI]
    refine ⟨⟨x1 ++ x2, by rw [hx2, hx1, List.append_assoc]⟩, ?_, ?_⟩
    · intro d hm
      simp only [List.mem_cons] at hm
      rcases hm with rfl | hm
      · rw [hx2]; exact closedTD_ext _ _ _ hcl1
      · exact hcl2 d hm
    · simp only [List.map_cons, habs2, List.cons.injEq, and_true]
      simp only [absE]
      rw [hx2, absTD_ext _ _ _ hcl1, habs1]

/-- every value topology has a closed heap layout denoting it (each reference its own cell) -/
theorem layTopo_spec (t : Topology) : Closed (layTopo t).1 (layTopo t).2 ∧ absTopo (layTopo t).1 (layTopo t).2 = t := by
  obtain ⟨_, hcl1, habs1⟩ := layTI_spec [] t.ti
  obtain ⟨⟨x2, hx2⟩, hcl2, habs2⟩ := layHWcs_spec (layTI [] t.ti).1 t.hwc
  refine ⟨⟨hcl2, ?_⟩, ?_⟩
  · intro e hm
    simp only [layTopo]
    rw [hx2]
    exact closedTD_ext _ _ _ (hcl1 e hm)
  · simp only [layTopo, absTopo, habs2]
    have : (layTI [] t.ti).2.map (absE (layHWcs (layTI [] t.ti).1 t.hwc).1) = t.ti := by
      rw [hx2]
      have hcg : (layTI [] t.ti).2.map (absE ((layTI [] t.ti).1 ++ x2)) = (layTI [] t.ti).2.map (absE (layTI [] t.ti).1) :=
        List.map_congr_left (fun e hm => by simp only [absE, absTD_ext _ x2 e.2 (hcl1 e hm)])
      rw [hcg]
      exact habs1
    rw [this]

end RawPanelVerif.Topo.Alias
