import RawPanelVerif.Lemmas.SvgXmldom
/-!
# The `go-xmldom` round trip at token level (C15): whole documents

`printedToks` (processing instruction, directives, element part) against `Spec.SvgBase.content` of the base.
-/
namespace RawPanelVerif.Xmldom
open RawPanelVerif.Xml RawPanelVerif.Spec.SvgBase
open RawPanelVerif.Topo (Str SvgNode)

/-! ## the processing instruction and the directives -/

theorem lastPI_some {ts : List Tok} {p : Tok} (h : lastPI ts = some p) : p.isPI = true ∧ p ∈ ts := by
  induction ts with
  | nil => cases h
  | cons t r ih =>
    simp only [lastPI] at h
    cases hr : lastPI r with
    | some q =>
      rw [hr] at h
      simp only [Option.some.injEq] at h
      subst h
      exact ⟨(ih hr).1, List.mem_cons_of_mem _ (ih hr).2⟩
    | none =>
      rw [hr] at h
      simp only at h
      split at h
      · rename_i ht
        simp only [Option.some.injEq] at h
        subst h
        exact ⟨ht, List.mem_cons_self⟩
      · cases h

theorem lastPI_none_iff (ts : List Tok) : lastPI ts = none ↔ ts.any Tok.isPI = false := by
  induction ts with
  | nil => simp [lastPI]
  | cons t r ih =>
    simp only [lastPI, List.any_cons, Bool.or_eq_false_iff]
    cases hr : lastPI r with
    | some q =>
      have : r.any Tok.isPI ≠ false := fun e => by rw [← ih] at e; rw [hr] at e; cases e
      simp [this]
    | none =>
      have : r.any Tok.isPI = false := ih.mp hr
      cases ht : t.isPI <;> simp [this]

theorem lastPI_cons_of_not_pi (t : Tok) (r : List Tok) (h : t.isPI = false) : lastPI (t :: r) = lastPI r := by
  simp only [lastPI, h]
  cases lastPI r <;> simp

theorem lastPI_pi_cons (a b : Str) (r : List Tok) (h : r.any Tok.isPI = false) : lastPI (.pi a b :: r) = some (.pi a b) := by
  simp only [lastPI, (lastPI_none_iff r).mpr h, Tok.isPI, if_true]

theorem plain_not_blank {x : Tok} (h : plain x = true) : x.isBlank = false := by
  cases x <;> simp_all [plain, elemKind, Tok.isBlank]

theorem content_eq_self {l : List Tok} (h : ∀ x ∈ l, x.isBlank = false) : content l = l := by
  unfold content
  rw [List.filter_eq_self]
  intro x hx
  simp [h x hx]

theorem dirs_not_blank (ts : List Tok) : ∀ x ∈ dirs ts, x.isBlank = false := by
  intro x hx
  simp only [dirs, List.mem_filter] at hx
  cases x <;> simp_all [Tok.isDir, Tok.isBlank]

theorem lastPI_not_blank (ts : List Tok) : ∀ x ∈ (lastPI ts).toList, x.isBlank = false := by
  intro x hx
  simp only [Option.mem_toList] at hx
  have := (lastPI_some hx).1
  cases x <;> simp_all [Tok.isPI, Tok.isBlank]

/-- without appended elements nothing blank is printed -/
theorem content_printed_nil (ts : List Tok) : content (printedToks [] ts) = printedToks [] ts := by
  apply content_eq_self
  intro x hx
  simp only [printedToks, List.mem_append] at hx
  rcases hx with (hx | hx) | hx
  · exact lastPI_not_blank ts x hx
  · exact dirs_not_blank ts x hx
  · rcases elemToks_mem [] ts [] false x hx with h | h
    · cases h
    · exact plain_not_blank h

/-! ## counting: the printed document is never longer than the content of the base -/

theorem content_cons_of_not_blank {t : Tok} (r : List Tok) (h : t.isBlank = false) : content (t :: r) = t :: content r := by
  simp [content, h]

theorem content_cons_text (s : Str) (r : List Tok) : content (.text s :: r) = pend s ++ content r := by
  unfold pend
  cases h : s.isEmpty <;> simp [content, Tok.isBlank, h]

theorem content_length (ts : List Tok) :
    (content ts).length = (ts.filter Tok.isPI).length + (dirs ts).length + (ts.filter Tok.isComment).length + (elemContent ts).length := by
  induction ts with
  | nil => rfl
  | cons t r ih =>
    cases t with
    | text s =>
      rw [content_cons_text, elemContent_text]
      simp only [dirs, List.filter_cons, Tok.isPI, Tok.isDir, Tok.isComment, List.length_append] at ih ⊢
      simp only [Bool.false_eq_true, if_false]
      omega
    | start p l as =>
      rw [content_cons_of_not_blank _ rfl, elemContent_start]
      simp only [dirs, List.filter_cons, Tok.isPI, Tok.isDir, Tok.isComment, List.length_cons] at ih ⊢
      simp only [Bool.false_eq_true, if_false]
      omega
    | stop p l =>
      rw [content_cons_of_not_blank _ rfl, elemContent_stop]
      simp only [dirs, List.filter_cons, Tok.isPI, Tok.isDir, Tok.isComment, List.length_cons] at ih ⊢
      simp only [Bool.false_eq_true, if_false]
      omega
    | comment c =>
      rw [content_cons_of_not_blank _ rfl, elemContent_comment]
      simp only [dirs, List.filter_cons, Tok.isPI, Tok.isDir, Tok.isComment, List.length_cons] at ih ⊢
      simp only [Bool.false_eq_true, if_false, if_true, List.length_cons]
      omega
    | pi a b =>
      rw [content_cons_of_not_blank _ rfl, elemContent_pi]
      simp only [dirs, List.filter_cons, Tok.isPI, Tok.isDir, Tok.isComment, List.length_cons] at ih ⊢
      simp only [Bool.false_eq_true, if_false, if_true, List.length_cons]
      omega
    | dir c =>
      rw [content_cons_of_not_blank _ rfl, elemContent_dir]
      simp only [dirs, List.filter_cons, Tok.isPI, Tok.isDir, Tok.isComment, List.length_cons] at ih ⊢
      simp only [Bool.false_eq_true, if_false, if_true, List.length_cons]
      omega

theorem lastPI_length (ts : List Tok) : (lastPI ts).toList.length ≤ (ts.filter Tok.isPI).length := by
  cases h : lastPI ts with
  | none => simp
  | some p =>
    have := lastPI_some h
    have hm : p ∈ ts.filter Tok.isPI := List.mem_filter.mpr ⟨this.2, this.1⟩
    have : 0 < (ts.filter Tok.isPI).length := List.length_pos_of_mem hm
    simp only [Option.toList_some, List.length_cons, List.length_nil]
    omega

theorem printed_nil_length (ts : List Tok) : (printedToks [] ts).length ≤ (content ts).length := by
  have h1 := elemToks_length ts [] false
  have h2 := lastPI_length ts
  simp only [pendCount, Nat.zero_add] at h1
  rw [content_length]
  simp only [printedToks, List.length_append]
  omega


/-! ## what can never come back: comments, prefixes -/

theorem printed_mem (app ts : List Tok) : ∀ x ∈ printedToks app ts, x ∈ app ∨ plain x = true ∨ x.isPI = true ∨ x.isDir = true := by
  intro x hx
  simp only [printedToks, List.mem_append] at hx
  rcases hx with (hx | hx) | hx
  · simp only [Option.mem_toList] at hx
    exact Or.inr (Or.inr (Or.inl (lastPI_some hx).1))
  · simp only [dirs, List.mem_filter] at hx
    exact Or.inr (Or.inr (Or.inr hx.2))
  · rcases elemToks_mem app ts [] false x hx with h | h
    · exact Or.inl h
    · exact Or.inr (Or.inl h)

theorem keeps_iff (base printed : List Tok) : keepsContent base printed = true ↔ (content base).Sublist (content printed) := by
  unfold keepsContent
  exact List.isSublist_iff_sublist

theorem mem_printed_of_keeps {app ts : List Tok} (hk : keepsContent ts (printedToks app ts) = true) {t : Tok} (ht : t ∈ ts)
    (hb : t.isBlank = false) : t ∈ printedToks app ts := by
  have hs := (keeps_iff _ _).mp hk
  have h1 : t ∈ content ts := by simp [content, ht, hb]
  have h2 := hs.subset h1
  simp only [content, List.mem_filter] at h2
  exact h2.1

/-- a comment of the base is in no printed document, whatever plain elements were appended -/
theorem comment_not_kept (app ts : List Tok) (happ : ∀ a ∈ app, plain a = true) (h : hasComment ts = true) :
    keepsContent ts (printedToks app ts) = false := by
  cases hk : keepsContent ts (printedToks app ts) with
  | false => rfl
  | true =>
    exfalso
    simp only [hasComment, List.any_eq_true] at h
    obtain ⟨c, hc, hcc⟩ := h
    have hb : c.isBlank = false := by cases c <;> simp_all [Tok.isComment, Tok.isBlank]
    rcases printed_mem app ts c (mem_printed_of_keeps hk hc hb) with h | h | h | h
    · have := happ c h; cases c <;> simp_all [plain, elemKind, Tok.isComment]
    · cases c <;> simp_all [plain, elemKind, Tok.isComment]
    · cases c <;> simp_all [Tok.isPI, Tok.isComment]
    · cases c <;> simp_all [Tok.isDir, Tok.isComment]

/-- a name written with a prefix is in no printed document -/
theorem prefix_not_kept (app ts : List Tok) (happ : ∀ a ∈ app, plain a = true) (h : hasPrefix ts = true) :
    keepsContent ts (printedToks app ts) = false := by
  cases hk : keepsContent ts (printedToks app ts) with
  | false => rfl
  | true =>
    exfalso
    simp only [hasPrefix, List.any_eq_true] at h
    obtain ⟨c, hc, hcc⟩ := h
    have hb : c.isBlank = false := by cases c <;> simp_all [prefixed, Tok.isBlank]
    rcases printed_mem app ts c (mem_printed_of_keeps hk hc hb) with h | h | h | h
    · have := happ c h; simp_all [plain]
    · simp_all [plain]
    · cases c <;> simp_all [Tok.isPI, prefixed]
    · cases c <;> simp_all [Tok.isDir, prefixed]

/-! ## without appended elements: kept means printed unchanged -/

theorem keeps_nil_iff_eq (ts : List Tok) : keepsContent ts (printedToks [] ts) = true ↔ content ts = printedToks [] ts := by
  rw [keeps_iff, content_printed_nil]
  constructor
  · intro h
    exact h.eq_of_length_le (printed_nil_length ts)
  · intro h
    rw [h]
    exact List.Sublist.refl _

theorem elemKind_not_blank {x : Tok} (h : elemKind x = true) : x.isBlank = false := by
  cases x <;> simp_all [elemKind, Tok.isBlank]

theorem filter_elemKind_content (ts : List Tok) : (content ts).filter elemKind = elemContent ts := by
  unfold content elemContent
  rw [List.filter_filter]
  congr 1
  funext x
  cases h : elemKind x
  · rfl
  · simp [elemKind_not_blank h]

theorem filter_elemKind_printed_nil (ts : List Tok) : (printedToks [] ts).filter elemKind = elemToks [] [] false ts := by
  simp only [printedToks, List.filter_append]
  have h1 : (lastPI ts).toList.filter elemKind = [] := by
    rw [List.filter_eq_nil_iff]
    intro x hx
    simp only [Option.mem_toList] at hx
    have := (lastPI_some hx).1
    cases x <;> simp_all [Tok.isPI, elemKind]
  have h2 : (dirs ts).filter elemKind = [] := by
    rw [List.filter_eq_nil_iff]
    intro x hx
    simp only [dirs, List.mem_filter] at hx
    have := hx.2
    cases x <;> simp_all [Tok.isDir, elemKind]
  have h3 : (elemToks [] [] false ts).filter elemKind = elemToks [] [] false ts := by
    rw [List.filter_eq_self]
    intro x hx
    rcases elemToks_mem [] ts [] false x hx with h | h
    · cases h
    · simp only [plain, Bool.and_eq_true] at h; exact h.1
  rw [h1, h2, h3]
  rfl

theorem no_pi_after_front (ts : List Tok) : (dirs ts ++ elemToks [] [] false ts).any Tok.isPI = false := by
  rw [List.any_eq_false]
  intro x hx
  simp only [List.mem_append] at hx
  rcases hx with hx | hx
  · simp only [dirs, List.mem_filter] at hx
    have := hx.2
    cases x <;> simp_all [Tok.isDir, Tok.isPI]
  · rcases elemToks_mem [] ts [] false x hx with h | h
    · cases h
    · cases x <;> simp_all [plain, elemKind, Tok.isPI]

theorem any_drop_false {l : List Tok} {p : Tok → Bool} (h : l.any p = false) (n : Nat) : (l.drop n).any p = false := by
  rw [List.any_eq_false] at h ⊢
  intro x hx
  exact h x (List.mem_of_mem_drop hx)

/-- "⇒": when the base alone is printed (nothing appended) and its content is kept, it has none of the lossy features -/
theorem lossFree_of_kept_nil (ts : List Tok) (hd : docShape [] false ts = true)
    (hk : keepsContent ts (printedToks [] ts) = true) : lossFree ts = true := by
  have hc : hasComment ts = false := by
    cases h : hasComment ts with
    | false => rfl
    | true => rw [comment_not_kept [] ts (by simp) h] at hk; cases hk
  have hp : hasPrefix ts = false := by
    cases h : hasPrefix ts with
    | false => rfl
    | true => rw [prefix_not_kept [] ts (by simp) h] at hk; cases hk
  have heq := (keeps_nil_iff_eq ts).mp hk
  have hpi : piMoved ts = false := by
    unfold piMoved
    rw [heq]
    simp only [printedToks, List.append_assoc]
    cases hl : lastPI ts with
    | none => simpa using any_drop_false (no_pi_after_front ts) 1
    | some q => simpa using no_pi_after_front ts
  have hm : mixedText ts = false := by
    have h1 : elemContent ts = elemToks [] [] false ts := by
      rw [← filter_elemKind_content, heq, filter_elemKind_printed_nil]
    have := (elem_roundtrip_iff ts [] false trivial (by simpa [names] using hd) hp).mp (by simpa [topText, pend] using h1.symm)
    exact this.1
  simp [lossFree, hc, hp, hpi, hm]


/-! ## "⇐": a document without lossy features is printed unchanged -/

/-- once the top-level element has started there is no directive; without comments and processing instructions the
content is the element part -/
theorem content_in_root : ∀ (ts : List Tok) (st : List (Str × Str)), docShape st true ts = true → hasComment ts = false →
    ts.any Tok.isPI = false → content ts = elemContent ts ∧ dirs ts = [] := by
  intro ts
  induction ts with
  | nil => intro _ _ _ _; exact ⟨rfl, rfl⟩
  | cons t r ih =>
    intro st hd hc hp
    have hc' : hasComment r = false := by
      simp only [hasComment, List.any_cons, Bool.or_eq_false_iff] at hc; exact hc.2
    have hp' : r.any Tok.isPI = false := by
      simp only [List.any_cons, Bool.or_eq_false_iff] at hp; exact hp.2
    cases t with
    | start p l as =>
      cases st with
      | nil => simp [docShape] at hd
      | cons o st' =>
        have := ih _ (by simpa [docShape] using hd) hc' hp'
        exact ⟨by rw [content_cons_of_not_blank _ rfl, elemContent_start, this.1], by simpa [dirs, List.filter_cons, Tok.isDir] using this.2⟩
    | stop p l =>
      cases st with
      | nil => simp [docShape] at hd
      | cons o st' =>
        simp only [docShape, Bool.and_eq_true] at hd
        have := ih _ hd.2 hc' hp'
        exact ⟨by rw [content_cons_of_not_blank _ rfl, elemContent_stop, this.1], by simpa [dirs, List.filter_cons, Tok.isDir] using this.2⟩
    | text s =>
      have hd' : docShape st true r = true := by
        cases st with
        | nil => simp only [docShape, Bool.and_eq_true] at hd; exact hd.2
        | cons o st' => simpa [docShape] using hd
      have := ih _ hd' hc' hp'
      exact ⟨by rw [content_cons_text, elemContent_text, this.1], by simpa [dirs, List.filter_cons, Tok.isDir] using this.2⟩
    | comment c => simp [hasComment, Tok.isComment] at hc
    | pi a b => simp [Tok.isPI] at hp
    | dir c => cases st <;> simp [docShape] at hd

/-- in the prolog: the directives come first -/
theorem content_from_prolog : ∀ (ts : List Tok), docShape [] false ts = true → hasComment ts = false →
    ts.any Tok.isPI = false → content ts = dirs ts ++ elemContent ts := by
  intro ts
  induction ts with
  | nil => intro _ _ _; rfl
  | cons t r ih =>
    intro hd hc hp
    have hc' : hasComment r = false := by
      simp only [hasComment, List.any_cons, Bool.or_eq_false_iff] at hc; exact hc.2
    have hp' : r.any Tok.isPI = false := by
      simp only [List.any_cons, Bool.or_eq_false_iff] at hp; exact hp.2
    cases t with
    | start p l as =>
      have := content_in_root r _ (by simpa [docShape] using hd) hc' hp'
      have hdirs : dirs (Tok.start p l as :: r) = [] := by simpa [dirs, Tok.isDir] using this.2
      rw [hdirs, content_cons_of_not_blank _ rfl, elemContent_start, this.1]
      rfl
    | stop p l => simp [docShape] at hd
    | text s =>
      simp only [docShape, Bool.and_eq_true, List.isEmpty_iff] at hd
      obtain ⟨hs, hd'⟩ := hd
      subst hs
      have := ih hd' hc' hp'
      rw [content_cons_text, elemContent_text, this]
      simp [dirs, Tok.isDir, pend]
    | comment c => simp [hasComment, Tok.isComment] at hc
    | pi a b => simp [Tok.isPI] at hp
    | dir c =>
      simp only [docShape, Bool.and_eq_true] at hd
      have := ih hd.2 hc' hp'
      rw [content_cons_of_not_blank _ rfl, elemContent_dir, this]
      simp [dirs, List.filter_cons, Tok.isDir]

theorem any_pi_content (ts : List Tok) : (content ts).any Tok.isPI = ts.any Tok.isPI := by
  induction ts with
  | nil => rfl
  | cons t r ih =>
    cases t with
    | text s => rw [content_cons_text]; unfold pend; split <;> simp [Tok.isPI, ih]
    | start p l as => rw [content_cons_of_not_blank _ rfl]; simp [ih]
    | stop p l => rw [content_cons_of_not_blank _ rfl]; simp [ih]
    | comment c => rw [content_cons_of_not_blank _ rfl]; simp [ih]
    | pi a b => rw [content_cons_of_not_blank _ rfl]; simp [ih]
    | dir c => rw [content_cons_of_not_blank _ rfl]; simp [ih]

/-- the content of a document whose only processing instruction (if any) is the first non-blank token -/
theorem content_of_doc : ∀ (ts : List Tok), docShape [] false ts = true → hasComment ts = false → piMoved ts = false →
    content ts = (lastPI ts).toList ++ dirs ts ++ elemContent ts := by
  intro ts
  induction ts with
  | nil => intro hd; simp [docShape] at hd
  | cons t r ih =>
    intro hd hc hp
    have hc' : hasComment r = false := by
      simp only [hasComment, List.any_cons, Bool.or_eq_false_iff] at hc; exact hc.2
    -- a non-blank first token: no processing instruction after it
    have hrest : t.isBlank = false → r.any Tok.isPI = false := by
      intro hb
      unfold piMoved at hp
      rw [content_cons_of_not_blank _ hb] at hp
      simpa [any_pi_content] using hp
    cases t with
    | text s =>
      simp only [docShape, Bool.and_eq_true, List.isEmpty_iff] at hd
      obtain ⟨hs, hd'⟩ := hd
      subst hs
      have hp' : piMoved r = false := by
        unfold piMoved at hp ⊢
        rw [content_cons_text] at hp
        simpa [pend] using hp
      have := ih hd' hc' hp'
      rw [content_cons_text, elemContent_text, this, lastPI_cons_of_not_pi _ _ rfl]
      simp [dirs, Tok.isDir, pend]
    | pi a b =>
      have hr := hrest rfl
      have := content_from_prolog r (by simpa [docShape] using hd) hc' hr
      rw [content_cons_of_not_blank _ rfl, this, lastPI_pi_cons _ _ _ hr]
      simp [dirs, Tok.isDir]
    | comment c => simp [hasComment, Tok.isComment] at hc
    | start p l as =>
      have hr := hrest rfl
      have hall : (Tok.start p l as :: r).any Tok.isPI = false := by simp [Tok.isPI, hr]
      rw [content_from_prolog _ hd hc hall, (lastPI_none_iff _).mpr hall]
      rfl
    | stop p l => simp [docShape] at hd
    | dir c =>
      have hr := hrest rfl
      have hall : (Tok.dir c :: r).any Tok.isPI = false := by simp [Tok.isPI, hr]
      rw [content_from_prolog _ hd hc hall, (lastPI_none_iff _).mpr hall]
      rfl

/-- "⇐": a document with none of the lossy features is printed unchanged (nothing appended) -/
theorem printed_nil_of_lossFree (ts : List Tok) (hd : docShape [] false ts = true) (hl : lossFree ts = true) :
    printedToks [] ts = content ts := by
  simp only [lossFree, Bool.and_eq_true, Bool.not_eq_true'] at hl
  obtain ⟨⟨⟨hc, hm⟩, hp⟩, hpi⟩ := hl
  have h1 := (elem_roundtrip_iff ts [] false trivial (by simpa [names] using hd) hp).mpr ⟨hm, by simp [topText]⟩
  simp only [topText, pend, List.isEmpty_nil, if_true, List.nil_append] at h1
  rw [content_of_doc ts hd hc hpi, printedToks, h1]

/-- the printed document with elements appended contains the one without -/
theorem elemToks_sublist (app : List Tok) : ∀ (ts : List Tok) (st : List Frame) (seen : Bool),
    (elemToks [] st seen ts).Sublist (elemToks app st seen ts) := by
  intro ts
  induction ts with
  | nil => intro _ _; exact List.Sublist.refl _
  | cons t r ih =>
    intro st seen
    cases t with
    | start p l as => simp only [elemToks]; exact List.Sublist.append (List.Sublist.refl _) (ih _ _)
    | stop p l =>
      cases st with
      | nil => simp only [elemToks]; exact ih _ _
      | cons f st' =>
        simp only [elemToks]
        apply List.Sublist.append _ (ih _ _)
        split
        · simp only [appAt_nil, List.nil_append]
          exact List.Sublist.append (List.sublist_append_right _ _) (List.Sublist.refl _)
        · exact List.Sublist.refl _
    | text s =>
      cases st with
      | nil => simp only [elemToks]; exact ih _ _
      | cons f st' => simp only [elemToks]; exact ih _ _
    | comment c => simp only [elemToks]; exact ih _ _
    | pi a b => simp only [elemToks]; exact ih _ _
    | dir c => simp only [elemToks]; exact ih _ _

theorem printed_sublist (app ts : List Tok) : (printedToks [] ts).Sublist (printedToks app ts) := by
  simp only [printedToks]
  exact List.Sublist.append (List.Sublist.refl _) (elemToks_sublist app ts [] false)

/-- a document with none of the lossy features is kept, whatever is appended to its root -/
theorem kept_of_lossFree (app ts : List Tok) (hd : docShape [] false ts = true) (hl : lossFree ts = true) :
    keepsContent ts (printedToks app ts) = true := by
  rw [keeps_iff]
  have h1 : content ts = content (printedToks [] ts) := by
    rw [content_printed_nil, printed_nil_of_lossFree ts hd hl]
  rw [h1]
  exact (printed_sublist app ts).filter _

end RawPanelVerif.Xmldom
