import RawPanelVerif.Lemmas.GfxAgree
import RawPanelVerif.Lemmas.GfxCor
import RawPanelVerif.Lemmas.GfxJson
/-!
C05: the encoder / clean-run statements in the Spec's own terms (`Spec.Gfx.checkEnc`, `cleanRuns`, `checkClean`),
lifted from the model-level theorems through `parseLine_eq_readLine`.
-/
namespace RawPanelVerif.Gfx
open RawPanelVerif

/-- what was sent, as the Spec sees it -/
def sentOf (g : Img) : Spec.Gfx.Sent :=
  { fmt := g.ty, W := g.W, H := g.H, off := g.off, X := g.X, Y := g.Y, data := g.data }

/-! ### decimal printing -/

theorem digitChar_facts : ∀ d, d < 10 → UInt8.ofNat (Nat.digitChar d).toNat = UInt8.ofNat (48 + d) := by decide

theorem decimal_eq_dec (n : Nat) : Spec.Gfx.decimal n = dec n := by
  fun_induction dec n with
  | case1 n h =>
    unfold Spec.Gfx.decimal
    rw [Nat.toDigits_of_lt_base h]
    simp only [List.map_cons, List.map_nil]
    rw [digitChar_facts n h]
  | case2 n h ih =>
    unfold Spec.Gfx.decimal at ih ⊢
    rw [Nat.toDigits_of_base_le (by decide) (by omega), List.map_append, ih]
    simp only [List.map_cons, List.map_nil]
    rw [digitChar_facts (n % 10) (Nat.mod_lt _ (by decide))]

theorem isNum_dec (n : Nat) : IsNum (dec n) := ⟨dec_ne_nil n, dec_all_digit n⟩

theorem validIds_dec (n : Nat) : ValidIds (dec n) := by
  refine ⟨dec_ne_nil n, ?_⟩
  have := dec_all_digit n
  simp only [List.all_eq_true] at this ⊢
  intro c hc
  simp [isIdChar, this c hc]

theorem atoiNat_dec (n : Nat) : atoiNat (dec n) = n := by
  rw [atoiNat_num _ (isNum_dec n), value_eq, natOfDigits_dec]

/-! ### what the Spec reads from the encoder's lines -/

/-- the header chunk 0 of `g` must carry -/
def hdrOf (g : Img) (total : Nat) : Spec.Gfx.Header :=
  ⟨total - 1, g.W, g.H, if g.off then some (g.X, g.Y) else none⟩

/-- `c` is chunk `i` of the transfer of `g` to `ids` in `total` lines -/
structure ChunkFor (g : Img) (ids : Bytes) (total i : Nat) (c : Spec.Gfx.Chunk) : Prop where
  fmt : c.fmt = g.ty
  ids : c.ids = ids
  idx : c.idx = i
  hdr : c.hdr = if i = 0 then some (hdrOf g total) else none
  payload : c.payload = some (segment g i)

theorem parseLine_chunkLine (g : Img) (ids : Bytes) (hv : ValidIds ids) (hty : g.ty ≤ 2) (total i : Nat) :
    ∃ c, Spec.Gfx.parseLine (chunkLine g ids total i) = some c ∧ ChunkFor g ids total i c := by
  rw [parseLine_eq_readLine]
  unfold readLine
  by_cases hi : i = 0
  · subst hi
    rw [matchGfx_chunkLine_zero g ids hv total, Option.map_some]
    refine ⟨_, rfl, ?_⟩
    constructor
    · simp [chunkOf, typeOfPrefix_pfxOf g.ty hty]
    · simp [chunkOf]
    · simp [chunkOf, atoiNat_dec]
    · simp only [chunkOf, header_ne_nil, if_false, if_true, atoiNat_dec, hdrOf]
      by_cases ho : g.off <;> simp [ho, atoiNat_dec]
    · simp [chunkOf, B64.decode?_encode]
  · rw [matchGfx_chunkLine_succ g ids hv total i hi, Option.map_some]
    refine ⟨_, rfl, ?_⟩
    constructor
    · simp [chunkOf, typeOfPrefix_pfxOf g.ty hty]
    · simp [chunkOf]
    · simp [chunkOf, atoiNat_dec]
    · simp [chunkOf, hi]
    · simp [chunkOf, B64.decode?_encode]

/-- chunks `i, i+1, …` of the transfer -/
def IsChunks (g : Img) (ids : Bytes) (total : Nat) : Nat → List Spec.Gfx.Chunk → Prop
  | _, [] => True
  | i, c :: rest => ChunkFor g ids total i c ∧ IsChunks g ids total (i + 1) rest

theorem chunks_of_lines (g : Img) (ids : Bytes) (hv : ValidIds ids) (hty : g.ty ≤ 2) (total : Nat) :
    ∀ (m a : Nat), ∃ cs, ((List.range' a m).map (chunkLine g ids total)).filterMap Spec.Gfx.parseLine = cs ∧
      cs.length = m ∧ IsChunks g ids total a cs := by
  intro m
  induction m with
  | zero => intro a; exact ⟨[], rfl, rfl, trivial⟩
  | succ m ih =>
    intro a
    obtain ⟨c, hc, hcf⟩ := parseLine_chunkLine g ids hv hty total a
    obtain ⟨cs, h1, h2, h3⟩ := ih (a + 1)
    refine ⟨c :: cs, ?_, by simp [h2], hcf, h3⟩
    simp only [List.range'_succ, List.map_cons, List.filterMap_cons, hc, h1]

theorem runPayload_chunks (g : Img) (ids : Bytes) (total : Nat) :
    ∀ (cs : List Spec.Gfx.Chunk) (i : Nat), IsChunks g ids total i cs →
      Spec.Gfx.runPayload (sentOf g) ids total i cs = some ((List.range' i cs.length).flatMap (segment g)) := by
  intro cs
  induction cs with
  | nil => intro i _; rfl
  | cons c cs ih =>
    intro i h
    obtain ⟨hc, hrest⟩ := h
    have hlen := segment_length_le g i
    have hcond : c.fmt = (sentOf g).fmt ∧ c.ids = ids ∧ c.idx = i ∧
        (if i = 0 then c.hdr = some ⟨total - 1, (sentOf g).W, (sentOf g).H,
            if (sentOf g).off then some ((sentOf g).X, (sentOf g).Y) else none⟩ else c.hdr = none) ∧
        (segment g i).length ≤ 170 := by
      refine ⟨hc.fmt, hc.ids, hc.idx, ?_, hlen⟩
      rw [hc.hdr]
      by_cases hi : i = 0
      · simp only [hi, if_true]; rfl
      · simp only [hi, if_false]
    unfold Spec.Gfx.runPayload
    rw [hc.payload]
    simp only []
    rw [if_pos hcond, ih _ hrest]
    simp [List.range'_succ]

theorem chunks_idx_ne_zero (g : Img) (ids : Bytes) (total : Nat) :
    ∀ (cs : List Spec.Gfx.Chunk) (i : Nat), 1 ≤ i → IsChunks g ids total i cs → ∀ c ∈ cs, c.idx ≠ 0 := by
  intro cs
  induction cs with
  | nil => intro i _ _ c hc; simp at hc
  | cons c cs ih =>
    intro i hi h x hx
    simp only [List.mem_cons] at hx
    rcases hx with rfl | hx
    · rw [h.1.idx]; omega
    · exact ih (i + 1) (by omega) h.2 x hx

end RawPanelVerif.Gfx

namespace RawPanelVerif.Gfx

/-! ### the graphics lines of a history, with positions -/

/-- `Spec.Gfx.gfxLines` with the numbering starting at `k` -/
def gfxFrom (k : Nat) (lines : List Bytes) : List (Nat × Spec.Gfx.Chunk) :=
  (lines.zipIdx k).filterMap (fun li => (Spec.Gfx.parseLine li.1).map (fun c => (li.2, c)))

theorem gfxLines_eq (lines : List Bytes) : Spec.Gfx.gfxLines lines = gfxFrom 0 lines := by
  unfold Spec.Gfx.gfxLines gfxFrom
  congr 1

theorem gfxFrom_nil (k : Nat) : gfxFrom k [] = [] := rfl

theorem gfxFrom_cons_some (k : Nat) (l : Bytes) (ls : List Bytes) (c : Spec.Gfx.Chunk)
    (h : Spec.Gfx.parseLine l = some c) : gfxFrom k (l :: ls) = (k, c) :: gfxFrom (k + 1) ls := by
  simp [gfxFrom, List.zipIdx_cons, h]

theorem gfxFrom_cons_none (k : Nat) (l : Bytes) (ls : List Bytes) (h : Spec.Gfx.parseLine l = none) :
    gfxFrom k (l :: ls) = gfxFrom (k + 1) ls := by
  simp [gfxFrom, List.zipIdx_cons, h]

theorem gfxFrom_append (a b : List Bytes) : ∀ k, gfxFrom k (a ++ b) = gfxFrom k a ++ gfxFrom (k + a.length) b := by
  induction a with
  | nil => intro k; rfl
  | cons l ls ih =>
    intro k
    have e : k + (l :: ls).length = k + 1 + ls.length := by simp; omega
    cases h : Spec.Gfx.parseLine l with
    | none => rw [List.cons_append, gfxFrom_cons_none _ _ _ h, gfxFrom_cons_none _ _ _ h, ih, e]
    | some c => rw [List.cons_append, gfxFrom_cons_some _ _ _ _ h, gfxFrom_cons_some _ _ _ _ h, ih, e]; rfl

theorem gfxFrom_none (ls : List Bytes) (h : ∀ l ∈ ls, Spec.Gfx.parseLine l = none) : ∀ k, gfxFrom k ls = [] := by
  induction ls with
  | nil => intro k; rfl
  | cons l ls ih =>
    intro k
    rw [gfxFrom_cons_none _ _ _ (h l (by simp))]
    exact ih (fun x hx => h x (by simp [hx])) _

theorem gfxFrom_snd (ls : List Bytes) : ∀ k, (gfxFrom k ls).map (·.2) = ls.filterMap Spec.Gfx.parseLine := by
  induction ls with
  | nil => intro k; rfl
  | cons l ls ih =>
    intro k
    cases h : Spec.Gfx.parseLine l with
    | none => rw [gfxFrom_cons_none _ _ _ h, ih, List.filterMap_cons, h]
    | some c => rw [gfxFrom_cons_some _ _ _ _ h, List.map_cons, ih, List.filterMap_cons, h]

/-! ### `groups` -/

theorem groups_head (x : Nat × Spec.Gfx.Chunk) (xs : List (Nat × Spec.Gfx.Chunk)) :
    ∃ a b, Spec.Gfx.groups (x :: xs) = (x :: a) :: b := by
  unfold Spec.Gfx.groups
  cases Spec.Gfx.groups xs with
  | nil => exact ⟨[], [], rfl⟩
  | cons grp more =>
    cases grp with
    | nil => exact ⟨[], more, rfl⟩
    | cons q rest =>
      obtain ⟨p, c⟩ := q
      simp only []
      by_cases h : c.idx = 0
      · exact ⟨[], ((p, c) :: rest) :: more, by simp [h]⟩
      · exact ⟨(p, c) :: rest, more, by simp [h]⟩

/-- a chunk 0 (or anything) followed by chunks with non-zero index, followed by nothing or by a chunk 0, is a group -/
theorem groups_run (rest tl : List (Nat × Spec.Gfx.Chunk)) (hrest : ∀ q ∈ rest, q.2.idx ≠ 0)
    (htl : ∀ x xs, tl = x :: xs → x.2.idx = 0) :
    ∀ pc, Spec.Gfx.groups (pc :: (rest ++ tl)) = (pc :: rest) :: Spec.Gfx.groups tl := by
  induction rest with
  | nil =>
    intro pc
    cases tl with
    | nil => rfl
    | cons x xs =>
      obtain ⟨a, b, hab⟩ := groups_head x xs
      have hx := htl x xs rfl
      rw [List.nil_append]
      conv => lhs; unfold Spec.Gfx.groups
      rw [hab]
      obtain ⟨p, c⟩ := x
      simp only [] at hx ⊢
      simp [hx]
  | cons q rest ih =>
    intro pc
    have := ih (fun x hx => hrest x (by simp [hx])) q
    rw [List.cons_append]
    conv => lhs; unfold Spec.Gfx.groups
    rw [this]
    have hq := hrest q (by simp)
    obtain ⟨p, c⟩ := q
    simp only [] at hq ⊢
    simp [hq]

/-! ### one transfer is one clean run -/

theorem chunkLines_range' (g : Img) (ids : Bytes) :
    chunkLines g ids = (List.range' 0 (totalLines g.data.length)).map (chunkLine g ids (totalLines g.data.length)) := by
  unfold chunkLines; rw [List.range_eq_range']

theorem totalLines_pos (g : Img) (h : g.data ≠ []) : 0 < totalLines g.data.length := by
  have h1 : g.data.length ≠ 0 := by simpa using h
  have h2 : totalLines g.data.length ≠ 0 := fun e => h1 ((totalLines_eq_zero g.data.length).mp e)
  omega

/-- any position-tagged list whose chunks are those of the encoder's lines for `g`, `ids` is one group: it starts
with a chunk 0, continues with non-zero indices, and is a clean run of `g` -/
theorem group_of_chunks (g : Img) (ids : Bytes) (hv : ValidIds ids) (hty : g.ty ≤ 2) (h : g.data ≠ [])
    (G : List (Nat × Spec.Gfx.Chunk))
    (hG : G.map (·.2) = (chunkLines g ids).filterMap Spec.Gfx.parseLine) :
    ∃ pc rest, G = pc :: rest ∧ pc.2.idx = 0 ∧ (∀ q ∈ rest, q.2.idx ≠ 0) ∧
      Spec.Gfx.isRun (sentOf g) ids (G.map (·.2)) = true := by
  obtain ⟨cs, h1, h2, h3⟩ := chunks_of_lines g ids hv hty (totalLines g.data.length) (totalLines g.data.length) 0
  rw [← chunkLines_range'] at h1
  rw [h1] at hG
  have hpos := totalLines_pos g h
  have hrun : Spec.Gfx.isRun (sentOf g) ids cs = true := by
    unfold Spec.Gfx.isRun
    have hp := runPayload_chunks g ids (totalLines g.data.length) cs 0 h3
    rw [h2] at hp ⊢
    rw [hp, ← List.range_eq_range', segments_concat g]
    cases cs with
    | nil => simp at h2; omega
    | cons _ _ => simp [sentOf]
  cases cs with
  | nil => simp at h2; omega
  | cons c0 cs' =>
    cases G with
    | nil => simp at hG
    | cons pc rest =>
      simp only [List.map_cons, List.cons.injEq] at hG
      refine ⟨pc, rest, rfl, ?_, ?_, ?_⟩
      · rw [hG.1, h3.1.idx]
      · intro q hq
        have : q.2 ∈ cs' := by rw [← hG.2]; exact List.mem_map_of_mem hq
        exact chunks_idx_ne_zero g ids _ cs' 1 (by omega) h3.2 _ this
      · rw [List.map_cons, hG.1, hG.2]; exact hrun

end RawPanelVerif.Gfx

namespace RawPanelVerif.Gfx

/-! ### the encoder's output -/

theorem gfxFrom_chunkLines_group (g : Img) (ids : Bytes) (hv : ValidIds ids) (hty : g.ty ≤ 2) (h : g.data ≠ [])
    (k : Nat) :
    ∃ pc rest, gfxFrom k (chunkLines g ids) = pc :: rest ∧ pc.2.idx = 0 ∧ (∀ q ∈ rest, q.2.idx ≠ 0) ∧
      Spec.Gfx.isRun (sentOf g) ids ((pc :: rest).map (·.2)) = true := by
  obtain ⟨pc, rest, e, h1, h2, h3⟩ := group_of_chunks g ids hv hty h (gfxFrom k (chunkLines g ids)) (gfxFrom_snd _ k)
  exact ⟨pc, rest, e, h1, h2, by rw [← e]; exact h3⟩

theorem enc_groups (g : Img) (hty : g.ty ≤ 2) (h : g.data ≠ []) : ∀ (ids : List Nat) (k : Nat),
    (Spec.Gfx.groups (gfxFrom k (encodeState g ids))).length = ids.length ∧
    (∀ p ∈ (Spec.Gfx.groups (gfxFrom k (encodeState g ids))).zip ids,
      Spec.Gfx.isRun (sentOf g) (Spec.Gfx.decimal p.2) (p.1.map (·.2)) = true) ∧
    (∀ x xs, gfxFrom k (encodeState g ids) = x :: xs → x.2.idx = 0) := by
  intro ids
  induction ids with
  | nil =>
    intro k
    refine ⟨rfl, ?_, ?_⟩
    · intro p hp; simp [encodeState, gfxFrom_nil, Spec.Gfx.groups] at hp
    · intro x xs hx; simp [encodeState, gfxFrom_nil] at hx
  | cons id ids ih =>
    intro k
    have e : encodeState g (id :: ids) = chunkLines g (dec id) ++ encodeState g ids := by
      simp [encodeState]
    obtain ⟨pc, rest, hg, h0, hrest, hrun⟩ := gfxFrom_chunkLines_group g (dec id) (validIds_dec id) hty h k
    obtain ⟨ih1, ih2, ih3⟩ := ih (k + (chunkLines g (dec id)).length)
    rw [e, gfxFrom_append, hg, List.cons_append, groups_run rest _ hrest ih3 pc]
    refine ⟨by simp [ih1], ?_, ?_⟩
    · intro p hp
      rw [List.zip_cons_cons, List.mem_cons] at hp
      rcases hp with rfl | hp
      · simp only []; rw [decimal_eq_dec]; exact hrun
      · exact ih2 p hp
    · intro x xs hx
      simp only [List.cons.injEq] at hx
      rw [← hx.1]; exact h0

theorem encodeState_nil_of_empty (g : Img) (ids : List Nat) (h : g.data = []) : encodeState g ids = [] := by
  have : ∀ id, chunkLines g (dec id) = [] := by
    intro id
    have : (chunkLines g (dec id)).length = 0 := by rw [chunkLines_length, totalLines_eq_zero]; simp [h]
    exact List.eq_nil_of_length_eq_zero this
  simp [encodeState, this]

theorem encodeState_all_parse (g : Img) (hty : g.ty ≤ 2) (ids : List Nat) :
    ∀ l ∈ encodeState g ids, (Spec.Gfx.parseLine l).isSome = true := by
  intro l hl
  simp only [encodeState, List.mem_flatMap, chunkLines, List.mem_map, List.mem_range] at hl
  obtain ⟨id, _, i, _, rfl⟩ := hl
  obtain ⟨c, hc, _⟩ := parseLine_chunkLine g (dec id) (validIds_dec id) hty (totalLines g.data.length) i
  rw [hc]; rfl

theorem cleanRuns_encodeState (g : Img) (hty : g.ty ≤ 2) (ids : List Nat) :
    Spec.Gfx.cleanRuns (sentOf g) ids (encodeState g ids) = true := by
  unfold Spec.Gfx.cleanRuns
  simp only [gfxLines_eq]
  by_cases h : g.data = []
  · rw [encodeState_nil_of_empty g ids h]
    simp [sentOf, h, gfxFrom_nil, Spec.Gfx.groups]
  · obtain ⟨h1, h2, _⟩ := enc_groups g hty h ids 0
    have hne : (sentOf g).data.isEmpty = false := by
      cases hd : g.data with
      | nil => exact absurd hd h
      | cons _ _ => simp [sentOf, hd]
    rw [hne]
    simp only [Bool.false_eq_true, if_false, h1, beq_self_eq_true, Bool.true_and, List.all_eq_true]
    intro p hp
    exact h2 p hp

theorem checkEnc_encodeState (g : Img) (hty : g.ty ≤ 2) (ids : List Nat) :
    Spec.Gfx.checkEnc (sentOf g) ids (encodeState g ids) = none := by
  unfold Spec.Gfx.checkEnc
  have h1 : (encodeState g ids).all (fun l => (Spec.Gfx.parseLine l).isSome) = true := by
    rw [List.all_eq_true]; exact encodeState_all_parse g hty ids
  rw [h1, cleanRuns_encodeState g hty ids]
  rfl

end RawPanelVerif.Gfx

namespace RawPanelVerif.Gfx

/-! ### a woven history: where the last chunk line sits -/

theorem weave_nil_unrelated (all : List Bytes) (w : Weave [] all) : ∀ o ∈ all, Unrelated o := by
  generalize hcs : ([] : List Bytes) = cs at w
  induction w with
  | nil => intro o ho; simp at ho
  | skip o' cs all h _ ih =>
    intro o ho
    simp only [List.mem_cons] at ho
    rcases ho with rfl | ho
    · exact h
    · exact ih hcs o ho
  | take c cs all _ _ => simp at hcs

theorem weave_of_unrelated (all : List Bytes) (h : ∀ o ∈ all, Unrelated o) : Weave [] all := by
  induction all with
  | nil => exact .nil
  | cons o all ih => exact .skip o [] all (h o (by simp)) (ih (fun x hx => h x (by simp [hx])))

/-- the history splits at the last line of the run: before it the earlier lines of the run woven with unrelated
lines, after it only unrelated lines -/
theorem weave_split_last (cs all : List Bytes) (w : Weave cs all) : ∀ (init : List Bytes) (last : Bytes),
    cs = init ++ [last] →
    ∃ pre post, all = pre ++ last :: post ∧ Weave init pre ∧ ∀ o ∈ post, Unrelated o := by
  induction w with
  | nil => intro init last h; simp at h
  | skip o cs all h _ ih =>
    intro init last hcs
    obtain ⟨pre, post, e, w', hp⟩ := ih init last hcs
    exact ⟨o :: pre, post, by rw [e]; rfl, .skip o init pre h w', hp⟩
  | take c cs all w' ih =>
    intro init last hcs
    cases init with
    | nil =>
      simp only [List.nil_append, List.cons.injEq] at hcs
      obtain ⟨rfl, rfl⟩ := hcs
      exact ⟨[], all, rfl, .nil, weave_nil_unrelated all w'⟩
    | cons c' init' =>
      simp only [List.cons_append, List.cons.injEq] at hcs
      obtain ⟨rfl, hcs⟩ := hcs
      obtain ⟨pre, post, e, w'', hp⟩ := ih init' last hcs
      exact ⟨c :: pre, post, by rw [e]; rfl, .take c init' pre w'', hp⟩

theorem parseLine_none_of_parseLine? (l : Bytes) (h : parseLine? l = none) : Spec.Gfx.parseLine l = none := by
  rw [parseLine_eq_readLine]
  unfold parseLine? at h
  unfold readLine
  cases hm : matchGfx l with
  | none => rfl
  | some m => rw [hm] at h; simp at h

/-- the chunks the Spec reads from a woven history (as it is, or every line trimmed) are those of the run -/
theorem weave_chunks (f : Bytes → Bytes) (hf : ∀ o, Unrelated o → Spec.Gfx.parseLine (f o) = none)
    (cs all : List Bytes) (w : Weave cs all) (hc : ∀ c ∈ cs, f c = c) :
    (all.map f).filterMap Spec.Gfx.parseLine = cs.filterMap Spec.Gfx.parseLine := by
  induction w with
  | nil => rfl
  | skip o cs all h _ ih =>
    rw [List.map_cons, List.filterMap_cons, hf o h]
    exact ih hc
  | take c cs all _ ih =>
    rw [List.map_cons, hc c (by simp), List.filterMap_cons, List.filterMap_cons]
    rw [ih (fun x hx => hc x (by simp [hx]))]

end RawPanelVerif.Gfx

namespace RawPanelVerif.Gfx

/-! ### the Spec's view of a woven history -/

theorem sent_data_nonempty (g : Img) (h : g.data ≠ []) : (sentOf g).data.isEmpty = false := by
  cases hd : g.data with
  | nil => exact absurd hd h
  | cons _ _ => simp [sentOf, hd]

/-- the graphics lines of the woven history form exactly one group: a clean run of `g` whose last line sits at the
position of the run's last line -/
theorem spec_groups (g : Img) (id : Nat) (hty : g.ty ≤ 2) (h : g.data ≠ []) (f : Bytes → Bytes)
    (hf : ∀ o, Unrelated o → Spec.Gfx.parseLine (f o) = none) (hfc : ∀ c ∈ chunkLines g (dec id), f c = c)
    (all : List Bytes) (w : Weave (chunkLines g (dec id)) all) (init pre post : List Bytes) (last : Bytes)
    (hcl : chunkLines g (dec id) = init ++ [last]) (hall : all = pre ++ last :: post)
    (hpost : ∀ o ∈ post, Unrelated o) :
    ∃ G c, Spec.Gfx.groups (Spec.Gfx.gfxLines (all.map f)) = [G] ∧ G.getLast? = some (pre.length, c) ∧
      Spec.Gfx.isRun (sentOf g) (Spec.Gfx.decimal id) (G.map (·.2)) = true := by
  have hlast_mem : last ∈ chunkLines g (dec id) := by rw [hcl]; simp
  have hlast : f last = last := hfc last hlast_mem
  obtain ⟨c, hc⟩ : ∃ c, Spec.Gfx.parseLine last = some c := by
    simp only [chunkLines, List.mem_map, List.mem_range] at hlast_mem
    obtain ⟨i, _, rfl⟩ := hlast_mem
    obtain ⟨c, hc, _⟩ := parseLine_chunkLine g (dec id) (validIds_dec id) hty (totalLines g.data.length) i
    exact ⟨c, hc⟩
  have hG : gfxFrom 0 (all.map f) = gfxFrom 0 (pre.map f) ++ [(pre.length, c)] := by
    rw [hall, List.map_append, List.map_cons, hlast, gfxFrom_append, gfxFrom_cons_some _ _ _ _ hc,
      gfxFrom_none (post.map f) (by
        intro l hl
        obtain ⟨o, ho, rfl⟩ := List.mem_map.mp hl
        exact hf o (hpost o ho))]
    simp
  have hsnd : (gfxFrom 0 (all.map f)).map (·.2) = (chunkLines g (dec id)).filterMap Spec.Gfx.parseLine := by
    rw [gfxFrom_snd, weave_chunks f hf _ _ w hfc]
  obtain ⟨pc, rest, e, _, hrest, hrun⟩ := group_of_chunks g (dec id) (validIds_dec id) hty h _ hsnd
  refine ⟨gfxFrom 0 (all.map f), c, ?_, ?_, ?_⟩
  · rw [gfxLines_eq, e]
    have := groups_run rest [] hrest (fun x xs hx => by simp at hx) pc
    rw [List.append_nil] at this
    rw [this]; rfl
  · rw [hG]; simp
  · rw [decimal_eq_dec]; exact hrun

/-- one group, one matching delivery at the group's last line: the Spec's clean-run check passes -/
theorem checkClean_single (g : Img) (id : Nat) (h : g.data ≠ []) (lines : List Bytes)
    (G : List (Nat × Spec.Gfx.Chunk)) (c : Spec.Gfx.Chunk) (q : Nat) (img : Spec.Gfx.Img)
    (hgr : Spec.Gfx.groups (Spec.Gfx.gfxLines lines) = [G]) (hlast : G.getLast? = some (q, c))
    (hrun : Spec.Gfx.isRun (sentOf g) (Spec.Gfx.decimal id) (G.map (·.2)) = true)
    (hsame : Spec.Gfx.sameImage (sentOf g) id img = true) :
    Spec.Gfx.cleanRuns (sentOf g) [id] lines = true ∧
      Spec.Gfx.checkClean (sentOf g) [id] lines [⟨some q, img, g.data⟩] = none := by
  have hcr : Spec.Gfx.cleanRuns (sentOf g) [id] lines = true := by
    unfold Spec.Gfx.cleanRuns
    simp only [hgr, sent_data_nonempty g h, Bool.false_eq_true, if_false]
    simp [hrun]
  refine ⟨hcr, ?_⟩
  unfold Spec.Gfx.checkClean
  rw [hcr, hgr]
  simp only [Bool.not_true, Bool.false_eq_true, if_false, List.zip_cons_cons, List.zip_nil_right]
  unfold Spec.Gfx.cleanLoop
  simp only [hsame, hlast, Bool.not_true, Bool.false_eq_true, if_false]
  simp [sentOf, Spec.Gfx.cleanLoop]

/-- nothing sent, nothing delivered -/
theorem checkClean_empty (g : Img) (id : Nat) (h : g.data = []) (lines : List Bytes)
    (hl : ∀ l ∈ lines, Spec.Gfx.parseLine l = none) :
    Spec.Gfx.cleanRuns (sentOf g) [id] lines = true ∧ Spec.Gfx.checkClean (sentOf g) [id] lines [] = none := by
  have hcr : Spec.Gfx.cleanRuns (sentOf g) [id] lines = true := by
    unfold Spec.Gfx.cleanRuns
    simp [gfxLines_eq, gfxFrom_none lines hl 0, Spec.Gfx.groups, sentOf, h]
  refine ⟨hcr, ?_⟩
  unfold Spec.Gfx.checkClean
  rw [hcr]
  simp [gfxLines_eq, gfxFrom_none lines hl 0, Spec.Gfx.groups, Spec.Gfx.cleanLoop]

end RawPanelVerif.Gfx

namespace RawPanelVerif.Gfx

/-! ### batch: the deliveries of a woven history, with their positions -/

theorem runFrom_append (step : BState → Bytes → BState × Option Out) (a b : List Bytes) : ∀ (s : BState) (pos : Nat),
    Batch.runFrom step s pos (a ++ b) =
      ((Batch.runFrom step (Batch.runFrom step s pos a).1 (pos + a.length) b).1,
        (Batch.runFrom step s pos a).2 ++ (Batch.runFrom step (Batch.runFrom step s pos a).1 (pos + a.length) b).2) := by
  induction a with
  | nil => intro s pos; simp [Batch.runFrom]
  | cons l ls ih =>
    intro s pos
    have e : pos + (l :: ls).length = pos + 1 + ls.length := by simp; omega
    simp only [List.cons_append, Batch.runFrom, ih, e]
    cases (step s l).2 <;> simp

theorem run_pos_lt (step : BState → Bytes → BState × Option Out) (ls : List Bytes) : ∀ (s : BState) (pos : Nat),
    ∀ e ∈ (Batch.runFrom step s pos ls).2, e.pos < pos + ls.length := by
  induction ls with
  | nil => intro s pos e he; simp [Batch.runFrom] at he
  | cons l ls ih =>
    intro s pos e he
    simp only [Batch.runFrom] at he
    have hrest : ∀ e ∈ (Batch.runFrom step (step s l).1 (pos + 1) ls).2, e.pos < pos + (l :: ls).length := by
      intro e he
      have := ih _ _ e he
      simp only [List.length_cons]; omega
    cases h2 : (step s l).2 with
    | none => rw [h2] at he; exact hrest e he
    | some o =>
      rw [h2] at he
      simp only [List.mem_cons] at he
      rcases he with rfl | he
      · simp
      · exact hrest e he

/-- a whole transfer from any state of the locals (lemma-level form of `C05.clean_run_batch_any_state`) -/
theorem run_chunkLines (g : Img) (ids : Bytes) (hv : ValidIds ids) (hr : InRange g) (h : g.data ≠ [])
    (s0 : BState) (pos : Nat) :
    ∃ final, Batch.runFrom Batch.step s0 pos (chunkLines g ids) =
      (final, [⟨pos + (totalLines g.data.length - 1), .gfx (intExplode ids) s0.store.length, final.store⟩]) ∧
      final.store.getD s0.store.length {} = received g := by
  rw [chunkLines_cons g ids h]
  have hl := totalLines_lt g hr
  have hpos := totalLines_pos g h
  have hrun := run_whole g.ty ids s0 (chunkLine g ids (totalLines g.data.length) 0)
    ((List.range' 1 (totalLines g.data.length - 1)).map (chunkLine g ids (totalLines g.data.length)))
    ((List.range' 1 (totalLines g.data.length - 1)).map (segment g))
    { idx := 0, ty := g.ty, pfx := pfxOf g.ty, list := ids, max := ((totalLines g.data.length - 1 : Nat) : Int),
      img := headerImg g, data := segment g 0, ok := true } pos
    (parseLine?_chunk_zero g ids hv hr _ hl) rfl rfl rfl rfl (by simp)
    (isRun_chunkLines g ids hv hr _ _ 1 (by omega) (by omega))
  simp only [List.length_map, List.length_range'] at hrun
  refine ⟨_, hrun, ?_⟩
  simp only [doneState, List.append_assoc]
  rw [List.getD_eq_getElem?_getD, List.getElem?_append_right (Nat.le_refl _)]
  simp only [Nat.sub_self, List.cons_append, List.nil_append, List.getElem?_cons_zero, Option.getD_some,
    headerImg, received]
  rw [segments_cons g h]

/-- … cut before its last line: the earlier lines produce no message, the last line produces the image -/
theorem run_init_last (g : Img) (ids : Bytes) (hv : ValidIds ids) (hr : InRange g) (h : g.data ≠ [])
    (init : List Bytes) (last : Bytes) (hcl : chunkLines g ids = init ++ [last]) (s0 : BState) (pos : Nat) :
    (Batch.runFrom Batch.step s0 pos init).2 = [] ∧
    ∃ final, Batch.step (Batch.runFrom Batch.step s0 pos init).1 last =
        (final, some (.gfx (intExplode ids) s0.store.length)) ∧
      final.store.getD s0.store.length {} = received g := by
  obtain ⟨final, hrun, hget⟩ := run_chunkLines g ids hv hr h s0 pos
  rw [hcl, runFrom_append] at hrun
  simp only [Prod.mk.injEq] at hrun
  obtain ⟨hst, hev⟩ := hrun
  have hlen : totalLines g.data.length - 1 = init.length := by
    have := congrArg List.length hcl
    rw [chunkLines_length] at this
    simp at this; omega
  have hb := run_pos_lt Batch.step init s0 pos
  cases hra : (Batch.runFrom Batch.step s0 pos init).2 with
  | cons e es =>
    rw [hra] at hev hb
    simp only [List.cons_append, List.cons.injEq] at hev
    have := hb e (by simp)
    rw [hev.1] at this
    simp only [] at this
    omega
  | nil =>
    refine ⟨rfl, ?_⟩
    rw [hra, List.nil_append] at hev
    simp only [Batch.runFrom] at hst hev
    cases h2 : (Batch.step (Batch.runFrom Batch.step s0 pos init).1 last).2 with
    | none => rw [h2] at hev; simp at hev
    | some o =>
      rw [h2] at hev hst
      simp only [List.cons.injEq, Event.mk.injEq, and_true] at hev hst
      refine ⟨final, ?_, hget⟩
      rw [← hst, ← hev.2.1, ← h2]

theorem delivsOf_append (st : List Img) (a b : List Event) : delivsOf st (a ++ b) = delivsOf st a ++ delivsOf st b := by
  simp [delivsOf, List.filterMap_append]

theorem delivsOf_nil_of_gfxOuts (st : List Img) (evs : List Event) (h : gfxOuts evs = []) : delivsOf st evs = [] := by
  induction evs with
  | nil => rfl
  | cons e es ih =>
    simp only [gfxOuts, List.map_cons, List.filter_cons] at h
    cases ho : e.out with
    | gfx ids ref => rw [ho] at h; simp [Out.isGfx] at h
    | other l =>
      rw [ho] at h
      simp only [Out.isGfx, Bool.false_eq_true, if_false] at h
      simp only [delivsOf, List.filterMap_cons, ho]
      exact ih h

/-- unrelated lines only: locals untouched, no graphics message -/
theorem run_unrelated (post : List Bytes) (hp : ∀ o ∈ post, Unrelated o) (s : BState) (pos : Nat) :
    (Batch.runFrom Batch.step s pos post).1 = s ∧ gfxOuts (Batch.runFrom Batch.step s pos post).2 = [] := by
  have := batch_weave [] post (weave_of_unrelated post hp) s pos 0
  simpa [Batch.runFrom, gfxOuts] using this

/-- **batch, Spec's view**: on a history in which the encoder's lines for `g` are woven with unrelated lines, the
call delivers exactly the image, at the position of the last chunk line, and the object holds its bytes at the end -/
theorem batch_delivs_woven (g : Img) (ids : Bytes) (hv : ValidIds ids) (hr : InRange g) (h : g.data ≠ [])
    (init pre post : List Bytes) (last : Bytes) (hcl : chunkLines g ids = init ++ [last]) (w : Weave init pre)
    (hpost : ∀ o ∈ post, Unrelated o) :
    delivsOf (Batch.run Batch.step (pre ++ last :: post)).1.store (Batch.run Batch.step (pre ++ last :: post)).2 =
      [⟨some pre.length, specImg (intExplode ids) (received g), g.data⟩] := by
  unfold Batch.run
  obtain ⟨hnone, final, hstep, hget⟩ := run_init_last g ids hv hr h init last hcl {} 0
  obtain ⟨hw1, hw2⟩ := batch_weave init pre w {} 0 0
  rw [hnone] at hw2
  obtain ⟨hp1, hp2⟩ := run_unrelated post hpost final (0 + pre.length + 1)
  rw [runFrom_append]
  simp only [Batch.runFrom, hw1, hstep, delivsOf_append, hp1]
  rw [delivsOf_nil_of_gfxOuts _ _ hw2, List.nil_append]
  have e : ∀ (x : Event) (xs : List Event), x :: xs = [x] ++ xs := fun _ _ => rfl
  rw [e, delivsOf_append, delivsOf_nil_of_gfxOuts _ _ hp2, List.append_nil]
  have hs : ({} : BState).store.length = 1 := rfl
  rw [hs] at hget ⊢
  rw [List.getD_eq_getElem?_getD] at hget
  simp [delivsOf, hget, received]

theorem batch_delivs_unrelated (all : List Bytes) (h : ∀ o ∈ all, Unrelated o) :
    delivsOf (Batch.run Batch.step all).1.store (Batch.run Batch.step all).2 = [] := by
  unfold Batch.run
  exact delivsOf_nil_of_gfxOuts _ _ (run_unrelated all h {} 0).2

end RawPanelVerif.Gfx

namespace RawPanelVerif.Gfx

/-! ### streaming: the deliveries of a woven history, with their positions -/

theorem stream_append (parse : RState → Bytes → RState × List Seen) (a b : List Bytes) : ∀ (s : RState) (pos : Nat),
    Stream.runFrom parse s pos (a ++ b) =
      ((Stream.runFrom parse (Stream.runFrom parse s pos a).1 (pos + a.length) b).1,
        (Stream.runFrom parse s pos a).2 ++ (Stream.runFrom parse (Stream.runFrom parse s pos a).1 (pos + a.length) b).2) := by
  induction a with
  | nil => intro s pos; simp [Stream.runFrom]
  | cons l ls ih =>
    intro s pos
    have e : pos + (l :: ls).length = pos + 1 + ls.length := by simp; omega
    simp only [List.cons_append, Stream.runFrom, ih, e]

theorem stream_length (parse : RState → Bytes → RState × List Seen) (ls : List Bytes) : ∀ (s : RState) (pos : Nat),
    (Stream.runFrom parse s pos ls).2.length = ls.length := by
  induction ls with
  | nil => intro s pos; rfl
  | cons l ls ih => intro s pos; simp [Stream.runFrom, ih]

/-- unrelated lines woven in do not change the reader's state (up to the init rule applied at the next call) -/
theorem stream_weave_state (cs all : List Bytes) (w : Weave cs all) : ∀ (s s' : RState) (pos pos' : Nat),
    s.initRule = s'.initRule →
    (Stream.runFrom Stream.parse s pos all).1.initRule = (Stream.runFrom Stream.parse s' pos' cs).1.initRule := by
  induction w with
  | nil => intro s s' pos pos' h; exact h
  | skip o cs all h _ ih =>
    intro s s' pos pos' hs
    have hstep : Stream.parse s o = (s.initRule, [.other (trimSpace o)]) := by
      rw [parse_eq, h.2]; simp only []; rw [decode_other _ h.2]
    simp only [Stream.runFrom, hstep]
    exact ih s.initRule s' (pos + 1) pos' (by rw [initRule_idem, hs])
  | take c cs all _ ih =>
    intro s s' pos pos' hs
    have hp := parse_initRule s s' hs c
    simp only [Stream.runFrom, hp]
    exact ih _ _ (pos + 1) (pos' + 1) rfl

theorem seenDelivs_nil_of_filter (pos : Nat) (seens : List Seen) (h : (seens.filter Seen.isGfx).isEmpty = true) :
    seenDelivs pos seens = [] := by
  induction seens with
  | nil => rfl
  | cons x xs ih =>
    cases x with
    | gfx ids img r => simp [Seen.isGfx] at h
    | other l =>
      simp only [List.filter_cons, Seen.isGfx, Bool.false_eq_true, if_false] at h
      simp only [seenDelivs, List.filterMap_cons]
      exact ih h

theorem delivs_nil_of_hits : ∀ (evs : List (Nat × List Seen)) (ls : List Bytes), evs.length = ls.length →
    hits evs ls = [] → delivsOfStream evs = [] := by
  intro evs
  induction evs with
  | nil => intro ls _ _; rfl
  | cons e es ih =>
    intro ls hl hh
    cases ls with
    | nil => simp at hl
    | cons l ls =>
      simp only [hits, List.zip_cons_cons, List.filterMap_cons] at hh
      by_cases hc : (e.2.filter Seen.isGfx).isEmpty = true
      · simp only [hc, if_true] at hh
        simp only [delivsOfStream, List.flatMap_cons, seenDelivs_nil_of_filter _ _ hc, List.nil_append]
        exact ih ls (by simpa using hl) hh
      · simp [hc] at hh

theorem stream_unrelated (post : List Bytes) (hp : ∀ o ∈ post, Unrelated o) (s : RState) (pos : Nat) :
    delivsOfStream (Stream.runFrom Stream.parse s pos post).2 = [] := by
  apply delivs_nil_of_hits _ post (stream_length _ _ _ _)
  have := stream_weave [] post (weave_of_unrelated post hp) s s pos 0 rfl
  rw [this]; rfl

/-- a whole transfer cut before its last line: nothing at the earlier lines, the image at the last -/
theorem stream_init_last (g : Img) (ids : Bytes) (hv : ValidIds ids) (hr : InRange g) (h : g.data ≠ [])
    (init : List Bytes) (last : Bytes) (hcl : chunkLines g ids = init ++ [last]) (s : RState) (pos : Nat) :
    hits (Stream.runFrom Stream.parse s pos init).2 init = [] ∧
    (Stream.parse (Stream.runFrom Stream.parse s pos init).1 last).2 = [.gfx (intExplode ids) (received g) 1] := by
  have hrun := stream_chunkLines g ids hv hr h s pos
  have hlen : totalLines g.data.length - 1 = init.length := by
    have := congrArg List.length hcl
    rw [chunkLines_length] at this
    simp at this; omega
  rw [hcl, stream_append] at hrun
  simp only [Stream.runFrom, Prod.mk.injEq] at hrun
  obtain ⟨_, hev⟩ := hrun
  have := List.append_inj' hev rfl
  obtain ⟨h1, h2⟩ := this
  simp only [List.cons.injEq, Prod.mk.injEq, and_true] at h2
  refine ⟨?_, h2.2⟩
  rw [h1]; exact hits_quiet _ _ _

/-- **streaming, Spec's view** -/
theorem stream_delivs_woven (g : Img) (ids : Bytes) (hv : ValidIds ids) (hr : InRange g) (h : g.data ≠ [])
    (init pre post : List Bytes) (last : Bytes) (hcl : chunkLines g ids = init ++ [last]) (w : Weave init pre)
    (hpost : ∀ o ∈ post, Unrelated o) :
    delivsOfStream (Stream.run Stream.parse (pre ++ last :: post)).2 =
      [⟨some pre.length, specImg (intExplode ids) (received g), g.data⟩] := by
  unfold Stream.run
  obtain ⟨hq, hl⟩ := stream_init_last g ids hv hr h init last hcl {} 0
  have hst := stream_weave_state init pre w {} {} 0 0 rfl
  have hh := stream_weave init pre w {} {} 0 0 rfl
  rw [hq] at hh
  have hpre := delivs_nil_of_hits _ pre (stream_length _ _ _ _) hh
  rw [stream_append]
  simp only [Stream.runFrom]
  have e : ∀ (a : List (Nat × List Seen)) x b, delivsOfStream (a ++ x :: b) =
      delivsOfStream a ++ seenDelivs x.1 x.2 ++ delivsOfStream b := by
    intro a x b; simp [delivsOfStream, List.flatMap_append]
  rw [e, hpre, stream_unrelated post hpost, parse_initRule _ _ hst last, hl]
  simp [seenDelivs, received]

theorem stream_delivs_unrelated (all : List Bytes) (h : ∀ o ∈ all, Unrelated o) :
    delivsOfStream (Stream.run Stream.parse all).2 = [] := stream_unrelated all h {} 0

end RawPanelVerif.Gfx

namespace RawPanelVerif.Gfx

/-! ### clean runs in the Spec's terms -/

theorem intExplode_dec (id : Nat) (hid : id < 2 ^ 32) : intExplode (dec id) = [id] := by
  unfold intExplode
  rw [← splitOn_eq, splitOn_noB 44 (dec id) (noB_num 44 (by decide) _ (isNum_dec id))]
  simp [atou32_dec id hid]

theorem sameImage_received (g : Img) (id : Nat) (hid : id < 2 ^ 32) :
    Spec.Gfx.sameImage (sentOf g) id (specImg (intExplode (dec id)) (received g)) = true := by
  rw [intExplode_dec id hid]
  by_cases ho : g.off <;> simp [Spec.Gfx.sameImage, sentOf, specImg, received, headerImg, ho]

theorem chunkLines_nil_of_empty (g : Img) (ids : Bytes) (h : g.data = []) : chunkLines g ids = [] := by
  have : (chunkLines g ids).length = 0 := by rw [chunkLines_length, totalLines_eq_zero]; simp [h]
  exact List.eq_nil_of_length_eq_zero this

theorem trimSpace_chunkLines (g : Img) (ids : Bytes) : ∀ c ∈ chunkLines g ids, trimSpace c = c := by
  intro c hc
  simp only [chunkLines, List.mem_map, List.mem_range] at hc
  obtain ⟨i, hi, rfl⟩ := hc
  exact trimSpace_chunkLine g ids _ i hi

/-- the Spec-level clean-run statement for the three feeding disciplines (the streaming reader's history is the
lines with surrounding white space stripped) -/
theorem clean_run_spec_all (g : Img) (id : Nat) (hid : id < 2 ^ 32) (hr : InRange g) (all : List Bytes)
    (w : Weave (chunkLines g (dec id)) all) :
    Spec.Gfx.cleanRuns (sentOf g) [id] all = true ∧
    Spec.Gfx.checkClean (sentOf g) [id] all
      (delivsOf (Batch.run Batch.step all).1.store (Batch.run Batch.step all).2) = none ∧
    Spec.Gfx.cleanRuns (sentOf g) [id] (all.map trimSpace) = true ∧
    Spec.Gfx.checkClean (sentOf g) [id] (all.map trimSpace) (delivsOfStream (Stream.run Stream.parse all).2) = none ∧
    Spec.Gfx.checkClean (sentOf g) [id] (all.map trimSpace) (delivsOfStream (Serial.run Stream.parse all).2) = none := by
  have hser : (Serial.run Stream.parse all).2 = (Stream.run Stream.parse all).2 :=
    (serial_stream all none 0).1
  rw [hser]
  have hf1 : ∀ o, Unrelated o → Spec.Gfx.parseLine ((fun x => x) o) = none :=
    fun o h => parseLine_none_of_parseLine? o h.1
  have hf2 : ∀ o, Unrelated o → Spec.Gfx.parseLine (trimSpace o) = none :=
    fun o h => parseLine_none_of_parseLine? _ h.2
  by_cases h : g.data = []
  · rw [chunkLines_nil_of_empty g _ h] at w
    have hu := weave_nil_unrelated all w
    rw [batch_delivs_unrelated all hu, stream_delivs_unrelated all hu]
    have c1 := checkClean_empty g id h all (fun l hl => hf1 l (hu l hl))
    have c2 := checkClean_empty g id h (all.map trimSpace) (by
      intro l hl
      obtain ⟨o, ho, rfl⟩ := List.mem_map.mp hl
      exact hf2 o (hu o ho))
    exact ⟨c1.1, c1.2, c2.1, c2.2, c2.2⟩
  · have hcl := chunkLines_snoc g (dec id) h
    obtain ⟨pre, post, hall, wpre, hpost⟩ := weave_split_last _ _ w _ _ hcl
    have hv := validIds_dec id
    have hsame := sameImage_received g id hid
    obtain ⟨G1, c1, hg1, hl1, hr1⟩ := spec_groups g id hr.ty h (fun x => x) hf1 (fun _ _ => rfl) all w _ pre post _
      hcl hall hpost
    rw [List.map_id'] at hg1
    obtain ⟨G2, c2, hg2, hl2, hr2⟩ := spec_groups g id hr.ty h trimSpace hf2 (trimSpace_chunkLines g (dec id)) all w _
      pre post _ hcl hall hpost
    have hb := batch_delivs_woven g (dec id) hv hr h _ pre post _ hcl wpre hpost
    have hs := stream_delivs_woven g (dec id) hv hr h _ pre post _ hcl wpre hpost
    rw [← hall] at hb hs
    rw [hb, hs]
    have k1 := checkClean_single g id h all G1 c1 pre.length _ hg1 hl1 hr1 hsame
    have k2 := checkClean_single g id h (all.map trimSpace) G2 c2 pre.length _ hg2 hl2 hr2 hsame
    exact ⟨k1.1, k1.2, k2.1, k2.2, k2.2⟩

end RawPanelVerif.Gfx

namespace RawPanelVerif.Gfx

/-! ### the domain of `clean_run_spec_all`: target ids are 32-bit -/

theorem intExplode_dec_mod (id : Nat) (h : id ≤ maxInt) : intExplode (dec id) = [id % 2 ^ 32] := by
  unfold intExplode
  rw [← splitOn_eq, splitOn_noB 44 (dec id) (noB_num 44 (by decide) _ (isNum_dec id))]
  simp [atou32, atoi_dec id h]

/-- with a target id that does not fit 32 bits the decoder (which stores ids as `uint32`) delivers the image to
`id mod 2^32`, and the Spec's clean-run check rejects it -/
theorem clean_run_spec_big_id (g : Img) (id : Nat) (hid : 2 ^ 32 ≤ id) (hid2 : id ≤ maxInt) (hr : InRange g)
    (h : g.data ≠ []) (all : List Bytes) (w : Weave (chunkLines g (dec id)) all) :
    Spec.Gfx.checkClean (sentOf g) [id] all
      (delivsOf (Batch.run Batch.step all).1.store (Batch.run Batch.step all).2) ≠ none := by
  have hf1 : ∀ o, Unrelated o → Spec.Gfx.parseLine ((fun x => x) o) = none :=
    fun o h => parseLine_none_of_parseLine? o h.1
  have hcl := chunkLines_snoc g (dec id) h
  obtain ⟨pre, post, hall, wpre, hpost⟩ := weave_split_last _ _ w _ _ hcl
  obtain ⟨G1, c1, hg1, hl1, hr1⟩ := spec_groups g id hr.ty h (fun x => x) hf1 (fun _ _ => rfl) all w _ pre post _
    hcl hall hpost
  rw [List.map_id'] at hg1
  have hb := batch_delivs_woven g (dec id) (validIds_dec id) hr h _ pre post _ hcl wpre hpost
  rw [← hall] at hb
  rw [hb]
  have hcr : Spec.Gfx.cleanRuns (sentOf g) [id] all = true := by
    unfold Spec.Gfx.cleanRuns
    simp only [hg1, sent_data_nonempty g h, Bool.false_eq_true, if_false]
    simp [hr1]
  have hne : (id % 2 ^ 32 == id) = false := by
    have : id % 2 ^ 32 < 2 ^ 32 := Nat.mod_lt _ (by decide)
    simp only [beq_eq_false_iff_ne, ne_eq]; omega
  have hsame : Spec.Gfx.sameImage (sentOf g) id (specImg (intExplode (dec id)) (received g)) = false := by
    rw [intExplode_dec_mod id hid2]
    simp only [Spec.Gfx.sameImage, specImg]
    have : ([id % 2 ^ 32] == [id]) = false := by simpa using hne
    rw [this]; rfl
  unfold Spec.Gfx.checkClean
  rw [hcr, hg1]
  simp only [Bool.not_true, Bool.false_eq_true, if_false, List.zip_cons_cons, List.zip_nil_right]
  unfold Spec.Gfx.cleanLoop
  simp [hsame]

/-! ### the history's domain condition in both readings -/

theorem inDomain_eq (lines : List Bytes) :
    Spec.Gfx.inDomain lines = Spec.Gfx.inDomainOn (lines.map Spec.Gfx.parseLine) := by
  unfold Spec.Gfx.inDomain Spec.Gfx.inDomainOn
  rw [List.all_map]
  congr 1

theorem map_readLine (lines : List Bytes) : lines.map readLine = lines.map Spec.Gfx.parseLine := by
  congr 1
  funext l
  exact (parseLine_eq_readLine l).symm

theorem map_readTrimmed (lines : List Bytes) :
    lines.map readTrimmed = (lines.map Bytes.trimSpace).map Spec.Gfx.parseLine := by
  rw [List.map_map]
  congr 1
  funext l
  exact (parseLine_eq_readLine _).symm

end RawPanelVerif.Gfx
