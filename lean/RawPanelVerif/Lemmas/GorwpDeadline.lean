import RawPanelVerif.Model.Gorwp
/-!
Helper lemmas for C19 (c): the timed LTS of the gorwp reader's read deadlines (`Model/Gorwp.lean`, `rstep`): one
inversion lemma per label and the two inductive invariants
* `hdrInv`  — with the header reset in place (`DlCfg.hdrClear`) no deadline is armed while the reader waits for a header / line;
* `payInv`  — while the reader waits for a payload the deadline is the one armed when the header was complete.
-/
namespace RawPanelVerif.GorwpDeadline
open RawPanelVerif.Gorwp

variable {cfg : DlCfg} {ascii : Bool} {s s' : RdSt} {now : Nat}

theorem rstep_hdr (h : rstep cfg ascii s (.hdr now) = some s') :
    ascii = false ∧ s.phase = .header ∧ s.clock ≤ now ∧ notExpired s.rd now = true
      ∧ s' = { s with phase := .payload, rd := cfg.binPayload.apply now s.rd, clock := now, lastHdr := now } := by
  simp only [rstep] at h
  split at h
  · rename_i hg
    exact ⟨hg.1, hg.2.1, hg.2.2.1, hg.2.2.2, (Option.some.inj h).symm⟩
  · cases h

theorem rstep_body (h : rstep cfg ascii s (.body now) = some s') :
    ascii = false ∧ s.phase = .payload ∧ s.clock ≤ now ∧ notExpired s.rd now = true
      ∧ s' = { s with phase := .header, rd := cfg.binLoopTop.apply now s.rd, clock := now, forwarded := s.forwarded + 1 } := by
  simp only [rstep] at h
  split at h
  · rename_i hg
    exact ⟨hg.1, hg.2.1, hg.2.2.1, hg.2.2.2, (Option.some.inj h).symm⟩
  · cases h

theorem rstep_line (h : rstep cfg ascii s (.line now) = some s') :
    ascii = true ∧ s.phase = .header ∧ s.clock ≤ now ∧ notExpired s.rd now = true
      ∧ s' = { s with rd := cfg.ascLoopTop.apply now s.rd, clock := now, lastHdr := now, forwarded := s.forwarded + 1 } := by
  simp only [rstep] at h
  split at h
  · rename_i hg
    exact ⟨hg.1, hg.2.1, hg.2.2.1, hg.2.2.2, (Option.some.inj h).symm⟩
  · cases h

theorem rstep_expire (h : rstep cfg ascii s (.expire now) = some s') :
    ∃ d, s.rd = some d ∧ s.phase ≠ .stopped ∧ s.clock ≤ now ∧ d ≤ now ∧ s' = { s with phase := .stopped, clock := now } := by
  simp only [rstep] at h
  split at h
  · rename_i d hd
    split at h
    · rename_i hg
      exact ⟨d, hd, hg.1, hg.2.1, hg.2.2, (Option.some.inj h).symm⟩
    · cases h
  · cases h

/-! ## no deadline while waiting for a header -/

def hdrInv (s : RdSt) : Prop := s.phase = .header → s.rd = none

theorem hdrInv_start (hc : cfg.hdrClear ascii = true) (tp t0 : Nat) : hdrInv (RdSt.start cfg ascii tp t0) := by
  intro _
  unfold DlCfg.hdrClear at hc
  cases ascii with
  | true =>
    simp only [if_true, Bool.or_eq_true, Bool.and_eq_true, decide_eq_true_eq] at hc
    rcases hc with h | ⟨h1, h2⟩
    · simp [RdSt.start, h, DlOp.apply]
    · simp [RdSt.start, h1, h2, DlOp.apply]
  | false =>
    simp only [Bool.false_eq_true, if_false, decide_eq_true_eq] at hc
    simp [RdSt.start, hc, DlOp.apply]

theorem hdrInv_step (hc : cfg.hdrClear ascii = true) {l : RdLbl} (hi : hdrInv s) (hs : rstep cfg ascii s l = some s') :
    hdrInv s' := by
  intro hp
  cases l with
  | hdr now => obtain ⟨_, _, _, _, rfl⟩ := rstep_hdr hs; cases hp
  | body now =>
    obtain ⟨ha, _, _, _, rfl⟩ := rstep_body hs
    subst ha
    simp only [DlCfg.hdrClear, Bool.false_eq_true, if_false, decide_eq_true_eq] at hc
    simp [hc, DlOp.apply]
  | line now =>
    obtain ⟨ha, hph, _, _, rfl⟩ := rstep_line hs
    subst ha
    simp only [DlCfg.hdrClear, if_true, Bool.or_eq_true, Bool.and_eq_true, decide_eq_true_eq] at hc
    rcases hc with h | ⟨h1, _⟩
    · simp [h, DlOp.apply]
    · simp [h1, DlOp.apply, hi hph]
  | expire now => obtain ⟨_, _, _, _, _, rfl⟩ := rstep_expire hs; cases hp

theorem hdrInv_reachable (hc : cfg.hdrClear ascii = true) (h : RdReach cfg ascii s) : hdrInv s := by
  induction h with
  | start tp t0 _ => exact hdrInv_start hc tp t0
  | step l _ hs ih => exact hdrInv_step hc ih hs

/-! ## the payload deadline is the one armed at the header -/

def payInv (T : Nat) (s : RdSt) : Prop := s.phase = .payload → s.rd = some (s.lastHdr + T)

theorem payInv_start (T tp t0 : Nat) : payInv T (RdSt.start cfg ascii tp t0) := by
  intro hp
  cases ascii <;> simp [RdSt.start] at hp

theorem payInv_step {T : Nat} (hpay : cfg.binPayload = .arm T) {l : RdLbl} (_hi : payInv T s)
    (hs : rstep cfg ascii s l = some s') : payInv T s' := by
  intro hp
  cases l with
  | hdr now => obtain ⟨_, _, _, _, rfl⟩ := rstep_hdr hs; simp [hpay, DlOp.apply]
  | body now => obtain ⟨_, _, _, _, rfl⟩ := rstep_body hs; cases hp
  | line now => obtain ⟨_, hph, _, _, rfl⟩ := rstep_line hs; simp at hp; rw [hph] at hp; cases hp
  | expire now => obtain ⟨_, _, _, _, _, rfl⟩ := rstep_expire hs; cases hp

theorem payInv_reachable {T : Nat} (hpay : cfg.binPayload = .arm T) (h : RdReach cfg ascii s) : payInv T s := by
  induction h with
  | start tp t0 _ => exact payInv_start T tp t0
  | step l _ hs ih => exact payInv_step hpay ih hs

/-! ## without the loop-top reset: a deadline that is armed while waiting for a header is the last frame's -/

/-- binary, the loop-top reset missing (`binLoopTop = .skip`) but the deadline cleared before the loop: whatever deadline is
armed (in either phase) was armed when the last header was complete -/
def staleInv (T : Nat) (s : RdSt) : Prop := ∀ d, s.rd = some d → d = s.lastHdr + T

theorem staleInv_start (T : Nat) (hb : cfg.binBeforeLoop = .clear) (ht : cfg.binLoopTop = .skip) (tp t0 : Nat) :
    staleInv T (RdSt.start cfg false tp t0) := by
  intro d hd
  simp [RdSt.start, hb, ht, DlOp.apply] at hd

theorem staleInv_step {T : Nat} (hpay : cfg.binPayload = .arm T) (ht : cfg.binLoopTop = .skip) {l : RdLbl}
    (hi : staleInv T s) (hs : rstep cfg false s l = some s') : staleInv T s' := by
  intro d hd
  cases l with
  | hdr now => obtain ⟨_, _, _, _, rfl⟩ := rstep_hdr hs; simp [hpay, DlOp.apply] at hd; simp; omega
  | body now => obtain ⟨_, _, _, _, rfl⟩ := rstep_body hs; simp [ht, DlOp.apply] at hd; exact hi d hd
  | line now => obtain ⟨ha, _⟩ := rstep_line hs; cases ha
  | expire now => obtain ⟨_, _, _, _, _, rfl⟩ := rstep_expire hs; exact hi d hd

theorem staleInv_reachable {T : Nat} (hpay : cfg.binPayload = .arm T) (hb : cfg.binBeforeLoop = .clear)
    (ht : cfg.binLoopTop = .skip) (h : RdReach cfg false s) : staleInv T s := by
  induction h with
  | start tp t0 _ => exact staleInv_start T hb ht tp t0
  | step l _ hs ih => exact staleInv_step hpay ht ih hs

end RawPanelVerif.GorwpDeadline
