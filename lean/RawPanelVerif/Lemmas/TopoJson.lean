import RawPanelVerif.Lemmas.TopoMap
/-! C14 helper lemmas: the tag-table-driven JSON tree encoder / decoder round trip. -/
namespace RawPanelVerif.Topo
open RawPanelVerif

/-! ## decimal literals -/

theorem digitVal_of_isDigit (c : Char) (h : c.isDigit = true) :
    digitVal c.toNat.toUInt8 = some (c.toNat - '0'.toNat) := by
  simp only [Char.isDigit, Bool.and_eq_true, decide_eq_true_eq] at h
  obtain ⟨h1, h2⟩ := h
  have h1' : 48 ≤ c.toNat := h1
  have h2' : c.toNat ≤ 57 := h2
  have e : c.toNat.toUInt8.toNat = c.toNat := by
    simp only [Nat.toUInt8, UInt8.toNat_ofNat']; omega
  have l1 : (48 : UInt8) ≤ c.toNat.toUInt8 := by rw [UInt8.le_iff_toNat_le, e]; exact h1'
  have l2 : c.toNat.toUInt8 ≤ (57 : UInt8) := by rw [UInt8.le_iff_toNat_le, e]; exact h2'
  simp only [digitVal, l1, l2, and_self, if_true, e]
  rfl

theorem parseNatAux_digits (l : List Char) (acc : Nat) (h : ∀ c ∈ l, c.isDigit = true) :
    parseNatAux (l.map (fun c => c.toNat.toUInt8)) acc = some (Nat.ofDigitChars 10 l acc) := by
  induction l generalizing acc with
  | nil => rfl
  | cons c r ih =>
    simp only [List.map_cons, parseNatAux, digitVal_of_isDigit c (h c List.mem_cons_self)]
    rw [ih _ (fun d hd => h d (List.mem_cons_of_mem _ hd))]
    simp only [Nat.ofDigitChars, List.foldl_cons]
    rw [Nat.mul_comm]

theorem natLit_ne_nil (n : Nat) : natLit n ≠ [] := by
  unfold natLit
  intro h
  exact Nat.toDigits_ne_nil (List.map_eq_nil_iff.1 h)

theorem parseNat_natLit (n : Nat) : parseNat (natLit n) = some n := by
  unfold parseNat
  have hne : (natLit n).isEmpty = false := by
    cases h : natLit n with
    | nil => exact absurd h (natLit_ne_nil n)
    | cons a r => rfl
  simp only [hne, Bool.false_eq_true, if_false]
  unfold natLit
  rw [parseNatAux_digits _ _ (fun c hc => Nat.isDigit_of_mem_toDigits (by decide) (by decide) hc)]
  rw [Nat.ofDigitChars_toDigits (by decide) (by decide)]

/-- the first byte of a decimal literal is a digit, in particular not `-` -/
theorem natLit_head (n : Nat) : ∃ a r, natLit n = a :: r ∧ a ≠ 45 := by
  cases h : Nat.toDigits 10 n with
  | nil => exact absurd h Nat.toDigits_ne_nil
  | cons c r =>
    refine ⟨c.toNat.toUInt8, r.map (fun c => c.toNat.toUInt8), by simp [natLit, h], ?_⟩
    have hd : c.isDigit = true := Nat.isDigit_of_mem_toDigits (b := 10) (n := n) (by decide) (by decide) (by rw [h]; exact List.mem_cons_self)
    have := digitVal_of_isDigit c hd
    intro he
    rw [he] at this
    simp [digitVal] at this

theorem parseInt_intLit (n : Int) : parseInt (intLit n) = some n := by
  unfold intLit
  by_cases h : n < 0
  · simp only [h, if_true, parseInt, parseNat_natLit]
    simp only [Option.bind_eq_bind, Option.bind_some, Option.pure_def, Option.map_some, Option.some.injEq]
    omega
  · simp only [h, if_false]
    obtain ⟨a, r, e, ha⟩ := natLit_head n.toNat
    have hp := parseNat_natLit n.toNat
    rw [e] at hp ⊢
    unfold parseInt
    split
    · rename_i heq
      simp only [List.cons.injEq] at heq
      exact absurd heq.1 ha
    · simp only [hp]
      simp only [Option.bind_eq_bind, Option.bind_some, Option.pure_def, Option.map_some, Option.some.injEq]
      omega

/-! ## the struct encoder, field by field -/

theorem jget_nil (k : Str) : jget (encodeFields []) k = none := rfl

theorem jget_hit (t : Tag) (v : FV) (r : List (Tag × FV)) (hs : t.skip = false) :
    jget (encodeFields ((t, v) :: r)) t.key
      = if (t.omitEmpty && v.isEmpty) = true then jget (encodeFields r) t.key else some v.enc := by
  simp only [encodeFields, hs, Bool.false_eq_true, if_false]
  split
  · rfl
  · simp [jget, List.lookup]

theorem jget_miss (t t' : Tag) (v : FV) (r : List (Tag × FV)) (hs : t'.skip = false) (h : t.key ≠ t'.key) :
    jget (encodeFields ((t', v) :: r)) t.key = jget (encodeFields r) t.key := by
  simp only [encodeFields, hs, Bool.false_eq_true, if_false]
  split
  · rfl
  · have : (t.key == t'.key) = false := by simp [h]
    simp [jget, List.lookup, this]

theorem decStr_rt (o : Bool) (x : Str) :
    decStr (if (o && (FV.str x).isEmpty) = true then none else some (FV.str x).enc) = some x := by
  cases o <;> cases x <;> simp [FV.isEmpty, FV.enc, decStr]

theorem decInt_rt (o : Bool) (n : Int) :
    decInt (if (o && (FV.int n).isEmpty) = true then none else some (FV.int n).enc) = some n := by
  by_cases h : n = 0
  · subst h; cases o <;> simp [FV.isEmpty, FV.enc, decInt, parseInt_intLit]
  · have : (n == 0) = false := by simp [h]
    simp [FV.isEmpty, FV.enc, decInt, parseInt_intLit, this]

theorem decNat_rt (o : Bool) (n : Nat) :
    decNat (if (o && (FV.uint n).isEmpty) = true then none else some (FV.uint n).enc) = some n := by
  by_cases h : n = 0
  · subst h; cases o <;> simp [FV.isEmpty, FV.enc, decNat, parseNat_natLit]
  · have : (n == 0) = false := by simp [h]
    simp [FV.isEmpty, FV.enc, decNat, parseNat_natLit, this]

theorem decF32_rt (o : Bool) (x : Str) :
    decF32 (if (o && (FV.f32 x).isEmpty) = true then none else some (FV.f32 x).enc) = some x := by
  by_cases h : x = [48]
  · subst h; cases o <;> simp [FV.isEmpty, FV.enc, decF32]
  · have : (x == [48]) = false := by simp [h]
    simp [FV.isEmpty, FV.enc, decF32, this]

theorem mapM_map_rt {α β : Type} (f : α → β) (g : β → Option α) (h : ∀ a, g (f a) = some a) (l : List α) :
    (l.map f).mapM g = some l := by
  induction l with
  | nil => rfl
  | cons a r ih => simp [List.mapM_cons, h, ih]

/-- pointer field: the pointee's encoding is an object (never `null`) -/
theorem decPtr_rt {α : Type} (o : Bool) (enc : α → JVal) (dec : JVal → Option α) (x : Option α)
    (hrt : ∀ a, dec (enc a) = some a) (hobj : ∀ a, enc a ≠ .null) :
    decPtr dec (if (o && (FV.ptr (x.map enc)).isEmpty) = true then none else some (FV.ptr (x.map enc)).enc) = some x := by
  cases x with
  | none => cases o <;> simp [FV.isEmpty, FV.enc, decPtr]
  | some a =>
    simp only [Option.map_some, FV.isEmpty, Option.isNone_some, Bool.and_false, Bool.false_eq_true, if_false, FV.enc]
    cases he : enc a with
    | null => exact absurd he (hobj a)
    | bool b => simp only [decPtr, ← he, hrt, Option.map_some]
    | num l => simp only [decPtr, ← he, hrt, Option.map_some]
    | str s => simp only [decPtr, ← he, hrt, Option.map_some]
    | arr l => simp only [decPtr, ← he, hrt, Option.map_some]
    | obj kvs => simp only [decPtr, ← he, hrt, Option.map_some]

theorem decSlice_rt {α : Type} (o isNil : Bool) (enc : α → JVal) (dec : JVal → Option α) (l : List α)
    (hrt : ∀ a, dec (enc a) = some a) :
    decSlice dec (if (o && (FV.slice isNil (l.map enc)).isEmpty) = true then none
        else some (FV.slice isNil (l.map enc)).enc) = some (l.isEmpty && (o || isNil), l) := by
  cases l with
  | nil =>
    cases o <;> cases isNil <;> simp [FV.isEmpty, FV.enc, decSlice]
  | cons a r =>
    simp only [FV.isEmpty, List.map_cons, List.isEmpty_cons, Bool.and_false, Bool.false_eq_true, if_false, FV.enc,
      Bool.false_and]
    simp only [decSlice, ← List.map_cons, mapM_map_rt enc dec hrt, Option.map_some]

/-! The facts about the regenerated tag table the round trip needs — no data field is skipped (`json:"-"`), the
keys of one struct are pairwise distinct — are discharged by `decide` on `Gen.topologyTags` where they are used
(side conditions of `jget_hit` / `jget_miss`), so the proofs follow any renaming of keys that keeps them distinct
and any change of `omitempty`. -/

/-! ## struct round trips -/

theorem subEl_rt (s : SubEl) : subElOfJ (subElToJ s) = some s := by
  unfold subElToJ subElOfJ
  simp (disch := decide) only [jget_hit, jget_miss, jget_nil, decStr_rt, decInt_rt]
  rfl

theorem disp_rt (d : Disp) : dispOfJ (dispToJ d) = some d := by
  unfold dispToJ dispOfJ
  simp (disch := decide) only [jget_hit, jget_miss, jget_nil, decStr_rt, decInt_rt]
  rfl

theorem disp_obj (d : Disp) : dispToJ d ≠ .null := by unfold dispToJ; exact fun h => by cases h

theorem typeDef_rt (td : TypeDef) : typeDefOfJ (typeDefToJ td) = some td := by
  unfold typeDefToJ typeDefOfJ
  have hd := fun o x => decPtr_rt o dispToJ dispOfJ x disp_rt disp_obj
  have hs := fun o n l => decSlice_rt o n subElToJ subElOfJ l subEl_rt
  simp (disch := decide) only [jget_hit, jget_miss, jget_nil, decStr_rt, decInt_rt, decF32_rt, hd, hs]
  rfl

theorem typeDef_obj (td : TypeDef) : typeDefToJ td ≠ .null := by unfold typeDefToJ; exact fun h => by cases h

theorem hwc_rt (c : HWc) : hwcOfJ (hwcToJ c) = some c := by
  unfold hwcToJ hwcOfJ
  have ho := fun o x => decPtr_rt o typeDefToJ typeDefOfJ x typeDef_rt typeDef_obj
  simp (disch := decide) only [jget_hit, jget_miss, jget_nil, decStr_rt, decInt_rt, decNat_rt, ho]
  rfl

/-! ## the type index: object with keys sorted as strings  →  map -/

theorem lexInsert_perm (e : Nat × TypeDef) (l : List (Nat × TypeDef)) : (lexInsert e l).Perm (e :: l) := by
  induction l with
  | nil => exact List.Perm.refl _
  | cons f r ih =>
    simp only [lexInsert]
    split
    · exact List.Perm.refl _
    · exact (List.Perm.cons f ih).trans (List.Perm.swap e f r)

theorem lexSort_perm (l : List (Nat × TypeDef)) : (lexSort l).Perm l := by
  induction l with
  | nil => exact List.Perm.refl _
  | cons e r ih => exact (lexInsert_perm e (lexSort r)).trans (List.Perm.cons e ih)

def insertAll (acc : Map TypeDef) (es : List (Nat × TypeDef)) : Map TypeDef :=
  es.foldl (fun a e => Map.insert a e.1 e.2) acc

theorem mapOfJ_enc (es : List (Nat × TypeDef)) (acc : Map TypeDef) :
    mapOfJ (es.map (fun e => (natLit e.1, typeDefToJ e.2))) acc = some (insertAll acc es) := by
  induction es generalizing acc with
  | nil => rfl
  | cons e r ih =>
    simp only [List.map_cons, mapOfJ, parseNat_natLit, typeDef_rt, Option.bind_eq_bind, Option.bind_some, ih]
    rfl

theorem insertAll_sorted (es : List (Nat × TypeDef)) (acc : Map TypeDef) (h : Map.Sorted acc) :
    Map.Sorted (insertAll acc es) := by
  induction es generalizing acc with
  | nil => exact h
  | cons e r ih => exact ih _ (Map.insert_sorted _ _ _ h)

theorem insertAll_lookup_notin (es : List (Nat × TypeDef)) (acc : Map TypeDef) (q : Nat) (h : q ∉ es.map (·.1)) :
    Map.lookup (insertAll acc es) q = Map.lookup acc q := by
  induction es generalizing acc with
  | nil => rfl
  | cons e r ih =>
    simp only [List.map_cons, List.mem_cons, not_or] at h
    simp only [insertAll, List.foldl_cons]
    have := ih (Map.insert acc e.1 e.2) h.2
    simp only [insertAll] at this
    rw [this, Map.lookup_insert_ne _ _ _ _ h.1]

theorem insertAll_lookup_mem (es : List (Nat × TypeDef)) (acc : Map TypeDef) (hnd : (es.map (·.1)).Nodup)
    (k : Nat) (v : TypeDef) (h : (k, v) ∈ es) : Map.lookup (insertAll acc es) k = some v := by
  induction es generalizing acc with
  | nil => cases h
  | cons e r ih =>
    simp only [List.map_cons, List.nodup_cons] at hnd
    simp only [insertAll, List.foldl_cons]
    simp only [List.mem_cons] at h
    rcases h with h | h
    · subst h
      have := insertAll_lookup_notin r (Map.insert acc k v) k hnd.1
      simp only [insertAll] at this
      rw [this, Map.lookup_insert_self]
    · have := ih (Map.insert acc e.1 e.2) hnd.2 h
      simpa only [insertAll] using this

theorem insertAll_perm (m es : Map TypeDef) (hs : Map.Sorted m) (hp : es.Perm m) : insertAll [] es = m := by
  apply Map.ext _ _ (insertAll_sorted es [] (by simp [Map.Sorted, Map.keys])) hs
  intro q
  have hpm : (es.map (·.1)).Perm (Map.keys m) := hp.map (·.1)
  have hnd : (es.map (·.1)).Nodup := (hpm.nodup_iff).2 (Map.sorted_nodup m hs)
  cases hl : Map.lookup m q with
  | none =>
    have hq : q ∉ es.map (·.1) := by
      intro hm
      have : q ∈ Map.keys m := (hpm.mem_iff).1 hm
      exact ((Map.lookup_none_iff m q).1 hl) this
    rw [insertAll_lookup_notin es [] q hq]
    rfl
  | some v =>
    have hmem : (q, v) ∈ es := (hp.mem_iff).2 (Map.mem_of_lookup m q v hl)
    exact insertAll_lookup_mem es [] hnd q v hmem

/-- well-formed model topology: index keys strictly ascending (a map), nil flags only on empty collections -/
def WF (t : Topology) : Prop :=
  Map.Sorted t.ti ∧ (t.hwcNil = true → t.hwc = []) ∧ (t.tiNil = true → t.ti = [])

theorem decMap_rt (o isNil : Bool) (m : Map TypeDef) (hs : Map.Sorted m) (hn : isNil = true → m = []) :
    decMap (if (o && (FV.map isNil (typeIndexToJ m)).isEmpty) = true then none
      else some (FV.map isNil (typeIndexToJ m)).enc) = some (m.isEmpty && (o || isNil), m) := by
  cases m with
  | nil => cases o <;> cases isNil <;> simp [typeIndexToJ, lexSort, decMap, mapOfJ, FV.isEmpty, FV.enc]
  | cons e r =>
    have hnil : isNil = false := by
      cases isNil with
      | false => rfl
      | true => exact absurd (hn rfl) (by simp)
    have hne : (typeIndexToJ (e :: r)).isEmpty = false := by
      have hp := (lexSort_perm (e :: r)).length_eq
      cases hl : lexSort (e :: r) with
      | nil => rw [hl] at hp; simp at hp
      | cons a b => simp [typeIndexToJ, hl]
    simp only [FV.isEmpty, hne, Bool.and_false, Bool.false_eq_true, if_false, FV.enc, hnil, Bool.false_and,
      List.isEmpty_cons]
    cases hj : typeIndexToJ (e :: r) with
    | nil => rw [hj] at hne; simp at hne
    | cons a b =>
      rw [← hj]
      simp only [decMap, typeIndexToJ, mapOfJ_enc, insertAll_perm (e :: r) (lexSort (e :: r)) hs (lexSort_perm _),
        Option.map_some]

theorem topology_rt (t : Topology) (h : WF t) : fromJSON (toJSON t) = some t := by
  obtain ⟨hs, hh, ht⟩ := h
  unfold toJSON fromJSON
  have hw := fun o n l => decSlice_rt o n hwcToJ hwcOfJ l hwc_rt
  have hm := fun o => decMap_rt o t.tiNil t.ti hs ht
  simp (disch := decide) only [jget_hit, jget_miss, jget_nil, decStr_rt, hw, hm]
  simp only [Option.bind_eq_bind, Option.bind_some, Option.pure_def]
  -- the two `nil` flags: HWc and TypeIndex are not `omitempty` in the current table (checked here)
  have o1 : (tag "Topology" "HWc").omitEmpty = false := by decide
  have o2 : (tag "Topology" "TypeIndex").omitEmpty = false := by decide
  simp only [o1, o2, Bool.false_or]
  congr 1
  obtain ⟨title, hwc, hwcNil, ti, tiNil⟩ := t
  simp only [Topology.mk.injEq, true_and, and_true]
  constructor
  · cases hwc with
    | nil => simp
    | cons a r => cases hwcNil with
      | false => simp
      | true => exact absurd (hh rfl) (by simp)
  · cases ti with
    | nil => simp
    | cons a r => cases tiNil with
      | false => simp
      | true => exact absurd (ht rfl) (by simp)

end RawPanelVerif.Topo
