import RawPanelVerif.Lemmas.TopoMap
/-! C14 helper lemmas: the tag-table-driven JSON tree encoder / decoder round trip. -/
namespace RawPanelVerif.Topo
open RawPanelVerif

/-! ## decimal literals -/

theorem digitVal_of_isDigit (c : Char) (h : c.isDigit = true) :
    digitVal c.toNat.toUInt8 = some (c.toNat - '0'.toNat) := by
  simp only [Char.isDigit, Bool.and_eq_true, decide_eq_true_eq] at h
  obtain ⟨h1, h2⟩ := h
  have h1' : 48 ≤ c.toNat := h1
  have h2' : c.toNat ≤ 57 := h2
  have e : c.toNat.toUInt8.toNat = c.toNat := by
    simp only [Nat.toUInt8, UInt8.toNat_ofNat']; omega
  have l1 : (48 : UInt8) ≤ c.toNat.toUInt8 := by rw [UInt8.le_iff_toNat_le, e]; exact h1'
  have l2 : c.toNat.toUInt8 ≤ (57 : UInt8) := by rw [UInt8.le_iff_toNat_le, e]; exact h2'
  simp only [digitVal, l1, l2, and_self, if_true, e]
  rfl

theorem parseNatAux_digits (l : List Char) (acc : Nat) (h : ∀ c ∈ l, c.isDigit = true) :
    parseNatAux (l.map (fun c => c.toNat.toUInt8)) acc = some (Nat.ofDigitChars 10 l acc) := by
  induction l generalizing acc with
  | nil => rfl
  | cons c r ih =>
    simp only [List.map_cons, parseNatAux, digitVal_of_isDigit c (h c List.mem_cons_self)]
    rw [ih _ (fun d hd => h d (List.mem_cons_of_mem _ hd))]
    simp only [Nat.ofDigitChars, List.foldl_cons]
    rw [Nat.mul_comm]

theorem natLit_ne_nil (n : Nat) : natLit n ≠ [] := by
  unfold natLit
  intro h
  exact Nat.toDigits_ne_nil (List.map_eq_nil_iff.1 h)

theorem parseNat_natLit (n : Nat) : parseNat (natLit n) = some n := by
  unfold parseNat
  have hne : (natLit n).isEmpty = false := by
    cases h : natLit n with
    | nil => exact absurd h (natLit_ne_nil n)
    | cons a r => rfl
  simp only [hne, Bool.false_eq_true, if_false]
  unfold natLit
  rw [parseNatAux_digits _ _ (fun c hc => Nat.isDigit_of_mem_toDigits (by decide) (by decide) hc)]
  rw [Nat.ofDigitChars_toDigits (by decide) (by decide)]

/-- the first byte of a decimal literal is a digit, in particular not `-` -/
theorem natLit_head (n : Nat) : ∃ a r, natLit n = a :: r ∧ a ≠ 45 := by
  cases h : Nat.toDigits 10 n with
  | nil => exact absurd h Nat.toDigits_ne_nil
  | cons c r =>
    refine ⟨c.toNat.toUInt8, r.map (fun c => c.toNat.toUInt8), by simp [natLit, h], ?_⟩
    have hd : c.isDigit = true := Nat.isDigit_of_mem_toDigits (b := 10) (n := n) (by decide) (by decide) (by rw [h]; exact List.mem_cons_self)
    have := digitVal_of_isDigit c hd
    intro he
    rw [he] at this
    simp [digitVal] at this

theorem parseInt_intLit (n : Int) : parseInt (intLit n) = some n := by
  unfold intLit
  by_cases h : n < 0
  · simp only [h, if_true, parseInt, parseNat_natLit]
    simp only [Option.bind_eq_bind, Option.bind_some, Option.pure_def, Option.map_some, Option.some.injEq]
    omega
  · simp only [h, if_false]
    obtain ⟨a, r, e, ha⟩ := natLit_head n.toNat
    have hp := parseNat_natLit n.toNat
    rw [e] at hp ⊢
    unfold parseInt
    split
    · rename_i heq
      simp only [List.cons.injEq] at heq
      exact absurd heq.1 ha
    · simp only [hp]
      simp only [Option.bind_eq_bind, Option.bind_some, Option.pure_def, Option.map_some, Option.some.injEq]
      omega

/-! ## the struct encoder, field by field -/

theorem jget_nil (k : Str) : jget (encodeFields []) k = none := rfl

theorem jget_hit (t : Tag) (v : FV) (r : List (Tag × FV)) (hs : t.skip = false) :
    jget (encodeFields ((t, v) :: r)) t.key
      = if (t.omitEmpty && v.isEmpty) = true then jget (encodeFields r) t.key else some v.enc := by
  simp only [encodeFields, hs, Bool.false_eq_true, if_false]
  split
  · rfl
  · simp [jget, List.lookup]

theorem jget_miss (t t' : Tag) (v : FV) (r : List (Tag × FV)) (hs : t'.skip = false) (h : t.key ≠ t'.key) :
    jget (encodeFields ((t', v) :: r)) t.key = jget (encodeFields r) t.key := by
  simp only [encodeFields, hs, Bool.false_eq_true, if_false]
  split
  · rfl
  · have : (t.key == t'.key) = false := by simp [h]
    simp [jget, List.lookup, this]

theorem decStr_rt (o : Bool) (x : Str) :
    decStr (if (o && (FV.str x).isEmpty) = true then none else some (FV.str x).enc) = some x := by
  cases o <;> cases x <;> simp [FV.isEmpty, FV.enc, decStr]

theorem decInt_rt (o : Bool) (n : Int) :
    decInt (if (o && (FV.int n).isEmpty) = true then none else some (FV.int n).enc) = some n := by
  by_cases h : n = 0
  · subst h; cases o <;> simp [FV.isEmpty, FV.enc, decInt, parseInt_intLit]
  · have : (n == 0) = false := by simp [h]
    simp [FV.isEmpty, FV.enc, decInt, parseInt_intLit, this]

theorem decNat_rt (o : Bool) (n : Nat) :
    decNat (if (o && (FV.uint n).isEmpty) = true then none else some (FV.uint n).enc) = some n := by
  by_cases h : n = 0
  · subst h; cases o <;> simp [FV.isEmpty, FV.enc, decNat, parseNat_natLit]
  · have : (n == 0) = false := by simp [h]
    simp [FV.isEmpty, FV.enc, decNat, parseNat_natLit, this]

/-- a zero of either sign is omitted under `omitempty` and read back as `0`; without `omitempty` the literal survives -/
theorem decF32_rt (o : Bool) (x : Str) :
    decF32 (if (o && (FV.f32 x).isEmpty) = true then none else some (FV.f32 x).enc)
      = some (if o = true then rotNorm x else x) := by
  by_cases h : rotIsZero x = true
  · cases o <;> simp [FV.isEmpty, FV.enc, decF32, rotNorm, h]
  · cases o <;> simp [FV.isEmpty, FV.enc, decF32, rotNorm, h]

theorem mapM_map_rt {α β : Type} (f : α → β) (g : β → Option α) (n : α → α) (h : ∀ a, g (f a) = some (n a))
    (l : List α) : (l.map f).mapM g = some (l.map n) := by
  induction l with
  | nil => rfl
  | cons a r ih => simp [List.mapM_cons, h, ih]

/-- pointer field: the pointee's encoding is an object (never `null`) -/
theorem decPtr_rt {α : Type} (o : Bool) (enc : α → JVal) (dec : JVal → Option α) (n : α → α) (x : Option α)
    (hrt : ∀ a, dec (enc a) = some (n a)) (hobj : ∀ a, enc a ≠ .null) :
    decPtr dec (if (o && (FV.ptr (x.map enc)).isEmpty) = true then none else some (FV.ptr (x.map enc)).enc)
      = some (x.map n) := by
  cases x with
  | none => cases o <;> simp [FV.isEmpty, FV.enc, decPtr]
  | some a =>
    simp only [Option.map_some, FV.isEmpty, Option.isNone_some, Bool.and_false, Bool.false_eq_true, if_false, FV.enc]
    cases he : enc a with
    | null => exact absurd he (hobj a)
    | bool b => simp only [decPtr, ← he, hrt, Option.map_some]
    | num l => simp only [decPtr, ← he, hrt, Option.map_some]
    | str s => simp only [decPtr, ← he, hrt, Option.map_some]
    | arr l => simp only [decPtr, ← he, hrt, Option.map_some]
    | obj kvs => simp only [decPtr, ← he, hrt, Option.map_some]

theorem decSlice_rt {α : Type} (o isNil : Bool) (enc : α → JVal) (dec : JVal → Option α) (n : α → α) (l : List α)
    (hrt : ∀ a, dec (enc a) = some (n a)) :
    decSlice dec (if (o && (FV.slice isNil (l.map enc)).isEmpty) = true then none
        else some (FV.slice isNil (l.map enc)).enc) = some (l.isEmpty && (o || isNil), l.map n) := by
  cases l with
  | nil =>
    cases o <;> cases isNil <;> simp [FV.isEmpty, FV.enc, decSlice]
  | cons a r =>
    simp only [FV.isEmpty, List.map_cons, List.isEmpty_cons, Bool.and_false, Bool.false_eq_true, if_false, FV.enc,
      Bool.false_and]
    simp only [decSlice, ← List.map_cons, mapM_map_rt enc dec n hrt, Option.map_some]

/-! The facts about the regenerated tag table the round trip needs — no data field is skipped (`json:"-"`), the
keys of one struct are pairwise distinct — are discharged by `decide` on `Gen.topologyTags` where they are used
(side conditions of `jget_hit` / `jget_miss`), so the proofs follow any renaming of keys that keeps them distinct
and any change of `omitempty`. -/

/-! ## struct round trips -/

theorem subEl_rt (s : SubEl) : subElOfJ (subElToJ s) = some s := by
  unfold subElToJ subElOfJ
  simp (disch := decide) only [jget_hit, jget_miss, jget_nil, decStr_rt, decInt_rt]
  rfl

theorem disp_rt (d : Disp) : dispOfJ (dispToJ d) = some d := by
  unfold dispToJ dispOfJ
  simp (disch := decide) only [jget_hit, jget_miss, jget_nil, decStr_rt, decInt_rt]
  rfl

theorem disp_obj (d : Disp) : dispToJ d ≠ .null := by unfold dispToJ; exact fun h => by cases h

theorem typeDef_rt (td : TypeDef) : typeDefOfJ (typeDefToJ td) = some td.norm := by
  unfold typeDefToJ typeDefOfJ
  have hd := fun o x => decPtr_rt o dispToJ dispOfJ id x disp_rt disp_obj
  have hs := fun o n l => decSlice_rt o n subElToJ subElOfJ id l subEl_rt
  -- the rotation is `omitempty` in the current table (checked here): both zeros are read back as `0`
  have hr : (tag "TopologyHWcTypeDef" "Rotate").omitEmpty = true := by decide
  simp (disch := decide) only [jget_hit, jget_miss, jget_nil, decStr_rt, decInt_rt, decF32_rt, hd, hs, hr, if_true,
    Option.map_id_fun, id, List.map_id_fun]
  rfl

theorem typeDef_obj (td : TypeDef) : typeDefToJ td ≠ .null := by unfold typeDefToJ; exact fun h => by cases h

theorem hwc_rt (c : HWc) : hwcOfJ (hwcToJ c) = some c.norm := by
  unfold hwcToJ hwcOfJ
  have ho := fun o x => decPtr_rt o typeDefToJ typeDefOfJ TypeDef.norm x typeDef_rt typeDef_obj
  simp (disch := decide) only [jget_hit, jget_miss, jget_nil, decStr_rt, decInt_rt, decNat_rt, ho]
  rfl

/-! ## the type index: object with keys sorted as strings  →  map -/

theorem lexInsert_perm (e : Nat × TypeDef) (l : List (Nat × TypeDef)) : (lexInsert e l).Perm (e :: l) := by
  induction l with
  | nil => exact List.Perm.refl _
  | cons f r ih =>
    simp only [lexInsert]
    split
    · exact List.Perm.refl _
    · exact (List.Perm.cons f ih).trans (List.Perm.swap e f r)

theorem lexSort_perm (l : List (Nat × TypeDef)) : (lexSort l).Perm l := by
  induction l with
  | nil => exact List.Perm.refl _
  | cons e r ih => exact (lexInsert_perm e (lexSort r)).trans (List.Perm.cons e ih)

def insertAll (acc : Map TypeDef) (es : List (Nat × TypeDef)) : Map TypeDef :=
  es.foldl (fun a e => Map.insert a e.1 e.2) acc

def normE (e : Nat × TypeDef) : Nat × TypeDef := (e.1, e.2.norm)

theorem mapOfJ_enc (es : List (Nat × TypeDef)) (acc : Map TypeDef) :
    mapOfJ (es.map (fun e => (natLit e.1, typeDefToJ e.2))) acc = some (insertAll acc (es.map normE)) := by
  induction es generalizing acc with
  | nil => rfl
  | cons e r ih =>
    simp only [List.map_cons, mapOfJ, parseNat_natLit, typeDef_rt, Option.bind_eq_bind, Option.bind_some, ih]
    rfl

theorem keys_map_normE (m : Map TypeDef) : Map.keys (m.map normE) = Map.keys m := by
  simp [Map.keys, List.map_map, Function.comp_def, normE]

theorem sorted_map_normE (m : Map TypeDef) (hs : Map.Sorted m) : Map.Sorted (m.map normE) := by
  unfold Map.Sorted; rw [keys_map_normE]; exact hs

theorem insertAll_sorted (es : List (Nat × TypeDef)) (acc : Map TypeDef) (h : Map.Sorted acc) :
    Map.Sorted (insertAll acc es) := by
  induction es generalizing acc with
  | nil => exact h
  | cons e r ih => exact ih _ (Map.insert_sorted _ _ _ h)

theorem insertAll_lookup_notin (es : List (Nat × TypeDef)) (acc : Map TypeDef) (q : Nat) (h : q ∉ es.map (·.1)) :
    Map.lookup (insertAll acc es) q = Map.lookup acc q := by
  induction es generalizing acc with
  | nil => rfl
  | cons e r ih =>
    simp only [List.map_cons, List.mem_cons, not_or] at h
    simp only [insertAll, List.foldl_cons]
    have := ih (Map.insert acc e.1 e.2) h.2
    simp only [insertAll] at this
    rw [this, Map.lookup_insert_ne _ _ _ _ h.1]

theorem insertAll_lookup_mem (es : List (Nat × TypeDef)) (acc : Map TypeDef) (hnd : (es.map (·.1)).Nodup)
    (k : Nat) (v : TypeDef) (h : (k, v) ∈ es) : Map.lookup (insertAll acc es) k = some v := by
  induction es generalizing acc with
  | nil => cases h
  | cons e r ih =>
    simp only [List.map_cons, List.nodup_cons] at hnd
    simp only [insertAll, List.foldl_cons]
    simp only [List.mem_cons] at h
    rcases h with h | h
    · subst h
      have := insertAll_lookup_notin r (Map.insert acc k v) k hnd.1
      simp only [insertAll] at this
      rw [this, Map.lookup_insert_self]
    · have := ih (Map.insert acc e.1 e.2) hnd.2 h
      simpa only [insertAll] using this

theorem insertAll_perm (m es : Map TypeDef) (hs : Map.Sorted m) (hp : es.Perm m) : insertAll [] es = m := by
  apply Map.ext _ _ (insertAll_sorted es [] (by simp [Map.Sorted, Map.keys])) hs
  intro q
  have hpm : (es.map (·.1)).Perm (Map.keys m) := hp.map (·.1)
  have hnd : (es.map (·.1)).Nodup := (hpm.nodup_iff).2 (Map.sorted_nodup m hs)
  cases hl : Map.lookup m q with
  | none =>
    have hq : q ∉ es.map (·.1) := by
      intro hm
      have : q ∈ Map.keys m := (hpm.mem_iff).1 hm
      exact ((Map.lookup_none_iff m q).1 hl) this
    rw [insertAll_lookup_notin es [] q hq]
    rfl
  | some v =>
    have hmem : (q, v) ∈ es := (hp.mem_iff).2 (Map.mem_of_lookup m q v hl)
    exact insertAll_lookup_mem es [] hnd q v hmem

/-- well-formed model topology: index keys strictly ascending (a map), nil flags only on empty collections -/
def WF (t : Topology) : Prop :=
  Map.Sorted t.ti ∧ (t.hwcNil = true → t.hwc = []) ∧ (t.tiNil = true → t.ti = [])

theorem decMap_rt (o isNil : Bool) (m : Map TypeDef) (hs : Map.Sorted m) (hn : isNil = true → m = []) :
    decMap (if (o && (FV.map isNil (typeIndexToJ m)).isEmpty) = true then none
      else some (FV.map isNil (typeIndexToJ m)).enc) = some (m.isEmpty && (o || isNil), m.map normE) := by
  cases m with
  | nil => cases o <;> cases isNil <;> simp [typeIndexToJ, lexSort, decMap, mapOfJ, FV.isEmpty, FV.enc]
  | cons e r =>
    have hnil : isNil = false := by
      cases isNil with
      | false => rfl
      | true => exact absurd (hn rfl) (by simp)
    have hne : (typeIndexToJ (e :: r)).isEmpty = false := by
      have hp := (lexSort_perm (e :: r)).length_eq
      cases hl : lexSort (e :: r) with
      | nil => rw [hl] at hp; simp at hp
      | cons a b => simp [typeIndexToJ, hl]
    simp only [FV.isEmpty, hne, Bool.and_false, Bool.false_eq_true, if_false, FV.enc, hnil, Bool.false_and,
      List.isEmpty_cons]
    cases hj : typeIndexToJ (e :: r) with
    | nil => rw [hj] at hne; simp at hne
    | cons a b =>
      rw [← hj]
      simp only [decMap, typeIndexToJ, mapOfJ_enc,
        insertAll_perm ((e :: r).map normE) ((lexSort (e :: r)).map normE) (sorted_map_normE _ hs)
          ((lexSort_perm _).map normE), Option.map_some]

theorem topology_rt (t : Topology) (h : WF t) : fromJSON (toJSON t) = some t.norm := by
  obtain ⟨hs, hh, ht⟩ := h
  unfold toJSON fromJSON
  have hw := fun o n l => decSlice_rt o n hwcToJ hwcOfJ HWc.norm l hwc_rt
  have hm := fun o => decMap_rt o t.tiNil t.ti hs ht
  simp (disch := decide) only [jget_hit, jget_miss, jget_nil, decStr_rt, hw, hm]
  simp only [Option.bind_eq_bind, Option.bind_some, Option.pure_def]
  -- the two `nil` flags: HWc and TypeIndex are not `omitempty` in the current table (checked here)
  have o1 : (tag "Topology" "HWc").omitEmpty = false := by decide
  have o2 : (tag "Topology" "TypeIndex").omitEmpty = false := by decide
  simp only [o1, o2, Bool.false_or]
  congr 1
  obtain ⟨title, hwc, hwcNil, ti, tiNil⟩ := t
  simp only [Topology.norm, Topology.mk.injEq, true_and]
  refine ⟨?_, rfl, ?_⟩
  · cases hwc with
    | nil => simp
    | cons a r => cases hwcNil with
      | false => simp
      | true => exact absurd (hh rfl) (by simp)
  · cases ti with
    | nil => simp
    | cons a r => cases tiNil with
      | false => simp
      | true => exact absurd (ht rfl) (by simp)

/-! ## normal form: what survives one round trip; serialisation does not see it -/

theorem rotNorm_idem (x : Str) : rotNorm (rotNorm x) = rotNorm x := by
  unfold rotNorm
  by_cases h : rotIsZero x = true
  · simp only [h, if_true]; rfl
  · simp only [h, Bool.false_eq_true, if_false]

theorem typeDefToJ_norm (td : TypeDef) : typeDefToJ td.norm = typeDefToJ td := by
  have hr : (tag "TopologyHWcTypeDef" "Rotate").omitEmpty = true := by decide
  have hk : (tag "TopologyHWcTypeDef" "Rotate").skip = false := by decide
  unfold typeDefToJ TypeDef.norm rotNorm
  by_cases h : rotIsZero td.rotate = true
  · have h0 : rotIsZero [48] = true := by decide
    simp only [h, if_true, encodeFields, hr, hk, FV.isEmpty, h0, Bool.and_self, Bool.false_eq_true, if_false]
  · simp only [h, Bool.false_eq_true, if_false]

theorem hwcToJ_norm (c : HWc) : hwcToJ c.norm = hwcToJ c := by
  unfold hwcToJ HWc.norm
  simp only [Option.map_map, Function.comp_def, typeDefToJ_norm]

theorem lexInsert_normE (e : Nat × TypeDef) (l : List (Nat × TypeDef)) :
    lexInsert (normE e) (l.map normE) = (lexInsert e l).map normE := by
  induction l with
  | nil => rfl
  | cons f r ih =>
    simp only [List.map_cons, lexInsert]
    have : (normE e).1 = e.1 ∧ (normE f).1 = f.1 := ⟨rfl, rfl⟩
    rw [this.1, this.2]
    split
    · rfl
    · simp only [List.map_cons, ih]

theorem lexSort_normE (l : List (Nat × TypeDef)) : lexSort (l.map normE) = (lexSort l).map normE := by
  induction l with
  | nil => rfl
  | cons e r ih => simp only [List.map_cons, lexSort, ih, lexInsert_normE]

/-- serialisation is blind to the normal form: `toJSON t.norm = toJSON t` -/
theorem toJSON_norm (t : Topology) : toJSON t.norm = toJSON t := by
  unfold toJSON Topology.norm
  have h1 : (t.hwc.map HWc.norm).map hwcToJ = t.hwc.map hwcToJ := by
    simp only [List.map_map, Function.comp_def, hwcToJ_norm]
  have h2 : typeIndexToJ (t.ti.map (fun e => (e.1, e.2.norm))) = typeIndexToJ t.ti := by
    have : (fun e : Nat × TypeDef => (e.1, e.2.norm)) = normE := rfl
    rw [this]
    unfold typeIndexToJ
    rw [lexSort_normE]
    simp only [List.map_map, Function.comp_def, normE, typeDefToJ_norm]
  simp only [h1, h2]

theorem norm_norm (t : Topology) : t.norm.norm = t.norm := by
  have htd : ∀ td : TypeDef, td.norm.norm = td.norm := by
    intro td; simp only [TypeDef.norm, rotNorm_idem]
  have hc : ∀ c : HWc, c.norm.norm = c.norm := by
    intro c; cases c with
    | mk id x y txt type ov p q => cases ov <;> simp [HWc.norm, htd]
  simp only [Topology.norm, List.map_map, Function.comp_def, hc, htd]

theorem norm_wf (t : Topology) (h : WF t) : WF t.norm := by
  obtain ⟨hs, hh, ht⟩ := h
  refine ⟨?_, ?_, ?_⟩
  · exact sorted_map_normE t.ti hs
  · intro hn; simp only [Topology.norm] at hn ⊢; rw [hh hn]; rfl
  · intro hn; simp only [Topology.norm] at hn ⊢; rw [ht hn]; rfl

/-! ## whatever the decoder accepts is well formed -/

theorem mapOfJ_sorted (kvs : List (Str × JVal)) (m m' : Map TypeDef) (hs : Map.Sorted m)
    (h : mapOfJ kvs m = some m') : Map.Sorted m' := by
  induction kvs generalizing m with
  | nil => simp only [mapOfJ, Option.some.injEq] at h; subst h; exact hs
  | cons kv r ih =>
    obtain ⟨k, v⟩ := kv
    simp only [mapOfJ, Option.bind_eq_bind] at h
    cases hn : parseNat k with
    | none => simp [hn] at h
    | some n =>
      cases ht : typeDefOfJ v with
      | none => simp [hn, ht] at h
      | some td =>
        simp only [hn, ht, Option.bind_some] at h
        exact ih _ (Map.insert_sorted _ _ _ hs) h

theorem decMap_wf (x : Option JVal) (isNil : Bool) (m : Map TypeDef) (h : decMap x = some (isNil, m)) :
    Map.Sorted m ∧ (isNil = true → m = []) := by
  have h0 : Map.Sorted ([] : Map TypeDef) := by simp [Map.Sorted, Map.keys]
  unfold decMap at h
  split at h
  · simp only [Option.some.injEq, Prod.mk.injEq] at h; obtain ⟨_, rfl⟩ := h; exact ⟨h0, fun _ => rfl⟩
  · simp only [Option.some.injEq, Prod.mk.injEq] at h; obtain ⟨_, rfl⟩ := h; exact ⟨h0, fun _ => rfl⟩
  · rename_i kvs
    cases hm : mapOfJ kvs [] with
    | none => simp [hm] at h
    | some m0 =>
      simp only [hm, Option.map_some, Option.some.injEq, Prod.mk.injEq] at h
      obtain ⟨rfl, rfl⟩ := h
      exact ⟨mapOfJ_sorted kvs [] m0 h0 hm, fun hf => by cases hf⟩
  · cases h

theorem decSlice_nil {α : Type} (f : JVal → Option α) (x : Option JVal) (isNil : Bool) (l : List α)
    (h : decSlice f x = some (isNil, l)) : isNil = true → l = [] := by
  unfold decSlice at h
  split at h
  · simp only [Option.some.injEq, Prod.mk.injEq] at h; obtain ⟨_, rfl⟩ := h; exact fun _ => rfl
  · simp only [Option.some.injEq, Prod.mk.injEq] at h; obtain ⟨_, rfl⟩ := h; exact fun _ => rfl
  · rename_i js
    cases hm : js.mapM f with
    | none => simp [hm] at h
    | some l0 =>
      simp only [hm, Option.map_some, Option.some.injEq, Prod.mk.injEq] at h
      obtain ⟨rfl, _⟩ := h
      exact fun hf => by cases hf
  · cases h

/-- every topology the decoder returns — for any JSON tree, not only the encoder's — is well formed:
the type index is a finite map (each `m[key] = value` keeps it one) and a nil flag only sits on an empty collection -/
theorem fromJSON_WF (j : JVal) (t : Topology) (h : fromJSON j = some t) : WF t := by
  unfold fromJSON at h
  split at h
  · rename_i kvs
    simp only [Option.bind_eq_bind] at h
    cases h1 : decStr (jget kvs (tag "Topology" "Title").key) with
    | none => simp [h1] at h
    | some title =>
      cases h2 : decSlice hwcOfJ (jget kvs (tag "Topology" "HWc").key) with
      | none => simp [h1, h2] at h
      | some hw =>
        cases h3 : decMap (jget kvs (tag "Topology" "TypeIndex").key) with
        | none => simp [h1, h2, h3] at h
        | some ti =>
          simp only [h1, h2, h3, Option.bind_some, Option.pure_def, Option.some.injEq] at h
          subst h
          obtain ⟨a, b⟩ := decMap_wf _ ti.1 ti.2 h3
          exact ⟨a, decSlice_nil _ _ hw.1 hw.2 h2, b⟩
  · cases h

end RawPanelVerif.Topo
