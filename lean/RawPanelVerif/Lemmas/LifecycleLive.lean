import RawPanelVerif.Lemmas.LifecycleRank
import RawPanelVerif.Lemmas.LifecycleInvT
import RawPanelVerif.Lemmas.LifecycleInvW
/-! Liveness-style facts of the lifecycle LTS: bounded undisturbed runs, progress after cancellation, after a
panel loss and after the return; the count of connections against the count of losses. -/
namespace RawPanelVerif.Lifecycle

/-- every label of the run is helpful or neutral in the state in which it is taken -/
def undisturbed (ae : Bool) : St → List Lbl → Bool
  | _, [] => true
  | s, l :: ls => (helpful s l || neutral s l) && ((step ae s l).map (fun s' => undisturbed ae s' ls)).getD true

/-- number of helpful steps of a run -/
def helpfulCount (ae : Bool) : St → List Lbl → Nat
  | _, [] => 0
  | s, l :: ls => (if helpful s l then 1 else 0) + ((step ae s l).map (fun s' => helpfulCount ae s' ls)).getD 0

theorem undisturbed_run_bounded (ae : Bool) : ∀ (ls : List Lbl) (s s' : St), Reachable ae s → 0 < s.nc →
    run ae s ls = some s' → undisturbed ae s ls = true → helpfulCount ae s ls + crank s' ≤ crank s
  | [], s, s', _, _, hr, _ => by simp [run] at hr; subst hr; simp [helpfulCount]
  | l :: ls, s, s', hR, hnc, hr, hu => by
    simp only [run] at hr
    cases hst : step ae s l with
    | none => simp [hst] at hr
    | some s1 =>
      simp [hst] at hr
      simp only [undisturbed, hst, Option.map_some, Option.getD_some, Bool.and_eq_true, Bool.or_eq_true] at hu
      have hk := step_keeps_cfg hst
      have h1 := crank_step ae s s1 l (invC_reachable hR) hnc hst
      have h2 := undisturbed_run_bounded ae ls s1 s' (Reachable.step l hR hst) (by rw [hk.2]; exact hnc) hr hu.2
      simp only [helpfulCount, hst, Option.map_some, Option.getD_some]
      by_cases hh : helpful s l = true
      · have := h1.1 hh; simp [hh]; omega
      · have hn : neutral s l = true := by rcases hu.1 with h | h; exact absurd h hh; exact h
        have := h1.2 hn; simp [hh]; omega

theorem program_helpful (s : St) (l : Lbl) (h : l.isProgram = true) : helpful s l = true := by
  cases l <;> simp [Lbl.isProgram, Lbl.isEnv] at h <;> rfl

/-- after cancellation, as long as the call has not returned, a helpful step is enabled: a program step, or the
environment step the client is waiting for (dial result, time passing during the retry sleep, the consumer
receiving, the kernel taking the bytes of a write) -/
theorem cancelled_helpful_enabled (ae : Bool) (s : St) (ha : InvA s) (hc : InvC s) (hcan : s.cancelled = true)
    (hph : s.phase ≠ .returned) : ∃ l, helpful s l = true ∧ (step ae s l).isSome = true := by
  rcases cancelled_progress ae s ha hc hcan hph with ⟨l, hl, he⟩ | hw
  · exact ⟨l, program_helpful s l hl, he⟩
  · cases hw with
    | dial hp => exact ⟨.dialFail, rfl, by simp [step, hp]⟩
    | sleep hp hlt => exact ⟨.tick 1, by simp [helpful, hp, hlt], by simp [step]⟩
    | consumer c rest hp hcs hh hco => exact ⟨.consumerResume, by simp [helpful, hco], by simp [step]⟩
    | write c rest hp hcs hh hw hcl hpc => exact ⟨.writeDone 0, rfl, by simp [step, hcs, hw, hcl]⟩

/-- the head connection is up and not lost -/
def liveConn (s : St) : Prop :=
  s.phase = .connected ∧ ∃ c rest, s.conns = c :: rest ∧ c.peerClosed = false ∧ c.fault = false ∧ c.closed = false

/-- without cancellation: unless the client is connected on a live connection (or has returned, or is in the
no-connection wait because the panel is not back), a helpful step other than a failing dial is enabled -/
theorem reconnect_helpful_enabled (ae : Bool) (s : St) (ha : InvA s) (hc : InvC s)
    (h1 : s.phase ≠ .returned) (h2 : s.phase ≠ .noConnWait) (h3 : ¬ liveConn s) :
    ∃ l, l ≠ .dialFail ∧ helpful s l = true ∧ (step ae s l).isSome = true := by
  cases hp : s.phase with
  | returned => exact absurd hp h1
  | noConnWait => exact absurd hp h2
  | dialing => exact ⟨.dialOk true, by simp, rfl, by simp [step, hp]⟩
  | retrySleep =>
    by_cases hw : s.wake ≤ s.now
    · exact ⟨.sleepDone, by simp, rfl, by simp [step, hp, hw]⟩
    · exact ⟨.tick 1, by simp, by simp [helpful, hp]; omega, by simp [step]⟩
  | exiting => exact ⟨.ret, by simp, rfl, by simp [step, hp]⟩
  | announcing => exact ⟨.onConnect, by simp, rfl, by simp [step, hp]⟩
  | probing =>
    have hne := ha.nonempty (Or.inl hp)
    cases hcs : s.conns with
    | nil => exact absurd hcs hne
    | cons c rest => exact ⟨.spawnWriter, by simp, rfl, by simp [step, hp, hcs]⟩
  | teardown t =>
    have hne := ha.nonempty (Or.inr (Or.inr (by simp [hp, Phase.live])))
    cases hcs : s.conns with
    | nil => exact absurd hcs hne
    | cons c rest =>
      cases t with
      | quit => exact ⟨.closeQuit, by simp, rfl, by simp [step, hp, hcs]⟩
      | close => exact ⟨.connClose, by simp, rfl, by simp [step, hp, hcs]⟩
      | callback => exact ⟨.onDisconnect c.exit, by simp, rfl, by simp [step, hp, hcs]⟩
  | connected =>
    have hne := ha.nonempty (Or.inr (Or.inr (by simp [hp, Phase.live])))
    cases hcs : s.conns with
    | nil => exact absurd hcs hne
    | cons c rest =>
      have g := hc 0 c (by simp [hcs])
      rw [hp] at g
      have hnf : c.fault = false := by
        cases hf : c.fault with
        | false => rfl
        | true => have := g.faultLate hf; simp [Phase.reading] at this
      cases hh : c.held with
      | true =>
        cases hco : s.consumer with
        | true => exact ⟨.deliver, by simp, rfl, by simp [step, hp, hcs, hh, hco]⟩
        | false => exact ⟨.consumerResume, by simp, by simp [helpful, hco], by simp [step]⟩
      | false =>
        cases hcl : c.closed with
        | true => exact ⟨.readErr, by simp, rfl, by simp [step, hp, hcs, hh, hcl]⟩
        | false =>
          cases hpc : c.peerClosed with
          | false => exact absurd ⟨hp, c, rest, hcs, hpc, hnf, hcl⟩ h3
          | true =>
            have hle := g.delLe
            simp [hh] at hle
            by_cases hd : c.delivered = c.arrived
            · exact ⟨.readErr, by simp, rfl, by simp [step, hp, hcs, hh, hpc, hd]⟩
            · exact ⟨.takeFrame, by simp, rfl, by simp [step, hp, hcs, hh, hcl]; omega⟩

/-- connected on a connection the client has not closed: a frame that has completely arrived and is not yet
delivered is being delivered (the reader takes it, or hands it over when the consumer receives) -/
theorem delivery_resumes (ae : Bool) (s : St) (c : Conn) (rest : List Conn) (hp : s.phase = .connected)
    (hcs : s.conns = c :: rest) (hcl : c.closed = false) (hlt : c.delivered < c.arrived) :
    (step ae s .takeFrame).isSome = true ∨ (c.held = true ∧ (s.consumer = true → (step ae s .deliver).isSome = true)) := by
  cases hh : c.held with
  | false => exact Or.inl (by simp [step, hp, hcs, hh, hcl, hlt])
  | true => exact Or.inr ⟨rfl, fun hco => by simp [step, hp, hcs, hh, hco]⟩

/-- once returned, always returned -/
theorem returned_stays {ae s s' l} (hs : step ae s l = some s') (hr : s.phase = .returned) : s'.phase = .returned := by
  cases l with
  | cancel => have := step_cancel hs; subst this; exact hr
  | offer => have := step_offer hs; subst this; exact hr
  | consumerStop => have := step_consumerStop hs; subst this; exact hr
  | consumerResume => have := step_consumerResume hs; subst this; exact hr
  | tick d => have := step_tick hs; subst this; exact hr
  | dialFail => obtain ⟨hp, _⟩ := step_dialFail hs; simp [hr] at hp
  | noConnTimer => obtain ⟨hp, _⟩ := step_noConnTimer hs; simp [hr] at hp
  | noConnDrain => obtain ⟨hp, _⟩ := step_noConnDrain hs; simp [hr] at hp
  | peerClose => obtain ⟨c, rest, _, _, rfl⟩ := step_peerClose hs; exact hr
  | byteArrive fin => obtain ⟨c, rest, _, hp, _, _⟩ := step_byteArrive hs; simp [hr] at hp
  | takeFrame => obtain ⟨c, rest, _, hp, _⟩ := step_takeFrame hs; simp [hr] at hp
  | spawnWriter => obtain ⟨c, rest, _, hp, _⟩ := step_spawnWriter hs; simp [hr] at hp
  | readErr => obtain ⟨c, rest, _, hp, _⟩ := step_readErr hs; simp [hr] at hp
  | readFault => obtain ⟨c, rest, _, hp, _⟩ := step_readFault hs; simp [hr] at hp
  | closeQuit => obtain ⟨c, rest, _, hp, _⟩ := step_closeQuit hs; simp [hr] at hp
  | connClose => obtain ⟨c, rest, _, hp, _⟩ := step_connClose hs; simp [hr] at hp
  | writerStart i => obtain ⟨c, _, _, rfl⟩ := step_writerStart hs; exact hr
  | writerSeesCancel i => obtain ⟨c, _, _, _, rfl⟩ := step_writerSeesCancel hs; exact hr
  | writerSeesQuit i => obtain ⟨c, _, _, _, rfl⟩ := step_writerSeesQuit hs; exact hr
  | writerTake i => obtain ⟨c, _, _, _, rfl⟩ := step_writerTake hs; exact hr
  | writeDone i => obtain ⟨c, _, _, _, rfl⟩ := step_writeDone hs; exact hr
  | writeErr i => obtain ⟨c, _, _, _, rfl⟩ := step_writeErr hs; exact hr
  | onConnect => obtain ⟨hp, _⟩ := step_onConnect hs; simp [hr] at hp
  | deliver => obtain ⟨c, rest, _, hp, _⟩ := step_deliver hs; simp [hr] at hp
  | sleepDone => obtain ⟨hp, _⟩ := step_sleepDone hs; simp [hr] at hp
  | ret => obtain ⟨hp, _⟩ := step_ret hs; rcases hp with hp | ⟨hp, _⟩ <;> simp [hr] at hp
  | dialOk bin => obtain ⟨hp, _⟩ := step_dialOk hs; simp [hr] at hp
  | onDisconnect b => obtain ⟨c, rest, _, hp, _⟩ := step_onDisconnect hs; simp [hr] at hp

theorem returned_run (ae : Bool) : ∀ (ls : List Lbl) (s s' : St), run ae s ls = some s' → s.phase = .returned → s'.phase = .returned
  | [], s, s', h, hr => by simp [run] at h; subst h; exact hr
  | l :: ls, s, s', h, hr => by
    simp only [run] at h
    cases hst : step ae s l with
    | none => simp [hst] at h
    | some s1 => simp [hst] at h; exact returned_run ae ls s1 s' h (returned_stays hst hr)

/-- cancellation is permanent -/
theorem cancelled_stays {ae s s' l} (hs : step ae s l = some s') (hr : s.cancelled = true) : s'.cancelled = true := by
  cases l with
  | cancel => have := step_cancel hs; subst this; rfl
  | offer => have := step_offer hs; subst this; exact hr
  | consumerStop => have := step_consumerStop hs; subst this; exact hr
  | consumerResume => have := step_consumerResume hs; subst this; exact hr
  | tick d => have := step_tick hs; subst this; exact hr
  | dialFail => obtain ⟨_, rfl⟩ := step_dialFail hs; exact hr
  | noConnTimer => obtain ⟨_, _, rfl⟩ := step_noConnTimer hs; exact hr
  | noConnDrain => obtain ⟨_, _, rfl⟩ := step_noConnDrain hs; exact hr
  | peerClose => obtain ⟨c, rest, _, _, rfl⟩ := step_peerClose hs; exact hr
  | byteArrive fin => obtain ⟨c, rest, _, _, _, rfl⟩ := step_byteArrive hs; exact hr
  | takeFrame => obtain ⟨c, rest, _, _, _, _, _, rfl⟩ := step_takeFrame hs; exact hr
  | spawnWriter => obtain ⟨c, rest, _, _, rfl⟩ := step_spawnWriter hs; exact hr
  | readErr => obtain ⟨c, rest, _, _, _, _, rfl⟩ := step_readErr hs; exact hr
  | readFault => obtain ⟨c, rest, _, _, _, _, _, _, _, rfl⟩ := step_readFault hs; exact hr
  | closeQuit => obtain ⟨c, rest, _, _, rfl⟩ := step_closeQuit hs; exact hr
  | connClose => obtain ⟨c, rest, _, _, rfl⟩ := step_connClose hs; exact hr
  | writerStart i => obtain ⟨c, _, _, rfl⟩ := step_writerStart hs; exact hr
  | writerSeesCancel i => obtain ⟨c, _, _, _, rfl⟩ := step_writerSeesCancel hs; exact hr
  | writerSeesQuit i => obtain ⟨c, _, _, _, rfl⟩ := step_writerSeesQuit hs; exact hr
  | writerTake i => obtain ⟨c, _, _, _, rfl⟩ := step_writerTake hs; exact hr
  | writeDone i => obtain ⟨c, _, _, _, rfl⟩ := step_writeDone hs; exact hr
  | writeErr i => obtain ⟨c, _, _, _, rfl⟩ := step_writeErr hs; exact hr
  | onConnect => obtain ⟨_, rfl⟩ := step_onConnect hs; exact hr
  | deliver => obtain ⟨c, rest, _, _, _, _, rfl⟩ := step_deliver hs; exact hr
  | sleepDone => obtain ⟨_, _, rfl⟩ := step_sleepDone hs; exact hr
  | ret => obtain ⟨_, rfl⟩ := step_ret hs; exact hr
  | dialOk bin => obtain ⟨_, rfl⟩ := step_dialOk hs; exact hr
  | onDisconnect b => obtain ⟨c, rest, _, _, _, rfl⟩ := step_onDisconnect hs; exact hr

theorem cancelled_run (ae : Bool) : ∀ (ls : List Lbl) (s s' : St), run ae s ls = some s' → s.cancelled = true → s'.cancelled = true
  | [], s, s', h, hr => by simp [run] at h; subst h; exact hr
  | l :: ls, s, s', h, hr => by
    simp only [run] at h
    cases hst : step ae s l with
    | none => simp [hst] at h
    | some s1 => simp [hst] at h; exact cancelled_run ae ls s1 s' h (cancelled_stays hst hr)

/-- after the return a writer goroutine that has not finished can always take a program step of its own -/
theorem writer_can_move_after_return (ae : Bool) (s : St) (hC : InvC s) (hr : s.phase = .returned)
    (i : Nat) (c : Conn) (hc : s.conns[i]? = some c) (hw : c.w ≠ .exited) :
    ∃ l, l.isProgram = true ∧ (step ae s l).isSome = true := by
  have g := hC i c hc
  have hd := g.done (Or.inr (by simp [hr, Phase.serving]))
  cases hcw : c.w with
  | unborn => have := g.unbornIff.mp hcw; simp [hr] at this
  | spawned => exact ⟨.writerStart i, rfl, by simp [step, hc, hcw]⟩
  | running => exact ⟨.writerSeesQuit i, rfl, by simp [step, hc, hcw, hd.2]⟩
  | writing => exact ⟨.writeErr i, rfl, by simp [step, hc, hcw, hd.1]⟩
  | exited => exact absurd hcw hw

theorem pendingW_all_exited (ae : Bool) : ∀ cs : List Conn, (∀ c ∈ cs, c.w = .exited) → pendingW ae cs = 0
  | [], _ => rfl
  | c :: r, h => by
    have h1 := h c (by simp)
    have h2 := pendingW_all_exited ae r (fun d hd => h d (by simp [hd]))
    simp [pendingW, weight, h1, h2]

/-! ### N: connections and connect callbacks -/

def nConnect (log : List Ev) : Nat := log.count .connect

def pendConn : Phase → Nat
  | .probing | .announcing => 1
  | _ => 0

/-- every established connection gets its connect callback: callbacks so far + the one still due = connections -/
def InvN (s : St) : Prop := nConnect s.log + pendConn s.phase = s.conns.length

theorem invN_init (nc rc : Nat) : InvN (initWith nc rc) := by simp [InvN, initWith, nConnect, pendConn]

theorem invN_step (ae : Bool) (s s' : St) (l : Lbl) (hi : InvN s) (hs : step ae s l = some s') : InvN s' := by
  unfold InvN at *
  cases l with
  | cancel => have := step_cancel hs; subst this; exact hi
  | offer => have := step_offer hs; subst this; exact hi
  | consumerStop => have := step_consumerStop hs; subst this; exact hi
  | consumerResume => have := step_consumerResume hs; subst this; exact hi
  | tick d => have := step_tick hs; subst this; exact hi
  | dialFail => obtain ⟨hp, rfl⟩ := step_dialFail hs; simpa [hp, pendConn] using hi
  | noConnTimer => obtain ⟨hp, _, rfl⟩ := step_noConnTimer hs; simpa [hp, pendConn] using hi
  | noConnDrain => obtain ⟨hp, _, rfl⟩ := step_noConnDrain hs; simpa [hp, pendConn] using hi
  | peerClose => obtain ⟨c, rest, hc, _, rfl⟩ := step_peerClose hs; simpa [hc] using hi
  | byteArrive fin => obtain ⟨c, rest, hc, _, _, rfl⟩ := step_byteArrive hs; simpa [hc] using hi
  | takeFrame => obtain ⟨c, rest, hc, _, _, _, _, rfl⟩ := step_takeFrame hs; simpa [hc] using hi
  | spawnWriter => obtain ⟨c, rest, hc, hp, rfl⟩ := step_spawnWriter hs; simpa [hc, hp, pendConn] using hi
  | readErr => obtain ⟨c, rest, hc, hp, _, _, rfl⟩ := step_readErr hs; simpa [hp, pendConn] using hi
  | readFault => obtain ⟨c, rest, hc, hp, _, _, _, _, _, rfl⟩ := step_readFault hs; simpa [hc, hp, pendConn] using hi
  | closeQuit => obtain ⟨c, rest, hc, hp, rfl⟩ := step_closeQuit hs; simpa [hc, hp, pendConn] using hi
  | connClose => obtain ⟨c, rest, hc, hp, rfl⟩ := step_connClose hs; simpa [hc, hp, pendConn] using hi
  | writerStart i => obtain ⟨c, _, _, rfl⟩ := step_writerStart hs; simpa using hi
  | writerSeesCancel i => obtain ⟨c, _, _, _, rfl⟩ := step_writerSeesCancel hs; simpa using hi
  | writerSeesQuit i => obtain ⟨c, _, _, _, rfl⟩ := step_writerSeesQuit hs; simpa using hi
  | writerTake i => obtain ⟨c, _, _, _, rfl⟩ := step_writerTake hs; simpa using hi
  | writeDone i => obtain ⟨c, _, _, _, rfl⟩ := step_writeDone hs; simpa using hi
  | writeErr i => obtain ⟨c, _, _, _, rfl⟩ := step_writeErr hs; simpa using hi
  | onConnect => obtain ⟨hp, rfl⟩ := step_onConnect hs; simp [hp, pendConn, nConnect] at hi ⊢; omega
  | deliver => obtain ⟨c, rest, hc, hp, _, _, rfl⟩ := step_deliver hs; simpa [hc, hp, pendConn, nConnect] using hi
  | sleepDone => obtain ⟨hp, _, rfl⟩ := step_sleepDone hs; simpa [hp, pendConn, nConnect] using hi
  | ret =>
    obtain ⟨hp, rfl⟩ := step_ret hs
    rcases hp with hp | ⟨hp, _⟩ <;> simpa [hp, pendConn, nConnect] using hi
  | dialOk bin => obtain ⟨hp, rfl⟩ := step_dialOk hs; simp [hp, pendConn, nConnect] at hi ⊢; omega
  | onDisconnect b =>
    obtain ⟨c, rest, hc, hp, _, rfl⟩ := step_onDisconnect hs
    cases b <;> simpa [hp, pendConn, nConnect] using hi

theorem invN_reachable {ae : Bool} {s : St} (h : Reachable ae s) : InvN s := by
  induction h with
  | init nc rc => exact invN_init nc rc
  | step l _ hs ih => exact invN_step ae _ _ l ih hs

/-- the connection was lost through the panel (drop) or through the reader's own fault detection -/
def Conn.lostFlag (c : Conn) : Bool := c.peerClosed || c.fault

theorem conns_le_losses (s : St) (hC : InvC s) : s.conns.length ≤ 1 + (s.conns.filter Conn.lostFlag).length := by
  cases hcs : s.conns with
  | nil => simp
  | cons c rest =>
    have hall : ∀ d ∈ rest, d.lostFlag = true := by
      intro d hd
      obtain ⟨j, hj⟩ := List.getElem?_of_mem hd
      have g := hC (j + 1) d (by simp [hcs, hj])
      have := g.lost (Or.inl (Nat.succ_pos j))
      rcases this with h | h <;> simp [Conn.lostFlag, h]
    have : (rest.filter Conn.lostFlag).length = rest.length := by
      rw [List.filter_eq_self.mpr hall]
    simp only [List.filter_cons, List.length_cons]
    split <;> simp <;> omega

end RawPanelVerif.Lifecycle
