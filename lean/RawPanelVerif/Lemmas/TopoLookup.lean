import RawPanelVerif.Model.Topology
import RawPanelVerif.Spec.TopologySpec
/-! Helper lemmas for C13: the model's loops against the Spec's list functions. -/
namespace RawPanelVerif.Topo
open RawPanelVerif

theorem lookup_eq_base (t : Topology) (k : Nat) : Map.lookup t.ti k = Spec.Topo.base t k := by
  unfold Spec.Topo.base
  induction t.ti with
  | nil => rfl
  | cons e r ih =>
    obtain ⟨k', v⟩ := e
    simp only [Map.lookup, List.find?_cons]
    by_cases h : k = k'
    · subst h; simp
    · have : (k' == k) = false := by simp; omega
      simp [h, this, ih]

theorem zeroTD_eq : zeroTD = Spec.Topo.zero := rfl

section steps
variable (o td : TypeDef)
theorem ovW_eq : ovW o td = { td with w := if o.w > 0 then o.w else td.w } := by unfold ovW; split <;> rfl
theorem ovH_eq : ovH o td = { td with h := if o.h > 0 then o.h else td.h } := by unfold ovH; split <;> rfl
theorem ovSubidx_eq : ovSubidx o td = { td with subidx := if o.subidx > 0 then o.subidx else td.subidx } := by unfold ovSubidx; split <;> rfl
theorem ovOut_eq : ovOut o td = { td with out := if o.out ≠ [] then o.out else td.out } := by unfold ovOut; split <;> rfl
theorem ovIn_eq : ovIn o td = { td with inp := if o.inp ≠ [] then o.inp else td.inp } := by unfold ovIn; split <;> rfl
theorem ovExt_eq : ovExt o td = { td with ext := if o.ext ≠ [] then o.ext else td.ext } := by unfold ovExt; split <;> rfl
theorem ovDesc_eq : ovDesc o td = { td with desc := if o.desc ≠ [] then o.desc else td.desc } := by unfold ovDesc; split <;> rfl
theorem ovRender_eq : ovRender o td = { td with render := if o.render ≠ [] then o.render else td.render } := by unfold ovRender; split <;> rfl
theorem ovRotate_eq : ovRotate o td = { td with rotate := if rotIsZero o.rotate then td.rotate else o.rotate } := by unfold ovRotate; split <;> rfl
theorem ovDisp_eq : ovDisp o td = { td with disp := match o.disp with | some d => some d | none => td.disp } := by
  unfold ovDisp; cases o.disp <;> rfl
theorem ovSub_eq : ovSub o td = { td with sub := match o.sub with | [] => td.sub | s => s } := by
  unfold ovSub; cases o.sub <;> rfl
end steps

/-- the eleven conditional assignments of `GetTypeDefWithOverride` are the attribute-wise overlay -/
theorem resolveA_overlay (t : Topology) (c : HWc) :
    getTypeDefWithOverride t c = Spec.Topo.resolved t c := by
  unfold getTypeDefWithOverride Spec.Topo.resolved
  rw [lookup_eq_base, zeroTD_eq]
  generalize (Spec.Topo.base t c.type).getD Spec.Topo.zero = b
  cases c.ov with
  | none => rfl
  | some o =>
    simp only [ovW_eq, ovH_eq, ovSubidx_eq, ovOut_eq, ovIn_eq, ovExt_eq, ovDesc_eq, ovRender_eq, ovRotate_eq,
      ovDisp_eq, ovSub_eq, Spec.Topo.overlay]
    cases o.disp <;> cases o.sub <;> rfl

/-! the id loop -/

theorem findIdx_snd (l : List HWc) (id k : Nat) :
    (findIdx l id k).map (·.2) = l.find? (fun c => c.id == id) := by
  induction l generalizing k with
  | nil => rfl
  | cons c r ih =>
    simp only [findIdx, List.find?_cons]
    by_cases h : c.id = id
    · simp [h]
    · have hb : (c.id == id) = false := by simp [h]
      simp [h, hb, ih]

theorem findIdx_get (l : List HWc) (id k j : Nat) (c : HWc) (h : findIdx l id k = some (j, c)) :
    k ≤ j ∧ l[j - k]? = some c := by
  induction l generalizing k with
  | nil => simp [findIdx] at h
  | cons d r ih =>
    simp only [findIdx] at h
    by_cases hd : d.id = id
    · simp only [hd, if_true, Option.some.injEq, Prod.mk.injEq] at h
      obtain ⟨h1, h2⟩ := h
      subst h1 h2
      simp
    · simp only [hd, if_false] at h
      obtain ⟨h1, h2⟩ := ih (k + 1) h
      refine ⟨by omega, ?_⟩
      have : j - k = (j - (k + 1)) + 1 := by omega
      rw [this, List.getElem?_cons_succ]
      exact h2

theorem findIdx_none (l : List HWc) (id k : Nat) (h : l.find? (fun c => c.id == id) = none) :
    findIdx l id k = none := by
  have := findIdx_snd l id k
  rw [h] at this
  cases hf : findIdx l id k with
  | none => rfl
  | some x => rw [hf] at this; simp at this

theorem findIdx_some (l : List HWc) (id k : Nat) (c : HWc) (h : l.find? (fun c => c.id == id) = some c) :
    ∃ j, findIdx l id k = some (j, c) := by
  have := findIdx_snd l id k
  rw [h] at this
  cases hf : findIdx l id k with
  | none => rw [hf] at this; simp at this
  | some x =>
    rw [hf] at this
    simp only [Option.map_some, Option.some.injEq] at this
    exact ⟨x.1, by rw [← this]⟩

theorem foldl_ids (l : List HWc) (acc : List Nat) :
    l.foldl (fun retval c => retval ++ [c.id]) acc = acc ++ l.map (·.id) := by
  induction l generalizing acc with
  | nil => simp
  | cons c r ih => simp [List.foldl_cons, ih]

theorem foldl_disp (t : Topology) (l : List HWc) (acc : List Nat) :
    l.foldl (fun retval c =>
      let typeDef := getTypeDefWithOverride t c
      if typeDef.disp.isSome then retval ++ [c.id] else retval) acc
    = acc ++ (l.filter (fun c => (Spec.Topo.resolved t c).disp.isSome)).map (·.id) := by
  induction l generalizing acc with
  | nil => simp
  | cons c r ih =>
    simp only [List.foldl_cons, List.filter_cons, resolveA_overlay]
    by_cases h : (Spec.Topo.resolved t c).disp.isSome = true
    · simp only [resolveA_overlay] at ih
      simp [h, ih]
    · simp only [resolveA_overlay] at ih
      simp [h, ih]

/-- the second resolver's nine assignments agree with the full overlay on the shared attributes -/
theorem sharedEq_chain (b o : TypeDef) :
    Spec.Topo.sharedEq
      (b |> ovW o |> ovH o |> ovOut o |> ovIn o |> ovExt o |> ovSubidx o |> ovDisp o |> ovSub o |> ovRotate o)
      (Spec.Topo.overlay b (some o)) = true := by
  simp only [ovW_eq, ovH_eq, ovSubidx_eq, ovOut_eq, ovIn_eq, ovExt_eq, ovRotate_eq, ovDisp_eq, ovSub_eq,
    Spec.Topo.overlay, Spec.Topo.sharedEq]
  cases o.disp <;> cases o.sub <;> simp

theorem sharedEq_refl (a : TypeDef) : Spec.Topo.sharedEq a a = true := by simp [Spec.Topo.sharedEq]

/-- the result token of the second resolver -/
def resB (r : Option TypeDef) : Result := match r with | some td => .typeDef td | none => .panic

theorem checkB_at (t : Topology) (j : Nat) (c : HWc) (h : t.hwc[j]? = some c) :
    Spec.Topo.checkB t (some c) (resB (getHWCTypeDefinition t j)) = none := by
  have hj : j < t.hwc.length := by
    rcases Nat.lt_or_ge j t.hwc.length with h1 | h1
    · exact h1
    · rw [List.getElem?_eq_none h1] at h; cases h
  unfold Spec.Topo.checkB
  cases hb : Spec.Topo.base t c.type with
  | none => simp only [hb]
  | some bt =>
    have h1 : ¬ ((j : Int) ≥ (t.hwc.length : Int)) := by omega
    have h2 : ¬ ((j : Int) < 0) := by omega
    simp only [getHWCTypeDefinition, h1, h2, if_false, Int.toNat_natCast, h, lookup_eq_base, hb]
    cases ho : c.ov with
    | none =>
      simp only [resB, Spec.Topo.resolved, hb, ho, Spec.Topo.overlay, Option.getD_some, sharedEq_refl, Spec.Topo.ok, if_true]
    | some o =>
      simp only [resB, Spec.Topo.resolved, hb, ho, Option.getD_some, sharedEq_chain, Spec.Topo.ok, if_true]
