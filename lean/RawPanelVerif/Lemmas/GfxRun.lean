import RawPanelVerif.Lemmas.GfxBasic
/-! C05: the repaired batch decoder on a run of consecutive chunks (the engine of the clean-run theorems and of the
streaming reader's wrap-up). -/
namespace RawPanelVerif.Gfx
open RawPanelVerif

/-- what the graphics branch computes for a line (`none`: not a graphics line) -/
def parseLine? (l : Bytes) : Option Parsed := (matchGfx l).map parsedOf

theorem step_eq (s : BState) (l : Bytes) :
    Batch.step s l = match parseLine? l with
      | none => (s, some (.other l))
      | some p => Batch.stepP s p := by
  unfold Batch.step parseLine?
  cases matchGfx l <;> rfl

theorem appendAt_last (st : List Img) (i : Img) (bs : Bytes) :
    appendAt (st ++ [i]) st.length bs = st ++ [{ i with data := i.data ++ bs }] := by
  unfold appendAt
  induction st with
  | nil => rfl
  | cons a st ih => simp [List.modify_succ_cons, ih]

/-- lines read as chunks `k, k+1, …` of target `ids`, format `ty`, all with intact payloads `ds` -/
def IsRun (ty : Nat) (ids : Bytes) : Nat → List Bytes → List Bytes → Prop
  | _, [], [] => True
  | k, l :: ls, d :: ds =>
    (∃ p, parseLine? l = some p ∧ p.idx = (k : Int) ∧ p.ty = ty ∧ p.list = ids ∧ p.data = d ∧ p.ok = true ∧
      p.pfx = pfxOf ty) ∧
      IsRun ty ids (k + 1) ls ds
  | _, _, _ => False

/-- the locals while a transfer is open: `k` chunks accepted, image cell last in the heap -/
def openState (st : List Img) (img : Img) (D : Bytes) (k n : Nat) (ids : Bytes) (ty : Nat) : BState :=
  { store := st ++ [{ img with data := D }], cur := st.length, count := (k : Int) - 1, max := (n : Int) - 1,
    list := ids, ty := ty }

/-- the locals right after the wrap-up -/
def doneState (st : List Img) (img : Img) (D : Bytes) (n : Nat) (ty : Nat) : BState :=
  { store := st ++ [{ img with data := D }] ++ [{}], cur := st.length + 1, count := (n : Int) - 1,
    max := (n : Int) - 1, list := [], ty := ty }

theorem run_tail (ty : Nat) (ids : Bytes) (st : List Img) (img : Img) (n : Nat) :
    ∀ (ls ds : List Bytes) (k : Nat) (D : Bytes) (pos : Nat), IsRun ty ids k ls ds → 1 ≤ k → k + ls.length = n →
      Batch.runFrom Batch.step (openState st img D k n ids ty) pos ls =
        if ls = [] then (openState st img D k n ids ty, [])
        else (doneState st img (D ++ ds.flatten) n ty,
          [⟨pos + ls.length - 1, .gfx (intExplode ids) st.length, (doneState st img (D ++ ds.flatten) n ty).store⟩]) := by
  intro ls
  induction ls with
  | nil => intro ds k D pos _ _ _; simp [Batch.runFrom]
  | cons l ls ih =>
    intro ds k D pos hrun hk hn
    cases ds with
    | nil => exact absurd hrun (by simp [IsRun])
    | cons d ds =>
      obtain ⟨⟨p, hp, hidx, hty, hlist, hdata, hok, _⟩, hrest⟩ := hrun
      simp only [List.length_cons] at hn
      have hstep : Batch.step (openState st img D k n ids ty) l =
          if ls = [] then
            (doneState st img (D ++ d) n ty, some (.gfx (intExplode ids) st.length))
          else (openState st img (D ++ d) (k + 1) n ids ty, none) := by
        rw [step_eq, hp]
        simp only [Batch.stepP, openState, hidx, hty, hlist, hok]
        have hk0 : ¬ ((k : Int) = 0) := by omega
        simp only [hk0, if_false, if_true, and_true, Int.sub_add_cancel, true_and]
        rw [appendAt_last, hdata]
        by_cases hls : ls = []
        · subst hls
          simp only [List.length_nil] at hn
          have : (k : Int) = (n : Int) - 1 := by omega
          simp [this, doneState]
        · have hlen : 0 < ls.length := List.length_pos_iff.mpr hls
          have : ¬ ((k : Int) = (n : Int) - 1) := by omega
          simp [this, hls]
      simp only [Batch.runFrom, hstep, List.cons_ne_nil, if_false]
      by_cases hls : ls = []
      · subst hls
        cases ds with
        | nil => simp [Batch.runFrom]
        | cons _ _ => exact absurd hrest (by simp [IsRun])
      · simp only [hls, if_false]
        rw [ih ds (k + 1) (D ++ d) (pos + 1) hrest (by omega) (by omega)]
        simp only [hls, if_false, List.flatten_cons, List.append_assoc, List.length_cons]
        have hlen : 0 < ls.length := List.length_pos_iff.mpr hls
        have : pos + 1 + ls.length - 1 = pos + (ls.length + 1) - 1 := by omega
        rw [this]

end RawPanelVerif.Gfx

namespace RawPanelVerif.Gfx

/-- a whole transfer — chunk 0 declaring `ls.length` further chunks, then exactly those — from *any* state of the
locals: one message, at the last line, carrying the concatenated payloads; afterwards the transfer is closed and
the delivered cell is no longer the current one. -/
theorem run_whole (ty : Nat) (ids : Bytes) (s0 : BState) (l0 : Bytes) (ls ds : List Bytes) (p0 : Parsed) (pos : Nat)
    (hp0 : parseLine? l0 = some p0) (hidx : p0.idx = 0) (hty : p0.ty = ty) (hlist : p0.list = ids)
    (hok : p0.ok = true) (hmax : p0.max = (ls.length : Int)) (hrun : IsRun ty ids 1 ls ds) :
    Batch.runFrom Batch.step s0 pos (l0 :: ls) =
      (doneState s0.store p0.img (p0.img.data ++ p0.data ++ ds.flatten) (ls.length + 1) ty,
        [⟨pos + ls.length, .gfx (intExplode ids) s0.store.length,
          (doneState s0.store p0.img (p0.img.data ++ p0.data ++ ds.flatten) (ls.length + 1) ty).store⟩]) := by
  have hstep : Batch.step s0 l0 =
      if ls = [] then
        (doneState s0.store p0.img (p0.img.data ++ p0.data) 1 ty, some (.gfx (intExplode ids) s0.store.length))
      else (openState s0.store p0.img (p0.img.data ++ p0.data) 1 (ls.length + 1) ids ty, none) := by
    rw [step_eq, hp0]
    simp only [Batch.stepP, resetIntake, hidx, hty, hlist, hok, hmax, if_true, and_true]
    rw [appendAt_last]
    by_cases hls : ls = []
    · subst hls; simp [doneState]
    · have hlen : 0 < ls.length := List.length_pos_iff.mpr hls
      have : ¬ ((0 : Int) = (ls.length : Int)) := by omega
      simp [this, hls, openState]
  simp only [Batch.runFrom, hstep]
  by_cases hls : ls = []
  · subst hls
    cases ds with
    | nil => simp [Batch.runFrom]
    | cons _ _ => exact absurd hrun (by simp [IsRun])
  · simp only [hls, if_false]
    rw [run_tail ty ids s0.store p0.img (ls.length + 1) ls ds 1 _ (pos + 1) hrun (by omega) (by omega)]
    simp only [hls, if_false]
    have hlen : 0 < ls.length := List.length_pos_iff.mpr hls
    have : pos + 1 + ls.length - 1 = pos + ls.length := by omega
    rw [this]

/-- the caller's view of `run_whole` on a fresh call -/
theorem decode_whole (ty : Nat) (ids : Bytes) (l0 : Bytes) (ls ds : List Bytes) (p0 : Parsed)
    (hp0 : parseLine? l0 = some p0) (hidx : p0.idx = 0) (hty : p0.ty = ty) (hlist : p0.list = ids)
    (hok : p0.ok = true) (hmax : p0.max = (ls.length : Int)) (hrun : IsRun ty ids 1 ls ds) :
    Batch.decode Batch.step (l0 :: ls) =
      [.gfx (intExplode ids) { p0.img with data := p0.img.data ++ p0.data ++ ds.flatten } 1] := by
  unfold Batch.decode Batch.run
  rw [run_whole ty ids {} l0 ls ds p0 0 hp0 hidx hty hlist hok hmax hrun]
  simp [see, doneState]

end RawPanelVerif.Gfx

namespace RawPanelVerif.Gfx

/-! ### the encoder's lines are such a run -/

theorem parseLine?_chunk_zero (g : Img) (ids : Bytes) (hv : ValidIds ids) (hr : InRange g) (total : Nat)
    (ht : total < 2 ^ 62) :
    parseLine? (chunkLine g ids total 0) =
      some { idx := 0, ty := g.ty, pfx := pfxOf g.ty, list := ids, max := ((total - 1 : Nat) : Int),
             img := headerImg g, data := segment g 0, ok := true } := by
  unfold parseLine?
  rw [matchGfx_chunkLine_zero g ids hv total, Option.map_some, parsedOf_chunk_zero g ids hr total ht]

theorem parseLine?_chunk_succ (g : Img) (ids : Bytes) (hv : ValidIds ids) (hr : InRange g) (total i : Nat)
    (hi : i ≠ 0) (hi2 : i < 2 ^ 62) :
    parseLine? (chunkLine g ids total i) =
      some { idx := (i : Int), ty := g.ty, pfx := pfxOf g.ty, list := ids, max := 2,
             img := { ty := g.ty, W := 64, H := 32 }, data := segment g i, ok := true } := by
  unfold parseLine?
  rw [matchGfx_chunkLine_succ g ids hv total i hi, Option.map_some, parsedOf_chunk_succ g ids hr i hi2]

theorem isRun_chunkLines (g : Img) (ids : Bytes) (hv : ValidIds ids) (hr : InRange g) (total : Nat) :
    ∀ (m k : Nat), 1 ≤ k → k + m < 2 ^ 62 →
      IsRun g.ty ids k ((List.range' k m).map (chunkLine g ids total)) ((List.range' k m).map (segment g)) := by
  intro m
  induction m with
  | zero => intro k _ _; simp [IsRun]
  | succ m ih =>
    intro k hk hb
    simp only [List.range'_succ, List.map_cons, IsRun]
    refine ⟨⟨_, parseLine?_chunk_succ g ids hv hr total k (by omega) (by omega), rfl, rfl, rfl, rfl, rfl, rfl⟩, ?_⟩
    exact ih (k + 1) (by omega) (by omega)

theorem totalLines_lt (g : Img) (hr : InRange g) : totalLines g.data.length < 2 ^ 62 := by
  have := hr.len
  unfold totalLines; rw [bytesPerLine_eq]; omega

theorem chunkLines_cons (g : Img) (ids : Bytes) (h : g.data ≠ []) :
    chunkLines g ids = chunkLine g ids (totalLines g.data.length) 0 ::
      (List.range' 1 (totalLines g.data.length - 1)).map (chunkLine g ids (totalLines g.data.length)) := by
  have hpos : 0 < totalLines g.data.length := by
    have h1 : g.data.length ≠ 0 := by simpa using h
    have h2 : totalLines g.data.length ≠ 0 := fun e => h1 ((totalLines_eq_zero g.data.length).mp e)
    omega
  unfold chunkLines
  obtain ⟨n, hn⟩ : ∃ n, totalLines g.data.length = n + 1 := ⟨_, (Nat.succ_pred_eq_of_pos hpos).symm⟩
  rw [hn, List.range_eq_range', List.range'_succ]
  simp

theorem segments_cons (g : Img) (h : g.data ≠ []) :
    segment g 0 ++ ((List.range' 1 (totalLines g.data.length - 1)).map (segment g)).flatten = g.data := by
  have hpos : 0 < totalLines g.data.length := by
    have h1 : g.data.length ≠ 0 := by simpa using h
    have h2 : totalLines g.data.length ≠ 0 := fun e => h1 ((totalLines_eq_zero g.data.length).mp e)
    omega
  have hc := segments_concat g
  obtain ⟨n, hn⟩ : ∃ n, totalLines g.data.length = n + 1 := ⟨_, (Nat.succ_pred_eq_of_pos hpos).symm⟩
  rw [hn, List.range_eq_range', List.range'_succ] at hc
  rw [hn]
  simpa [List.flatMap_def] using hc

/-- the image the decoder hands out for what was sent: header metadata and all the bytes -/
def received (g : Img) : Img := { headerImg g with data := g.data }

/-- **batch**: the encoder's lines for `g`, in one call, give exactly one message carrying `g` -/
theorem decode_chunkLines (g : Img) (ids : Bytes) (hv : ValidIds ids) (hr : InRange g) (h : g.data ≠ []) :
    Batch.decode Batch.step (chunkLines g ids) = [.gfx (intExplode ids) (received g) 1] := by
  rw [chunkLines_cons g ids h]
  have hl := totalLines_lt g hr
  rw [decode_whole g.ty ids _ _ ((List.range' 1 (totalLines g.data.length - 1)).map (segment g)) _
    (parseLine?_chunk_zero g ids hv hr _ hl) rfl rfl rfl rfl (by simp)
    (isRun_chunkLines g ids hv hr _ _ 1 (by omega) (by omega))]
  simp only [headerImg, List.nil_append, received]
  rw [segments_cons g h]

end RawPanelVerif.Gfx
