import RawPanelVerif.Lemmas.EncSoundAll
import RawPanelVerif.Lemmas.DecGfxDefs
/-! Round trip, part 1 (`enc_in_domain`): the lines the encoder emits for a message of `inDomainIn` lie in the decoder's
domain `inDomainLines` (every line well-formed, graphics transfers in order) and deliver no all-default image.
Here: the `Dom` calculus, `classify` on `key=value` lines, flow / command / single-line state sections, registers. -/
namespace RawPanelVerif.EncDom
open RawPanelVerif RawPanelVerif.Bytes RawPanelVerif.MsgIn RawPanelVerif.Model.In RawPanelVerif.InBits RawPanelVerif.ReadIn
open RawPanelVerif.Spec.In RawPanelVerif.TotalIn RawPanelVerif.EncSound RawPanelVerif.DecGfx

variable (O : Oracles)

/-! ## the calculus -/

/-- every line of `ls` is well-formed or non-grammar, and `ls` starts and ends with no transfer open, drops no part and
delivers no all-default image — whatever follows -/
def Dom (O : Oracles) (ls : List Bytes) : Prop :=
  (∀ l ∈ ls, classify O l ≠ .outside) ∧
  (∀ rest, gfxDiscipline O none (ls ++ rest) = gfxDiscipline O none rest) ∧
  (∀ rest, noBlankImage O none (ls ++ rest) = noBlankImage O none rest)

theorem Dom.nil : Dom O [] := ⟨fun _ h => by simp at h, fun _ => rfl, fun _ => rfl⟩

theorem Dom.append {O : Oracles} {a b : List Bytes} (ha : Dom O a) (hb : Dom O b) : Dom O (a ++ b) := by
  refine ⟨?_, ?_, ?_⟩
  · intro l hl
    simp only [List.mem_append] at hl
    rcases hl with hl | hl
    · exact ha.1 l hl
    · exact hb.1 l hl
  · intro rest; rw [List.append_assoc, ha.2.1, hb.2.1]
  · intro rest; rw [List.append_assoc, ha.2.2, hb.2.2]

theorem Dom.single {O : Oracles} {l : Bytes} {es : List Effect} (h : readLine O l = .effects es) (hc : classify O l = .wellFormed) :
    Dom O [l] := by
  refine ⟨?_, ?_, ?_⟩
  · intro x hx
    simp only [List.mem_singleton] at hx
    subst hx; rw [hc]; decide
  · intro rest; simp only [List.singleton_append, gfxDiscipline, h]
  · intro rest; simp only [List.singleton_append, noBlankImage, h]

theorem Dom.flatMap {O : Oracles} {α : Type} (xs : List α) (f : α → List Bytes) (h : ∀ x ∈ xs, Dom O (f x)) : Dom O (xs.flatMap f) := by
  induction xs with
  | nil => exact Dom.nil O
  | cons x xs ih =>
    simp only [List.flatMap_cons]
    exact Dom.append (h x (by simp)) (ih (fun y hy => h y (by simp [hy])))

theorem Dom.optLine {O : Oracles} {α : Type} (o : Option α) (f : α → List Bytes) (h : ∀ a, o = some a → Dom O (f a)) : Dom O (optLine o f) := by
  cases o with
  | none => exact Dom.nil O
  | some a => exact h a rfl

theorem Dom.flag {O : Oracles} (b : Bool) (w : Bytes) (c : CmdE) (h : readLine O w = .effects [.cmd c]) (hc : classify O w = .wellFormed) :
    Dom O (flag b w) := by
  cases b
  · exact Dom.nil O
  · exact Dom.single h hc

theorem Dom.result {O : Oracles} {ls : List Bytes} (h : Dom O ls) : inDomainLines O ls = true ∧ noBlankImage O none ls = true := by
  have h2 := h.2.1 []
  have h3 := h.2.2 []
  simp only [List.append_nil] at h2 h3
  refine ⟨?_, ?_⟩
  · unfold inDomainLines
    simp only [Bool.and_eq_true, List.all_eq_true, bne_iff_ne, ne_eq]
    exact ⟨h.1, by rw [h2]; rfl⟩
  · rw [h3]; rfl

/-! ## `classify` on `key=value` lines -/

/-- the argument check of a `family#ids=value` line (the `ok` of `Spec.In.classify`) -/
def hashOk (fam idsText v : Bytes) : Bool :=
  if fam = asc "Flag" then
    (match flagId? idsText with | some _ => (idsText = [] || (num? idsText).isSome) | none => false) && (num? v).isSome
  else if (ids? idsText).isNone then false
  else if fam = asc "HWC" ∨ fam = asc "HWCx" ∨ fam = asc "HWCc" then (num? v).isSome
  else if fam = asc "HWCt" then textWellFormed v
  else if fam = asc "HWCrawADCValues" then v = asc "0" || v = asc "1"
  else if fam = asc "HWCg" then gfxWellFormed .mono idsText v
  else if fam = asc "HWCgRGB" then gfxWellFormed .rgb idsText v
  else gfxWellFormed .gray idsText v

/-- `classify` below the cut at `=` -/
def classifyKV (O : Oracles) (l key v : Bytes) : LineClass :=
  match cut 35 key with
  | some (fam, idsText) =>
    if !grammarFams.contains fam then .nonGrammar
    else if l.contains 10 then .outside
    else if hashOk fam idsText v then .wellFormed else .outside
  | none =>
    if plainKeys.contains key then
      if l.contains 10 then .outside
      else if (readPlain O key v).isEmpty then .outside
      else if key = asc "SetCalibrationProfile" ∧ normPayload v ≠ v then .outside
      else .wellFormed
    else match readRegKey regWord key with
      | some _ => if (num? v).isSome ∧ !l.contains 10 then .wellFormed else .outside
      | none => .nonGrammar

theorem classify_kv (key v : Bytes) (h0 : keyHeadOk key = true) (h3 : (61 : UInt8) ∉ key) :
    classify O (key ++ 61 :: v) = classifyKV O (key ++ 61 :: v) key v := by
  cases key with
  | nil => simp [keyHeadOk] at h0
  | cons c cs =>
    simp only [keyHeadOk, Bool.and_eq_true, bne_iff_ne, ne_eq] at h0
    have hcut := cut_append 61 (c :: cs) v h3
    unfold classify
    split
    · rename_i heq
      simp only [List.cons_append] at heq
      injection heq with e _
      exact absurd e h0.1
    · rename_i heq
      simp only [List.cons_append] at heq
      injection heq with e _
      exact absurd e h0.2
    · rw [hcut]
      rfl

theorem contains_false (l : Bytes) (h : (10 : UInt8) ∉ l) : l.contains 10 = false := by
  simp [List.contains_eq_mem, h]

/-- `family#ids=value`, family in the grammar -/
theorem classify_hash (F Fh idsText v : Bytes) (hF : Fh = F ++ [35]) (h0 : keyHeadOk F = true)
    (h61 : (61 : UInt8) ∉ F) (h35 : (35 : UInt8) ∉ F) (hi : (61 : UInt8) ∉ idsText)
    (hg : grammarFams.contains F = true) (hnl : (10 : UInt8) ∉ Fh ++ idsText ++ asc "=" ++ v)
    (hok : hashOk F idsText v = true) :
    classify O (Fh ++ idsText ++ asc "=" ++ v) = .wellFormed := by
  have e : Fh ++ idsText ++ asc "=" ++ v = (F ++ 35 :: idsText) ++ 61 :: v := by
    rw [hF, show asc "=" = [61] by decide]; simp
  rw [e] at hnl ⊢
  rw [classify_kv O _ _ (keyHeadOk_append _ _ h0) (by
    intro hm
    simp only [List.mem_append, List.mem_cons] at hm
    rcases hm with hm | hm | hm
    · exact h61 hm
    · exact absurd hm (by decide)
    · exact hi hm)]
  unfold classifyKV
  rw [cut_append 35 F idsText h35]
  simp only [hg, contains_false _ hnl, hok, Bool.not_true, Bool.false_eq_true, if_false, if_true]

/-- `key=value`, key one of the command keys, the reader reads a non-empty effect list -/
theorem classify_plain (K Keq v : Bytes) (es : List Effect) (he : Keq = K ++ [61]) (h0 : keyHeadOk K = true)
    (h61 : (61 : UInt8) ∉ K) (h35 : cut 35 K = none) (hk : plainKeys.contains K = true)
    (hnl : (10 : UInt8) ∉ Keq ++ v) (hr : readLine O (Keq ++ v) = .effects es) (hes : es ≠ [])
    (hcal : K = asc "SetCalibrationProfile" → normPayload v = v) :
    classify O (Keq ++ v) = .wellFormed := by
  rw [he, kw_split] at hnl hr ⊢
  rw [readLine_kv' O K v h0 h61, h35] at hr
  simp only [] at hr
  injection hr with hr
  rw [classify_kv O K v h0 h61]
  unfold classifyKV
  rw [h35]
  simp only [hk, contains_false _ hnl, hr, if_true, Bool.false_eq_true, if_false]
  have : es.isEmpty = false := by cases es with
    | nil => exact absurd rfl hes
    | cons _ _ => rfl
  rw [this]
  simp only [Bool.false_eq_true, if_false]
  rw [if_neg (fun hc => hc.2 (hcal hc.1))]

/-- plain register lines -/
theorem classify_reg (W Weq id : Bytes) (k : RegKind) (v : Nat) (hv : v < 4294967296) (hWeq : Weq = W)
    (h0 : keyHeadOk W = true) (h61 : (61 : UInt8) ∉ W) (h35 : (35 : UInt8) ∉ W) (hW10 : (10 : UInt8) ∉ W)
    (hid : id.all Spec.In.isUpperDigit = true)
    (hpk : plainKeys.all (fun K => differ2 W K) = true)
    (hreg : readRegKey regWord (W ++ id) = some (k, id)) :
    classify O (Weq ++ id ++ asc "=" ++ utoa v) = .wellFormed := by
  rw [hWeq]
  have h61' : (61 : UInt8) ∉ W ++ id := by
    intro hm
    simp only [List.mem_append] at hm
    rcases hm with hm | hm
    · exact h61 hm
    · exact all_not_mem _ id 61 hid (by decide) hm
  have h35' : (35 : UInt8) ∉ W ++ id := by
    intro hm
    simp only [List.mem_append] at hm
    rcases hm with hm | hm
    · exact h35 hm
    · exact all_not_mem _ id 35 hid (by decide) hm
  have h10 : (10 : UInt8) ∉ (W ++ id) ++ 61 :: utoa v := by
    intro hm
    simp only [List.mem_append, List.mem_cons] at hm
    rcases hm with (hm | hm) | hm | hm
    · exact hW10 hm
    · exact all_not_mem _ id 10 hid (by decide) hm
    · exact absurd hm (by decide)
    · exact not_mem_utoa v 10 (by decide) hm
  rw [show asc "=" = [61] by decide, List.append_assoc, List.singleton_append,
    classify_kv O _ _ (keyHeadOk_append _ _ h0) h61']
  unfold classifyKV
  rw [cut_none 35 _ h35']
  have hnk : plainKeys.contains (W ++ id) = false := by
    cases hc : plainKeys.contains (W ++ id)
    · rfl
    · rw [List.contains_iff_mem] at hc
      rw [List.all_eq_true] at hpk
      exact absurd rfl (differ2_ne W _ id (hpk _ hc))
  simp only [hnk, hreg, num_utoa v hv, contains_false _ h10, Bool.false_eq_true, if_false]
  rfl

end RawPanelVerif.EncDom
