import RawPanelVerif.Lemmas.TileCentre
/-!
# A text that is too wide for the active area (C18, clause `centre`, horizontally clipped case)

The centring code clamps the left margin of a too-wide text to 0, so the text starts at the left edge of the bounding
box.  Then either `DrawChar` rejects every glyph (the first one does not fit: nothing is lit), or the first glyph is drawn
and — being a letter or digit — has ink in its first column: visible ink touches the left edge of the active area, and the
Spec's centring clause (which speaks about ink strictly inside the active area) does not apply.
-/
namespace RawPanelVerif.Tile
open RawPanelVerif RawPanelVerif.Mono RawPanelVerif.Gen RawPanelVerif.C20

theorem glyphR_clip' (g : Geom) (t : TextSt) (x y : Int) (ch : Nat) (h v : Int) (X Y : Nat)
    (hg : glyphR g t x y ch h v X Y) : clipR g X Y := by
  obtain ⟨i, j, _, _, _, hc, _⟩ := hg; exact hc

theorem textR_clip' (g : Geom) (s : List Nat) (t : TextSt) (X Y : Nat) (hr : textR g t s X Y) : clipR g X Y := by
  induction s generalizing t with
  | nil => exact hr.elim
  | cons ch rest ih =>
    simp only [textR] at hr
    by_cases h13 : ch = 13
    · simp only [h13, if_true] at hr; exact ih t hr
    · simp only [h13, if_false] at hr
      rcases hr with ⟨_, hg⟩ | hr
      · exact glyphR_clip' _ _ _ _ _ _ _ _ _ hg
      · exact ih _ hr

/-- once the cursor is more than one text-size step beyond the box width, `DrawChar` rejects every further glyph -/
theorem textR_none_of_beyond (g : Geom) (s : List Nat) (t : TextSt) (hh : 0 ≤ t.tsH)
    (hx : t.cx > getBWidth g + t.tsH) : ∀ X Y, ¬ textR g t s X Y := by
  induction s generalizing t with
  | nil => intro X Y h; exact h
  | cons ch rest ih =>
    intro X Y h
    simp only [textR] at h
    by_cases h13 : ch = 13
    · simp only [h13, if_true] at h; exact ih t hh hx X Y h
    · simp only [h13, if_false] at h
      have hm : (0 : Int) ≤ (charWidth t ch : Int) * t.tsH := Int.mul_nonneg (by omega) hh
      have hm' : t.tsH * (charWidth t ch : Int) = (charWidth t ch : Int) * t.tsH := Int.mul_comm _ _
      rcases h with ⟨hne, _⟩ | h
      · apply hne
        left
        have : ((charWidth t ch : Int) - 1) * t.tsH = (charWidth t ch : Int) * t.tsH - t.tsH := by
          rw [Int.sub_mul]; omega
        omega
      · exact ih { t with cx := t.cx + t.tsH * (charWidth t ch : Int) + t.spacing } hh (by simp only []; omega) X Y h

/-- if `DrawChar` rejects the first glyph for lack of width, it rejects all of them -/
theorem textR_none_of_first_wide (g : Geom) (c : Nat) (rest : List Nat) (t : TextSt) (hh : 1 ≤ t.tsH) (hc : c ≠ 13)
    (hw : t.cx > getBWidth g - ((charWidth t c : Int) - 1) * t.tsH) : ∀ X Y, ¬ textR g t (c :: rest) X Y := by
  intro X Y h
  simp only [textR, hc, if_false] at h
  have hm' : t.tsH * (charWidth t c : Int) = (charWidth t c : Int) * t.tsH := Int.mul_comm _ _
  have e : ((charWidth t c : Int) - 1) * t.tsH = (charWidth t c : Int) * t.tsH - t.tsH := by rw [Int.sub_mul]; omega
  rcases h with ⟨hne, _⟩ | h
  · exact hne (Or.inl hw)
  · exact textR_none_of_beyond g rest { t with cx := t.cx + t.tsH * (charWidth t c : Int) + t.spacing } (by simp only []; omega)
      (by simp only []; omega) X Y h

/-- the text box lies inside the bounding box vertically -/
structure TextVFits (g : Geom) (t : TextSt) : Prop where
  cy : 0 ≤ t.cy
  h : t.cy + (t.fp.bbH : Int) * t.tsV ≤ g.bh

/-- **a text that starts at the left edge of the box** (cursor x = 0; proportional, first character a letter or digit,
vertically inside the box): nothing of it is lit, or ink is lit in the left-most column of the bounding box -/
theorem text_left_touch (g : Geom) (t : TextSt) (c0 : Nat) (rest : List Nat)
    (hp : t.prop = true) (hh : 1 ≤ t.tsH) (hv : 1 ≤ t.tsV) (ha0 : alnum c0 = true) (hb : BoxOnCanvas g)
    (hcx : t.cx = 0) (hf : TextVFits g t) :
    (∀ X Y, ¬ textR g t (c0 :: rest) X Y) ∨ ∃ X Y : Nat, textR g t (c0 :: rest) X Y ∧ (X : Int) = g.bx := by
  obtain ⟨w0, r0, ⟨j0, hj0, hi0⟩, _⟩ := edge_glyph t hp c0 ha0
  obtain ⟨f3, f4⟩ := hf
  obtain ⟨b1, b2, b3, b4⟩ := hb
  have hc0 : c0 ≠ 13 := by
    have := alnum_range c0 ha0; omega
  by_cases hbw : 0 < g.bw
  · by_cases hw : t.cx > getBWidth g - ((charWidth t c0 : Int) - 1) * t.tsH
    · exact Or.inl (textR_none_of_first_wide g c0 rest t hh hc0 hw)
    · right
      obtain ⟨p1, p2⟩ := fp_pos t.font
      have q1 : (1 : Int) * 1 ≤ (t.fp.bbW : Int) * t.tsH :=
        Int.mul_le_mul (by unfold TextSt.fp; omega) hh (by omega) (by omega)
      have q2 : (1 : Int) * 1 ≤ (t.fp.bbH : Int) * t.tsV :=
        Int.mul_le_mul (by unfold TextSt.fp; omega) hv (by omega) (by omega)
      have hne : ¬ earlyRet g t t.cx t.cy c0 t.tsH t.tsV := by
        unfold earlyRet
        rintro (h | h | h | h)
        · exact hw h
        · omega
        · omega
        · omega
      have hv0 : (0 : Int) ≤ t.tsV := by omega
      have mj : ((j0 : Int) + 1) * t.tsV ≤ (t.fp.bbH : Int) * t.tsV := Int.mul_le_mul_of_nonneg_right (by omega) hv0
      rw [Int.add_mul] at mj
      have mj0 : (0 : Int) ≤ (j0 : Int) * t.tsV := Int.mul_nonneg (by omega) hv0
      have key : textR g t (c0 :: rest) (t.cx + g.bx).toNat (t.cy + (j0 : Int) * t.tsV + g.byy).toNat := by
        refine textR_of_first g c0 rest t _ _ hc0 hne ?_
        refine glyphR_pixel g t t.cx t.cy c0 t.tsH t.tsV 0 j0 0 0 _ _ (by omega) hj0 hi0 (by omega) (by omega)
          (by omega) (by omega) (by simp; omega) (by omega) ?_
        exact clipR_of_box g ⟨b1, b2, b3, b4⟩ _ _ (by omega) (by omega) (by omega) (by omega)
      exact ⟨_, _, key, by omega⟩
  · left
    intro X Y h
    have hc := textR_clip' g (c0 :: rest) t X Y h
    obtain ⟨q1, _, q3, _⟩ := hc
    unfold xMin at q1; unfold wMax at q3
    split at q1 <;> split at q3 <;> omega

/-- a row band whose lit pixels include one in the left-most column of the active area: the Spec's centring clause holds
(its guard "ink strictly inside the active area" is false) -/
theorem centredIn_of_left_touch (k : Spec.Tile.Case) (A : Nat → Nat → Bool) (ya yb : Int) (Rg : Nat → Nat → Prop)
    (hlit : ∀ X Y, X < k.w → Y < k.h → (litIn k.inverted A ya yb (X, Y) ↔ Rg X Y))
    (hin : ∀ X Y, Rg X Y → X < k.w ∧ Y < k.h)
    (htouch : ∃ X Y : Nat, Rg X Y ∧ (X : Int) = (Spec.Tile.active k).1) :
    Spec.Tile.centredIn k A ya yb = true := by
  obtain ⟨_, e2⟩ := extent_char k A ya yb
  obtain ⟨X0, Y0, hR, hX0⟩ := htouch
  unfold Spec.Tile.centredIn
  generalize hact : Spec.Tile.active k = act at *
  obtain ⟨x0, y0, x1, y1⟩ := act
  simp only [] at hX0 ⊢
  cases hext : Spec.Tile.extent k A ya yb with
  | none => rfl
  | some v =>
    obtain ⟨l, r, t, b⟩ := v
    simp only []
    obtain ⟨g1, _, _⟩ := e2 l r t b hext
    obtain ⟨hx', hy'⟩ := hin X0 Y0 hR
    have := (g1 (X0, Y0) ((mem_pixels k X0 Y0).2 ⟨hx', hy'⟩) ((hlit X0 Y0 hx' hy').2 hR)).1
    simp only [] at this
    rw [if_neg (by omega)]

end RawPanelVerif.Tile
