import RawPanelVerif.Lemmas.MonoText
/-!
# Translation and scaling of rendered text (exact pixel statements)

On a blank canvas `newCanvas W H` the result of `RenderText` is: lit exactly on `textR` (transparent background).
`NoEarly`: none of the characters is skipped by the clip tests at the head of `DrawChar` ("unclipped").
-/
namespace RawPanelVerif.Mono

/-- no character of the string is skipped by `DrawChar`'s clip tests -/
def NoEarly (g : Geom) : TextSt → List Nat → Prop
  | _, [] => True
  | t, ch :: rest =>
    if ch = 13 then NoEarly g t rest
    else ¬ earlyRet g t t.cx t.cy ch t.tsH t.tsV ∧
         NoEarly g { t with cx := t.cx + t.tsH * (charWidth t ch : Int) + t.spacing } rest

/-- `textR` without the clip-test conjunct -/
def textR0 (g : Geom) : TextSt → List Nat → Region
  | _, [] => fun _ _ => False
  | t, ch :: rest =>
    if ch = 13 then textR0 g t rest
    else fun X Y => glyphR g t t.cx t.cy ch t.tsH t.tsV X Y ∨
      textR0 g { t with cx := t.cx + t.tsH * (charWidth t ch : Int) + t.spacing } rest X Y

theorem textR_iff_textR0 (g : Geom) (s : List Nat) (t : TextSt) (h : NoEarly g t s) (X Y : Nat) :
    textR g t s X Y ↔ textR0 g t s X Y := by
  induction s generalizing t with
  | nil => exact Iff.rfl
  | cons ch rest ih =>
    simp only [textR, textR0]
    simp only [NoEarly] at h
    by_cases h13 : ch = 13
    · simp only [h13, if_true] at h ⊢; exact ih t h
    · simp only [h13, if_false] at h ⊢
      obtain ⟨hne, hrest⟩ := h
      constructor
      · rintro (⟨_, hg⟩ | hr)
        · exact Or.inl hg
        · exact Or.inr ((ih _ hrest).1 hr)
      · rintro (hg | hr)
        · exact Or.inl ⟨hne, hg⟩
        · exact Or.inr ((ih _ hrest).2 hr)

theorem getPx_newCanvas (W H X Y : Nat) : getPx (newCanvas W H) X Y = false := by
  unfold getPx newCanvas
  simp only []
  rw [Array.getD_eq_getD_getElem?]
  cases hq : (Array.replicate ((W + 7) / 8 * H) (0 : BitVec 8))[Y * ((W + 7) / 8) + X / 8]? with
  | none => simp
  | some b =>
    have : b = 0 := by
      rw [Array.getElem?_replicate] at hq
      split at hq
      · injection hq with hq; exact hq.symm
      · exact absurd hq (by simp)
    subst this; simp

theorem newCanvas_wf' (w h : Nat) : (newCanvas w h).WF := by
  unfold newCanvas Canvas.WF
  simp only [Array.size_replicate, and_true]
  omega

/-- geometry of a fresh canvas: bounding box = canvas, no inversion -/
def geo0 (W H : Nat) : Geom := { W := W, H := H, wib := (W + 7) / 8, bx := 0, byy := 0, bw := W, bh := H, inv := false }

theorem newCanvas_geo (W H : Nat) : (newCanvas W H).geo = geo0 W H := rfl

theorem clipR_geo0 (W H X Y : Nat) (hX : X < W) (hY : Y < H) : clipR (geo0 W H) X Y := by
  unfold clipR inClip xMin yMin wMax hMax geo0
  simp only []
  refine ⟨by simp, by simp, ?_, ?_⟩ <;> split <;> omega

/-- **Pixel value of a rendered text on a blank canvas**: lit (in the text colour) exactly on `textR0` -/
theorem renderText_blank (W H : Nat) (t : TextSt) (s : List Nat) (hs : 10 ∉ s) (hw : t.wrap = false)
    (hbg : t.tbg = t.tcol) (hne : NoEarly (geo0 W H) t s) (X Y : Nat) (hX : X < W) (hY : Y < H) :
    (textR0 (geo0 W H) t s X Y → getPx (renderText (newCanvas W H, t) s).1 X Y = t.tcol) ∧
    (¬ textR0 (geo0 W H) t s X Y → getPx (renderText (newCanvas W H, t) s).1 X Y = false) := by
  have p := renderText_paint s hs (newCanvas W H) (newCanvas_wf' W H) t hw hbg
  rw [newCanvas_geo] at p
  have hX8 : X < (newCanvas W H).geo.wib * 8 := by rw [newCanvas_geo]; unfold geo0; simp only []; omega
  have hY' : Y < (newCanvas W H).geo.H := by rw [newCanvas_geo]; exact hY
  constructor
  · intro hr
    rw [p.inside X Y hX8 hY' ((textR_iff_textR0 _ s t hne X Y).2 hr)]
    unfold geo0; simp
  · intro hr
    rw [p.same X Y hX8 hY' (fun h => hr ((textR_iff_textR0 _ s t hne X Y).1 h))]
    exact getPx_newCanvas W H X Y

/-! ## translation -/

theorem glyphR_shift (W H : Nat) (t : TextSt) (x y dx dy : Int) (ch : Nat) (h v : Int) (X Y X' Y' : Nat)
    (hX : X < W) (hY : Y < H) (hX' : X' < W) (hY' : Y' < H) (ex : (X' : Int) = X + dx) (ey : (Y' : Int) = Y + dy) :
    glyphR (geo0 W H) t (x + dx) (y + dy) ch h v X' Y' ↔ glyphR (geo0 W H) t x y ch h v X Y := by
  unfold glyphR blockR boxR
  have c1 := clipR_geo0 W H X Y hX hY
  have c2 := clipR_geo0 W H X' Y' hX' hY'
  have b0 : (geo0 W H).bx = 0 := rfl
  have b1 : (geo0 W H).byy = 0 := rfl
  rw [b0, b1]
  constructor
  · rintro ⟨i, j, hi, hj, hink, _, q1, q2, q3, q4⟩
    exact ⟨i, j, hi, hj, hink, c1, by omega, by omega, by omega, by omega⟩
  · rintro ⟨i, j, hi, hj, hink, _, q1, q2, q3, q4⟩
    exact ⟨i, j, hi, hj, hink, c2, by omega, by omega, by omega, by omega⟩

theorem textR0_shift (W H : Nat) (s : List Nat) (t : TextSt) (dx dy : Int) (X Y X' Y' : Nat)
    (hX : X < W) (hY : Y < H) (hX' : X' < W) (hY' : Y' < H) (ex : (X' : Int) = X + dx) (ey : (Y' : Int) = Y + dy) :
    textR0 (geo0 W H) { t with cx := t.cx + dx, cy := t.cy + dy } s X' Y' ↔ textR0 (geo0 W H) t s X Y := by
  induction s generalizing t with
  | nil => exact Iff.rfl
  | cons ch rest ih =>
    simp only [textR0]
    by_cases h13 : ch = 13
    · simp only [h13, if_true]; exact ih t
    · simp only [h13, if_false]
      have hg := glyphR_shift W H t t.cx t.cy dx dy ch t.tsH t.tsV X Y X' Y' hX hY hX' hY' ex ey
      have hcw : charWidth { t with cx := t.cx + dx, cy := t.cy + dy } ch = charWidth t ch := rfl
      have hgl : glyphR (geo0 W H) { t with cx := t.cx + dx, cy := t.cy + dy } (t.cx + dx) (t.cy + dy) ch t.tsH t.tsV X' Y'
          ↔ glyphR (geo0 W H) t (t.cx + dx) (t.cy + dy) ch t.tsH t.tsV X' Y' := Iff.rfl
      have hrec := ih { t with cx := t.cx + t.tsH * (charWidth t ch : Int) + t.spacing }
      have hst : ({ ({ t with cx := t.cx + dx, cy := t.cy + dy } : TextSt) with
            cx := t.cx + dx + t.tsH * (charWidth t ch : Int) + t.spacing } : TextSt) =
          { ({ t with cx := t.cx + t.tsH * (charWidth t ch : Int) + t.spacing } : TextSt) with
            cx := t.cx + t.tsH * (charWidth t ch : Int) + t.spacing + dx, cy := t.cy + dy } := by
        simp only [TextSt.mk.injEq, and_true, true_and]; omega
      simp only [hcw]
      rw [hst]
      constructor
      · rintro (hh | hh)
        · exact Or.inl (hg.1 (hgl.1 hh))
        · exact Or.inr (hrec.1 hh)
      · rintro (hh | hh)
        · exact Or.inl (hgl.2 (hg.2 hh))
        · exact Or.inr (hrec.2 hh)


/-! ## scaling (extra character spacing 0) -/

theorem block_index (h m i p : Int) (hh : 0 < h) (hp0 : 0 ≤ p) (hp : p < h)
    (h1 : h * m ≤ h * i + p) (h2 : h * i + p < h * m + h) : i = m := by
  have lt_or : i < m ∨ i = m ∨ m < i := by omega
  rcases lt_or with hlt | heq | hgt
  · exfalso
    have : h * i ≤ h * (m - 1) := Int.mul_le_mul_of_nonneg_left (by omega) (by omega)
    rw [Int.mul_sub, Int.mul_one] at this
    omega
  · exact heq
  · exfalso
    have : h * (m + 1) ≤ h * i := Int.mul_le_mul_of_nonneg_left (by omega) (by omega)
    rw [Int.mul_add, Int.mul_one] at this
    omega

/-- text state at size `(h,v)` resp. `(1,1)` with the cursor at `cx + h·S` resp. `cx + S` -/
def atSize (t : TextSt) (h v cx cy : Int) : TextSt := { t with tsH := h, tsV := v, cx := cx, cy := cy }

theorem glyphR_scale (W H : Nat) (t : TextSt) (h v cx cy S : Int) (hh : 0 < h) (hv : 0 < v) (ch : Nat)
    (I J p q : Int) (Xh Yh X1 Y1 : Nat) (hXh : Xh < W) (hYh : Yh < H) (hX1 : X1 < W) (hY1 : Y1 < H)
    (hp0 : 0 ≤ p) (hp : p < h) (hq0 : 0 ≤ q) (hq : q < v)
    (eXh : (Xh : Int) = cx + h * I + p) (eYh : (Yh : Int) = cy + v * J + q)
    (eX1 : (X1 : Int) = cx + I) (eY1 : (Y1 : Int) = cy + J) :
    glyphR (geo0 W H) (atSize t h v (cx + h * S) cy) (cx + h * S) cy ch h v Xh Yh ↔
    glyphR (geo0 W H) (atSize t 1 1 (cx + S) cy) (cx + S) cy ch 1 1 X1 Y1 := by
  unfold glyphR blockR boxR
  have c1 := clipR_geo0 W H Xh Yh hXh hYh
  have c2 := clipR_geo0 W H X1 Y1 hX1 hY1
  have b0 : (geo0 W H).bx = 0 := rfl
  have b1 : (geo0 W H).byy = 0 := rfl
  rw [b0, b1]
  have hcw : charWidth (atSize t h v (cx + h * S) cy) ch = charWidth (atSize t 1 1 (cx + S) cy) ch := rfl
  have hbb : (atSize t h v (cx + h * S) cy).fp.bbH = (atSize t 1 1 (cx + S) cy).fp.bbH := rfl
  have hink : ∀ i j, inkBit (atSize t h v (cx + h * S) cy) ch i j = inkBit (atSize t 1 1 (cx + S) cy) ch i j := fun _ _ => rfl
  constructor
  · rintro ⟨i, j, hi, hj, hk, _, q1, q2, q3, q4⟩
    have ei : (i : Int) * h = h * i := Int.mul_comm _ _
    have ej : (j : Int) * v = v * j := Int.mul_comm _ _
    have eI : I = S + i := by
      have e1 : h * (S + i) = h * S + h * i := Int.mul_add _ _ _
      exact block_index h (S + i) I p hh hp0 hp (by omega) (by omega)
    have eJ : J = j := block_index v j J q hv hq0 hq (by omega) (by omega)
    refine ⟨i, j, by rw [← hcw]; exact hi, by rw [← hbb]; exact hj, by rw [← hink]; exact hk, c2, ?_, ?_, ?_, ?_⟩ <;> omega
  · rintro ⟨i, j, hi, hj, hk, _, q1, q2, q3, q4⟩
    have ei : (i : Int) * h = h * i := Int.mul_comm _ _
    have ej : (j : Int) * v = v * j := Int.mul_comm _ _
    have eI : I = S + i := by omega
    have eJ : J = j := by omega
    subst eI eJ
    have e1 : h * (S + i) = h * S + h * i := Int.mul_add _ _ _
    refine ⟨i, j, by rw [hcw]; exact hi, by rw [hbb]; exact hj, by rw [hink]; exact hk, c1, ?_, ?_, ?_, ?_⟩ <;> omega

theorem textR0_scale (W H : Nat) (s : List Nat) (t : TextSt) (hsp : t.spacing = 0) (h v cx cy : Int)
    (hh : 0 < h) (hv : 0 < v) (S : Int)
    (I J p q : Int) (Xh Yh X1 Y1 : Nat) (hXh : Xh < W) (hYh : Yh < H) (hX1 : X1 < W) (hY1 : Y1 < H)
    (hp0 : 0 ≤ p) (hp : p < h) (hq0 : 0 ≤ q) (hq : q < v)
    (eXh : (Xh : Int) = cx + h * I + p) (eYh : (Yh : Int) = cy + v * J + q)
    (eX1 : (X1 : Int) = cx + I) (eY1 : (Y1 : Int) = cy + J) :
    textR0 (geo0 W H) (atSize t h v (cx + h * S) cy) s Xh Yh ↔
    textR0 (geo0 W H) (atSize t 1 1 (cx + S) cy) s X1 Y1 := by
  induction s generalizing S with
  | nil => exact Iff.rfl
  | cons ch rest ih =>
    simp only [textR0]
    by_cases h13 : ch = 13
    · simp only [h13, if_true]; exact ih S
    · simp only [h13, if_false]
      have hg := glyphR_scale W H t h v cx cy S hh hv ch I J p q Xh Yh X1 Y1 hXh hYh hX1 hY1 hp0 hp hq0 hq eXh eYh eX1 eY1
      have hcwh : charWidth (atSize t h v (cx + h * S) cy) ch = charWidth t ch := rfl
      have hcw1 : charWidth (atSize t 1 1 (cx + S) cy) ch = charWidth t ch := rfl
      have sth : ({ atSize t h v (cx + h * S) cy with
            cx := (atSize t h v (cx + h * S) cy).cx + (atSize t h v (cx + h * S) cy).tsH * (charWidth (atSize t h v (cx + h * S) cy) ch : Int)
              + (atSize t h v (cx + h * S) cy).spacing } : TextSt) = atSize t h v (cx + h * (S + (charWidth t ch : Int))) cy := by
        unfold atSize
        simp only [TextSt.mk.injEq, and_true, true_and, hsp]
        have : h * (S + (charWidth t ch : Int)) = h * S + h * (charWidth t ch : Int) := Int.mul_add _ _ _
        show cx + h * S + h * (charWidth t ch : Int) + ((0 : Nat) : Int) = cx + h * (S + (charWidth t ch : Int))
        omega
      have st1 : ({ atSize t 1 1 (cx + S) cy with
            cx := (atSize t 1 1 (cx + S) cy).cx + (atSize t 1 1 (cx + S) cy).tsH * (charWidth (atSize t 1 1 (cx + S) cy) ch : Int)
              + (atSize t 1 1 (cx + S) cy).spacing } : TextSt) = atSize t 1 1 (cx + (S + (charWidth t ch : Int))) cy := by
        unfold atSize
        simp only [TextSt.mk.injEq, and_true, true_and, hsp]
        show cx + S + 1 * (charWidth t ch : Int) + ((0 : Nat) : Int) = cx + (S + (charWidth t ch : Int))
        omega
      rw [sth, st1]
      have hrec := ih (S + (charWidth t ch : Int))
      constructor
      · rintro (hh' | hh')
        · exact Or.inl (hg.1 hh')
        · exact Or.inr (hrec.1 hh')
      · rintro (hh' | hh')
        · exact Or.inl (hg.2 hh')
        · exact Or.inr (hrec.2 hh')

end RawPanelVerif.Mono
