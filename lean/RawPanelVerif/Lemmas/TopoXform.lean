import RawPanelVerif.Lemmas.TopoMap
import RawPanelVerif.Lemmas.TopoLookup
/-! C14 helper lemmas: `RandomizeTypes` (invariants of the key loop, every iteration order / random stream)
and `CleanSections` (reverse-order deletion = filter). -/
namespace RawPanelVerif.Topo
open RawPanelVerif

/-! ## the collision loop -/

/-- whatever the loop returns is a free id -/
theorem collide_free (sequence : Bool) (rnd : Nat → Nat) (new : Map TypeDef) (fuel m seq pos : Nat)
    (r : Nat × Nat × Nat) (h : collide sequence rnd new fuel m seq pos = some r) :
    Map.lookup new r.1 = none := by
  induction fuel generalizing m seq pos with
  | zero => simp [collide] at h
  | succ n ih =>
    simp only [collide] at h
    by_cases hc : Map.contains new m = true
    · simp only [hc, if_true] at h
      cases sequence with
      | true => exact ih _ _ _ h
      | false => exact ih _ _ _ h
    · simp only [hc] at h
      simp only [Bool.false_eq_true, if_false, Option.some.injEq] at h
      subst h
      simp only [Map.contains] at hc
      cases hl : Map.lookup new m with
      | none => rfl
      | some v => simp [hl] at hc

/-! ## general invariant of the key loop (both modes) -/

structure RInv (done : List (Nat × TypeDef)) (st : RState) : Prop where
  sorted : Map.Sorted st.newTypeStruct
  len : st.newTypeStruct.length = done.length
  mapDef : ∀ k v, (k, v) ∈ done → ∃ m, Map.lookup st.typeMapping k = some m ∧ Map.lookup st.newTypeStruct m = some v
  mapDom : ∀ k m, Map.lookup st.typeMapping k = some m → k ∈ done.map (·.1)
  newDom : ∀ m, m ∈ Map.keys st.newTypeStruct → ∃ k, k ∈ done.map (·.1) ∧ Map.lookup st.typeMapping k = some m

theorem RInv.init : RInv [] {} :=
  ⟨by simp [Map.Sorted, Map.keys], rfl, (by intro k v h; cases h), (by intro k m h; simp [Map.lookup] at h),
   (by intro m h; cases h)⟩

theorem RInv.step (sequence : Bool) (rnd : Nat → Nat) (fuel : Nat) (done : List (Nat × TypeDef)) (st st' : RState)
    (e : Nat × TypeDef) (hinv : RInv done st) (hnew : e.1 ∉ done.map (·.1))
    (hs : stepKey sequence rnd fuel st e = some st') : RInv (done ++ [e]) st' := by
  unfold stepKey at hs
  simp only at hs
  split at hs
  · cases hs
  · rename_i m seq pos hc
    simp only [Option.some.injEq] at hs
    have hfree : Map.lookup st.newTypeStruct m = none := collide_free _ _ _ _ _ _ _ _ hc
    subst hs
    refine ⟨Map.insert_sorted _ _ _ hinv.sorted, ?_, ?_, ?_, ?_⟩
    · simp only [Map.length_insert_new _ _ _ hfree, hinv.len, List.length_append, List.length_singleton]
    · intro k v hkv
      simp only [List.mem_append, List.mem_singleton] at hkv
      rcases hkv with hkv | hkv
      · obtain ⟨m0, h1, h2⟩ := hinv.mapDef k v hkv
        have hk : k ≠ e.1 := by
          intro he
          apply hnew
          rw [← he]
          exact List.mem_map.2 ⟨(k, v), hkv, rfl⟩
        have hm : m0 ≠ m := by
          intro he; rw [he, hfree] at h2; cases h2
        exact ⟨m0, by rw [Map.lookup_insert_ne _ _ _ _ hk]; exact h1, by rw [Map.lookup_insert_ne _ _ _ _ hm]; exact h2⟩
      · subst hkv
        exact ⟨m, Map.lookup_insert_self _ _ _, Map.lookup_insert_self _ _ _⟩
    · intro k m0 hk
      simp only [List.map_append, List.map_cons, List.map_nil, List.mem_append, List.mem_singleton]
      by_cases he : k = e.1
      · exact Or.inr he
      · rw [Map.lookup_insert_ne _ _ _ _ he] at hk
        exact Or.inl (hinv.mapDom k m0 hk)
    · intro m0 hm0
      simp only [List.map_append, List.map_cons, List.map_nil, List.mem_append, List.mem_singleton]
      rcases (Map.mem_keys_insert _ _ _ _).1 hm0 with rfl | hm0
      · exact ⟨e.1, Or.inr rfl, Map.lookup_insert_self _ _ _⟩
      · obtain ⟨k, hk1, hk2⟩ := hinv.newDom m0 hm0
        have hne : k ≠ e.1 := fun h => hnew (h ▸ hk1)
        exact ⟨k, Or.inl hk1, by rw [Map.lookup_insert_ne _ _ _ _ hne]; exact hk2⟩

theorem runKeys_inv (P : List (Nat × TypeDef) → RState → Prop) (sequence : Bool) (rnd : Nat → Nat) (fuel : Nat)
    (hstep : ∀ done st st' e, P done st → e.1 ∉ done.map (·.1) → stepKey sequence rnd fuel st e = some st' →
      P (done ++ [e]) st')
    (done l : List (Nat × TypeDef)) (st st' : RState) (hnd : ((done ++ l).map (·.1)).Nodup) (h0 : P done st)
    (hr : runKeys sequence rnd fuel st l = some st') : P (done ++ l) st' := by
  induction l generalizing done st with
  | nil =>
    simp only [runKeys, Option.some.injEq] at hr
    subst hr; simpa using h0
  | cons e r ih =>
    simp only [runKeys] at hr
    split at hr
    · cases hr
    · rename_i st1 hs
      have hnotin : e.1 ∉ done.map (·.1) := by
        intro hm
        simp only [List.map_append, List.map_cons] at hnd
        have := (List.nodup_append.1 hnd).2.2 e.1 hm e.1 (List.mem_cons_self)
        exact this rfl
      have h1 := hstep done st st1 e h0 hnotin hs
      have := ih (done ++ [e]) st1 (by simpa using hnd) h1 hr
      simpa using this

theorem runKeys_RInv (sequence : Bool) (rnd : Nat → Nat) (fuel : Nat) (order : List (Nat × TypeDef)) (st : RState)
    (hnd : (order.map (·.1)).Nodup) (hr : runKeys sequence rnd fuel {} order = some st) : RInv order st := by
  have := runKeys_inv RInv sequence rnd fuel (RInv.step sequence rnd fuel) [] order {} st (by simpa using hnd)
    RInv.init hr
  simpa using this

theorem order_nodup (m order : List (Nat × TypeDef)) (hs : Map.Sorted m) (ho : order.Perm m) :
    (order.map (·.1)).Nodup := by
  have hpm : (order.map (·.1)).Perm (Map.keys m) := ho.map (·.1)
  exact (hpm.nodup_iff).2 (Map.sorted_nodup m hs)

/-! ## sequential mode: exact invariant, termination -/

structure SInv (done : List (Nat × TypeDef)) (st : RState) : Prop where
  keys : Map.keys st.newTypeStruct = List.range' 1 done.length
  seq : st.seq = max 1 done.length

theorem contains_iff {α : Type} (m : Map α) (k : Nat) : Map.contains m k = true ↔ k ∈ Map.keys m := by
  unfold Map.contains; exact Map.lookup_isSome_iff m k

theorem SInv.stepOk (rnd : Nat → Nat) (fuel : Nat) (hf : 2 ≤ fuel) (done : List (Nat × TypeDef)) (st : RState)
    (e : Nat × TypeDef) (hinv : SInv done st) :
    ∃ st', stepKey true rnd fuel st e = some st' ∧ SInv (done ++ [e]) st' := by
  obtain ⟨f, rfl⟩ : ∃ f, fuel = f + 2 := ⟨fuel - 2, by omega⟩
  unfold stepKey
  simp only [if_true]
  by_cases hj : done.length = 0
  · -- first key: id 1 is free
    have hseq : st.seq = 1 := by rw [hinv.seq, hj]; rfl
    have hk : Map.keys st.newTypeStruct = [] := by rw [hinv.keys, hj]; rfl
    have hc : Map.contains st.newTypeStruct 1 = false := by
      cases h : Map.contains st.newTypeStruct 1 with
      | false => rfl
      | true => rw [contains_iff, hk] at h; cases h
    simp only [hseq, collide, hc, Bool.false_eq_true, if_false]
    refine ⟨_, rfl, ?_, ?_⟩
    · simp only
      rw [Map.keys_insert_max _ _ _ (by rw [hk]; intro q hq; cases hq), hk]
      simp [hj]
    · simp [hj]
  · -- later keys: seq (= number done) is taken, seq+1 is free
    have hpos : 1 ≤ done.length := by omega
    have hseq : st.seq = done.length := by rw [hinv.seq]; omega
    have hc1 : Map.contains st.newTypeStruct done.length = true := by
      rw [contains_iff, hinv.keys, List.mem_range'_1]; omega
    have hc2 : Map.contains st.newTypeStruct (done.length + 1) = false := by
      cases h : Map.contains st.newTypeStruct (done.length + 1) with
      | false => rfl
      | true => rw [contains_iff, hinv.keys, List.mem_range'_1] at h; omega
    simp only [hseq, collide, hc1, hc2, if_true, Bool.false_eq_true, if_false]
    refine ⟨_, rfl, ?_, ?_⟩
    · simp only
      rw [Map.keys_insert_max _ _ _ (by rw [hinv.keys]; intro q hq; rw [List.mem_range'_1] at hq; omega), hinv.keys]
      simp only [List.length_append, List.length_singleton]
      rw [List.range'_concat]
      simp only [Nat.one_mul, List.append_cancel_left_eq, List.cons.injEq, and_true]
      omega
    · simp only [List.length_append, List.length_singleton]; omega

theorem runKeys_seq (rnd : Nat → Nat) (fuel : Nat) (hf : 2 ≤ fuel) (done l : List (Nat × TypeDef)) (st : RState)
    (h0 : SInv done st) : ∃ st', runKeys true rnd fuel st l = some st' ∧ SInv (done ++ l) st' := by
  induction l generalizing done st with
  | nil => exact ⟨st, rfl, by simpa using h0⟩
  | cons e r ih =>
    obtain ⟨st1, hs, h1⟩ := SInv.stepOk rnd fuel hf done st e h0
    obtain ⟨st2, hr, h2⟩ := ih (done ++ [e]) st1 h1
    refine ⟨st2, by simp only [runKeys, hs, hr], by simpa using h2⟩

theorem SInv.init : SInv [] {} := ⟨rfl, rfl⟩

/-! ## the component loop -/

theorem eraseType_remap (mp : Map Nat) (c : HWc) :
    Spec.Topo.eraseType (remapHWc mp c) = Spec.Topo.eraseType c := by
  unfold remapHWc Spec.Topo.eraseType
  split
  · split <;> rfl
  · rfl

/-! ## CleanSections -/

def delStep (i : Nat) (acc : Option (List HWc)) : Option (List HWc) := acc.bind (fun l => slicesDelete1 l i)

theorem foldr_delStep_none (ids : List Nat) : ids.foldr delStep none = none := by
  induction ids with
  | nil => rfl
  | cons i r ih => simp [List.foldr_cons, ih, delStep]

theorem deleteLoop_eq (ids : List Nat) (n : Nat) (hn : n ≤ ids.length) (hwc : List HWc) :
    deleteLoop ids n (ids.length - n) hwc = (ids.take n).foldr delStep (some hwc) := by
  induction n generalizing hwc with
  | zero => simp [deleteLoop]
  | succ n ih =>
    have hlt : n < ids.length := by omega
    have hidx : ids.length - 1 - (ids.length - (n + 1)) = n := by omega
    simp only [deleteLoop, hidx, List.getElem?_eq_getElem hlt]
    rw [List.take_add_one, List.getElem?_eq_getElem hlt]
    simp only [Option.toList_some, List.foldr_append, List.foldr_cons, List.foldr_nil]
    have hi : ids.length - (n + 1) + 1 = ids.length - n := by omega
    cases hd : slicesDelete1 hwc ids[n] with
    | none => simp only [delStep, Option.bind_some, hd, foldr_delStep_none]
    | some hwc' =>
      simp only [delStep, Option.bind_some, hd, hi]
      exact ih (by omega) hwc'

theorem clean_foldr (l p : List HWc) (off : Nat) (hp : p.length = off) :
    (sectionIdxs l off).foldr delStep (some (p ++ l))
      = some (p ++ l.filter (fun c => c.type != Gen.sectionType)) := by
  induction l generalizing p off with
  | nil => simp [sectionIdxs]
  | cons c r ih =>
    have hcat : p ++ c :: r = (p ++ [c]) ++ r := by simp
    by_cases hm : c.type = Gen.sectionType
    · simp only [sectionIdxs, hm, if_true, List.foldr_cons, List.filter_cons]
      rw [hcat, ih (p ++ [c]) (off + 1) (by simp [hp])]
      simp only [delStep, Option.bind_some, slicesDelete1]
      have hlen : off + 1 ≤ (p ++ [c] ++ List.filter (fun c => c.type != Gen.sectionType) r).length := by
        simp only [List.length_append, List.length_singleton]; omega
      simp only [hlen, if_true, bne_self_eq_false, Bool.false_eq_true, if_false]
      congr 1
      rw [List.append_assoc, List.eraseIdx_append_of_length_le (by omega)]
      simp [hp]
    · have hb : (c.type != Gen.sectionType) = true := by simp [hm]
      simp only [sectionIdxs, hm, if_false, List.filter_cons, hb, if_true]
      rw [hcat, ih (p ++ [c]) (off + 1) (by simp [hp])]
      simp

/-! ## per-component form of "resolved definition unchanged" -/

theorem all_zip_map {α : Type} (l : List α) (f : α → α) (P : α × α → Bool) (h : ∀ c ∈ l, P (c, f c) = true) :
    (l.zip (l.map f)).all P = true := by
  induction l with
  | nil => rfl
  | cons a r ih =>
    simp only [List.map_cons, List.zip_cons_cons, List.all_cons, Bool.and_eq_true]
    exact ⟨h a List.mem_cons_self, ih (fun c hc => h c (List.mem_cons_of_mem _ hc))⟩

/-- a component whose type is indexed resolves to the same definition after renumbering — any mode, any order,
any random stream, whatever else the topology contains -/
theorem resolved_indexed_kept (order : List (Nat × TypeDef)) (st : RState) (t : Topology) (hinv : RInv order st)
    (ho : order.Perm t.ti) (c : HWc) (hz : c.type ≠ 0) (v : TypeDef) (hv : Spec.Topo.base t c.type = some v) :
    Spec.Topo.resolved { t with ti := st.newTypeStruct, tiNil := false, hwc := t.hwc.map (remapHWc st.typeMapping) }
      (remapHWc st.typeMapping c) = Spec.Topo.resolved t c := by
  rw [← lookup_eq_base] at hv
  have hmem : (c.type, v) ∈ order := (ho.mem_iff).2 (Map.mem_of_lookup t.ti c.type v hv)
  obtain ⟨m, hm1, hm2⟩ := hinv.mapDef c.type v hmem
  have e1 : remapHWc st.typeMapping c = { c with type := m } := by simp [remapHWc, hz, hm1]
  rw [e1]
  simp only [Spec.Topo.resolved, ← lookup_eq_base, hm2, hv]

/-- a disabled component (type 0) keeps its (empty-based) definition when 0 is a type number neither before nor after -/
theorem resolved_type0_kept (st : RState) (t : Topology) (c : HWc) (hz : c.type = 0)
    (h0 : Map.lookup t.ti 0 = none) (h0' : Map.lookup st.newTypeStruct 0 = none) :
    Spec.Topo.resolved { t with ti := st.newTypeStruct, tiNil := false, hwc := t.hwc.map (remapHWc st.typeMapping) }
      (remapHWc st.typeMapping c) = Spec.Topo.resolved t c := by
  have e1 : remapHWc st.typeMapping c = c := by simp [remapHWc, hz]
  rw [e1]
  simp only [Spec.Topo.resolved, ← lookup_eq_base, hz, h0, h0']

theorem keys_contains_zero (t : Topology) : (Spec.Topo.keys t).contains 0 = false → Map.lookup t.ti 0 = none := by
  intro h
  rw [Map.lookup_none_iff]
  intro hm
  have : (Spec.Topo.keys t).contains 0 = true := by
    simp only [List.contains_iff_mem]; exact hm
  rw [this] at h; cases h

theorem compKept_all (order : List (Nat × TypeDef)) (st : RState) (t : Topology) (hinv : RInv order st)
    (ho : order.Perm t.ti) (h0' : Map.lookup st.newTypeStruct 0 = none) :
    let t' : Topology := { t with ti := st.newTypeStruct, tiNil := false, hwc := t.hwc.map (remapHWc st.typeMapping) }
    (t.hwc.zip t'.hwc).all (fun cc => Spec.Topo.compKept t t' cc.1 cc.2) = true := by
  intro t'
  apply all_zip_map
  intro c _
  simp only [Spec.Topo.compKept]
  by_cases hz : c.type = 0
  · simp only [hz, if_true, Bool.or_eq_true, beq_iff_eq]
    cases hk : (Spec.Topo.keys t).contains 0 with
    | true => exact Or.inl rfl
    | false =>
      refine Or.inr ?_
      exact resolved_type0_kept st t c hz (keys_contains_zero t hk) h0'
  · simp only [hz, if_false, Bool.or_eq_true, beq_iff_eq]
    cases hb : Spec.Topo.base t c.type with
    | none => exact Or.inl rfl
    | some v => exact Or.inr (resolved_indexed_kept order st t hinv ho c hz v hb)

/-! ## random mode: distinct draws never collide -/

/-- every id handed out so far is a value drawn at an earlier position -/
def DrawnInv (rnd : Nat → Nat) (st : RState) : Prop :=
  ∀ k ∈ Map.keys st.newTypeStruct, ∃ p, p < st.pos ∧ k = rnd p

theorem stepKey_random_inj (rnd : Nat → Nat) (hinj : ∀ i j, rnd i = rnd j → i = j) (fuel : Nat) (hf : 1 ≤ fuel)
    (st : RState) (e : Nat × TypeDef) (hinv : DrawnInv rnd st) :
    ∃ st', stepKey false rnd fuel st e = some st' ∧ DrawnInv rnd st' := by
  obtain ⟨f, rfl⟩ : ∃ f, fuel = f + 1 := ⟨fuel - 1, by omega⟩
  have hc : Map.contains st.newTypeStruct (rnd st.pos) = false := by
    cases h : Map.contains st.newTypeStruct (rnd st.pos) with
    | false => rfl
    | true =>
      rw [contains_iff] at h
      obtain ⟨p, hp, he⟩ := hinv _ h
      have := hinj _ _ he
      omega
  unfold stepKey
  simp only [Bool.false_eq_true, if_false, collide, hc]
  refine ⟨_, rfl, ?_⟩
  intro k hk
  simp only at hk
  rcases (Map.mem_keys_insert _ _ _ _).1 hk with rfl | hk
  · exact ⟨st.pos, by simp, rfl⟩
  · obtain ⟨p, hp, he⟩ := hinv k hk
    exact ⟨p, by simp only; omega, he⟩

theorem runKeys_random_inj (rnd : Nat → Nat) (hinj : ∀ i j, rnd i = rnd j → i = j) (fuel : Nat) (hf : 1 ≤ fuel)
    (l : List (Nat × TypeDef)) (st : RState) (hinv : DrawnInv rnd st) :
    ∃ st', runKeys false rnd fuel st l = some st' ∧ DrawnInv rnd st' := by
  induction l generalizing st with
  | nil => exact ⟨st, rfl, hinv⟩
  | cons e r ih =>
    obtain ⟨st1, hs, h1⟩ := stepKey_random_inj rnd hinj fuel hf st e hinv
    obtain ⟨st2, hr, h2⟩ := ih st1 h1
    exact ⟨st2, by simp only [runKeys, hs, hr], h2⟩

theorem DrawnInv.init (rnd : Nat → Nat) : DrawnInv rnd {} := by
  intro k hk; cases hk

/-! ## random mode: a stream that keeps producing fresh values ends every collision loop -/

/-- whatever finite set of ids is taken, the stream yields a value outside it from every position on -/
def Fair (rnd : Nat → Nat) : Prop := ∀ (S : List Nat) (p : Nat), ∃ d, rnd (p + d) ∉ S

theorem collide_mono (sequence : Bool) (rnd : Nat → Nat) (new : Map TypeDef) (f f' m seq pos : Nat) (hle : f ≤ f')
    (r : Nat × Nat × Nat) (h : collide sequence rnd new f m seq pos = some r) :
    collide sequence rnd new f' m seq pos = some r := by
  induction f generalizing f' m seq pos with
  | zero => simp [collide] at h
  | succ n ih =>
    obtain ⟨g, rfl⟩ : ∃ g, f' = g + 1 := ⟨f' - 1, by omega⟩
    simp only [collide] at h ⊢
    by_cases hc : Map.contains new m = true
    · simp only [hc, if_true] at h ⊢
      cases sequence with
      | true => simp only [if_true] at h ⊢; exact ih _ _ _ _ (by omega) h
      | false => simp only [Bool.false_eq_true, if_false] at h ⊢; exact ih _ _ _ _ (by omega) h
    · simp only [hc, Bool.false_eq_true, if_false] at h ⊢; exact h

theorem collide_fair (rnd : Nat → Nat) (new : Map TypeDef) (d m seq pos : Nat)
    (hfree : Map.contains new (rnd (pos + d)) = false) :
    ∃ r, collide false rnd new (d + 2) m seq pos = some r := by
  induction d generalizing m pos with
  | zero =>
    simp only [collide, Bool.false_eq_true, if_false]
    by_cases hc : Map.contains new m = true
    · simp only [hc, if_true]
      have : Map.contains new (rnd pos) = false := by simpa using hfree
      simp [this]
    · simp [hc]
  | succ n ih =>
    have e : n + 1 + 2 = (n + 2) + 1 := by omega
    rw [e]
    simp only [collide, Bool.false_eq_true, if_false]
    by_cases hc : Map.contains new m = true
    · simp only [hc, if_true]
      exact ih (rnd pos) (pos + 1) (by rw [← hfree]; congr 2; omega)
    · simp [hc]

theorem stepKey_mono (sequence : Bool) (rnd : Nat → Nat) (f f' : Nat) (hle : f ≤ f') (st st' : RState) (e : Nat × TypeDef)
    (h : stepKey sequence rnd f st e = some st') : stepKey sequence rnd f' st e = some st' := by
  unfold stepKey at h ⊢
  simp only at h ⊢
  split at h
  · cases h
  · rename_i m seq pos hc
    rw [collide_mono _ _ _ f f' _ _ _ hle _ hc]
    exact h

theorem runKeys_mono (sequence : Bool) (rnd : Nat → Nat) (f f' : Nat) (hle : f ≤ f') (l : List (Nat × TypeDef))
    (st st' : RState) (h : runKeys sequence rnd f st l = some st') : runKeys sequence rnd f' st l = some st' := by
  induction l generalizing st with
  | nil => exact h
  | cons e r ih =>
    simp only [runKeys] at h ⊢
    split at h
    · cases h
    · rename_i st1 hs
      rw [stepKey_mono _ _ f f' hle _ _ _ hs]
      exact ih st1 h

theorem runKeys_fair (rnd : Nat → Nat) (hfair : Fair rnd) (l : List (Nat × TypeDef)) (st : RState) :
    ∃ fuel st', runKeys false rnd fuel st l = some st' := by
  induction l generalizing st with
  | nil => exact ⟨0, st, rfl⟩
  | cons e r ih =>
    obtain ⟨d, hd⟩ := hfair (Map.keys st.newTypeStruct) (st.pos + 1)
    have hfree : Map.contains st.newTypeStruct (rnd (st.pos + 1 + d)) = false := by
      cases h : Map.contains st.newTypeStruct (rnd (st.pos + 1 + d)) with
      | false => rfl
      | true => rw [contains_iff] at h; exact absurd h hd
    obtain ⟨c, hc⟩ := collide_fair rnd st.newTypeStruct d (rnd st.pos) st.seq (st.pos + 1) hfree
    have hs : ∃ st1, stepKey false rnd (d + 2) st e = some st1 := by
      unfold stepKey
      simp only [Bool.false_eq_true, if_false, hc]
      exact ⟨_, rfl⟩
    obtain ⟨st1, hs1⟩ := hs
    obtain ⟨f2, st2, h2⟩ := ih st1
    refine ⟨max (d + 2) f2, st2, ?_⟩
    simp only [runKeys, stepKey_mono false rnd (d + 2) _ (Nat.le_max_left _ _) st st1 e hs1]
    exact runKeys_mono false rnd f2 _ (Nat.le_max_right _ _) r st1 st2 h2

theorem fair_of_injective (rnd : Nat → Nat) (hinj : ∀ i j, rnd i = rnd j → i = j) : Fair rnd := by
  intro S
  induction S with
  | nil => intro p; exact ⟨0, by simp⟩
  | cons a S ih =>
    intro p
    obtain ⟨d, hd⟩ := ih p
    by_cases ha : rnd (p + d) = a
    · -- the value a is used up at position p + d; look beyond it
      obtain ⟨d2, hd2⟩ := ih (p + d + 1)
      refine ⟨d + 1 + d2, ?_⟩
      have e : p + (d + 1 + d2) = p + d + 1 + d2 := by omega
      rw [e]
      simp only [List.mem_cons, not_or]
      refine ⟨fun h => ?_, hd2⟩
      have := hinj _ _ (h.trans ha.symm)
      omega
    · exact ⟨d, by simp only [List.mem_cons, not_or]; exact ⟨ha, hd⟩⟩

/-! ## renumbering followed by section removal -/

/-- sequential mode, fewer types than the marker number: a component carries the marker number afterwards exactly
when it carried it before **and** the marker number was not a type of the index -/
theorem seq_marker_iff (order : List (Nat × TypeDef)) (st : RState) (t : Topology) (hinv : RInv order st)
    (hk : Map.keys st.newTypeStruct = List.range' 1 order.length) (ho : order.Perm t.ti)
    (hn : order.length < Gen.sectionType) (c : HWc) :
    (remapHWc st.typeMapping c).type = Gen.sectionType ↔
      (c.type = Gen.sectionType ∧ Spec.Topo.base t Gen.sectionType = none) := by
  have hsec : Gen.sectionType ≠ 0 := by decide
  unfold remapHWc
  by_cases hz : c.type = 0
  · simp only [hz, ne_eq, not_true_eq_false, if_false]
    constructor
    · intro h; exact absurd h.symm hsec
    · intro h; exact absurd h.1.symm hsec
  · simp only [ne_eq, hz, not_false_eq_true, if_true]
    cases hl : Map.lookup st.typeMapping c.type with
    | some m =>
      simp only
      -- a handed-out id is one of 1..n, hence below the marker number
      have hdom := hinv.mapDom c.type m hl
      obtain ⟨⟨k, v⟩, hkv, hkk⟩ := List.mem_map.1 hdom
      simp only at hkk
      subst hkk
      obtain ⟨m', hm1, hm2⟩ := hinv.mapDef c.type v hkv
      rw [hl] at hm1
      cases hm1
      have hmk : m ∈ Map.keys st.newTypeStruct := (Map.lookup_isSome_iff _ _).1 (by rw [hm2]; rfl)
      rw [hk, List.mem_range'_1] at hmk
      constructor
      · intro h; omega
      · rintro ⟨h1, h2⟩
        -- the type is indexed (it was renumbered), so the marker number was indexed: contradiction
        have hkt : c.type ∈ Map.keys t.ti := List.mem_map.2 ⟨(c.type, v), (ho.mem_iff).1 hkv, rfl⟩
        have hsome := (Map.lookup_isSome_iff t.ti c.type).2 hkt
        rw [lookup_eq_base, h1, h2] at hsome
        cases hsome
    | none =>
      simp only
      constructor
      · intro h
        refine ⟨h, ?_⟩
        cases hb : Spec.Topo.base t Gen.sectionType with
        | none => rfl
        | some v =>
          rw [← lookup_eq_base] at hb
          have hmem : (Gen.sectionType, v) ∈ order := (ho.mem_iff).2 (Map.mem_of_lookup t.ti _ v hb)
          obtain ⟨m, hm1, _⟩ := hinv.mapDef _ v hmem
          rw [← h, hl] at hm1
          cases hm1
      · intro h; exact h.1

/-- with at least as many types as the marker number, sequential renumbering hands the marker number to some
indexed type: every component of that type becomes a "section marker" -/
theorem seq_marker_handed_out (order : List (Nat × TypeDef)) (st : RState) (hinv : RInv order st)
    (hk : Map.keys st.newTypeStruct = List.range' 1 order.length) (hn : Gen.sectionType ≤ order.length) :
    ∃ k, k ∈ order.map (·.1) ∧ ∀ c : HWc, c.type = k → k ≠ 0 → (remapHWc st.typeMapping c).type = Gen.sectionType := by
  have hm : Gen.sectionType ∈ Map.keys st.newTypeStruct := by
    rw [hk, List.mem_range'_1]
    have : 1 ≤ Gen.sectionType := by decide
    omega
  obtain ⟨k, hk1, hk2⟩ := hinv.newDom _ hm
  refine ⟨k, hk1, ?_⟩
  intro c hc hz
  subst hc
  simp [remapHWc, hz, hk2]

end RawPanelVerif.Topo
