import RawPanelVerif.Lemmas.TopoMap
import RawPanelVerif.Lemmas.TopoLookup
/-! C14 helper lemmas: `RandomizeTypes` (invariants of the key loop, every iteration order / random stream)
and `CleanSections` (reverse-order deletion = filter). -/
namespace RawPanelVerif.Topo
open RawPanelVerif

/-! ## the collision loop -/

/-- whatever the loop returns is a free id -/
theorem collide_free (sequence : Bool) (rnd : Nat → Nat) (new : Map TypeDef) (fuel m seq pos : Nat)
    (r : Nat × Nat × Nat) (h : collide sequence rnd new fuel m seq pos = some r) :
    Map.lookup new r.1 = none := by
  induction fuel generalizing m seq pos with
  | zero => simp [collide] at h
  | succ n ih =>
    simp only [collide] at h
    by_cases hc : Map.contains new m = true
    · simp only [hc, if_true] at h
      cases sequence with
      | true => exact ih _ _ _ h
      | false => exact ih _ _ _ h
    · simp only [hc] at h
      simp only [Bool.false_eq_true, if_false, Option.some.injEq] at h
      subst h
      simp only [Map.contains] at hc
      cases hl : Map.lookup new m with
      | none => rfl
      | some v => simp [hl] at hc

/-! ## general invariant of the key loop (both modes) -/

structure RInv (done : List (Nat × TypeDef)) (st : RState) : Prop where
  sorted : Map.Sorted st.newTypeStruct
  len : st.newTypeStruct.length = done.length
  mapDef : ∀ k v, (k, v) ∈ done → ∃ m, Map.lookup st.typeMapping k = some m ∧ Map.lookup st.newTypeStruct m = some v
  mapDom : ∀ k m, Map.lookup st.typeMapping k = some m → k ∈ done.map (·.1)

theorem RInv.init : RInv [] {} :=
  ⟨by simp [Map.Sorted, Map.keys], rfl, (by intro k v h; cases h), (by intro k m h; simp [Map.lookup] at h)⟩

theorem RInv.step (sequence : Bool) (rnd : Nat → Nat) (fuel : Nat) (done : List (Nat × TypeDef)) (st st' : RState)
    (e : Nat × TypeDef) (hinv : RInv done st) (hnew : e.1 ∉ done.map (·.1))
    (hs : stepKey sequence rnd fuel st e = some st') : RInv (done ++ [e]) st' := by
  unfold stepKey at hs
  simp only at hs
  split at hs
  · cases hs
  · rename_i m seq pos hc
    simp only [Option.some.injEq] at hs
    have hfree : Map.lookup st.newTypeStruct m = none := collide_free _ _ _ _ _ _ _ _ hc
    subst hs
    refine ⟨Map.insert_sorted _ _ _ hinv.sorted, ?_, ?_, ?_⟩
    · simp only [Map.length_insert_new _ _ _ hfree, hinv.len, List.length_append, List.length_singleton]
    · intro k v hkv
      simp only [List.mem_append, List.mem_singleton] at hkv
      rcases hkv with hkv | hkv
      · obtain ⟨m0, h1, h2⟩ := hinv.mapDef k v hkv
        have hk : k ≠ e.1 := by
          intro he
          apply hnew
          rw [← he]
          exact List.mem_map.2 ⟨(k, v), hkv, rfl⟩
        have hm : m0 ≠ m := by
          intro he; rw [he, hfree] at h2; cases h2
        exact ⟨m0, by rw [Map.lookup_insert_ne _ _ _ _ hk]; exact h1, by rw [Map.lookup_insert_ne _ _ _ _ hm]; exact h2⟩
      · subst hkv
        exact ⟨m, Map.lookup_insert_self _ _ _, Map.lookup_insert_self _ _ _⟩
    · intro k m0 hk
      simp only [List.map_append, List.map_cons, List.map_nil, List.mem_append, List.mem_singleton]
      by_cases he : k = e.1
      · exact Or.inr he
      · rw [Map.lookup_insert_ne _ _ _ _ he] at hk
        exact Or.inl (hinv.mapDom k m0 hk)

theorem runKeys_inv (P : List (Nat × TypeDef) → RState → Prop) (sequence : Bool) (rnd : Nat → Nat) (fuel : Nat)
    (hstep : ∀ done st st' e, P done st → e.1 ∉ done.map (·.1) → stepKey sequence rnd fuel st e = some st' →
      P (done ++ [e]) st')
    (done l : List (Nat × TypeDef)) (st st' : RState) (hnd : ((done ++ l).map (·.1)).Nodup) (h0 : P done st)
    (hr : runKeys sequence rnd fuel st l = some st') : P (done ++ l) st' := by
  induction l generalizing done st with
  | nil =>
    simp only [runKeys, Option.some.injEq] at hr
    subst hr; simpa using h0
  | cons e r ih =>
    simp only [runKeys] at hr
    split at hr
    · cases hr
    · rename_i st1 hs
      have hnotin : e.1 ∉ done.map (·.1) := by
        intro hm
        simp only [List.map_append, List.map_cons] at hnd
        have := (List.nodup_append.1 hnd).2.2 e.1 hm e.1 (List.mem_cons_self)
        exact this rfl
      have h1 := hstep done st st1 e h0 hnotin hs
      have := ih (done ++ [e]) st1 (by simpa using hnd) h1 hr
      simpa using this

theorem runKeys_RInv (sequence : Bool) (rnd : Nat → Nat) (fuel : Nat) (order : List (Nat × TypeDef)) (st : RState)
    (hnd : (order.map (·.1)).Nodup) (hr : runKeys sequence rnd fuel {} order = some st) : RInv order st := by
  have := runKeys_inv RInv sequence rnd fuel (RInv.step sequence rnd fuel) [] order {} st (by simpa using hnd)
    RInv.init hr
  simpa using this

theorem order_nodup (m order : List (Nat × TypeDef)) (hs : Map.Sorted m) (ho : order.Perm m) :
    (order.map (·.1)).Nodup := by
  have hpm : (order.map (·.1)).Perm (Map.keys m) := ho.map (·.1)
  exact (hpm.nodup_iff).2 (Map.sorted_nodup m hs)

/-! ## sequential mode: exact invariant, termination -/

structure SInv (done : List (Nat × TypeDef)) (st : RState) : Prop where
  keys : Map.keys st.newTypeStruct = List.range' 1 done.length
  seq : st.seq = max 1 done.length

theorem contains_iff {α : Type} (m : Map α) (k : Nat) : Map.contains m k = true ↔ k ∈ Map.keys m := by
  unfold Map.contains; exact Map.lookup_isSome_iff m k

theorem SInv.stepOk (rnd : Nat → Nat) (fuel : Nat) (hf : 2 ≤ fuel) (done : List (Nat × TypeDef)) (st : RState)
    (e : Nat × TypeDef) (hinv : SInv done st) :
    ∃ st', stepKey true rnd fuel st e = some st' ∧ SInv (done ++ [e]) st' := by
  obtain ⟨f, rfl⟩ : ∃ f, fuel = f + 2 := ⟨fuel - 2, by omega⟩
  unfold stepKey
  simp only [if_true]
  by_cases hj : done.length = 0
  · -- first key: id 1 is free
    have hseq : st.seq = 1 := by rw [hinv.seq, hj]; rfl
    have hk : Map.keys st.newTypeStruct = [] := by rw [hinv.keys, hj]; rfl
    have hc : Map.contains st.newTypeStruct 1 = false := by
      cases h : Map.contains st.newTypeStruct 1 with
      | false => rfl
      | true => rw [contains_iff, hk] at h; cases h
    simp only [hseq, collide, hc, Bool.false_eq_true, if_false]
    refine ⟨_, rfl, ?_, ?_⟩
    · simp only
      rw [Map.keys_insert_max _ _ _ (by rw [hk]; intro q hq; cases hq), hk]
      simp [hj]
    · simp [hj]
  · -- later keys: seq (= number done) is taken, seq+1 is free
    have hpos : 1 ≤ done.length := by omega
    have hseq : st.seq = done.length := by rw [hinv.seq]; omega
    have hc1 : Map.contains st.newTypeStruct done.length = true := by
      rw [contains_iff, hinv.keys, List.mem_range'_1]; omega
    have hc2 : Map.contains st.newTypeStruct (done.length + 1) = false := by
      cases h : Map.contains st.newTypeStruct (done.length + 1) with
      | false => rfl
      | true => rw [contains_iff, hinv.keys, List.mem_range'_1] at h; omega
    simp only [hseq, collide, hc1, hc2, if_true, Bool.false_eq_true, if_false]
    refine ⟨_, rfl, ?_, ?_⟩
    · simp only
      rw [Map.keys_insert_max _ _ _ (by rw [hinv.keys]; intro q hq; rw [List.mem_range'_1] at hq; omega), hinv.keys]
      simp only [List.length_append, List.length_singleton]
      rw [List.range'_concat]
      simp only [Nat.one_mul, List.append_cancel_left_eq, List.cons.injEq, and_true]
      omega
    · simp only [List.length_append, List.length_singleton]; omega

theorem runKeys_seq (rnd : Nat → Nat) (fuel : Nat) (hf : 2 ≤ fuel) (done l : List (Nat × TypeDef)) (st : RState)
    (h0 : SInv done st) : ∃ st', runKeys true rnd fuel st l = some st' ∧ SInv (done ++ l) st' := by
  induction l generalizing done st with
  | nil => exact ⟨st, rfl, by simpa using h0⟩
  | cons e r ih =>
    obtain ⟨st1, hs, h1⟩ := SInv.stepOk rnd fuel hf done st e h0
    obtain ⟨st2, hr, h2⟩ := ih (done ++ [e]) st1 h1
    refine ⟨st2, by simp only [runKeys, hs, hr], by simpa using h2⟩

theorem SInv.init : SInv [] {} := ⟨rfl, rfl⟩

/-! ## the component loop -/

theorem eraseType_remap (mp : Map Nat) (c : HWc) :
    Spec.Topo.eraseType (remapHWc mp c) = Spec.Topo.eraseType c := by
  unfold remapHWc Spec.Topo.eraseType
  split
  · split <;> rfl
  · rfl

/-! ## CleanSections -/

def delStep (i : Nat) (acc : Option (List HWc)) : Option (List HWc) := acc.bind (fun l => slicesDelete1 l i)

theorem foldr_delStep_none (ids : List Nat) : ids.foldr delStep none = none := by
  induction ids with
  | nil => rfl
  | cons i r ih => simp [List.foldr_cons, ih, delStep]

theorem deleteLoop_eq (ids : List Nat) (n : Nat) (hn : n ≤ ids.length) (hwc : List HWc) :
    deleteLoop ids n (ids.length - n) hwc = (ids.take n).foldr delStep (some hwc) := by
  induction n generalizing hwc with
  | zero => simp [deleteLoop]
  | succ n ih =>
    have hlt : n < ids.length := by omega
    have hidx : ids.length - 1 - (ids.length - (n + 1)) = n := by omega
    simp only [deleteLoop, hidx, List.getElem?_eq_getElem hlt]
    rw [List.take_add_one, List.getElem?_eq_getElem hlt]
    simp only [Option.toList_some, List.foldr_append, List.foldr_cons, List.foldr_nil]
    have hi : ids.length - (n + 1) + 1 = ids.length - n := by omega
    cases hd : slicesDelete1 hwc ids[n] with
    | none => simp only [delStep, Option.bind_some, hd, foldr_delStep_none]
    | some hwc' =>
      simp only [delStep, Option.bind_some, hd, hi]
      exact ih (by omega) hwc'

theorem clean_foldr (l p : List HWc) (off : Nat) (hp : p.length = off) :
    (sectionIdxs l off).foldr delStep (some (p ++ l))
      = some (p ++ l.filter (fun c => c.type != Gen.sectionType)) := by
  induction l generalizing p off with
  | nil => simp [sectionIdxs]
  | cons c r ih =>
    have hcat : p ++ c :: r = (p ++ [c]) ++ r := by simp
    by_cases hm : c.type = Gen.sectionType
    · simp only [sectionIdxs, hm, if_true, List.foldr_cons, List.filter_cons]
      rw [hcat, ih (p ++ [c]) (off + 1) (by simp [hp])]
      simp only [delStep, Option.bind_some, slicesDelete1]
      have hlen : off + 1 ≤ (p ++ [c] ++ List.filter (fun c => c.type != Gen.sectionType) r).length := by
        simp only [List.length_append, List.length_singleton]; omega
      simp only [hlen, if_true, bne_self_eq_false, Bool.false_eq_true, if_false]
      congr 1
      rw [List.append_assoc, List.eraseIdx_append_of_length_le (by omega)]
      simp [hp]
    · have hb : (c.type != Gen.sectionType) = true := by simp [hm]
      simp only [sectionIdxs, hm, if_false, List.filter_cons, hb, if_true]
      rw [hcat, ih (p ++ [c]) (off + 1) (by simp [hp])]
      simp

end RawPanelVerif.Topo
