import RawPanelVerif.Model.Topology
import RawPanelVerif.Spec.TopologySpec
/-! C13 helper lemmas: the model's predicate functions against the Spec's independent reading. -/
namespace RawPanelVerif.Topo
open RawPanelVerif

theorem bytesOf_eq (s : String) : bytesOf s = Spec.Topo.bytes s := rfl

theorem beq_dec (a b : Str) : (a == b) = decide (a = b) := by
  by_cases h : a = b <;> simp [h]

/-! ## first comma-separated token -/

theorem cutComma_eq_firstTok (s : Str) : cutComma s = Spec.Topo.firstTok s := by
  unfold Spec.Topo.firstTok
  induction s with
  | nil => rfl
  | cons c r ih =>
    simp only [cutComma, List.takeWhile_cons]
    by_cases h : c = 44
    · simp [h]
    · simp [h, ih]

theorem firstTok_isFirst (s : Str) : Spec.Topo.IsFirstToken s (Spec.Topo.firstTok s) := by
  unfold Spec.Topo.IsFirstToken Spec.Topo.firstTok
  induction s with
  | nil => exact ⟨by simp, Or.inl rfl⟩
  | cons c r ih =>
    simp only [List.takeWhile_cons]
    by_cases h : c = 44
    · subst h
      exact ⟨by simp, Or.inr ⟨r, by simp⟩⟩
    · have hb : (c != 44) = true := by simp [h]
      simp only [hb, if_true]
      obtain ⟨h1, h2⟩ := ih
      refine ⟨?_, ?_⟩
      · intro hm
        simp only [List.mem_cons] at hm
        rcases hm with hm | hm
        · exact h hm.symm
        · exact h1 hm
      · rcases h2 with h2 | ⟨rest, h2⟩
        · exact Or.inl (by rw [← h2])
        · exact Or.inr ⟨rest, by simp only [List.cons_append]; rw [← h2]⟩

theorem takeWhile_no_comma (tok rest : Str) (h : 44 ∉ tok) :
    (tok ++ 44 :: rest).takeWhile (· != 44) = tok ∧ tok.takeWhile (· != 44) = tok := by
  induction tok with
  | nil => simp
  | cons c r ih =>
    simp only [List.mem_cons, not_or] at h
    have hb : (c != 44) = true := by simp; exact fun e => h.1 e.symm
    obtain ⟨i1, i2⟩ := ih h.2
    simp only [List.cons_append, List.takeWhile_cons, hb, if_true, i1, i2, and_self]

/-- the relational reading determines the token -/
theorem isFirst_unique (s tok : Str) (h : Spec.Topo.IsFirstToken s tok) : tok = Spec.Topo.firstTok s := by
  obtain ⟨h1, h2⟩ := h
  unfold Spec.Topo.firstTok
  rcases h2 with rfl | ⟨rest, rfl⟩
  · exact (takeWhile_no_comma s [] h1).2.symm
  · exact (takeWhile_no_comma tok rest h1).1.symm

/-! ## kind tests -/

theorem getInputType_eq (td : TypeDef) : getInputType td = Spec.Topo.firstTok td.inp := cutComma_eq_firstTok _

theorem isButton_eq (td : TypeDef) : isButton td = Spec.Topo.kindIn (Spec.Topo.firstTok td.inp) Spec.Topo.buttonKinds := by
  simp only [isButton, getInputType_eq, Spec.Topo.kindIn, Spec.Topo.buttonKinds, bytesOf_eq, List.map_cons, List.map_nil,
    List.contains_cons, List.contains_nil, Bool.or_false, beq_dec, Bool.or_assoc]

theorem isBinary_eq (td : TypeDef) : isBinary td = Spec.Topo.kindIn (Spec.Topo.firstTok td.inp) Spec.Topo.binaryKinds := by
  simp only [isBinary, isButton, getInputType_eq, Spec.Topo.kindIn, Spec.Topo.binaryKinds, Spec.Topo.buttonKinds, bytesOf_eq,
    List.cons_append, List.nil_append, List.map_cons, List.map_nil,
    List.contains_cons, List.contains_nil, Bool.or_false, beq_dec, Bool.or_assoc]

theorem isPulsed_eq (td : TypeDef) : isPulsed td = Spec.Topo.kindIn (Spec.Topo.firstTok td.inp) Spec.Topo.pulsedKinds := by
  simp only [isPulsed, getInputType_eq, Spec.Topo.kindIn, Spec.Topo.pulsedKinds, bytesOf_eq, List.map_cons, List.map_nil,
    List.contains_cons, List.contains_nil, Bool.or_false, beq_dec, Bool.or_assoc]

theorem isAbsolute_eq (td : TypeDef) : isAbsolute td = Spec.Topo.kindIn (Spec.Topo.firstTok td.inp) Spec.Topo.absoluteKinds := by
  simp only [isAbsolute, getInputType_eq, Spec.Topo.kindIn, Spec.Topo.absoluteKinds, bytesOf_eq, List.map_cons, List.map_nil,
    List.contains_cons, List.contains_nil, Bool.or_false, beq_dec, Bool.or_assoc]

theorem isIntensity_eq (td : TypeDef) : isIntensity td = Spec.Topo.kindIn (Spec.Topo.firstTok td.inp) Spec.Topo.intensityKinds := by
  simp only [isIntensity, getInputType_eq, Spec.Topo.kindIn, Spec.Topo.intensityKinds, bytesOf_eq, List.map_cons, List.map_nil,
    List.contains_cons, List.contains_nil, Bool.or_false, beq_dec, Bool.or_assoc]

theorem hasLED_eq (td : TypeDef) :
    hasLED td = (td.out == Spec.Topo.bytes "rgb" || Spec.Topo.kindIn td.inp Spec.Topo.ledInputs) := by
  simp only [hasLED, Spec.Topo.kindIn, Spec.Topo.ledInputs, bytesOf_eq, List.map_cons, List.map_nil,
    List.contains_cons, List.contains_nil, Bool.or_false, Bool.or_assoc, beq_dec]
  congr

theorem isMotorized_eq (td : TypeDef) : isMotorized td = (td.ext == Spec.Topo.bytes "pos") := by
  simp only [isMotorized, bytesOf_eq, beq_dec]
  congr

/-! ## substring test -/

theorem containsSub_iff (s sub : Str) : containsSub s sub = true ↔ sub <:+: s := by
  induction s with
  | nil => simp [containsSub, List.isEmpty_iff]
  | cons c r ih =>
    simp only [containsSub, Bool.or_eq_true, List.isPrefixOf_iff_prefix, ih, List.infix_cons_iff]

theorem hasInfix_iff (sub s : Str) : Spec.Topo.hasInfix sub s = true ↔ sub <:+: s := by
  unfold Spec.Topo.hasInfix
  simp only [List.any_eq_true, List.mem_range, List.isPrefixOf_iff_prefix]
  constructor
  · rintro ⟨i, _, ⟨t, ht⟩⟩
    exact ⟨s.take i, t, by rw [List.append_assoc, ht, List.take_append_drop]⟩
  · rintro ⟨a, b, hab⟩
    refine ⟨a.length, ?_, ⟨b, ?_⟩⟩
    · rw [← hab]; simp only [List.length_append]; omega
    · rw [← hab, List.append_assoc, List.drop_left]

theorem containsSub_eq_hasInfix (s sub : Str) : containsSub s sub = Spec.Topo.hasInfix sub s := by
  rw [Bool.eq_iff_iff, containsSub_iff, hasInfix_iff]

/-! ## index span -/

def stepFold (mm : Int × Int) (s : SubEl) : Int × Int :=
  (if s.idx < mm.1 then s.idx else mm.1, if s.idx > mm.2 then s.idx else mm.2)

theorem stepFold_foldl (l : List SubEl) (a b : Int) :
    l.foldl stepFold (a, b) = ((l.map (·.idx)).foldl min a, (l.map (·.idx)).foldl max b) := by
  induction l generalizing a b with
  | nil => rfl
  | cons s r ih =>
    simp only [List.foldl_cons, List.map_cons, stepFold]
    rw [ih]
    have e1 : (if s.idx < a then s.idx else a) = min a s.idx := by
      by_cases h : s.idx < a
      · simp only [h, if_true]; omega
      · simp only [h, if_false]; omega
    have e2 : (if s.idx > b then s.idx else b) = max b s.idx := by
      by_cases h : s.idx > b
      · simp only [h, if_true]; omega
      · simp only [h, if_false]; omega
    rw [e1, e2]

theorem hasSteps_unfold (td : TypeDef) :
    hasSteps td = if td.ext = sSteps then (td.sub.foldl stepFold (10000, -10000)).2 - (td.sub.foldl stepFold (10000, -10000)).1 + 1 else 0 := rfl

/-- the code's sentinels disappear once the list is non-empty and its indices are within ±10000 -/
theorem hasSteps_span (td : TypeDef) (he : td.ext = Spec.Topo.bytes "steps") (n : Int)
    (hs : Spec.Topo.stepSpan td = some n) : hasSteps td = n := by
  have he' : td.ext = sSteps := he
  rw [hasSteps_unfold, if_pos he']
  unfold Spec.Topo.stepSpan at hs
  cases hl : td.sub with
  | nil => simp [hl] at hs
  | cons s r =>
    simp only [hl, List.map_cons, List.max?_cons', List.min?_cons'] at hs
    split at hs
    · rename_i hall
      simp only [Option.some.injEq] at hs
      simp only [List.all_cons, Bool.and_eq_true, decide_eq_true_eq] at hall
      obtain ⟨⟨h1, h2⟩, _⟩ := hall
      simp only [List.foldl_cons, stepFold]
      have e1 : (if s.idx < (10000 : Int) then s.idx else 10000) = s.idx := by
        by_cases h : s.idx < 10000
        · simp only [h, if_true]
        · simp only [h, if_false]; omega
      have e2 : (if s.idx > (-10000 : Int) then s.idx else -10000) = s.idx := by
        by_cases h : s.idx > -10000
        · simp only [h, if_true]
        · simp only [h, if_false]; omega
      rw [e1, e2, stepFold_foldl]
      exact hs
    · cases hs

end RawPanelVerif.Topo
