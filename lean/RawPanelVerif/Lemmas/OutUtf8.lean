import RawPanelVerif.Lemmas.OutLemmas
/-! The payload domain of C03 (`Spec.Out.payloadOk`: valid UTF-8, written as a fuelled recursive recogniser in the Spec)
implies `Strip.validUtf8` (the same language as a byte-wise automaton), hence the guard `Strip.JoinSafe` of the C07
content theorem. -/
namespace RawPanelVerif.OutLemmas
open RawPanelVerif RawPanelVerif.Bytes RawPanelVerif.Strip

theorem run1 (b0 : UInt8) (r : Bytes) (h : b0 < 0x80) : utf8Run [] (b0 :: r) = utf8Run [] r := by
  have e : utf8Step [] b0 = some [] := by
    show leadInfo b0 = some []
    unfold leadInfo; rw [if_pos h]
  simp only [utf8Run, e]

theorem cont_isCont (b : UInt8) (h : (decide (0x80 ≤ b) && decide (b ≤ 0xBF)) = true) : isCont b = true := h

theorem stepCont (lo hi b : UInt8) (rest : Utf8St) (hc : isCont b = true) (h1 : lo ≤ b) (h2 : b ≤ hi) :
    utf8Step ((lo, hi) :: rest) b = some rest := by
  show (if isCont b = true ∧ lo ≤ b ∧ b ≤ hi then some rest else none) = some rest
  rw [if_pos ⟨hc, h1, h2⟩]

theorem isCont_range (b : UInt8) (h : isCont b = true) : 0x80 ≤ b ∧ b ≤ 0xBF := by
  unfold isCont at h
  simpa using h

theorem run2 (b0 b1 : UInt8) (r : Bytes) (h0 : 0xC2 ≤ b0 ∧ b0 ≤ 0xDF) (h1 : isCont b1 = true) :
    utf8Run [] (b0 :: b1 :: r) = utf8Run [] r := by
  have e : utf8Step [] b0 = some [(0x80, 0xBF)] := by
    show leadInfo b0 = some _
    unfold leadInfo
    have : ¬ b0 < 0x80 := by
      simp only [UInt8.le_iff_toNat_le, UInt8.lt_iff_toNat_lt, UInt8.toNat_ofNat] at *; omega
    rw [if_neg this, if_pos h0]
  have ⟨c1, c2⟩ := isCont_range b1 h1
  simp only [utf8Run, e, stepCont _ _ b1 [] h1 c1 c2]

theorem lead3 (b0 : UInt8) (h0 : 0xE0 ≤ b0 ∧ b0 ≤ 0xEF) :
    leadInfo b0 = some [(if b0 = 0xE0 then 0xA0 else 0x80, if b0 = 0xED then 0x9F else 0xBF), (0x80, 0xBF)] := by
  unfold leadInfo
  simp only [UInt8.le_iff_toNat_le, UInt8.lt_iff_toNat_lt, ← UInt8.toNat_inj, UInt8.toNat_ofNat] at *
  repeat' split
  all_goals first | rfl | omega

theorem lead4 (b0 : UInt8) (h0 : 0xF0 ≤ b0 ∧ b0 ≤ 0xF4) :
    leadInfo b0 = some [(if b0 = 0xF0 then 0x90 else 0x80, if b0 = 0xF4 then 0x8F else 0xBF), (0x80, 0xBF), (0x80, 0xBF)] := by
  unfold leadInfo
  simp only [UInt8.le_iff_toNat_le, UInt8.lt_iff_toNat_lt, ← UInt8.toNat_inj, UInt8.toNat_ofNat] at *
  repeat' split
  all_goals first | rfl | omega

theorem run3 (b0 b1 b2 : UInt8) (r : Bytes) (h0 : 0xE0 ≤ b0 ∧ b0 ≤ 0xEF) (h1 : isCont b1 = true) (h2 : isCont b2 = true)
    (ha : b0 ≠ 0xE0 ∨ 0xA0 ≤ b1) (hb : b0 ≠ 0xED ∨ b1 ≤ 0x9F) :
    utf8Run [] (b0 :: b1 :: b2 :: r) = utf8Run [] r := by
  have e : utf8Step [] b0 = _ := lead3 b0 h0
  have ⟨c1, c2⟩ := isCont_range b1 h1
  have ⟨d1, d2⟩ := isCont_range b2 h2
  have l1 : (if b0 = 0xE0 then (0xA0 : UInt8) else 0x80) ≤ b1 := by
    split
    · rename_i h; rcases ha with ha | ha
      · exact absurd h ha
      · exact ha
    · exact c1
  have l2 : b1 ≤ (if b0 = 0xED then (0x9F : UInt8) else 0xBF) := by
    split
    · rename_i h; rcases hb with hb | hb
      · exact absurd h hb
      · exact hb
    · exact c2
  simp only [utf8Run, e, stepCont _ _ b1 _ h1 l1 l2, stepCont _ _ b2 [] h2 d1 d2]

theorem run4 (b0 b1 b2 b3 : UInt8) (r : Bytes) (h0 : 0xF0 ≤ b0 ∧ b0 ≤ 0xF4) (h1 : isCont b1 = true) (h2 : isCont b2 = true)
    (h3 : isCont b3 = true) (ha : b0 ≠ 0xF0 ∨ 0x90 ≤ b1) (hb : b0 ≠ 0xF4 ∨ b1 ≤ 0x8F) :
    utf8Run [] (b0 :: b1 :: b2 :: b3 :: r) = utf8Run [] r := by
  have e : utf8Step [] b0 = _ := lead4 b0 h0
  have ⟨c1, c2⟩ := isCont_range b1 h1
  have ⟨d1, d2⟩ := isCont_range b2 h2
  have ⟨f1, f2⟩ := isCont_range b3 h3
  have l1 : (if b0 = 0xF0 then (0x90 : UInt8) else 0x80) ≤ b1 := by
    split
    · rename_i h; rcases ha with ha | ha
      · exact absurd h ha
      · exact ha
    · exact c1
  have l2 : b1 ≤ (if b0 = 0xF4 then (0x8F : UInt8) else 0xBF) := by
    split
    · rename_i h; rcases hb with hb | hb
      · exact absurd h hb
      · exact hb
    · exact c2
  simp only [utf8Run, e, stepCont _ _ b1 _ h1 l1 l2, stepCont _ _ b2 _ h2 d1 d2, stepCont _ _ b3 [] h3 f1 f2]

/-- the Spec's recogniser accepts only strings the automaton accepts -/
theorem specValid_run (n : Nat) (s : Bytes) (h : Spec.Out.validUtf8 n s = true) : utf8Run [] s = some [] := by
  induction n generalizing s with
  | zero =>
    cases s with
    | nil => rfl
    | cons a r => simp [Spec.Out.validUtf8] at h
  | succ n ih =>
    cases s with
    | nil => rfl
    | cons b0 r =>
      unfold Spec.Out.validUtf8 at h
      simp only [] at h
      split at h
      · rename_i h0
        rw [run1 b0 r h0]; exact ih r h
      · split at h
        · rename_i h0
          simp only [Bool.and_eq_true, decide_eq_true_eq] at h0
          split at h
          · simp only [Bool.and_eq_true] at h
            rw [run2 b0 _ _ h0 (cont_isCont _ (by simpa using h.1))]; exact ih _ h.2
          · exact absurd h (by simp)
        · split at h
          · rename_i h0
            simp only [Bool.and_eq_true, decide_eq_true_eq] at h0
            split at h
            · simp only [Bool.and_eq_true, Bool.or_eq_true, bne_iff_ne, ne_eq, decide_eq_true_eq] at h
              obtain ⟨⟨⟨⟨k1, k2⟩, k3⟩, k4⟩, k5⟩ := h
              rw [run3 b0 _ _ _ h0 (cont_isCont _ (by simpa using k1)) (cont_isCont _ (by simpa using k2)) k3 k4]
              exact ih _ k5
            · exact absurd h (by simp)
          · split at h
            · rename_i h0
              simp only [Bool.and_eq_true, decide_eq_true_eq] at h0
              split at h
              · simp only [Bool.and_eq_true, Bool.or_eq_true, bne_iff_ne, ne_eq, decide_eq_true_eq] at h
                obtain ⟨⟨⟨⟨⟨k1, k2⟩, k3⟩, k4⟩, k5⟩, k6⟩ := h
                rw [run4 b0 _ _ _ _ h0 (cont_isCont _ (by simpa using k1)) (cont_isCont _ (by simpa using k2))
                  (cont_isCont _ (by simpa using k3)) k4 k5]
                exact ih _ k6
              · exact absurd h (by simp)
            · exact absurd h (by simp)

/-- **every payload of the C03 domain satisfies the guard of the C07 content theorem** -/
theorem joinSafe_of_payloadOk (s : Bytes) (h : Spec.Out.payloadOk s = true) : JoinSafe s := by
  apply joinSafe_of_validUtf8
  unfold validUtf8
  rw [beq_iff_eq]
  exact specValid_run _ s h

end RawPanelVerif.OutLemmas
