import RawPanelVerif.Lemmas.MonoSub
/-!
# Foreground-coloured drawing only adds lit pixels (C18, the bar stays visible)

`Sub c0 c` (every visible pixel lit in `c0` is lit in `c`) is preserved when `c` is drawn on with an operation that only
writes the foreground colour: lines, (filled) round rectangles and bitmaps without `drawAllPixels` in colour `true`, text
with `textcolor = textbgcolor = true`.  (`drawAllPixels` bitmaps and text in colour `false` also write dark pixels.)
-/
namespace RawPanelVerif.Mono

theorem drawPixel_grow {c0 c : Canvas} (h : Sub c0 c) (x y : Int) : Sub c0 (drawPixel c x y true) where
  wf := h.wf
  wf' := drawPixel_wf c x y true h.wf'
  geo := by rw [drawPixel_geo, h.geo]
  vis := fun X Y hX hY hl => by
    have hX8 : X < c.geo.wib * 8 := by have := h.wf.1; rw [h.geo]; omega
    have hY' : Y < c.geo.H := by rw [h.geo]; exact hY
    rw [drawPixel_exact c h.wf' x y true X Y hX8 hY', h.geo]
    split
    · cases c0.geo.inv <;> rfl
    · exact h.vis X Y hX hY hl

theorem loopN_grow (c0 : Canvas) (g : Canvas → Nat → Canvas) (hg : ∀ b i, Sub c0 b → Sub c0 (g b i)) (n : Nat) (b : Canvas)
    (hb : Sub c0 b) : Sub c0 (loopN n g b) :=
  loopN_rel (fun _ b => Sub c0 b) g g (fun _ b i hab => hg b i hab) n b b hb

theorem vline_grow {c0 c : Canvas} (h : Sub c0 c) (x y hh : Int) : Sub c0 (vline c x y hh true) :=
  loopN_grow c0 _ (fun _ i hb => drawPixel_grow hb x (y + i)) _ c h

theorem hline_grow {c0 c : Canvas} (h : Sub c0 c) (x y w : Int) : Sub c0 (hline c x y w true) :=
  loopN_grow c0 _ (fun _ i hb => drawPixel_grow hb (x + i) y) _ c h

theorem fillRect_grow {c0 c : Canvas} (h : Sub c0 c) (x y w hh : Int) : Sub c0 (fillRect c x y w hh true) :=
  loopN_grow c0 _ (fun _ i hb => vline_grow hb (x + i) y hh) _ c h

theorem ite_grow {c0 c : Canvas} (b : Bool) (f : Canvas → Canvas) (h : Sub c0 c) (hf : Sub c0 (f c)) :
    Sub c0 (if b then f c else c) := by
  cases b
  · exact h
  · exact hf

theorem circPlot_grow {c0 c : Canvas} (h : Sub c0 c) (x0 y0 corner : Int) (x y : Int) :
    Sub c0 (circPlot c x0 y0 corner true x y) := by
  unfold circPlot
  simp only []
  have s1 := ite_grow (cornerBit corner 4) (fun c => drawPixel (drawPixel c (x0 + x) (y0 + y) true) (x0 + y) (y0 + x) true) h
    (drawPixel_grow (drawPixel_grow h _ _) _ _)
  have s2 := ite_grow (cornerBit corner 2) (fun c => drawPixel (drawPixel c (x0 + x) (y0 - y) true) (x0 + y) (y0 - x) true) s1
    (drawPixel_grow (drawPixel_grow s1 _ _) _ _)
  have s3 := ite_grow (cornerBit corner 8) (fun c => drawPixel (drawPixel c (x0 - y) (y0 + x) true) (x0 - x) (y0 + y) true) s2
    (drawPixel_grow (drawPixel_grow s2 _ _) _ _)
  exact ite_grow (cornerBit corner 1) (fun c => drawPixel (drawPixel c (x0 - y) (y0 - x) true) (x0 - x) (y0 - y) true) s3
    (drawPixel_grow (drawPixel_grow s3 _ _) _ _)

theorem drawCircleHelperLoop_grow (c0 : Canvas) (x0 y0 corner : Int) (c : Canvas) (s : Circ) (h : Sub c0 c) :
    Sub c0 (drawCircleHelperLoop c x0 y0 corner true s) := by
  fun_induction drawCircleHelperLoop c x0 y0 corner true s with
  | case1 c s hlt ih => exact ih (circPlot_grow h x0 y0 corner s.next.x s.next.y)
  | case2 c s hlt => exact h

theorem drawCircleHelper_grow {c0 c : Canvas} (h : Sub c0 c) (x0 y0 r corner : Int) :
    Sub c0 (drawCircleHelper c x0 y0 r corner true) :=
  drawCircleHelperLoop_grow c0 x0 y0 corner c _ h

theorem fillCircPlot_grow {c0 c : Canvas} (h : Sub c0 c) (x0 y0 corner delta : Int) (x y : Int) :
    Sub c0 (fillCircPlot c x0 y0 corner delta true x y) := by
  unfold fillCircPlot
  simp only []
  have s1 := ite_grow (cornerBit corner 1)
    (fun c => vline (vline c (x0 + x) (y0 - y) (2 * y + 1 + delta) true) (x0 + y) (y0 - x) (2 * x + 1 + delta) true) h
    (vline_grow (vline_grow h _ _ _) _ _ _)
  exact ite_grow (cornerBit corner 2)
    (fun c => vline (vline c (x0 - x) (y0 - y) (2 * y + 1 + delta) true) (x0 - y) (y0 - x) (2 * x + 1 + delta) true) s1
    (vline_grow (vline_grow s1 _ _ _) _ _ _)

theorem fillCircleHelperLoop_grow (c0 : Canvas) (x0 y0 corner delta : Int) (c : Canvas) (s : Circ) (h : Sub c0 c) :
    Sub c0 (fillCircleHelperLoop c x0 y0 corner delta true s) := by
  fun_induction fillCircleHelperLoop c x0 y0 corner delta true s with
  | case1 c s hlt ih => exact ih (fillCircPlot_grow h x0 y0 corner delta s.next.x s.next.y)
  | case2 c s hlt => exact h

theorem fillCircleHelper_grow {c0 c : Canvas} (h : Sub c0 c) (x0 y0 r corner delta : Int) :
    Sub c0 (fillCircleHelper c x0 y0 r corner delta true) :=
  fillCircleHelperLoop_grow c0 x0 y0 corner delta c _ h

theorem drawRoundRect_grow {c0 c : Canvas} (h : Sub c0 c) (x y w hh r : Int) : Sub c0 (drawRoundRect c x y w hh r true) := by
  unfold drawRoundRect
  simp only []
  exact drawCircleHelper_grow (drawCircleHelper_grow (drawCircleHelper_grow (drawCircleHelper_grow
    (vline_grow (vline_grow (hline_grow (hline_grow h _ _ _) _ _ _) _ _ _) _ _ _) _ _ _ _) _ _ _ _) _ _ _ _) _ _ _ _

theorem fillRoundRect_grow {c0 c : Canvas} (h : Sub c0 c) (x y w hh r : Int) : Sub c0 (fillRoundRect c x y w hh r true) := by
  unfold fillRoundRect
  simp only []
  exact fillCircleHelper_grow (fillCircleHelper_grow (fillRect_grow h _ _ _ _) _ _ _ _ _) _ _ _ _ _

theorem drawBitmap_grow {c0 c : Canvas} (h : Sub c0 c) (x y : Int) (bits : Array UInt8) (w hh : Int) (inverted : Bool) :
    Sub c0 (drawBitmap c x y bits w hh true inverted false) := by
  unfold drawBitmap
  simp only []
  refine loopN_grow c0 _ (fun a j ha => ?_) _ c h
  refine loopN_grow c0 _ (fun b i hb => ?_) _ a ha
  simp only [Bool.false_or]
  split
  · split
    · rename_i hbit
      rw [hbit]
      exact drawPixel_grow hb _ _
    · exact hb
  · exact hb

theorem drawBlock_grow {c0 c : Canvas} (h : Sub c0 c) (x y : Int) (i j : Nat) (tsH tsV : Int) :
    Sub c0 (drawBlock c x y i j tsH tsV true) := by
  unfold drawBlock
  split
  · exact drawPixel_grow h _ _
  · exact fillRect_grow h _ _ _ _

theorem drawChar_grow {c0 c : Canvas} (h : Sub c0 c) (t : TextSt) (x y : Int) (ch : Nat) (tsH tsV : Int) :
    Sub c0 (drawChar c t x y ch true true tsH tsV) := by
  unfold drawChar
  simp only []
  split
  · exact h
  · refine loopN_grow c0 _ (fun a i ha => ?_) _ c h
    refine loopN_grow c0 _ (fun b j hb => ?_) _ a ha
    split
    · exact drawBlock_grow hb _ _ _ _ _ _
    · simp only [bne_self_eq_false, Bool.false_eq_true, if_false]
      exact hb

theorem writeChar_grow {c0 c : Canvas} (h : Sub c0 c) (t : TextSt) (ch : Nat) (hc : t.tcol = true) (hb : t.tbg = true) :
    Sub c0 (writeChar (c, t) ch).1 ∧ (writeChar (c, t) ch).2.tcol = true ∧ (writeChar (c, t) ch).2.tbg = true := by
  unfold writeChar
  simp only []
  split
  · exact ⟨h, hc, hb⟩
  · split
    · exact ⟨h, hc, hb⟩
    · rw [hc, hb]
      split
      · exact ⟨drawChar_grow h _ _ _ _ _ _, rfl, rfl⟩
      · exact ⟨drawChar_grow h _ _ _ _ _ _, rfl, rfl⟩

theorem renderText_grow (s : List Nat) (c0 c : Canvas) (h : Sub c0 c) (t : TextSt) (hc : t.tcol = true) (hb : t.tbg = true) :
    Sub c0 (renderText (c, t) s).1 := by
  unfold renderText
  induction s generalizing c t with
  | nil => exact h
  | cons ch s ih =>
    rw [List.foldl_cons]
    obtain ⟨h1, h2, h3⟩ := writeChar_grow h t ch hc hb
    exact ih _ h1 _ h2 h3

/-- operations that only write the foreground colour -/
def litOnly : Op → Prop
  | .hline _ _ _ c => c = true
  | .rrect _ _ _ _ _ c => c = true
  | .frrect _ _ _ _ _ c => c = true
  | .bitmap _ _ _ _ _ c _ drawAll => c = true ∧ drawAll = false
  | .text t _ => t.tcol = true ∧ t.tbg = true
  | _ => False

theorem applyOp_grow {c0 c : Canvas} (h : Sub c0 c) (op : Op) (hop : litOnly op) : Sub c0 (applyOp c op) := by
  cases op with
  | hline x y w col => cases hop; exact hline_grow h x y w
  | rrect x y w hh r col => cases hop; exact drawRoundRect_grow h x y w hh r
  | frrect x y w hh r col => cases hop; exact fillRoundRect_grow h x y w hh r
  | bitmap x y bits w hh col i a => obtain ⟨rfl, rfl⟩ := hop; exact drawBitmap_grow h x y bits w hh i
  | text t s => exact renderText_grow s c0 c h t hop.1 hop.2
  | px x y col => exact hop.elim
  | vline x y hh col => exact hop.elim
  | frect x y w hh col => exact hop.elim
  | circ x0 y0 r k col => exact hop.elim
  | fcirc x0 y0 r k d col => exact hop.elim
  | glyph t x y ch col bg hs vs => exact hop.elim
  | bbox x y w hh => exact hop.elim
  | inv b => exact hop.elim

theorem foldl_grow (ops : List Op) (hops : ∀ op ∈ ops, litOnly op) (c0 c : Canvas) (h : Sub c0 c) :
    Sub c0 (ops.foldl applyOp c) := by
  induction ops generalizing c with
  | nil => exact h
  | cons op ops ih =>
    rw [List.foldl_cons]
    exact ih (fun o ho => hops o (by simp [ho])) _ (applyOp_grow h op (hops op (by simp)))

end RawPanelVerif.Mono
