import RawPanelVerif.Lemmas.NetContract
/-! The deterministic script runner `runT` against the labelled runs: on a script without `close` whose arrivals are
all enabled (no byte comes at or after an armed deadline) and which ends with the loop live and no deadline armed,
`runT` never stops and its effects are those of the labelled run. -/
namespace RawPanelVerif.Net
open RawPanelVerif

/-- the time-stamped byte stream of a script (absolute times; `clk` = time the script starts) -/
def timedBytes : Nat → TScript → TBytes
  | _, [] => []
  | clk, (d, .bytes b) :: rest => b.map (fun x => (clk + d, x)) ++ timedBytes (clk + d) rest
  | clk, (d, .close) :: rest => timedBytes (clk + d) rest
  | clk, (d, .nothing) :: rest => timedBytes (clk + d) rest

def noClose (ts : TScript) : Bool := ts.all (fun p => p.2 != .close)

theorem timedBytes_ge (ts : TScript) : ∀ (c : Nat), ∀ p ∈ timedBytes c ts, c ≤ p.1 := by
  induction ts with
  | nil => intro c p hp; simp [timedBytes] at hp
  | cons a rest ih =>
    intro c p hp
    obtain ⟨d, act⟩ := a
    cases act with
    | bytes b =>
      simp only [timedBytes, List.mem_append, List.mem_map] at hp
      rcases hp with ⟨x, _, rfl⟩ | hp
      · simp
      · have := ih (c + d) p hp; omega
    | close => have := ih (c + d) p (by simpa [timedBytes] using hp); omega
    | nothing => have := ih (c + d) p (by simpa [timedBytes] using hp); omega

theorem sortedFrom_mono (c c' : Nat) (t : TBytes) (h : c ≤ c') (hs : Spec.Net.sortedFrom c' t) : Spec.Net.sortedFrom c t := by
  cases t with
  | nil => trivial
  | cons p r => exact ⟨Nat.le_trans h hs.1, hs.2⟩

theorem sortedFrom_same (c now : Nat) (b : Bytes) (t : TBytes) (h : c ≤ now) (hs : Spec.Net.sortedFrom now t) :
    Spec.Net.sortedFrom c (b.map (fun x => (now, x)) ++ t) := by
  induction b generalizing c with
  | nil => exact sortedFrom_mono c now t h hs
  | cons x r ih => exact ⟨h, ih now (Nat.le_refl _)⟩

theorem timedBytes_sorted (ts : TScript) : ∀ (c : Nat), Spec.Net.sortedFrom c (timedBytes c ts) := by
  induction ts with
  | nil => intro c; trivial
  | cons a rest ih =>
    intro c
    obtain ⟨d, act⟩ := a
    cases act with
    | bytes b => exact sortedFrom_same c (c + d) b _ (by omega) (ih (c + d))
    | close => exact sortedFrom_mono c (c + d) _ (by omega) (ih (c + d))
    | nothing => exact sortedFrom_mono c (c + d) _ (by omega) (ih (c + d))

/-- the bytes of a script, in order -/
def scriptBytes : TScript → Bytes
  | [] => []
  | (_, .bytes b) :: rest => b ++ scriptBytes rest
  | (_, _) :: rest => scriptBytes rest

theorem timedBytes_bytes (ts : TScript) : ∀ (c : Nat), (timedBytes c ts).map (·.2) = scriptBytes ts := by
  induction ts with
  | nil => intro c; rfl
  | cons a rest ih =>
    intro c
    obtain ⟨d, act⟩ := a
    cases act with
    | bytes b => simp [timedBytes, scriptBytes, ih (c + d), Function.comp_def]
    | close => simp [timedBytes, scriptBytes, ih (c + d)]
    | nothing => simp [timedBytes, scriptBytes, ih (c + d)]

/-! ### the clock of the state only matters through the guard `clock ≤ now` -/

theorem tstep_clock_irrel (cfg : Cfg) (now c : Nat) (s : CState) (b : UInt8) :
    tstep cfg now { s with clock := c } b = tstep cfg now s b := by
  simp only [tstep]

theorem tstep_clock (cfg : Cfg) (now : Nat) (s : CState) (b : UInt8) : (tstep cfg now s b).1.clock = now := by
  simp only [tstep]; split <;> rfl

theorem arrive_advance (cfg : Cfg) (s : CState) (c now : Nat) (b : UInt8) (r : CState × List Eff)
    (h : step cfg s (.arrive now b) = some r) (hc : c ≤ now) :
    step cfg { s with clock := c } (.arrive now b) = some r := by
  obtain ⟨r1, r2⟩ := r
  obtain ⟨he, _, hx, heq⟩ := step_arrive h
  have key : ({ s with clock := c } : CState).entered = true ∧ ({ s with clock := c } : CState).clock ≤ now ∧
      (({ s with clock := c } : CState).r.live = true → notExpired { s with clock := c } now = true) := ⟨he, hc, hx⟩
  show (if _ then some (tstep cfg now { s with clock := c } b) else none) = some (r1, r2)
  rw [if_pos key, tstep_clock_irrel, heq]

theorem advance_clock (cfg : Cfg) (s s' : CState) (e : List Eff) (tb : TBytes) (c : Nat)
    (h : runL cfg s (arrivals tb) = some (s', e)) (hc : ∀ p ∈ tb, c ≤ p.1) :
    ∃ s'', runL cfg { s with clock := c } (arrivals tb) = some (s'', e) ∧ s''.r = s'.r ∧ s''.dl = s'.dl ∧
      s''.entered = s'.entered := by
  cases tb with
  | nil =>
    simp [arrivals, runL] at h
    obtain ⟨rfl, rfl⟩ := h
    exact ⟨_, rfl, rfl, rfl, rfl⟩
  | cons p r =>
    simp only [arrivals, List.map_cons] at h ⊢
    obtain ⟨s1, e1, e2, h1, h2, rfl⟩ := runL_cons h
    have := arrive_advance cfg s c p.1 p.2 _ h1 (hc p (by simp))
    refine ⟨s', ?_, rfl, rfl, rfl⟩
    simp only [runL, this, h2]

theorem not_fired (cfg : Cfg) (s s' : CState) (e : List Eff) (tb : TBytes) (now : Nat)
    (h : runL cfg s (arrivals tb) = some (s', e)) (hl : s'.r.live = true) (hrd : s'.dl.rd = none)
    (hge : ∀ p ∈ tb, now ≤ p.1) : firedAt s.dl.rd now = none := by
  cases hd : s.dl.rd with
  | none => rfl
  | some dl =>
    simp only [firedAt]
    by_cases hle : dl ≤ now
    · exfalso
      cases tb with
      | nil =>
        simp [arrivals, runL] at h
        rw [← h.1, hd] at hrd; cases hrd
      | cons p r =>
        simp only [arrivals, List.map_cons] at h
        obtain ⟨s1, e1, e2, h1, h2, _⟩ := runL_cons h
        obtain ⟨_, _, hx, _⟩ := step_arrive h1
        have hlive : s.r.live = true := by
          cases hh : s.r.live with
          | true => rfl
          | false =>
            have := (runL_dead cfg _ s s' _ hh h).1
            rw [this, hh] at hl; cases hl
        have := hx hlive
        simp only [notExpired, hd, decide_eq_true_eq] at this
        have := hge p (by simp)
        omega
    · simp [hle]

/-- a segment whose bytes all arrive at the same instant -/
theorem runL_same_time (cfg : Cfg) (now : Nat) : ∀ (b : Bytes) (s : CState) (r1 : CState × List Eff), b ≠ [] →
    runL cfg s (b.map (Lbl.arrive now)) = some r1 → r1 = feedT cfg now { s with clock := now } b := by
  intro b
  induction b with
  | nil => intro s r1 h; exact absurd rfl h
  | cons x t ih =>
    intro s r1 _ h
    simp only [List.map_cons] at h
    obtain ⟨s', e'⟩ := r1
    obtain ⟨s1, e1, e2, h1, h2, rfl⟩ := runL_cons h
    obtain ⟨_, _, _, heq⟩ := step_arrive h1
    have q1 : s1 = (tstep cfg now s x).1 := congrArg Prod.fst heq
    have q2 : e1 = (tstep cfg now s x).2 := congrArg Prod.snd heq
    simp only [feedT, tstep_clock_irrel]
    cases t with
    | nil =>
      simp [runL] at h2
      obtain ⟨rfl, rfl⟩ := h2
      simp [feedT, q1, q2]
    | cons y u =>
      have := ih s1 (s', e2) (by simp) h2
      have hclk : ({ s1 with clock := now } : CState) = s1 := by
        have : s1.clock = now := by rw [q1]; exact tstep_clock cfg now s x
        cases s1; simp_all
      rw [hclk] at this
      rw [← q1, ← q2, ← this]

theorem feedT_entered (cfg : Cfg) (now : Nat) : ∀ (b : Bytes) (s : CState), (feedT cfg now s b).1.entered = s.entered := by
  intro b
  induction b with
  | nil => intro s; rfl
  | cons x t ih => intro s; simp only [feedT]; rw [ih, tstep_entered]

theorem feedT_clock (cfg : Cfg) (now : Nat) : ∀ (b : Bytes) (s : CState), s.clock = now → (feedT cfg now s b).1.clock = now := by
  intro b
  induction b with
  | nil => intro s h; exact h
  | cons x t ih => intro s _; simp only [feedT]; exact ih _ (tstep_clock cfg now s x)

theorem arrivals_same (now : Nat) (b : Bytes) : arrivals (b.map (fun x => (now, x))) = b.map (Lbl.arrive now) := by
  simp [arrivals, Function.comp_def]

/-- **`runT` against the labelled runs** -/
theorem runT_of_runL (cfg : Cfg) (m : Nat) : ∀ (ts : TScript) (s : CState) (o : Outcome) (s' : CState) (e : List Eff),
    noClose ts = true → runL cfg s (arrivals (timedBytes s.clock ts)) = some (s', e) → s'.r.live = true →
    s'.dl.rd = none →
    (runT cfg m s ts o).stop = o.stop ∧ (runT cfg m s ts o).effs = o.effs ++ e := by
  intro ts
  induction ts with
  | nil =>
    intro s o s' e _ h _ _
    simp [timedBytes, arrivals, runL] at h
    simp [runT, ← h.2]
  | cons a rest ih =>
    intro s o s' e hnc h hl hrd
    obtain ⟨d, act⟩ := a
    have hnf : firedAt s.dl.rd (s.clock + d) = none :=
      not_fired cfg s s' e _ (s.clock + d) h hl hrd (fun p hp => by
        have := timedBytes_ge ((d, act) :: rest) s.clock p hp
        cases act with
        | bytes b =>
          simp only [timedBytes, List.mem_append, List.mem_map] at hp
          rcases hp with ⟨x, _, rfl⟩ | hp
          · simp
          · exact timedBytes_ge rest _ p hp
        | close => exact timedBytes_ge rest _ p (by simpa [timedBytes] using hp)
        | nothing => exact timedBytes_ge rest _ p (by simpa [timedBytes] using hp))
    have hnc' : noClose rest = true := by
      simp only [noClose, List.all_cons, Bool.and_eq_true] at hnc; exact hnc.2
    cases act with
    | close => simp [noClose] at hnc
    | nothing =>
      simp only [timedBytes] at h
      obtain ⟨s'', hr, hr1, hr2, _⟩ := advance_clock cfg s s' e _ (s.clock + d) h (timedBytes_ge rest _)
      have := ih { s with clock := s.clock + d } { o with tight := o.tight || tightAt m s.dl.rd (s.clock + d) } s'' e hnc' hr
        (by rw [hr1]; exact hl) (by rw [hr2]; exact hrd)
      simp only [runT, hnf]
      exact this
    | bytes b =>
      simp only [timedBytes] at h
      simp only [runT, hnf]
      by_cases hb : b = []
      · subst hb
        simp only [List.map_nil, List.nil_append] at h
        obtain ⟨s'', hr, hr1, hr2, _⟩ := advance_clock cfg s s' e _ (s.clock + d) h (timedBytes_ge rest _)
        have := ih { s with clock := s.clock + d }
          { o with effs := o.effs ++ [], tight := o.tight || tightAt m s.dl.rd (s.clock + d) } s'' e hnc' hr
          (by rw [hr1]; exact hl) (by rw [hr2]; exact hrd)
        simp only [feedT]
        have hlive : s.r.live = true := by
          cases hh : s.r.live with
          | true => rfl
          | false =>
            have := (runL_dead cfg _ s s' _ hh h).1
            rw [this, hh] at hl; cases hl
        cases hr0 : s.r with
        | stopped w => rw [hr0] at hlive; cases hlive
        | waitHdr rg => simp only [hr0] at this ⊢; simpa using this
        | waitPayload n rg => simp only [hr0] at this ⊢; simpa using this
      · rw [arrivals_append, arrivals_same, runL_append] at h
        cases h1 : runL cfg s (b.map (Lbl.arrive (s.clock + d))) with
        | none => rw [h1] at h; cases h
        | some r1 =>
          rw [h1] at h
          simp only at h
          cases h2 : runL cfg r1.1 (arrivals (timedBytes (s.clock + d) rest)) with
          | none => rw [h2] at h; cases h
          | some r2 =>
            rw [h2] at h
            simp only [Option.some.injEq, Prod.mk.injEq] at h
            obtain ⟨rfl, rfl⟩ := h
            have hr1 := runL_same_time cfg (s.clock + d) b s r1 hb h1
            have hclk : r1.1.clock = s.clock + d := by rw [hr1]; exact feedT_clock cfg _ b _ rfl
            have hlive1 : r1.1.r.live = true := by
              cases hh : r1.1.r.live with
              | true => rfl
              | false =>
                have := (runL_dead cfg _ r1.1 r2.1 _ hh h2).1
                rw [this, hh] at hl; cases hl
            rw [← hclk] at h2
            have := ih r1.1 { o with effs := o.effs ++ r1.2, tight := o.tight || tightAt m s.dl.rd (s.clock + d) }
              r2.1 r2.2 hnc' h2 hl hrd
            rw [← hr1]
            cases hr0 : r1.1.r with
            | stopped w => rw [hr0] at hlive1; cases hlive1
            | waitHdr rg => simp only [hr0] at this ⊢; simpa [List.append_assoc] using this
            | waitPayload n rg => simp only [hr0] at this ⊢; simpa [List.append_assoc] using this

end RawPanelVerif.Net
