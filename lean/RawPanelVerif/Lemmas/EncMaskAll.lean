import RawPanelVerif.Lemmas.EncMaskText
import RawPanelVerif.Lemmas.EncSoundAll
/-! C01 `enc_sound_masked`: graphics without range hypothesis on the image type, assembly over ids / states / messages,
no line feed in any emitted line on `inWireDomain`, final statement `enc_sound_masked_all`. -/
namespace RawPanelVerif.EncMask
open RawPanelVerif RawPanelVerif.Bytes RawPanelVerif.MsgIn RawPanelVerif.Model.In RawPanelVerif.InBits RawPanelVerif.ReadIn
open RawPanelVerif.Spec.In RawPanelVerif.TotalIn RawPanelVerif.EncSound

variable (O : Oracles)

/-! ## graphics: any image type (types other than 1, 2 are written and read as mono), no data = no lines -/

theorem gfxLinesP_type0 (id : Nat) (g : Gfx) (h1 : g.imageType ≠ 1) (h2 : g.imageType ≠ 2) (hd : g.imageData ≠ []) :
    gfxLinesP id (some g) = gfxLinesP id (some { g with imageType := 0 }) := by
  unfold gfxLinesP
  simp only []
  have e1 : gfxIsEmpty g = false := by
    unfold gfxIsEmpty
    simp only [beq_eq_false_iff_ne, ne_eq]
    intro e; rw [e] at hd; exact hd rfl
  have e2 : gfxIsEmpty { g with imageType := 0 } = false := by
    unfold gfxIsEmpty
    simp only [beq_eq_false_iff_ne, ne_eq]
    intro e
    have : ({ g with imageType := 0 } : Gfx).imageData = [] := by rw [e]
    exact hd this
  rw [e1, e2]
  simp only [Bool.false_eq_true, if_false]
  apply List.map_congr_left
  intro i _
  unfold gfxLineOf
  have : gfxKeyword g.imageType = gfxKeyword 0 := by
    unfold gfxKeyword
    rw [if_neg h2, if_neg h1]
    rfl
  rw [this]
  rfl

theorem gfxOf_type0 (g : Gfx) (h1 : g.imageType ≠ 1) (h2 : g.imageType ≠ 2) : gfxOf { g with imageType := 0 } = gfxOf g := by
  unfold gfxOf gfxKindOf
  simp only []
  rw [if_neg h1, if_neg h2]
  rfl

theorem gfx_readsW (id : Nat) (hid : id < 4294967296) (g : Option Gfx)
    (h : (match g with | some g => gfxWire g | none => true) = true) :
    Reads O (gfxLinesP id g) (opt (g.map maskGfx) (fun g => if g = {} then [] else [Effect.setGfx id (gfxOf g)])) := by
  cases g with
  | none => exact Reads.nil O
  | some g =>
    simp only [] at h
    simp only [Option.map_some]
    unfold maskGfx
    by_cases hd : g.imageData = []
    · rw [if_pos hd]
      have : gfxLinesP id (some g) = [] := by
        unfold gfxLinesP
        simp only []
        split
        · rfl
        · rw [hd]; rfl
      rw [this]
      exact Reads.nil O
    · rw [if_neg hd]
      unfold gfxWire at h
      simp only [Bool.and_eq_true] at h
      obtain ⟨⟨⟨⟨hw, hh⟩, hx⟩, hy⟩, hlen⟩ := h
      have hl1 : g.imageData.length ≥ 1 := by
        cases hc : g.imageData with
        | nil => exact absurd hc hd
        | cons _ _ => simp
      by_cases ht : g.imageType = 1 ∨ g.imageType = 2 ∨ g.imageType = 0
      · refine gfx_reads O id hid (some g) ?_
        simp only []
        have : gfxOk g = true := by
          unfold gfxOk enumOk
          simp only [Bool.and_eq_true, decide_eq_true_eq]
          exact ⟨⟨⟨⟨⟨⟨by omega, hw⟩, hh⟩, hx⟩, hy⟩, hl1⟩, hlen⟩
        rw [this, Bool.or_true]
      · have h1 : g.imageType ≠ 1 := fun e => ht (Or.inl e)
        have h2 : g.imageType ≠ 2 := fun e => ht (Or.inr (Or.inl e))
        have hne : g ≠ {} := by intro e; rw [e] at hd; exact hd rfl
        have hne' : ({ g with imageType := 0 } : Gfx) ≠ {} := by
          intro e
          have : ({ g with imageType := 0 } : Gfx).imageData = [] := by rw [e]
          exact hd this
        rw [gfxLinesP_type0 id g h1 h2 hd]
        have := gfx_reads O id hid (some { g with imageType := 0 }) (by
          simp only []
          have : gfxOk { g with imageType := 0 } = true := by
            unfold gfxOk enumOk
            simp only [Bool.and_eq_true, decide_eq_true_eq]
            exact ⟨⟨⟨⟨⟨⟨by omega, hw⟩, hh⟩, hx⟩, hy⟩, hl1⟩, hlen⟩
          rw [this, Bool.or_true])
        unfold opt at this ⊢
        simp only [] at this ⊢
        rw [if_neg hne', gfxOf_type0 g h1 h2] at this
        rw [if_neg hne]
        exact this

/-! ## assembly -/

theorem flatMap_map' {α β γ : Type} (l : List α) (f : α → β) (g : β → List γ) : (l.map f).flatMap g = l.flatMap (fun a => g (f a)) := by
  induction l with
  | nil => rfl
  | cons a as ih => simp only [List.map_cons, List.flatMap_cons, ih]

theorem id_readsW (s : State) (hs : stateWire s = true) (id : Nat) (hid : id < 4294967296) :
    Reads O (idLinesP s id) (effectsOfStateId (maskState s) id) := by
  unfold stateWire at hs
  simp only [Bool.and_eq_true] at hs
  obtain ⟨⟨⟨_, ht⟩, hg⟩, hp⟩ := hs
  unfold idLinesP effectsOfStateId maskState
  simp only []
  have : s.processors = none := by
    cases hh : s.processors with
    | none => rfl
    | some _ => rw [hh] at hp; simp at hp
  rw [this, show procLines none = [] from rfl, List.append_nil]
  exact Reads.append (Reads.append (Reads.append (Reads.append (Reads.append
    (mode_readsW O id hid s.mode) (color_readsW O id hid s.color)) (ext_readsW O id hid s.ext))
    (text_readsW O id hid s.text ht)) (gfx_readsW O id hid s.gfx hg)) (raw_reads O id hid s.rawADC)

theorem state_readsW (s : State) (hs : stateWire s = true) : Reads O (stateLinesP s) (effectsOfState (maskState s)) := by
  unfold stateLinesP effectsOfState
  show Reads O (s.ids.flatMap (idLinesP s)) (s.ids.flatMap (effectsOfStateId (maskState s)))
  apply Reads.flatMap
  intro id hid
  have : s.ids.all u32ok = true := by
    unfold stateWire at hs
    simp only [Bool.and_eq_true] at hs
    exact hs.1.1.1
  rw [List.all_eq_true] at this
  exact id_readsW O s hs id (u32ok_lt _ (this id hid))

theorem msg_readsW (m : InMsg) (hm : msgWire O m = true) : Reads O (msgLinesP O m) (effectsOfIn (maskMsg m)) := by
  unfold msgWire at hm
  simp only [Bool.and_eq_true] at hm
  obtain ⟨⟨hc, hs⟩, hr⟩ := hm
  unfold msgLinesP effectsOfIn maskMsg
  simp only []
  rw [flatMap_map', opt_map]
  refine Reads.append (Reads.append (Reads.append (flow_readsW O m.flow) ?_) ?_) ?_
  · exact optLine_reads O _ _ _ (fun c hcc => cmd_readsW O c (optOk_some _ _ _ hc hcc))
  · apply Reads.flatMap
    intro s hs'
    rw [List.all_eq_true] at hs
    exact state_readsW O s (hs s hs')
  · apply Reads.flatMap
    intro r hr'
    rw [List.all_eq_true] at hr
    exact reg_readsW O r (hr r hr')

theorem raw_reads_allW (ms : List InMsg) (h : inWireDomain O ms = true) :
    Reads O (encRawP O ms) ((ms.map maskMsg).flatMap effectsOfIn) := by
  unfold encRawP
  rw [flatMap_map']
  apply Reads.flatMap
  intro m hm
  unfold inWireDomain at h
  rw [List.all_eq_true] at h
  exact msg_readsW O m (h m hm)

/-! ## no line feed in any emitted line (on `inWireDomain`) -/

theorem cmd_nolfW (c : Command) (h : cmdWire O c = true) : NoLF (cmdLines O c) := by
  simp only [cmdWire, Bool.and_eq_true] at h
  obtain ⟨⟨⟨⟨⟨⟨⟨⟨h1, h2⟩, h4⟩, h5⟩, h6⟩, h7⟩, h8⟩, h9⟩, h10⟩ := h
  unfold cmdLines
  repeat' apply NoLF.append
  any_goals (exact NoLF.flag _ _ (by decide))
  · exact NoLF.optLine _ _ (fun p _ => NoLF.single (by nolf))
  · exact NoLF.optLine _ _ (fun j _ => NoLF.single (nl_append _ _ (by decide) (C07.strip_no_lf j)))
  · refine NoLF.optLine _ _ (fun n hn => NoLF.single (nl_append _ _ (by decide) ?_))
    have := optOk_some _ _ _ h2 hn
    simp only [Bool.and_eq_true, Bool.not_eq_true', List.contains_eq_mem, decide_eq_false_iff_not] at this
    exact this.2
  · exact NoLF.optLine _ _ (fun m _ => env_nolf m)
  all_goals exact NoLF.optLine _ _ (fun v _ => NoLF.single (by nolf))

theorem id_nolfW (s : State) (hs : stateWire s = true) (id : Nat) : NoLF (idLinesP s id) := by
  unfold stateWire at hs
  simp only [Bool.and_eq_true] at hs
  obtain ⟨⟨⟨_, ht⟩, _⟩, hp⟩ := hs
  have : s.processors = none := by
    cases hh : s.processors with
    | none => rfl
    | some _ => rw [hh] at hp; simp at hp
  unfold idLinesP
  rw [this]
  repeat' apply NoLF.append
  · exact NoLF.optLine _ _ (fun m _ => NoLF.single (by nolf))
  · refine NoLF.optLine _ _ (fun c _ => ?_)
    cases c.rgb with
    | some rgb => exact NoLF.single (by nolf)
    | none =>
      cases c.index with
      | some i => exact NoLF.single (by nolf)
      | none => exact NoLF.nil
  · exact NoLF.optLine _ _ (fun m _ => NoLF.single (by nolf))
  · unfold textLinesP
    cases hst : s.text with
    | none => exact NoLF.nil
    | some t =>
      simp only []
      split
      · exact NoLF.nil
      · rename_i hne
        rw [hst] at ht
        simp only [] at ht
        have he : ¬ t = {} := by unfold textIsEmpty at hne; simpa using hne
        simp only [he, decide_false, Bool.false_or] at ht
        unfold textWire at ht
        simp only [Bool.and_eq_true] at ht
        obtain ⟨⟨⟨⟨⟨⟨⟨⟨_, _⟩, hti⟩, hl1⟩, hl2⟩, _⟩, _⟩, _⟩, _⟩ := ht
        refine NoLF.single (nl_append _ _ (by nolf) (nl_join _ (fields_nolf t hti hl1 hl2)))
  · unfold gfxLinesP
    cases s.gfx with
    | none => exact NoLF.nil
    | some g =>
      simp only []
      split
      · exact NoLF.nil
      · refine NoLF.map _ _ (fun i _ => ?_)
        unfold gfxLineOf
        have := nl_gfxKeyword g.imageType
        have := nl_gfxHeader g (totalLines g.imageData.length)
        split <;> nolf
  · exact NoLF.optLine _ _ (fun m _ => NoLF.single (by nolf))
  · exact NoLF.nil

theorem reg_nolfW (r : Register) (h : regWire r = true) : NoLF (regLine r) := by
  unfold regWire at h
  simp only [Bool.and_eq_true] at h
  obtain ⟨_, hid⟩ := h
  have hidl : (10 : UInt8) ∉ r.id := by
    split at hid
    · exact all_not_mem _ r.id 10 hid (by decide)
    · exact all_not_mem _ r.id 10 hid (by decide)
  unfold regLine
  split
  · exact NoLF.single (by nolf)
  · split
    · exact NoLF.single (by nolf)
    · split
      · exact NoLF.single (by nolf)
      · split
        · exact NoLF.single (by nolf)
        · exact NoLF.nil

theorem raw_nolfW (ms : List InMsg) (h : inWireDomain O ms = true) : NoLF (encRawP O ms) := by
  unfold encRawP
  refine NoLF.flatMap _ _ (fun m hm => ?_)
  unfold inWireDomain at h
  rw [List.all_eq_true] at h
  have hmm := h m hm
  unfold msgWire at hmm
  simp only [Bool.and_eq_true] at hmm
  obtain ⟨⟨hc, hs⟩, hr⟩ := hmm
  unfold msgLinesP
  refine NoLF.append (NoLF.append (NoLF.append (flow_nolf m.flow) ?_) ?_) ?_
  · exact NoLF.optLine _ _ (fun c hcc => cmd_nolfW O c (optOk_some _ _ _ hc hcc))
  · refine NoLF.flatMap _ _ (fun s hs' => ?_)
    rw [List.all_eq_true] at hs
    unfold stateLinesP
    exact NoLF.flatMap _ _ (fun id _ => id_nolfW s (hs s hs') id)
  · refine NoLF.flatMap _ _ (fun r hr' => ?_)
    rw [List.all_eq_true] at hr
    exact reg_nolfW r (hr r hr')

/-- **enc_sound_masked** -/
theorem enc_sound_masked_all (ms : List InMsg) (h : inWireDomain O ms = true) :
    readInbound O (encIn O ms) = (ms.map maskMsg).flatMap effectsOfIn := by
  unfold encIn
  rw [map_singleLine_id _ (raw_nolfW O ms h)]
  exact (raw_reads_allW O ms h).result

/-- the strict domain lies inside the wire domain -/
theorem wire_of_domain (ms : List InMsg) (h : inDomainIn O ms = true) : inWireDomain O ms = true := by
  unfold inDomainIn at h
  unfold inWireDomain
  rw [List.all_eq_true] at h ⊢
  intro m hm
  have hmm := h m hm
  unfold msgOk at hmm
  simp only [Bool.and_eq_true] at hmm
  obtain ⟨⟨⟨_, hc⟩, hs⟩, hr⟩ := hmm
  unfold msgWire
  simp only [Bool.and_eq_true]
  refine ⟨⟨?_, ?_⟩, ?_⟩
  · cases hcm : m.command with
    | none => rfl
    | some c =>
      rw [hcm] at hc
      simp only [optOk] at hc ⊢
      simp only [cmdOk, Bool.and_eq_true] at hc
      obtain ⟨⟨⟨⟨⟨⟨⟨⟨⟨h1, h2⟩, _⟩, h4⟩, h5⟩, h6⟩, h7⟩, h8⟩, h9⟩, h10⟩ := hc
      have en : ∀ o : Option Int, optOk o (fun e => enumOk e 2147483647) = true → optOk o i32ok = true := by
        intro o ho
        cases o with
        | none => rfl
        | some v =>
          have := enumOk_range v _ ho
          simp only [optOk, i32ok, Bool.and_eq_true, decide_eq_true_eq]
          omega
      simp only [cmdWire, Bool.and_eq_true]
      exact ⟨⟨⟨⟨⟨⟨⟨⟨h1, h2⟩, h4⟩, en _ h5⟩, en _ h6⟩, h7⟩, h8⟩, h9⟩, en _ h10⟩
  · rw [List.all_eq_true] at hs ⊢
    intro s hs'
    have hso := hs s hs'
    unfold stateOk at hso
    simp only [Bool.and_eq_true] at hso
    obtain ⟨⟨⟨⟨⟨⟨hids, _⟩, _⟩, _⟩, ht⟩, hg⟩, hp⟩ := hso
    unfold stateWire
    simp only [Bool.and_eq_true]
    refine ⟨⟨⟨hids, ?_⟩, ?_⟩, hp⟩
    · cases hst : s.text with
      | none => rfl
      | some t =>
        rw [hst] at ht
        simp only [] at ht ⊢
        by_cases he : t = {}
        · simp [he]
        · simp only [he, decide_false, Bool.false_or] at ht ⊢
          unfold textOk at ht
          simp only [Bool.and_eq_true] at ht
          obtain ⟨⟨⟨⟨⟨⟨⟨⟨⟨⟨⟨⟨⟨hiv, hfmt⟩, _⟩, _⟩, hti⟩, hl1⟩, hl2⟩, hiv2⟩, hpm⟩, hsc⟩, hsty⟩, _⟩, _⟩, _⟩ := ht
          have en : ∀ (v hi : Int), hi ≤ 2147483647 → enumOk v hi = true → i32ok v = true := by
            intro v hi hhi hv
            have := enumOk_range v hi hv
            simp only [i32ok, Bool.and_eq_true, decide_eq_true_eq]
            omega
          unfold textWire
          simp only [Bool.and_eq_true]
          refine ⟨⟨⟨⟨⟨⟨⟨⟨hiv, en _ 12 (by decide) hfmt⟩, hti⟩, hl1⟩, hl2⟩, hiv2⟩, en _ 4 (by decide) hpm⟩, ?_⟩, ?_⟩
          · cases hsc' : t.scale with
            | none => rfl
            | some sc =>
              rw [hsc'] at hsc
              simp only [Bool.and_eq_true] at hsc ⊢
              exact ⟨⟨⟨⟨en _ 3 (by decide) hsc.1.1.1.1, hsc.1.1.1.2⟩, hsc.1.1.2⟩, hsc.1.2⟩, hsc.2⟩
          · cases hts : t.textStyling with
            | none => rfl
            | some ts =>
              rw [hts] at hsty
              simp only [Bool.and_eq_true] at hsty ⊢
              exact hsty.2
    · cases hsg : s.gfx with
      | none => rfl
      | some g =>
        rw [hsg] at hg
        simp only [] at hg ⊢
        by_cases he : g = {}
        · subst he; rfl
        · simp only [he, decide_false, Bool.false_or] at hg
          unfold gfxOk at hg
          simp only [Bool.and_eq_true] at hg
          obtain ⟨⟨⟨⟨⟨⟨_, hw⟩, hh⟩, hx⟩, hy⟩, _⟩, hlen⟩ := hg
          unfold gfxWire
          simp only [Bool.and_eq_true]
          exact ⟨⟨⟨⟨hw, hh⟩, hx⟩, hy⟩, hlen⟩
  · rw [List.all_eq_true] at hr ⊢
    intro r hr'
    have hro := hr r hr'
    unfold regOk at hro
    simp only [Bool.and_eq_true] at hro
    unfold regWire
    simp only [Bool.and_eq_true]
    exact ⟨hro.1.2, hro.2⟩

end RawPanelVerif.EncMask
