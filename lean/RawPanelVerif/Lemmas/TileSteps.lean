import RawPanelVerif.Lemmas.TileBar
/-!
# The tile layout as a composition of named steps (C18)

`tileAcc` / `contentBody` cut into their sections (label, value, pair border; title bar, state icons, content font set-up,
trailing icons).  The `…_eq` theorems are `rfl`: the steps are the model's own code, only named, so that invariants can
be proved section by section (`Lemmas/TileWork.lean`, `Lemmas/TileBarCover.lean`).
-/
namespace RawPanelVerif.Tile
open RawPanelVerif RawPanelVerif.Mono RawPanelVerif.Gen

/-- "Print label string(s)" -/
def labelStep (acc : Acc) (g : Geom) (textLine outputString : List Nat) (pair a activeWidth mAH mCM fH fV : Int) : Acc :=
  if textLine.length > 0 then
    if pair > 0 then
      let xOffset := if outputString.length > 0 then 2
        else shr1 (constrain (activeWidth - acc.strWidth textLine) 0 activeWidth)
      let yOffset := mCM + 1 + (a - 1) * (acc.lineHeight + 1)
      (acc.cursor xOffset yOffset).render g textLine
    else
      let acc := if activeWidth < acc.strWidth textLine then
          acc.size (qint (fH > 0) fH 1) (qint (fV > 0) fV (qint (mAH ≥ 12) 2 0)) else acc
      let xOffset := if outputString.length > 0 then 2
        else shr1 (constrain (activeWidth - acc.strWidth textLine) 0 activeWidth)
      let yOffset := mCM + 1 - (u32 acc.lineHeight) / 2
      (acc.cursor xOffset yOffset).render g textLine
  else acc

/-- "Print value(s)" -/
def valueStep (acc : Acc) (g : Geom) (textLine outputString : List Nat) (fmt pair a activeWidth mAH mCM fH fV : Int) : Acc :=
  if outputString.length > 0 then
    if pair > 0 then
      let xOffset := if textLine.length > 0 then constrain (activeWidth - acc.strWidth outputString - 2) 0 activeWidth
        else shr1 (constrain (activeWidth - acc.strWidth outputString) 0 activeWidth)
      let yOffset := mCM + 1 + (a - 1) * (u32 (acc.lineHeight + 1))
      let acc := (acc.cursor xOffset yOffset).render g outputString
      if fmt = 5 then
        ((acc.size 1 1).cursor (constrain (xOffset - 10) 0 100) yOffset).render g (asciiBytes "1/")
      else acc
    else
      let acc := if activeWidth < acc.strWidth outputString then
          acc.size (qint (fH > 0) fH 1) (qint (fV > 0) fV (qint (mAH ≥ 12) 2 0)) else acc
      let xOffset := if textLine.length > 0 then constrain (activeWidth - acc.strWidth outputString - 2) 0 activeWidth
        else shr1 (constrain (activeWidth - acc.strWidth outputString) 0 activeWidth)
      let yOffset := mCM + 1 - (u32 acc.lineHeight) / 2
      let acc := (acc.cursor xOffset yOffset).render g outputString
      if fmt = 5 then
        ((acc.size 1 1).cursor (constrain (xOffset - 10) 0 100) (yOffset - 2)).render g (asciiBytes "1/")
      else acc
  else acc

/-- "BORDERS for pairs" -/
def borderStep (acc : Acc) (pair a activeWidth mCM : Int) : Acc :=
  if pair = a + 2 then
    acc.emit (.rrect 0 (mCM - 1 + (a - 1) * (acc.lineHeight + 1)) activeWidth (acc.lineHeight + 3) 1 true)
  else if pair = 4 then
    if a = 0 then
      acc.emit (.rrect 0 (mCM - 1 + (a - 1) * (acc.lineHeight + 1)) activeWidth (acc.lineHeight * 2 + 4) 1 true)
    else acc
  else acc

def iterValue (inp : TileIn) (a : Int) : List Nat := valueString inp.fmt (if a = 0 then inp.intVal else inp.intVal2)
def iterLine (inp : TileIn) (a : Int) : List Nat := if a = 0 then inp.line1 else inp.line2

theorem contentBody_steps (acc : Acc) (g : Geom) (inp : TileIn) (a aw mAH mCM fH fV : Int) :
    contentBody acc g inp a aw mAH mCM fH fV =
      borderStep (valueStep (labelStep acc g (iterLine inp a) (iterValue inp a) inp.pair a aw mAH mCM fH fV)
        g (iterLine inp a) (iterValue inp a) inp.fmt inp.pair a aw mAH mCM fH fV) inp.pair a aw mCM := rfl

/-- the title bar (line, or filled box, and the title text) -/
def titleStep (acc : Acc) (g : Geom) (inp : TileIn) (activeWidth titleHeight titlePadding : Int) : Acc :=
  if inp.title.length > 0 then
    let acc :=
      if !inp.solid then
        (acc.emit (.hline 1 (u32 (titleHeight - 1)) (activeWidth - 2) true)).color true
      else
        (acc.emit (.frrect 0 0 activeWidth titleHeight 1 true)).color false
    let xOffset := shr1 (constrain (activeWidth - acc.strWidth inp.title - qint (inp.stateIcon = 2) 6 0) 0 activeWidth)
    let yOffset := constrain (titlePadding - qint (!inp.solid) 1 0) 0 10
    let xOffset := if inp.solid ∧ xOffset = 0 then xOffset + 1 else xOffset
    (acc.cursor xOffset yOffset).render g inp.title
  else acc

/-- "Fine" and "Lock" icons -/
def stateIconStep (acc : Acc) (inp : TileIn) (activeWidth titleHeight : Int) : Acc :=
  let acc := if inp.stateIcon = 1 then
      acc.emit (.bitmap (activeWidth - 7) titleHeight speedGraphic 5 2 true false false) else acc
  if inp.stateIcon = 2 then
      acc.emit (.bitmap (activeWidth - 8) (constrain ((u32 (titleHeight - 8)) / 2) (-1) 10) lockGraphic 8 8 true (!inp.solid) true) else acc

/-- font / colour / size set-up of the content section -/
def contentSetup (acc : Acc) (inp : TileIn) (height ffc : Int) (fprop : Bool) (mAH fH fV : Int) : Acc :=
  let acc := acc.font ffc fprop
  let acc := acc.color true
  let acc := acc.size (qint (fH > 0) fH (qint (inp.pair > 0) 1 2)) (qint (fV > 0) fV (qint (height ≥ 48) 2 0))
  let acc := if height < 32 ∧ inp.pair > 0 then acc.font 2 fprop else acc
  if mAH < 12 ∧ inp.pair = 0 ∧ fH = 0 ∧ fV = 0 then acc.size 1 1 else acc

/-- "No Access" icon and modifier icon -/
def tailIconStep (acc : Acc) (inp : TileIn) (activeWidth activeHeight titleHeight : Int) : Acc :=
  let acc := if inp.stateIcon = 3 then
      acc.emit (.bitmap (activeWidth - 8) (activeHeight - 8) noAccessGraphic 8 8 true true true) else acc
  if inp.modIcon ≥ 1 ∧ inp.modIcon ≤ 7 then
    acc.emit (.bitmap (activeWidth - 8) (qint (inp.title.length > 0) (titleHeight + 1) 0) (iconBytes (inp.modIcon - 1).toNat) 8 8 true false true)
  else acc

/-- the geometry and styling values the layout derives from its inputs -/
structure Derived where
  sc : Scale
  ffc : Int
  fft : Int
  fprop : Bool
  fH : Int
  fV : Int
  tH : Int
  tV : Int
  unf : Int
  pad : Int
  sp : Nat
  aw : Int
  ah : Int
  g : Geom

def derive (inp : TileIn) (width height shrink border : Int) : Derived :=
  let st : Styling := inp.styling.getD {}
  let tf : Font := st.textFont.getD {}
  let ttf : Font := st.titleFont.getD {}
  let wShrink := qint (shrink.emod 2 = 1) 1 0
  let hShrink := qint ((shrink.emod 4) / 2 = 1) 1 0
  let aw := qint (border > 0) (width - border * 2) (width - wShrink)
  let ah := qint (border > 0) (height - border * 2) (height - hShrink)
  { sc := inp.scale.getD {}, ffc := tf.face.emod 8, fft := ttf.face.emod 8, fprop := !st.fixedWidth,
    fH := tf.tw.emod 4, fV := tf.th.emod 4, tH := ttf.tw.emod 4, tV := ttf.th.emod 4, unf := st.unfSize, pad := st.titlePad,
    sp := (st.extraSp.emod 4).toNat, aw := aw, ah := ah,
    g := { W := width.toNat, H := height.toNat, wib := (width.toNat + 7) / 8,
           bx := border, byy := border, bw := aw, bh := ah, inv := false } }

/-- the accumulator the layout starts from -/
def acc0 (d : Derived) : Acc := { ops := #[], t := { spacing := d.sp, wrap := false } }

/-- formats 10 and 11 -/
def plain10 (inp : TileIn) (d : Derived) : Acc :=
  let acc := ((acc0 d).font d.ffc d.fprop).color true
  let u := constrain d.unf 1 4
  let acc := acc.size (qint (d.fH > 0) d.fH u) (qint (d.fV > 0) d.fV u)
  let xOffset := shr1 (constrain (d.aw - acc.strWidth inp.title) 0 d.aw)
  let yOffset := shr1 (d.ah - acc.lineHeight)
  (acc.cursor xOffset yOffset).render d.g inp.title

def plain11 (inp : TileIn) (d : Derived) : Acc :=
  let acc := ((acc0 d).font d.ffc d.fprop).color true
  let u := constrain d.unf 1 4
  let acc := acc.size (qint (d.fH > 0) d.fH u) (qint (d.fV > 0) d.fV u)
  let xOffset := shr1 (constrain (d.aw - acc.strWidth inp.line1) 0 d.aw)
  let yOffset := shr1 d.ah - acc.lineHeight
  let acc := (acc.cursor xOffset yOffset).render d.g inp.line1
  let xOffset := shr1 (constrain (d.aw - acc.strWidth inp.line2) 0 d.aw)
  let yOffset := shr1 d.ah
  (acc.cursor xOffset yOffset).render d.g inp.line2

def titlePaddingOf (d : Derived) (width height : Int) : Int :=
  qint (d.pad > 0) d.pad (qint (height < 32 ∧ width ≠ 256) 1 (qint (width = 256) 3 1))

/-- the accumulator after the title font was selected -/
def titleSetup (d : Derived) (width height : Int) : Acc :=
  let acc := (acc0 d).font (qint (height < 32 ∧ width ≠ 256) 2 d.fft) d.fprop
  acc.size (qint (d.tH > 0) d.tH (qint (width = 256) 2 1)) (qint (d.tV > 0) d.tV 1)

def titleHeightOf (d : Derived) (width height : Int) : Int :=
  u32 (((titleSetup d width height).lineHeight - 1) + 2 * u32 (titlePaddingOf d width height))

/-- the accumulator before the content section: title bar and state icons -/
def headPart (inp : TileIn) (d : Derived) (width height : Int) : Acc :=
  stateIconStep (titleStep (titleSetup d width height) d.g inp d.aw (titleHeightOf d width height) (titlePaddingOf d width height))
    inp d.aw (titleHeightOf d width height)

def topOffsetOf (inp : TileIn) (d : Derived) (width height : Int) : Int :=
  qint (inp.title.length > 0) (titleHeightOf d width height) 0
def availOf (inp : TileIn) (d : Derived) (width height : Int) : Int :=
  d.ah - topOffsetOf inp d width height - qint (d.sc.stype > 0) 3 0
def middleOf (inp : TileIn) (d : Derived) (width height : Int) : Int :=
  topOffsetOf inp d width height + shr1 (availOf inp d width height + 1)

/-- the default formats, with the content iteration as a parameter -/
def defaultWith (ci : Acc → Geom → Scale → Int → Int → Int → Int → Int → Int → Int → Int → Int → Acc)
    (inp : TileIn) (d : Derived) (width height : Int) : Acc :=
  let head := headPart inp d width height
  let mAH := availOf inp d width height
  let mCM := middleOf inp d width height
  if mAH ≥ 8 then
    let acc := contentSetup head inp height d.ffc d.fprop mAH d.fH d.fV
    let acc := ci acc d.g d.sc 0 width height d.aw d.ah mAH mCM d.fH d.fV
    let acc := if inp.pair > 0 then ci acc d.g d.sc 1 width height d.aw d.ah mAH mCM d.fH d.fV else acc
    tailIconStep acc inp d.aw d.ah (titleHeightOf d width height)
  else head

theorem tileAccWith_steps (ci : Acc → Geom → Scale → Int → Int → Int → Int → Int → Int → Int → Int → Int → Acc)
    (inp : TileIn) (width height shrink border : Int) :
    tileAccWith ci inp width height shrink border =
      if inp.fmt = 10 then plain10 inp (derive inp width height shrink border)
      else if inp.fmt = 11 then plain11 inp (derive inp width height shrink border)
      else defaultWith ci inp (derive inp width height shrink border) width height := rfl

end RawPanelVerif.Tile
