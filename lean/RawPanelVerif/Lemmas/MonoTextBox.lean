import RawPanelVerif.Lemmas.MonoOps
import RawPanelVerif.Lemmas.MonoTextLines
import RawPanelVerif.Lemmas.MonoFont
/-!
# The text box: cursor advances, `StrWidth`, and the frame of `RenderText` (helper lemmas of C20)

`advSum` = sum of the cursor advances = `StrWidth + h`; `textBox` = the box callers centre and right-align with;
`renderText_box`: a string without line feed touches its box only; `lines` / `linesBox` / `renderText_lines_box`: a string
with line feeds touches the union of the boxes of its lines (first line at the cursor, the others at column 0).
(Restated under their historical names in `Props/C20.lean`.)
-/
namespace RawPanelVerif.Mono
open RawPanelVerif.Gen

/-- sum of the cursor advances = `StrWidth + h` -/
def advSum (t : TextSt) : List Nat → Int
  | [] => 0
  | ch :: rest => ((charWidth t ch : Int) * t.tsH + t.spacing) + advSum t rest

theorem foldl_adv (t : TextSt) (s : List Nat) (acc : Int) :
    s.foldl (fun w ch => w + (charWidth t ch : Int) * t.tsH + t.spacing) acc = acc + advSum t s := by
  induction s generalizing acc with
  | nil => simp [advSum]
  | cons ch rest ih => simp only [List.foldl_cons, advSum]; rw [ih]; omega

theorem strWidth_eq (t : TextSt) (s : List Nat) : strWidth t s = advSum t s - t.tsH := by
  unfold strWidth; rw [foldl_adv]; omega

theorem advSum_nonneg (t : TextSt) (h : 0 ≤ t.tsH) (s : List Nat) : 0 ≤ advSum t s := by
  induction s with
  | nil => simp [advSum]
  | cons ch rest ih =>
    unfold advSum
    have : (0 : Int) ≤ (charWidth t ch : Int) * t.tsH := Int.mul_nonneg (by omega) h
    omega

theorem advSum_cx (t : TextSt) (x : Int) (s : List Nat) : advSum { t with cx := x } s = advSum t s := by
  induction s with
  | nil => rfl
  | cons ch rest ih => unfold advSum; rw [ih]; rfl

theorem advSum_cxy (t : TextSt) (x y : Int) (s : List Nat) : advSum { t with cx := x, cy := y } s = advSum t s := by
  induction s with
  | nil => rfl
  | cons ch rest ih => unfold advSum; rw [ih]; rfl

/-- the text box in absolute coordinates (before clipping) for cursor `(cx,cy)` -/
def textBox (g : Geom) (t : TextSt) (w : Int) : Region :=
  boxR g (t.cx + g.bx) (t.cy + g.byy) (t.cx + g.bx + w) (t.cy + g.byy + (t.fp.bbH : Int) * t.tsV)

theorem renderText_box (s : List Nat) (hs : 10 ∉ s) (c : Canvas) (hwf : c.WF) (t : TextSt)
    (hw : t.wrap = false) (hH : 0 ≤ t.tsH) :
    Touch (textBox c.geo t (advSum t s)) c (renderText (c, t) s).1 := by
  unfold renderText
  induction s generalizing c t with
  | nil => exact Touch.refl _ c hwf
  | cons ch rest ih =>
    have hch : ch ≠ 10 := fun e => hs (by simp [e])
    have hrest : 10 ∉ rest := fun e => hs (by simp [e])
    rw [List.foldl_cons]
    have hadv : (0 : Int) ≤ (charWidth t ch : Int) * t.tsH := Int.mul_nonneg (by omega) hH
    have hrn := advSum_nonneg t hH rest
    by_cases h13 : ch = 13
    · -- CR: skipped, cursor unchanged
      have hw13 : writeChar (c, t) ch = (c, t) := by
        unfold writeChar; simp [h13]
      rw [hw13]
      refine (ih hrest c hwf t hw hH).mono ?_
      rintro X Y ⟨hc, q1, q2, q3, q4⟩
      refine ⟨hc, q1, ?_, q3, q4⟩
      unfold advSum; omega
    · -- a drawn character
      have hwc : writeChar (c, t) ch =
          (drawChar c t t.cx t.cy ch t.tcol t.tbg t.tsH t.tsV,
            { t with cx := t.cx + t.tsH * (charWidth t ch : Int) + t.spacing }) := by
        unfold writeChar; simp [hch, h13, hw]
      rw [hwc]
      have t1 := drawChar_touch c hwf t t.cx t.cy ch t.tcol t.tbg t.tsH t.tsV
      have t1' : Touch (textBox c.geo t (advSum t (ch :: rest))) c
          (drawChar c t t.cx t.cy ch t.tcol t.tbg t.tsH t.tsV) := by
        refine t1.mono ?_
        rintro X Y ⟨hc, q1, q2, q3, q4⟩
        refine ⟨hc, q1, ?_, q3, q4⟩
        unfold advSum; omega
      have t2 := ih hrest _ t1.wf { t with cx := t.cx + t.tsH * (charWidth t ch : Int) + t.spacing } hw hH
      rw [t1.geo, advSum_cx] at t2
      refine t1'.trans (t2.mono ?_)
      rintro X Y ⟨hc, q1, q2, q3, q4⟩
      have e : t.tsH * (charWidth t ch : Int) = (charWidth t ch : Int) * t.tsH := Int.mul_comm _ _
      refine ⟨hc, ?_, ?_, q3, q4⟩
      · simp only [] at q1; omega
      · simp only [] at q2; unfold advSum; omega

/-- a text whose box `[cx, cx + advSum) × [cy, …)` starts on the canvas and ends inside its width is never rejected by
`DrawChar`'s whole-glyph test -/
theorem noEarly_of_fits (W H : Nat) (s : List Nat) (t : TextSt) (hh : 1 ≤ t.tsH) (hv : 1 ≤ t.tsV)
    (hx : 0 ≤ t.cx) (hy : 0 ≤ t.cy) (hyH : t.cy ≤ H) (hfit : t.cx + advSum t s ≤ W) :
    NoEarly (geo0 W H) t s := by
  induction s generalizing t with
  | nil => simp [NoEarly]
  | cons ch rest ih =>
    simp only [NoEarly]
    have hadv : advSum t (ch :: rest) = ((charWidth t ch : Int) * t.tsH + t.spacing) + advSum t rest := rfl
    have hnn := advSum_nonneg t (by omega) rest
    have hcwh : (0 : Int) ≤ (charWidth t ch : Int) * t.tsH := Int.mul_nonneg (by omega) (by omega)
    by_cases h13 : ch = 13
    · simp only [h13, if_true]
      exact ih t hh hv hx hy hyH (by rw [hadv] at hfit; omega)
    · simp only [h13, if_false]
      refine ⟨?_, ?_⟩
      · unfold earlyRet getBWidth
        have hg : (geo0 W H).bw = W := rfl
        have hgW : (geo0 W H).W = W := rfl
        have hgH : (geo0 W H).H = H := rfl
        rw [hg, hgW, hgH]
        have e1 : ((charWidth t ch : Int) - 1) * t.tsH = (charWidth t ch : Int) * t.tsH - t.tsH := by
          rw [Int.sub_mul, Int.one_mul]
        have ⟨p1, p2⟩ := fp_pos t.font
        have b1 : (1 : Int) ≤ (t.fp.bbW : Int) * t.tsH := by
          have : (1 : Int) * 1 ≤ (t.fp.bbW : Int) * t.tsH :=
            Int.mul_le_mul (by unfold TextSt.fp; omega) hh (by omega) (by omega)
          omega
        have b2 : (1 : Int) ≤ (t.fp.bbH : Int) * t.tsV := by
          have : (1 : Int) * 1 ≤ (t.fp.bbH : Int) * t.tsV :=
            Int.mul_le_mul (by unfold TextSt.fp; omega) hv (by omega) (by omega)
          omega
        rw [e1]
        split <;> omega
      · apply ih
        · exact hh
        · exact hv
        · show 0 ≤ t.cx + t.tsH * (charWidth t ch : Int) + t.spacing
          rw [Int.mul_comm]; omega
        · exact hy
        · exact hyH
        · rw [advSum_cx]
          show t.cx + t.tsH * (charWidth t ch : Int) + t.spacing + advSum t rest ≤ W
          rw [Int.mul_comm]; rw [hadv] at hfit; omega


/-! ## strings with line feeds: one box per line -/

theorem lines_ne_nil (s : List Nat) : lines s ≠ [] := by
  cases s with
  | nil => simp [lines]
  | cons ch rest =>
    unfold lines
    split
    · simp
    · split <;> simp

theorem lines_no_lf (s : List Nat) (hs : 10 ∉ s) : lines s = [s] := by
  induction s with
  | nil => rfl
  | cons ch rest ih =>
    have hch : ch ≠ 10 := fun e => hs (by simp [e])
    have hrest : 10 ∉ rest := fun e => hs (by simp [e])
    unfold lines
    rw [if_neg hch, ih hrest]

/-- union of the line boxes: line 0 at the cursor, every following line at column 0 one line advance further down -/
def linesBox (g : Geom) : TextSt → List (List Nat) → Region
  | _, [] => fun _ _ => False
  | t, l :: ls => fun X Y => textBox g t (advSum t l) X Y ∨ linesBox g (nl t) ls X Y

theorem nl_cx (t : TextSt) (x : Int) : nl { t with cx := x } = nl t := rfl

theorem textBox_mono (g : Geom) (t : TextSt) (w w' : Int) (h : w ≤ w') (X Y : Nat) (hb : textBox g t w X Y) :
    textBox g t w' X Y := by
  obtain ⟨hc, q1, q2, q3, q4⟩ := hb
  exact ⟨hc, q1, by omega, q3, q4⟩

/-- **Frame of `RenderText` for any string**: with wrapping off every stored bit outside the union of the line boxes is
unchanged. -/
theorem renderText_lines_box (s : List Nat) (c : Canvas) (hwf : c.WF) (t : TextSt)
    (hw : t.wrap = false) (hH : 0 ≤ t.tsH) :
    Touch (linesBox c.geo t (lines s)) c (renderText (c, t) s).1 := by
  unfold renderText
  induction s generalizing c t with
  | nil => exact Touch.refl _ c hwf
  | cons ch rest ih =>
    rw [List.foldl_cons]
    by_cases h10 : ch = 10
    · subst h10
      rw [writeChar_lf]
      have e : lines (10 :: rest) = [] :: lines rest := by simp [lines]
      rw [e]
      exact (ih c hwf (nl t) hw hH).mono (fun X Y h => Or.inr h)
    · obtain ⟨l, ls, hl⟩ : ∃ l ls, lines rest = l :: ls := by
        cases h : lines rest with
        | nil => exact absurd h (lines_ne_nil rest)
        | cons l ls => exact ⟨l, ls, rfl⟩
      have e : lines (ch :: rest) = (ch :: l) :: ls := by
        show (if ch = 10 then [] :: lines rest else match lines rest with | [] => [[ch]] | l :: ls => (ch :: l) :: ls) = _
        rw [if_neg h10, hl]
      rw [e]
      have hadv : (0 : Int) ≤ (charWidth t ch : Int) * t.tsH := Int.mul_nonneg (by omega) hH
      have hln := advSum_nonneg t hH l
      have eadv : advSum t (ch :: l) = ((charWidth t ch : Int) * t.tsH + t.spacing) + advSum t l := rfl
      by_cases h13 : ch = 13
      · have hw13 : writeChar (c, t) ch = (c, t) := by unfold writeChar; simp [h13]
        rw [hw13]
        have := ih c hwf t hw hH
        rw [hl] at this
        refine this.mono ?_
        rintro X Y (hb | hr)
        · exact Or.inl (textBox_mono _ _ _ _ (by rw [eadv]; omega) X Y hb)
        · exact Or.inr hr
      · have hwc : writeChar (c, t) ch =
            (drawChar c t t.cx t.cy ch t.tcol t.tbg t.tsH t.tsV,
              { t with cx := t.cx + t.tsH * (charWidth t ch : Int) + t.spacing }) := by
          unfold writeChar; simp [h10, h13, hw]
        rw [hwc]
        have t1 := drawChar_touch c hwf t t.cx t.cy ch t.tcol t.tbg t.tsH t.tsV
        have t1' : Touch (linesBox c.geo t ((ch :: l) :: ls)) c
            (drawChar c t t.cx t.cy ch t.tcol t.tbg t.tsH t.tsV) := by
          refine t1.mono ?_
          rintro X Y ⟨hc, q1, q2, q3, q4⟩
          refine Or.inl ⟨hc, q1, ?_, q3, q4⟩
          rw [eadv]; omega
        have t2 := ih _ t1.wf { t with cx := t.cx + t.tsH * (charWidth t ch : Int) + t.spacing } hw hH
        rw [t1.geo, hl] at t2
        refine t1'.trans (t2.mono ?_)
        rintro X Y (hb | hr)
        · left
          obtain ⟨hc, q1, q2, q3, q4⟩ := hb
          rw [advSum_cx] at q2
          have e : t.tsH * (charWidth t ch : Int) = (charWidth t ch : Int) * t.tsH := Int.mul_comm _ _
          refine ⟨hc, ?_, ?_, q3, q4⟩
          · simp only [] at q1; omega
          · simp only [] at q2; rw [eadv]; omega
        · right
          rw [nl_cx] at hr
          exact hr

theorem advSum_app (t : TextSt) (a b : List Nat) : advSum t (a ++ b) = advSum t a + advSum t b := by
  induction a with
  | nil => simp [advSum]
  | cons x a ih =>
    show ((charWidth t x : Int) * t.tsH + t.spacing) + advSum t (a ++ b) =
      ((charWidth t x : Int) * t.tsH + t.spacing) + advSum t a + advSum t b
    rw [ih]; omega

/-! ## wrapping -/

/-- the wrap test of `writeChar` never fires: after every drawn character the new cursor is at most
`GetBWidth − h·(cw − 1)` -/
def NoWrap (g : Geom) : TextSt → List Nat → Prop
  | _, [] => True
  | t, ch :: rest =>
    if ch = 10 then NoWrap g (nl t) rest
    else if ch = 13 then NoWrap g t rest
    else t.cx + t.tsH * (charWidth t ch : Int) + t.spacing ≤ getBWidth g - t.tsH * ((charWidth t ch : Int) - 1) ∧
      NoWrap g { t with cx := t.cx + t.tsH * (charWidth t ch : Int) + t.spacing } rest

theorem drawChar_geo (c : Canvas) (hwf : c.WF) (t : TextSt) (x y : Int) (ch : Nat) (col bg : Bool) (h v : Int) :
    (drawChar c t x y ch col bg h v).geo = c.geo := (drawChar_touch c hwf t x y ch col bg h v).geo

/-- with wrapping on but the wrap test never firing, `RenderText` does exactly what it does with wrapping off
(canvas and final cursor) -/
theorem renderText_nowrap (s : List Nat) (c : Canvas) (hwf : c.WF) (t : TextSt) (hw : t.wrap = true)
    (hn : NoWrap c.geo t s) :
    (renderText (c, t) s).1 = (renderText (c, { t with wrap := false }) s).1 ∧
    { (renderText (c, t) s).2 with wrap := false } = (renderText (c, { t with wrap := false }) s).2 := by
  unfold renderText
  induction s generalizing c t with
  | nil => exact ⟨rfl, rfl⟩
  | cons ch rest ih =>
    rw [List.foldl_cons, List.foldl_cons]
    simp only [NoWrap] at hn
    by_cases h10 : ch = 10
    · subst h10
      simp only [if_true] at hn
      rw [writeChar_lf, writeChar_lf]
      exact ih c hwf (nl t) hw hn
    · by_cases h13 : ch = 13
      · simp only [h10, h13, if_true, if_false] at hn
        have e1 : writeChar (c, t) ch = (c, t) := by unfold writeChar; simp [h13]
        have e2 : writeChar (c, { t with wrap := false }) ch = (c, { t with wrap := false }) := by unfold writeChar; simp [h13]
        rw [e1, e2]
        exact ih c hwf t hw hn
      · simp only [h10, h13, if_false] at hn
        obtain ⟨hfit, hrest⟩ := hn
        have hg := drawChar_geo c hwf t t.cx t.cy ch t.tcol t.tbg t.tsH t.tsV
        have e1 : writeChar (c, t) ch =
            (drawChar c t t.cx t.cy ch t.tcol t.tbg t.tsH t.tsV,
              { t with cx := t.cx + t.tsH * (charWidth t ch : Int) + t.spacing }) := by
          unfold writeChar
          simp only [h10, h13, if_false]
          rw [if_neg]
          rintro ⟨_, hgt⟩
          omega
        have e2 : writeChar (c, { t with wrap := false }) ch =
            (drawChar c t t.cx t.cy ch t.tcol t.tbg t.tsH t.tsV,
              { t with wrap := false, cx := t.cx + t.tsH * (charWidth t ch : Int) + t.spacing }) := by
          unfold writeChar
          simp only [h10, h13, if_false]
          rw [if_neg (by simp)]
          rfl
        rw [e1, e2]
        have t1 := drawChar_touch c hwf t t.cx t.cy ch t.tcol t.tbg t.tsH t.tsV
        have := ih _ t1.wf { t with cx := t.cx + t.tsH * (charWidth t ch : Int) + t.spacing } hw (by rw [hg]; exact hrest)
        exact this

/-- a sufficient arithmetic condition: the text box plus eight more size steps fits inside the bounding-box width -/
theorem noWrap_of_fits (g : Geom) (s : List Nat) (hs : 10 ∉ s) (t : TextSt) (hh : 0 ≤ t.tsH)
    (hfit : t.cx + advSum t s + 8 * t.tsH ≤ getBWidth g) : NoWrap g t s := by
  induction s generalizing t with
  | nil => simp [NoWrap]
  | cons ch rest ih =>
    have hch : ch ≠ 10 := fun e => hs (by simp [e])
    have hrest : 10 ∉ rest := fun e => hs (by simp [e])
    simp only [NoWrap, hch, if_false]
    have hadv : advSum t (ch :: rest) = ((charWidth t ch : Int) * t.tsH + t.spacing) + advSum t rest := rfl
    have hnn := advSum_nonneg t hh rest
    have hcwh : (0 : Int) ≤ (charWidth t ch : Int) * t.tsH := Int.mul_nonneg (by omega) hh
    by_cases h13 : ch = 13
    · simp only [h13, if_true]
      exact ih hrest t hh (by rw [hadv] at hfit; omega)
    · simp only [h13, if_false]
      have hcw := charWidth_le t ch
      have e1 : t.tsH * ((charWidth t ch : Int) - 1) ≤ t.tsH * 8 := Int.mul_le_mul_of_nonneg_left (by omega) hh
      have e2 : t.tsH * (charWidth t ch : Int) = (charWidth t ch : Int) * t.tsH := Int.mul_comm _ _
      refine ⟨by rw [hadv] at hfit; omega, ?_⟩
      apply ih hrest
      · exact hh
      · rw [advSum_cx]
        show t.cx + t.tsH * (charWidth t ch : Int) + t.spacing + advSum t rest + 8 * t.tsH ≤ getBWidth g
        rw [hadv] at hfit; omega

end RawPanelVerif.Mono
