import RawPanelVerif.Lemmas.EncDom2
/-! Round trip, part 3: the `HWCt#` line of an in-domain text record is a well-formed text line; the chunk lines of an
in-domain image are well-formed graphics lines forming one in-order transfer that delivers a non-default image;
assembly over ids / states / messages: `enc_in_domain_all`. -/
namespace RawPanelVerif.EncDom
open RawPanelVerif RawPanelVerif.Bytes RawPanelVerif.MsgIn RawPanelVerif.Model.In RawPanelVerif.InBits RawPanelVerif.ReadIn
open RawPanelVerif.Spec.In RawPanelVerif.TotalIn RawPanelVerif.EncSound RawPanelVerif.DecGfx

variable (O : Oracles)

/-! ## text -/

theorem dropTrailingEmpty_length (fs : List Bytes) : (dropTrailingEmpty fs).length ≤ fs.length := by
  induction fs with
  | nil => simp [dropTrailingEmpty]
  | cons f fs ih =>
    unfold dropTrailingEmpty
    split
    · simp
    · simp only [List.length_cons]; omega

theorem split_implode_length (fs : List Bytes) (h : ∀ f ∈ fs, (124 : UInt8) ∉ f) (hl : 1 ≤ fs.length) :
    (splitOn 124 (implodeRTE 124 fs)).length ≤ fs.length := by
  unfold implodeRTE
  by_cases hd : dropTrailingEmpty fs = []
  · rw [hd]
    simp [join, splitOn]
    exact hl
  · rw [splitOn_join 124 _ hd (fun f hf => h f (mem_dropTrailingEmpty fs f hf))]
    exact dropTrailingEmpty_length fs

theorem int32Field_of (s : Bytes) (n : Int) (h : intField? s = some n) (hr : -2147483648 ≤ n ∧ n ≤ 2147483647) : int32Field s = true := by
  unfold int32Field
  rw [h]
  simp only [i32ok, Bool.and_eq_true, decide_eq_true_eq]
  exact hr

theorem textWellFormed_enc (t : Text) (hok : textOk t = true) :
    textWellFormed (implodeRTE 124 (textField0P t :: textFieldsTail t)) = true := by
  have hread := readText_enc t hok
  unfold textOk at hok
  simp only [Bool.and_eq_true] at hok
  obtain ⟨⟨⟨⟨⟨⟨⟨⟨⟨⟨⟨⟨⟨hiv, hfmt⟩, hsi⟩, hmi⟩, hti⟩, hl1⟩, hl2⟩, hiv2⟩, hpm⟩, hsc⟩, hst⟩, hpc⟩, hbc⟩, hpair⟩ := hok
  have hnb := fields_nobar t hti hl1 hl2
  have hf : ∀ i, fld (splitOn 124 (implodeRTE 124 (textField0P t :: textFieldsTail t))) i = (textField0P t :: textFieldsTail t).getD i [] :=
    fun i => fields_roundtrip 124 _ hnb i
  have hlen : (splitOn 124 (implodeRTE 124 (textField0P t :: textFieldsTail t))).length ≤ 21 := by
    have := split_implode_length (textField0P t :: textFieldsTail t) hnb (by simp)
    simpa [textFieldsTail] using this
  have hsty : (match t.textStyling with | some ts => u32ok ts.unformattedFontSize | none => true) = true := by
    cases hts : t.textStyling with
    | none => rfl
    | some ts => rw [hts] at hst; simp only [Bool.and_eq_true] at hst; exact hst.2
  have rfmt := enumOk_range _ _ hfmt
  have rpm := enumOk_range _ _ hpm
  have riv := i32ok_range _ hiv
  have riv2 := i32ok_range _ hiv2
  have hscr : ∀ s, t.scale = some s → (0 ≤ s.scaleType ∧ s.scaleType ≤ 3) ∧ (-2147483648 ≤ s.rangeLow ∧ s.rangeLow ≤ 2147483647) ∧
      (-2147483648 ≤ s.rangeHigh ∧ s.rangeHigh ≤ 2147483647) ∧ (-2147483648 ≤ s.limitLow ∧ s.limitLow ≤ 2147483647) ∧
      (-2147483648 ≤ s.limitHigh ∧ s.limitHigh ≤ 2147483647) := by
    intro s hs
    rw [hs] at hsc
    simp only [Bool.and_eq_true] at hsc
    exact ⟨enumOk_range _ _ hsc.1.1.1.1, i32ok_range _ hsc.1.1.1.2, i32ok_range _ hsc.1.1.2, i32ok_range _ hsc.1.2, i32ok_range _ hsc.2⟩
  -- a scale field parses to a value inside int32
  have scaleF : ∀ f : Scale → Int, (∀ s, t.scale = some s → -2147483648 ≤ f s ∧ f s ≤ 2147483647) →
      int32Field (scaleField t f) = true := by
    intro f hfr
    refine int32Field_of _ _ (scale_parse t f (fun s hs => by have := hfr s hs; omega)) ?_
    unfold scaleVal scaleOn
    cases hs : t.scale with
    | none => simp
    | some s =>
      simp only []
      split
      · rename_i s' heq
        split at heq
        · injection heq with heq; rw [← heq]; exact hfr s hs
        · simp at heq
      · simp
  have e1 : intField? (if t.formatting > 0 ∧ t.formatting ≠ 7 then itoa t.formatting else []) =
      some (if t.formatting > 0 ∧ t.formatting ≠ 7 then t.formatting else 0) := by
    split
    · exact intField_itoa _ (by omega)
    · rfl
  have i1 : int32Field (if t.formatting > 0 ∧ t.formatting ≠ 7 then itoa t.formatting else []) = true :=
    int32Field_of _ _ e1 (by split <;> omega)
  have i7 : int32Field (if t.integerValue2 ≠ 0 then itoa t.integerValue2 else []) = true :=
    int32Field_of _ _ (intField_ifne t.integerValue2 (by omega)) riv2
  have i8 : int32Field (if t.pairMode > 0 then itoa t.pairMode else []) = true :=
    int32Field_of _ _ (intField_ifpos t.pairMode (by omega)) (by omega)
  have i9 := scaleF (fun s => s.scaleType) (fun s hs => by have := hscr s hs; omega)
  have i10 := scaleF (fun s => s.rangeLow) (fun s hs => (hscr s hs).2.1)
  have i11 := scaleF (fun s => s.rangeHigh) (fun s hs => (hscr s hs).2.2.1)
  have i12 := scaleF (fun s => s.limitLow) (fun s hs => (hscr s hs).2.2.2.1)
  have i13 := scaleF (fun s => s.limitHigh) (fun s hs => (hscr s hs).2.2.2.2)
  have i0 : (if is1011 (if t.formatting > 0 ∧ t.formatting ≠ 7 then t.formatting else 0) = true
      then (numField? (textField0P t)).isSome else int32Field (textField0P t)) = true := by
    by_cases h1011 : t.formatting = 10 ∨ t.formatting = 11
    · have ec : (if t.formatting > 0 ∧ t.formatting ≠ 7 then t.formatting else 0) = t.formatting := by
        rw [if_pos (by omega)]
      rw [ec, (is1011_iff _).mpr h1011]
      simp only [if_true]
      unfold textField0P
      have h3 : isFmt t.formatting [7, 10, 11] = true := (isFmt3 _).mpr (by omega)
      have h2 : isFmt t.formatting [10, 11] = true := (isFmt2 _).mpr h1011
      simp only [h3, h2, Bool.not_true, Bool.false_eq_true, if_false, if_true]
      rw [numField_utoa _ (by
        unfold ufsOf
        cases hts : t.textStyling with
        | none => simp
        | some ts => rw [hts] at hsty; exact u32ok_lt _ hsty)]
      rfl
    · have hn : is1011 (if t.formatting > 0 ∧ t.formatting ≠ 7 then t.formatting else 0) = false := by
        cases hc : is1011 (if t.formatting > 0 ∧ t.formatting ≠ 7 then t.formatting else 0)
        · rfl
        · have := (is1011_iff _).mp hc
          exfalso
          split at this <;> omega
      rw [hn]
      simp only [Bool.false_eq_true, if_false]
      have h2 : isFmt t.formatting [10, 11] = false := by
        cases hc : isFmt t.formatting [10, 11]
        · rfl
        · exact absurd ((isFmt2 _).mp hc) h1011
      unfold textField0P
      by_cases h7 : isFmt t.formatting [7, 10, 11] = true
      · simp only [h7, h2, Bool.not_true, Bool.false_eq_true, if_false]
        rfl
      · have h7' : isFmt t.formatting [7, 10, 11] = false := by simpa using h7
        simp only [h7', Bool.not_false, if_true]
        exact int32Field_of _ _ (intField_itoa _ (by omega)) riv
  unfold textWellFormed
  simp only [hf, hread, Option.isSome_some]
  rw [decide_eq_true hlen]
  simp only [textFieldsTail, List.getD_cons_succ, List.getD_cons_zero]
  rw [i1, i7, i8, i9, i10, i11, i12, i13, e1]
  simp only []
  rw [i0]
  rfl

theorem text_dom (id : Nat) (hid : id < 4294967296) (t : Option Text)
    (h : (match t with | some t => t = {} || textOk t | none => true) = true) : Dom O (textLinesP id t) := by
  cases t with
  | none => exact Dom.nil O
  | some t =>
    simp only [] at h
    unfold textLinesP
    simp only []
    by_cases he : t = {}
    · have : textIsEmpty t = true := by unfold textIsEmpty; simp [he]
      rw [if_pos this]
      exact Dom.nil O
    · have hne : ¬ textIsEmpty t = true := by unfold textIsEmpty; simpa using he
      rw [if_neg hne]
      simp only [he, decide_false, Bool.false_or] at h
      have hok := h
      unfold textOk at h
      simp only [Bool.and_eq_true] at h
      obtain ⟨⟨⟨⟨⟨⟨⟨⟨⟨⟨⟨⟨⟨_, _⟩, _⟩, _⟩, hti⟩, hl1⟩, hl2⟩, _⟩, _⟩, _⟩, _⟩, _⟩, _⟩, _⟩ := h
      have hwf : hashOk (asc "HWCt") (utoa id) (implodeRTE 124 (textField0P t :: textFieldsTail t)) = true := by
        unfold hashOk
        rw [if_neg (by decide), ids_utoa id hid]
        simp only [Option.isNone_some, Bool.false_eq_true, if_false]
        rw [if_neg (by decide)]
        first
          | (rw [if_pos rfl]; exact textWellFormed_enc t hok)
          | (rw [if_pos trivial]; exact textWellFormed_enc t hok)
      have h10 := nl_join _ (fields_nolf t hti hl1 hl2)
      refine Dom.single' ?_ (classify_hash O (asc "HWCt") (asc "HWCt#") (utoa id) _ (by decide) (by decide)
        (by decide) (by decide) (not_mem_utoa id 61 (by decide)) (by decide) (by nolf) hwf)
      rw [read_hash O (asc "HWCt") (asc "HWCt#") id _ (by decide) (by decide) (by decide) (by decide)]
      unfold readHash
      rw [if_neg (by decide), if_neg (by decide), if_neg (by decide), if_pos rfl]
      exact ⟨_, rfl⟩

/-! ## graphics -/

theorem canonical_encode (c : Bytes) : canonicalB64 (B64In.encode c) = true := by
  unfold canonicalB64
  rw [B64In.decode_encode]
  simp

theorem gfxWellFormed_line (kind : GfxKind) (id : Nat) (g : Gfx) (total i : Nat) (hid : id < 4294967296)
    (hi : i < total) (ht : total = totalLines g.imageData.length) (ht' : total ≤ 4294967296)
    (hw : g.w < 4294967296) (hh : g.h < 4294967296) (hx : g.x < 4294967296) (hy : g.y < 4294967296) :
    gfxWellFormed kind (utoa id) (utoa i ++ (if i = 0 then gfxHeader g total else []) ++ asc ":" ++ B64In.encode (chunkAt g.imageData i)) = true := by
  unfold gfxWellFormed
  rw [readGfx_line kind id g total i hid hi ht ht' hw hh hx hy]
  have hpre : (58 : UInt8) ∉ utoa i ++ (if i = 0 then gfxHeader g total else []) := by
    intro hm
    simp only [List.mem_append] at hm
    rcases hm with hm | hm
    · exact not_mem_utoa _ 58 (by decide) hm
    · split at hm
      · rw [gfxHeader_eq] at hm
        simp only [List.mem_cons] at hm
        rcases hm with hm | hm
        · exact absurd hm (by decide)
        · exact not58_hdr g total hm
      · simp at hm
  rw [show asc ":" = [58] by decide, List.append_assoc, List.singleton_append, cut_append 58 _ _ hpre]
  simp only [Option.isSome_some, Bool.true_and]
  exact canonical_encode _

theorem gfx_classify (id : Nat) (g : Gfx) (total i : Nat) (hid : id < 4294967296)
    (hty : enumOk g.imageType 2 = true)
    (hi : i < total) (ht : total = totalLines g.imageData.length) (ht' : total ≤ 4294967296)
    (hw : g.w < 4294967296) (hh : g.h < 4294967296) (hx : g.x < 4294967296) (hy : g.y < 4294967296) :
    classify O (gfxLineOf id g total i (chunkAt g.imageData i)) = .wellFormed := by
  have hr := enumOk_range _ _ hty
  have hwf := fun kind => gfxWellFormed_line kind id g total i hid hi ht ht' hw hh hx hy
  have hk := nl_gfxKeyword g.imageType
  have hh' := nl_gfxHeader g total
  have h10v : (10 : UInt8) ∉ utoa i ++ (if i = 0 then gfxHeader g total else []) ++ asc ":" ++ B64In.encode (chunkAt g.imageData i) := by
    split <;> nolf
  unfold gfxLineOf
  have key : ∀ (F Fh : Bytes), Fh = F ++ [35] → keyHeadOk F = true → (61 : UInt8) ∉ F → (35 : UInt8) ∉ F → (10 : UInt8) ∉ Fh →
      grammarFams.contains F = true →
      hashOk F (utoa id) (utoa i ++ (if i = 0 then gfxHeader g total else []) ++ asc ":" ++ B64In.encode (chunkAt g.imageData i)) = true →
      classify O (Fh ++ utoa id ++ asc "=" ++ utoa i ++ (if i = 0 then gfxHeader g total else []) ++ asc ":" ++ B64In.encode (chunkAt g.imageData i)) = .wellFormed := by
    intro F Fh hF h0 h61 h35 hF10 hg hok
    have := classify_hash O F Fh (utoa id) (utoa i ++ (if i = 0 then gfxHeader g total else []) ++ asc ":" ++ B64In.encode (chunkAt g.imageData i))
      hF h0 h61 h35 (not_mem_utoa id 61 (by decide)) hg (by
        have h1 := nl_utoa id
        exact nl_append _ _ (nl_append _ _ (nl_append _ _ hF10 h1) (by decide)) h10v) hok
    simp only [List.append_assoc] at this ⊢
    exact this
  have : g.imageType = 0 ∨ g.imageType = 1 ∨ g.imageType = 2 := by omega
  rcases this with e | e | e
  · rw [e, show gfxKeyword 0 = asc "HWCg" from rfl]
    exact key (asc "HWCg") (asc "HWCg" ++ asc "#") (by decide) (by decide) (by decide) (by decide) (by decide) (by decide) (by
      unfold hashOk
      rw [if_neg (by decide), ids_utoa id hid]
      simp only [Option.isNone_some, Bool.false_eq_true, if_false]
      rw [if_neg (by decide), if_neg (by decide), if_neg (by decide)]
      first
        | (rw [if_pos rfl]; exact hwf .mono)
        | (rw [if_pos trivial]; exact hwf .mono))
  · rw [e, show gfxKeyword 1 = asc "HWCgRGB" from rfl]
    exact key (asc "HWCgRGB") (asc "HWCgRGB" ++ asc "#") (by decide) (by decide) (by decide) (by decide) (by decide) (by decide) (by
      unfold hashOk
      rw [if_neg (by decide), ids_utoa id hid]
      simp only [Option.isNone_some, Bool.false_eq_true, if_false]
      rw [if_neg (by decide), if_neg (by decide), if_neg (by decide), if_neg (by decide)]
      first
        | (rw [if_pos rfl]; exact hwf .rgb)
        | (rw [if_pos trivial]; exact hwf .rgb))
  · rw [e, show gfxKeyword 2 = asc "HWCgGray" from rfl]
    exact key (asc "HWCgGray") (asc "HWCgGray" ++ asc "#") (by decide) (by decide) (by decide) (by decide) (by decide) (by decide) (by
      unfold hashOk
      rw [if_neg (by decide), ids_utoa id hid]
      simp only [Option.isNone_some, Bool.false_eq_true, if_false]
      rw [if_neg (by decide), if_neg (by decide), if_neg (by decide), if_neg (by decide), if_neg (by decide)]
      exact hwf .gray)

theorem not_blank (id : Nat) (g : Gfx) (hd : g.imageData ≠ []) : isBlankEffect (Effect.setGfx id (gfxOf g)) = false := by
  unfold isBlankEffect
  simp only [beq_eq_false_iff_ne, ne_eq]
  intro e
  have : (gfxOf g).data = blankGfx.data := by rw [e]
  exact hd this

/-- parts `k ..` of the transfer, arriving in state `xferAt k`: nothing dropped, nothing blank delivered, closed at the end -/
theorem gfx_tail_dom (id : Nat) (g : Gfx) (total : Nat) (hid : id < 4294967296) (hty : enumOk g.imageType 2 = true)
    (ht : total = totalLines g.imageData.length) (ht' : total ≤ 4294967296) (hd : g.imageData ≠ [])
    (hw : g.w < 4294967296) (hh : g.h < 4294967296) (hx : g.x < 4294967296) (hy : g.y < 4294967296) :
    ∀ n k, 1 ≤ k → k + (n + 1) = total → ∀ rest,
      gfxDiscipline O (some (xferAt id g total k))
        ((List.range' k (n + 1)).map (fun i => gfxLineOf id g total i (chunkAt g.imageData i)) ++ rest) = gfxDiscipline O none rest ∧
      noBlankImage O (some (xferAt id g total k))
        ((List.range' k (n + 1)).map (fun i => gfxLineOf id g total i (chunkAt g.imageData i)) ++ rest) = noBlankImage O none rest := by
  intro n
  induction n with
  | zero =>
    intro k hk1 hk rest
    simp only [List.range', List.map_cons, List.map_nil, List.singleton_append, gfxDiscipline, noBlankImage]
    rw [gfx_readLine O id g total k hid hty (by omega) ht ht' hw hh hx hy]
    simp only []
    rw [step_mid id g total k hk1 (by omega), if_pos (by omega)]
    simp only []
    have : k + 1 = total := by omega
    rw [this, chunks_all g total ht]
    have hb := not_blank id g hd
    unfold gfxOf at hb
    simp only [List.any_cons, List.any_nil, Bool.or_false, hb, Bool.not_false, Bool.true_and, and_self]
  | succ n ih =>
    intro k hk1 hk rest
    rw [List.range'_succ]
    simp only [List.map_cons, List.cons_append, gfxDiscipline, noBlankImage]
    rw [gfx_readLine O id g total k hid hty (by omega) ht ht' hw hh hx hy]
    simp only []
    rw [step_mid id g total k hk1 (by omega), if_neg (by omega)]
    simp only [List.any_nil, Bool.not_false, Bool.true_and]
    exact ih (k + 1) (by omega) (by omega) rest

theorem gfx_dom (id : Nat) (hid : id < 4294967296) (g : Option Gfx)
    (h : (match g with | some g => g = {} || gfxOk g | none => true) = true) : Dom O (gfxLinesP id g) := by
  cases g with
  | none => exact Dom.nil O
  | some g =>
    simp only [] at h
    unfold gfxLinesP
    simp only []
    by_cases he : g = {}
    · have : gfxIsEmpty g = true := by unfold gfxIsEmpty; simp [he]
      rw [if_pos this]
      exact Dom.nil O
    · have hne : ¬ gfxIsEmpty g = true := by unfold gfxIsEmpty; simpa using he
      rw [if_neg hne]
      simp only [he, decide_false, Bool.false_or] at h
      unfold gfxOk at h
      simp only [Bool.and_eq_true, decide_eq_true_eq] at h
      obtain ⟨⟨⟨⟨⟨⟨hty, hw⟩, hh⟩, hx⟩, hy⟩, hlen⟩, hlen2⟩ := h
      have hd : ¬ g.imageData = [] := by intro e; rw [e] at hlen; simp at hlen
      generalize htot : totalLines g.imageData.length = total
      have ht1 : 1 ≤ total := by rw [← htot, totalLines_eq]; omega
      have ht2 : total ≤ 4294967296 := by
        have := u32ok_lt _ hlen2
        rw [← htot, totalLines_eq]; omega
      have hw' := u32ok_lt _ hw
      have hh' := u32ok_lt _ hh
      have hx' := u32ok_lt _ hx
      have hy' := u32ok_lt _ hy
      refine ⟨?_, ?_, ?_⟩
      · intro l hl
        simp only [List.mem_map, List.mem_range] at hl
        obtain ⟨i, hi, rfl⟩ := hl
        rw [gfx_classify O id g total i hid hty hi htot.symm ht2 hw' hh' hx' hy']
        decide
      · intro rest
        obtain ⟨m, rfl⟩ : ∃ m, total = m + 1 := ⟨total - 1, by omega⟩
        rw [List.range_eq_range', List.range'_succ]
        simp only [List.map_cons, List.cons_append, gfxDiscipline]
        rw [gfx_readLine O id g (m + 1) 0 hid hty (by omega) htot.symm ht2 hw' hh' hx' hy']
        simp only []
        rw [step_first none id g (m + 1) (by omega)]
        cases m with
        | zero =>
          simp only [Nat.zero_add, Nat.sub_self, if_true, List.range', List.map_nil, List.nil_append]
        | succ n =>
          rw [if_neg (by omega)]
          simp only []
          have := gfx_tail_dom O id g (n + 1 + 1) hid hty htot.symm ht2 hd hw' hh' hx' hy' n 1 (by omega) (by omega) rest
          simpa using this.1
      · intro rest
        obtain ⟨m, rfl⟩ : ∃ m, total = m + 1 := ⟨total - 1, by omega⟩
        rw [List.range_eq_range', List.range'_succ]
        simp only [List.map_cons, List.cons_append, noBlankImage]
        rw [gfx_readLine O id g (m + 1) 0 hid hty (by omega) htot.symm ht2 hw' hh' hx' hy']
        simp only []
        rw [step_first none id g (m + 1) (by omega)]
        cases m with
        | zero =>
          simp only [Nat.zero_add, Nat.sub_self, if_true, List.range', List.map_nil, List.nil_append]
          rw [chunks_all g 1 (by simpa using htot.symm)]
          have hb := not_blank id g hd
          unfold gfxOf at hb
          simp only [List.any_cons, List.any_nil, Bool.or_false, hb, Bool.not_false, Bool.true_and]
        | succ n =>
          rw [if_neg (by omega)]
          simp only [List.any_nil, Bool.not_false, Bool.true_and]
          have := gfx_tail_dom O id g (n + 1 + 1) hid hty htot.symm ht2 hd hw' hh' hx' hy' n 1 (by omega) (by omega) rest
          simpa using this.2

/-! ## assembly -/

theorem id_dom (s : State) (hs : stateOk s = true) (id : Nat) (hid : id < 4294967296) : Dom O (idLinesP s id) := by
  unfold stateOk at hs
  simp only [Bool.and_eq_true] at hs
  obtain ⟨⟨⟨⟨⟨⟨_, _⟩, _⟩, _⟩, ht⟩, hg⟩, hp⟩ := hs
  unfold idLinesP
  have : s.processors = none := by
    cases hh : s.processors with
    | none => rfl
    | some _ => rw [hh] at hp; simp at hp
  rw [this, show procLines none = [] from rfl, List.append_nil]
  exact Dom.append (Dom.append (Dom.append (Dom.append (Dom.append
    (mode_dom O id hid s.mode) (color_dom O id hid s.color)) (ext_dom O id hid s.ext))
    (text_dom O id hid s.text ht)) (gfx_dom O id hid s.gfx hg)) (raw_dom O id hid s.rawADC)

theorem state_dom (s : State) (hs : stateOk s = true) : Dom O (stateLinesP s) := by
  unfold stateLinesP
  apply Dom.flatMap
  intro id hid
  have : s.ids.all u32ok = true := by
    unfold stateOk at hs
    simp only [Bool.and_eq_true] at hs
    exact hs.1.1.1.1.1.1
  rw [List.all_eq_true] at this
  exact id_dom O s hs id (u32ok_lt _ (this id hid))

theorem msg_dom (m : InMsg) (hm : msgOk O m = true) (hg : rtMsgOk m = true) : Dom O (msgLinesP O m) := by
  unfold msgOk at hm
  simp only [Bool.and_eq_true] at hm
  obtain ⟨⟨⟨_, hc⟩, hs⟩, hr⟩ := hm
  unfold rtMsgOk at hg
  simp only [Bool.and_eq_true] at hg
  unfold msgLinesP
  refine Dom.append (Dom.append (Dom.append (flow_dom O m.flow) ?_) ?_) ?_
  · exact Dom.optLine _ _ (fun c hcc => cmd_dom O c (optOk_some _ _ _ hc hcc) (optOk_some _ _ _ hg.1 hcc))
  · apply Dom.flatMap
    intro s hs'
    rw [List.all_eq_true] at hs
    exact state_dom O s (hs s hs')
  · apply Dom.flatMap
    intro r hr'
    rw [List.all_eq_true] at hr
    have hg2 := hg.2
    rw [List.all_eq_true] at hg2
    exact reg_dom O r (hr r hr') (hg2 r hr')

/-- **enc_in_domain**: the encoder's lines for messages of `inDomainIn` (with the round-trip guard) lie in the decoder's
domain and deliver no all-default image -/
theorem enc_in_domain_all (ms : List InMsg) (h : inDomainIn O ms = true) (hg : roundtripGuard ms = true) :
    inDomainLines O (encIn O ms) = true ∧ noBlankImage O none (encIn O ms) = true := by
  unfold encIn
  rw [map_singleLine_id _ (raw_nolf O ms h)]
  refine Dom.result ?_
  unfold encRawP
  apply Dom.flatMap
  intro m hm
  unfold inDomainIn at h
  unfold roundtripGuard at hg
  rw [List.all_eq_true] at h hg
  exact msg_dom O m (h m hm) (hg m hm)

end RawPanelVerif.EncDom
