import RawPanelVerif.Model.Lifecycle
import RawPanelVerif.Spec.LifecycleSpec
/-! The byte-by-byte arrival flags of a scripted panel stream (model side) against the Spec's count of the frames
that lie completely before a drop offset. -/
namespace RawPanelVerif.Lifecycle
open RawPanelVerif.Spec.Lifecycle (frameEnds completeBefore)

theorem count_frameFlags (n d : Nat) : (frameFlags n d).count true = if 0 < n ∧ n ≤ d then 1 else 0 := by
  unfold frameFlags
  rw [List.count_append]
  have : (List.replicate (min (n - 1) d) false).count true = 0 := by simp [List.count_replicate]
  rw [this]
  split <;> simp

theorem length_frameFlags (n d : Nat) (hn : 0 < n) : (frameFlags n d).length = min n d := by
  unfold frameFlags
  simp only [List.length_append, List.length_replicate]
  split
  · rename_i h; simp; omega
  · rename_i h; simp; omega

theorem frameEnds_pos : ∀ (lens : List Nat), (∀ n ∈ lens, 0 < n) → ∀ x ∈ frameEnds lens, 0 < x
  | [], _, x, hx => by simp [frameEnds] at hx
  | n :: ls, h, x, hx => by
    simp [frameEnds] at hx
    rcases hx with hx | ⟨y, _, hy⟩
    · rw [hx]; exact h n (by simp)
    · have := h n (by simp); omega

theorem filter_shift (l : List Nat) (n d : Nat) (hpos : ∀ x ∈ l, 0 < x) :
    ((l.map (· + n)).filter (· ≤ d)).length = (l.filter (· ≤ d - n)).length := by
  induction l with
  | nil => simp
  | cons x t ih =>
    have hx := hpos x (by simp)
    have iht := ih (fun y hy => hpos y (by simp [hy]))
    simp only [List.map_cons, List.filter_cons]
    by_cases h1 : x + n ≤ d
    · have h2 : x ≤ d - n := by omega
      simp [h1, h2, iht]
    · have h2 : ¬ (x ≤ d - n) := by omega
      simp [h1, h2, iht]

/-- the number of completing bytes among the first `d` bytes = the Spec's number of frames that end at or
before offset `d` -/
theorem count_arrivals : ∀ (lens : List Nat) (d : Nat), (∀ n ∈ lens, 0 < n) →
    (arrivals lens d).count true = completeBefore lens d
  | [], d, _ => by simp [arrivals, completeBefore, frameEnds]
  | n :: ls, d, h => by
    have hn := h n (by simp)
    have ih := count_arrivals ls (d - n) (fun m hm => h m (by simp [hm]))
    have hs := filter_shift (frameEnds ls) n d (frameEnds_pos ls (fun m hm => h m (by simp [hm])))
    simp only [arrivals, List.count_append, count_frameFlags, ih]
    simp only [completeBefore, frameEnds, List.filter_cons] at hs ⊢
    by_cases hle : n ≤ d
    · simp [hle, hn, hs]; omega
    · simp [hle, hs]

/-- exactly `min d (total length)` bytes arrive -/
theorem length_arrivals : ∀ (lens : List Nat) (d : Nat), (∀ n ∈ lens, 0 < n) → (arrivals lens d).length = min d lens.sum
  | [], d, _ => by simp [arrivals]
  | n :: ls, d, h => by
    have hn := h n (by simp)
    have ih := length_arrivals ls (d - n) (fun m hm => h m (by simp [hm]))
    simp only [arrivals, List.length_append, length_frameFlags n d hn, ih, List.sum_cons]
    omega

/-! ### the monitor's frame count on the scripted byte stream = `completeBefore` of its frame lengths -/
open RawPanelVerif.Spec.Lifecycle (binFramesIn ascLinesIn le32)

/-- 4-byte little-endian length header -/
def hdr (n : Nat) : List Nat := [n % 256, n / 256 % 256, n / 65536 % 256, n / 16777216 % 256]

/-- a binary panel stream: every payload behind its length header -/
def binStream : List (List Nat) → List Nat
  | [] => []
  | p :: ps => hdr p.length ++ p ++ binStream ps

/-- an ASCII panel stream: every line followed by LF -/
def ascStream : List (List Nat) → List Nat
  | [] => []
  | l :: ls => l ++ [10] ++ ascStream ls

theorem le32_hdr (n : Nat) (h : n < 4294967296) : le32 (n % 256) (n / 256 % 256) (n / 65536 % 256) (n / 16777216 % 256) = n := by
  unfold le32; omega

theorem completeBefore_cons (n : Nat) (ls : List Nat) (d : Nat) (hpos : ∀ m ∈ ls, 0 < m) :
    completeBefore (n :: ls) d = (if n ≤ d then 1 else 0) + completeBefore ls (d - n) := by
  have hs := filter_shift (frameEnds ls) n d (frameEnds_pos ls hpos)
  simp only [completeBefore, frameEnds, List.filter_cons] at hs ⊢
  by_cases hle : n ≤ d
  · simp [hle, hs]; omega
  · simp [hle, hs]

theorem completeBefore_zero_of_lt (n : Nat) (ls : List Nat) (d : Nat) (hpos : ∀ m ∈ ls, 0 < m) (h : d < n) :
    completeBefore (n :: ls) d = 0 := by
  rw [completeBefore_cons n ls d hpos]
  have h0 : d - n = 0 := by omega
  have : completeBefore ls 0 = 0 := by
    simp only [completeBefore]
    rw [List.length_eq_zero_iff, List.filter_eq_nil_iff]
    intro x hx; have := frameEnds_pos ls hpos x hx; simp; omega
  rw [h0, this]; simp; omega

/-- the binary monitor count (`Spec.binFramesIn`, any sufficient fuel) on a well-formed stream -/
theorem binFramesIn_eq : ∀ (ps : List (List Nat)) (fuel n : Nat), ps.length < fuel → (∀ p ∈ ps, p.length < 4294967296) →
    binFramesIn fuel (binStream ps) n = completeBefore (ps.map (fun p => 4 + p.length)) n
  | [], fuel, n, hf, _ => by
    cases fuel with
    | zero => simp at hf
    | succ f => simp [binFramesIn, binStream, completeBefore, frameEnds]
  | p :: ps, fuel, n, hf, hlen => by
    cases fuel with
    | zero => simp at hf
    | succ f =>
      have hp := hlen p (by simp)
      have hpos : ∀ m ∈ ps.map (fun p => 4 + p.length), 0 < m := by
        intro m hm; simp at hm; obtain ⟨q, _, rfl⟩ := hm; omega
      have ih := binFramesIn_eq ps f (n - (4 + p.length)) (by simp at hf; omega) (fun q hq => hlen q (by simp [hq]))
      simp only [binStream, hdr, List.cons_append, List.nil_append, binFramesIn, le32_hdr p.length hp,
        List.map_cons]
      by_cases hle : 4 + p.length ≤ n
      · have h2 : p.length ≤ (p ++ binStream ps).length := by simp
        rw [if_pos ⟨hle, h2⟩, List.drop_left, ih, completeBefore_cons _ _ _ hpos, if_pos hle]
      · have hne : ¬ (4 + p.length ≤ n ∧ p.length ≤ (p ++ binStream ps).length) := fun h => hle h.1
        rw [if_neg hne, completeBefore_zero_of_lt _ _ _ hpos (by omega)]

/-- the ASCII monitor count (`Spec.ascLinesIn`) on a well-formed stream of LF-free lines -/
theorem ascLinesIn_eq : ∀ (ls : List (List Nat)) (n : Nat), (∀ l ∈ ls, 10 ∉ l) →
    ascLinesIn (ascStream ls) n = completeBefore (ls.map (fun l => l.length + 1)) n
  | [], n, _ => by simp [ascLinesIn, ascStream, completeBefore, frameEnds]
  | l :: ls, n, h => by
    have hl := h l (by simp)
    have hpos : ∀ m ∈ ls.map (fun l => l.length + 1), 0 < m := by
      intro m hm; simp at hm; obtain ⟨q, _, rfl⟩ := hm; omega
    have ih := ascLinesIn_eq ls (n - (l.length + 1)) (fun q hq => h q (by simp [hq]))
    have hfl : ∀ k, ((l.take k).filter (· = 10)).length = 0 := by
      intro k
      rw [List.length_eq_zero_iff, List.filter_eq_nil_iff]
      intro x hx; have := List.mem_of_mem_take hx
      simp; intro hx10; subst hx10; exact hl this
    simp only [ascLinesIn] at ih ⊢
    simp only [ascStream, List.map_cons]
    by_cases hle : l.length + 1 ≤ n
    · rw [completeBefore_cons _ _ _ hpos, if_pos hle, ← ih]
      have : (l ++ [10] ++ ascStream ls).take n = l ++ [10] ++ (ascStream ls).take (n - (l.length + 1)) := by
        rw [List.take_append]
        have h1 : (l ++ [10]).length = l.length + 1 := by simp
        rw [h1, List.take_of_length_le (by simp; omega)]
      rw [this]
      have hl0 : (l.filter (· = 10)).length = 0 := by simpa using hfl l.length
      simp only [List.filter_append, List.length_append, hl0]
      simp
    · rw [completeBefore_zero_of_lt _ _ _ hpos (by omega)]
      have : (l ++ [10] ++ ascStream ls).take n = l.take n := by
        rw [List.append_assoc, List.take_append_of_le_length (by omega)]
      rw [this]; exact hfl n

theorem length_binStream_ge : ∀ ps : List (List Nat), ps.length ≤ (binStream ps).length
  | [] => by simp [binStream]
  | p :: ps => by have := length_binStream_ge ps; simp [binStream, hdr]; omega

end RawPanelVerif.Lifecycle
