import RawPanelVerif.Lemmas.EncSoundState
/-! C01 `enc_sound`, graphics section: the chunk lines of one image are read back, line by line, as one in-order
transfer whose effect (at the last line) is the image. -/
namespace RawPanelVerif.EncSound
open RawPanelVerif RawPanelVerif.Bytes RawPanelVerif.MsgIn RawPanelVerif.Model.In RawPanelVerif.InBits RawPanelVerif.ReadIn
open RawPanelVerif.Spec.In RawPanelVerif.TotalIn

variable (O : Oracles)

/-- the header text after `/` -/
def hdrBody (g : Gfx) (total : Nat) : Bytes :=
  itoa ((total : Int) - 1) ++ asc "," ++ utoa g.w ++ asc "x" ++ utoa g.h ++
  (if g.xyOffset then asc "," ++ utoa g.x ++ asc "," ++ utoa g.y else [])

theorem gfxHeader_eq (g : Gfx) (total : Nat) : gfxHeader g total = 47 :: hdrBody g total := by
  unfold gfxHeader hdrBody
  rw [show asc "/" = [47] by decide]
  simp

theorem cut120 (w h : Nat) : cut 120 (utoa w ++ asc "x" ++ utoa h) = some (utoa w, utoa h) := by
  rw [show asc "x" = [120] by decide, List.append_assoc, List.singleton_append]
  exact cut_append 120 _ _ (not_mem_utoa w 120 (by decide))

theorem not44_wh (w h : Nat) : (44 : UInt8) ∉ utoa w ++ asc "x" ++ utoa h := by
  intro hm
  simp only [List.mem_append] at hm
  rcases hm with (hm | hm) | hm
  · exact not_mem_utoa w 44 (by decide) hm
  · exact absurd hm (by decide)
  · exact not_mem_utoa h 44 (by decide) hm

theorem readGfxHeader_ok (g : Gfx) (total : Nat) (ht : 1 ≤ total) (ht' : total ≤ 4294967296)
    (hw : g.w < 4294967296) (hh : g.h < 4294967296) (hx : g.x < 4294967296) (hy : g.y < 4294967296) :
    readGfxHeader (hdrBody g total) = some (total - 1, g.w, g.h, if g.xyOffset then some (g.x, g.y) else none) := by
  have e1 : itoa ((total : Int) - 1) = utoa (total - 1) := by
    rw [itoa_nonneg _ (by omega)]; congr 1; omega
  unfold hdrBody readGfxHeader
  rw [e1, show asc "," = [44] by decide]
  cases g.xyOffset
  · simp only [Bool.false_eq_true, if_false, List.append_nil]
    rw [List.append_assoc, List.append_assoc, List.append_assoc, List.singleton_append,
      splitOn_append_sep 44 _ _ (not_mem_utoa _ 44 (by decide))]
    rw [← List.append_assoc, splitOn_nosep 44 _ (not44_wh g.w g.h)]
    simp only [num_utoa _ (show total - 1 < 4294967296 by omega), cut120, num_utoa _ hw, num_utoa _ hh]
  · simp only [if_true]
    have : utoa (total - 1) ++ [44] ++ utoa g.w ++ asc "x" ++ utoa g.h ++ ([44] ++ utoa g.x ++ [44] ++ utoa g.y)
         = utoa (total - 1) ++ 44 :: ((utoa g.w ++ asc "x" ++ utoa g.h) ++ 44 :: (utoa g.x ++ 44 :: utoa g.y)) := by simp
    rw [this, splitOn_append_sep 44 _ _ (not_mem_utoa _ 44 (by decide)),
      splitOn_append_sep 44 _ _ (not44_wh g.w g.h),
      splitOn_append_sep 44 _ _ (not_mem_utoa _ 44 (by decide)),
      splitOn_nosep 44 _ (not_mem_utoa _ 44 (by decide))]
    simp only [num_utoa _ (show total - 1 < 4294967296 by omega), cut120, num_utoa _ hw, num_utoa _ hh, num_utoa _ hx, num_utoa _ hy]

def partOf (id : Nat) (g : Gfx) (total i : Nat) : GfxPart :=
  { kind := gfxKindOf g.imageType, idsText := utoa id, ids := [id], index := i,
    header := if i = 0 then some (total - 1, g.w, g.h, if g.xyOffset then some (g.x, g.y) else none) else none,
    data := chunkAt g.imageData i }

theorem not_mem_b64 (b : Bytes) (c : UInt8) (h1 : c ≠ 61) (h2 : B64In.decChar c = none) : c ∉ B64In.encode b := by
  intro hm
  rcases B64In.mem_encode b c hm with h | h
  · exact h1 h
  · exact h h2

theorem not58_hdr (g : Gfx) (total : Nat) : (58 : UInt8) ∉ hdrBody g total := by
  unfold hdrBody
  intro hm
  simp only [List.mem_append] at hm
  rcases hm with ((((hm | hm) | hm) | hm) | hm) | hm
  · exact not_mem_itoa _ 58 (by decide) (by decide) hm
  · exact absurd hm (by decide)
  · exact not_mem_utoa _ 58 (by decide) hm
  · exact absurd hm (by decide)
  · exact not_mem_utoa _ 58 (by decide) hm
  · split at hm
    · simp only [List.mem_append] at hm
      rcases hm with ((hm | hm) | hm) | hm
      · exact absurd hm (by decide)
      · exact not_mem_utoa _ 58 (by decide) hm
      · exact absurd hm (by decide)
      · exact not_mem_utoa _ 58 (by decide) hm
    · simp at hm

theorem readGfx_line (kind : GfxKind) (id : Nat) (g : Gfx) (total i : Nat) (hid : id < 4294967296)
    (hi : i < total) (ht : total = totalLines g.imageData.length) (ht' : total ≤ 4294967296)
    (hw : g.w < 4294967296) (hh : g.h < 4294967296) (hx : g.x < 4294967296) (hy : g.y < 4294967296) :
    readGfx kind (utoa id) (utoa i ++ (if i = 0 then gfxHeader g total else []) ++ asc ":" ++ B64In.encode (chunkAt g.imageData i)) =
      some { kind := kind, idsText := utoa id, ids := [id], index := i,
             header := if i = 0 then some (total - 1, g.w, g.h, if g.xyOffset then some (g.x, g.y) else none) else none,
             data := chunkAt g.imageData i } := by
  have hlen := (TotalIn.chunk_len_le g.imageData i (by rw [← ht]; exact hi))
  unfold readGfx
  rw [ids_utoa id hid]
  have hpre : (58 : UInt8) ∉ utoa i ++ (if i = 0 then gfxHeader g total else []) := by
    intro hm
    simp only [List.mem_append] at hm
    rcases hm with hm | hm
    · exact not_mem_utoa _ 58 (by decide) hm
    · split at hm
      · rw [gfxHeader_eq] at hm
        simp only [List.mem_cons] at hm
        rcases hm with hm | hm
        · exact absurd hm (by decide)
        · exact not58_hdr g total hm
      · simp at hm
  rw [show asc ":" = [58] by decide, List.append_assoc, List.singleton_append, cut_append 58 _ _ hpre]
  simp only [B64In.decode_encode]
  rw [if_neg (by unfold maxChunk; omega)]
  by_cases h0 : i = 0
  · subst h0
    simp only [if_true]
    rw [gfxHeader_eq, cut_append 47 _ _ (not_mem_utoa 0 47 (by decide))]
    simp only [num_utoa 0 (by omega), readGfxHeader_ok g total (by omega) ht' hw hh hx hy]
  · simp only [h0, if_false, List.append_nil]
    rw [cut_none 47 _ (not_mem_utoa i 47 (by decide)), num_utoa i (by omega)]
    rfl

theorem gfx_readLine (id : Nat) (g : Gfx) (total i : Nat) (hid : id < 4294967296)
    (hty : enumOk g.imageType 2 = true)
    (hi : i < total) (ht : total = totalLines g.imageData.length) (ht' : total ≤ 4294967296)
    (hw : g.w < 4294967296) (hh : g.h < 4294967296) (hx : g.x < 4294967296) (hy : g.y < 4294967296) :
    readLine O (gfxLineOf id g total i (chunkAt g.imageData i)) = .gfx (partOf id g total i) := by
  have hr := enumOk_range _ _ hty
  unfold gfxLineOf partOf
  have key : ∀ (F Fh : Bytes) (kind : GfxKind), Fh = F ++ [35] → keyHeadOk F = true → (61 : UInt8) ∉ F → (35 : UInt8) ∉ F →
      readHash F (utoa id) (utoa i ++ (if i = 0 then gfxHeader g total else []) ++ asc ":" ++ B64In.encode (chunkAt g.imageData i)) =
        .gfx { kind := kind, idsText := utoa id, ids := [id], index := i,
               header := if i = 0 then some (total - 1, g.w, g.h, if g.xyOffset then some (g.x, g.y) else none) else none,
               data := chunkAt g.imageData i } →
      readLine O (Fh ++ utoa id ++ asc "=" ++ utoa i ++ (if i = 0 then gfxHeader g total else []) ++ asc ":" ++ B64In.encode (chunkAt g.imageData i)) =
        .gfx { kind := kind, idsText := utoa id, ids := [id], index := i,
               header := if i = 0 then some (total - 1, g.w, g.h, if g.xyOffset then some (g.x, g.y) else none) else none,
               data := chunkAt g.imageData i } := by
    intro F Fh kind hF h0 h61 h35 hh'
    have := read_hash O F Fh id (utoa i ++ (if i = 0 then gfxHeader g total else []) ++ asc ":" ++ B64In.encode (chunkAt g.imageData i)) hF h0 h61 h35
    simp only [List.append_assoc] at this ⊢
    rw [this]
    simp only [List.append_assoc] at hh'
    exact hh'
  have hline := fun kind => readGfx_line kind id g total i hid hi ht ht' hw hh hx hy
  have : g.imageType = 0 ∨ g.imageType = 1 ∨ g.imageType = 2 := by omega
  rcases this with e | e | e
  · rw [e]
    rw [show gfxKeyword 0 = asc "HWCg" from rfl, show gfxKindOf 0 = .mono from rfl]
    have := key (asc "HWCg") (asc "HWCg" ++ asc "#") .mono (by decide) (by decide) (by decide) (by decide) (by
      unfold readHash
      rw [if_neg (by decide), if_neg (by decide), if_neg (by decide), if_neg (by decide), if_neg (by decide), if_pos rfl, hline])
    exact this
  · rw [e]
    rw [show gfxKeyword 1 = asc "HWCgRGB" from rfl, show gfxKindOf 1 = .rgb from rfl]
    have := key (asc "HWCgRGB") (asc "HWCgRGB" ++ asc "#") .rgb (by decide) (by decide) (by decide) (by decide) (by
      unfold readHash
      rw [if_neg (by decide), if_neg (by decide), if_neg (by decide), if_neg (by decide), if_neg (by decide), if_neg (by decide), if_pos rfl, hline])
    exact this
  · rw [e]
    rw [show gfxKeyword 2 = asc "HWCgGray" from rfl, show gfxKindOf 2 = .gray from rfl]
    have := key (asc "HWCgGray") (asc "HWCgGray" ++ asc "#") .gray (by decide) (by decide) (by decide) (by decide) (by
      unfold readHash
      rw [if_neg (by decide), if_neg (by decide), if_neg (by decide), if_neg (by decide), if_neg (by decide), if_neg (by decide), if_neg (by decide), if_pos rfl, hline])
    exact this

def xferAt (id : Nat) (g : Gfx) (total k : Nat) : Xfer :=
  { kind := gfxKindOf g.imageType, idsText := utoa id, ids := [id], next := k, last := total - 1, w := g.w, h := g.h,
    xy := if g.xyOffset then some (g.x, g.y) else none, data := ((List.range k).map (chunkAt g.imageData)).flatten }

theorem xferAt_succ_data (g : Gfx) (k : Nat) :
    ((List.range (k + 1)).map (chunkAt g.imageData)).flatten = ((List.range k).map (chunkAt g.imageData)).flatten ++ chunkAt g.imageData k := by
  rw [List.range_succ, List.map_append, List.flatten_append]
  simp

/-- a middle / last part (index k ≥ 1) arriving in state `xferAt k` -/
theorem step_mid (id : Nat) (g : Gfx) (total k : Nat) (hk1 : 1 ≤ k) (hk : k < total) :
    stepGfx (some (xferAt id g total k)) (partOf id g total k) =
      if k = total - 1 then
        (none, [Effect.setGfx id { kind := gfxKindOf g.imageType, w := g.w, h := g.h,
                                   xy := if g.xyOffset then some (g.x, g.y) else none,
                                   data := ((List.range (k + 1)).map (chunkAt g.imageData)).flatten }])
      else (some (xferAt id g total (k + 1)), []) := by
  unfold stepGfx partOf xferAt
  have hk0 : ¬ k = 0 := by omega
  simp only [hk0, if_false, true_and, or_true, and_self, if_true]
  rw [xferAt_succ_data]
  split <;> rfl

/-- the first part (index 0), whatever the state before -/
theorem step_first (x : Option Xfer) (id : Nat) (g : Gfx) (total : Nat) (ht : 1 ≤ total) :
    stepGfx x (partOf id g total 0) =
      if 0 = total - 1 then
        (none, [Effect.setGfx id { kind := gfxKindOf g.imageType, w := g.w, h := g.h,
                                   xy := if g.xyOffset then some (g.x, g.y) else none,
                                   data := ((List.range 1).map (chunkAt g.imageData)).flatten }])
      else (some (xferAt id g total 1), []) := by
  unfold stepGfx partOf xferAt
  simp only [if_true, true_and, true_or, and_self, List.nil_append]
  have : ((List.range 1).map (chunkAt g.imageData)).flatten = chunkAt g.imageData 0 := by simp [List.range_succ]
  rw [this]
  split <;> rfl

theorem chunks_all (g : Gfx) (total : Nat) (ht : total = totalLines g.imageData.length) :
    ((List.range total).map (chunkAt g.imageData)).flatten = g.imageData := by
  rw [ht]
  have := TotalIn.chunks_concat g.imageData
  exact this

theorem gfx_tail (id : Nat) (g : Gfx) (total : Nat) (hid : id < 4294967296) (hty : enumOk g.imageType 2 = true)
    (ht : total = totalLines g.imageData.length) (ht' : total ≤ 4294967296)
    (hw : g.w < 4294967296) (hh : g.h < 4294967296) (hx : g.x < 4294967296) (hy : g.y < 4294967296) :
    ∀ n k, 1 ≤ k → k + (n + 1) = total → ∀ rest,
      readFrom O (some (xferAt id g total k))
        ((List.range' k (n + 1)).map (fun i => gfxLineOf id g total i (chunkAt g.imageData i)) ++ rest) =
      [Effect.setGfx id (gfxOf g)] ++ readFrom O none rest := by
  intro n
  induction n with
  | zero =>
    intro k hk1 hk rest
    simp only [List.range', List.map_cons, List.map_nil, List.singleton_append, readFrom]
    rw [gfx_readLine O id g total k hid hty (by omega) ht ht' hw hh hx hy]
    simp only []
    rw [step_mid id g total k hk1 (by omega), if_pos (by omega)]
    simp only []
    have : k + 1 = total := by omega
    rw [this, chunks_all g total ht]
    rfl
  | succ n ih =>
    intro k hk1 hk rest
    rw [List.range'_succ]
    simp only [List.map_cons, List.cons_append, readFrom]
    rw [gfx_readLine O id g total k hid hty (by omega) ht ht' hw hh hx hy]
    simp only []
    rw [step_mid id g total k hk1 (by omega), if_neg (by omega)]
    simp only [List.nil_append]
    exact ih (k + 1) (by omega) (by omega) rest

theorem gfx_reads (id : Nat) (hid : id < 4294967296) (g : Option Gfx)
    (h : (match g with | some g => g = {} || gfxOk g | none => true) = true) :
    Reads O (gfxLinesP id g) (opt g (fun g => if g = {} then [] else [Effect.setGfx id (gfxOf g)])) := by
  cases g with
  | none => exact Reads.nil O
  | some g =>
    simp only [] at h
    unfold gfxLinesP opt
    simp only []
    by_cases he : g = {}
    · have : gfxIsEmpty g = true := by unfold gfxIsEmpty; simp [he]
      rw [if_pos this, if_pos he]
      exact Reads.nil O
    · have hne : ¬ gfxIsEmpty g = true := by unfold gfxIsEmpty; simpa using he
      rw [if_neg hne]
      simp only [he, decide_false, Bool.false_or] at h
      unfold gfxOk at h
      simp only [Bool.and_eq_true, decide_eq_true_eq] at h
      obtain ⟨⟨⟨⟨⟨⟨hty, hw⟩, hh⟩, hx⟩, hy⟩, hlen⟩, hlen2⟩ := h
      have hd : ¬ g.imageData = [] := by intro e; rw [e] at hlen; simp at hlen
      rw [if_neg he]
      generalize htot : totalLines g.imageData.length = total
      have ht1 : 1 ≤ total := by rw [← htot, totalLines_eq]; omega
      have ht2 : total ≤ 4294967296 := by
        have := u32ok_lt _ hlen2
        rw [← htot, totalLines_eq]; omega
      intro rest
      obtain ⟨m, rfl⟩ : ∃ m, total = m + 1 := ⟨total - 1, by omega⟩
      rw [List.range_eq_range', List.range'_succ]
      simp only [List.map_cons, List.cons_append, readFrom]
      rw [gfx_readLine O id g (m + 1) 0 hid hty (by omega) htot.symm ht2 (u32ok_lt _ hw) (u32ok_lt _ hh) (u32ok_lt _ hx) (u32ok_lt _ hy)]
      simp only []
      rw [step_first none id g (m + 1) (by omega)]
      cases m with
      | zero =>
        simp only [Nat.zero_add, Nat.sub_self, if_true, List.range', List.map_nil, List.nil_append]
        rw [chunks_all g 1 (by simpa using htot.symm)]
        rfl
      | succ n =>
        rw [if_neg (by omega)]
        simp only [List.nil_append]
        have := gfx_tail O id g (n + 1 + 1) hid hty htot.symm ht2 (u32ok_lt _ hw) (u32ok_lt _ hh) (u32ok_lt _ hx) (u32ok_lt _ hy) n 1 (by omega) (by omega) rest
        simpa using this

end RawPanelVerif.EncSound
