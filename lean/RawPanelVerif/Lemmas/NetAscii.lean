import RawPanelVerif.Model.Net
import RawPanelVerif.Spec.NetSpec
/-! Helper lemmas for the ASCII read loop (C08) and the ASCII writer (C09): lines, trimming. -/
namespace RawPanelVerif.Net
open RawPanelVerif

/-! ### `strings.TrimSpace` (Unicode white space) against the reference `trim` (ASCII blanks) -/

theorem isBlank_cases_fin : ∀ i : Fin 256, Spec.Net.isBlank (UInt8.ofNat i.val) = true →
    (i.val = 9 ∨ i.val = 10 ∨ i.val = 11 ∨ i.val = 12 ∨ i.val = 13 ∨ i.val = 32) := by decide +kernel

theorem isBlank_cases (c : UInt8) (h : Spec.Net.isBlank c = true) :
    c = 9 ∨ c = 10 ∨ c = 11 ∨ c = 12 ∨ c = 13 ∨ c = 32 := by
  have := isBlank_cases_fin ⟨c.toNat, c.toNat_lt⟩ (by simpa using h)
  simp only at this
  rcases this with h | h | h | h | h | h
  · exact Or.inl (UInt8.toNat_inj.mp (by simpa using h))
  · exact Or.inr (Or.inl (UInt8.toNat_inj.mp (by simpa using h)))
  · exact Or.inr (Or.inr (Or.inl (UInt8.toNat_inj.mp (by simpa using h))))
  · exact Or.inr (Or.inr (Or.inr (Or.inl (UInt8.toNat_inj.mp (by simpa using h)))))
  · exact Or.inr (Or.inr (Or.inr (Or.inr (Or.inl (UInt8.toNat_inj.mp (by simpa using h))))))
  · exact Or.inr (Or.inr (Or.inr (Or.inr (Or.inr (UInt8.toNat_inj.mp (by simpa using h))))))

theorem dropSpace1_blank (c : UInt8) (r : Bytes) (h : Spec.Net.isBlank c = true) :
    RawPanelVerif.Bytes.dropSpace1 (c :: r) = some r := by
  rcases isBlank_cases c h with h | h | h | h | h | h <;> subst h <;> rfl

theorem dropSpace1Rev_blank (c : UInt8) (r : Bytes) (h : Spec.Net.isBlank c = true) :
    RawPanelVerif.Bytes.dropSpace1Rev (c :: r) = some r := by
  rcases isBlank_cases c h with h | h | h | h | h | h <;> subst h <;> rfl

/-- no ASCII blank and no Unicode blank at the front: Go's `unicode.IsSpace` test fails on the first rune -/
theorem dropSpace1_none (c : UInt8) (r : Bytes) (h1 : Spec.Net.isBlank c = false)
    (h2 : Spec.Net.uniBlankFront (c :: r) = false) : RawPanelVerif.Bytes.dropSpace1 (c :: r) = none := by
  unfold RawPanelVerif.Bytes.dropSpace1
  split
  all_goals (try rfl)
  all_goals (rename_i heq; injection heq with e1 e2; subst e1; subst e2)
  all_goals first
    | (exfalso; revert h1; decide)
    | (exfalso; revert h2; simp [Spec.Net.uniBlankFront, Spec.Net.uni2, Spec.Net.uni3]; done)
    | skip
  all_goals (
    split
    · rename_i hc
      exfalso; revert h2
      simp only [Spec.Net.uniBlankFront, Spec.Net.uni2, Spec.Net.uni3, List.getD_cons_zero, List.getD_cons_succ]
      rcases hc with ⟨hc1, hc2⟩ | hc | hc | hc
      · simp [hc1, hc2]
      · subst hc; decide
      · subst hc; decide
      · subst hc; decide
    · rfl)

theorem dropSpace1Rev_none (c : UInt8) (r : Bytes) (h1 : Spec.Net.isBlank c = false)
    (h2 : Spec.Net.uniBlankBackRev (c :: r) = false) : RawPanelVerif.Bytes.dropSpace1Rev (c :: r) = none := by
  unfold RawPanelVerif.Bytes.dropSpace1Rev
  split
  all_goals (try rfl)
  all_goals (rename_i heq; injection heq with e1 e2; subst e1; subst e2)
  all_goals first
    | (exfalso; revert h1; decide)
    | (exfalso; revert h2; simp [Spec.Net.uniBlankBackRev, Spec.Net.uni2, Spec.Net.uni3]; done)
    | skip
  all_goals (
    split
    · rename_i hc
      exfalso; revert h2
      simp only [Spec.Net.uniBlankBackRev, Spec.Net.uni2, Spec.Net.uni3, List.getD_cons_zero, List.getD_cons_succ]
      rcases hc with ⟨hc1, hc2⟩ | hc | hc | hc
      · simp [hc1, hc2]
      · subst hc; decide
      · subst hc; decide
      · subst hc; decide
    · rfl)

theorem trimLeft_clean : ∀ (l : Bytes) (n : Nat), l.length ≤ n →
    Spec.Net.uniBlankFront (l.dropWhile Spec.Net.isBlank) = false →
    RawPanelVerif.Bytes.trimLeft n l = l.dropWhile Spec.Net.isBlank := by
  intro l
  induction l with
  | nil => intro n _ _; cases n <;> rfl
  | cons c r ih =>
    intro n hn hg
    cases n with
    | zero => simp at hn
    | succ k =>
      simp only [List.length_cons] at hn
      by_cases hb : Spec.Net.isBlank c = true
      · simp only [RawPanelVerif.Bytes.trimLeft, dropSpace1_blank c r hb, List.dropWhile_cons, hb, if_true] at hg ⊢
        exact ih k (by omega) hg
      · have hb' : Spec.Net.isBlank c = false := by cases h : Spec.Net.isBlank c <;> simp_all
        simp only [List.dropWhile_cons, hb', Bool.false_eq_true, if_false] at hg ⊢
        simp only [RawPanelVerif.Bytes.trimLeft, dropSpace1_none c r hb' hg]

theorem trimRightRev_clean : ∀ (l : Bytes) (n : Nat), l.length ≤ n →
    Spec.Net.uniBlankBackRev (l.dropWhile Spec.Net.isBlank) = false →
    RawPanelVerif.Bytes.trimRightRev n l = l.dropWhile Spec.Net.isBlank := by
  intro l
  induction l with
  | nil => intro n _ _; cases n <;> rfl
  | cons c r ih =>
    intro n hn hg
    cases n with
    | zero => simp at hn
    | succ k =>
      simp only [List.length_cons] at hn
      by_cases hb : Spec.Net.isBlank c = true
      · simp only [RawPanelVerif.Bytes.trimRightRev, dropSpace1Rev_blank c r hb, List.dropWhile_cons, hb, if_true] at hg ⊢
        exact ih k (by omega) hg
      · have hb' : Spec.Net.isBlank c = false := by cases h : Spec.Net.isBlank c <;> simp_all
        simp only [List.dropWhile_cons, hb', Bool.false_eq_true, if_false] at hg ⊢
        simp only [RawPanelVerif.Bytes.trimRightRev, dropSpace1Rev_none c r hb' hg]

theorem edgeClean_iff (l : Bytes) : Spec.Net.edgeClean l = true ↔
    Spec.Net.uniBlankFront (l.dropWhile Spec.Net.isBlank) = false ∧
    Spec.Net.uniBlankBackRev ((l.dropWhile Spec.Net.isBlank).reverse.dropWhile Spec.Net.isBlank) = false := by
  simp [Spec.Net.edgeClean, Spec.Net.trim]

/-- **`strings.TrimSpace` = the reference `trim`** on lines that, once their ASCII padding is removed, neither start
nor end with a non-ASCII white-space character -/
theorem trimSpace_eq_trim (l : Bytes) (h : Spec.Net.edgeClean l = true) : trimSpace l = Spec.Net.trim l := by
  obtain ⟨h1, h2⟩ := (edgeClean_iff l).mp h
  simp only [trimSpace, RawPanelVerif.Bytes.trimSpace, Spec.Net.trim]
  rw [trimLeft_clean l l.length (Nat.le_refl _) h1]
  rw [trimRightRev_clean _ _ (by simp) h2]

theorem ubf_append_blank (X : Bytes) (hX : X ≠ []) (c : UInt8) (hc : Spec.Net.isBlank c = true) :
    Spec.Net.uniBlankFront (X ++ [c]) = Spec.Net.uniBlankFront X := by
  rcases isBlank_cases c hc with h | h | h | h | h | h <;> subst h
  all_goals (
    match X, hX with
    | [a], _ => simp [Spec.Net.uniBlankFront, Spec.Net.uni2, Spec.Net.uni3]
    | [a, b], _ => simp [Spec.Net.uniBlankFront, Spec.Net.uni2, Spec.Net.uni3]
    | a :: b :: c :: t, _ => simp [Spec.Net.uniBlankFront])

theorem trim_append_blank (l : Bytes) (c : UInt8) (hc : Spec.Net.isBlank c = true) :
    Spec.Net.trim (l ++ [c]) = Spec.Net.trim l := by
  simp only [Spec.Net.trim, List.dropWhile_append]
  cases h : List.dropWhile Spec.Net.isBlank l with
  | nil => simp [hc]
  | cons x xs => simp [hc]

theorem trim_append_blanks (l pad : Bytes) (hp : ∀ c ∈ pad, Spec.Net.isBlank c = true) :
    Spec.Net.trim (l ++ pad) = Spec.Net.trim l := by
  induction pad generalizing l with
  | nil => simp
  | cons c p ih =>
    have : l ++ c :: p = (l ++ [c]) ++ p := by simp
    rw [this, ih (l ++ [c]) (fun d hd => hp d (by simp [hd])), trim_append_blank l c (hp c (by simp))]

theorem splitLF_noLF (l : Bytes) (h : (10 : UInt8) ∉ l) : Spec.Net.splitLF l = ([], l) := by
  induction l with
  | nil => rfl
  | cons x l ih =>
    have hx : x ≠ 10 := fun e => h (by simp [e])
    have hl : (10 : UInt8) ∉ l := fun e => h (by simp [e])
    simp [Spec.Net.splitLF, hx, ih hl]

theorem splitLF_line (l r : Bytes) (h : (10 : UInt8) ∉ l) :
    Spec.Net.splitLF (l ++ 10 :: r) = (l :: (Spec.Net.splitLF r).1, (Spec.Net.splitLF r).2) := by
  induction l with
  | nil => simp [Spec.Net.splitLF]
  | cons x l ih =>
    have hx : x ≠ 10 := fun e => h (by simp [e])
    have hl : (10 : UInt8) ∉ l := fun e => h (by simp [e])
    simp [Spec.Net.splitLF, hx, ih hl]

theorem asciiFeed_cons (buf : Bytes) (b : UInt8) (bs : Bytes) :
    asciiFeed buf (b :: bs) =
      ((asciiFeed (asciiStep buf b).1 bs).1, (asciiStep buf b).2 ++ (asciiFeed (asciiStep buf b).1 bs).2) := rfl

theorem asciiFeed_append (buf a b : Bytes) :
    asciiFeed buf (a ++ b) =
      ((asciiFeed (asciiFeed buf a).1 b).1, (asciiFeed buf a).2 ++ (asciiFeed (asciiFeed buf a).1 b).2) := by
  induction a generalizing buf with
  | nil => simp [asciiFeed]
  | cons x xs ih => simp only [List.cons_append, asciiFeed_cons, ih, List.append_assoc]

theorem asciiFeedAll_eq_flatten (buf : Bytes) (segs : List Bytes) :
    asciiFeedAll buf segs = asciiFeed buf segs.flatten := by
  induction segs generalizing buf with
  | nil => rfl
  | cons seg segs ih => simp only [asciiFeedAll, List.flatten_cons, asciiFeed_append, ih]

theorem edgeClean_append_blank (l : Bytes) (c : UInt8) (hblank : Spec.Net.isBlank c = true)
    (h : Spec.Net.edgeClean l = true) : Spec.Net.edgeClean (l ++ [c]) = true := by
  obtain ⟨h1, h2⟩ := (edgeClean_iff l).mp h
  simp only [Spec.Net.edgeClean, Bool.and_eq_true, Bool.not_eq_true']
  refine ⟨?_, ?_⟩
  · rw [List.dropWhile_append]
    by_cases he : (List.dropWhile Spec.Net.isBlank l).isEmpty = true
    · simp [he, hblank, Spec.Net.uniBlankFront, Spec.Net.uni2, Spec.Net.uni3]
    · simp only [he, Bool.false_eq_true, if_false]
      rw [ubf_append_blank _ (by intro hh; rw [hh] at he; simp at he) c hblank]; exact h1
  · rw [trim_append_blank l c hblank]
    simpa [Spec.Net.trim] using h2

theorem edgeClean_append_blanks (l pad : Bytes) (hp : ∀ c ∈ pad, Spec.Net.isBlank c = true)
    (h : Spec.Net.edgeClean l = true) : Spec.Net.edgeClean (l ++ pad) = true := by
  induction pad generalizing l with
  | nil => simpa using h
  | cons c p ih =>
    have : l ++ c :: p = (l ++ [c]) ++ p := by simp
    rw [this]
    exact ih (l ++ [c]) (fun d hd => hp d (by simp [hd])) (edgeClean_append_blank l c (hp c (by simp)) h)

theorem edgeClean_append_lf (l : Bytes) (h : Spec.Net.edgeClean l = true) : Spec.Net.edgeClean (l ++ [10]) = true :=
  edgeClean_append_blank l 10 (by decide) h

/-- what the model delivers for a line (the bytes before the LF): `TrimSpace` of the line with its LF -/
theorem model_line (l : Bytes) (h : Spec.Net.edgeClean l = true) : trimSpace (l ++ [10]) = Spec.Net.trim l := by
  rw [trimSpace_eq_trim _ (edgeClean_append_lf l h), trim_append_blank l 10 (by decide)]

/-- the ASCII loop, unconditionally: one delivery per LF-terminated line, namely `TrimSpace(line + LF)`; the buffer
holds the unterminated rest -/
theorem asciiFeed_lines (buf s : Bytes) (hb : (10 : UInt8) ∉ buf) :
    (asciiFeed buf s).2 = (Spec.Net.splitLF (buf ++ s)).1.map (fun l => trimSpace (l ++ [10])) ∧
    (asciiFeed buf s).1 = (Spec.Net.splitLF (buf ++ s)).2 := by
  induction s generalizing buf with
  | nil => simp [asciiFeed, splitLF_noLF buf hb]
  | cons b r ih =>
    by_cases h10 : b = 10
    · subst h10
      have := ih [] (by simp)
      simp only [List.nil_append] at this
      simp [asciiFeed_cons, asciiStep, splitLF_line buf r hb, this.1, this.2]
    · have hb' : (10 : UInt8) ∉ buf ++ [b] := by
        simp only [List.mem_append, List.mem_singleton, not_or]
        exact ⟨hb, fun e => h10 e.symm⟩
      have := ih (buf ++ [b]) hb'
      simp only [List.append_assoc, List.cons_append, List.nil_append] at this
      simp [asciiFeed_cons, asciiStep, h10, this.1, this.2]

/-- the ASCII loop against the reference reader: on streams whose lines are `edgeClean` the deliveries are the
trimmed LF-terminated lines -/
theorem asciiFeed_spec (buf s : Bytes) (hb : (10 : UInt8) ∉ buf)
    (hc : ∀ l ∈ (Spec.Net.splitLF (buf ++ s)).1, Spec.Net.edgeClean l = true) :
    (asciiFeed buf s).2 = (Spec.Net.splitLF (buf ++ s)).1.map Spec.Net.trim ∧
    (asciiFeed buf s).1 = (Spec.Net.splitLF (buf ++ s)).2 := by
  obtain ⟨h1, h2⟩ := asciiFeed_lines buf s hb
  refine ⟨?_, h2⟩
  rw [h1]
  exact List.map_congr_left (fun l hl => model_line l (hc l hl))

end RawPanelVerif.Net
