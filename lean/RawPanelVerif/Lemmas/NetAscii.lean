import RawPanelVerif.Model.Net
import RawPanelVerif.Spec.NetSpec
/-! Helper lemmas for the ASCII read loop (C08) and the ASCII writer (C09): lines, trimming. -/
namespace RawPanelVerif.Net
open RawPanelVerif

theorem isSpace_eq_isBlank_fin :
    ∀ i : Fin 256, isSpace (UInt8.ofNat i.val) = Spec.Net.isBlank (UInt8.ofNat i.val) := by decide +kernel

theorem isSpace_eq_isBlank (b : UInt8) : isSpace b = Spec.Net.isBlank b := by
  have := isSpace_eq_isBlank_fin ⟨b.toNat, b.toNat_lt⟩
  simpa using this

theorem trimLeft_eq (l : Bytes) : trimLeft l = l.dropWhile isSpace := by
  induction l with
  | nil => rfl
  | cons b r ih => simp only [trimLeft, List.dropWhile_cons, ih]

theorem trimRight_eq (l : Bytes) : trimRight l = (l.reverse.dropWhile isSpace).reverse := by
  induction l with
  | nil => rfl
  | cons b r ih =>
    simp only [trimRight, List.reverse_cons, List.dropWhile_append, ih]
    by_cases h : (List.dropWhile isSpace r.reverse) = []
    · simp only [h, List.reverse_nil, List.isEmpty_nil, if_true]
      by_cases hb : isSpace b = true
      · simp [hb]
      · simp [hb]
    · have h2 : (List.dropWhile isSpace r.reverse).reverse ≠ [] := by simpa using h
      have h3 : (List.dropWhile isSpace r.reverse).isEmpty = false := by
        cases hh : List.dropWhile isSpace r.reverse with
        | nil => exact absurd hh h
        | cons _ _ => rfl
      simp only [h3, Bool.false_eq_true, if_false, List.reverse_append, List.reverse_cons, List.reverse_nil,
        List.nil_append, List.cons_append]

theorem trimSpace_eq_trim (l : Bytes) : trimSpace l = Spec.Net.trim l := by
  have : (isSpace : UInt8 → Bool) = Spec.Net.isBlank := funext isSpace_eq_isBlank
  simp only [trimSpace, Spec.Net.trim, trimLeft_eq, trimRight_eq, this]

theorem trim_append_blank (l : Bytes) (c : UInt8) (hc : Spec.Net.isBlank c = true) :
    Spec.Net.trim (l ++ [c]) = Spec.Net.trim l := by
  simp only [Spec.Net.trim, List.dropWhile_append]
  cases h : List.dropWhile Spec.Net.isBlank l with
  | nil => simp [hc]
  | cons x xs => simp [hc]

theorem trim_append_blanks (l pad : Bytes) (hp : ∀ c ∈ pad, Spec.Net.isBlank c = true) :
    Spec.Net.trim (l ++ pad) = Spec.Net.trim l := by
  induction pad generalizing l with
  | nil => simp
  | cons c p ih =>
    have : l ++ c :: p = (l ++ [c]) ++ p := by simp
    rw [this, ih (l ++ [c]) (fun d hd => hp d (by simp [hd])), trim_append_blank l c (hp c (by simp))]

theorem splitLF_noLF (l : Bytes) (h : (10 : UInt8) ∉ l) : Spec.Net.splitLF l = ([], l) := by
  induction l with
  | nil => rfl
  | cons x l ih =>
    have hx : x ≠ 10 := fun e => h (by simp [e])
    have hl : (10 : UInt8) ∉ l := fun e => h (by simp [e])
    simp [Spec.Net.splitLF, hx, ih hl]

theorem splitLF_line (l r : Bytes) (h : (10 : UInt8) ∉ l) :
    Spec.Net.splitLF (l ++ 10 :: r) = (l :: (Spec.Net.splitLF r).1, (Spec.Net.splitLF r).2) := by
  induction l with
  | nil => simp [Spec.Net.splitLF]
  | cons x l ih =>
    have hx : x ≠ 10 := fun e => h (by simp [e])
    have hl : (10 : UInt8) ∉ l := fun e => h (by simp [e])
    simp [Spec.Net.splitLF, hx, ih hl]

theorem asciiFeed_cons (buf : Bytes) (b : UInt8) (bs : Bytes) :
    asciiFeed buf (b :: bs) =
      ((asciiFeed (asciiStep buf b).1 bs).1, (asciiStep buf b).2 ++ (asciiFeed (asciiStep buf b).1 bs).2) := rfl

theorem asciiFeed_append (buf a b : Bytes) :
    asciiFeed buf (a ++ b) =
      ((asciiFeed (asciiFeed buf a).1 b).1, (asciiFeed buf a).2 ++ (asciiFeed (asciiFeed buf a).1 b).2) := by
  induction a generalizing buf with
  | nil => simp [asciiFeed]
  | cons x xs ih => simp only [List.cons_append, asciiFeed_cons, ih, List.append_assoc]

theorem asciiFeedAll_eq_flatten (buf : Bytes) (segs : List Bytes) :
    asciiFeedAll buf segs = asciiFeed buf segs.flatten := by
  induction segs generalizing buf with
  | nil => rfl
  | cons seg segs ih => simp only [asciiFeedAll, List.flatten_cons, asciiFeed_append, ih]

/-- the ASCII loop against the reference reader: deliveries are the trimmed LF-terminated lines, the buffer holds
the unterminated rest -/
theorem asciiFeed_spec (buf s : Bytes) (hb : (10 : UInt8) ∉ buf) :
    (asciiFeed buf s).2 = (Spec.Net.splitLF (buf ++ s)).1.map Spec.Net.trim ∧
    (asciiFeed buf s).1 = (Spec.Net.splitLF (buf ++ s)).2 := by
  induction s generalizing buf with
  | nil => simp [asciiFeed, splitLF_noLF buf hb]
  | cons b r ih =>
    by_cases h10 : b = 10
    · subst h10
      have := ih [] (by simp)
      simp only [List.nil_append] at this
      have hblank : Spec.Net.isBlank 10 = true := by decide
      simp [asciiFeed_cons, asciiStep, splitLF_line buf r hb, this.1, this.2, trimSpace_eq_trim,
        trim_append_blank buf 10 hblank]
    · have hb' : (10 : UInt8) ∉ buf ++ [b] := by
        simp only [List.mem_append, List.mem_singleton, not_or]
        exact ⟨hb, fun e => h10 e.symm⟩
      have := ih (buf ++ [b]) hb'
      simp only [List.append_assoc, List.cons_append, List.nil_append] at this
      simp [asciiFeed_cons, asciiStep, h10, this.1, this.2]

end RawPanelVerif.Net
