import RawPanelVerif.Lemmas.MonoFrame
/-! Effect of every drawing primitive, derived from `drawPixel_paint` through the loop lemmas. -/
namespace RawPanelVerif.Mono

/-- clip ∩ half-open box, absolute stored-bit coordinates -/
def boxR (g : Geom) (x0 y0 x1 y1 : Int) : Region :=
  fun X Y => clipR g X Y ∧ x0 ≤ (X : Int) ∧ (X : Int) < x1 ∧ y0 ≤ (Y : Int) ∧ (Y : Int) < y1

theorem drawPixel_touch (c : Canvas) (hwf : c.WF) (x y : Int) (col : Bool) (R : Region)
    (hR : ∀ X Y : Nat, clipR c.geo X Y → (X : Int) = x + c.geo.bx → (Y : Int) = y + c.geo.byy → R X Y) :
    Touch R c (drawPixel c x y col) :=
  (drawPixel_paint c hwf x y col).toTouch.mono (fun X Y ⟨h1, h2, h3⟩ => hR X Y h1 h2 h3)

theorem vline_paint (c : Canvas) (hwf : c.WF) (x y h : Int) (col : Bool) :
    Paint (boxR c.geo (x + c.geo.bx) (y + c.geo.byy) (x + c.geo.bx + 1) (y + c.geo.byy + h))
      (col != c.geo.inv) c (vline c x y h col) := by
  unfold vline
  have key := loopN_paint c.geo (col != c.geo.inv)
    (fun i X Y => clipR c.geo X Y ∧ (X : Int) = x + c.geo.bx ∧ (Y : Int) = y + (i : Int) + c.geo.byy)
    (fun c i => drawPixel c x (y + i) col) h.toNat
    (fun c' i _ hwf' hg => by
      have := drawPixel_paint c' hwf' x (y + i) col
      rw [hg] at this; exact this) c hwf rfl
  exact key.congr (fun X Y => by
    unfold boxR
    constructor
    · rintro ⟨i, hi, hc, hx, hy⟩
      exact ⟨hc, by omega, by omega, by omega, by omega⟩
    · rintro ⟨hc, h1, h2, h3, h4⟩
      exact ⟨((Y : Int) - y - c.geo.byy).toNat, by omega, hc, by omega, by omega⟩)

theorem hline_paint (c : Canvas) (hwf : c.WF) (x y w : Int) (col : Bool) :
    Paint (boxR c.geo (x + c.geo.bx) (y + c.geo.byy) (x + c.geo.bx + w) (y + c.geo.byy + 1))
      (col != c.geo.inv) c (hline c x y w col) := by
  unfold hline
  have key := loopN_paint c.geo (col != c.geo.inv)
    (fun i X Y => clipR c.geo X Y ∧ (X : Int) = x + (i : Int) + c.geo.bx ∧ (Y : Int) = y + c.geo.byy)
    (fun c i => drawPixel c (x + i) y col) w.toNat
    (fun c' i _ hwf' hg => by
      have := drawPixel_paint c' hwf' (x + i) y col
      rw [hg] at this; exact this) c hwf rfl
  exact key.congr (fun X Y => by
    unfold boxR
    constructor
    · rintro ⟨i, hi, hc, hx, hy⟩
      exact ⟨hc, by omega, by omega, by omega, by omega⟩
    · rintro ⟨hc, h1, h2, h3, h4⟩
      exact ⟨((X : Int) - x - c.geo.bx).toNat, by omega, hc, by omega, by omega⟩)

theorem fillRect_paint (c : Canvas) (hwf : c.WF) (x y w h : Int) (col : Bool) :
    Paint (boxR c.geo (x + c.geo.bx) (y + c.geo.byy) (x + c.geo.bx + w) (y + c.geo.byy + h))
      (col != c.geo.inv) c (fillRect c x y w h col) := by
  unfold fillRect
  have key := loopN_paint c.geo (col != c.geo.inv)
    (fun i => boxR c.geo (x + (i : Int) + c.geo.bx) (y + c.geo.byy) (x + (i : Int) + c.geo.bx + 1) (y + c.geo.byy + h))
    (fun c i => vline c (x + i) y h col) w.toNat
    (fun c' i _ hwf' hg => by
      have := vline_paint c' hwf' (x + i) y h col
      rw [hg] at this; exact this) c hwf rfl
  exact key.congr (fun X Y => by
    unfold boxR
    constructor
    · rintro ⟨i, hi, hc, h1, h2, h3, h4⟩
      exact ⟨hc, by omega, by omega, by omega, by omega⟩
    · rintro ⟨hc, h1, h2, h3, h4⟩
      exact ⟨((X : Int) - x - c.geo.bx).toNat, by omega, hc, by omega, by omega, by omega, by omega⟩)

theorem boxR_sub_clip (g : Geom) (a b c d : Int) : ∀ X Y, boxR g a b c d X Y → clipR g X Y :=
  fun _ _ h => h.1


theorem touch_ite {R : Region} {c : Canvas} (hwf : c.WF) (b : Bool) (f : Canvas → Canvas)
    (h : Touch R c (f c)) : Touch R c (if b then f c else c) := by
  cases b
  · exact Touch.refl R c hwf
  · exact h

/-- two pixels in a row -/
theorem drawPixel2_touch (c : Canvas) (hwf : c.WF) (g : Geom) (hg : c.geo = g) (R : Region)
    (x1 y1 x2 y2 : Int) (col : Bool)
    (h1 : ∀ X Y : Nat, clipR g X Y → (X : Int) = x1 + g.bx → (Y : Int) = y1 + g.byy → R X Y)
    (h2 : ∀ X Y : Nat, clipR g X Y → (X : Int) = x2 + g.bx → (Y : Int) = y2 + g.byy → R X Y) :
    Touch R c (drawPixel (drawPixel c x1 y1 col) x2 y2 col) := by
  subst hg
  have t1 := drawPixel_touch c hwf x1 y1 col R h1
  have t2 := drawPixel_touch (drawPixel c x1 y1 col) t1.wf x2 y2 col R (by rw [t1.geo]; exact h2)
  exact t1.trans t2

/-- region of a quarter/half circle of radius `r` around `(x0,y0)` (relative coordinates) -/
def circR (g : Geom) (x0 y0 r : Int) : Region :=
  boxR g (x0 - r + g.bx) (y0 - r + g.byy) (x0 + r + 1 + g.bx) (y0 + r + 1 + g.byy)

theorem circPlot_touch (c : Canvas) (hwf : c.WF) (g : Geom) (hg : c.geo = g) (x0 y0 corner : Int) (col : Bool)
    (x y r : Int) (hx0 : 0 ≤ x) (hxr : x ≤ r) (hy0 : 0 ≤ y) (hyr : y ≤ r) :
    Touch (circR g x0 y0 r) c (circPlot c x0 y0 corner col x y) := by
  unfold circPlot
  simp only []
  have hin : ∀ (a b : Int), (x0 - r ≤ a ∧ a ≤ x0 + r) → (y0 - r ≤ b ∧ b ≤ y0 + r) →
      ∀ X Y : Nat, clipR g X Y → (X : Int) = a + g.bx → (Y : Int) = b + g.byy → circR g x0 y0 r X Y := by
    intro a b ha hb X Y hc hX hY
    exact ⟨hc, by omega, by omega, by omega, by omega⟩
  have s1 : Touch (circR g x0 y0 r) c
      (if cornerBit corner 4 then drawPixel (drawPixel c (x0 + x) (y0 + y) col) (x0 + y) (y0 + x) col else c) :=
    touch_ite hwf _ (fun c => drawPixel (drawPixel c (x0 + x) (y0 + y) col) (x0 + y) (y0 + x) col)
      (drawPixel2_touch c hwf g hg _ _ _ _ _ col (hin _ _ (by omega) (by omega)) (hin _ _ (by omega) (by omega)))
  generalize (if cornerBit corner 4 then drawPixel (drawPixel c (x0 + x) (y0 + y) col) (x0 + y) (y0 + x) col else c) = c1 at s1 ⊢
  have s2 : Touch (circR g x0 y0 r) c1
      (if cornerBit corner 2 then drawPixel (drawPixel c1 (x0 + x) (y0 - y) col) (x0 + y) (y0 - x) col else c1) :=
    touch_ite s1.wf _ (fun c => drawPixel (drawPixel c (x0 + x) (y0 - y) col) (x0 + y) (y0 - x) col)
      (drawPixel2_touch c1 s1.wf g (s1.geo.trans hg) _ _ _ _ _ col (hin _ _ (by omega) (by omega)) (hin _ _ (by omega) (by omega)))
  have s12 := s1.trans s2
  generalize (if cornerBit corner 2 then drawPixel (drawPixel c1 (x0 + x) (y0 - y) col) (x0 + y) (y0 - x) col else c1) = c2 at s12 s2 ⊢
  have s3 : Touch (circR g x0 y0 r) c2
      (if cornerBit corner 8 then drawPixel (drawPixel c2 (x0 - y) (y0 + x) col) (x0 - x) (y0 + y) col else c2) :=
    touch_ite s12.wf _ (fun c => drawPixel (drawPixel c (x0 - y) (y0 + x) col) (x0 - x) (y0 + y) col)
      (drawPixel2_touch c2 s12.wf g (s12.geo.trans hg) _ _ _ _ _ col (hin _ _ (by omega) (by omega)) (hin _ _ (by omega) (by omega)))
  have s123 := s12.trans s3
  generalize (if cornerBit corner 8 then drawPixel (drawPixel c2 (x0 - y) (y0 + x) col) (x0 - x) (y0 + y) col else c2) = c3 at s123 s3 ⊢
  have s4 : Touch (circR g x0 y0 r) c3
      (if cornerBit corner 1 then drawPixel (drawPixel c3 (x0 - y) (y0 - x) col) (x0 - x) (y0 - y) col else c3) :=
    touch_ite s123.wf _ (fun c => drawPixel (drawPixel c (x0 - y) (y0 - x) col) (x0 - x) (y0 - y) col)
      (drawPixel2_touch c3 s123.wf g (s123.geo.trans hg) _ _ _ _ _ col (hin _ _ (by omega) (by omega)) (hin _ _ (by omega) (by omega)))
  exact s123.trans s4

theorem Circ.next_bounds (s : Circ) (r : Int) (h : s.x < s.y) (h0 : 0 ≤ s.x) (hr : s.y ≤ r) :
    0 ≤ s.next.x ∧ s.next.x ≤ r ∧ 0 ≤ s.next.y ∧ s.next.y ≤ r := by
  unfold Circ.next
  by_cases hf : s.f ≥ 0 <;> simp [hf] <;> omega

theorem drawCircleHelperLoop_touch (g : Geom) (x0 y0 corner : Int) (col : Bool) (r : Int)
    (c : Canvas) (s : Circ) (hwf : c.WF) (hg : c.geo = g) (h0 : 0 ≤ s.x) (hr : s.y ≤ r) :
    Touch (circR g x0 y0 r) c (drawCircleHelperLoop c x0 y0 corner col s) := by
  fun_induction drawCircleHelperLoop c x0 y0 corner col s with
  | case1 c s h ih =>
    obtain ⟨b1, b2, b3, b4⟩ := Circ.next_bounds s r h h0 hr
    have t := circPlot_touch c hwf g hg x0 y0 corner col s.next.x s.next.y r b1 b2 b3 b4
    exact t.trans (ih t.wf (t.geo.trans hg) b1 b4)
  | case2 c s h => exact Touch.refl _ c hwf

theorem drawCircleHelper_touch (c : Canvas) (hwf : c.WF) (x0 y0 r corner : Int) (col : Bool) :
    Touch (circR c.geo x0 y0 r) c (drawCircleHelper c x0 y0 r corner col) := by
  unfold drawCircleHelper
  exact drawCircleHelperLoop_touch c.geo x0 y0 corner col r c (Circ.init r) hwf rfl (by simp [Circ.init]) (by simp [Circ.init])

/-- region of the filled corner columns -/
def fcircR (g : Geom) (x0 y0 r delta : Int) : Region :=
  boxR g (x0 - r + g.bx) (y0 - r + g.byy) (x0 + r + 1 + g.bx) (y0 + r + 1 + delta + g.byy)

theorem vline_touch (c : Canvas) (hwf : c.WF) (g : Geom) (hg : c.geo = g) (x y h : Int) (col : Bool) (R : Region)
    (hR : ∀ X Y, boxR g (x + g.bx) (y + g.byy) (x + g.bx + 1) (y + g.byy + h) X Y → R X Y) :
    Touch R c (vline c x y h col) := by
  subst hg
  exact (vline_paint c hwf x y h col).toTouch.mono hR

theorem hline_touch (c : Canvas) (hwf : c.WF) (g : Geom) (hg : c.geo = g) (x y w : Int) (col : Bool) (R : Region)
    (hR : ∀ X Y, boxR g (x + g.bx) (y + g.byy) (x + g.bx + w) (y + g.byy + 1) X Y → R X Y) :
    Touch R c (hline c x y w col) := by
  subst hg
  exact (hline_paint c hwf x y w col).toTouch.mono hR

theorem fillRect_touch (c : Canvas) (hwf : c.WF) (g : Geom) (hg : c.geo = g) (x y w h : Int) (col : Bool) (R : Region)
    (hR : ∀ X Y, boxR g (x + g.bx) (y + g.byy) (x + g.bx + w) (y + g.byy + h) X Y → R X Y) :
    Touch R c (fillRect c x y w h col) := by
  subst hg
  exact (fillRect_paint c hwf x y w h col).toTouch.mono hR

theorem vline2_touch (c : Canvas) (hwf : c.WF) (g : Geom) (hg : c.geo = g) (R : Region)
    (x1 y1 h1 x2 y2 h2 : Int) (col : Bool)
    (hR1 : ∀ X Y, boxR g (x1 + g.bx) (y1 + g.byy) (x1 + g.bx + 1) (y1 + g.byy + h1) X Y → R X Y)
    (hR2 : ∀ X Y, boxR g (x2 + g.bx) (y2 + g.byy) (x2 + g.bx + 1) (y2 + g.byy + h2) X Y → R X Y) :
    Touch R c (vline (vline c x1 y1 h1 col) x2 y2 h2 col) := by
  have t1 := vline_touch c hwf g hg x1 y1 h1 col R hR1
  exact t1.trans (vline_touch _ t1.wf g (t1.geo.trans hg) x2 y2 h2 col R hR2)

theorem fillCircPlot_touch (c : Canvas) (hwf : c.WF) (g : Geom) (hg : c.geo = g) (x0 y0 corner delta : Int) (col : Bool)
    (x y r : Int) (hx0 : 0 ≤ x) (hxr : x ≤ r) (hy0 : 0 ≤ y) (hyr : y ≤ r) :
    Touch (fcircR g x0 y0 r delta) c (fillCircPlot c x0 y0 corner delta col x y) := by
  unfold fillCircPlot
  simp only []
  have hin : ∀ (a b hh : Int), (x0 - r ≤ a ∧ a ≤ x0 + r) → (y0 - r ≤ b) → (b + hh ≤ y0 + r + 1 + delta) →
      ∀ X Y, boxR g (a + g.bx) (b + g.byy) (a + g.bx + 1) (b + g.byy + hh) X Y → fcircR g x0 y0 r delta X Y := by
    intro a b hh ha hb hbh X Y ⟨hc, q1, q2, q3, q4⟩
    exact ⟨hc, by omega, by omega, by omega, by omega⟩
  have s1 : Touch (fcircR g x0 y0 r delta) c
      (if cornerBit corner 1 then
        vline (vline c (x0 + x) (y0 - y) (2 * y + 1 + delta) col) (x0 + y) (y0 - x) (2 * x + 1 + delta) col else c) :=
    touch_ite hwf _ (fun c => vline (vline c (x0 + x) (y0 - y) (2 * y + 1 + delta) col) (x0 + y) (y0 - x) (2 * x + 1 + delta) col)
      (vline2_touch c hwf g hg _ _ _ _ _ _ _ col (hin _ _ _ (by omega) (by omega) (by omega)) (hin _ _ _ (by omega) (by omega) (by omega)))
  generalize (if cornerBit corner 1 then
        vline (vline c (x0 + x) (y0 - y) (2 * y + 1 + delta) col) (x0 + y) (y0 - x) (2 * x + 1 + delta) col else c) = c1 at s1 ⊢
  have s2 : Touch (fcircR g x0 y0 r delta) c1
      (if cornerBit corner 2 then
        vline (vline c1 (x0 - x) (y0 - y) (2 * y + 1 + delta) col) (x0 - y) (y0 - x) (2 * x + 1 + delta) col else c1) :=
    touch_ite s1.wf _ (fun c => vline (vline c (x0 - x) (y0 - y) (2 * y + 1 + delta) col) (x0 - y) (y0 - x) (2 * x + 1 + delta) col)
      (vline2_touch c1 s1.wf g (s1.geo.trans hg) _ _ _ _ _ _ _ col (hin _ _ _ (by omega) (by omega) (by omega)) (hin _ _ _ (by omega) (by omega) (by omega)))
  exact s1.trans s2

theorem fillCircleHelperLoop_touch (g : Geom) (x0 y0 corner delta : Int) (col : Bool) (r : Int)
    (c : Canvas) (s : Circ) (hwf : c.WF) (hg : c.geo = g) (h0 : 0 ≤ s.x) (hr : s.y ≤ r) :
    Touch (fcircR g x0 y0 r delta) c (fillCircleHelperLoop c x0 y0 corner delta col s) := by
  fun_induction fillCircleHelperLoop c x0 y0 corner delta col s with
  | case1 c s h ih =>
    obtain ⟨b1, b2, b3, b4⟩ := Circ.next_bounds s r h h0 hr
    have t := fillCircPlot_touch c hwf g hg x0 y0 corner delta col s.next.x s.next.y r b1 b2 b3 b4
    exact t.trans (ih t.wf (t.geo.trans hg) b1 b4)
  | case2 c s h => exact Touch.refl _ c hwf

theorem fillCircleHelper_touch (c : Canvas) (hwf : c.WF) (x0 y0 r corner delta : Int) (col : Bool) :
    Touch (fcircR c.geo x0 y0 r delta) c (fillCircleHelper c x0 y0 r corner delta col) := by
  unfold fillCircleHelper
  exact fillCircleHelperLoop_touch c.geo x0 y0 corner delta col r c (Circ.init r) hwf rfl (by simp [Circ.init]) (by simp [Circ.init])


/-! ## Rounded rectangles -/

/-- footprint of `DrawRoundRect`: the four edge segments and the four corner boxes (relative coordinates
shifted by the bounding-box origin) -/
def rrectR (g : Geom) (x y w h r : Int) : Region := fun X Y =>
  boxR g (x + r + g.bx) (y + g.byy) (x + r + g.bx + (w - 2 * r)) (y + g.byy + 1) X Y ∨
  boxR g (x + r + g.bx) (y + h - 1 + g.byy) (x + r + g.bx + (w - 2 * r)) (y + h - 1 + g.byy + 1) X Y ∨
  boxR g (x + g.bx) (y + r + g.byy) (x + g.bx + 1) (y + r + g.byy + (h - 2 * r)) X Y ∨
  boxR g (x + w - 1 + g.bx) (y + r + g.byy) (x + w - 1 + g.bx + 1) (y + r + g.byy + (h - 2 * r)) X Y ∨
  circR g (x + r) (y + r) r X Y ∨ circR g (x + w - r - 1) (y + r) r X Y ∨
  circR g (x + w - r - 1) (y + h - r - 1) r X Y ∨ circR g (x + r) (y + h - r - 1) r X Y

theorem drawRoundRect_touch (c : Canvas) (hwf : c.WF) (x y w h r : Int) (col : Bool) :
    Touch (rrectR c.geo x y w h r) c (drawRoundRect c x y w h r col) := by
  unfold drawRoundRect
  simp only []
  generalize hg : c.geo = g
  have t1 := hline_touch c hwf g hg (x + r) y (w - 2 * r) col (rrectR g x y w h r)
    (fun X Y hh => Or.inl hh)
  have t2 := hline_touch _ t1.wf g (t1.geo.trans hg) (x + r) (y + h - 1) (w - 2 * r) col (rrectR g x y w h r)
    (fun X Y hh => Or.inr (Or.inl hh))
  have t12 := t1.trans t2
  have t3 := vline_touch _ t12.wf g (t12.geo.trans hg) x (y + r) (h - 2 * r) col (rrectR g x y w h r)
    (fun X Y hh => Or.inr (Or.inr (Or.inl hh)))
  have t123 := t12.trans t3
  have t4 := vline_touch _ t123.wf g (t123.geo.trans hg) (x + w - 1) (y + r) (h - 2 * r) col (rrectR g x y w h r)
    (fun X Y hh => Or.inr (Or.inr (Or.inr (Or.inl hh))))
  have t1234 := t123.trans t4
  have c1 := (drawCircleHelper_touch _ t1234.wf (x + r) (y + r) r 1 col)
  rw [t1234.geo.trans hg] at c1
  have c1' : Touch (rrectR g x y w h r) _ _ := c1.mono (fun X Y hh => Or.inr (Or.inr (Or.inr (Or.inr (Or.inl hh)))))
  have u1 := t1234.trans c1'
  have c2 := (drawCircleHelper_touch _ u1.wf (x + w - r - 1) (y + r) r 2 col)
  rw [u1.geo.trans hg] at c2
  have c2' : Touch (rrectR g x y w h r) _ _ := c2.mono (fun X Y hh => Or.inr (Or.inr (Or.inr (Or.inr (Or.inr (Or.inl hh))))))
  have u2 := u1.trans c2'
  have c3 := (drawCircleHelper_touch _ u2.wf (x + w - r - 1) (y + h - r - 1) r 4 col)
  rw [u2.geo.trans hg] at c3
  have c3' : Touch (rrectR g x y w h r) _ _ := c3.mono (fun X Y hh => Or.inr (Or.inr (Or.inr (Or.inr (Or.inr (Or.inr (Or.inl hh)))))))
  have u3 := u2.trans c3'
  have c4 := (drawCircleHelper_touch _ u3.wf (x + r) (y + h - r - 1) r 8 col)
  rw [u3.geo.trans hg] at c4
  have c4' : Touch (rrectR g x y w h r) _ _ := c4.mono (fun X Y hh => Or.inr (Or.inr (Or.inr (Or.inr (Or.inr (Or.inr (Or.inr hh)))))))
  exact u3.trans c4'

def frrectR (g : Geom) (x y w h r : Int) : Region := fun X Y =>
  boxR g (x + r + g.bx) (y + g.byy) (x + r + g.bx + (w - 2 * r)) (y + g.byy + h) X Y ∨
  fcircR g (x + w - r - 1) (y + r) r (h - 2 * r - 1) X Y ∨
  fcircR g (x + r) (y + r) r (h - 2 * r - 1) X Y

theorem fillRoundRect_touch (c : Canvas) (hwf : c.WF) (x y w h r : Int) (col : Bool) :
    Touch (frrectR c.geo x y w h r) c (fillRoundRect c x y w h r col) := by
  unfold fillRoundRect
  simp only []
  generalize hg : c.geo = g
  have t1 := fillRect_touch c hwf g hg (x + r) y (w - 2 * r) h col (frrectR g x y w h r)
    (fun X Y hh => Or.inl hh)
  have c1 := fillCircleHelper_touch _ t1.wf (x + w - r - 1) (y + r) r 1 (h - 2 * r - 1) col
  rw [t1.geo.trans hg] at c1
  have c1' : Touch (frrectR g x y w h r) _ _ := c1.mono (fun X Y hh => Or.inr (Or.inl hh))
  have u1 := t1.trans c1'
  have c2 := fillCircleHelper_touch _ u1.wf (x + r) (y + r) r 2 (h - 2 * r - 1) col
  rw [u1.geo.trans hg] at c2
  have c2' : Touch (frrectR g x y w h r) _ _ := c2.mono (fun X Y hh => Or.inr (Or.inr hh))
  exact u1.trans c2'

/-! ## Bitmaps -/

theorem drawBitmap_touch (c : Canvas) (hwf : c.WF) (x y : Int) (bits : Array UInt8) (w h : Int)
    (col inverted drawAll : Bool) :
    Touch (boxR c.geo (x + c.geo.bx) (y + c.geo.byy) (x + c.geo.bx + w) (y + c.geo.byy + h)) c
      (drawBitmap c x y bits w h col inverted drawAll) := by
  unfold drawBitmap
  simp only []
  generalize hg : c.geo = g
  refine loopN_touch g _ _ h.toNat (fun c1 j hj hwf1 hg1 => ?_) c hwf hg
  refine loopN_touch g _ _ w.toNat (fun c2 i hi hwf2 hg2 => ?_) c1 hwf1 hg1
  split
  · split
    · exact drawPixel_touch c2 hwf2 _ _ _ _ (by
        rw [hg2]; intro X Y hc hX hY
        exact ⟨hc, by omega, by omega, by omega, by omega⟩)
    · exact Touch.refl _ c2 hwf2
  · exact Touch.refl _ c2 hwf2


/-! ## Glyphs and text -/

theorem drawBlock_touch (c : Canvas) (hwf : c.WF) (g : Geom) (hg : c.geo = g) (x y : Int) (i j : Nat)
    (tsH tsV : Int) (col : Bool) (R : Region)
    (hR : ∀ X Y, boxR g (x + i * tsH + g.bx) (y + j * tsV + g.byy) (x + i * tsH + g.bx + tsH)
      (y + j * tsV + g.byy + tsV) X Y → R X Y) :
    Touch R c (drawBlock c x y i j tsH tsV col) := by
  unfold drawBlock
  split
  · rename_i h1
    obtain ⟨hH, hV⟩ := h1
    subst hH hV
    exact drawPixel_touch c hwf _ _ _ _ (by
      rw [hg]; intro X Y hc hX hY
      exact hR X Y ⟨hc, by omega, by omega, by omega, by omega⟩)
  · exact fillRect_touch c hwf g hg _ _ _ _ _ _ hR

theorem drawChar_touch (c : Canvas) (hwf : c.WF) (t : TextSt) (x y : Int) (ch : Nat) (col bg : Bool)
    (tsH tsV : Int) :
    Touch (boxR c.geo (x + c.geo.bx) (y + c.geo.byy) (x + c.geo.bx + (charWidth t ch : Int) * tsH)
        (y + c.geo.byy + (t.fp.bbH : Int) * tsV)) c (drawChar c t x y ch col bg tsH tsV) := by
  unfold drawChar
  simp only []
  split
  · exact Touch.refl _ c hwf
  · generalize hg : c.geo = g
    refine loopN_touch g _ _ _ (fun c1 i hi hwf1 hg1 => ?_) c hwf hg
    refine loopN_touch g _ _ _ (fun c2 j hj hwf2 hg2 => ?_) c1 hwf1 hg1
    have hblock : ∀ (colr : Bool), Touch (boxR g (x + g.bx) (y + g.byy) (x + g.bx + (charWidth t ch : Int) * tsH)
        (y + g.byy + (t.fp.bbH : Int) * tsV)) c2 (drawBlock c2 x y i j tsH tsV colr) := by
      intro colr
      refine drawBlock_touch c2 hwf2 g hg2 x y i j tsH tsV colr _ ?_
      rintro X Y ⟨hc, q1, q2, q3, q4⟩
      have hH : 0 < tsH := by omega
      have hV : 0 < tsV := by omega
      have e1 : (0 : Int) ≤ (i : Int) * tsH := Int.mul_nonneg (by omega) (by omega)
      have e2 : ((i : Int) + 1) * tsH ≤ (charWidth t ch : Int) * tsH :=
        Int.mul_le_mul_of_nonneg_right (by omega) (by omega)
      have e3 : (0 : Int) ≤ (j : Int) * tsV := Int.mul_nonneg (by omega) (by omega)
      have e4 : ((j : Int) + 1) * tsV ≤ (t.fp.bbH : Int) * tsV :=
        Int.mul_le_mul_of_nonneg_right (by omega) (by omega)
      rw [Int.add_mul] at e2 e4
      exact ⟨hc, by omega, by omega, by omega, by omega⟩
    split
    · exact hblock col
    · split
      · exact hblock bg
      · exact Touch.refl _ c2 hwf2

theorem writeChar_touch (c : Canvas) (hwf : c.WF) (t : TextSt) (ch : Nat) :
    Touch (clipR c.geo) c (writeChar (c, t) ch).1 := by
  unfold writeChar
  simp only []
  split
  · exact Touch.refl _ c hwf
  · split
    · exact Touch.refl _ c hwf
    · have := (drawChar_touch c hwf t t.cx t.cy ch t.tcol t.tbg t.tsH t.tsV).mono (boxR_sub_clip _ _ _ _ _)
      split <;> exact this

theorem renderText_touch (s : List Nat) (c : Canvas) (hwf : c.WF) (t : TextSt) :
    Touch (clipR c.geo) c (renderText (c, t) s).1 := by
  unfold renderText
  induction s generalizing c t with
  | nil => exact Touch.refl _ c hwf
  | cons ch s ih =>
    rw [List.foldl_cons]
    have t1 := writeChar_touch c hwf t ch
    have t2 := ih (writeChar (c, t) ch).1 t1.wf (writeChar (c, t) ch).2
    rw [t1.geo] at t2
    exact t1.trans t2

end RawPanelVerif.Mono
