import RawPanelVerif.Lemmas.OutDecSound
/-! SysStat field-assignment lemmas for the decoder model (C04 `sysstat_any_subset_order`). -/
namespace RawPanelVerif.OutLemmas
open RawPanelVerif RawPanelVerif.Bytes RawPanelVerif.MsgOut RawPanelVerif.EncOut RawPanelVerif.DecOut
open RawPanelVerif.Spec.Out

/-- one field of the record after the assignments of a pair list with distinct keys -/
theorem fold_field {α : Type} (o : OutOracle) (proj : SysStat → α) (K : Bytes) (conv : Bytes → α)
    (hA : ∀ k v st, proj (sysAssign o k v st) = if k = K then conv v else proj st)
    (ps : List (Bytes × Bytes)) (hd : distinct (ps.map (·.1)) = true) (st0 : SysStat) :
    proj (ps.foldl (fun st kv => sysAssign o kv.1 kv.2 st) st0) = ((ps.lookup K).map conv).getD (proj st0) := by
  induction ps generalizing st0 with
  | nil => rfl
  | cons kv rest ih =>
    simp only [List.map_cons, distinct, Bool.and_eq_true, Bool.not_eq_true'] at hd
    simp only [List.foldl_cons]
    rw [ih hd.2, hA]
    by_cases hk : kv.1 = K
    · subst hk
      have hnot : kv.1 ∉ rest.map (·.1) := by simpa using hd.1
      have hl : rest.lookup kv.1 = none := by
        rw [List.lookup_eq_none_iff]
        intro p hp
        simp only [bne_iff_ne, ne_eq]
        intro e
        exact hnot (by simp only [List.mem_map]; exact ⟨p, hp, e.symm⟩)
      have : ((kv :: rest).lookup kv.1) = some kv.2 := by
        cases kv; simp [List.lookup]
      rw [hl, this]; simp
    · have : ((kv :: rest).lookup K) = rest.lookup K := by
        cases kv with
        | mk a b =>
          simp only [List.lookup]
          have : (K == a) = false := by simp only [beq_eq_false_iff_ne, ne_eq]; exact fun e => hk e.symm
          rw [this]
      rw [this, if_neg hk]

theorem A_cpuUsage (o : OutOracle) (k v : Bytes) (st : SysStat) :
    (sysAssign o k v st).cpuUsage = if k = asc "CPUUsage" then u32 (intval v) else st.cpuUsage := by
  by_cases h : k = asc "CPUUsage"
  · subst h; rw [if_pos rfl]; unfold sysAssign; simp (config := { decide := true }) only [ite_true, ite_false]
  · rw [if_neg h]; unfold sysAssign; simp only [apply_ite SysStat.cpuUsage, ite_self, if_neg h]

theorem A_cpuTemp (o : OutOracle) (k v : Bytes) (st : SysStat) :
    (sysAssign o k v st).cpuTemp = if k = asc "CPUTemp" then o.parseF v else st.cpuTemp := by
  by_cases h : k = asc "CPUTemp"
  · subst h; rw [if_pos rfl]; unfold sysAssign; simp (config := { decide := true }) only [ite_true, ite_false]
  · rw [if_neg h]; unfold sysAssign; simp only [apply_ite SysStat.cpuTemp, ite_self, if_neg h]

theorem A_extTemp (o : OutOracle) (k v : Bytes) (st : SysStat) :
    (sysAssign o k v st).extTemp = if k = asc "ExtTemp" then o.parseF v else st.extTemp := by
  by_cases h : k = asc "ExtTemp"
  · subst h; rw [if_pos rfl]; unfold sysAssign; simp (config := { decide := true }) only [ite_true, ite_false]
  · rw [if_neg h]; unfold sysAssign; simp only [apply_ite SysStat.extTemp, ite_self, if_neg h]

theorem A_cpuVoltage (o : OutOracle) (k v : Bytes) (st : SysStat) :
    (sysAssign o k v st).cpuVoltage = if k = asc "CPUVoltage" then o.parseF v else st.cpuVoltage := by
  by_cases h : k = asc "CPUVoltage"
  · subst h; rw [if_pos rfl]; unfold sysAssign; simp (config := { decide := true }) only [ite_true, ite_false]
  · rw [if_neg h]; unfold sysAssign; simp only [apply_ite SysStat.cpuVoltage, ite_self, if_neg h]

theorem A_cpuFreqCurrent (o : OutOracle) (k v : Bytes) (st : SysStat) :
    (sysAssign o k v st).cpuFreqCurrent = if k = asc "CPUFreqCurrent" then i32 (intval v) else st.cpuFreqCurrent := by
  by_cases h : k = asc "CPUFreqCurrent"
  · subst h; rw [if_pos rfl]; unfold sysAssign; simp (config := { decide := true }) only [ite_true, ite_false]
  · rw [if_neg h]; unfold sysAssign; simp only [apply_ite SysStat.cpuFreqCurrent, ite_self, if_neg h]

theorem A_cpuFreqMin (o : OutOracle) (k v : Bytes) (st : SysStat) :
    (sysAssign o k v st).cpuFreqMin = if k = asc "CPUFreqMin" then i32 (intval v) else st.cpuFreqMin := by
  by_cases h : k = asc "CPUFreqMin"
  · subst h; rw [if_pos rfl]; unfold sysAssign; simp (config := { decide := true }) only [ite_true, ite_false]
  · rw [if_neg h]; unfold sysAssign; simp only [apply_ite SysStat.cpuFreqMin, ite_self, if_neg h]

theorem A_cpuFreqMax (o : OutOracle) (k v : Bytes) (st : SysStat) :
    (sysAssign o k v st).cpuFreqMax = if k = asc "CPUFreqMax" then i32 (intval v) else st.cpuFreqMax := by
  by_cases h : k = asc "CPUFreqMax"
  · subst h; rw [if_pos rfl]; unfold sysAssign; simp (config := { decide := true }) only [ite_true, ite_false]
  · rw [if_neg h]; unfold sysAssign; simp only [apply_ite SysStat.cpuFreqMax, ite_self, if_neg h]

theorem A_memTotal (o : OutOracle) (k v : Bytes) (st : SysStat) :
    (sysAssign o k v st).memTotal = if k = asc "MemTotal" then i32 (intval v) else st.memTotal := by
  by_cases h : k = asc "MemTotal"
  · subst h; rw [if_pos rfl]; unfold sysAssign; simp (config := { decide := true }) only [ite_true, ite_false]
  · rw [if_neg h]; unfold sysAssign; simp only [apply_ite SysStat.memTotal, ite_self, if_neg h]

theorem A_memFree (o : OutOracle) (k v : Bytes) (st : SysStat) :
    (sysAssign o k v st).memFree = if k = asc "MemFree" then i32 (intval v) else st.memFree := by
  by_cases h : k = asc "MemFree"
  · subst h; rw [if_pos rfl]; unfold sysAssign; simp (config := { decide := true }) only [ite_true, ite_false]
  · rw [if_neg h]; unfold sysAssign; simp only [apply_ite SysStat.memFree, ite_self, if_neg h]

theorem A_memAvailable (o : OutOracle) (k v : Bytes) (st : SysStat) :
    (sysAssign o k v st).memAvailable = if k = asc "MemAvailable" then i32 (intval v) else st.memAvailable := by
  by_cases h : k = asc "MemAvailable"
  · subst h; rw [if_pos rfl]; unfold sysAssign; simp (config := { decide := true }) only [ite_true, ite_false]
  · rw [if_neg h]; unfold sysAssign; simp only [apply_ite SysStat.memAvailable, ite_self, if_neg h]

theorem A_memBuffers (o : OutOracle) (k v : Bytes) (st : SysStat) :
    (sysAssign o k v st).memBuffers = if k = asc "MemBuffers" then i32 (intval v) else st.memBuffers := by
  by_cases h : k = asc "MemBuffers"
  · subst h; rw [if_pos rfl]; unfold sysAssign; simp (config := { decide := true }) only [ite_true, ite_false]
  · rw [if_neg h]; unfold sysAssign; simp only [apply_ite SysStat.memBuffers, ite_self, if_neg h]

theorem A_memCached (o : OutOracle) (k v : Bytes) (st : SysStat) :
    (sysAssign o k v st).memCached = if k = asc "MemCached" then i32 (intval v) else st.memCached := by
  by_cases h : k = asc "MemCached"
  · subst h; rw [if_pos rfl]; unfold sysAssign; simp (config := { decide := true }) only [ite_true, ite_false]
  · rw [if_neg h]; unfold sysAssign; simp only [apply_ite SysStat.memCached, ite_self, if_neg h]

theorem A_underVoltageNow (o : OutOracle) (k v : Bytes) (st : SysStat) :
    (sysAssign o k v st).underVoltageNow = if k = asc "UnderVoltageNow" then eq1 v else st.underVoltageNow := by
  by_cases h : k = asc "UnderVoltageNow"
  · subst h; rw [if_pos rfl]; unfold sysAssign; simp (config := { decide := true }) only [ite_true, ite_false]
  · rw [if_neg h]; unfold sysAssign; simp only [apply_ite SysStat.underVoltageNow, ite_self, if_neg h]

theorem A_underVoltage (o : OutOracle) (k v : Bytes) (st : SysStat) :
    (sysAssign o k v st).underVoltage = if k = asc "UnderVoltage" then eq1 v else st.underVoltage := by
  by_cases h : k = asc "UnderVoltage"
  · subst h; rw [if_pos rfl]; unfold sysAssign; simp (config := { decide := true }) only [ite_true, ite_false]
  · rw [if_neg h]; unfold sysAssign; simp only [apply_ite SysStat.underVoltage, ite_self, if_neg h]

theorem A_freqCapNow (o : OutOracle) (k v : Bytes) (st : SysStat) :
    (sysAssign o k v st).freqCapNow = if k = asc "FreqCapNow" then eq1 v else st.freqCapNow := by
  by_cases h : k = asc "FreqCapNow"
  · subst h; rw [if_pos rfl]; unfold sysAssign; simp (config := { decide := true }) only [ite_true, ite_false]
  · rw [if_neg h]; unfold sysAssign; simp only [apply_ite SysStat.freqCapNow, ite_self, if_neg h]

theorem A_freqCap (o : OutOracle) (k v : Bytes) (st : SysStat) :
    (sysAssign o k v st).freqCap = if k = asc "FreqCap" then eq1 v else st.freqCap := by
  by_cases h : k = asc "FreqCap"
  · subst h; rw [if_pos rfl]; unfold sysAssign; simp (config := { decide := true }) only [ite_true, ite_false]
  · rw [if_neg h]; unfold sysAssign; simp only [apply_ite SysStat.freqCap, ite_self, if_neg h]

theorem A_throttledNow (o : OutOracle) (k v : Bytes) (st : SysStat) :
    (sysAssign o k v st).throttledNow = if k = asc "ThrottledNow" then eq1 v else st.throttledNow := by
  by_cases h : k = asc "ThrottledNow"
  · subst h; rw [if_pos rfl]; unfold sysAssign; simp (config := { decide := true }) only [ite_true, ite_false]
  · rw [if_neg h]; unfold sysAssign; simp only [apply_ite SysStat.throttledNow, ite_self, if_neg h]

theorem A_throttled (o : OutOracle) (k v : Bytes) (st : SysStat) :
    (sysAssign o k v st).throttled = if k = asc "Throttled" then eq1 v else st.throttled := by
  by_cases h : k = asc "Throttled"
  · subst h; rw [if_pos rfl]; unfold sysAssign; simp (config := { decide := true }) only [ite_true, ite_false]
  · rw [if_neg h]; unfold sysAssign; simp only [apply_ite SysStat.throttled, ite_self, if_neg h]

theorem A_softTempLimitNow (o : OutOracle) (k v : Bytes) (st : SysStat) :
    (sysAssign o k v st).softTempLimitNow = if k = asc "SoftTempLimitNow" then eq1 v else st.softTempLimitNow := by
  by_cases h : k = asc "SoftTempLimitNow"
  · subst h; rw [if_pos rfl]; unfold sysAssign; simp (config := { decide := true }) only [ite_true, ite_false]
  · rw [if_neg h]; unfold sysAssign; simp only [apply_ite SysStat.softTempLimitNow, ite_self, if_neg h]

theorem A_softTempLimit (o : OutOracle) (k v : Bytes) (st : SysStat) :
    (sysAssign o k v st).softTempLimit = if k = asc "SoftTempLimit" then eq1 v else st.softTempLimit := by
  by_cases h : k = asc "SoftTempLimit"
  · subst h; rw [if_pos rfl]; unfold sysAssign; simp (config := { decide := true }) only [ite_true, ite_false]
  · rw [if_neg h]; unfold sysAssign; simp only [apply_ite SysStat.softTempLimit, ite_self, if_neg h]

theorem mem_of_lookup {β : Type} (ps : List (Bytes × β)) (K : Bytes) (v : β) (h : ps.lookup K = some v) : (K, v) ∈ ps := by
  induction ps with
  | nil => simp at h
  | cons kv rest ih =>
    obtain ⟨a, b⟩ := kv
    simp only [List.lookup] at h
    split at h
    · rename_i e
      simp only [beq_iff_eq] at e
      injection h with h; subst h e; simp
    · simp [ih h]

/-- the typed pair list the Spec builds, seen through `lookup` -/
theorem tv_lookup (o : OutOracle) (ps : List (Bytes × Bytes)) (tv : List (Bytes × Val)) (K : Bytes)
    (h : ps.mapM (fun kv => (readSysVal o kv.1 kv.2).map (fun x => (kv.1, x))) = some tv) :
    tv.lookup K = (ps.lookup K).bind (readSysVal o K) := by
  induction ps generalizing tv with
  | nil => simp at h; subst h; rfl
  | cons kv rest ih =>
    obtain ⟨a, b⟩ := kv
    rw [List.mapM_cons] at h
    cases hr : readSysVal o a b with
    | none => rw [hr] at h; simp at h
    | some x =>
      cases hm : rest.mapM (fun kv => (readSysVal o kv.1 kv.2).map (fun x => (kv.1, x))) with
      | none => rw [hr, hm] at h; simp at h
      | some tv' =>
        rw [hr, hm] at h
        simp at h
        subst h
        simp only [List.lookup]
        by_cases e : K = a
        · subst e; simp [hr]
        · have : (K == a) = false := by simpa using e
          rw [this]; exact ih tv' hm

theorem mapM_all_some (o : OutOracle) (ps : List (Bytes × Bytes)) (tv : List (Bytes × Val))
    (h : ps.mapM (fun kv => (readSysVal o kv.1 kv.2).map (fun x => (kv.1, x))) = some tv) :
    ∀ kv ∈ ps, ∃ x, readSysVal o kv.1 kv.2 = some x := by
  induction ps generalizing tv with
  | nil => intro kv hkv; simp at hkv
  | cons kv rest ih =>
    rw [List.mapM_cons] at h
    cases hr : readSysVal o kv.1 kv.2 with
    | none => rw [hr] at h; simp at h
    | some x =>
      cases hm : rest.mapM (fun kv => (readSysVal o kv.1 kv.2).map (fun x => (kv.1, x))) with
      | none => rw [hr, hm] at h; simp at h
      | some tv' =>
        intro p hp
        simp only [List.mem_cons] at hp
        rcases hp with e | e
        · subst e; exact ⟨x, hr⟩
        · exact ih tv' hm p e

/-- one entry of the record: model field value = Spec value -/
theorem entry {α : Type} (o : OutOracle) (K : Bytes) (conv : Bytes → α) (mk : α → Val) (d : α) (ps : List (Bytes × Bytes))
    (hok : ∀ kv ∈ ps, ∃ x, readSysVal o kv.1 kv.2 = some x)
    (hcl : ∀ v x, readSysVal o K v = some x → x = mk (conv v)) (hdef : sysDefault K = mk d) :
    mk (((ps.lookup K).map conv).getD d) = ((ps.lookup K).bind (readSysVal o K)).getD (sysDefault K) := by
  cases hl : ps.lookup K with
  | none => simp [hdef]
  | some v =>
    obtain ⟨x, hx⟩ := hok (K, v) (mem_of_lookup ps K v hl)
    simp only [Option.map_some, Option.getD_some, Option.bind_some]
    rw [hx, hcl v x hx]; rfl

theorem rsv_usage (o : OutOracle) (v : Bytes) (x : Val) (h : readSysVal o (asc "CPUUsage") v = some x) : x = .num (u32 (intval v) : Nat) := by
  unfold readSysVal at h
  rw [if_pos rfl] at h
  cases hr : readNum v with
  | none => rw [hr] at h; simp at h
  | some n =>
    rw [hr] at h
    obtain ⟨hn, e⟩ := readNum_some v n hr
    simp at h
    rw [← h, u32_num v hn, e]

theorem rsv_float (o : OutOracle) (K v : Bytes) (x : Val) (hK : K ∈ floatKeys) (h : readSysVal o K v = some x) : x = .opaque (o.parseF v) := by
  have hne : ∀ K' ∈ floatKeys, K' ≠ asc "CPUUsage" := by decide
  unfold readSysVal at h
  rw [if_neg (hne K hK), if_pos hK] at h
  split at h
  · injection h with h; exact h.symm
  · exact absurd h (by simp)

theorem rsv_int (o : OutOracle) (K v : Bytes) (x : Val) (hK : K ∈ intKeys) (h : readSysVal o K v = some x) : x = .num (i32 (intval v)) := by
  have := int_not_before K hK
  unfold readSysVal at h
  rw [if_neg this.1, if_neg this.2, if_pos hK] at h
  cases hr : readInt v with
  | none => rw [hr] at h; simp at h
  | some y =>
    rw [hr] at h
    simp only [] at h
    split at h
    · rename_i hy
      injection h with h
      obtain ⟨e, _, _⟩ := intval_readInt v y hr
      rw [← h, e, i32_id y hy]
    · exact absurd h (by simp)

theorem rsv_flag (o : OutOracle) (K v : Bytes) (x : Val) (hK : K ∈ flagKeys) (h : readSysVal o K v = some x) : x = .flag (eq1 v) := by
  have := flag_not_before K hK
  unfold readSysVal at h
  rw [if_neg this.1, if_neg this.2.1, if_neg this.2.2, if_pos hK] at h
  split at h
  · rename_i e; subst e; injection h with h; rw [← h]; decide
  · split at h
    · rename_i e; subst e; injection h with h; rw [← h]; decide
    · exact absurd h (by simp)

/-- **SysStat with any subset and any order of the 20 fields**: whatever record line the reader accepts, the decoder's
sliding key/value scan builds the record with exactly the values the reader assigns (absent fields zero). -/
theorem dec_sysstat (o : OutOracle) (v : Bytes) (effs : List Effect) (hfmt : ∀ p t, o.fmtF p t = t)
    (h : readSysStat o v = .grammar effs) :
    sysStatEff o (sysScan o (splitOn 58 v) {}) = effs := by
  unfold readSysStat at h
  cases hp : pairUp (splitOn 58 v) with
  | none => rw [hp] at h; simp at h
  | some ps =>
    rw [hp] at h
    simp only [] at h
    split at h
    · exact absurd h (by simp)
    · rename_i hdist
      cases hm : ps.mapM (fun kv => (readSysVal o kv.1 kv.2).map (fun x => (kv.1, x))) with
      | none => rw [hm] at h; simp at h
      | some tv =>
        rw [hm] at h
        simp only [LineClass.grammar.injEq] at h
        have hd : distinct (ps.map (·.1)) = true := by simpa using hdist
        have hok := mapM_all_some o ps tv hm
        have hvals : ∀ kv ∈ ps, kv.2.all valChar = true := fun kv hkv => by
          obtain ⟨x, hx⟩ := hok kv hkv; exact readSysVal_valChars o _ _ x hx
        have hscan : sysScan o (splitOn 58 v) {} = ps.foldl (fun st kv => sysAssign o kv.1 kv.2 st) {} := by
          rcases pairUp_some _ ps hp with e | e
          · rw [e]; have := sysScan_pairs o ps [] {} hvals (Or.inl rfl); simpa using this
          · rw [e]; exact sysScan_pairs o ps [[]] {} hvals (Or.inr rfl)
        rw [hscan, ← h]
        have f0 : (ps.foldl (fun st kv => sysAssign o kv.1 kv.2 st) {}).cpuUsage = ((ps.lookup (asc "CPUUsage")).map (fun v => u32 (intval v))).getD 0 :=
          fold_field o SysStat.cpuUsage _ _ (A_cpuUsage o) ps hd {}
        have e0 := entry o (asc "CPUUsage") (fun v => u32 (intval v)) (fun n : Nat => Val.num (n : Int)) 0 ps hok (rsv_usage o) (by decide)
        have f1 : (ps.foldl (fun st kv => sysAssign o kv.1 kv.2 st) {}).cpuTemp = ((ps.lookup (asc "CPUTemp")).map o.parseF).getD [48] :=
          fold_field o SysStat.cpuTemp _ _ (A_cpuTemp o) ps hd {}
        have e1 := entry o (asc "CPUTemp") o.parseF Val.opaque [48] ps hok (fun v x => rsv_float o (asc "CPUTemp") v x (by decide)) (by decide)
        have f2 : (ps.foldl (fun st kv => sysAssign o kv.1 kv.2 st) {}).extTemp = ((ps.lookup (asc "ExtTemp")).map o.parseF).getD [48] :=
          fold_field o SysStat.extTemp _ _ (A_extTemp o) ps hd {}
        have e2 := entry o (asc "ExtTemp") o.parseF Val.opaque [48] ps hok (fun v x => rsv_float o (asc "ExtTemp") v x (by decide)) (by decide)
        have f3 : (ps.foldl (fun st kv => sysAssign o kv.1 kv.2 st) {}).cpuVoltage = ((ps.lookup (asc "CPUVoltage")).map o.parseF).getD [48] :=
          fold_field o SysStat.cpuVoltage _ _ (A_cpuVoltage o) ps hd {}
        have e3 := entry o (asc "CPUVoltage") o.parseF Val.opaque [48] ps hok (fun v x => rsv_float o (asc "CPUVoltage") v x (by decide)) (by decide)
        have f4 : (ps.foldl (fun st kv => sysAssign o kv.1 kv.2 st) {}).cpuFreqCurrent = ((ps.lookup (asc "CPUFreqCurrent")).map (fun v => i32 (intval v))).getD 0 :=
          fold_field o SysStat.cpuFreqCurrent _ _ (A_cpuFreqCurrent o) ps hd {}
        have e4 := entry o (asc "CPUFreqCurrent") (fun v => i32 (intval v)) Val.num 0 ps hok (fun v x => rsv_int o (asc "CPUFreqCurrent") v x (by decide)) (by decide)
        have f5 : (ps.foldl (fun st kv => sysAssign o kv.1 kv.2 st) {}).cpuFreqMin = ((ps.lookup (asc "CPUFreqMin")).map (fun v => i32 (intval v))).getD 0 :=
          fold_field o SysStat.cpuFreqMin _ _ (A_cpuFreqMin o) ps hd {}
        have e5 := entry o (asc "CPUFreqMin") (fun v => i32 (intval v)) Val.num 0 ps hok (fun v x => rsv_int o (asc "CPUFreqMin") v x (by decide)) (by decide)
        have f6 : (ps.foldl (fun st kv => sysAssign o kv.1 kv.2 st) {}).cpuFreqMax = ((ps.lookup (asc "CPUFreqMax")).map (fun v => i32 (intval v))).getD 0 :=
          fold_field o SysStat.cpuFreqMax _ _ (A_cpuFreqMax o) ps hd {}
        have e6 := entry o (asc "CPUFreqMax") (fun v => i32 (intval v)) Val.num 0 ps hok (fun v x => rsv_int o (asc "CPUFreqMax") v x (by decide)) (by decide)
        have f7 : (ps.foldl (fun st kv => sysAssign o kv.1 kv.2 st) {}).memTotal = ((ps.lookup (asc "MemTotal")).map (fun v => i32 (intval v))).getD 0 :=
          fold_field o SysStat.memTotal _ _ (A_memTotal o) ps hd {}
        have e7 := entry o (asc "MemTotal") (fun v => i32 (intval v)) Val.num 0 ps hok (fun v x => rsv_int o (asc "MemTotal") v x (by decide)) (by decide)
        have f8 : (ps.foldl (fun st kv => sysAssign o kv.1 kv.2 st) {}).memFree = ((ps.lookup (asc "MemFree")).map (fun v => i32 (intval v))).getD 0 :=
          fold_field o SysStat.memFree _ _ (A_memFree o) ps hd {}
        have e8 := entry o (asc "MemFree") (fun v => i32 (intval v)) Val.num 0 ps hok (fun v x => rsv_int o (asc "MemFree") v x (by decide)) (by decide)
        have f9 : (ps.foldl (fun st kv => sysAssign o kv.1 kv.2 st) {}).memAvailable = ((ps.lookup (asc "MemAvailable")).map (fun v => i32 (intval v))).getD 0 :=
          fold_field o SysStat.memAvailable _ _ (A_memAvailable o) ps hd {}
        have e9 := entry o (asc "MemAvailable") (fun v => i32 (intval v)) Val.num 0 ps hok (fun v x => rsv_int o (asc "MemAvailable") v x (by decide)) (by decide)
        have f10 : (ps.foldl (fun st kv => sysAssign o kv.1 kv.2 st) {}).memBuffers = ((ps.lookup (asc "MemBuffers")).map (fun v => i32 (intval v))).getD 0 :=
          fold_field o SysStat.memBuffers _ _ (A_memBuffers o) ps hd {}
        have e10 := entry o (asc "MemBuffers") (fun v => i32 (intval v)) Val.num 0 ps hok (fun v x => rsv_int o (asc "MemBuffers") v x (by decide)) (by decide)
        have f11 : (ps.foldl (fun st kv => sysAssign o kv.1 kv.2 st) {}).memCached = ((ps.lookup (asc "MemCached")).map (fun v => i32 (intval v))).getD 0 :=
          fold_field o SysStat.memCached _ _ (A_memCached o) ps hd {}
        have e11 := entry o (asc "MemCached") (fun v => i32 (intval v)) Val.num 0 ps hok (fun v x => rsv_int o (asc "MemCached") v x (by decide)) (by decide)
        have f12 : (ps.foldl (fun st kv => sysAssign o kv.1 kv.2 st) {}).underVoltageNow = ((ps.lookup (asc "UnderVoltageNow")).map eq1).getD false :=
          fold_field o SysStat.underVoltageNow _ _ (A_underVoltageNow o) ps hd {}
        have e12 := entry o (asc "UnderVoltageNow") eq1 Val.flag false ps hok (fun v x => rsv_flag o (asc "UnderVoltageNow") v x (by decide)) (by decide)
        have f13 : (ps.foldl (fun st kv => sysAssign o kv.1 kv.2 st) {}).underVoltage = ((ps.lookup (asc "UnderVoltage")).map eq1).getD false :=
          fold_field o SysStat.underVoltage _ _ (A_underVoltage o) ps hd {}
        have e13 := entry o (asc "UnderVoltage") eq1 Val.flag false ps hok (fun v x => rsv_flag o (asc "UnderVoltage") v x (by decide)) (by decide)
        have f14 : (ps.foldl (fun st kv => sysAssign o kv.1 kv.2 st) {}).freqCapNow = ((ps.lookup (asc "FreqCapNow")).map eq1).getD false :=
          fold_field o SysStat.freqCapNow _ _ (A_freqCapNow o) ps hd {}
        have e14 := entry o (asc "FreqCapNow") eq1 Val.flag false ps hok (fun v x => rsv_flag o (asc "FreqCapNow") v x (by decide)) (by decide)
        have f15 : (ps.foldl (fun st kv => sysAssign o kv.1 kv.2 st) {}).freqCap = ((ps.lookup (asc "FreqCap")).map eq1).getD false :=
          fold_field o SysStat.freqCap _ _ (A_freqCap o) ps hd {}
        have e15 := entry o (asc "FreqCap") eq1 Val.flag false ps hok (fun v x => rsv_flag o (asc "FreqCap") v x (by decide)) (by decide)
        have f16 : (ps.foldl (fun st kv => sysAssign o kv.1 kv.2 st) {}).throttledNow = ((ps.lookup (asc "ThrottledNow")).map eq1).getD false :=
          fold_field o SysStat.throttledNow _ _ (A_throttledNow o) ps hd {}
        have e16 := entry o (asc "ThrottledNow") eq1 Val.flag false ps hok (fun v x => rsv_flag o (asc "ThrottledNow") v x (by decide)) (by decide)
        have f17 : (ps.foldl (fun st kv => sysAssign o kv.1 kv.2 st) {}).throttled = ((ps.lookup (asc "Throttled")).map eq1).getD false :=
          fold_field o SysStat.throttled _ _ (A_throttled o) ps hd {}
        have e17 := entry o (asc "Throttled") eq1 Val.flag false ps hok (fun v x => rsv_flag o (asc "Throttled") v x (by decide)) (by decide)
        have f18 : (ps.foldl (fun st kv => sysAssign o kv.1 kv.2 st) {}).softTempLimitNow = ((ps.lookup (asc "SoftTempLimitNow")).map eq1).getD false :=
          fold_field o SysStat.softTempLimitNow _ _ (A_softTempLimitNow o) ps hd {}
        have e18 := entry o (asc "SoftTempLimitNow") eq1 Val.flag false ps hok (fun v x => rsv_flag o (asc "SoftTempLimitNow") v x (by decide)) (by decide)
        have f19 : (ps.foldl (fun st kv => sysAssign o kv.1 kv.2 st) {}).softTempLimit = ((ps.lookup (asc "SoftTempLimit")).map eq1).getD false :=
          fold_field o SysStat.softTempLimit _ _ (A_softTempLimit o) ps hd {}
        have e19 := entry o (asc "SoftTempLimit") eq1 Val.flag false ps hok (fun v x => rsv_flag o (asc "SoftTempLimit") v x (by decide)) (by decide)
        unfold sysStatEff
        simp only [sysKeys, List.map_cons, List.map_nil, hfmt, tv_lookup o ps tv _ hm]
        rw [f0, f1, f2, f3, f4, f5, f6, f7, f8, f9, f10, f11, f12, f13, f14, f15, f16, f17, f18, f19]
        rw [e0, e1, e2, e3, e4, e5, e6, e7, e8, e9, e10, e11, e12, e13, e14, e15, e16, e17, e18, e19]

end RawPanelVerif.OutLemmas
