import RawPanelVerif.Lemmas.OutDecKind
/-! Registers, fall-through and the assembled line theorem for `decOut_sound` / `nongrammar_silent` (C04). -/
namespace RawPanelVerif.OutLemmas
open RawPanelVerif RawPanelVerif.Bytes RawPanelVerif.MsgOut RawPanelVerif.EncOut RawPanelVerif.DecOut
open RawPanelVerif.Spec.Out

/-! ### registers -/

theorem upper_eq : Spec.Out.isUpperDigit = DecOut.isUpperDigit := rfl

theorem readRegister_word' (w id v : Bytes)
    (hw : w = asc "Mem" ∨ w = asc "Shift" ∨ w = asc "State") (hid : id.all Spec.Out.isUpperDigit = true) :
    readRegister (w ++ id ++ 61 :: v) = some (ofNum v (fun n => [.reg w id n])) := by
  unfold readRegister
  have hf : dropPrefix (asc "Flag#") (w ++ id ++ 61 :: v) = none := by
    rw [asc_Flag]
    rcases hw with h | h | h <;> subst h
    · rw [asc_Mem]; simp [dropPrefix]
    · rw [asc_Shift]; simp [dropPrefix]
    · rw [asc_State]; simp [dropPrefix]
  rw [hf]
  simp only []
  unfold regWordsSpec
  rcases hw with h | h | h <;> subst h
  · rw [List.findSome?_cons, List.append_assoc, dropPrefix_append]
    simp only []
    rw [regShape_line id _ hid]
    rfl
  · have hm : dropPrefix (asc "Mem") (asc "Shift" ++ id ++ 61 :: v) = none := by
      rw [asc_Mem, asc_Shift]; simp [dropPrefix]
    rw [List.findSome?_cons, hm]
    simp only []
    rw [List.findSome?_cons, List.append_assoc, dropPrefix_append]
    simp only []
    rw [regShape_line id _ hid]
    rfl
  · have hm : dropPrefix (asc "Mem") (asc "State" ++ id ++ 61 :: v) = none := by
      rw [asc_Mem, asc_State]; simp [dropPrefix]
    have hs : dropPrefix (asc "Shift") (asc "State" ++ id ++ 61 :: v) = none := by
      rw [asc_Shift, asc_State]; simp [dropPrefix]
    rw [List.findSome?_cons, hm]
    simp only []
    rw [List.findSome?_cons, hs]
    simp only []
    rw [List.findSome?_cons, List.append_assoc, dropPrefix_append]
    simp only []
    rw [regShape_line id _ hid]
    rfl

theorem readRegister_flag' (id v : Bytes) (hid : id.all Spec.Out.isUpperDigit = true) :
    readRegister (asc "Flag#" ++ id ++ 61 :: v) =
      some (if id.all isDigit ∧ natOfDigits id ≤ u32Max then
              ofNum v (fun n => [.reg (asc "Flag") (digitsOf (natOfDigits id)) (if n > 0 then 1 else 0)])
            else .outside) := by
  unfold readRegister
  rw [List.append_assoc, dropPrefix_append]
  simp only []
  rw [regShape_line id _ hid]
  rfl

/-- shape of a line `readRegister` accepts or rejects (anything but "not a register line") -/
theorem readRegister_some (l : Bytes) (c : LineClass) (h : readRegister l = some c) :
    ∃ w id v, l = w ++ id ++ 61 :: v ∧ (w = asc "Mem" ∨ w = asc "Shift" ∨ w = asc "State" ∨ w = asc "Flag#") ∧
      id.all Spec.Out.isUpperDigit = true := by
  have shape : ∀ after iv, regShape after = some iv → after = iv.1 ++ 61 :: iv.2 ∧ iv.1.all Spec.Out.isUpperDigit = true := by
    intro after iv hs
    unfold regShape at hs
    cases hsf : splitFirst 61 after with
    | none => rw [hsf] at hs; simp at hs
    | some p =>
      rw [hsf] at hs
      simp only [] at hs
      split at hs
      · rename_i hall
        injection hs with hs; subst hs
        exact ⟨(splitFirst_some 61 after p.1 p.2 hsf).1, hall⟩
      · exact absurd hs (by simp)
  unfold readRegister at h
  cases hd : dropPrefix (asc "Flag#") l with
  | some after =>
    rw [hd] at h
    simp only [] at h
    cases hs : regShape after with
    | none => rw [hs] at h; simp at h
    | some iv =>
      obtain ⟨e, hall⟩ := shape after iv hs
      refine ⟨asc "Flag#", iv.1, iv.2, ?_, Or.inr (Or.inr (Or.inr rfl)), hall⟩
      rw [dropPrefix_some _ _ _ hd, e, List.append_assoc]
  | none =>
    rw [hd] at h
    simp only [] at h
    obtain ⟨w, hw, hf⟩ := List.exists_of_findSome?_eq_some h
    cases hdw : dropPrefix w l with
    | none => rw [hdw] at hf; simp at hf
    | some after =>
      rw [hdw] at hf
      simp only [] at hf
      cases hs : regShape after with
      | none => rw [hs] at hf; simp at hf
      | some iv =>
        obtain ⟨e, hall⟩ := shape after iv hs
        refine ⟨w, iv.1, iv.2, ?_, ?_, hall⟩
        · rw [dropPrefix_some _ _ _ hdw, e, List.append_assoc]
        · simp only [regWordsSpec, List.mem_cons, List.not_mem_nil, or_false] at hw
          rcases hw with e | e | e
          · exact Or.inl e
          · exact Or.inr (Or.inl e)
          · exact Or.inr (Or.inr (Or.inl e))

/-- the model's register matcher on a well-formed register line -/
theorem matchReg_line (w id v : Bytes)
    (hw : w = asc "Mem" ∨ w = asc "Shift" ∨ w = asc "State" ∨ w = asc "Flag#")
    (hid : id.all DecOut.isUpperDigit = true) (hv : v ≠ []) (hvd : v.all isDigit = true) :
    matchReg (w ++ id ++ 61 :: v) = some (w, id, v) := by
  have hsp : spanP DecOut.isUpperDigit (id ++ 61 :: v) = (id, 61 :: v) :=
    spanP_append _ id (61 :: v) (by rw [List.all_eq_true] at hid; exact hid)
      (by intro c cs e; injection e with e _; subst e; decide)
  have hit : ∀ w' : Bytes, matchRegWord w' (w' ++ (id ++ 61 :: v)) = some (w', id, v) := by
    intro w'
    unfold matchRegWord
    rw [stripPrefix_append]
    simp only [hsp]
    rw [if_pos ⟨hv, hvd⟩]
  have miss : ∀ w' l : Bytes, stripPrefix w' l = none → matchRegWord w' l = none := by
    intro w' l h; unfold matchRegWord; rw [h]
  unfold matchReg regWords
  rcases hw with h | h | h | h <;> subst h
  · have h1 : stripPrefix (asc "Flag#") (asc "Mem" ++ id ++ 61 :: v) = none := by rw [asc_Flag, asc_Mem]; simp [stripPrefix]
    rw [List.findSome?_cons, miss _ _ h1]
    simp only []
    rw [List.findSome?_cons, List.append_assoc]
    rw [hit]
  · have h1 : stripPrefix (asc "Flag#") (asc "Shift" ++ id ++ 61 :: v) = none := by rw [asc_Flag, asc_Shift]; simp [stripPrefix]
    have h2 : stripPrefix (asc "Mem") (asc "Shift" ++ id ++ 61 :: v) = none := by rw [asc_Mem, asc_Shift]; simp [stripPrefix]
    rw [List.findSome?_cons, miss _ _ h1]
    simp only []
    rw [List.findSome?_cons, miss _ _ h2]
    simp only []
    rw [List.findSome?_cons, List.append_assoc]
    rw [hit]
  · have h1 : stripPrefix (asc "Flag#") (asc "State" ++ id ++ 61 :: v) = none := by rw [asc_Flag, asc_State]; simp [stripPrefix]
    have h2 : stripPrefix (asc "Mem") (asc "State" ++ id ++ 61 :: v) = none := by rw [asc_Mem, asc_State]; simp [stripPrefix]
    have h3 : stripPrefix (asc "Shift") (asc "State" ++ id ++ 61 :: v) = none := by rw [asc_Shift, asc_State]; simp [stripPrefix]
    rw [List.findSome?_cons, miss _ _ h1]
    simp only []
    rw [List.findSome?_cons, miss _ _ h2]
    simp only []
    rw [List.findSome?_cons, miss _ _ h3]
    simp only []
    rw [List.findSome?_cons, List.append_assoc]
    rw [hit]
  · rw [List.findSome?_cons, List.append_assoc]
    rw [hit]

theorem eff_regs (o : OutOracle) (rs : List Register) : effectsOfOut o { registers := rs } = rs.flatMap regEff := by
  unfold effectsOfOut
  simp only [flowEff0, optEff, List.flatMap_nil, List.append_nil, List.nil_append, List.map_nil]

theorem regKey_not_generic (w id : Bytes) (hw : w = asc "Mem" ∨ w = asc "Shift" ∨ w = asc "State" ∨ w = asc "Flag#") :
    w ++ id ∉ infoKeys := by
  intro hk
  have h4 := infoKeys_not_reg _ hk
  have := isPrefixOf_append w id
  rcases hw with h | h | h | h <;> subst h
  · rw [h4.1] at this; exact absurd this (by decide)
  · rw [h4.2.1] at this; exact absurd this (by decide)
  · rw [h4.2.2.1] at this; exact absurd this (by decide)
  · rw [h4.2.2.2] at this; exact absurd this (by decide)

theorem reg_no_eq (w id : Bytes) (hw : w = asc "Mem" ∨ w = asc "Shift" ∨ w = asc "State" ∨ w = asc "Flag#")
    (hid : id.all Spec.Out.isUpperDigit = true) : (61 : UInt8) ∉ w ++ id := by
  intro h; simp only [List.mem_append] at h
  rcases h with h | h
  · rcases hw with e | e | e | e <;> subst e <;> exact absurd h (by decide)
  · exact upperDigit_not 61 (by decide) id hid h

/-- before the register regex: nothing else matches a register-shaped line -/
theorem decLine_reg (o : OutOracle) (w id v : Bytes) (hw : w = asc "Mem" ∨ w = asc "Shift" ∨ w = asc "State" ∨ w = asc "Flag#")
    (hid : id.all Spec.Out.isUpperDigit = true) :
    decLine repaired o (w ++ id ++ 61 :: v) =
      (match matchReg (w ++ id ++ 61 :: v) with | some (w', i, v') => decReg w' i v' | none => some {}) := by
  have h1 : dropPrefix (asc "HWC#") (w ++ id ++ 61 :: v) = none := by
    rw [asc_HWC]
    rcases hw with h | h | h | h <;> subst h
    · rw [asc_Mem]; simp [dropPrefix]
    · rw [asc_Shift]; simp [dropPrefix]
    · rw [asc_State]; simp [dropPrefix]
    · rw [asc_Flag]; simp [dropPrefix]
  have h2 : dropPrefix (asc "map=") (w ++ id ++ 61 :: v) = none := by
    rw [asc_map]
    rcases hw with h | h | h | h <;> subst h
    · rw [asc_Mem]; simp [dropPrefix]
    · rw [asc_Shift]; simp [dropPrefix]
    · rw [asc_State]; simp [dropPrefix]
    · rw [asc_Flag]; simp [dropPrefix]
  have hg : matchGeneric (w ++ id ++ 61 :: v) = none := by
    cases hm : matchGeneric (w ++ id ++ 61 :: v) with
    | none => rfl
    | some kv =>
      obtain ⟨k', v'⟩ := kv
      obtain ⟨e, hk', _, _⟩ := matchGeneric_none_of _ k' v' hm
      have := append_sep_inj 61 (w ++ id) v k' v' (reg_no_eq w id hw hid) (genericKeys_no_eq k' hk') e
      exact absurd (this.1 ▸ generic_iff_info.1 k' hk') (regKey_not_generic w id hw)
  have hne : w ++ id ++ 61 :: v ≠ [] := by simp
  unfold decLine
  rw [if_neg hne, flowOfWord_none _ (not_flow_of_eq _ (by simp))]
  simp only []
  rw [matchCmd_not_hwc _ _ h1]
  simp only []
  rw [matchMap_not_map _ h2]
  simp only []
  rw [hg]
  simp only []
  cases matchReg (w ++ id ++ 61 :: v) with
  | none => rfl
  | some t => obtain ⟨a, b, c⟩ := t; rfl

theorem decLine_reg' (o : OutOracle) (w id v : Bytes) (hw : w = asc "Mem" ∨ w = asc "Shift" ∨ w = asc "State" ∨ w = asc "Flag#")
    (hid : id.all Spec.Out.isUpperDigit = true) (hn : IsNum v) :
    decLine repaired o (w ++ id ++ 61 :: v) = decReg w id v := by
  rw [decLine_reg o w id v hw hid, matchReg_line w id v hw (by rw [← upper_eq]; exact hid) hn.1 hn.2.1]

theorem D_reg (o : OutOracle) (w id v : Bytes) (m : OutMsg) (hw : w = asc "Mem" ∨ w = asc "Shift" ∨ w = asc "State" ∨ w = asc "Flag#")
    (hid : id.all Spec.Out.isUpperDigit = true) (hn : IsNum v) (hm : decReg w id v = some m) :
    D o (w ++ id ++ 61 :: v) = effectsOfOut o m := by
  apply D_some; rw [decLine_reg' o w id v hw hid hn, hm]

/-- register lines: whatever the reader accepts, the decoder decodes to the same register report -/
theorem dec_reg (o : OutOracle) (l : Bytes) (effs : List Effect) (h : readRegister l = some (.grammar effs)) : D o l = effs := by
  obtain ⟨w, id, v, e, hw, hid⟩ := readRegister_some l _ h
  subst e
  have hidm : id.all DecOut.isUpperDigit = true := by rw [← upper_eq]; exact hid
  rcases hw with hw | hw | hw | hw
  · -- Mem
    rw [readRegister_word' w id v (Or.inl hw) hid] at h
    injection h with h
    obtain ⟨hn, ee⟩ := ofNum_grammar v _ effs h
    subst hw
    have : decReg (asc "Mem") id v = some { registers := [⟨0, id, u32 (intval v)⟩] } := by
      unfold decReg; rw [if_pos rfl]
    rw [D_reg o _ id v _ (Or.inl rfl) hid hn this, eff_regs, u32_num v hn, ee]
    simp [regEff]
  · rw [readRegister_word' w id v (Or.inr (Or.inl hw)) hid] at h
    injection h with h
    obtain ⟨hn, ee⟩ := ofNum_grammar v _ effs h
    subst hw
    have : decReg (asc "Shift") id v = some { registers := [⟨2, id, u32 (intval v)⟩] } := by
      unfold decReg; rw [if_neg (by decide), if_neg (by decide)]; first | exact if_pos rfl | exact if_pos trivial
    rw [D_reg o _ id v _ (Or.inr (Or.inl rfl)) hid hn this, eff_regs, u32_num v hn, ee]
    simp [regEff]
  · rw [readRegister_word' w id v (Or.inr (Or.inr hw)) hid] at h
    injection h with h
    obtain ⟨hn, ee⟩ := ofNum_grammar v _ effs h
    subst hw
    have : decReg (asc "State") id v = some { registers := [⟨3, id, u32 (intval v)⟩] } := by
      unfold decReg; rw [if_neg (by decide), if_neg (by decide), if_neg (by decide)]; first | exact if_pos rfl | exact if_pos trivial
    rw [D_reg o _ id v _ (Or.inr (Or.inr (Or.inl rfl))) hid hn this, eff_regs, u32_num v hn, ee]
    simp [regEff]
  · subst hw
    rw [readRegister_flag' id v hid] at h
    injection h with h
    split at h
    · rename_i hc
      obtain ⟨hn, ee⟩ := ofNum_grammar v _ effs h
      have : decReg (asc "Flag#") id v = some { registers := [⟨1, itoa (intval id), if intval v > 0 then 1 else 0⟩] } := by
        unfold decReg; rw [if_neg (by decide)]; first | exact if_pos rfl | exact if_pos trivial
      rw [D_reg o _ id v _ (Or.inr (Or.inr (Or.inr rfl))) hid hn this, eff_regs, ee]
      have hidn : natOfDigits (itoa (intval id)) = natOfDigits id := by
        by_cases hz : id = []
        · subst hz; decide
        · rw [intval_num id ⟨hz, hc.1, hc.2⟩, itoa_natCast, natOfDigits_digitsOf]
      have hvn : (intval v > 0) ↔ natOfDigits v > 0 := by rw [intval_num v hn]; omega
      by_cases hp : natOfDigits v > 0
      · simp [regEff, hidn, hvn.2 hp, hp]
      · have : ¬ intval v > 0 := fun x => hp (hvn.1 x)
        simp [regEff, hidn, this, hp]
    · exact absurd h (by simp)

theorem D_none (o : OutOracle) (l : Bytes) (h : decLine repaired o l = none) : D o l = [] := by
  unfold D; rw [h]; rfl

/-- a line the reader classifies as non-grammar at its very end: no regex of the decoder matches -/
theorem dec_fallthrough (o : OutOracle) (l : Bytes) (hflow : l ∉ flowWords)
    (h1 : dropPrefix (asc "HWC#") l = none) (h2 : dropPrefix (asc "map=") l = none)
    (hkv : ∀ key v, splitFirst 61 l = some (key, v) → key ∉ infoKeys) (hreg : readRegister l = none) : D o l = [] := by
  by_cases hl : l = []
  · subst hl; exact D_none o [] rfl
  have hg : matchGeneric l = none := by
    cases hm : matchGeneric l with
    | none => rfl
    | some kv =>
      obtain ⟨k', v'⟩ := kv
      obtain ⟨e, hk', _, _⟩ := matchGeneric_none_of _ k' v' hm
      have := hkv k' v' (by rw [e]; exact splitFirst_append 61 k' v' (genericKeys_no_eq k' hk'))
      exact absurd (generic_iff_info.1 k' hk') this
  have hr : matchReg l = none := by
    cases hm : matchReg l with
    | none => rfl
    | some t =>
      obtain ⟨w, i, v'⟩ := t
      obtain ⟨e, hw, hi, _, _⟩ := matchReg_some _ w i v' hm
      have his : i.all Spec.Out.isUpperDigit = true := by rw [upper_eq]; exact hi
      simp only [regWords, List.mem_cons, List.not_mem_nil, or_false] at hw
      rw [e] at hreg
      rcases hw with hw | hw | hw | hw <;> subst hw
      · rw [readRegister_flag' i v' his] at hreg; exact absurd hreg (by simp)
      · rw [readRegister_word' _ i v' (Or.inl rfl) his] at hreg; exact absurd hreg (by simp)
      · rw [readRegister_word' _ i v' (Or.inr (Or.inl rfl)) his] at hreg; exact absurd hreg (by simp)
      · rw [readRegister_word' _ i v' (Or.inr (Or.inr rfl)) his] at hreg; exact absurd hreg (by simp)
  rw [D_some o l {} (by
    unfold decLine
    rw [if_neg hl, flowOfWord_none l hflow]
    simp only []
    rw [matchCmd_not_hwc _ _ h1]
    simp only []
    rw [matchMap_not_map _ h2]
    simp only []
    rw [hg]
    simp only []
    rw [hr]), eff_empty]

theorem splitFirst_mem (l : Bytes) (h : (61 : UInt8) ∈ l) : splitFirst 61 l ≠ none := by
  induction l with
  | nil => simp at h
  | cons c cs ih =>
    simp only [splitFirst]
    by_cases hc : c = 61
    · simp [hc]
    · simp only [hc, if_false]
      simp only [List.mem_cons] at h
      rcases h with h | h
      · exact absurd h.symm hc
      · cases hs : splitFirst 61 cs with
        | none => exact absurd hs (ih h)
        | some p => simp

/-- **One line**: for every byte string the reader does not put outside the domain (well-formed or non-grammar), the
effects of what the decoder returns are exactly the effects the reader assigns -/
theorem dec_line_sound (o : OutOracle) (l : Bytes) (hfmt : ∀ p t, o.fmtF p t = t) (h : readLine o l ≠ .outside) :
    D o l = (readLine o l).effects := by
  generalize hc : readLine o l = c at h ⊢
  unfold readLine at hc
  by_cases h10 : l.contains 10 = true
  · rw [if_pos h10] at hc; exact absurd hc.symm h
  rw [if_neg h10] at hc
  have h10' : (10 : UInt8) ∉ l := by simpa using h10
  by_cases hflow : l ∈ flowWords
  · rw [if_pos hflow] at hc; rw [← hc]; exact dec_flow o l hflow
  rw [if_neg hflow] at hc
  cases h1 : dropPrefix (asc "HWC#") l with
  | some rest =>
    try rw [h1] at hc
    simp only [] at hc
    have e := dropPrefix_some _ _ _ h1
    subst e
    cases c with
    | grammar effs => exact dec_event o rest effs hc
    | nonGrammar => exact (dec_unknown_kind o rest hc).2
    | outside => exact absurd rfl h
  | none =>
    try rw [h1] at hc
    simp only [] at hc
    cases h2 : dropPrefix (asc "map=") l with
    | some rest =>
      try rw [h2] at hc
      simp only [] at hc
      have e := dropPrefix_some _ _ _ h2
      subst e
      cases c with
      | grammar effs => exact dec_map o rest effs hc
      | nonGrammar => exact absurd hc (readMap_not_ng rest)
      | outside => exact absurd rfl h
    | none =>
      try rw [h2] at hc
      simp only [] at hc
      cases hs : splitFirst 61 l with
      | some kv =>
        obtain ⟨key, v⟩ := kv
        try rw [hs] at hc
        simp only [] at hc
        obtain ⟨e, hne⟩ := splitFirst_some 61 l key v hs
        by_cases hk : key ∈ infoKeys
        · rw [if_pos hk] at hc
          simp only [] at hc
          subst e
          by_cases hv : v = []
          · subst hv
            rw [if_pos rfl] at hc
            rw [← hc, D_some o _ {} (decLine_kv_empty o key hk), eff_empty]; rfl
          · rw [if_neg hv] at hc
            have hv10 : (10 : UInt8) ∉ v := fun m => h10' (by simp [m])
            cases c with
            | grammar effs =>
              have := dec_info o key v effs hfmt hv hc
              unfold D; rw [decLine_kv o key v hk hv hv10]; exact this
            | nonGrammar => exact absurd hc (readInfo_not_ng o key v)
            | outside => exact absurd rfl h
        · rw [if_neg hk] at hc
          simp only [] at hc
          cases hr : readRegister l with
          | some c' =>
            try rw [hr] at hc
            simp only [] at hc
            subst hc
            cases c' with
            | grammar effs => exact dec_reg o l effs hr
            | nonGrammar =>
              obtain ⟨w, id, v', e', hw, hid⟩ := readRegister_some l _ hr
              rw [e'] at hr
              rcases hw with hw | hw | hw | hw <;> subst hw
              · rw [readRegister_word' _ id v' (Or.inl rfl) hid] at hr; injection hr with hr; exact absurd hr (ofNum_not_ng _ _)
              · rw [readRegister_word' _ id v' (Or.inr (Or.inl rfl)) hid] at hr; injection hr with hr; exact absurd hr (ofNum_not_ng _ _)
              · rw [readRegister_word' _ id v' (Or.inr (Or.inr rfl)) hid] at hr; injection hr with hr; exact absurd hr (ofNum_not_ng _ _)
              · rw [readRegister_flag' id v' hid] at hr; injection hr with hr
                split at hr
                · exact absurd hr (ofNum_not_ng _ _)
                · exact absurd hr (by simp)
            | outside => exact absurd rfl h
          | none =>
            try rw [hr] at hc
            simp only [] at hc
            rw [← hc]
            exact dec_fallthrough o l hflow h1 h2 (fun k' v'' hs' => by rw [hs] at hs'; injection hs' with hs'; injection hs' with e1 _; subst e1; exact hk) hr
      | none =>
        try rw [hs] at hc
        simp only [] at hc
        cases hr : readRegister l with
        | some c' =>
          obtain ⟨w, id, v', e', _, _⟩ := readRegister_some l _ hr
          exact absurd hs (splitFirst_mem l (by rw [e']; simp))
        | none =>
          try rw [hr] at hc
          simp only [] at hc
          rw [← hc]
          exact dec_fallthrough o l hflow h1 h2 (fun k' v'' hs' => by rw [hs] at hs'; simp at hs') hr

end RawPanelVerif.OutLemmas
