import RawPanelVerif.Model.Gorwp
/-!
Helper lemmas for C19 (b): the LTS of reader, dispatcher and writer around the two bounded queues
(`Model/Gorwp.lean`): one inversion lemma per label, the inductive invariants, a progress measure and the
machinery for infinite fair runs.
-/
namespace RawPanelVerif.GorwpLts
open RawPanelVerif.Gorwp

variable {c : Caps} {strict dec : Bool} {s s' : QSt}

/-! ## inversion lemmas -/

theorem step_reader (h : qstep c strict dec s .readerFrame = some s') :
    s.readerRunning = true ∧ ∃ f rest, s.stream = f :: rest ∧
      ((∃ id k, f = .valid id k ∧ s.fromPanel.length < c.fromPanel
          ∧ s' = { s with stream := rest, fromPanel := s.fromPanel ++ [(id, k)] })
      ∨ ((f = .skipped ∨ (f = .overLimit ∧ strict = false)) ∧ s' = { s with stream := rest })
      ∨ ((f = .truncated ∨ (f = .overLimit ∧ strict = true)) ∧ s' = { s with stream := rest, readerRunning := false })) := by
  simp only [qstep] at h
  split at h
  · rename_i hr
    refine ⟨hr, ?_⟩
    split at h
    · cases h
    · rename_i id k rest hst
      split at h
      · rename_i hlen
        exact ⟨_, _, hst, Or.inl ⟨id, k, rfl, hlen, (Option.some.inj h).symm⟩⟩
      · cases h
    · rename_i rest hst
      exact ⟨_, _, hst, Or.inr (Or.inl ⟨Or.inl rfl, (Option.some.inj h).symm⟩)⟩
    · rename_i rest hst
      split at h
      · rename_i hs
        exact ⟨_, _, hst, Or.inr (Or.inr ⟨Or.inr ⟨rfl, hs⟩, (Option.some.inj h).symm⟩)⟩
      · rename_i hs
        exact ⟨_, _, hst, Or.inr (Or.inl ⟨Or.inr ⟨rfl, by simpa using hs⟩, (Option.some.inj h).symm⟩)⟩
    · rename_i rest hst
      exact ⟨_, _, hst, Or.inr (Or.inr ⟨Or.inl rfl, (Option.some.inj h).symm⟩)⟩
  · cases h

theorem step_take (h : qstep c strict dec s .loopTakeFrom = some s') :
    s.loop = .idle ∧ ∃ id k rest, s.fromPanel = (id, k) :: rest
      ∧ s' = { s with fromPanel := rest, dispatched := s.dispatched ++ [id], loop := if k = 0 then .idle else .sending k } := by
  simp only [qstep] at h
  split at h
  · rename_i hl
    split at h
    · rename_i id k rest hfp
      exact ⟨hl, id, k, rest, hfp, (Option.some.inj h).symm⟩
    · cases h
  · cases h

theorem step_send (h : qstep c strict dec s .loopSend = some s') :
    ∃ r, s.loop = .sending (r + 1) ∧ s.toPanel < c.toPanel
      ∧ s' = { s with toPanel := s.toPanel + 1, loop := if r = 0 then .idle else .sending r } := by
  simp only [qstep] at h
  split at h
  · rename_i r hl
    split at h
    · rename_i hc
      exact ⟨r, hl, hc, (Option.some.inj h).symm⟩
    · cases h
  · cases h

theorem step_loopDrain (h : qstep c strict dec s .loopDrain = some s') :
    dec = false ∧ s.loop = .idle ∧ s.toPanel > 0 ∧ s' = { s with toPanel := s.toPanel - 1, written := s.written + 1 } := by
  simp only [qstep] at h
  split at h
  · cases h
  · rename_i hd
    split at h
    · rename_i hc
      exact ⟨by simpa using hd, hc.1, hc.2, (Option.some.inj h).symm⟩
    · cases h

theorem step_tick (h : qstep c strict dec s .tick = some s') :
    (dec = true ∧ s' = { s with toPanel := if s.toPanel < c.toPanel then s.toPanel + 1 else s.toPanel })
    ∨ (dec = false ∧ s.loop = .idle ∧ s' = { s with loop := .sending 1 }) := by
  simp only [qstep] at h
  split at h
  · rename_i hd
    exact Or.inl ⟨hd, (Option.some.inj h).symm⟩
  · rename_i hd
    split at h
    · rename_i hl
      exact Or.inr ⟨by simpa using hd, hl, (Option.some.inj h).symm⟩
    · cases h

theorem step_writerDrain (h : qstep c strict dec s .writerDrain = some s') :
    dec = true ∧ s.toPanel > 0 ∧ s' = { s with toPanel := s.toPanel - 1, written := s.written + 1 } := by
  simp only [qstep] at h
  split at h
  · rename_i hc
    exact ⟨hc.1, hc.2, (Option.some.inj h).symm⟩
  · cases h

/-! ## invariants -/

/-- what has been dispatched, what is queued and what the reader may still accept are together exactly the forwarded
messages before the first broken frame -/
def QInv (stream0 : List Frame) (s : QSt) : Prop :=
  s.dispatched ++ s.fromPanel.map (·.1) ++ (if s.readerRunning then goodPrefix s.stream else []) = goodPrefix stream0

theorem qinv_init (stream0 : List Frame) : QInv stream0 (qinit stream0) := by simp [QInv, qinit]

theorem qinv_step {stream0 : List Frame} {l : QLbl} (hi : QInv stream0 s)
    (hs : qstep c true dec s l = some s') : QInv stream0 s' := by
  unfold QInv at *
  cases l with
  | readerFrame =>
    obtain ⟨hr, f, rest, hst, h | h | h⟩ := step_reader hs
    · obtain ⟨id, k, rfl, _, rfl⟩ := h
      simp [hr, hst, goodPrefix] at hi ⊢; exact hi
    · obtain ⟨hf, rfl⟩ := h
      rcases hf with rfl | ⟨_, hstrict⟩
      · simp [hr, hst, goodPrefix] at hi ⊢; exact hi
      · cases hstrict
    · obtain ⟨hf, rfl⟩ := h
      rcases hf with rfl | ⟨rfl, _⟩ <;> (simp [hr, hst, goodPrefix] at hi ⊢; exact hi)
  | loopTakeFrom =>
    obtain ⟨_, id, k, rest, hfp, rfl⟩ := step_take hs
    simp [hfp] at hi ⊢; exact hi
  | loopSend => obtain ⟨r, _, _, rfl⟩ := step_send hs; exact hi
  | loopDrain => obtain ⟨_, _, _, rfl⟩ := step_loopDrain hs; exact hi
  | tick => rcases step_tick hs with ⟨_, rfl⟩ | ⟨_, _, rfl⟩ <;> exact hi
  | writerDrain => obtain ⟨_, _, rfl⟩ := step_writerDrain hs; exact hi

theorem qinv_reachable {stream0 : List Frame} (h : QReachable c true dec stream0 s) : QInv stream0 s := by
  induction h with
  | init => exact qinv_init stream0
  | step l _ hs ih => exact qinv_step ih hs

/-- the dispatcher is never "sending" with nothing left to send -/
def QInv2 (s : QSt) : Prop := s.loop ≠ .sending 0

theorem qinv2_step {l : QLbl} (hi : QInv2 s) (hs : qstep c strict dec s l = some s') : QInv2 s' := by
  unfold QInv2 at *
  cases l with
  | readerFrame =>
    obtain ⟨_, f, rest, _, h | h | h⟩ := step_reader hs
    · obtain ⟨id, k, _, _, rfl⟩ := h; exact hi
    · obtain ⟨_, rfl⟩ := h; exact hi
    · obtain ⟨_, rfl⟩ := h; exact hi
  | loopTakeFrom =>
    obtain ⟨_, id, k, rest, _, rfl⟩ := step_take hs
    by_cases hk : k = 0 <;> simp [hk]
  | loopSend =>
    obtain ⟨r, _, _, rfl⟩ := step_send hs
    by_cases hr : r = 0 <;> simp [hr]
  | loopDrain => obtain ⟨_, _, _, rfl⟩ := step_loopDrain hs; exact hi
  | tick => rcases step_tick hs with ⟨_, rfl⟩ | ⟨_, _, rfl⟩ <;> simp_all
  | writerDrain => obtain ⟨_, _, rfl⟩ := step_writerDrain hs; exact hi

theorem qinv2_reachable {stream0 : List Frame} (h : QReachable c strict dec stream0 s) : QInv2 s := by
  induction h with
  | init => simp [QInv2, qinit]
  | step l _ hs ih => exact qinv2_step ih hs

/-- the queues never hold more than their capacity -/
def QInv3 (c : Caps) (s : QSt) : Prop := s.toPanel ≤ c.toPanel ∧ s.fromPanel.length ≤ c.fromPanel

theorem qinv3_step {l : QLbl} (hi : QInv3 c s) (hs : qstep c strict dec s l = some s') : QInv3 c s' := by
  unfold QInv3 at *
  cases l with
  | readerFrame =>
    obtain ⟨_, f, rest, _, h | h | h⟩ := step_reader hs
    · obtain ⟨id, k, _, hl, rfl⟩ := h; simp; omega
    · obtain ⟨_, rfl⟩ := h; exact hi
    · obtain ⟨_, rfl⟩ := h; exact hi
  | loopTakeFrom =>
    obtain ⟨_, id, k, rest, hfp, rfl⟩ := step_take hs
    simp [hfp] at hi ⊢; omega
  | loopSend => obtain ⟨r, _, hc, rfl⟩ := step_send hs; simp; omega
  | loopDrain => obtain ⟨_, _, _, rfl⟩ := step_loopDrain hs; simp; omega
  | tick =>
    rcases step_tick hs with ⟨_, rfl⟩ | ⟨_, _, rfl⟩
    · simp; split <;> omega
    · exact hi
  | writerDrain => obtain ⟨_, _, rfl⟩ := step_writerDrain hs; simp; omega

theorem qinv3_reachable {stream0 : List Frame} (h : QReachable c strict dec stream0 s) : QInv3 c s := by
  induction h with
  | init => simp [QInv3, qinit]
  | step l _ hs ih => exact qinv3_step ih hs

/-! ## what is left to dispatch -/

/-- frames the reader has not read yet (twice: one step to read, one to take) plus queued messages -/
def rem (s : QSt) : Nat := (if s.readerRunning then 2 * s.stream.length else 0) + s.fromPanel.length

theorem rem_eq_zero_iff : rem s = 0 ↔ pending s = false := by
  unfold rem pending
  cases hr : s.readerRunning <;> cases hs : s.stream <;> cases hf : s.fromPanel <;> simp

theorem rem_step_le {l : QLbl} (hs : qstep c strict dec s l = some s') : rem s' ≤ rem s := by
  unfold rem
  cases l with
  | readerFrame =>
    obtain ⟨hr, f, rest, hst, h | h | h⟩ := step_reader hs
    · obtain ⟨id, k, _, _, rfl⟩ := h; simp [hr, hst]; omega
    · obtain ⟨_, rfl⟩ := h; simp [hr, hst]; omega
    · obtain ⟨_, rfl⟩ := h; simp [hr, hst]
  | loopTakeFrom => obtain ⟨_, id, k, rest, hfp, rfl⟩ := step_take hs; simp [hfp]
  | loopSend => obtain ⟨r, _, _, rfl⟩ := step_send hs; exact Nat.le_refl _
  | loopDrain => obtain ⟨_, _, _, rfl⟩ := step_loopDrain hs; exact Nat.le_refl _
  | tick => rcases step_tick hs with ⟨_, rfl⟩ | ⟨_, _, rfl⟩ <;> exact Nat.le_refl _
  | writerDrain => obtain ⟨_, _, rfl⟩ := step_writerDrain hs; exact Nat.le_refl _

theorem rem_reader_lt (hs : qstep c strict dec s .readerFrame = some s') : rem s' < rem s := by
  unfold rem
  obtain ⟨hr, f, rest, hst, h | h | h⟩ := step_reader hs
  · obtain ⟨id, k, _, _, rfl⟩ := h; simp [hr, hst]; omega
  · obtain ⟨_, rfl⟩ := h; simp [hr, hst]
  · obtain ⟨_, rfl⟩ := h; simp [hr, hst]

theorem rem_take_lt (hs : qstep c strict dec s .loopTakeFrom = some s') : rem s' < rem s := by
  unfold rem
  obtain ⟨_, id, k, rest, hfp, rfl⟩ := step_take hs
  simp [hfp]

/-! ## a progress measure for the code as it is (decoupled writer)

One unit of `toPanel` per queued outgoing message; a send still to be done by the dispatcher weighs `toPanel`'s
capacity + 1, so that doing it (one message more in the queue) is still progress. -/

def frameW (c : Caps) : Frame → Nat
  | .valid _ k => 2 + k * (c.toPanel + 1)
  | _ => 1

def streamW (c : Caps) (l : List Frame) : Nat := (l.map (frameW c)).sum
def queueW (c : Caps) (l : List (Nat × Nat)) : Nat := (l.map (fun p => 1 + p.2 * (c.toPanel + 1))).sum
def loopW (c : Caps) : Loop → Nat
  | .idle => 0
  | .sending r => r * (c.toPanel + 1)

def measure (c : Caps) (s : QSt) : Nat :=
  (if s.readerRunning then streamW c s.stream else 0) + queueW c s.fromPanel + loopW c s.loop + s.toPanel

theorem frameW_pos (c : Caps) (f : Frame) : 0 < frameW c f := by cases f <;> simp [frameW]; omega

theorem measure_step_lt {l : QLbl} (hl : l ≠ .tick) (hs : qstep c strict true s l = some s') :
    measure c s' < measure c s := by
  unfold measure
  cases l with
  | readerFrame =>
    obtain ⟨hr, f, rest, hst, h | h | h⟩ := step_reader hs
    · obtain ⟨id, k, rfl, _, rfl⟩ := h
      simp [hr, hst, streamW, queueW, frameW]; omega
    · obtain ⟨hf, rfl⟩ := h
      have := frameW_pos c f
      simp [hr, hst, streamW]; omega
    · obtain ⟨hf, rfl⟩ := h
      have := frameW_pos c f
      simp [hr, hst, streamW]; omega
  | loopTakeFrom =>
    obtain ⟨hl, id, k, rest, hfp, rfl⟩ := step_take hs
    by_cases hk : k = 0
    · simp [hl, hfp, queueW, loopW, hk]
    · simp [hl, hfp, queueW, loopW, hk]; omega
  | loopSend =>
    obtain ⟨r, hl, hc, rfl⟩ := step_send hs
    by_cases hr : r = 0
    · simp [hl, loopW, hr]; omega
    · simp only [hl, loopW, hr, if_false, Nat.add_mul]; omega
  | loopDrain => obtain ⟨hd, _⟩ := step_loopDrain hs; cases hd
  | tick => exact absurd rfl hl
  | writerDrain => obtain ⟨_, hp, rfl⟩ := step_writerDrain hs; simp; omega

theorem measure_tick_le (hs : qstep c strict true s .tick = some s') : measure c s' ≤ measure c s + 1 := by
  unfold measure
  rcases step_tick hs with ⟨_, rfl⟩ | ⟨hd, _⟩
  · by_cases ht : s.toPanel < c.toPanel <;> simp only [ht, if_true, if_false] <;> omega
  · cases hd

/-- an execution without ticker steps is at most as long as the measure of the state it starts in -/
theorem tickfree_run_bounded : ∀ (ls : List QLbl) (s s' : QSt), (∀ l ∈ ls, l ≠ QLbl.tick) →
    qrun c strict true s ls = some s' → ls.length + measure c s' ≤ measure c s
  | [], s, s', _, h => by simp [qrun] at h; subst h; simp
  | l :: ls, s, s', hl, h => by
    simp only [qrun] at h
    cases h1 : qstep c strict true s l with
    | none => simp [h1] at h
    | some s1 =>
      simp only [h1, Option.bind_some] at h
      have := tickfree_run_bounded ls s1 s' (fun l' hm => hl l' (by simp [hm])) h
      have := measure_step_lt (hl l (by simp)) h1
      simp only [List.length_cons]; omega

/-! ## infinite runs and fairness -/

/-- an infinite run of the code as it is (decoupled writer): the ticker is always enabled, so runs never end -/
structure QRun (c : Caps) (strict : Bool) where
  st : Nat → QSt
  lb : Nat → QLbl
  step : ∀ n, qstep c strict true (st n) (lb n) = some (st (n + 1))

def enabled (c : Caps) (strict : Bool) (s : QSt) (l : QLbl) : Prop := (qstep c strict true s l).isSome = true

/-- strong fairness for one label: enabled again and again → taken again and again -/
def QRun.Fair (r : QRun c strict) (l : QLbl) : Prop :=
  (∀ n, ∃ m, n ≤ m ∧ enabled c strict (r.st m) l) → ∀ n, ∃ m, n ≤ m ∧ r.lb m = l

variable (r : QRun c strict)

theorem run_rem_mono (n : Nat) : ∀ k, rem (r.st (n + k)) ≤ rem (r.st n)
  | 0 => Nat.le_refl _
  | k + 1 => Nat.le_trans (rem_step_le (r.step (n + k))) (run_rem_mono n k)

theorem run_rem_mono' {n m : Nat} (h : n ≤ m) : rem (r.st m) ≤ rem (r.st n) := by
  obtain ⟨k, rfl⟩ := Nat.exists_eq_add_of_le h
  exact run_rem_mono r n k

theorem run_reachable {stream0 : List Frame} (h0 : r.st 0 = qinit stream0) : ∀ n, QReachable c strict true stream0 (r.st n)
  | 0 => by rw [h0]; exact .init
  | n + 1 => .step (r.lb n) (run_reachable h0 n) (r.step n)

/-- If `I` holds now, is kept by every step other than `A`, and — as long as it keeps holding — `A` gets enabled again
and again, then a fair run takes `A` from a state in which `I` holds. -/
theorem fair_until (A : QLbl) (hfair : r.Fair A) (I : QSt → Prop)
    (hstay : ∀ n, I (r.st n) → r.lb n ≠ A → I (r.st (n + 1)))
    (hio : ∀ n, (∀ k, I (r.st (n + k))) → ∃ m, n ≤ m ∧ enabled c strict (r.st m) A)
    (n : Nat) (hI : I (r.st n)) : ∃ m, n ≤ m ∧ I (r.st m) ∧ r.lb m = A := by
  have key : ∀ k, I (r.st (n + k)) ∨ ∃ j, j < k ∧ I (r.st (n + j)) ∧ r.lb (n + j) = A := by
    intro k
    induction k with
    | zero => exact Or.inl hI
    | succ k ih =>
      rcases ih with h | ⟨j, hj, h⟩
      · by_cases ha : r.lb (n + k) = A
        · exact Or.inr ⟨k, Nat.lt_succ_self k, h, ha⟩
        · exact Or.inl (hstay (n + k) h ha)
      · exact Or.inr ⟨j, Nat.lt_succ_of_lt hj, h⟩
  by_cases hex : ∃ j, I (r.st (n + j)) ∧ r.lb (n + j) = A
  · obtain ⟨j, h1, h2⟩ := hex
    exact ⟨n + j, Nat.le_add_right n j, h1, h2⟩
  · have hall : ∀ k, I (r.st (n + k)) := by
      intro k
      rcases key k with h | ⟨j, _, h⟩
      · exact h
      · exact absurd ⟨j, h⟩ hex
    have hen : ∀ n', ∃ m, n' ≤ m ∧ enabled c strict (r.st m) A := by
      intro n'
      have hall' : ∀ k, I (r.st ((n + n') + k)) := fun k => by rw [Nat.add_assoc]; exact hall (n' + k)
      obtain ⟨m, hm, he⟩ := hio (n + n') hall'
      exact ⟨m, by omega, he⟩
    obtain ⟨m, hm, ha⟩ := hfair hen n
    obtain ⟨k, rfl⟩ := Nat.exists_eq_add_of_le hm
    exact absurd ⟨k, hall k, ha⟩ hex

/-! ### liveness of the code as it is under strong fairness of reader, dispatcher and writer -/

section live
variable (fair : ∀ l, l ≠ QLbl.tick → r.Fair l)
include fair

/-- a full outgoing queue is drained by the writer -/
theorem full_queue_drained (ht : 0 < c.toPanel) (n : Nat) (hfull : (r.st n).toPanel = c.toPanel) :
    ∃ m, n ≤ m ∧ (r.st m).toPanel = c.toPanel ∧ r.lb m = .writerDrain := by
  refine fair_until r .writerDrain (fair _ (by simp)) (fun s => s.toPanel = c.toPanel) ?_ ?_ n hfull
  · intro k hI hne
    have hs := r.step k
    cases hl : r.lb k with
    | readerFrame =>
      rw [hl] at hs
      obtain ⟨_, f, rest, _, h | h | h⟩ := step_reader hs
      · obtain ⟨id, q, _, _, e⟩ := h; rw [e]; exact hI
      · obtain ⟨_, e⟩ := h; rw [e]; exact hI
      · obtain ⟨_, e⟩ := h; rw [e]; exact hI
    | loopTakeFrom => rw [hl] at hs; obtain ⟨_, id, q, rest, _, e⟩ := step_take hs; rw [e]; exact hI
    | loopSend => rw [hl] at hs; obtain ⟨q, _, hc, _⟩ := step_send hs; omega
    | loopDrain => rw [hl] at hs; obtain ⟨hd, _⟩ := step_loopDrain hs; cases hd
    | tick =>
      rw [hl] at hs
      rcases step_tick hs with ⟨_, e⟩ | ⟨hd, _⟩
      · rw [e]; simp only []; rw [if_neg (by omega)]; exact hI
      · cases hd
    | writerDrain => exact absurd hl hne
  · intro k hall
    refine ⟨k, Nat.le_refl k, ?_⟩
    have := hall 0
    simp only [Nat.add_zero] at this
    simp [enabled, qstep, this, ht]

/-- the dispatcher's pending send is eventually done -/
theorem send_taken (ht : 0 < c.toPanel) (h3 : ∀ n, QInv3 c (r.st n)) (n q : Nat) (hl : (r.st n).loop = .sending (q + 1)) :
    ∃ m, n ≤ m ∧ (r.st m).loop = .sending (q + 1) ∧ r.lb m = .loopSend := by
  refine fair_until r .loopSend (fair _ (by simp)) (fun s => s.loop = .sending (q + 1)) ?_ ?_ n hl
  · intro k hI hne
    have hs := r.step k
    cases hlb : r.lb k with
    | readerFrame =>
      rw [hlb] at hs
      obtain ⟨_, f, rest, _, h | h | h⟩ := step_reader hs
      · obtain ⟨id, q', _, _, e⟩ := h; rw [e]; exact hI
      · obtain ⟨_, e⟩ := h; rw [e]; exact hI
      · obtain ⟨_, e⟩ := h; rw [e]; exact hI
    | loopTakeFrom => rw [hlb] at hs; obtain ⟨hidle, _⟩ := step_take hs; rw [hI] at hidle; cases hidle
    | loopSend => exact absurd hlb hne
    | loopDrain => rw [hlb] at hs; obtain ⟨hd, _⟩ := step_loopDrain hs; cases hd
    | tick =>
      rw [hlb] at hs
      rcases step_tick hs with ⟨_, e⟩ | ⟨hd, _⟩
      · rw [e]; exact hI
      · cases hd
    | writerDrain => rw [hlb] at hs; obtain ⟨_, _, e⟩ := step_writerDrain hs; rw [e]; exact hI
  · intro k hall
    have hk := hall 0
    simp only [Nat.add_zero] at hk
    by_cases hlt : (r.st k).toPanel < c.toPanel
    · exact ⟨k, Nat.le_refl k, by simp [enabled, qstep, hk, hlt]⟩
    · have hfull : (r.st k).toPanel = c.toPanel := by have := (h3 k).1; omega
      obtain ⟨m, hm, hfm, hlm⟩ := full_queue_drained r fair ht k hfull
      have hs := r.step m
      rw [hlm] at hs
      obtain ⟨_, _, e⟩ := step_writerDrain hs
      obtain ⟨j, rfl⟩ := Nat.exists_eq_add_of_le hm
      have hloop := hall (j + 1)
      rw [← Nat.add_assoc] at hloop
      refine ⟨k + j + 1, by omega, ?_⟩
      have htp : (r.st (k + j + 1)).toPanel < c.toPanel := by rw [e]; simp only []; omega
      simp [enabled, qstep, hloop, htp]

/-- the dispatcher finishes the message it is processing -/
theorem idle_eventually (ht : 0 < c.toPanel) (h2 : ∀ n, QInv2 (r.st n)) (h3 : ∀ n, QInv3 c (r.st n)) :
    ∀ (q n : Nat), (r.st n).loop = .sending q → ∃ m, n ≤ m ∧ (r.st m).loop = .idle
  | 0, n, hl => absurd hl (h2 n)
  | q + 1, n, hl => by
    obtain ⟨m, hm, hlm, hlb⟩ := send_taken r fair ht h3 n q hl
    have hs := r.step m
    rw [hlb] at hs
    obtain ⟨q', hq', _, e⟩ := step_send hs
    rw [hlm] at hq'
    have hqq : q' = q := by injection hq' with h; omega
    subst hqq
    by_cases hq0 : q' = 0
    · exact ⟨m + 1, by omega, by rw [e]; simp [hq0]⟩
    · have hl' : (r.st (m + 1)).loop = .sending q' := by rw [e]; simp [hq0]
      obtain ⟨m', hm', hidle⟩ := idle_eventually ht h2 h3 q' (m + 1) hl'
      exact ⟨m', by omega, hidle⟩

/-- while something is left, the amount left eventually drops -/
theorem rem_decreases (hf : 0 < c.fromPanel) (ht : 0 < c.toPanel) (h2 : ∀ n, QInv2 (r.st n)) (h3 : ∀ n, QInv3 c (r.st n))
    (n : Nat) (hpos : 0 < rem (r.st n)) : ∃ m, n < m ∧ rem (r.st m) < rem (r.st n) := by
  -- first let the dispatcher become idle
  have hidle : ∃ m1, n ≤ m1 ∧ (r.st m1).loop = .idle := by
    cases hl : (r.st n).loop with
    | idle => exact ⟨n, Nat.le_refl n, hl⟩
    | sending q => exact idle_eventually r fair ht h2 h3 q n hl
  obtain ⟨m1, hm1, hl1⟩ := hidle
  have hle1 := run_rem_mono' r hm1
  by_cases hlt : rem (r.st m1) < rem (r.st n)
  · exact ⟨m1 + 1, by omega, Nat.lt_of_le_of_lt (rem_step_le (r.step m1)) hlt⟩
  · have hpos1 : 0 < rem (r.st m1) := by omega
    cases hfp : (r.st m1).fromPanel with
    | cons x rest =>
      -- a queued message is taken
      have := fair_until r .loopTakeFrom (fair _ (by simp)) (fun s => s.loop = .idle ∧ s.fromPanel ≠ []) ?_ ?_ m1 ⟨hl1, by simp [hfp]⟩
      · obtain ⟨m2, hm2, _, hlb⟩ := this
        have hs := r.step m2
        rw [hlb] at hs
        have := rem_take_lt hs
        have := run_rem_mono' r hm2
        exact ⟨m2 + 1, by omega, by omega⟩
      · intro k hI hne
        have hs := r.step k
        cases hlb : r.lb k with
        | readerFrame =>
          rw [hlb] at hs
          obtain ⟨_, f, rest', _, h | h | h⟩ := step_reader hs
          · obtain ⟨id, q', _, _, e⟩ := h; rw [e]; exact ⟨hI.1, by simp⟩
          · obtain ⟨_, e⟩ := h; rw [e]; exact hI
          · obtain ⟨_, e⟩ := h; rw [e]; exact hI
        | loopTakeFrom => exact absurd hlb hne
        | loopSend => rw [hlb] at hs; obtain ⟨q', hq', _⟩ := step_send hs; rw [hI.1] at hq'; cases hq'
        | loopDrain => rw [hlb] at hs; obtain ⟨hd, _⟩ := step_loopDrain hs; cases hd
        | tick =>
          rw [hlb] at hs
          rcases step_tick hs with ⟨_, e⟩ | ⟨hd, _⟩
          · rw [e]; exact hI
          · cases hd
        | writerDrain => rw [hlb] at hs; obtain ⟨_, _, e⟩ := step_writerDrain hs; rw [e]; exact hI
      · intro k hall
        have hk := hall 0
        simp only [Nat.add_zero] at hk
        refine ⟨k, Nat.le_refl k, ?_⟩
        obtain ⟨hkl, hkf⟩ := hk
        cases hq : (r.st k).fromPanel with
        | nil => exact absurd hq hkf
        | cons y ys => obtain ⟨id, q'⟩ := y; simp [enabled, qstep, hkl, hq]
    | nil =>
      -- the queue is empty: the reader has something to read and room to put it
      have hrun : (r.st m1).readerRunning = true ∧ (r.st m1).stream ≠ [] := by
        unfold rem at hpos1
        rw [hfp] at hpos1
        cases hr : (r.st m1).readerRunning <;> cases hst : (r.st m1).stream <;> simp [hr, hst] at hpos1 ⊢
      have := fair_until r .readerFrame (fair _ (by simp))
        (fun s => s.readerRunning = true ∧ s.stream ≠ [] ∧ s.fromPanel.length < c.fromPanel) ?_ ?_ m1
        ⟨hrun.1, hrun.2, by rw [hfp]; exact hf⟩
      · obtain ⟨m2, hm2, _, hlb⟩ := this
        have hs := r.step m2
        rw [hlb] at hs
        have := rem_reader_lt hs
        have := run_rem_mono' r hm2
        exact ⟨m2 + 1, by omega, by omega⟩
      · intro k hI hne
        have hs := r.step k
        cases hlb : r.lb k with
        | readerFrame => exact absurd hlb hne
        | loopTakeFrom =>
          rw [hlb] at hs
          obtain ⟨_, id, q', rest', hq, e⟩ := step_take hs
          rw [e]
          refine ⟨hI.1, hI.2.1, ?_⟩
          have := hI.2.2
          rw [hq] at this
          simp only [List.length_cons] at this ⊢
          omega
        | loopSend => rw [hlb] at hs; obtain ⟨q', _, _, e⟩ := step_send hs; rw [e]; exact hI
        | loopDrain => rw [hlb] at hs; obtain ⟨hd, _⟩ := step_loopDrain hs; cases hd
        | tick =>
          rw [hlb] at hs
          rcases step_tick hs with ⟨_, e⟩ | ⟨hd, _⟩
          · rw [e]; exact hI
          · cases hd
        | writerDrain => rw [hlb] at hs; obtain ⟨_, _, e⟩ := step_writerDrain hs; rw [e]; exact hI
      · intro k hall
        have hk := hall 0
        simp only [Nat.add_zero] at hk
        refine ⟨k, Nat.le_refl k, ?_⟩
        obtain ⟨hkr, hks, hkl⟩ := hk
        cases hq : (r.st k).stream with
        | nil => exact absurd hq hks
        | cons f fs => cases f <;> cases strict <;> simp [enabled, qstep, hkr, hq, hkl]

/-- everything is eventually read and taken by the dispatcher -/
theorem rem_reaches_zero (hf : 0 < c.fromPanel) (ht : 0 < c.toPanel) (h2 : ∀ n, QInv2 (r.st n)) (h3 : ∀ n, QInv3 c (r.st n)) :
    ∀ (bound n : Nat), rem (r.st n) ≤ bound → ∃ m, n ≤ m ∧ rem (r.st m) = 0
  | 0, n, hb => ⟨n, Nat.le_refl n, by omega⟩
  | bound + 1, n, hb => by
    by_cases h0 : rem (r.st n) = 0
    · exact ⟨n, Nat.le_refl n, h0⟩
    · obtain ⟨m, hm, hlt⟩ := rem_decreases r fair hf ht h2 h3 n (by omega)
      obtain ⟨m', hm', hz⟩ := rem_reaches_zero hf ht h2 h3 bound m (by omega)
      exact ⟨m', by omega, hz⟩

end live

end RawPanelVerif.GorwpLts
