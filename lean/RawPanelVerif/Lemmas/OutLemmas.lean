import RawPanelVerif.Model.DecOut
import RawPanelVerif.Spec.GrammarOut
import RawPanelVerif.Lemmas.StripOneLine
import RawPanelVerif.Lemmas.StripContent
/-! Lemmas shared by Props/C03, Props/C04 and Lemmas/TotalOut: prefixes, spans, decimal numerals, dispatch of the Spec reader. -/
namespace RawPanelVerif.OutLemmas
open RawPanelVerif RawPanelVerif.Bytes RawPanelVerif.MsgOut RawPanelVerif.EncOut RawPanelVerif.DecOut
open RawPanelVerif.Spec.Out

/-! ### prefixes -/
theorem stripPrefix_append (p r : Bytes) : stripPrefix p (p ++ r) = some r := by
  induction p with
  | nil => cases r <;> rfl
  | cons a as ih => simp [stripPrefix, ih]

theorem dropPrefix_append (p r : Bytes) : dropPrefix p (p ++ r) = some r := by
  induction p with
  | nil => cases r <;> rfl
  | cons a as ih => simp [dropPrefix, ih]

theorem stripPrefix_head_ne (a b : UInt8) (p s : Bytes) (h : a ≠ b) : stripPrefix (a :: p) (b :: s) = none := by
  simp [stripPrefix, h]

theorem dropPrefix_head_ne (a b : UInt8) (p s : Bytes) (h : a ≠ b) : dropPrefix (a :: p) (b :: s) = none := by
  simp [dropPrefix, h]

/-! ### spans -/
theorem spanP_append (p : UInt8 → Bool) (d r : Bytes) (hd : ∀ b ∈ d, p b = true) (hr : ∀ c cs, r = c :: cs → p c = false) :
    spanP p (d ++ r) = (d, r) := by
  induction d with
  | nil =>
    cases r with
    | nil => rfl
    | cons c cs => simp [spanP, hr c cs rfl]
  | cons a as ih =>
    have ha : p a = true := hd a (by simp)
    have := ih (fun b hb => hd b (by simp [hb]))
    simp [spanP, ha, this]

/-! ### decimal numerals -/
theorem digitsOf_isDigit (n : Nat) : ∀ b ∈ digitsOf n, isDigit b = true := by
  have := digitsOf_all_digit n
  rw [List.all_eq_true] at this
  exact this

theorem itoa_natCast (n : Nat) : itoa (n : Int) = digitsOf n := by
  unfold itoa
  have : ¬ ((n : Int) < 0) := by omega
  simp [this]

theorem atoiV_digitsOf (n : Nat) (h : (n : Int) ≤ maxInt64) : atoiV (digitsOf n) = n := by
  have := atoiV_itoa (n : Int) (by unfold minInt64; omega) h
  rwa [itoa_natCast] at this

theorem readNum_digitsOf (n : Nat) (h : n ≤ u32Max) : readNum (digitsOf n) = some n := by
  unfold readNum
  rw [natOfDigits_digitsOf]
  simp [digitsOf_ne_nil, digitsOf_all_digit, h]

theorem readInt_itoa (v : Int) (h1 : -4294967295 ≤ v) (h2 : v ≤ 4294967295) : readInt (itoa v) = some v := by
  unfold itoa
  by_cases hn : v < 0
  · rw [if_pos hn]
    unfold readInt
    simp only []
    rw [readNum_digitsOf _ (by unfold u32Max; omega)]
    simp; omega
  · rw [if_neg hn]
    have hne := digitsOf_ne_nil v.natAbs
    cases hd : digitsOf v.natAbs with
    | nil => exact absurd hd hne
    | cons b bs =>
      have hb := digitsOf_head_digit v.natAbs b (by rw [hd]; simp)
      unfold readInt
      split
      · rename_i d heq; injection heq with e1 _; exact absurd e1 hb.1
      · rw [← hd, readNum_digitsOf _ (by unfold u32Max; omega)]
        simp; omega


/-! ### membership facts -/
theorem not_mem_digitsOf (n : Nat) (c : UInt8) (hc : isDigit c = false) : c ∉ digitsOf n := by
  intro h
  have := digitsOf_isDigit n c h
  rw [hc] at this; exact absurd this (by decide)

theorem contains_false_of (l : Bytes) (c : UInt8) (h : c ∉ l) : l.contains c = false := by
  simpa using h

theorem not_mem_itoa (v : Int) (c : UInt8) (hc : isDigit c = false) (h45 : c ≠ 45) : c ∉ itoa v := by
  unfold itoa
  split
  · intro h
    simp only [List.mem_cons] at h
    rcases h with h | h
    · exact h45 h
    · exact not_mem_digitsOf _ c hc h
  · exact not_mem_digitsOf _ c hc

theorem splitOn_two (sep : UInt8) (a b : Bytes) (ha : sep ∉ a) (hb : sep ∉ b) : splitOn sep (a ++ sep :: b) = [a, b] := by
  rw [splitOn_append_sep sep a b ha, splitOn_nosep sep b hb]

theorem splitFirst_append (sep : UInt8) (k v : Bytes) (hk : sep ∉ k) : splitFirst sep (k ++ sep :: v) = some (k, v) := by
  induction k with
  | nil => simp [splitFirst]
  | cons c cs ih =>
    have hc : c ≠ sep := fun e => hk (by simp [e])
    have := ih (fun e => hk (by simp [e]))
    simp [splitFirst, hc, this]

theorem flow_no_eq : ∀ l ∈ flowWords, (61 : UInt8) ∉ l := by decide

theorem not_flow_of_eq (l : Bytes) (h : (61 : UInt8) ∈ l) : l ∉ flowWords := fun hf => flow_no_eq l hf h

/-! ### C03 kernel: binary event line -/

theorem edgeSuffix_cases (edge : Int) (he : edgeOk edge = true) :
    (edge = 0 ∧ edgeSuffix edge = []) ∨ (0 < edge ∧ edgeSuffix edge = 46 :: digitsOf edge.toNat ∧ edge.toNat ∈ edgeValues) := by
  unfold edgeOk at he
  simp only [Bool.or_eq_true, decide_eq_true_eq] at he
  rcases he with ((((h | h) | h) | h) | h) | h <;> subst h
  · left; exact ⟨rfl, by decide⟩
  all_goals (right; refine ⟨by decide, ?_, by decide⟩; unfold edgeSuffix; rw [if_pos (by decide)]; rfl)

theorem readIdEdge_line (id : Nat) (hid : id ≤ u32Max) (edge : Int) (he : edgeOk edge = true) :
    readIdEdge (utoa id ++ edgeSuffix edge) = some (id, if edge = 0 then none else some edge.toNat) := by
  unfold utoa
  rcases edgeSuffix_cases edge he with ⟨h0, hs⟩ | ⟨hpos, hs, hmem⟩
  · rw [hs, List.append_nil]
    unfold readIdEdge
    rw [splitOn_nosep 46 _ (not_mem_digitsOf id 46 (by decide))]
    simp [readNum_digitsOf id hid, h0]
  · rw [hs]
    unfold readIdEdge
    rw [splitOn_two 46 _ _ (not_mem_digitsOf id 46 (by decide)) (not_mem_digitsOf _ 46 (by decide))]
    have hle : edge.toNat ≤ u32Max := by
      unfold edgeValues at hmem; unfold u32Max
      simp only [List.mem_cons, List.not_mem_nil, or_false] at hmem
      omega
    have hne : edge ≠ 0 := by omega
    simp [readNum_digitsOf id hid, readNum_digitsOf _ hle, hmem, hne]

/-- **event_line**: for every component id (32 bit), every edge in {0,1,2,4,8,16} and both directions, the independent
reader of the line the encoder produces returns exactly that event. -/
theorem event_line (o : OutOracle) (id : Nat) (hid : id ≤ u32Max) (edge : Int) (he : edgeOk edge = true) (pressed : Bool) :
    readLine o (binaryLine id ⟨pressed, edge⟩) = .grammar [.event .binary id edge.toNat pressed 0] := by
  have hw : (61 : UInt8) ∉ (if pressed then asc "Down" else asc "Up") := by cases pressed <;> decide
  have hw10 : (10 : UInt8) ∉ (if pressed then asc "Down" else asc "Up") := by cases pressed <;> decide
  have hsuf : ∀ c : UInt8, isDigit c = false → c ≠ 46 → c ∉ edgeSuffix edge := by
    intro c hc h46
    rcases edgeSuffix_cases edge he with ⟨_, hs⟩ | ⟨_, hs, _⟩ <;> rw [hs]
    · simp
    · intro h; simp only [List.mem_cons] at h
      rcases h with h | h
      · exact h46 h
      · exact not_mem_digitsOf _ c hc h
  have hlhs : ∀ c : UInt8, isDigit c = false → c ≠ 46 → c ∉ utoa id ++ edgeSuffix edge := by
    intro c hc h46 h
    simp only [List.mem_append] at h
    rcases h with h | h
    · exact not_mem_digitsOf id c hc h
    · exact hsuf c hc h46 h
  have hline : binaryLine id ⟨pressed, edge⟩ = asc "HWC#" ++ ((utoa id ++ edgeSuffix edge) ++ 61 :: (if pressed then asc "Down" else asc "Up")) := by
    simp [binaryLine, kHWC, List.append_assoc]
  rw [hline]
  unfold readLine
  rw [contains_false_of _ 10 (by
    intro h
    simp only [List.mem_append, List.mem_cons] at h
    rcases h with h | h | h | h
    · exact absurd h (by decide)
    · exact hlhs 10 (by decide) (by decide) (by simpa using h)
    · exact absurd h (by decide)
    · exact hw10 h)]
  rw [if_neg (by simp), if_neg (not_flow_of_eq _ (by simp)), dropPrefix_append]
  simp only []
  unfold readEvent
  rw [splitOn_two 61 _ _ (hlhs 61 (by decide) (by decide)) hw]
  simp only []
  rw [if_neg (by cases pressed <;> decide)]
  rw [readIdEdge_line id hid edge he]
  cases pressed
  · simp only [Bool.false_eq_true, if_false]
    rw [if_neg (by decide)]
    by_cases h0 : edge = 0 <;> simp [h0]
  · simp only [if_true]
    by_cases h0 : edge = 0 <;> simp [h0]


/-! ### dispatch of `readLine` -/

theorem flow_not_hwc : ∀ l ∈ flowWords, dropPrefix (asc "HWC#") l = none := by decide
theorem flow_not_map : ∀ l ∈ flowWords, dropPrefix (asc "map=") l = none := by decide

theorem readLine_hwc (o : OutOracle) (rest : Bytes) (h10 : (10 : UInt8) ∉ rest) :
    readLine o (asc "HWC#" ++ rest) = readEvent rest := by
  unfold readLine
  rw [contains_false_of _ 10 (by
    intro h; simp only [List.mem_append] at h
    rcases h with h | h
    · exact absurd h (by decide)
    · exact h10 h)]
  have hnf : asc "HWC#" ++ rest ∉ flowWords := fun hf => by
    have := flow_not_hwc _ hf
    rw [dropPrefix_append] at this; exact absurd this (by simp)
  rw [if_neg (by simp), if_neg hnf, dropPrefix_append]

theorem hwc_not_map (rest : Bytes) : dropPrefix (asc "HWC#") (asc "map=" ++ rest) = none := by
  show dropPrefix (72 :: _) (109 :: _) = none
  exact dropPrefix_head_ne _ _ _ _ (by decide)

theorem readLine_map (o : OutOracle) (rest : Bytes) (h10 : (10 : UInt8) ∉ rest) :
    readLine o (asc "map=" ++ rest) = readMap rest := by
  unfold readLine
  rw [contains_false_of _ 10 (by
    intro h; simp only [List.mem_append] at h
    rcases h with h | h
    · exact absurd h (by decide)
    · exact h10 h)]
  have hnf : asc "map=" ++ rest ∉ flowWords := fun hf => by
    have := flow_not_map _ hf
    rw [dropPrefix_append] at this; exact absurd this (by simp)
  rw [if_neg (by simp), if_neg hnf, hwc_not_map, dropPrefix_append]

theorem infoKeys_head' : ∀ k ∈ infoKeys, k.head? ≠ none ∧ k.head? ≠ some 72 ∧ k.head? ≠ some 109 := by decide
theorem infoKeys_head (k : Bytes) (hk : k ∈ infoKeys) : ∃ c cs, k = c :: cs ∧ c ≠ 72 ∧ c ≠ 109 := by
  have := infoKeys_head' k hk
  cases k with
  | nil => simp at this
  | cons c cs => exact ⟨c, cs, rfl, by simpa using this.2.1, by simpa using this.2.2⟩
theorem infoKeys_no_eq : ∀ k ∈ infoKeys, (61 : UInt8) ∉ k := by decide
theorem infoKeys_no_lf : ∀ k ∈ infoKeys, (10 : UInt8) ∉ k := by decide

/-- a `key=value` line with a grammar key and a non-empty LF-free value is read by `readInfo` -/
theorem readLine_kv (o : OutOracle) (key v : Bytes) (hk : key ∈ infoKeys) (hv : v ≠ []) (h10 : (10 : UInt8) ∉ v) :
    readLine o (key ++ 61 :: v) = readInfo o key v := by
  obtain ⟨c, cs, hkc, h72, h109⟩ := infoKeys_head key hk
  unfold readLine
  rw [contains_false_of _ 10 (by
    intro h; simp only [List.mem_append, List.mem_cons] at h
    rcases h with h | h | h
    · exact infoKeys_no_lf key hk h
    · exact absurd h (by decide)
    · exact h10 h)]
  rw [if_neg (by simp), if_neg (not_flow_of_eq _ (by simp))]
  have h1 : dropPrefix (asc "HWC#") (key ++ 61 :: v) = none := by
    rw [hkc]; exact dropPrefix_head_ne _ _ _ _ (fun e => h72 e.symm)
  have h2 : dropPrefix (asc "map=") (key ++ 61 :: v) = none := by
    rw [hkc]; exact dropPrefix_head_ne _ _ _ _ (fun e => h109 e.symm)
  rw [h1, h2, splitFirst_append 61 key v (infoKeys_no_eq key hk)]
  simp [hk, hv]

/-- a `key=` line (empty value) is non-grammar -/
theorem readLine_kv_empty (o : OutOracle) (key : Bytes) (hk : key ∈ infoKeys) :
    readLine o (key ++ [61]) = .nonGrammar := by
  obtain ⟨c, cs, hkc, h72, h109⟩ := infoKeys_head key hk
  unfold readLine
  rw [contains_false_of _ 10 (by
    intro h; simp only [List.mem_append, List.mem_cons] at h
    rcases h with h | h | h
    · exact infoKeys_no_lf key hk h
    · exact absurd h (by decide)
    · simp at h)]
  rw [if_neg (by simp), if_neg (not_flow_of_eq _ (by simp))]
  have h1 : dropPrefix (asc "HWC#") (key ++ [61]) = none := by
    rw [hkc]; exact dropPrefix_head_ne _ _ _ _ (fun e => h72 e.symm)
  have h2 : dropPrefix (asc "map=") (key ++ [61]) = none := by
    rw [hkc]; exact dropPrefix_head_ne _ _ _ _ (fun e => h109 e.symm)
  rw [h1, h2, splitFirst_append 61 key [] (infoKeys_no_eq key hk)]
  simp [hk]

theorem readIdEdge_plain (id : Nat) (hid : id ≤ u32Max) : readIdEdge (utoa id) = some (id, none) := by
  have := readIdEdge_line id hid 0 (by decide)
  simpa [edgeSuffix] using this

theorem not_mem_utoa (n : Nat) (c : UInt8) (hc : isDigit c = false) : c ∉ utoa n := not_mem_digitsOf n c hc

/-- reader of `HWC#id=Kind:value` for a kind word `k` without `=`, `:` and LF -/
theorem readLine_value (o : OutOracle) (id : Nat) (hid : id ≤ u32Max) (k v : Bytes)
    (hk61 : (61 : UInt8) ∉ k) (hk58 : (58 : UInt8) ∉ k) (hk10 : (10 : UInt8) ∉ k)
    (hv : ∀ c : UInt8, isDigit c = false → c ≠ 45 → c ∉ v)
    (hkw : k ∈ kindWords ∧ k ++ 58 :: v ≠ asc "Down" ∧ k ++ 58 :: v ≠ asc "Up" ∧ k ++ 58 :: v ≠ asc "Press") :
    readLine o (valueLine id k v) =
      (match readInt v with
       | none => .outside
       | some x =>
         if k = asc "Enc" then (if inI32 x then .grammar [.event .enc id 0 false x] else .outside)
         else if k = asc "Speed" then (if inI32 x then .grammar [.event .speed id 0 false x] else .outside)
         else if k = asc "Abs" then (if 0 ≤ x ∧ v.head? ≠ some 45 then .grammar [.event .abs id 0 false x] else .outside)
         else if k = asc "Raw" then (if 0 ≤ x ∧ v.head? ≠ some 45 then .grammar [.event .raw id 0 false x] else .outside)
         else .outside) := by
  have hline : valueLine id k v = asc "HWC#" ++ (utoa id ++ 61 :: (k ++ 58 :: v)) := by
    simp [valueLine, kHWC, List.append_assoc]
  rw [hline, readLine_hwc o _ (by
    intro h; simp only [List.mem_append, List.mem_cons] at h
    rcases h with h | h | h | h | h
    · exact not_mem_utoa id 10 (by decide) h
    · exact absurd h (by decide)
    · exact hk10 h
    · exact absurd h (by decide)
    · exact hv 10 (by decide) (by decide) h)]
  unfold readEvent
  rw [splitOn_two 61 _ _ (not_mem_utoa id 61 (by decide)) (by
    intro h; simp only [List.mem_append, List.mem_cons] at h
    rcases h with h | h | h
    · exact hk61 h
    · exact absurd h (by decide)
    · exact hv 61 (by decide) (by decide) h)]
  simp only []
  have hko : kindOf (k ++ 58 :: v) = k := by
    unfold kindOf
    rw [splitOn_two 58 _ _ hk58 (hv 58 (by decide) (by decide))]
  rw [hko, if_neg (fun hn => hn hkw.1)]
  rw [readIdEdge_plain id hid]
  simp only []
  rw [if_neg hkw.2.1, if_neg hkw.2.2.1, if_neg hkw.2.2.2]
  rw [splitOn_two 58 _ _ hk58 (hv 58 (by decide) (by decide))]
  rfl

theorem ne_SE : asc "Speed" ≠ asc "Enc" := by decide
theorem ne_AE : asc "Abs" ≠ asc "Enc" := by decide
theorem ne_AS : asc "Abs" ≠ asc "Speed" := by decide
theorem ne_RE : asc "Raw" ≠ asc "Enc" := by decide
theorem ne_RS : asc "Raw" ≠ asc "Speed" := by decide
theorem ne_RA : asc "Raw" ≠ asc "Abs" := by decide

theorem kind_colon_ne (k v w : Bytes) (h58 : (58 : UInt8) ∉ w) : k ++ 58 :: v ≠ w := by
  intro e; apply h58; rw [← e]; simp

theorem hv_itoa (x : Int) : ∀ c : UInt8, isDigit c = false → c ≠ 45 → c ∉ itoa x := fun c hc h => not_mem_itoa x c hc h
theorem hv_utoa (n : Nat) : ∀ c : UInt8, isDigit c = false → c ≠ 45 → c ∉ utoa n := fun c hc _ => not_mem_utoa n c hc

theorem inI32_range (v : Int) (h : inI32 v = true) : -2147483648 ≤ v ∧ v ≤ 2147483647 := by
  unfold inI32 at h; simpa using h

/-- `HWC#id=Enc:v` for every signed 32-bit value -/
theorem enc_line (o : OutOracle) (id : Nat) (hid : id ≤ u32Max) (v : Int) (hv : inI32 v = true) :
    readLine o (valueLine id (asc "Enc") (itoa v)) = .grammar [.event .enc id 0 false v] := by
  obtain ⟨h1, h2⟩ := inI32_range v hv
  rw [readLine_value o id hid _ _ (by decide) (by decide) (by decide) (hv_itoa v)
    ⟨by decide, kind_colon_ne _ _ _ (by decide), kind_colon_ne _ _ _ (by decide), kind_colon_ne _ _ _ (by decide)⟩]
  rw [readInt_itoa v (by omega) (by omega)]
  simp [hv]

/-- `HWC#id=Speed:v` for every signed 32-bit value -/
theorem speed_line (o : OutOracle) (id : Nat) (hid : id ≤ u32Max) (v : Int) (hv : inI32 v = true) :
    readLine o (valueLine id (asc "Speed") (itoa v)) = .grammar [.event .speed id 0 false v] := by
  obtain ⟨h1, h2⟩ := inI32_range v hv
  rw [readLine_value o id hid _ _ (by decide) (by decide) (by decide) (hv_itoa v)
    ⟨by decide, kind_colon_ne _ _ _ (by decide), kind_colon_ne _ _ _ (by decide), kind_colon_ne _ _ _ (by decide)⟩]
  rw [readInt_itoa v (by omega) (by omega)]
  simp only []
  rw [if_neg ne_SE, if_pos trivial, if_pos hv]

theorem utoa_head_ne_dash (n : Nat) : (utoa n).head? ≠ some 45 := by
  unfold utoa
  cases h : digitsOf n with
  | nil => simp
  | cons b bs =>
    have := (digitsOf_head_digit n b (by rw [h]; simp)).1
    simpa using this

theorem readInt_utoa (n : Nat) (h : n ≤ u32Max) : readInt (utoa n) = some (n : Int) := by
  have := readInt_itoa (n : Int) (by omega) (by unfold u32Max at h; omega)
  rwa [itoa_natCast] at this

/-- `HWC#id=Abs:v` for every unsigned 32-bit value -/
theorem abs_line (o : OutOracle) (id : Nat) (hid : id ≤ u32Max) (v : Nat) (hv : v ≤ u32Max) :
    readLine o (valueLine id (asc "Abs") (utoa v)) = .grammar [.event .abs id 0 false v] := by
  rw [readLine_value o id hid _ _ (by decide) (by decide) (by decide) (hv_utoa v)
    ⟨by decide, kind_colon_ne _ _ _ (by decide), kind_colon_ne _ _ _ (by decide), kind_colon_ne _ _ _ (by decide)⟩]
  rw [readInt_utoa v hv]
  simp only []
  rw [if_neg ne_AE, if_neg ne_AS, if_pos trivial, if_pos ⟨by omega, utoa_head_ne_dash v⟩]

/-- `HWC#id=Raw:v` for every unsigned 32-bit value -/
theorem raw_line (o : OutOracle) (id : Nat) (hid : id ≤ u32Max) (v : Nat) (hv : v ≤ u32Max) :
    readLine o (valueLine id (asc "Raw") (utoa v)) = .grammar [.event .raw id 0 false v] := by
  rw [readLine_value o id hid _ _ (by decide) (by decide) (by decide) (hv_utoa v)
    ⟨by decide, kind_colon_ne _ _ _ (by decide), kind_colon_ne _ _ _ (by decide), kind_colon_ne _ _ _ (by decide)⟩]
  rw [readInt_utoa v hv]
  simp only []
  rw [if_neg ne_RE, if_neg ne_RS, if_neg ne_RA, if_pos trivial, if_pos ⟨by omega, utoa_head_ne_dash v⟩]

/-- `map=k:v` -/
theorem map_line (o : OutOracle) (k v : Nat) (hk : k ≤ u32Max) (hv : v ≤ u32Max) :
    readLine o (mapLine (k, v)) = .grammar [.mapEntry k v] := by
  have hline : mapLine (k, v) = asc "map=" ++ (utoa k ++ 58 :: utoa v) := by simp [mapLine, kMap]
  rw [hline, readLine_map o _ (by
    intro h; simp only [List.mem_append, List.mem_cons] at h
    rcases h with h | h | h
    · exact not_mem_utoa k 10 (by decide) h
    · exact absurd h (by decide)
    · exact not_mem_utoa v 10 (by decide) h)]
  unfold readMap
  rw [splitOn_two 58 _ _ (not_mem_utoa k 58 (by decide)) (not_mem_utoa v 58 (by decide))]
  unfold utoa
  simp [readNum_digitsOf k hk, readNum_digitsOf v hv]

theorem asc_Mem : asc "Mem" = [77, 101, 109] := by decide
theorem asc_Shift : asc "Shift" = [83, 104, 105, 102, 116] := by decide
theorem asc_State : asc "State" = [83, 116, 97, 116, 101] := by decide
theorem asc_Flag : asc "Flag#" = [70, 108, 97, 103, 35] := by decide
theorem asc_HWC : asc "HWC#" = [72, 87, 67, 35] := by decide
theorem asc_map : asc "map=" = [109, 97, 112, 61] := by decide

theorem upperDigit_not (c : UInt8) (h : Spec.Out.isUpperDigit c = false) (id : Bytes) (hid : id.all Spec.Out.isUpperDigit = true) : c ∉ id := by
  intro hm
  rw [List.all_eq_true] at hid
  have := hid c hm
  rw [h] at this; exact absurd this (by decide)

theorem infoKeys_not_reg : ∀ k ∈ infoKeys, (asc "Mem").isPrefixOf k = false ∧ (asc "Shift").isPrefixOf k = false ∧
    (asc "State").isPrefixOf k = false ∧ (asc "Flag#").isPrefixOf k = false := by decide

theorem isPrefixOf_append (w r : Bytes) : w.isPrefixOf (w ++ r) = true := by
  induction w with
  | nil => simp
  | cons a as ih => simp [ih]

/-- the common part of reading a register line `w ++ id ++ "=" ++ v`: it reaches `readRegister` -/
theorem readLine_reg (o : OutOracle) (w id v : Bytes)
    (hw : w = asc "Mem" ∨ w = asc "Shift" ∨ w = asc "State" ∨ w = asc "Flag#")
    (hid : id.all Spec.Out.isUpperDigit = true) (hv : (10 : UInt8) ∉ v) :
    readLine o (w ++ id ++ 61 :: v) = (match readRegister (w ++ id ++ 61 :: v) with | some c => c | none => .nonGrammar) := by
  have hw10 : (10 : UInt8) ∉ w := by rcases hw with h | h | h | h <;> subst h <;> decide
  have hw61 : (61 : UInt8) ∉ w := by rcases hw with h | h | h | h <;> subst h <;> decide
  have hkey : w ++ id ∉ infoKeys := by
    intro hk
    have h4 := infoKeys_not_reg _ hk
    have := isPrefixOf_append w id
    rcases hw with h | h | h | h <;> subst h
    · rw [h4.1] at this; exact absurd this (by decide)
    · rw [h4.2.1] at this; exact absurd this (by decide)
    · rw [h4.2.2.1] at this; exact absurd this (by decide)
    · rw [h4.2.2.2] at this; exact absurd this (by decide)
  have hnoeq : (61 : UInt8) ∉ w ++ id := by
    intro h; simp only [List.mem_append] at h
    rcases h with h | h
    · exact hw61 h
    · exact upperDigit_not 61 (by decide) id hid h
  unfold readLine
  rw [contains_false_of _ 10 (by
    intro h; simp only [List.mem_append, List.mem_cons] at h
    rcases h with (h | h) | h | h
    · exact hw10 h
    · exact upperDigit_not 10 (by decide) id hid h
    · exact absurd h (by decide)
    · exact hv h)]
  rw [if_neg (by simp), if_neg (not_flow_of_eq _ (by simp))]
  have h1 : dropPrefix (asc "HWC#") (w ++ id ++ 61 :: v) = none := by
    rw [asc_HWC]
    rcases hw with h | h | h | h <;> subst h
    · rw [asc_Mem]; simp [dropPrefix]
    · rw [asc_Shift]; simp [dropPrefix]
    · rw [asc_State]; simp [dropPrefix]
    · rw [asc_Flag]; simp [dropPrefix]
  have h2 : dropPrefix (asc "map=") (w ++ id ++ 61 :: v) = none := by
    rw [asc_map]
    rcases hw with h | h | h | h <;> subst h
    · rw [asc_Mem]; simp [dropPrefix]
    · rw [asc_Shift]; simp [dropPrefix]
    · rw [asc_State]; simp [dropPrefix]
    · rw [asc_Flag]; simp [dropPrefix]
  rw [h1, h2, splitFirst_append 61 (w ++ id) v hnoeq]
  simp only [hkey, if_false]
  cases readRegister (w ++ id ++ 61 :: v) <;> rfl

theorem regShape_line (id v : Bytes) (hid : id.all Spec.Out.isUpperDigit = true) : regShape (id ++ 61 :: v) = some (id, v) := by
  unfold regShape
  rw [splitFirst_append 61 id v (upperDigit_not 61 (by decide) id hid)]
  simp [hid]

theorem ofNum_utoa (n : Nat) (hn : n ≤ u32Max) (f : Nat → List Effect) : ofNum (utoa n) f = .grammar (f n) := by
  unfold ofNum utoa; rw [readNum_digitsOf n hn]

theorem readRegister_word (w id : Bytes) (n : Nat) (hn : n ≤ u32Max)
    (hw : w = asc "Mem" ∨ w = asc "Shift" ∨ w = asc "State") (hid : id.all Spec.Out.isUpperDigit = true) :
    readRegister (w ++ id ++ 61 :: utoa n) = some (.grammar [.reg w id n]) := by
  unfold readRegister
  have hf : dropPrefix (asc "Flag#") (w ++ id ++ 61 :: utoa n) = none := by
    rw [asc_Flag]
    rcases hw with h | h | h <;> subst h
    · rw [asc_Mem]; simp [dropPrefix]
    · rw [asc_Shift]; simp [dropPrefix]
    · rw [asc_State]; simp [dropPrefix]
  rw [hf]
  simp only []
  unfold regWordsSpec
  rcases hw with h | h | h <;> subst h
  · rw [List.findSome?_cons, List.append_assoc, dropPrefix_append]
    simp only []
    rw [regShape_line id _ hid]
    simp [ofNum_utoa n hn]
  · have hm : dropPrefix (asc "Mem") (asc "Shift" ++ id ++ 61 :: utoa n) = none := by
      rw [asc_Mem, asc_Shift]; simp [dropPrefix]
    rw [List.findSome?_cons, hm]
    simp only []
    rw [List.findSome?_cons, List.append_assoc, dropPrefix_append]
    simp only []
    rw [regShape_line id _ hid]
    simp [ofNum_utoa n hn]
  · have hm : dropPrefix (asc "Mem") (asc "State" ++ id ++ 61 :: utoa n) = none := by
      rw [asc_Mem, asc_State]; simp [dropPrefix]
    have hs : dropPrefix (asc "Shift") (asc "State" ++ id ++ 61 :: utoa n) = none := by
      rw [asc_Shift, asc_State]; simp [dropPrefix]
    rw [List.findSome?_cons, hm]
    simp only []
    rw [List.findSome?_cons, hs]
    simp only []
    rw [List.findSome?_cons, List.append_assoc, dropPrefix_append]
    simp only []
    rw [regShape_line id _ hid]
    simp [ofNum_utoa n hn]

theorem digits_upper (id : Bytes) (h : id.all isDigit = true) : id.all Spec.Out.isUpperDigit = true := by
  rw [List.all_eq_true] at *
  intro c hc
  have := h c hc
  unfold Spec.Out.isUpperDigit
  simp [this]

theorem readRegister_flag (id : Bytes) (n : Nat) (hn : n ≤ u32Max)
    (hid : id.all isDigit = true) (hle : natOfDigits id ≤ u32Max) :
    readRegister (asc "Flag#" ++ id ++ 61 :: utoa n) =
      some (.grammar [.reg (asc "Flag") (digitsOf (natOfDigits id)) (if n > 0 then 1 else 0)]) := by
  unfold readRegister
  rw [List.append_assoc, dropPrefix_append]
  simp only []
  rw [regShape_line id _ (digits_upper id hid)]
  have hid' : ∀ x ∈ id, isDigit x = true := by simpa [List.all_eq_true] using hid
  simp [hle, ofNum_utoa n hn]
  exact hid'

/-- **register_line**: every register of the domain (`Mem`/`Shift`/`State` with an id in `[A-Z0-9]*`, `Flag#` with a
decimal id; any 32-bit value) is read back from its line; FLAG values are Booleans, FLAG ids numbers. -/
theorem register_line (o : OutOracle) (r : Register) (hr : registerOk r = true) :
    readOutbound o (registerLines r) = regEff r := by
  unfold registerOk at hr
  simp only [Bool.and_eq_true, decide_eq_true_eq] at hr
  obtain ⟨⟨⟨h0, h3⟩, hv⟩, hid⟩ := hr
  have hvv : r.value ≤ u32Max := by simpa [inU32] using hv
  have hv10 : (10 : UInt8) ∉ utoa r.value := not_mem_utoa _ 10 (by decide)
  unfold registerLines regPrefix regEff readOutbound
  have hcases : r.reg = 0 ∨ r.reg = 1 ∨ r.reg = 2 ∨ r.reg = 3 := by omega
  rcases hcases with h | h | h | h
  · rw [h] at hid ⊢
    simp only [show ¬ ((0:Int) = 1) by decide, if_false] at hid
    simp only [if_true, List.flatMap_cons, List.flatMap_nil, List.append_nil]
    rw [readLine_reg o _ _ _ (Or.inl rfl) hid hv10, readRegister_word _ _ _ hvv (Or.inl rfl) hid]
    rfl
  · rw [h] at hid ⊢
    simp only [if_true, Bool.and_eq_true] at hid
    simp only [show ¬ ((1:Int) = 0) by decide, if_false, if_true, List.flatMap_cons, List.flatMap_nil, List.append_nil]
    rw [readLine_reg o _ _ _ (Or.inr (Or.inr (Or.inr rfl))) (digits_upper _ hid.1) hv10,
      readRegister_flag _ _ hvv hid.1 (by simpa [inU32] using hid.2)]
    rfl
  · rw [h] at hid ⊢
    simp only [show ¬ ((2:Int) = 1) by decide, if_false] at hid
    simp only [show ¬ ((2:Int) = 0) by decide, show ¬ ((2:Int) = 1) by decide, if_false, if_true, List.flatMap_cons, List.flatMap_nil, List.append_nil]
    rw [readLine_reg o _ _ _ (Or.inr (Or.inl rfl)) hid hv10, readRegister_word _ _ _ hvv (Or.inr (Or.inl rfl)) hid]
    rfl
  · rw [h] at hid ⊢
    simp only [show ¬ ((3:Int) = 1) by decide, if_false] at hid
    simp only [show ¬ ((3:Int) = 0) by decide, show ¬ ((3:Int) = 1) by decide, show ¬ ((3:Int) = 2) by decide, if_false, if_true, List.flatMap_cons, List.flatMap_nil, List.append_nil]
    rw [readLine_reg o _ _ _ (Or.inr (Or.inr (Or.inl rfl))) hid hv10, readRegister_word _ _ _ hvv (Or.inr (Or.inr rfl)) hid]
    rfl

end RawPanelVerif.OutLemmas
