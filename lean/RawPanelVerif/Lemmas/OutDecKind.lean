import RawPanelVerif.Lemmas.OutDecInfo
/-!
# `HWC#` lines whose kind word is not one of the seven: no regular expression of the decoder matches

Inversion of the event matcher (`matchCmd_some`, `matchTail_some`): whenever `regex_cmd_inbound` matches, the text after
the LAST `=` is `Kind` or `Kind:value` with `Kind` one of the alternatives.  Hence a line `HWC#lhs=rhs` (one `=`) whose
`rhs` does not begin with a kind word (up to its first `:`) is matched by nothing and decodes to the empty message
(`dec_unknown_kind`).
-/
namespace RawPanelVerif.OutLemmas
open RawPanelVerif RawPanelVerif.Bytes RawPanelVerif.MsgOut RawPanelVerif.EncOut RawPanelVerif.DecOut
open RawPanelVerif.Spec.Out

theorem tailValue_some (k r k' g5 v : Bytes) (h : tailValue k r = some (k', g5, v)) :
    k' = k ∧ ((r = [] ∧ v = []) ∨ (r = 58 :: v ∧ v ≠ [] ∧ v.all isDashDigit = true)) := by
  unfold tailValue at h
  split at h
  · injection h with h; injection h with h1 h2; injection h2 with h2 h3
    exact ⟨h1.symm, Or.inl ⟨rfl, h3.symm⟩⟩
  · rename_i v'
    split at h
    · rename_i hc
      injection h with h; injection h with h1 h2; injection h2 with h2 h3
      subst h3
      exact ⟨h1.symm, Or.inr ⟨rfl, hc.1, hc.2⟩⟩
    · exact absurd h (by simp)
  · exact absurd h (by simp)

/-- inversion of `(K1|K2|…)(|:([-0-9]+))$` -/
theorem matchTail_some (kinds : List Bytes) (t k g5 v : Bytes) (h : matchTail kinds t = some (k, g5, v)) :
    k ∈ kinds ∧ ((t = k ∧ v = []) ∨ (t = k ++ 58 :: v ∧ v ≠ [] ∧ v.all isDashDigit = true)) := by
  unfold matchTail at h
  obtain ⟨k0, hk0, hf⟩ := List.exists_of_findSome?_eq_some h
  cases hs : stripPrefix k0 t with
  | none => rw [hs] at hf; simp at hf
  | some r =>
    rw [hs] at hf
    simp only [] at hf
    obtain ⟨e, hr⟩ := tailValue_some k0 r k g5 v hf
    subst e
    have et := stripPrefix_some _ _ _ hs
    refine ⟨hk0, ?_⟩
    rcases hr with ⟨hr, hv⟩ | ⟨hr, hv⟩
    · left; rw [et, hr, List.append_nil]; exact ⟨rfl, hv⟩
    · right; rw [et, hr]; exact ⟨rfl, hv⟩

theorem takeDot_some (s ru r1 : Bytes) (h : takeDot s = some (ru, r1)) : s = ru ++ r1 := by
  unfold takeDot at h
  split at h
  · exact absurd h (by simp)
  · exact absurd h (by simp)
  · injection h with h; injection h with h1 h2
    rw [← h1, ← h2, List.take_append_drop]

/-- inversion of the event matcher: the text after some `=` is matched by the kind/value tail -/
theorem matchCmd_some (kinds : List Bytes) (s : Bytes) (m : CmdM) (h : matchCmd kinds s = some m) :
    ∃ pre t, s = kHWC ++ pre ++ 61 :: t ∧ matchTail kinds t = some (m.kind, m.g5, m.val) := by
  unfold matchCmd at h
  cases hs : stripPrefix kHWC s with
  | none => rw [hs] at h; simp at h
  | some r0 =>
    rw [hs] at h
    simp only [] at h
    have es := stripPrefix_some _ _ _ hs
    obtain ⟨e0, _, _⟩ := spanP_spec isDigit r0
    split at h
    · exact absurd h (by simp)
    · split at h
      · rename_i k g5 v hm
        injection h with h; subst h
        -- the plain alternative: the remainder starts with `=`
        split at hm
        · rename_i t hr
          exact ⟨(spanP isDigit r0).1, t, by rw [es, List.append_assoc, ← hr, ← e0], hm⟩
        · exact absurd hm (by simp)
      · split at h
        · exact absurd h (by simp)
        · rename_i ru r1 htd
          have e1 := takeDot_some _ _ _ htd
          obtain ⟨e2, _, _⟩ := spanP_spec isDigit r1
          try simp only [] at h
          split at h
          · exact absurd h (by simp)
          · split at h
            · rename_i t hr2
              split at h
              · rename_i k g5 v hm
                injection h with h; subst h
                refine ⟨(spanP isDigit r0).1 ++ ru ++ (spanP isDigit r1).1, t, ?_, hm⟩
                rw [es]
                conv => lhs; rw [e0, e1, e2, hr2]
                simp [List.append_assoc]
              · exact absurd h (by simp)
            · exact absurd h (by simp)

/-- the text after the last `=` is unique -/
theorem last_split_unique (a b t r : Bytes) (ht : (61 : UInt8) ∉ t) (hr : (61 : UInt8) ∉ r)
    (e : a ++ 61 :: t = b ++ 61 :: r) : t = r := by
  induction a generalizing b with
  | nil =>
    cases b with
    | nil => simpa using e
    | cons c cs =>
      simp only [List.nil_append, List.cons_append, List.cons.injEq] at e
      exact absurd (by rw [e.2]; simp) ht
  | cons x xs ih =>
    cases b with
    | nil =>
      simp only [List.nil_append, List.cons_append, List.cons.injEq] at e
      exact absurd (by rw [← e.2]; simp) hr
    | cons c cs =>
      simp only [List.cons_append, List.cons.injEq] at e
      exact ih cs e.2

theorem dashDigit_no (v : Bytes) (h : v.all isDashDigit = true) (c : UInt8) (hc : isDashDigit c = false) : c ∉ v := by
  intro hm
  rw [List.all_eq_true] at h
  rw [h c hm] at hc; exact absurd hc (by decide)

theorem kindsRepaired_no_eq : ∀ k ∈ kindsRepaired, (61 : UInt8) ∉ k := by decide
theorem kindsRepaired_no_colon : ∀ k ∈ kindsRepaired, (58 : UInt8) ∉ k := by decide
theorem kindsRepaired_sub : ∀ k ∈ kindsRepaired, k ∈ kindWords := by decide

/-- a tail the event regex accepts begins (up to its first `:`) with one of the kind words -/
theorem kindOf_of_matchTail (t k g5 v : Bytes) (h : matchTail kindsRepaired t = some (k, g5, v)) :
    kindOf t ∈ kindWords ∧ (61 : UInt8) ∉ t := by
  obtain ⟨hk, ht⟩ := matchTail_some _ _ _ _ _ h
  have h58 := kindsRepaired_no_colon k hk
  have h61 := kindsRepaired_no_eq k hk
  have hk := kindsRepaired_sub k hk
  rcases ht with ⟨e, _⟩ | ⟨e, _, hall⟩
  · subst e
    refine ⟨?_, h61⟩
    unfold kindOf; rw [splitOn_nosep 58 _ h58]; exact hk
  · subst e
    refine ⟨?_, ?_⟩
    · unfold kindOf; rw [splitOn_append_sep 58 _ _ h58]; exact hk
    · intro hm
      simp only [List.mem_append, List.mem_cons] at hm
      rcases hm with hm | hm | hm
      · exact h61 hm
      · exact absurd hm (by decide)
      · exact dashDigit_no v hall 61 (by decide) hm

/-- **unknown kind word**: `regex_cmd_inbound` does not match `HWC#lhs=rhs` (one `=`) when `rhs` does not begin with
one of the seven kind words -/
theorem matchCmd_unknown_kind (lhs rhs : Bytes) (h61 : (61 : UInt8) ∉ rhs) (hk : kindOf rhs ∉ kindWords) :
    matchCmd kindsRepaired (kHWC ++ (lhs ++ 61 :: rhs)) = none := by
  cases hm : matchCmd kindsRepaired (kHWC ++ (lhs ++ 61 :: rhs)) with
  | none => rfl
  | some m =>
    obtain ⟨pre, t, e, ht⟩ := matchCmd_some _ _ _ hm
    obtain ⟨hkt, ht61⟩ := kindOf_of_matchTail _ _ _ _ ht
    rw [List.append_assoc] at e
    have e' := List.append_cancel_left e
    have := last_split_unique lhs pre rhs t h61 ht61 e'
    subst this
    exact absurd hkt hk

theorem readEvent_ng (rest : Bytes) (h : readEvent rest = .nonGrammar) :
    ∃ lhs rhs, rest = lhs ++ 61 :: rhs ∧ (61 : UInt8) ∉ rhs ∧ kindOf rhs ∉ kindWords := by
  unfold readEvent at h
  split at h
  · rename_i lhs rhs hs
    obtain ⟨e, _, h2⟩ := splitOn_eq_two 61 rest lhs rhs hs
    by_cases hk : kindOf rhs ∉ kindWords
    · exact ⟨lhs, rhs, e, h2, hk⟩
    · rw [if_neg hk] at h
      exfalso
      revert h
      repeat' split
      all_goals simp
  · exact absurd h (by simp)

theorem regWords_head : ∀ w ∈ regWords, w.head? ≠ some 72 ∧ w ≠ [] := by decide
theorem genericKeys_head : ∀ k ∈ genericKeys, k.head? ≠ some 72 ∧ k ≠ [] := by decide

/-- a line beginning with `HWC#` that the event regex does not match decodes to the empty message -/
theorem decLine_hwc_nomatch (o : OutOracle) (r : Bytes) (hm : matchCmd kindsRepaired (kHWC ++ r) = none) :
    decLine repaired o (kHWC ++ r) = some {} := by
  have hmap : matchMap (kHWC ++ r) = none :=
    matchMap_not_map _ (by rw [kHWC_lit]; show dropPrefix (109 :: _) (72 :: _) = none; exact dropPrefix_head_ne _ _ _ _ (by decide))
  have hg : matchGeneric (kHWC ++ r) = none := by
    cases hx : matchGeneric (kHWC ++ r) with
    | none => rfl
    | some kv =>
      obtain ⟨k', v'⟩ := kv
      obtain ⟨e, hk', _, _⟩ := matchGeneric_none_of _ k' v' hx
      obtain ⟨hh, hne⟩ := genericKeys_head k' hk'
      cases k' with
      | nil => exact absurd rfl hne
      | cons c cs =>
        rw [kHWC_lit] at e
        simp only [List.cons_append, List.cons.injEq] at e
        exact absurd (by simp [← e.1]) hh
  have hr : matchReg (kHWC ++ r) = none := by
    cases hx : matchReg (kHWC ++ r) with
    | none => rfl
    | some t =>
      obtain ⟨w, i, v'⟩ := t
      obtain ⟨e, hw, _, _, _⟩ := matchReg_some _ w i v' hx
      obtain ⟨hh, hne⟩ := regWords_head w hw
      cases w with
      | nil => exact absurd rfl hne
      | cons c cs =>
        rw [kHWC_lit] at e
        simp only [List.cons_append, List.cons.injEq] at e
        exact absurd (by simp [← e.1]) hh
  unfold decLine
  rw [if_neg (by rw [kHWC_lit]; simp), flowOfWord_hwc]
  simp only []
  rw [show repaired.kinds = kindsRepaired from rfl, hm]
  simp only []
  rw [hmap]
  simp only []
  rw [hg]
  simp only []
  rw [hr]

/-- **an `HWC#` line with an unknown kind word is silent** -/
theorem dec_unknown_kind (o : OutOracle) (rest : Bytes) (h : readEvent rest = .nonGrammar) :
    decLine repaired o (asc "HWC#" ++ rest) = some {} ∧ D o (asc "HWC#" ++ rest) = [] := by
  obtain ⟨lhs, rhs, e, h61, hk⟩ := readEvent_ng rest h
  subst e
  have hl : asc "HWC#" = kHWC := rfl
  have hd := decLine_hwc_nomatch o _ (matchCmd_unknown_kind lhs rhs h61 hk)
  rw [hl]
  exact ⟨hd, by rw [D_some o _ {} hd, eff_empty]⟩

end RawPanelVerif.OutLemmas
