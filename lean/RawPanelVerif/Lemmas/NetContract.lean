import RawPanelVerif.Lemmas.NetRun
/-! The timed read loop on streams that keep the timing contract (`Spec.Net.inContractT`): every arrival is enabled,
the loop never stops, and it ends at a frame boundary with no deadline armed; and the deterministic script runner
`runT` against the labelled runs. -/
namespace RawPanelVerif.Net
open RawPanelVerif

abbrev TBytes := Spec.Net.TBytes

/-- the arrivals of a time-stamped byte stream as labels -/
def arrivals (tb : TBytes) : List Lbl := tb.map (fun p => Lbl.arrive p.1 p.2)

theorem arrivals_append (a b : TBytes) : arrivals (a ++ b) = arrivals a ++ arrivals b := by simp [arrivals]

theorem arrivedBefore_arrivals (tb : TBytes) : arrivedBefore (arrivals tb) = tb.map (·.2) := by
  induction tb with
  | nil => rfl
  | cons p r ih => simp only [arrivals, List.map_cons, arrivedBefore] at ih ⊢; rw [ih]

theorem firstStop_arrivals (tb : TBytes) : firstStop (arrivals tb) = none := by
  induction tb with
  | nil => rfl
  | cons p r ih => simp only [arrivals, List.map_cons, firstStop, Lbl.stops] at ih ⊢; simpa using ih

/-- the observable part of a loop state: read state, read deadline, clock; the loop has been entered -/
def St (s : CState) (r : RState) (rd : Option Nat) (clk : Nat) : Prop :=
  s.r = r ∧ s.dl.rd = rd ∧ s.clock = clk ∧ s.entered = true

/-- one enabled arrival -/
theorem arrive_St (cfg : Cfg) (s : CState) (r : RState) (rd : Option Nat) (clk now : Nat) (b : UInt8)
    (h : St s r rd clk) (hl : r.live = true) (hc : clk ≤ now) (hx : ∀ d, rd = some d → now < d) :
    ∃ s1, step cfg s (.arrive now b) = some (s1, (stepByte r b).2) ∧
      St s1 (stepByte r b).1 (stepByteT cfg now r b s.dl).2.1.rd now := by
  obtain ⟨h1, h2, h3, h4⟩ := h
  have hlive : s.r.live = true := by rw [h1]; exact hl
  have hne : notExpired s now = true := by
    simp only [notExpired, h2]
    cases rd with
    | none => rfl
    | some d => simpa using hx d rfl
  refine ⟨(tstep cfg now s b).1, ?_, ?_⟩
  · simp only [step, h4, h3, hc, hne, true_and, implies_true, and_self, if_true]
    rw [tstep_live cfg now s b hlive, h1]
  · rw [tstep_live cfg now s b hlive, h1]
    exact ⟨rfl, rfl, rfl, h4⟩

/-! ### a payload read inside its deadline -/

/-- arrival time of the last byte (`c` if there is none) -/
def endClock : Nat → TBytes → Nat
  | c, [] => c
  | _, p :: r => endClock p.1 r

theorem endClock_cons (c : Nat) (p : Nat × UInt8) (r : TBytes) : endClock c (p :: r) = endClock p.1 r := rfl

theorem endClock_append (c : Nat) (a b : TBytes) : endClock c (a ++ b) = endClock (endClock c a) b := by
  induction a generalizing c with
  | nil => rfl
  | cons p r ih => simp only [List.cons_append, endClock_cons, ih]

theorem sortedFrom_append (c : Nat) (a b : TBytes) :
    Spec.Net.sortedFrom c (a ++ b) ↔ Spec.Net.sortedFrom c a ∧ Spec.Net.sortedFrom (endClock c a) b := by
  induction a generalizing c with
  | nil => simp [Spec.Net.sortedFrom, endClock]
  | cons p r ih =>
    simp only [List.cons_append, Spec.Net.sortedFrom, ih, endClock_cons]
    exact ⟨fun ⟨h1, h2, h3⟩ => ⟨⟨h1, h2⟩, h3⟩, fun ⟨⟨h1, h2⟩, h3⟩ => ⟨h1, h2, h3⟩⟩

theorem pay_run (cfg : Cfg) (hc : Coded cfg) : ∀ (tb : TBytes) (s : CState) (need : Nat) (rg : Bytes) (D clk : Nat),
    St s (.waitPayload need rg) (some D) clk → tb.length = need → 1 ≤ need →
    Spec.Net.sortedFrom clk tb → (∀ p ∈ tb, p.1 < D) →
    ∃ s' e, runL cfg s (arrivals tb) = some (s', e) ∧ St s' (.waitHdr []) none (endClock clk tb) := by
  intro tb
  induction tb with
  | nil => intro s need rg D clk _ hlen h1; simp at hlen; omega
  | cons p r ih =>
    intro s need rg D clk hst hlen h1 hs hD
    obtain ⟨hs1, hs2⟩ := hs
    obtain ⟨s1, hstep, hst1⟩ := arrive_St cfg s _ _ clk p.1 p.2 hst rfl hs1
      (fun d hd => by cases hd; exact hD p (by simp))
    by_cases hn : need ≤ 1
    · -- the last payload byte
      have hr : r = [] := by
        simp only [List.length_cons] at hlen
        exact List.eq_nil_of_length_eq_zero (by omega)
      subst hr
      rw [stepByte_pay_last need rg p.2 hn] at hstep hst1
      rw [stepByteT_dl_pay_last cfg hc p.1 need rg p.2 s.dl hn] at hst1
      refine ⟨s1, [Eff.deliver (p.2 :: rg).reverse] ++ [], ?_, ?_⟩
      · simp only [arrivals, List.map_cons, List.map_nil, runL, hstep]
      · simpa [endClock] using hst1
    · rw [stepByte_pay_more need rg p.2 hn] at hstep hst1
      rw [stepByteT_dl_pay_more cfg p.1 need rg p.2 s.dl hn] at hst1
      have hrd : s.dl.rd = some D := hst.2.1
      rw [hrd] at hst1
      obtain ⟨s', e, hrun, hst'⟩ := ih s1 (need - 1) (p.2 :: rg) D p.1 hst1
        (by simp only [List.length_cons] at hlen; omega) (by omega) hs2 (fun q hq => hD q (by simp [hq]))
      refine ⟨s', [] ++ e, ?_, ?_⟩
      · simp only [arrivals, List.map_cons, runL, hstep]
        simp only [arrivals] at hrun
        rw [hrun]
      · rw [endClock_cons]; exact hst'

/-! ### a whole stream inside the contract -/

theorem le32_four (a b c d : UInt8) : le32 ([a, b, c, d] : Bytes) = Spec.Net.u32le [a, b, c, d] := (u32le_eq_le32 a b c d).symm

theorem run_in_contract (cfg : Cfg) (hc : Coded cfg) (harm : cfg.hdrRest = .arm .read frameTimeout) (n : Nat) :
    ∀ (tb : TBytes) (s : CState) (clk : Nat), tb.length ≤ n → St s (.waitHdr []) none clk →
    Spec.Net.sortedFrom clk tb → Spec.Net.inContractT limit frameTimeout tb = true →
    ∃ s' e, runL cfg s (arrivals tb) = some (s', e) ∧ St s' (.waitHdr []) none (endClock clk tb) := by
  induction n with
  | zero =>
    intro tb s clk hlen hst _ _
    have : tb = [] := List.eq_nil_of_length_eq_zero (by omega)
    subst this
    exact ⟨s, [], rfl, by simpa [endClock] using hst⟩
  | succ n ih =>
    intro tb s clk hlen hst hs hct
    match tb, hlen, hs, hct with
    | [], _, _, _ => exact ⟨s, [], rfl, by simpa [endClock] using hst⟩
    | [_], _, _, hct => simp [Spec.Net.inContractT] at hct
    | [_, _], _, _, hct => simp [Spec.Net.inContractT] at hct
    | [_, _, _], _, _, hct => simp [Spec.Net.inContractT] at hct
    | a :: b :: c :: d :: rest, hlen, hs, hct =>
      rw [Spec.Net.inContractT] at hct
      simp only [Bool.and_eq_true, decide_eq_true_eq, List.all_eq_true] at hct
      obtain ⟨⟨⟨⟨⟨⟨hb, hcc⟩, hd⟩, hlim⟩, hfit⟩, hpay⟩, hrest⟩ := hct
      obtain ⟨sa, sb, sc, sd, srest⟩ : clk ≤ a.1 ∧ a.1 ≤ b.1 ∧ b.1 ≤ c.1 ∧ c.1 ≤ d.1 ∧ Spec.Net.sortedFrom d.1 rest := by
        simp only [Spec.Net.sortedFrom] at hs
        exact ⟨hs.1, hs.2.1, hs.2.2.1, hs.2.2.2.1, hs.2.2.2.2⟩
      have hT := frameTimeout_pos
      -- first header byte: no deadline before, the header deadline after
      obtain ⟨s1, st1, hs1⟩ := arrive_St cfg s _ _ clk a.1 a.2 hst rfl sa (fun d hd => by cases hd)
      rw [stepByte_hdr_short [] a.2 (by simp)] at st1 hs1
      rw [stepByteT_dl_first, harm] at hs1
      simp only [DlOp.apply] at hs1
      -- second and third
      obtain ⟨s2, st2, hs2⟩ := arrive_St cfg s1 _ _ a.1 b.1 b.2 hs1 rfl sb (fun d hd => by cases hd; exact hb)
      rw [stepByte_hdr_short [a.2] b.2 (by simp)] at st2 hs2
      rw [stepByteT_dl_hdr_short cfg b.1 a.2 [] b.2 s1.dl (by simp), hs1.2.1] at hs2
      obtain ⟨s3, st3, hs3⟩ := arrive_St cfg s2 _ _ b.1 c.1 c.2 hs2 rfl sc (fun d hd => by cases hd; exact hcc)
      rw [stepByte_hdr_short [b.2, a.2] c.2 (by simp)] at st3 hs3
      rw [stepByteT_dl_hdr_short cfg c.1 b.2 [a.2] c.2 s2.dl (by simp), hs2.2.1] at hs3
      -- fourth: the header is complete
      obtain ⟨s4, st4, hs4⟩ := arrive_St cfg s3 _ _ c.1 d.1 d.2 hs3 rfl sd (fun x hx => by cases hx; exact hd)
      have h4 : ¬ (d.2 :: c.2 :: [b.2, a.2]).length < 4 := by simp
      have hle : le32 (d.2 :: c.2 :: [b.2, a.2]).reverse = Spec.Net.u32le [a.2, b.2, c.2, d.2] := by
        simp only [List.reverse_cons, List.reverse_nil, List.nil_append, List.cons_append]
        exact le32_four a.2 b.2 c.2 d.2
      have hl : le32 (d.2 :: c.2 :: [b.2, a.2]).reverse < limit := by rw [hle]; exact hlim
      have hrun4 : ∀ (s' : CState) (e : List Eff), runL cfg s4 (arrivals rest) = some (s', e) →
          runL cfg s (arrivals (a :: b :: c :: d :: rest)) =
            some (s', [] ++ ([] ++ ([] ++ ((stepByte (.waitHdr [c.2, b.2, a.2]) d.2).2 ++ e)))) := by
        intro s' e hr
        simp only [arrivals, List.map_cons, runL, st1, st2, st3, st4]
        simp only [arrivals] at hr
        rw [hr]
      by_cases h0 : le32 (d.2 :: c.2 :: [b.2, a.2]).reverse = 0
      · -- empty payload: delivered at once, the loop top clears the deadline
        rw [stepByte_hdr_zero _ d.2 h4 hl h0] at hs4
        rw [stepByteT_dl_hdr_zero cfg hc d.1 c.2 [b.2, a.2] d.2 s3.dl h4 hl h0] at hs4
        have hlen0 : Spec.Net.u32le [a.2, b.2, c.2, d.2] = 0 := by rw [← hle]; exact h0
        rw [hlen0, List.drop_zero] at hrest
        obtain ⟨s', e, hr, hst'⟩ := ih rest s4 d.1 (by simp only [List.length_cons] at hlen; omega) hs4 srest hrest
        refine ⟨s', _, hrun4 s' e hr, ?_⟩
        simpa [endClock_cons] using hst'
      · rw [stepByte_hdr_pay _ d.2 h4 hl h0] at hs4
        rw [stepByteT_dl_hdr_pay cfg hc d.1 c.2 [b.2, a.2] d.2 s3.dl h4 hl h0] at hs4
        simp only at hs4
        rw [hle] at hs4
        -- the payload, then the rest of the stream
        have hsplit : rest = rest.take (Spec.Net.u32le [a.2, b.2, c.2, d.2]) ++ rest.drop (Spec.Net.u32le [a.2, b.2, c.2, d.2]) :=
          (List.take_append_drop _ _).symm
        have hsr := srest
        rw [hsplit, sortedFrom_append] at hsr
        have hlen0 : ¬ Spec.Net.u32le [a.2, b.2, c.2, d.2] = 0 := by rw [← hle]; exact h0
        obtain ⟨s5, e5, hr5, hs5⟩ := pay_run cfg hc (rest.take (Spec.Net.u32le [a.2, b.2, c.2, d.2])) s4 _ [] _ d.1 hs4
          (by rw [List.length_take]; omega) (by omega) hsr.1 hpay
        obtain ⟨s', e, hr, hst'⟩ := ih (rest.drop (Spec.Net.u32le [a.2, b.2, c.2, d.2])) s5 _
          (by simp only [List.length_cons] at hlen; rw [List.length_drop]; omega) hs5 hsr.2 hrest
        have hr45 : runL cfg s4 (arrivals rest) = some (s', e5 ++ e) := by
          rw [hsplit, arrivals_append, runL_append, hr5]
          simp only [hr]
        refine ⟨s', _, hrun4 s' _ hr45, ?_⟩
        have hend : endClock clk (a :: b :: c :: d :: rest) = endClock d.1 rest := by
          simp only [endClock_cons]
        rw [hend]
        have : endClock d.1 rest = endClock (endClock d.1 (rest.take (Spec.Net.u32le [a.2, b.2, c.2, d.2])))
            (rest.drop (Spec.Net.u32le [a.2, b.2, c.2, d.2])) := by
          rw [← endClock_append, List.take_append_drop]
        rw [this]; exact hst'

end RawPanelVerif.Net
