import RawPanelVerif.Lemmas.LifecycleStep
/-! Invariant C of the lifecycle LTS: per-connection facts (sockets, quit channel, writer goroutine, exit flag,
reader position, how the connection was lost). -/
namespace RawPanelVerif.Lifecycle

/-- the head connection is the one currently served and main has not yet closed it -/
def Phase.serving : Phase → Bool
  | .probing | .announcing | .connected | .teardown .quit | .teardown .close => true
  | _ => false

/-- … and `close(quit)` has not happened yet -/
def Phase.preQuit : Phase → Bool
  | .probing | .announcing | .connected | .teardown .quit => true
  | _ => false

/-- the main loop is between two connections, the last one having been reported lost -/
def Phase.idle : Phase → Bool
  | .retrySleep | .dialing | .noConnWait => true
  | _ => false

@[simp] theorem arrived_cons (c : Conn) (f : Bool) :
    ({ c with rx := f :: c.rx } : Conn).arrived = c.arrived + (if f then 1 else 0) := by
  cases f <;> simp [Conn.arrived]

theorem partial_cons (c : Conn) (f : Bool) :
    ({ c with rx := f :: c.rx } : Conn).partial = (if f then 0 else c.partial + 1) := by
  cases f <;> simp [Conn.partial, partialOf]

/-- what holds of the connection at index `i` (0 = current) in a state with main-loop phase `ph` -/
structure Good (ph : Phase) (i : Nat) (c : Conn) : Prop where
  done : (i > 0 ∨ ph.serving = false) → c.closed = true ∧ c.quit = true
  noQuit : i = 0 → ph.preQuit = true → c.quit = false
  tdQuit : i = 0 → ph = .teardown .close → c.quit = true
  unbornIff : c.w = .unborn ↔ (i = 0 ∧ ph = .probing)
  closedExit : i = 0 → ph.serving = true → c.closed = true → c.exit = true
  exitDone : c.exit = true → c.w = .exited ∧ c.closed = true
  exited : c.w = .exited → c.exit = true ∨ c.quit = true
  delLe : c.delivered + (if c.held then 1 else 0) ≤ c.arrived
  heldConn : c.held = true → i = 0 ∧ ph = .connected
  dropped : (i > 0 ∨ ph.reading = false) → c.exit = false →
              (c.peerClosed = true ∨ c.fault = true) ∧ c.delivered = c.arrived ∧ c.held = false
  lost : (i > 0 ∨ ph.idle = true) → (c.peerClosed = true ∨ c.fault = true)
  faultLate : c.fault = true → (i > 0 ∨ ph.reading = false)
  faultOnly : c.fault = true → c.binary = true ∧ 0 < c.partial ∧ c.delivered = c.arrived

def InvC (s : St) : Prop := ∀ i c, s.conns[i]? = some c → Good s.phase i c

theorem invC_init (nc rc : Nat) : InvC (initWith nc rc) := by intro i c h; simp [initWith] at h

/-- what a change of the main-loop phase alone (connections untouched) has to respect -/
def phaseStepOk (ph ph' : Phase) : Bool :=
  decide ((ph'.serving = false → ph.serving = false) ∧ (ph'.preQuit = true → ph.preQuit = true) ∧
    (ph' = .probing ↔ ph = .probing) ∧ (ph' = .teardown .close → ph = .teardown .close) ∧
    (ph'.serving = true → ph.serving = true) ∧ (ph'.reading = false → ph.reading = false) ∧
    (ph'.idle = true → ph.idle = true) ∧ (ph = .connected → ph' = .connected) ∧
    (ph.reading = false → ph'.reading = false))

theorem good_phase_change {ph ph' : Phase} {i : Nat} {c : Conn} (g : Good ph i c) (h : phaseStepOk ph ph' = true) :
    Good ph' i c := by
  simp only [phaseStepOk, decide_eq_true_eq] at h
  obtain ⟨hs, hq, hp, htq, hs2, hd, hl, hh, hr⟩ := h
  refine ⟨fun h => g.done (h.imp id hs), fun h1 h2 => g.noQuit h1 (hq h2), fun h1 h2 => g.tdQuit h1 (htq h2), ?_,
    fun h1 h2 => g.closedExit h1 (hs2 h2), g.exitDone, g.exited, g.delLe, fun h => ⟨(g.heldConn h).1, hh (g.heldConn h).2⟩,
    fun h => g.dropped (h.imp id hd), fun h => g.lost (h.imp id hl), fun h => (g.faultLate h).imp id hr, g.faultOnly⟩
  rw [g.unbornIff, hp]

theorem getElem?_set_cases {cs : List Conn} {i j : Nat} {c' d : Conn} (h : (cs.set i c')[j]? = some d) :
    (j = i ∧ d = c') ∨ (j ≠ i ∧ cs[j]? = some d) := by
  rw [List.getElem?_set] at h
  by_cases hij : i = j
  · subst hij
    simp at h
    exact Or.inl ⟨rfl, h.2.symm⟩
  · simp [hij] at h
    exact Or.inr ⟨fun e => hij e.symm, h⟩

/-- the writer goroutine moves on (nothing else of the connection changes) -/
theorem Good.set_w {ph : Phase} {i : Nat} {c : Conn} (g : Good ph i c) (w' : WSt) (hw : c.w ≠ .unborn) (hw' : w' ≠ .unborn)
    (h1 : c.exit = true → w' = .exited) (h2 : w' = .exited → c.exit = true ∨ c.quit = true) :
    Good ph i { c with w := w' } := by
  refine ⟨g.done, g.noQuit, g.tdQuit, ?_, g.closedExit, fun he => ⟨h1 he, (g.exitDone he).2⟩, h2, g.delLe, g.heldConn, g.dropped,
    g.lost, g.faultLate, g.faultOnly⟩
  constructor
  · intro h; exact absurd h hw'
  · intro h; exact absurd (g.unbornIff.mpr h) hw

/-- a connection that is not the head one is not affected by what happens to the head and the phase,
as long as it stays a non-head connection -/
theorem Good.tail {ph ph' : Phase} {j : Nat} {c : Conn} (g : Good ph (j + 1) c) : Good ph' (j + 1) c := by
  have hpos : j + 1 > 0 := Nat.succ_pos j
  refine ⟨fun _ => g.done (Or.inl hpos), by simp, by simp, ?_, by simp, g.exitDone, g.exited, g.delLe, ?_,
    fun _ he => g.dropped (Or.inl hpos) he, fun _ => g.lost (Or.inl hpos), fun _ => Or.inl hpos, g.faultOnly⟩
  · rw [g.unbornIff]; simp
  · intro h; have := (g.heldConn h).1; simp at this

theorem invC_step (ae : Bool) (s s' : St) (l : Lbl) (hi : InvC s) (hs : step ae s l = some s') : InvC s' := by
  cases l with
  | cancel => have := step_cancel hs; subst this; exact hi
  | offer => have := step_offer hs; subst this; exact hi
  | consumerStop => have := step_consumerStop hs; subst this; exact hi
  | consumerResume => have := step_consumerResume hs; subst this; exact hi
  | tick d => have := step_tick hs; subst this; exact hi
  | dialFail =>
    obtain ⟨hp, rfl⟩ := step_dialFail hs
    intro i c h
    exact good_phase_change (hi i c h) (by rw [hp]; rfl)
  | noConnTimer =>
    obtain ⟨hp, _, rfl⟩ := step_noConnTimer hs
    intro i c h
    exact good_phase_change (hi i c h) (by rw [hp]; rfl)
  | noConnDrain =>
    obtain ⟨hp, _, rfl⟩ := step_noConnDrain hs
    intro i c h
    exact good_phase_change (hi i c h) (by rw [hp]; rfl)
  | sleepDone =>
    obtain ⟨hp, _, rfl⟩ := step_sleepDone hs
    intro i c h
    exact good_phase_change (hi i c h) (by rw [hp]; rfl)
  | ret =>
    obtain ⟨hp, rfl⟩ := step_ret hs
    intro i c h
    rcases hp with hp | ⟨hp, _⟩ <;> exact good_phase_change (hi i c h) (by rw [hp]; rfl)
  | onConnect =>
    obtain ⟨hp, rfl⟩ := step_onConnect hs
    intro i c h
    exact good_phase_change (hi i c h) (by rw [hp]; rfl)
  | readErr =>
    obtain ⟨c0, rest, hc, hp, hheld, hg, rfl⟩ := step_readErr hs
    intro i c h
    have g := hi i c h
    cases i with
    | succ j => exact g.tail
    | zero =>
      rw [hc] at h; simp at h; subst h
      rw [hp] at g
      refine ⟨fun hh => g.done (hh.imp id (by simp [Phase.serving])), fun _ _ => g.noQuit rfl (by simp [Phase.preQuit]),
        by simp, by rw [g.unbornIff]; simp, fun _ _ => g.closedExit rfl (by simp [Phase.serving]), g.exitDone, g.exited, g.delLe,
        fun hh => by simp [hheld] at hh, ?_, fun hh => by simp [Phase.idle] at hh, fun hf => ?_, g.faultOnly⟩
      · intro _ he
        rcases hg with hg | hg
        · have := g.closedExit rfl (by simp [Phase.serving]) hg; simp [he] at this
        · exact ⟨Or.inl hg.1, hg.2, hheld⟩
      · have := g.faultLate hf; simp [Phase.reading] at this
  | readFault =>
    obtain ⟨c0, rest, hc, hp, hheld, hbin, hcl, hda, hpa, rfl⟩ := step_readFault hs
    intro i c h
    cases i with
    | succ j => simp at h; exact (hi (j + 1) c (by simp [hc, h])).tail
    | zero =>
      simp at h; subst h
      have g := hi 0 c0 (by simp [hc])
      rw [hp] at g
      refine ⟨fun hh => by simp [Phase.serving] at hh, fun _ _ => g.noQuit rfl (by simp [Phase.preQuit]),
        by simp, by simpa using g.unbornIff, fun _ _ => g.closedExit rfl (by simp [Phase.serving]), g.exitDone, g.exited, g.delLe,
        fun hh => by simp [hheld] at hh, fun _ _ => ⟨Or.inr rfl, hda, hheld⟩, fun _ => Or.inr rfl, fun _ => Or.inr (by simp [Phase.reading]),
        fun _ => ⟨hbin, hpa, hda⟩⟩
  | onDisconnect b =>
    obtain ⟨c0, rest, hc, hp, hb, rfl⟩ := step_onDisconnect hs
    intro i c h
    have g := hi i c h
    cases i with
    | succ j => exact g.tail
    | zero =>
      rw [hc] at h; simp at h; subst h
      rw [hp] at g
      have hd := g.done (Or.inr (by simp [Phase.serving]))
      refine ⟨fun _ => hd, ?_, ?_, by rw [g.unbornIff]; cases b <;> simp, ?_, g.exitDone, g.exited, g.delLe, ?_,
        fun _ he => g.dropped (Or.inr (by simp [Phase.reading])) he, ?_, fun hf => Or.inr (by cases b <;> simp [Phase.reading]), g.faultOnly⟩
      · intro _ hq; cases b <;> simp [Phase.preQuit] at hq
      · intro _ hq; cases b <;> simp at hq
      · intro _ hq; cases b <;> simp [Phase.serving] at hq
      · intro hh; have := (g.heldConn hh).2; simp at this
      · intro hh
        cases b with
        | true => simp [Phase.idle] at hh
        | false => exact (g.dropped (Or.inr (by simp [Phase.reading])) hb.symm).1
  | dialOk bin =>
    obtain ⟨hp, rfl⟩ := step_dialOk hs
    intro i c h
    cases i with
    | zero =>
      simp at h; subst h
      constructor <;> simp [Phase.serving, Phase.preQuit, Phase.reading, Phase.idle, Conn.arrived]
    | succ j =>
      simp at h
      have g := hi j c h
      rw [hp] at g
      have hd := g.done (Or.inr (by simp [Phase.serving]))
      have hpos : j + 1 > 0 := Nat.succ_pos j
      refine ⟨fun _ => hd, by simp, by simp, ?_, by simp, g.exitDone, g.exited, g.delLe, ?_,
        fun _ he => g.dropped (Or.inr (by simp [Phase.reading])) he, fun _ => g.lost (Or.inr (by simp [Phase.idle])),
        fun _ => Or.inl hpos, g.faultOnly⟩
      · rw [g.unbornIff]; simp
      · intro hh; have := (g.heldConn hh).2; simp at this
  | peerClose =>
    obtain ⟨c0, rest, hc, hpc, rfl⟩ := step_peerClose hs
    intro i c h
    cases i with
    | succ j => simp at h; exact hi (j + 1) c (by simp [hc, h])
    | zero =>
      simp at h; subst h
      have g := hi 0 c0 (by simp [hc])
      exact ⟨g.done, g.noQuit, g.tdQuit, g.unbornIff, g.closedExit, g.exitDone, g.exited, g.delLe, g.heldConn,
        fun hh he => ⟨Or.inl rfl, (g.dropped hh he).2⟩, fun _ => Or.inl rfl, g.faultLate, g.faultOnly⟩
  | byteArrive fin =>
    obtain ⟨c0, rest, hc, hp, hpc, rfl⟩ := step_byteArrive hs
    intro i c h
    cases i with
    | succ j => simp at h; exact hi (j + 1) c (by simp [hc, h])
    | zero =>
      simp at h; subst h
      have g := hi 0 c0 (by simp [hc])
      have hrd : s.phase.reading = true := by rcases hp with hp | hp <;> simp [hp, Phase.reading]
      have hnf : c0.fault = false := by
        cases hf : c0.fault with
        | false => rfl
        | true => have := g.faultLate hf; simp [hrd] at this
      refine ⟨g.done, g.noQuit, g.tdQuit, g.unbornIff, g.closedExit, g.exitDone, g.exited, ?_, g.heldConn, ?_, ?_, ?_, ?_⟩
      · have := g.delLe; simp only [arrived_cons]; omega
      · intro hh; simp [hrd] at hh
      · intro hh; rcases hp with hp | hp <;> simp [hp, Phase.idle] at hh
      · intro hf; simp [hnf] at hf
      · intro hf; simp [hnf] at hf
  | takeFrame =>
    obtain ⟨c0, rest, hc, hp, hheld, hlt, hcl, rfl⟩ := step_takeFrame hs
    intro i c h
    cases i with
    | succ j => simp at h; exact hi (j + 1) c (by simp [hc, h])
    | zero =>
      simp at h; subst h
      have g := hi 0 c0 (by simp [hc])
      refine ⟨g.done, g.noQuit, g.tdQuit, g.unbornIff, g.closedExit, g.exitDone, g.exited, ?_, fun _ => ⟨rfl, hp⟩, ?_, g.lost,
        g.faultLate, g.faultOnly⟩
      · show c0.delivered + 1 ≤ c0.arrived; omega
      · intro hh; simp [hp, Phase.reading] at hh
  | deliver =>
    obtain ⟨c0, rest, hc, hp, hheld, hcons, rfl⟩ := step_deliver hs
    intro i c h
    cases i with
    | succ j => simp at h; exact hi (j + 1) c (by simp [hc, h])
    | zero =>
      simp at h; subst h
      have g := hi 0 c0 (by simp [hc])
      have hnf : c0.fault = false := by
        cases hf : c0.fault with
        | false => rfl
        | true => have := g.faultLate hf; simp [hp, Phase.reading] at this
      refine ⟨g.done, g.noQuit, g.tdQuit, g.unbornIff, g.closedExit, g.exitDone, g.exited, ?_, by simp, ?_, g.lost,
        g.faultLate, fun hf => by simp [hnf] at hf⟩
      · have := g.delLe; simp [hheld] at this; simpa [Conn.arrived] using this
      · intro hh; simp [hp, Phase.reading] at hh
  | spawnWriter =>
    obtain ⟨c0, rest, hc, hp, rfl⟩ := step_spawnWriter hs
    intro i c h
    cases i with
    | succ j => simp at h; exact (hi (j + 1) c (by simp [hc, h])).tail
    | zero =>
      simp at h; subst h
      have g := hi 0 c0 (by simp [hc])
      rw [hp] at g
      have hu : c0.w = .unborn := g.unbornIff.mpr ⟨rfl, rfl⟩
      refine ⟨fun hh => by simp [Phase.serving] at hh, fun _ _ => g.noQuit rfl (by simp [Phase.preQuit]), by simp, by simp,
        fun _ _ => g.closedExit rfl (by simp [Phase.serving]), ?_, by simp, g.delLe, ?_, fun hh => by simp [Phase.reading] at hh,
        fun hh => by simp [Phase.idle] at hh, fun hf => ?_, g.faultOnly⟩
      · intro he; have := (g.exitDone he).1; simp [hu] at this
      · intro hh; have := (g.heldConn hh).2; simp at this
      · have := g.faultLate hf; simp [Phase.reading] at this
  | closeQuit =>
    obtain ⟨c0, rest, hc, hp, rfl⟩ := step_closeQuit hs
    intro i c h
    cases i with
    | succ j => simp at h; exact (hi (j + 1) c (by simp [hc, h])).tail
    | zero =>
      simp at h; subst h
      have g := hi 0 c0 (by simp [hc])
      rw [hp] at g
      refine ⟨fun hh => by simp [Phase.serving] at hh, fun _ hq => by simp [Phase.preQuit] at hq, fun _ _ => rfl,
        by simpa using g.unbornIff, fun _ _ => g.closedExit rfl (by simp [Phase.serving]), g.exitDone,
        fun hw => (g.exited hw).imp id (fun _ => rfl), g.delLe, ?_,
        fun _ he => g.dropped (Or.inr (by simp [Phase.reading])) he, fun hh => by simp [Phase.idle] at hh,
        fun _ => Or.inr (by simp [Phase.reading]), g.faultOnly⟩
      intro hh; have := (g.heldConn hh).2; simp at this
  | connClose =>
    obtain ⟨c0, rest, hc, hp, rfl⟩ := step_connClose hs
    intro i c h
    cases i with
    | succ j => simp at h; exact (hi (j + 1) c (by simp [hc, h])).tail
    | zero =>
      simp at h; subst h
      have g := hi 0 c0 (by simp [hc])
      rw [hp] at g
      refine ⟨fun _ => ⟨rfl, g.tdQuit rfl rfl⟩, fun _ hq => by simp [Phase.preQuit] at hq, by simp, by simpa using g.unbornIff,
        fun _ hq => by simp [Phase.serving] at hq, fun he => ⟨(g.exitDone he).1, rfl⟩, g.exited, g.delLe, ?_,
        fun _ he => g.dropped (Or.inr (by simp [Phase.reading])) he, fun hh => by simp [Phase.idle] at hh,
        fun _ => Or.inr (by simp [Phase.reading]), g.faultOnly⟩
      intro hh; have := (g.heldConn hh).2; simp at this
  | writerStart i =>
    obtain ⟨c0, hc, hw, rfl⟩ := step_writerStart hs
    intro j d h
    rcases getElem?_set_cases h with ⟨hj, hd⟩ | ⟨_, hd⟩
    · subst hj; subst hd
      have g := hi j c0 hc
      exact g.set_w .running (by simp [hw]) (by simp) (fun he => by have := (g.exitDone he).1; simp [hw] at this) (by simp)
    · exact hi j d hd
  | writerTake i =>
    obtain ⟨c0, hc, hw, _, rfl⟩ := step_writerTake hs
    intro j d h
    rcases getElem?_set_cases h with ⟨hj, hd⟩ | ⟨_, hd⟩
    · subst hj; subst hd
      have g := hi j c0 hc
      exact g.set_w .writing (by simp [hw]) (by simp) (fun he => by have := (g.exitDone he).1; simp [hw] at this) (by simp)
    · exact hi j d hd
  | writeDone i =>
    obtain ⟨c0, hc, hw, _, rfl⟩ := step_writeDone hs
    intro j d h
    rcases getElem?_set_cases h with ⟨hj, hd⟩ | ⟨_, hd⟩
    · subst hj; subst hd
      have g := hi j c0 hc
      exact g.set_w .running (by simp [hw]) (by simp) (fun he => by have := (g.exitDone he).1; simp [hw] at this) (by simp)
    · exact hi j d hd
  | writeErr i =>
    obtain ⟨c0, hc, hw, _, rfl⟩ := step_writeErr hs
    intro j d h
    rcases getElem?_set_cases h with ⟨hj, hd⟩ | ⟨_, hd⟩
    · subst hj; subst hd
      have g := hi j c0 hc
      exact g.set_w .running (by simp [hw]) (by simp) (fun he => by have := (g.exitDone he).1; simp [hw] at this) (by simp)
    · exact hi j d hd
  | writerSeesQuit i =>
    obtain ⟨c0, hc, hw, hq, rfl⟩ := step_writerSeesQuit hs
    intro j d h
    rcases getElem?_set_cases h with ⟨hj, hd⟩ | ⟨_, hd⟩
    · subst hj; subst hd
      have g := hi j c0 hc
      exact g.set_w .exited (by simp [hw]) (by simp) (fun _ => rfl) (fun _ => Or.inr hq)
    · exact hi j d hd
  | writerSeesCancel i =>
    obtain ⟨c0, hc, hw, _, rfl⟩ := step_writerSeesCancel hs
    intro j d h
    rcases getElem?_set_cases h with ⟨hj, hd⟩ | ⟨_, hd⟩
    · subst hj; subst hd
      have g := hi j c0 hc
      have hne : ¬ (j = 0 ∧ s.phase = .probing) := fun hh => by have := g.unbornIff.mpr hh; simp [hw] at this
      exact ⟨fun hh => ⟨rfl, (g.done hh).2⟩, g.noQuit, g.tdQuit, by simpa using hne, fun _ _ _ => rfl, fun _ => ⟨rfl, rfl⟩,
        fun _ => Or.inl rfl, g.delLe, g.heldConn, by simp, g.lost, g.faultLate, g.faultOnly⟩
    · exact hi j d hd

theorem invC_reachable {ae : Bool} {s : St} (h : Reachable ae s) : InvC s := by
  induction h with
  | init nc rc => exact invC_init nc rc
  | step l _ hs ih => exact invC_step ae _ _ l ih hs

end RawPanelVerif.Lifecycle
