import RawPanelVerif.Lemmas.LifecycleStep
/-! Invariant C of the lifecycle LTS: per-connection facts (sockets, quit channel, writer goroutine, exit flag). -/
namespace RawPanelVerif.Lifecycle

/-- the head connection is the one currently served and main has not yet closed it -/
def Phase.serving : Phase → Bool
  | .probing | .announcing | .connected | .teardown .quit | .teardown .close => true
  | _ => false

/-- … and `close(quit)` has not happened yet -/
def Phase.preQuit : Phase → Bool
  | .probing | .announcing | .connected | .teardown .quit => true
  | _ => false

/-- what holds of the connection at index `i` (0 = current) in a state with main-loop phase `ph` -/
structure Good (ph : Phase) (i : Nat) (c : Conn) : Prop where
  done : (i > 0 ∨ ph.serving = false) → c.closed = true ∧ c.quit = true
  noQuit : i = 0 → ph.preQuit = true → c.quit = false
  tdQuit : i = 0 → ph = .teardown .close → c.quit = true
  unbornIff : c.w = .unborn ↔ (i = 0 ∧ ph = .probing)
  closedExit : i = 0 → ph.serving = true → c.closed = true → c.exit = true
  exitDone : c.exit = true → c.w = .exited ∧ c.closed = true
  exited : c.w = .exited → c.exit = true ∨ c.quit = true
  delLe : c.delivered ≤ c.arrived
  dropped : (i > 0 ∨ (ph ≠ .probing ∧ ph ≠ .announcing ∧ ph ≠ .connected)) → c.exit = false →
              c.peerClosed = true ∧ c.delivered = c.arrived

def InvC (s : St) : Prop := ∀ i c, s.conns[i]? = some c → Good s.phase i c

theorem invC_init : InvC init := by intro i c h; simp [init] at h

theorem good_phase_change {ph ph' : Phase} {i : Nat} {c : Conn} (g : Good ph i c)
    (hs : ph'.serving = false → ph.serving = false)
    (hq : ph'.preQuit = true → ph.preQuit = true)
    (hp : ph' = .probing ↔ ph = .probing)
    (htq : ph' = .teardown .close → ph = .teardown .close)
    (hs2 : ph'.serving = true → ph.serving = true)
    (hd : (ph' ≠ .probing ∧ ph' ≠ .announcing ∧ ph' ≠ .connected) → (ph ≠ .probing ∧ ph ≠ .announcing ∧ ph ≠ .connected)) :
    Good ph' i c := by
  refine ⟨fun h => g.done (h.imp id hs), fun h1 h2 => g.noQuit h1 (hq h2), fun h1 h2 => g.tdQuit h1 (htq h2), ?_, fun h1 h2 => g.closedExit h1 (hs2 h2),
    g.exitDone, g.exited, g.delLe, fun h => g.dropped (h.imp id hd)⟩
  rw [g.unbornIff, hp]

theorem getElem?_set_cases {cs : List Conn} {i j : Nat} {c' d : Conn} (h : (cs.set i c')[j]? = some d) :
    (j = i ∧ d = c') ∨ (j ≠ i ∧ cs[j]? = some d) := by
  rw [List.getElem?_set] at h
  by_cases hij : i = j
  · subst hij
    simp at h
    exact Or.inl ⟨rfl, h.2.symm⟩
  · simp [hij] at h
    exact Or.inr ⟨fun e => hij e.symm, h⟩

theorem invC_step (ae : Bool) (s s' : St) (l : Lbl) (hi : InvC s) (hs : step ae s l = some s') : InvC s' := by
  cases l with
  | cancel => have := step_cancel hs; subst this; exact hi
  | dialFail =>
    obtain ⟨hp, rfl⟩ := step_dialFail hs
    intro i c h
    exact good_phase_change (hi i c h) (by simp [hp, Phase.serving]) (by simp [Phase.preQuit]) (by simp [hp]) (by simp) (by simp [Phase.serving]) (by simp [hp])
  | noConnTimer =>
    obtain ⟨hp, rfl⟩ := step_noConnTimer hs
    intro i c h
    exact good_phase_change (hi i c h) (by simp [hp, Phase.serving]) (by simp [Phase.preQuit]) (by simp [hp]) (by simp) (by simp [Phase.serving]) (by simp [hp])
  | sleepDone =>
    obtain ⟨hp, rfl⟩ := step_sleepDone hs
    intro i c h
    exact good_phase_change (hi i c h) (by simp [hp, Phase.serving]) (by simp [Phase.preQuit]) (by simp [hp]) (by simp) (by simp [Phase.serving]) (by simp [hp])
  | ret =>
    obtain ⟨hp, rfl⟩ := step_ret hs
    intro i c h
    rcases hp with hp | ⟨hp, _⟩ <;>
    exact good_phase_change (hi i c h) (by simp [hp, Phase.serving]) (by simp [Phase.preQuit]) (by simp [hp]) (by simp) (by simp [Phase.serving]) (by simp [hp])
  | onConnect =>
    obtain ⟨hp, rfl⟩ := step_onConnect hs
    intro i c h
    exact good_phase_change (hi i c h) (by simp [hp, Phase.serving]) (by simp [hp, Phase.preQuit]) (by simp [hp]) (by simp) (by simp [hp, Phase.serving]) (by simp)
  | readErr =>
    obtain ⟨c0, rest, hc, hp, hg, rfl⟩ := step_readErr hs
    intro i c h
    have g := hi i c h
    refine ⟨fun hh => g.done (hh.imp id (by simp [Phase.serving])), fun h1 _ => g.noQuit h1 (by simp [hp, Phase.preQuit]),
      by simp, by rw [g.unbornIff]; simp [hp], fun h1 _ => g.closedExit h1 (by simp [hp, Phase.serving]), g.exitDone, g.exited, g.delLe, ?_⟩
    intro hh he
    rcases Nat.eq_zero_or_pos i with h0 | h0
    · subst h0
      rw [hc] at h; simp at h; subst h
      rcases hg with hg | hg
      · have := g.closedExit rfl (by simp [hp, Phase.serving]) hg; simp [he] at this
      · exact hg
    · exact g.dropped (Or.inl h0) he
  | onDisconnect b =>
    obtain ⟨c0, rest, hc, hp, hb, rfl⟩ := step_onDisconnect hs
    intro i c h
    have g := hi i c h
    have hns : s.phase.serving = false := by simp [hp, Phase.serving]
    refine ⟨fun _ => g.done (Or.inr hns), ?_, ?_, by rw [g.unbornIff]; cases b <;> simp [hp], ?_, g.exitDone, g.exited, g.delLe,
      fun _ he => g.dropped (Or.inr (by simp [hp])) he⟩
    · intro _ hq; cases b <;> simp [Phase.preQuit] at hq
    · intro _ hq; cases b <;> simp at hq
    · intro _ hq; cases b <;> simp [Phase.serving] at hq
  | dialOk =>
    obtain ⟨hp, rfl⟩ := step_dialOk hs
    intro i c h
    cases i with
    | zero =>
      simp at h; subst h
      constructor <;> simp [Phase.serving, Phase.preQuit]
    | succ j =>
      simp at h
      have g := hi j c h
      have hd := g.done (Or.inr (by simp [hp, Phase.serving]))
      refine ⟨fun _ => hd, by simp, by simp, ?_, by simp, g.exitDone, g.exited, g.delLe, fun _ he => g.dropped (Or.inr (by simp [hp])) he⟩
      rw [g.unbornIff]; simp [hp]
  | peerClose =>
    obtain ⟨c0, rest, hc, hpc, rfl⟩ := step_peerClose hs
    intro i c h
    cases i with
    | zero =>
      simp at h; subst h
      have g := hi 0 c0 (by simp [hc])
      refine ⟨g.done, g.noQuit, g.tdQuit, g.unbornIff, g.closedExit, g.exitDone, g.exited, g.delLe, ?_⟩
      intro hh he
      have := g.dropped hh he
      simp [hpc] at this
    | succ j => simp at h; exact hi (j + 1) c (by simp [hc, h])
  | frameComplete =>
    obtain ⟨c0, rest, hc, hp, hpc, rfl⟩ := step_frameComplete hs
    intro i c h
    cases i with
    | zero =>
      simp at h; subst h
      have g := hi 0 c0 (by simp [hc])
      refine ⟨g.done, g.noQuit, g.tdQuit, g.unbornIff, g.closedExit, g.exitDone, g.exited, Nat.le_succ_of_le g.delLe, ?_⟩
      intro hh he
      rcases hh with hh | hh
      · omega
      · rcases hp with hp | hp <;> simp [hp] at hh
    | succ j => simp at h; exact hi (j + 1) c (by simp [hc, h])
  | deliver =>
    obtain ⟨c0, rest, hc, hp, hlt, hcl, rfl⟩ := step_deliver hs
    intro i c h
    cases i with
    | zero =>
      simp at h; subst h
      have g := hi 0 c0 (by simp [hc])
      refine ⟨g.done, g.noQuit, g.tdQuit, g.unbornIff, g.closedExit, g.exitDone, g.exited, hlt, ?_⟩
      intro hh he
      rcases hh with hh | hh
      · omega
      · simp [hp] at hh
    | succ j => simp at h; exact hi (j + 1) c (by simp [hc, h])
  | spawnWriter =>
    obtain ⟨c0, rest, hc, hp, rfl⟩ := step_spawnWriter hs
    intro i c h
    cases i with
    | zero =>
      simp at h; subst h
      have g := hi 0 c0 (by simp [hc])
      have hu : c0.w = .unborn := g.unbornIff.mpr ⟨rfl, hp⟩
      refine ⟨fun hh => ?_, fun _ _ => g.noQuit rfl (by simp [hp, Phase.preQuit]), by simp, by simp,
        fun _ _ => g.closedExit rfl (by simp [hp, Phase.serving]), ?_, by simp, g.delLe, ?_⟩
      · simp [Phase.serving] at hh
      · intro he; have := (g.exitDone he).1; simp [hu] at this
      · intro hh; simp at hh
    | succ j =>
      simp at h
      have g := hi (j + 1) c (by simp [hc, h])
      refine ⟨fun _ => g.done (Or.inl (Nat.succ_pos j)), by simp, by simp, ?_, by simp, g.exitDone, g.exited, g.delLe,
        fun _ he => g.dropped (Or.inl (Nat.succ_pos j)) he⟩
      rw [g.unbornIff]; simp
  | closeQuit =>
    obtain ⟨c0, rest, hc, hp, rfl⟩ := step_closeQuit hs
    intro i c h
    cases i with
    | zero =>
      simp at h; subst h
      have g := hi 0 c0 (by simp [hc])
      refine ⟨fun hh => ?_, fun _ hq => ?_, fun _ _ => rfl, by simpa [hp] using g.unbornIff,
        fun _ _ => g.closedExit rfl (by simp [hp, Phase.serving]), g.exitDone, fun hw => (g.exited hw).imp id (fun _ => rfl), g.delLe,
        fun _ he => g.dropped (Or.inr (by simp [hp])) he⟩
      · simp [Phase.serving] at hh
      · simp [Phase.preQuit] at hq
    | succ j =>
      simp at h
      have g := hi (j + 1) c (by simp [hc, h])
      refine ⟨fun _ => g.done (Or.inl (Nat.succ_pos j)), by simp, by simp, ?_, by simp, g.exitDone, g.exited, g.delLe,
        fun _ he => g.dropped (Or.inl (Nat.succ_pos j)) he⟩
      rw [g.unbornIff]; simp
  | connClose =>
    obtain ⟨c0, rest, hc, hp, rfl⟩ := step_connClose hs
    intro i c h
    cases i with
    | zero =>
      simp at h; subst h
      have g := hi 0 c0 (by simp [hc])
      -- quit was closed by the previous step: carried as `exited`-independent fact through `noQuit`'s complement
      refine ⟨fun _ => ⟨rfl, ?_⟩, fun _ hq => ?_, by simp, by simpa [hp] using g.unbornIff, fun _ hq => ?_,
        fun he => ⟨(g.exitDone he).1, rfl⟩, g.exited, g.delLe, fun _ he => g.dropped (Or.inr (by simp [hp])) he⟩
      · exact g.tdQuit rfl hp
      · simp [Phase.preQuit] at hq
      · simp [Phase.serving] at hq
    | succ j =>
      simp at h
      have g := hi (j + 1) c (by simp [hc, h])
      refine ⟨fun _ => g.done (Or.inl (Nat.succ_pos j)), by simp, by simp, ?_, by simp, g.exitDone, g.exited, g.delLe,
        fun _ he => g.dropped (Or.inl (Nat.succ_pos j)) he⟩
      rw [g.unbornIff]; simp
  | writerStart i =>
    obtain ⟨c0, hc, hw, rfl⟩ := step_writerStart hs
    intro j d h
    rcases getElem?_set_cases h with ⟨hj, hd⟩ | ⟨_, hd⟩
    · subst hj; subst hd
      have g := hi j c0 hc
      have hne : ¬ (j = 0 ∧ s.phase = .probing) := fun hh => by have := g.unbornIff.mpr hh; simp [hw] at this
      refine ⟨g.done, g.noQuit, g.tdQuit, by simpa using hne, g.closedExit, ?_, by simp, g.delLe, g.dropped⟩
      intro he; have := (g.exitDone he).1; simp [hw] at this
    · exact hi j d hd
  | writerSeesQuit i =>
    obtain ⟨c0, hc, hw, hq, rfl⟩ := step_writerSeesQuit hs
    intro j d h
    rcases getElem?_set_cases h with ⟨hj, hd⟩ | ⟨_, hd⟩
    · subst hj; subst hd
      have g := hi j c0 hc
      have hne : ¬ (j = 0 ∧ s.phase = .probing) := fun hh => by have := g.unbornIff.mpr hh; simp [hw] at this
      refine ⟨g.done, g.noQuit, g.tdQuit, by simpa using hne, g.closedExit, ?_, fun _ => Or.inr hq, g.delLe, g.dropped⟩
      intro he; have := (g.exitDone he).1; simp [hw] at this
    · exact hi j d hd
  | writerSeesCancel i =>
    obtain ⟨c0, hc, hw, _, rfl⟩ := step_writerSeesCancel hs
    intro j d h
    rcases getElem?_set_cases h with ⟨hj, hd⟩ | ⟨_, hd⟩
    · subst hj; subst hd
      have g := hi j c0 hc
      have hne : ¬ (j = 0 ∧ s.phase = .probing) := fun hh => by have := g.unbornIff.mpr hh; simp [hw] at this
      refine ⟨fun hh => ⟨rfl, (g.done hh).2⟩, g.noQuit, g.tdQuit, by simpa using hne, fun _ _ _ => rfl, fun _ => ⟨rfl, rfl⟩,
        fun _ => Or.inl rfl, g.delLe, by simp⟩
    · exact hi j d hd

theorem invC_reachable {ae : Bool} {s : St} (h : Reachable ae s) : InvC s := by
  induction h with
  | init => exact invC_init
  | step l _ hs ih => exact invC_step ae _ _ l ih hs

end RawPanelVerif.Lifecycle
