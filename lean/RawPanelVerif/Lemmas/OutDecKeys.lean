import RawPanelVerif.Lemmas.OutDecKV
namespace RawPanelVerif.OutLemmas
open RawPanelVerif RawPanelVerif.Bytes RawPanelVerif.MsgOut RawPanelVerif.EncOut RawPanelVerif.DecOut
open RawPanelVerif.Spec.Out

/-! ### `decGeneric` at each of the 29 keys (evaluation of the `switch`) -/
theorem dg_model (o : OutOracle) (v : Bytes) : decGeneric o (asc "_model") v = (some (piMsg { model := v }) : Option OutMsg) := by
  unfold decGeneric
  simp (config := { decide := true }) only [ite_true, ite_false]

theorem dg_serial (o : OutOracle) (v : Bytes) : decGeneric o (asc "_serial") v = (some (piMsg { serial := v }) : Option OutMsg) := by
  unfold decGeneric
  simp (config := { decide := true }) only [ite_true, ite_false]

theorem dg_version (o : OutOracle) (v : Bytes) : decGeneric o (asc "_version") v = (some (piMsg { softwareVersion := v }) : Option OutMsg) := by
  unfold decGeneric
  simp (config := { decide := true }) only [ite_true, ite_false]

theorem dg_platform (o : OutOracle) (v : Bytes) : decGeneric o (asc "_platform") v = (some (piMsg { platform := v }) : Option OutMsg) := by
  unfold decGeneric
  simp (config := { decide := true }) only [ite_true, ite_false]

theorem dg_name (o : OutOracle) (v : Bytes) : decGeneric o (asc "_name") v = (some (piMsg { name := v }) : Option OutMsg) := by
  unfold decGeneric
  simp (config := { decide := true }) only [ite_true, ite_false]

theorem dg_svg (o : OutOracle) (v : Bytes) : decGeneric o (asc "_panelTopology_svgbase") v = (some { topology := some { svgbase := v } } : Option OutMsg) := by
  unfold decGeneric
  simp (config := { decide := true }) only [ite_true, ite_false]

theorem dg_topo (o : OutOracle) (v : Bytes) : decGeneric o (asc "_panelTopology_HWC") v = (some { topology := some { json := v } } : Option OutMsg) := by
  unfold decGeneric
  simp (config := { decide := true }) only [ite_true, ite_false]

theorem dg_burn (o : OutOracle) (v : Bytes) : decGeneric o (asc "_burninProfile") v = (some { burnin := some v } : Option OutMsg) := by
  unfold decGeneric
  simp (config := { decide := true }) only [ite_true, ite_false]

theorem dg_cal (o : OutOracle) (v : Bytes) : decGeneric o (asc "_calibrationProfile") v = (some { calibration := some v } : Option OutMsg) := by
  unfold decGeneric
  simp (config := { decide := true }) only [ite_true, ite_false]

theorem dg_dcal (o : OutOracle) (v : Bytes) : decGeneric o (asc "_defaultCalibrationProfile") v = (some { defaultCalibration := some v } : Option OutMsg) := by
  unfold decGeneric
  simp (config := { decide := true }) only [ite_true, ite_false]

theorem dg_err (o : OutOracle) (v : Bytes) : decGeneric o (asc "ErrorMsg") v = (some { errorMsg := some v } : Option OutMsg) := by
  unfold decGeneric
  simp (config := { decide := true }) only [ite_true, ite_false]

theorem dg_msg (o : OutOracle) (v : Bytes) : decGeneric o (asc "Msg") v = (some { message := some v } : Option OutMsg) := by
  unfold decGeneric
  simp (config := { decide := true }) only [ite_true, ite_false]

theorem dg_st (o : OutOracle) (v : Bytes) : decGeneric o (asc "_sleepTimer") v = (some { sleepTimeout := some (u32 (intval v)) } : Option OutMsg) := by
  unfold decGeneric
  simp (config := { decide := true }) only [ite_true, ite_false]

theorem dg_hb (o : OutOracle) (v : Bytes) : decGeneric o (asc "_heartBeatTimer") v = (some { heartBeat := some (u32 (intval v)) } : Option OutMsg) := by
  unfold decGeneric
  simp (config := { decide := true }) only [ite_true, ite_false]

theorem dg_dg (o : OutOracle) (v : Bytes) : decGeneric o (asc "DimmedGain") v = (some { dimmedGain := some (u32 (intval v)) } : Option OutMsg) := by
  unfold decGeneric
  simp (config := { decide := true }) only [ite_true, ite_false]

theorem dg_mc (o : OutOracle) (v : Bytes) : decGeneric o (asc "_serverModeMaxClients") v = (some (piMsg { maxClients := u32 (intval v) }) : Option OutMsg) := by
  unfold decGeneric
  simp (config := { decide := true }) only [ite_true, ite_false]

theorem dg_boots (o : OutOracle) (v : Bytes) : decGeneric o (asc "_bootsCount") v = (some { runTimeStats := some { bootsCount := u32 (intval v) } } : Option OutMsg) := by
  unfold decGeneric
  simp (config := { decide := true }) only [ite_true, ite_false]

theorem dg_total (o : OutOracle) (v : Bytes) : decGeneric o (asc "_totalUptimeMin") v = (some { runTimeStats := some { totalUptime := u32 (intval v) } } : Option OutMsg) := by
  unfold decGeneric
  simp (config := { decide := true }) only [ite_true, ite_false]

theorem dg_session (o : OutOracle) (v : Bytes) : decGeneric o (asc "_sessionUptimeMin") v = (some { runTimeStats := some { sessionUptime := u32 (intval v) } } : Option OutMsg) := by
  unfold decGeneric
  simp (config := { decide := true }) only [ite_true, ite_false]

theorem dg_saver (o : OutOracle) (v : Bytes) : decGeneric o (asc "_screenSaverOnMin") v = (some { runTimeStats := some { screenSaveOnTime := u32 (intval v) } } : Option OutMsg) := by
  unfold decGeneric
  simp (config := { decide := true }) only [ite_true, ite_false]

theorem dg_bpr (o : OutOracle) (v : Bytes) : decGeneric o (asc "_bluePillReady") v = (some (piMsg { bluePillReady := intval v != 0 }) : Option OutMsg) := by
  unfold decGeneric
  simp (config := { decide := true }) only [ite_true, ite_false]

theorem dg_ss (o : OutOracle) (v : Bytes) : decGeneric o (asc "_isSleeping") v = (some { sleepState := some (intval v != 0) } : Option OutMsg) := by
  unfold decGeneric
  simp (config := { decide := true }) only [ite_true, ite_false]

theorem dg_ptype (o : OutOracle) (v : Bytes) : decGeneric o (asc "_panelType") v = ((panelTypeOfWord v).map (fun t => piMsg { panelType := t }) : Option OutMsg) := by
  unfold decGeneric
  simp (config := { decide := true }) only [ite_true, ite_false]

theorem dg_env (o : OutOracle) (v : Bytes) : decGeneric o (asc "EnvironmentalHealth") v = ((envOfWord v).map (fun m => { envHealth := some m }) : Option OutMsg) := by
  unfold decGeneric
  simp (config := { decide := true }) only [ite_true, ite_false]

theorem dg_sup (o : OutOracle) (v : Bytes) : decGeneric o (asc "_support") v = (some (piMsg { support := some (supportOfParts (splitOn 44 v)) }) : Option OutMsg) := by
  unfold decGeneric
  simp (config := { decide := true }) only [ite_true, ite_false]

theorem dg_net (o : OutOracle) (v : Bytes) : decGeneric o (asc "_networkConfig") v = (some { netConfig := o.netOfJson v } : Option OutMsg) := by
  unfold decGeneric
  simp (config := { decide := true }) only [ite_true, ite_false]

theorem dg_lock (o : OutOracle) (v : Bytes) : decGeneric o (asc "_serverModeLockToIP") v = (some (piMsg { lockedToIPs := trimExplode 59 v }) : Option OutMsg) := by
  unfold decGeneric
  simp (config := { decide := true }) only [ite_true, ite_false]

theorem dg_conn (o : OutOracle) (v : Bytes) : decGeneric o (asc "_connections") v = (some { connections := some (trimExplode 59 v) } : Option OutMsg) := by
  unfold decGeneric
  simp (config := { decide := true }) only [ite_true, ite_false]

theorem dg_sys (o : OutOracle) (v : Bytes) : decGeneric o (asc "SysStat") v = (some { sysStat := some (sysScan o (splitOn 58 v) {}) } : Option OutMsg) := by
  unfold decGeneric
  simp (config := { decide := true }) only [ite_true, ite_false]

end RawPanelVerif.OutLemmas
