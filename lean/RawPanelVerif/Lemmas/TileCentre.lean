import RawPanelVerif.Lemmas.TileGlyphEdge
import RawPanelVerif.Model.Tile
import RawPanelVerif.Spec.TileSpec
/-!
# Ink-based centring of the one/two-line formats (C18, clause `centre`)

* `edge_facts*` (`decide +kernel` over the regenerated font tables): in proportional mode every letter and digit of
  every font is at least two columns wide and has ink in its first and in its last-but-one column (the last column is
  the blank separator: `lastcol_blank`).
* `text_ink_extent`: for a text whose box `[cx, cx+StrWidth) × [cy, cy+cellHeight·v)` fits the bounding box (which lies
  on the canvas), proportional, no extra spacing, no CR, alphanumeric first/last character: the ink (`textR`) spans
  exactly the columns `cx … cx+StrWidth-1` of the bounding box.
* `foldl_stepE` / `extent_char`: what `Spec.Tile.extent` computes (min/max lit column).
-/
namespace RawPanelVerif.Tile
open RawPanelVerif RawPanelVerif.Mono RawPanelVerif.Gen RawPanelVerif.C20

theorem charWidth_congr (t t' : TextSt) (h1 : t.fp = t'.fp) (h2 : t.prop = t'.prop) (ch : Nat) :
    charWidth t ch = charWidth t' ch := by
  unfold charWidth; simp only [h1, h2]

theorem inkBit_congr (t t' : TextSt) (h1 : t.fp = t'.fp) (h2 : t.prop = t'.prop) (ch i j : Nat) :
    inkBit t ch i j = inkBit t' ch i j := by
  unfold inkBit glyphColumn charStart
  rw [charWidth_congr t t' h1 h2]
  simp only [h1, h2]

theorem alnum_range (ch : Nat) (h : alnum ch = true) : 48 ≤ ch ∧ ch ≤ 122 := by
  unfold alnum at h
  simp only [Bool.or_eq_true, Bool.and_eq_true, decide_eq_true_eq] at h
  omega

theorem edge_glyph (t : TextSt) (hp : t.prop = true) (ch : Nat) (ha : alnum ch = true) :
    2 ≤ charWidth t ch ∧ t.fp.inRange ch = true ∧ (∃ j, j < t.fp.bbH ∧ inkBit t ch 0 j = true) ∧
      (∃ j, j < t.fp.bbH ∧ inkBit t ch (charWidth t ch - 2) j = true) := by
  obtain ⟨r1, r2⟩ := alnum_range ch ha
  have hmem : ch ∈ List.range 128 := by simp; omega
  obtain ⟨m, hm, hok⟩ : ∃ m : Int, t.fp = (tf m true).fp ∧ edgeGlyphOk m ch = true := by
    rcases fontParams_cases t.font with h | h | h
    · exact ⟨1, h, edge_facts1 ch hmem ha⟩
    · exact ⟨2, h, edge_facts2 ch hmem ha⟩
    · exact ⟨0, h, edge_facts0 ch hmem ha⟩
  have hpp : t.prop = (tf m true).prop := hp
  unfold edgeGlyphOk colHasInk at hok
  simp only [Bool.and_eq_true, decide_eq_true_eq, List.any_eq_true, List.mem_range] at hok
  obtain ⟨⟨h2, j0, hj0, hi0⟩, j1, hj1, hi1⟩ := hok
  rw [← charWidth_congr t _ hm hpp] at h2 hi1
  rw [← inkBit_congr t _ hm hpp] at hi0 hi1
  rw [← hm] at hj0 hj1
  refine ⟨h2, ?_, ⟨j0, hj0, hi0⟩, ⟨j1, hj1, hi1⟩⟩
  obtain ⟨_, _, _, hall⟩ := font_tables_sized
  obtain ⟨hf, hl, _⟩ := hall t.font
  unfold FontParams.inRange TextSt.fp
  rw [hf, hl]
  simp; omega

/-- every lit bit of a glyph lies in the glyph's advance box (horizontally) -/
theorem glyphR_xrange (g : Geom) (t : TextSt) (x y : Int) (ch : Nat) (h v : Int) (hh : 0 ≤ h) (X Y : Nat)
    (hg : glyphR g t x y ch h v X Y) :
    x + g.bx ≤ (X : Int) ∧ (X : Int) < x + g.bx + (charWidth t ch : Int) * h := by
  obtain ⟨i, j, hi, hj, hink, hc, q1, q2, q3, q4⟩ := hg
  have h1 : (0 : Int) ≤ (i : Int) * h := Int.mul_nonneg (by omega) hh
  have h2 : ((i : Int) + 1) * h ≤ (charWidth t ch : Int) * h := Int.mul_le_mul_of_nonneg_right (by omega) hh
  rw [Int.add_mul, Int.one_mul] at h2
  constructor <;> omega

theorem textR_xrange (g : Geom) (s : List Nat) (t : TextSt) (hh : 0 ≤ t.tsH) (X Y : Nat)
    (hr : textR g t s X Y) : t.cx + g.bx ≤ (X : Int) ∧ (X : Int) < t.cx + g.bx + advSum t s := by
  induction s generalizing t with
  | nil => exact hr.elim
  | cons ch rest ih =>
    have hw : (0 : Int) ≤ (charWidth t ch : Int) * t.tsH := Int.mul_nonneg (by omega) hh
    have hrn := advSum_nonneg t hh rest
    simp only [textR] at hr
    by_cases h13 : ch = 13
    · simp only [h13, if_true] at hr
      have := ih t hh hr
      unfold advSum; subst h13; omega
    · simp only [h13, if_false] at hr
      rcases hr with ⟨_, hg⟩ | hr
      · have := glyphR_xrange g t t.cx t.cy ch t.tsH t.tsV hh X Y hg
        unfold advSum; omega
      · have := ih { t with cx := t.cx + t.tsH * (charWidth t ch : Int) + t.spacing } hh hr
        rw [advSum_cx] at this
        simp only [] at this
        have e : t.tsH * (charWidth t ch : Int) = (charWidth t ch : Int) * t.tsH := Int.mul_comm _ _
        unfold advSum; omega


theorem advSum_append (t : TextSt) (a b : List Nat) : advSum t (a ++ b) = advSum t a + advSum t b := by
  induction a with
  | nil => simp [advSum]
  | cons x a ih =>
    show ((charWidth t x : Int) * t.tsH + t.spacing) + advSum t (a ++ b) =
      ((charWidth t x : Int) * t.tsH + t.spacing) + advSum t a + advSum t b
    rw [ih]; omega

/-- in proportional mode the last column of an in-range glyph is the blank separator -/
theorem lastcol_blank (t : TextSt) (hp : t.prop = true) (ch : Nat) (hr : t.fp.inRange ch = true) (i j : Nat)
    (hi : i + 1 = charWidth t ch) : inkBit t ch i j = false := by
  unfold inkBit glyphColumn
  simp only [hr, hp, if_true, Bool.true_or, Bool.true_and, hi, decide_true]
  simp

/-- tight horizontal range of an in-range proportional glyph: the ink ends one column before the advance -/
theorem glyphR_xrange_tight (g : Geom) (t : TextSt) (hp : t.prop = true) (x y : Int) (ch : Nat)
    (hr : t.fp.inRange ch = true) (h v : Int) (hh : 0 ≤ h) (X Y : Nat)
    (hg : glyphR g t x y ch h v X Y) :
    (X : Int) < x + g.bx + (charWidth t ch : Int) * h - h := by
  obtain ⟨i, j, hi, hj, hink, hc, q1, q2, q3, q4⟩ := hg
  have hne : i + 1 ≠ charWidth t ch := by
    intro e
    rw [lastcol_blank t hp ch hr i j e] at hink
    exact absurd hink (by simp)
  have h2 : ((i : Int) + 2) * h ≤ (charWidth t ch : Int) * h := Int.mul_le_mul_of_nonneg_right (by omega) hh
  rw [Int.add_mul] at h2
  omega

/-- a string ending in an in-range glyph (proportional, no extra spacing, no CR): the ink ends at `StrWidth` -/
theorem textR_xrange_last (g : Geom) (pre : List Nat) (c : Nat) (t : TextSt) (hp : t.prop = true)
    (hsp : t.spacing = 0) (hh : 0 ≤ t.tsH) (hr : t.fp.inRange c = true) (hcw : 1 ≤ charWidth t c)
    (hc13 : c ≠ 13) (X Y : Nat) (hx : textR g t (pre ++ [c]) X Y) :
    (X : Int) < t.cx + g.bx + advSum t (pre ++ [c]) - t.tsH := by
  induction pre generalizing t with
  | nil =>
    simp only [List.nil_append, textR, hc13, if_false] at hx
    rcases hx with ⟨_, hg⟩ | hx
    · have := glyphR_xrange_tight g t hp t.cx t.cy c hr t.tsH t.tsV hh X Y hg
      simp only [List.nil_append, advSum, hsp]; omega
    · exact hx.elim
  | cons a pre ih =>
    simp only [List.cons_append, textR] at hx
    have hw : (0 : Int) ≤ (charWidth t a : Int) * t.tsH := Int.mul_nonneg (by omega) hh
    have e : t.tsH * (charWidth t a : Int) = (charWidth t a : Int) * t.tsH := Int.mul_comm _ _
    have hlast : t.tsH ≤ advSum t (pre ++ [c]) := by
      have h1 := advSum_append t pre [c]
      have h2 := advSum_nonneg t hh pre
      have h3 : (1 : Int) * t.tsH ≤ (charWidth t c : Int) * t.tsH := Int.mul_le_mul_of_nonneg_right (by omega) hh
      simp only [advSum, hsp] at h1
      omega
    by_cases h13 : a = 13
    · simp only [h13, if_true] at hx
      have := ih t hp hsp hh hr hcw hx
      simp only [List.cons_append, advSum]; subst h13; omega
    · simp only [h13, if_false] at hx
      rcases hx with ⟨_, hg⟩ | hx
      · have := glyphR_xrange g t t.cx t.cy a t.tsH t.tsV hh X Y hg
        simp only [List.cons_append, advSum]; omega
      · have := ih { t with cx := t.cx + t.tsH * (charWidth t a : Int) + t.spacing } hp hsp hh hr hcw hx
        rw [advSum_cx] at this
        simp only [hsp] at this
        simp only [List.cons_append, advSum, hsp]; omega


theorem glyphR_pixel (g : Geom) (t : TextSt) (x y : Int) (ch : Nat) (h v : Int) (i j : Nat) (p q : Int) (X Y : Nat)
    (hi : i < charWidth t ch) (hj : j < t.fp.bbH) (hink : inkBit t ch i j = true)
    (hp0 : 0 ≤ p) (hp : p < h) (hq0 : 0 ≤ q) (hq : q < v)
    (hX : (X : Int) = x + i * h + g.bx + p) (hY : (Y : Int) = y + j * v + g.byy + q) (hc : clipR g X Y) :
    glyphR g t x y ch h v X Y :=
  ⟨i, j, hi, hj, hink, hc, by omega, by omega, by omega, by omega⟩

theorem textR_of_first (g : Geom) (c : Nat) (rest : List Nat) (t : TextSt) (X Y : Nat) (hc : c ≠ 13)
    (hne : ¬ earlyRet g t t.cx t.cy c t.tsH t.tsV) (hg : glyphR g t t.cx t.cy c t.tsH t.tsV X Y) :
    textR g t (c :: rest) X Y := by
  simp only [textR, hc, if_false]
  exact Or.inl ⟨hne, hg⟩

theorem textR_of_last (g : Geom) (pre : List Nat) (c : Nat) (t : TextSt) (x : Int) (X Y : Nat)
    (h13 : 13 ∉ pre) (hc : c ≠ 13) (hx : x = t.cx + advSum t pre)
    (hne : ¬ earlyRet g t x t.cy c t.tsH t.tsV) (hg : glyphR g t x t.cy c t.tsH t.tsV X Y) :
    textR g t (pre ++ [c]) X Y := by
  induction pre generalizing t with
  | nil =>
    simp only [advSum, Int.add_zero] at hx
    subst hx
    exact textR_of_first g c [] t X Y hc hne hg
  | cons a pre ih =>
    have ha : a ≠ 13 := fun e => h13 (by simp [e])
    have hpre : 13 ∉ pre := fun e => h13 (by simp [e])
    simp only [List.cons_append, textR, ha, if_false]
    refine Or.inr (ih { t with cx := t.cx + t.tsH * (charWidth t a : Int) + t.spacing } hpre ?_ hne hg)
    rw [advSum_cx]
    simp only [advSum] at hx ⊢
    have e : t.tsH * (charWidth t a : Int) = (charWidth t a : Int) * t.tsH := Int.mul_comm _ _
    omega


/-- the bounding box lies on the canvas -/
structure BoxOnCanvas (g : Geom) : Prop where
  bx : 0 ≤ g.bx
  byy : 0 ≤ g.byy
  bw : g.bx + g.bw ≤ g.W
  bh : g.byy + g.bh ≤ g.H

theorem clipR_of_box (g : Geom) (hb : BoxOnCanvas g) (X Y : Nat)
    (h1 : g.bx ≤ (X : Int)) (h2 : (X : Int) < g.bx + g.bw) (h3 : g.byy ≤ (Y : Int)) (h4 : (Y : Int) < g.byy + g.bh) :
    clipR g X Y := by
  obtain ⟨b1, b2, b3, b4⟩ := hb
  unfold clipR inClip xMin yMin wMax hMax
  refine ⟨?_, ?_, ?_, ?_⟩ <;> split <;> omega

/-- the text box `[cx, cx + StrWidth) × [cy, cy + cellHeight·v)` lies inside the bounding box -/
structure TextFits (g : Geom) (t : TextSt) (s : List Nat) : Prop where
  cx : 0 ≤ t.cx
  w : t.cx + strWidth t s ≤ g.bw
  cy : 0 ≤ t.cy
  h : t.cy + (t.fp.bbH : Int) * t.tsV ≤ g.bh

theorem not_earlyRet_of (g : Geom) (t : TextSt) (x : Int) (c : Nat) (hh : 1 ≤ t.tsH) (hv : 1 ≤ t.tsV)
    (hb : BoxOnCanvas g) (hbw : 0 < g.bw) (hx0 : 0 ≤ x) (hx1 : x + ((charWidth t c : Int) - 1) * t.tsH ≤ g.bw)
    (hcy : 0 ≤ t.cy) (hfy : t.cy + (t.fp.bbH : Int) * t.tsV ≤ g.bh) :
    ¬ earlyRet g t x t.cy c t.tsH t.tsV := by
  obtain ⟨b1, b2, b3, b4⟩ := hb
  obtain ⟨p1, p2⟩ := fp_pos t.font
  have q1 : (1 : Int) * 1 ≤ (t.fp.bbW : Int) * t.tsH :=
    Int.mul_le_mul (by unfold TextSt.fp; omega) hh (by omega) (by omega)
  have q2 : (1 : Int) * 1 ≤ (t.fp.bbH : Int) * t.tsV :=
    Int.mul_le_mul (by unfold TextSt.fp; omega) hv (by omega) (by omega)
  unfold earlyRet getBWidth
  rw [if_pos hbw]
  omega


/-- **ink extent of a fitting text** (proportional, no extra spacing, no CR, first and last character alphanumeric):
all ink lies in the columns `[cx, cx + StrWidth)` of the bounding box, and both end columns carry ink -/
theorem text_ink_extent (g : Geom) (t : TextSt) (c0 cL : Nat) (rest pre : List Nat) (s : List Nat)
    (hs0 : s = c0 :: rest) (hsL : s = pre ++ [cL]) (h13 : 13 ∉ s)
    (hp : t.prop = true) (hsp : t.spacing = 0) (hh : 1 ≤ t.tsH) (hv : 1 ≤ t.tsV)
    (ha0 : alnum c0 = true) (haL : alnum cL = true) (hb : BoxOnCanvas g) (hf : TextFits g t s) :
    (∀ X Y : Nat, textR g t s X Y →
        t.cx + g.bx ≤ (X : Int) ∧ (X : Int) ≤ t.cx + g.bx + strWidth t s - 1) ∧
    (∃ X Y : Nat, textR g t s X Y ∧ (X : Int) = t.cx + g.bx) ∧
    (∃ X Y : Nat, textR g t s X Y ∧ (X : Int) = t.cx + g.bx + strWidth t s - 1) := by
  obtain ⟨w0, r0, ⟨j0, hj0, hi0⟩, _⟩ := edge_glyph t hp c0 ha0
  obtain ⟨wL, rL, _, ⟨jL, hjL, hiL⟩⟩ := edge_glyph t hp cL haL
  obtain ⟨f1, f2, f3, f4⟩ := hf
  have hh0 : (0 : Int) ≤ t.tsH := by omega
  have hc0 : c0 ≠ 13 := fun e => h13 (by rw [hs0, e]; simp)
  have hcL : cL ≠ 13 := fun e => h13 (by rw [hsL, e]; simp)
  have hpre : 13 ∉ pre := fun e => h13 (by rw [hsL]; simp [e])
  -- widths
  have sw0 : strWidth t s = (charWidth t c0 : Int) * t.tsH + advSum t rest - t.tsH := by
    rw [strWidth_eq, hs0]; simp only [advSum, hsp]; omega
  have swL : strWidth t s = advSum t pre + (charWidth t cL : Int) * t.tsH - t.tsH := by
    rw [strWidth_eq, hsL, advSum_append]; simp only [advSum, hsp]; omega
  have hr0 := advSum_nonneg t hh0 rest
  have hrp := advSum_nonneg t hh0 pre
  have m0 : (2 : Int) * t.tsH ≤ (charWidth t c0 : Int) * t.tsH := Int.mul_le_mul_of_nonneg_right (by omega) hh0
  have mL : (2 : Int) * t.tsH ≤ (charWidth t cL : Int) * t.tsH := Int.mul_le_mul_of_nonneg_right (by omega) hh0
  have hbw : 0 < g.bw := by omega
  have hv0 : (0 : Int) ≤ t.tsV := by omega
  refine ⟨?_, ?_, ?_⟩
  · intro X Y hx
    have l := (textR_xrange g s t hh0 X Y hx).1
    rw [hsL] at hx
    have u := textR_xrange_last g pre cL t hp hsp hh0 rL (by omega) hcL X Y hx
    rw [← hsL] at u
    have := strWidth_eq t s
    omega
  · -- first column of the first glyph, row j0
    have e1 : ((charWidth t c0 : Int) - 1) * t.tsH = (charWidth t c0 : Int) * t.tsH - t.tsH := by
      rw [Int.sub_mul]; omega
    have hne := not_earlyRet_of g t t.cx c0 hh hv hb hbw f1 (by rw [e1]; omega) f3 f4
    have mj : ((j0 : Int) + 1) * t.tsV ≤ (t.fp.bbH : Int) * t.tsV := Int.mul_le_mul_of_nonneg_right (by omega) hv0
    rw [Int.add_mul] at mj
    have mj0 : (0 : Int) ≤ (j0 : Int) * t.tsV := Int.mul_nonneg (by omega) hv0
    obtain ⟨b1, b2, b3, b4⟩ := hb
    have key : textR g t (c0 :: rest) (t.cx + g.bx).toNat (t.cy + (j0 : Int) * t.tsV + g.byy).toNat := by
      refine textR_of_first g c0 rest t _ _ hc0 hne ?_
      refine glyphR_pixel g t t.cx t.cy c0 t.tsH t.tsV 0 j0 0 0 _ _ (by omega) hj0 hi0 (by omega) (by omega)
        (by omega) (by omega) (by simp; omega) (by omega) ?_
      exact clipR_of_box g ⟨b1, b2, b3, b4⟩ _ _ (by omega) (by omega) (by omega) (by omega)
    rw [← hs0] at key
    exact ⟨_, _, key, by omega⟩
  · -- last ink column (cw - 2) of the last glyph, row jL
    have e1 : ((charWidth t cL : Int) - 1) * t.tsH = (charWidth t cL : Int) * t.tsH - t.tsH := by
      rw [Int.sub_mul]; omega
    have hne := not_earlyRet_of g t (t.cx + advSum t pre) cL hh hv hb hbw (by omega) (by rw [e1]; omega) f3 f4
    have mj : ((jL : Int) + 1) * t.tsV ≤ (t.fp.bbH : Int) * t.tsV := Int.mul_le_mul_of_nonneg_right (by omega) hv0
    rw [Int.add_mul] at mj
    have mj0 : (0 : Int) ≤ (jL : Int) * t.tsV := Int.mul_nonneg (by omega) hv0
    have ec : ((charWidth t cL - 2 : Nat) : Int) = (charWidth t cL : Int) - 2 := by omega
    have e2 : ((charWidth t cL - 2 : Nat) : Int) * t.tsH = (charWidth t cL : Int) * t.tsH - 2 * t.tsH := by
      rw [ec, Int.sub_mul]
    obtain ⟨b1, b2, b3, b4⟩ := hb
    have hX0 : 0 ≤ t.cx + g.bx + strWidth t s - 1 := by omega
    have key : textR g t (pre ++ [cL]) (t.cx + g.bx + strWidth t s - 1).toNat
        (t.cy + (jL : Int) * t.tsV + g.byy).toNat := by
      refine textR_of_last g pre cL t (t.cx + advSum t pre) _ _ hpre hcL rfl hne ?_
      refine glyphR_pixel g t (t.cx + advSum t pre) t.cy cL t.tsH t.tsV (charWidth t cL - 2) jL (t.tsH - 1) 0 _ _
        (by omega) hjL hiL (by omega) (by omega) (by omega) (by omega) ?_ ?_ ?_
      · rw [e2]; omega
      · omega
      · exact clipR_of_box g ⟨b1, b2, b3, b4⟩ _ _ (by omega) (by omega) (by omega) (by omega)
    rw [← hsL] at key
    exact ⟨_, _, key, by omega⟩

/-- one step of `Spec.Tile.extent`'s fold, as a named function -/
def stepE (inverted : Bool) (A : Nat → Nat → Bool) (ya yb : Int) (acc : Option (Nat × Nat × Nat × Nat)) (p : Nat × Nat) :
    Option (Nat × Nat × Nat × Nat) :=
  if ya ≤ (p.2 : Int) ∧ (p.2 : Int) < yb ∧ A p.1 p.2 ≠ inverted then
    match acc with
    | none => some (p.1, p.1, p.2, p.2)
    | some (a, b, c, d) => some (min a p.1, max b p.1, min c p.2, max d p.2)
  else acc

theorem extent_eq (k : Spec.Tile.Case) (A : Nat → Nat → Bool) (ya yb : Int) :
    Spec.Tile.extent k A ya yb = (Spec.Tile.pixels k).foldl (stepE k.inverted A ya yb) none := rfl

def litIn (inverted : Bool) (A : Nat → Nat → Bool) (ya yb : Int) (p : Nat × Nat) : Prop :=
  ya ≤ (p.2 : Int) ∧ (p.2 : Int) < yb ∧ A p.1 p.2 ≠ inverted

theorem foldl_stepE (inv : Bool) (A : Nat → Nat → Bool) (ya yb : Int) (l : List (Nat × Nat))
    (acc : Option (Nat × Nat × Nat × Nat)) :
    (l.foldl (stepE inv A ya yb) acc = none → acc = none ∧ ∀ p ∈ l, ¬ litIn inv A ya yb p) ∧
    (∀ a b c d, l.foldl (stepE inv A ya yb) acc = some (a, b, c, d) →
      (∀ p ∈ l, litIn inv A ya yb p → a ≤ p.1 ∧ p.1 ≤ b) ∧
      (∀ a0 b0 c0 d0, acc = some (a0, b0, c0, d0) → a ≤ a0 ∧ b0 ≤ b) ∧
      ((∃ p ∈ l, litIn inv A ya yb p ∧ p.1 = a) ∨ ∃ b0 c0 d0, acc = some (a, b0, c0, d0)) ∧
      ((∃ p ∈ l, litIn inv A ya yb p ∧ p.1 = b) ∨ ∃ a0 c0 d0, acc = some (a0, b, c0, d0))) := by
  induction l generalizing acc with
  | nil =>
    refine ⟨fun h => ⟨h, fun _ hp => absurd hp (by simp)⟩, ?_⟩
    intro a b c d h
    simp only [List.foldl_nil] at h
    refine ⟨fun _ hp => absurd hp (by simp), ?_, Or.inr ⟨b, c, d, h⟩, Or.inr ⟨a, c, d, h⟩⟩
    intro a0 b0 c0 d0 h0
    rw [h0] at h; injection h with h; injection h with h1 h; injection h with h2 h
    omega
  | cons q l ih =>
    simp only [List.foldl_cons]
    obtain ⟨ih1, ih2⟩ := ih (stepE inv A ya yb acc q)
    by_cases hq : litIn inv A ya yb q
    · have hstep : ∀ acc, stepE inv A ya yb acc q =
          match acc with
          | none => some (q.1, q.1, q.2, q.2)
          | some (a, b, c, d) => some (min a q.1, max b q.1, min c q.2, max d q.2) := by
        intro acc; unfold stepE; exact if_pos hq
      constructor
      · intro h
        have := (ih1 h).1
        rw [hstep] at this
        cases acc with
        | none => simp at this
        | some v => obtain ⟨a, b, c, d⟩ := v; simp at this
      · intro a b c d h
        obtain ⟨g1, g2, g3, g4⟩ := ih2 a b c d h
        cases acc with
        | none =>
          rw [hstep] at g2 g3 g4
          simp only [] at g2 g3 g4
          have hb := g2 q.1 q.1 q.2 q.2 rfl
          refine ⟨?_, fun _ _ _ _ h0 => absurd h0 (by simp), ?_, ?_⟩
          · intro p hp hl
            rcases List.mem_cons.1 hp with e | hp
            · subst e; exact hb
            · exact g1 p hp hl
          · rcases g3 with ⟨p, hp, hl, e⟩ | ⟨b0, c0, d0, e⟩
            · exact Or.inl ⟨p, List.mem_cons_of_mem _ hp, hl, e⟩
            · injection e with e; injection e with e1 e
              exact Or.inl ⟨q, by simp, hq, e1⟩
          · rcases g4 with ⟨p, hp, hl, e⟩ | ⟨a0, c0, d0, e⟩
            · exact Or.inl ⟨p, List.mem_cons_of_mem _ hp, hl, e⟩
            · injection e with e; injection e with e1 e; injection e with e2 e
              exact Or.inl ⟨q, by simp, hq, e2⟩
        | some v =>
          obtain ⟨a1, b1, c1, d1⟩ := v
          rw [hstep] at g2 g3 g4
          simp only [] at g2 g3 g4
          have hb := g2 _ _ _ _ rfl
          refine ⟨?_, ?_, ?_, ?_⟩
          · intro p hp hl
            rcases List.mem_cons.1 hp with e | hp
            · subst e; omega
            · exact g1 p hp hl
          · intro a0 b0 c0 d0 h0
            injection h0 with h0; injection h0 with e1 h0; injection h0 with e2 h0
            omega
          · rcases g3 with ⟨p, hp, hl, e⟩ | ⟨b0, c0, d0, e⟩
            · exact Or.inl ⟨p, List.mem_cons_of_mem _ hp, hl, e⟩
            · injection e with e; injection e with e1 e
              by_cases hm : a1 ≤ q.1
              · exact Or.inr ⟨b1, c1, d1, by rw [← e1, Nat.min_eq_left hm]⟩
              · exact Or.inl ⟨q, by simp, hq, by rw [← e1]; omega⟩
          · rcases g4 with ⟨p, hp, hl, e⟩ | ⟨a0, c0, d0, e⟩
            · exact Or.inl ⟨p, List.mem_cons_of_mem _ hp, hl, e⟩
            · injection e with e; injection e with e1 e; injection e with e2 e
              by_cases hm : q.1 ≤ b1
              · exact Or.inr ⟨a1, c1, d1, by rw [← e2, Nat.max_eq_left hm]⟩
              · exact Or.inl ⟨q, by simp, hq, by rw [← e2]; omega⟩
    · have hstep : stepE inv A ya yb acc q = acc := by unfold stepE; exact if_neg hq
      rw [hstep] at ih1 ih2 ⊢
      constructor
      · intro h
        obtain ⟨h1, h2⟩ := ih1 h
        refine ⟨h1, fun p hp => ?_⟩
        rcases List.mem_cons.1 hp with e | hp
        · subst e; exact hq
        · exact h2 p hp
      · intro a b c d h
        obtain ⟨g1, g2, g3, g4⟩ := ih2 a b c d h
        refine ⟨?_, g2, ?_, ?_⟩
        · intro p hp hl
          rcases List.mem_cons.1 hp with e | hp
          · subst e; exact absurd hl hq
          · exact g1 p hp hl
        · rcases g3 with ⟨p, hp, hl, e⟩ | g3
          · exact Or.inl ⟨p, List.mem_cons_of_mem _ hp, hl, e⟩
          · exact Or.inr g3
        · rcases g4 with ⟨p, hp, hl, e⟩ | g4
          · exact Or.inl ⟨p, List.mem_cons_of_mem _ hp, hl, e⟩
          · exact Or.inr g4

/-- facts about a text state set up by the one/two-line formats -/
structure PlainText (inp : TileIn) (t : TextSt) : Prop where
  prop : t.prop = !(inp.styling.getD {}).fixedWidth
  spacing : t.spacing = ((inp.styling.getD {}).extraSp.emod 4).toNat
  wrap : t.wrap = false
  tcol : t.tcol = true
  tbg : t.tbg = true
  tsH : 1 ≤ t.tsH
  tsV : 1 ≤ t.tsV ∧ t.tsV ≤ 4

theorem setTextSize_tsH (t : TextSt) (a b : Int) : 1 ≤ (setTextSize t a b).tsH := by
  unfold setTextSize; simp only []; split <;> omega

theorem setTextSize_tsV (t : TextSt) (a fv u : Int) (h0 : 0 ≤ fv) (h1 : fv < 4) (h2 : 1 ≤ u) (h3 : u ≤ 4) :
    1 ≤ (setTextSize t a (qint (decide (fv > 0)) fv u)).tsV ∧ (setTextSize t a (qint (decide (fv > 0)) fv u)).tsV ≤ 4 := by
  unfold setTextSize qint
  simp only []
  by_cases h : fv > 0
  · simp only [h, decide_true, if_true]
    rw [if_neg (by omega)]; omega
  · simp only [h, decide_false]
    rw [if_neg (by simp; omega)]
    simp; omega

theorem constrain_range (v lo hi : Int) (h : lo ≤ hi) : lo ≤ constrain v lo hi ∧ constrain v lo hi ≤ hi := by
  unfold constrain; split <;> (try split) <;> omega

theorem tileAcc_fmt10 (inp : TileIn) (width height shrink border : Int) (hf : inp.fmt = 10) :
    ∃ t0 : TextSt, (tileAcc inp width height shrink border).ops = #[.text t0 inp.title] ∧ PlainText inp t0 ∧
      t0.cx = shr1 (constrain ((activeWH width height shrink border).1 - strWidth t0 inp.title) 0
                (activeWH width height shrink border).1) ∧
      t0.cy = shr1 ((activeWH width height shrink border).2 - lineHeight t0) := by
  unfold tileAcc
  extract_lets st tf ttf sc wShrink hShrink acc0 ffc fft fprop fH fV tH tV src acc1 aw ah g acc2 tsz acc3 xo yo
  rw [if_pos hf]
  refine ⟨_, rfl, ?_, rfl, rfl⟩
  refine ⟨rfl, rfl, rfl, rfl, rfl, ?_, ?_⟩
  · show 1 ≤ (setTextSize acc2.t (qint (decide (fH > 0)) fH tsz) (qint (decide (fV > 0)) fV tsz)).tsH
    exact setTextSize_tsH _ _ _
  · show 1 ≤ (setTextSize acc2.t (qint (decide (fH > 0)) fH tsz) (qint (decide (fV > 0)) fV tsz)).tsV ∧
      (setTextSize acc2.t (qint (decide (fH > 0)) fH tsz) (qint (decide (fV > 0)) fV tsz)).tsV ≤ 4
    exact setTextSize_tsV _ _ fV tsz (Int.emod_nonneg _ (by decide)) (Int.emod_lt_of_pos _ (by decide))
      (constrain_range _ 1 4 (by decide)).1 (constrain_range _ 1 4 (by decide)).2

theorem mem_pixels (k : Spec.Tile.Case) (X Y : Nat) : (X, Y) ∈ Spec.Tile.pixels k ↔ X < k.w ∧ Y < k.h := by
  unfold Spec.Tile.pixels
  simp only [List.mem_flatMap, List.mem_range, List.mem_map, Prod.mk.injEq]
  constructor
  · rintro ⟨y, hy, x, hx, rfl, rfl⟩; exact ⟨hx, hy⟩
  · rintro ⟨hx, hy⟩; exact ⟨Y, hy, X, hx, rfl, rfl⟩

/-- what `Spec.Tile.extent` returns -/
theorem extent_char (k : Spec.Tile.Case) (A : Nat → Nat → Bool) (ya yb : Int) :
    (Spec.Tile.extent k A ya yb = none → ∀ p ∈ Spec.Tile.pixels k, ¬ litIn k.inverted A ya yb p) ∧
    (∀ l r t b, Spec.Tile.extent k A ya yb = some (l, r, t, b) →
      (∀ p ∈ Spec.Tile.pixels k, litIn k.inverted A ya yb p → l ≤ p.1 ∧ p.1 ≤ r) ∧
      (∃ p ∈ Spec.Tile.pixels k, litIn k.inverted A ya yb p ∧ p.1 = l) ∧
      (∃ p ∈ Spec.Tile.pixels k, litIn k.inverted A ya yb p ∧ p.1 = r)) := by
  rw [extent_eq]
  obtain ⟨h1, h2⟩ := foldl_stepE k.inverted A ya yb (Spec.Tile.pixels k) none
  refine ⟨fun h => (h1 h).2, fun l r t b h => ?_⟩
  obtain ⟨g1, _, g3, g4⟩ := h2 l r t b h
  refine ⟨g1, ?_, ?_⟩
  · rcases g3 with g | ⟨_, _, _, e⟩
    · exact g
    · exact absurd e (by simp)
  · rcases g4 with g | ⟨_, _, _, e⟩
    · exact g
    · exact absurd e (by simp)

/-- the centring clause for a row band whose lit pixels are exactly a region with known end columns -/
theorem centredIn_of_region (k : Spec.Tile.Case) (A : Nat → Nat → Bool) (ya yb : Int) (Rg : Nat → Nat → Prop)
    (hlit : ∀ X Y, X < k.w → Y < k.h → (litIn k.inverted A ya yb (X, Y) ↔ Rg X Y))
    (hin : ∀ X Y, Rg X Y → X < k.w ∧ Y < k.h)
    (hcase : (∀ X Y, ¬ Rg X Y) ∨ ∃ Lx Rx : Nat, (∀ X Y, Rg X Y → Lx ≤ X ∧ X ≤ Rx) ∧ (∃ Y, Rg Lx Y) ∧ (∃ Y, Rg Rx Y) ∧
      (((Lx : Int) - (Spec.Tile.active k).1) - ((Spec.Tile.active k).2.2.1 - 1 - (Rx : Int))).natAbs ≤ 1) :
    Spec.Tile.centredIn k A ya yb = true := by
  obtain ⟨e1, e2⟩ := extent_char k A ya yb
  unfold Spec.Tile.centredIn
  generalize hact : Spec.Tile.active k = act at *
  obtain ⟨x0, y0, x1, y1⟩ := act
  simp only []
  cases hext : Spec.Tile.extent k A ya yb with
  | none => rfl
  | some v =>
    obtain ⟨l, r, t, b⟩ := v
    simp only []
    obtain ⟨g1, ⟨pl, hpl, ll, el⟩, ⟨pr, hpr, lr, er⟩⟩ := e2 l r t b hext
    rcases hcase with hnone | ⟨Lx, Rx, hall, ⟨YL, hL⟩, ⟨YR, hR⟩, hc⟩
    · exfalso
      obtain ⟨px, py⟩ := pl
      obtain ⟨hx, hy⟩ := (mem_pixels k px py).1 hpl
      exact hnone px py ((hlit px py hx hy).1 ll)
    · have hl : l = Lx := by
        obtain ⟨px, py⟩ := pl
        obtain ⟨hx, hy⟩ := (mem_pixels k px py).1 hpl
        have a1 := (hall px py ((hlit px py hx hy).1 ll)).1
        obtain ⟨hx', hy'⟩ := hin Lx YL hL
        have a2 := (g1 (Lx, YL) ((mem_pixels k Lx YL).2 ⟨hx', hy'⟩) ((hlit Lx YL hx' hy').2 hL)).1
        simp only [] at el a2; omega
      have hr : r = Rx := by
        obtain ⟨px, py⟩ := pr
        obtain ⟨hx, hy⟩ := (mem_pixels k px py).1 hpr
        have a1 := (hall px py ((hlit px py hx hy).1 lr)).2
        obtain ⟨hx', hy'⟩ := hin Rx YR hR
        have a2 := (g1 (Rx, YR) ((mem_pixels k Rx YR).2 ⟨hx', hy'⟩) ((hlit Rx YR hx' hy').2 hR)).2
        simp only [] at er a2; omega
      subst hl hr
      simp only [] at hc
      split
      · simpa using hc
      · rfl

/-- everything of a text state except the cursor -/
structure SameStyle (t t' : TextSt) : Prop where
  font : t'.font = t.font
  prop : t'.prop = t.prop
  spacing : t'.spacing = t.spacing
  tcol : t'.tcol = t.tcol
  tbg : t'.tbg = t.tbg
  tsH : t'.tsH = t.tsH
  tsV : t'.tsV = t.tsV
  wrap : t'.wrap = t.wrap

theorem SameStyle.refl (t : TextSt) : SameStyle t t := ⟨rfl, rfl, rfl, rfl, rfl, rfl, rfl, rfl⟩

theorem writeChar_style (c : Canvas) (t : TextSt) (ch : Nat) : SameStyle t (writeChar (c, t) ch).2 := by
  unfold writeChar
  simp only []
  split
  · exact ⟨rfl, rfl, rfl, rfl, rfl, rfl, rfl, rfl⟩
  · split
    · exact SameStyle.refl t
    · split <;> exact ⟨rfl, rfl, rfl, rfl, rfl, rfl, rfl, rfl⟩

theorem renderText_style (s : List Nat) (c : Canvas) (t : TextSt) : SameStyle t (renderText (c, t) s).2 := by
  unfold renderText
  induction s generalizing c t with
  | nil => exact SameStyle.refl t
  | cons ch rest ih =>
    rw [List.foldl_cons]
    have h1 := writeChar_style c t ch
    have h2 := ih (writeChar (c, t) ch).1 (writeChar (c, t) ch).2
    exact ⟨h2.font.trans h1.font, h2.prop.trans h1.prop, h2.spacing.trans h1.spacing, h2.tcol.trans h1.tcol,
      h2.tbg.trans h1.tbg, h2.tsH.trans h1.tsH, h2.tsV.trans h1.tsV, h2.wrap.trans h1.wrap⟩

theorem PlainText.of_style {inp : TileIn} {t t' : TextSt} (h : PlainText inp t) (hs : SameStyle t t') :
    PlainText inp t' :=
  ⟨hs.prop.trans h.prop, hs.spacing.trans h.spacing, hs.wrap.trans h.wrap, hs.tcol.trans h.tcol, hs.tbg.trans h.tbg,
    by rw [hs.tsH]; exact h.tsH, by rw [hs.tsV]; exact h.tsV⟩

theorem tileAcc_fmt11 (inp : TileIn) (width height shrink border : Int) (hf : inp.fmt = 11) :
    ∃ t1 t2 : TextSt, (tileAcc inp width height shrink border).ops = #[.text t1 inp.line1, .text t2 inp.line2] ∧
      PlainText inp t1 ∧ SameStyle t1 t2 ∧
      t1.cx = shr1 (constrain ((activeWH width height shrink border).1 - strWidth t1 inp.line1) 0
                (activeWH width height shrink border).1) ∧
      t1.cy = shr1 (activeWH width height shrink border).2 - lineHeight t1 ∧
      t2.cx = shr1 (constrain ((activeWH width height shrink border).1 - strWidth t2 inp.line2) 0
                (activeWH width height shrink border).1) ∧
      t2.cy = shr1 (activeWH width height shrink border).2 := by
  unfold tileAcc
  extract_lets st tf ttf sc wShrink hShrink acc0 ffc fft fprop fH fV tH tV src acc1 aw ah g acc2 tsz acc3 xo yo xo1 yo1 acc4 xo2 yo2
  have h10 : ¬ inp.fmt = 10 := by omega
  rw [if_neg h10, if_pos hf]
  refine ⟨_, _, rfl, ?_, ?_, rfl, rfl, rfl, rfl⟩
  · refine ⟨rfl, rfl, rfl, rfl, rfl, ?_, ?_⟩
    · show 1 ≤ (setTextSize acc2.t (qint (decide (fH > 0)) fH tsz) (qint (decide (fV > 0)) fV tsz)).tsH
      exact setTextSize_tsH _ _ _
    · show 1 ≤ (setTextSize acc2.t (qint (decide (fH > 0)) fH tsz) (qint (decide (fV > 0)) fV tsz)).tsV ∧
        (setTextSize acc2.t (qint (decide (fH > 0)) fH tsz) (qint (decide (fV > 0)) fV tsz)).tsV ≤ 4
      exact setTextSize_tsV _ _ fV tsz (Int.emod_nonneg _ (by decide)) (Int.emod_lt_of_pos _ (by decide))
        (constrain_range _ 1 4 (by decide)).1 (constrain_range _ 1 4 (by decide)).2
  · have := renderText_style inp.line1 { geo := g, bytes := #[] } (acc3.cursor xo1 yo1).t
    exact ⟨this.font, this.prop, this.spacing, this.tcol, this.tbg, this.tsH, this.tsV, this.wrap⟩


theorem glyphR_yrange (g : Geom) (t : TextSt) (x y : Int) (ch : Nat) (h v : Int) (hv : 0 ≤ v) (X Y : Nat)
    (hg : glyphR g t x y ch h v X Y) :
    y + g.byy ≤ (Y : Int) ∧ (Y : Int) < y + g.byy + (t.fp.bbH : Int) * v := by
  obtain ⟨i, j, hi, hj, hink, hc, q1, q2, q3, q4⟩ := hg
  have h1 : (0 : Int) ≤ (j : Int) * v := Int.mul_nonneg (by omega) hv
  have h2 : ((j : Int) + 1) * v ≤ (t.fp.bbH : Int) * v := Int.mul_le_mul_of_nonneg_right (by omega) hv
  rw [Int.add_mul, Int.one_mul] at h2
  constructor <;> omega

theorem textR_yrange (g : Geom) (s : List Nat) (t : TextSt) (hv : 0 ≤ t.tsV) (X Y : Nat)
    (hr : textR g t s X Y) :
    t.cy + g.byy ≤ (Y : Int) ∧ (Y : Int) < t.cy + g.byy + (t.fp.bbH : Int) * t.tsV := by
  induction s generalizing t with
  | nil => exact hr.elim
  | cons ch rest ih =>
    simp only [textR] at hr
    by_cases h13 : ch = 13
    · simp only [h13, if_true] at hr; exact ih t hv hr
    · simp only [h13, if_false] at hr
      rcases hr with ⟨_, hg⟩ | hr
      · exact glyphR_yrange g t t.cx t.cy ch t.tsH t.tsV hv X Y hg
      · exact ih { t with cx := t.cx + t.tsH * (charWidth t ch : Int) + t.spacing } hv hr

end RawPanelVerif.Tile
