import RawPanelVerif.Model.Strip
/-! Lemmas about `trimSpace` / strip functions: they only delete white-space runes. -/
namespace RawPanelVerif.Strip
open RawPanelVerif RawPanelVerif.Bytes

/-- a byte string that is exactly one white-space rune -/
def WsRune (w : Bytes) : Prop := dropSpace1 w = some []
def WsRuneRev (w : Bytes) : Prop := dropSpace1Rev w = some []

/-- a sequence of white-space runes -/
inductive AllWs : Bytes → Prop where
  | nil : AllWs []
  | cons (w r : Bytes) : WsRune w → AllWs r → AllWs (w ++ r)

inductive AllWsRev : Bytes → Prop where
  | nil : AllWsRev []
  | cons (w r : Bytes) : WsRuneRev w → AllWsRev r → AllWsRev (w ++ r)

theorem dropSpace1_some (s r : Bytes) (h : dropSpace1 s = some r) :
    ∃ pre, s = pre ++ r ∧ WsRune pre := by
  unfold dropSpace1 at h
  split at h
  all_goals first
    | (injection h with h; subst h; exact ⟨[_], rfl, rfl⟩)
    | (injection h with h; subst h; exact ⟨[_, _], rfl, rfl⟩)
    | (injection h with h; subst h; exact ⟨[_, _, _], rfl, rfl⟩)
    | (split at h
       · rename_i hc
         injection h with h; subst h
         refine ⟨[0xE2, 0x80, _], rfl, ?_⟩
         unfold WsRune dropSpace1
         simp [hc]
       · exact absurd h (by simp))
    | exact absurd h (by simp)

theorem dropSpace1Rev_some (s r : Bytes) (h : dropSpace1Rev s = some r) :
    ∃ pre, s = pre ++ r ∧ WsRuneRev pre := by
  unfold dropSpace1Rev at h
  split at h
  all_goals first
    | (injection h with h; subst h; exact ⟨[_], rfl, rfl⟩)
    | (injection h with h; subst h; exact ⟨[_, _], rfl, rfl⟩)
    | (injection h with h; subst h; exact ⟨[_, _, _], rfl, rfl⟩)
    | (split at h
       · rename_i hc
         injection h with h; subst h
         refine ⟨[_, 0x80, 0xE2], rfl, ?_⟩
         unfold WsRuneRev dropSpace1Rev
         simp [hc]
       · exact absurd h (by simp))
    | exact absurd h (by simp)

theorem trimLeft_decomp (n : Nat) (s : Bytes) : ∃ pre, s = pre ++ trimLeft n s ∧ AllWs pre := by
  induction n generalizing s with
  | zero => exact ⟨[], rfl, AllWs.nil⟩
  | succ n ih =>
    unfold trimLeft
    cases h : dropSpace1 s with
    | none => exact ⟨[], rfl, AllWs.nil⟩
    | some r =>
      obtain ⟨w, hs, hw⟩ := dropSpace1_some s r h
      obtain ⟨pre, hr, hp⟩ := ih r
      refine ⟨w ++ pre, ?_, AllWs.cons w pre hw hp⟩
      simp only []
      rw [List.append_assoc, ← hr, hs]

theorem trimRightRev_decomp (n : Nat) (s : Bytes) : ∃ pre, s = pre ++ trimRightRev n s ∧ AllWsRev pre := by
  induction n generalizing s with
  | zero => exact ⟨[], rfl, AllWsRev.nil⟩
  | succ n ih =>
    unfold trimRightRev
    cases h : dropSpace1Rev s with
    | none => exact ⟨[], rfl, AllWsRev.nil⟩
    | some r =>
      obtain ⟨w, hs, hw⟩ := dropSpace1Rev_some s r h
      obtain ⟨pre, hr, hp⟩ := ih r
      refine ⟨w ++ pre, ?_, AllWsRev.cons w pre hw hp⟩
      simp only []
      rw [List.append_assoc, ← hr, hs]

/-- **TrimSpace only removes white-space runes at the two ends**: `p = pre ++ trimSpace p ++ suf`, `pre` a sequence of
white-space runes, `suf` (read backwards) a sequence of white-space runes. -/
theorem trimSpace_decomp (p : Bytes) :
    ∃ pre suf, p = pre ++ trimSpace p ++ suf ∧ AllWs pre ∧ AllWsRev suf.reverse := by
  unfold trimSpace
  simp only []
  obtain ⟨pre, h1, hp⟩ := trimLeft_decomp p.length p
  generalize trimLeft p.length p = l at h1 ⊢
  obtain ⟨sufr, h2, hs⟩ := trimRightRev_decomp l.length l.reverse
  generalize trimRightRev l.length l.reverse = m at h2 ⊢
  refine ⟨pre, sufr.reverse, ?_, hp, by simpa using hs⟩
  have : l = m.reverse ++ sufr.reverse := by
    have := congrArg List.reverse h2
    simpa using this
  rw [h1, this, List.append_assoc]

theorem mem_of_mem_trimSpace (p : Bytes) (b : UInt8) (h : b ∈ trimSpace p) : b ∈ p := by
  obtain ⟨pre, suf, hp, _, _⟩ := trimSpace_decomp p
  rw [hp]; simp [h]

theorem not_mem_flatten_map {α : Type} (f : Bytes → Bytes) (ls : List Bytes) (b : UInt8)
    (h : ∀ l ∈ ls, b ∉ f l) : b ∉ (ls.map f).flatten := by
  intro hb
  simp only [List.mem_flatten, List.mem_map] at hb
  obtain ⟨x, ⟨l, hl, rfl⟩, hx⟩ := hb
  exact h l hl hx

end RawPanelVerif.Strip
