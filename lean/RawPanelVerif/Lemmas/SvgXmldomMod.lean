import RawPanelVerif.Lemmas.SvgXmldomWf
/-!
# The `go-xmldom` round trip at token level (C15): content kept MODULO the named features

`Spec.SvgBase.keepsContentMod base printed`: base and printed document are compared after deleting from both what the
named lossy features cover (`Spec.SvgBase.normal`).  Main result `keptMod_of_doc`: for every token stream that is a
document the modelled round trip keeps the content modulo the features, whatever (plain, text-closed) elements are
appended to the root.

Route: `ts' = normal d ts` is again a document and has none of the lossy features, so it is printed unchanged
(`printed_nil_of_lossFree`); the element part printed for `ts'` is a sublist of the element part printed for `ts`
(`elemToks_dropCovered_sublist`: the transducer ignores comments and instructions, drops prefixes itself, and a
character-data token that is deleted from `ts'` only ever adds a text to the output for `ts`); the printed document is
its own normal form up to the processing instruction (`dropCovered_closed`).
-/
namespace RawPanelVerif.Xmldom
open RawPanelVerif.Xml RawPanelVerif.Spec.SvgBase
open RawPanelVerif.Topo (Str SvgNode)

/-! ## `dropCovered`, `unprefix` token by token -/

@[simp] theorem dropCovered_nil (d : Bool) : dropCovered d [] = [] := rfl
@[simp] theorem dropCovered_comment (d : Bool) (c : Str) (r : List Tok) : dropCovered d (.comment c :: r) = dropCovered d r := rfl
@[simp] theorem dropCovered_pi (d : Bool) (a b : Str) (r : List Tok) :
    dropCovered d (.pi a b :: r) = if d then dropCovered d r else .pi a b :: dropCovered d r := rfl
@[simp] theorem dropCovered_text (d : Bool) (s : Str) (r : List Tok) :
    dropCovered d (.text s :: r) = if !s.isEmpty && !closesNext r then dropCovered d r else .text s :: dropCovered d r := rfl
@[simp] theorem dropCovered_start (d : Bool) (p l : Str) (as : List (Str × Str × Str)) (r : List Tok) :
    dropCovered d (.start p l as :: r) = .start p l as :: dropCovered d r := rfl
@[simp] theorem dropCovered_stop (d : Bool) (p l : Str) (r : List Tok) : dropCovered d (.stop p l :: r) = .stop p l :: dropCovered d r := rfl
@[simp] theorem dropCovered_dir (d : Bool) (c : Str) (r : List Tok) : dropCovered d (.dir c :: r) = .dir c :: dropCovered d r := rfl

theorem unprefix_start (p l : Str) (as : List (Str × Str × Str)) : unprefix (.start p l as) = .start [] l (as.map stripAttr) := rfl

theorem dropCovered_sublist (d : Bool) : ∀ ts : List Tok, (dropCovered d ts).Sublist ts := by
  intro ts
  induction ts with
  | nil => exact List.Sublist.refl _
  | cons t r ih =>
    cases t with
    | comment c => exact ih.cons _
    | pi a b => simp only [dropCovered_pi]; split; exact ih.cons _; exact ih.cons_cons _
    | text s => simp only [dropCovered_text]; split; exact ih.cons _; exact ih.cons_cons _
    | start p l as => exact ih.cons_cons _
    | stop p l => exact ih.cons_cons _
    | dir c => exact ih.cons_cons _

/-! ## the normal form has none of the lossy features -/

theorem closesNext_dropCovered (d : Bool) : ∀ r : List Tok, closesNext r = true → closesNext (dropCovered d r) = true := by
  intro r
  induction r with
  | nil => intro h; exact h
  | cons t r ih =>
    intro h
    cases t with
    | comment c => exact ih (by simpa [closesNext_comment] using h)
    | pi a b =>
      rw [closesNext_pi] at h
      simp only [dropCovered_pi]
      split
      · exact ih h
      · rw [closesNext_pi]; exact ih h
    | text s => rw [closesNext_text] at h; cases h
    | start p l as => rw [closesNext_start] at h; cases h
    | stop p l => rfl
    | dir c => rw [closesNext_dir] at h; simp only [dropCovered_dir, closesNext_dir]; exact ih h

theorem mixedText_dropCovered (d : Bool) : ∀ ts : List Tok, mixedText (dropCovered d ts) = false := by
  intro ts
  induction ts with
  | nil => rfl
  | cons t r ih =>
    cases t with
    | comment c => exact ih
    | pi a b => simp only [dropCovered_pi]; split; exact ih; simpa [mixedText] using ih
    | text s =>
      simp only [dropCovered_text]
      by_cases hm : (!s.isEmpty && !closesNext r) = true
      · rw [if_pos hm]; exact ih
      · rw [if_neg hm]
        simp only [mixedText, ih, Bool.or_false]
        cases hs : s.isEmpty with
        | true => rfl
        | false =>
          have hc : closesNext r = true := by
            cases hc : closesNext r with
            | true => rfl
            | false => simp [hs, hc] at hm
          simp [closesNext_dropCovered d r hc]
    | start p l as => simpa [mixedText] using ih
    | stop p l => simpa [mixedText] using ih
    | dir c => simpa [mixedText] using ih

theorem hasComment_dropCovered (d : Bool) : ∀ ts : List Tok, hasComment (dropCovered d ts) = false := by
  intro ts
  induction ts with
  | nil => rfl
  | cons t r ih =>
    cases t with
    | comment c => exact ih
    | pi a b => simp only [dropCovered_pi]; split; exact ih; simpa [hasComment, Tok.isComment] using ih
    | text s => simp only [dropCovered_text]; split; exact ih; simpa [hasComment, Tok.isComment] using ih
    | start p l as => simpa [hasComment, Tok.isComment] using ih
    | stop p l => simpa [hasComment, Tok.isComment] using ih
    | dir c => simpa [hasComment, Tok.isComment] using ih

/-! `unprefix` changes nothing the feature predicates look at, except the prefixes -/

theorem structural_unprefix (t : Tok) : structural (unprefix t) = structural t := by cases t <;> rfl
theorem isStop_unprefix (t : Tok) : (unprefix t).isStop = t.isStop := by cases t <;> rfl
theorem isPI_unprefix (t : Tok) : (unprefix t).isPI = t.isPI := by cases t <;> rfl
theorem isDir_unprefix (t : Tok) : (unprefix t).isDir = t.isDir := by cases t <;> rfl
theorem isBlank_unprefix (t : Tok) : (unprefix t).isBlank = t.isBlank := by cases t <;> rfl
theorem isComment_unprefix (t : Tok) : (unprefix t).isComment = t.isComment := by cases t <;> rfl

theorem closesNext_unprefix : ∀ r : List Tok, closesNext (r.map unprefix) = closesNext r := by
  intro r
  induction r with
  | nil => rfl
  | cons t r ih =>
    cases t with
    | comment c => simpa [unprefix, closesNext_comment] using ih
    | pi a b => simpa [unprefix, closesNext_pi] using ih
    | dir c => simpa [unprefix, closesNext_dir] using ih
    | text s => rfl
    | start p l as => rfl
    | stop p l => rfl

theorem mixedText_unprefix : ∀ ts : List Tok, mixedText (ts.map unprefix) = mixedText ts := by
  intro ts
  induction ts with
  | nil => rfl
  | cons t r ih =>
    cases t with
    | text s => simp only [List.map_cons, unprefix, mixedText, closesNext_unprefix, ih]
    | comment c => simpa [unprefix, mixedText] using ih
    | pi a b => simpa [unprefix, mixedText] using ih
    | dir c => simpa [unprefix, mixedText] using ih
    | start p l as => simpa [unprefix, mixedText] using ih
    | stop p l => simpa [unprefix, mixedText] using ih

theorem hasComment_unprefix (ts : List Tok) : hasComment (ts.map unprefix) = hasComment ts := by
  simp only [hasComment, List.any_map]
  congr 1
  funext t
  exact isComment_unprefix t

theorem prefixed_unprefix (t : Tok) : prefixed (unprefix t) = false := by
  cases t with
  | start p l as =>
    simp only [unprefix, prefixed, List.isEmpty_nil, Bool.not_true, Bool.false_or, List.any_map]
    rw [List.any_eq_false]
    intro a _
    simp
  | stop p l => rfl
  | text s => rfl
  | comment c => rfl
  | pi a b => rfl
  | dir c => rfl

theorem hasPrefix_unprefix (ts : List Tok) : hasPrefix (ts.map unprefix) = false := by
  simp only [hasPrefix, List.any_map]
  rw [List.any_eq_false]
  intro t _
  simp [prefixed_unprefix]

theorem content_unprefix (ts : List Tok) : content (ts.map unprefix) = (content ts).map unprefix := by
  simp only [content, List.filter_map]
  congr 1
  apply List.filter_congr
  intro t _
  simp [isBlank_unprefix]

theorem any_isPI_unprefix (ts : List Tok) : (ts.map unprefix).any Tok.isPI = ts.any Tok.isPI := by
  simp only [List.any_map]
  congr 1
  funext t
  exact isPI_unprefix t

/-- a token without prefixes is its own normal form -/
theorem unprefix_of_not_prefixed {t : Tok} (h : prefixed t = false) : unprefix t = t := by
  cases t with
  | start p l as =>
    simp only [prefixed, Bool.or_eq_false_iff, Bool.not_eq_false', List.isEmpty_iff] at h
    obtain ⟨hp, ha⟩ := h
    subst hp
    simp only [unprefix, Tok.start.injEq, true_and]
    rw [List.any_eq_false] at ha
    calc as.map (fun a => (([] : Str), a.2.1, a.2.2)) = as.map id := by
          apply List.map_congr_left
          intro a haa
          have := ha a haa
          obtain ⟨a1, a2, a3⟩ := a
          simp only [Bool.not_eq_true'] at this
          simp only [id]
          cases a1 with
          | nil => rfl
          | cons _ _ => simp at this
      _ = as := List.map_id _
  | stop p l =>
    simp only [prefixed, Bool.not_eq_false', List.isEmpty_iff] at h
    subst h; rfl
  | text s => rfl
  | comment c => rfl
  | pi a b => rfl
  | dir c => rfl

theorem map_unprefix_eq_self {l : List Tok} (h : ∀ x ∈ l, prefixed x = false) : l.map unprefix = l := by
  calc l.map unprefix = l.map id := List.map_congr_left (fun x hx => unprefix_of_not_prefixed (h x hx))
    _ = l := List.map_id _

/-! ## the normal form of a document is a document -/

def erase (o : Str × Str) : Str × Str := ([], o.2)

theorem docShape_normal (d : Bool) : ∀ (ts : List Tok) (st : List (Str × Str)) (seen : Bool),
    docShape st seen ts = true → docShape (st.map erase) seen (normal d ts) = true := by
  intro ts
  induction ts with
  | nil => intro st seen h; cases st <;> simp [docShape] at h <;> simp [normal, docShape, h]
  | cons t r ih =>
    intro st seen h
    cases t with
    | start p l as =>
      cases st with
      | nil =>
        simp only [docShape, Bool.and_eq_true] at h
        have := ih [(p, l)] true h.2
        simpa [normal, unprefix, docShape, h.1, erase] using this
      | cons o st' =>
        simp only [docShape] at h
        have := ih ((p, l) :: o :: st') true h
        simpa [normal, unprefix, docShape, erase] using this
    | stop p l =>
      cases st with
      | nil => simp [docShape] at h
      | cons o st' =>
        simp only [docShape, Bool.and_eq_true, beq_iff_eq] at h
        have := ih st' seen h.2
        simp only [normal, dropCovered_stop, List.map_cons, unprefix, docShape, Bool.and_eq_true, beq_iff_eq]
        exact ⟨by rw [h.1]; rfl, this⟩
    | text s =>
      cases st with
      | nil =>
        simp only [docShape, Bool.and_eq_true, List.isEmpty_iff] at h
        obtain ⟨hs, h'⟩ := h
        subst hs
        have := ih [] seen h'
        simpa [normal, unprefix, docShape] using this
      | cons o st' =>
        simp only [docShape] at h
        have := ih (o :: st') seen h
        simp only [normal, dropCovered_text]
        split
        · exact this
        · simpa [unprefix, docShape, normal] using this
    | comment c =>
      have h' : docShape st seen r = true := by cases st <;> simpa [docShape] using h
      exact ih st seen h'
    | pi a b =>
      have h' : docShape st seen r = true := by cases st <;> simpa [docShape] using h
      have := ih st seen h'
      simp only [normal, dropCovered_pi]
      split
      · exact this
      · cases st <;> simpa [unprefix, docShape, normal] using this
    | dir c =>
      cases st with
      | nil =>
        simp only [docShape, Bool.and_eq_true] at h
        have := ih [] seen h.2
        simpa [normal, unprefix, docShape, h.1] using this
      | cons o st' => simp [docShape] at h

/-! ## processing instructions and directives of the normal form -/

theorem any_isPI_dropCovered_true : ∀ ts : List Tok, (dropCovered true ts).any Tok.isPI = false := by
  intro ts
  induction ts with
  | nil => rfl
  | cons t r ih =>
    cases t with
    | comment c => exact ih
    | pi a b => simp at ih ⊢; exact ih
    | text s => simp only [dropCovered_text]; split; exact ih; simpa [Tok.isPI] using ih
    | start p l as => simpa [Tok.isPI] using ih
    | stop p l => simpa [Tok.isPI] using ih
    | dir c => simpa [Tok.isPI] using ih

theorem lastPI_dropCovered_false : ∀ ts : List Tok, lastPI (dropCovered false ts) = lastPI ts := by
  intro ts
  induction ts with
  | nil => rfl
  | cons t r ih =>
    cases t with
    | comment c => rw [dropCovered_comment, lastPI_cons_of_not_pi _ _ rfl]; exact ih
    | pi a b => simp only [dropCovered_pi, Bool.false_eq_true, if_false, lastPI, ih]
    | text s =>
      simp only [dropCovered_text]
      split
      · rw [lastPI_cons_of_not_pi _ _ rfl]; exact ih
      · rw [lastPI_cons_of_not_pi _ _ rfl, lastPI_cons_of_not_pi _ _ rfl]; exact ih
    | start p l as => rw [dropCovered_start, lastPI_cons_of_not_pi _ _ rfl, lastPI_cons_of_not_pi _ _ rfl]; exact ih
    | stop p l => rw [dropCovered_stop, lastPI_cons_of_not_pi _ _ rfl, lastPI_cons_of_not_pi _ _ rfl]; exact ih
    | dir c => rw [dropCovered_dir, lastPI_cons_of_not_pi _ _ rfl, lastPI_cons_of_not_pi _ _ rfl]; exact ih

theorem lastPI_unprefix : ∀ ts : List Tok, lastPI (ts.map unprefix) = lastPI ts := by
  intro ts
  induction ts with
  | nil => rfl
  | cons t r ih =>
    simp only [List.map_cons, lastPI, ih, isPI_unprefix]
    cases lastPI r with
    | some q => rfl
    | none =>
      simp only
      split
      · rename_i hp
        cases t <;> simp_all [Tok.isPI, unprefix]
      · rfl

theorem dirs_dropCovered (d : Bool) : ∀ ts : List Tok, dirs (dropCovered d ts) = dirs ts := by
  intro ts
  induction ts with
  | nil => rfl
  | cons t r ih =>
    cases t with
    | comment c => simpa [dirs, Tok.isDir] using ih
    | pi a b => simp only [dropCovered_pi]; split <;> simpa [dirs, Tok.isDir] using ih
    | text s => simp only [dropCovered_text]; split <;> simpa [dirs, Tok.isDir] using ih
    | start p l as => simpa [dirs, Tok.isDir] using ih
    | stop p l => simpa [dirs, Tok.isDir] using ih
    | dir c =>
      simp only [dirs] at ih
      simp only [dropCovered_dir, dirs, List.filter_cons, Tok.isDir, if_true, ih]

theorem dirs_unprefix : ∀ ts : List Tok, dirs (ts.map unprefix) = dirs ts := by
  intro ts
  induction ts with
  | nil => rfl
  | cons t r ih =>
    simp only [dirs] at ih
    cases t <;> simp only [List.map_cons, unprefix, dirs, List.filter_cons, Tok.isDir, if_true, ih] <;> simp

/-! ## the transducer does not see prefixes -/

theorem elemToks_unprefix (app : List Tok) : ∀ (ts : List Tok) (st : List Frame) (seen : Bool),
    elemToks app st seen (ts.map unprefix) = elemToks app st seen ts := by
  intro ts
  induction ts with
  | nil => intro _ _; rfl
  | cons t r ih =>
    intro st seen
    cases t with
    | start p l as =>
      have e : (as.map stripAttr).map stripAttr = as.map stripAttr := by
        rw [List.map_map]; apply List.map_congr_left; intro a _; rfl
      simp only [List.map_cons, unprefix_start, elemToks, e, ih]
    | stop p l => cases st <;> simp only [List.map_cons, unprefix, elemToks, ih]
    | text s => cases st <;> simp only [List.map_cons, unprefix, elemToks, ih]
    | comment c => simp only [List.map_cons, unprefix, elemToks, ih]
    | pi a b => simp only [List.map_cons, unprefix, elemToks, ih]
    | dir c => simp only [List.map_cons, unprefix, elemToks, ih]

/-! ## the element part printed for the normal form is within the element part printed for the stream itself -/

/-- same element, and the text so far is the same or nothing -/
def FrameLe (f' f : Frame) : Prop := f'.name = f.name ∧ f'.live = f.live ∧ (f'.text = f.text ∨ f'.text = [])

def StackLe : List Frame → List Frame → Prop
  | [], [] => True
  | f' :: r', f :: r => FrameLe f' f ∧ StackLe r' r
  | _, _ => False

theorem liveNext_le {st' st : List Frame} (h : StackLe st' st) (seen : Bool) : liveNext st' seen = liveNext st seen := by
  cases st' with
  | nil => cases st with
    | nil => rfl
    | cons _ _ => cases h
  | cons f' r' => cases st with
    | nil => cases h
    | cons f r => exact h.1.2.1

theorem pend_le {a b : Str} (h : a = b ∨ a = []) : (pend a).Sublist (pend b) := by
  rcases h with rfl | rfl
  · exact List.Sublist.refl _
  · exact List.nil_sublist _

/-- `st'` reads the normal form, `st` the stream itself.  Only the innermost open element of `st'` may have a text, and
then the next structural token closes it. -/
theorem elemToks_dropCovered_sublist (app : List Tok) (d : Bool) : ∀ (ts : List Tok) (st' st : List Frame) (seen : Bool),
    StackLe st' st → (∀ g ∈ st'.tail, g.text = []) → (topText st' ≠ [] → closesNext ts = true) →
    (elemToks [] st' seen (dropCovered d ts)).Sublist (elemToks app st seen ts) := by
  intro ts
  induction ts with
  | nil => intro _ _ _ _ _ _; exact List.Sublist.refl _
  | cons t r ih =>
    intro st' st seen hle hbelow htop
    cases t with
    | comment c =>
      simp only [dropCovered_comment, elemToks]
      exact ih st' st seen hle hbelow (by simpa [closesNext_comment] using htop)
    | pi a b =>
      have := ih st' st seen hle hbelow (by simpa [closesNext_pi] using htop)
      simp only [dropCovered_pi]
      split <;> simpa [elemToks] using this
    | dir c =>
      have := ih st' st seen hle hbelow (by simpa [closesNext_dir] using htop)
      simpa [elemToks] using this
    | start p l as =>
      have ht : topText st' = [] := by
        cases h : topText st' with
        | nil => rfl
        | cons x y => have := htop (by simp [h]); rw [closesNext_start] at this; cases this
      simp only [dropCovered_start, elemToks, liveNext_le hle seen]
      apply List.Sublist.append (List.Sublist.refl _)
      apply ih
      · exact ⟨⟨rfl, rfl, Or.inl rfl⟩, hle⟩
      · intro g hg
        simp only [List.tail_cons] at hg
        cases st' with
        | nil => cases hg
        | cons f' r' =>
          rcases List.mem_cons.mp hg with rfl | hg'
          · exact ht
          · exact hbelow g hg'
      · intro h; simp [topText] at h
    | stop p l =>
      cases st' with
      | nil =>
        cases st with
        | cons _ _ => cases hle
        | nil =>
          simp only [dropCovered_stop, elemToks]
          exact ih [] [] seen trivial (by simp) (by simp [topText])
      | cons f' r' =>
        cases st with
        | nil => cases hle
        | cons f r0 =>
          obtain ⟨⟨hn, hl, ht⟩, hle'⟩ := hle
          simp only [dropCovered_stop, elemToks, hl, hn]
          apply List.Sublist.append
          · split
            · simp only [appAt_nil, List.nil_append]
              exact List.Sublist.append ((pend_le ht).trans (List.sublist_append_right _ _)) (List.Sublist.refl _)
            · exact List.Sublist.refl _
          · apply ih r' r0 seen hle'
            · intro g hg
              exact hbelow g (by simp only [List.tail_cons]; exact List.mem_of_mem_tail hg)
            · intro h
              exfalso
              apply h
              cases r' with
              | nil => rfl
              | cons g q => exact hbelow g (by simp)
    | text s =>
      have ht : topText st' = [] := by
        cases h : topText st' with
        | nil => rfl
        | cons x y => have := htop (by simp [h]); rw [closesNext_text] at this; cases this
      cases st' with
      | nil =>
        cases st with
        | cons _ _ => cases hle
        | nil =>
          have := ih [] [] seen trivial (by simp) (by simp [topText])
          simp only [dropCovered_text]
          split <;> simpa [elemToks] using this
      | cons f' r' =>
        cases st with
        | nil => cases hle
        | cons f r0 =>
          obtain ⟨⟨hn, hl, _⟩, hle'⟩ := hle
          simp only [topText] at ht
          simp only [dropCovered_text]
          by_cases hm : (!s.isEmpty && !closesNext r) = true
          · rw [if_pos hm]
            simp only [elemToks]
            apply ih (f' :: r') ({ f with text := s } :: r0) seen ⟨⟨hn, hl, Or.inr ht⟩, hle'⟩ hbelow
            intro h; exact absurd ht h
          · rw [if_neg hm]
            simp only [elemToks]
            apply ih ({ f' with text := s } :: r') ({ f with text := s } :: r0) seen ⟨⟨hn, hl, Or.inl rfl⟩, hle'⟩ hbelow
            intro h
            simp only [topText] at h
            cases hc : closesNext r with
            | true => rfl
            | false =>
              have : s.isEmpty = false := by cases s <;> simp_all
              simp [this, hc] at hm

/-! ## a printed document is its own normal form, up to the processing instruction -/

/-- every non-blank character data is directly followed (comments, instructions, directives skipped) by an end tag -/
def textsClosed : List Tok → Bool
  | [] => true
  | .text s :: r => (s.isEmpty || closesNext r) && textsClosed r
  | _ :: r => textsClosed r

theorem closesNext_append {a : List Tok} (b : List Tok) (h : closesNext a = true) : closesNext (a ++ b) = true := by
  induction a with
  | nil => cases h
  | cons t r ih =>
    cases t with
    | comment c => simpa [closesNext_comment] using ih (by simpa [closesNext_comment] using h)
    | pi x y => simpa [closesNext_pi] using ih (by simpa [closesNext_pi] using h)
    | dir c => simpa [closesNext_dir] using ih (by simpa [closesNext_dir] using h)
    | text s => rw [closesNext_text] at h; cases h
    | start p l as => rw [closesNext_start] at h; cases h
    | stop p l => rfl

theorem textsClosed_append {a b : List Tok} (ha : textsClosed a = true) (hb : textsClosed b = true) :
    textsClosed (a ++ b) = true := by
  induction a with
  | nil => exact hb
  | cons t r ih =>
    cases t with
    | text s =>
      simp only [textsClosed, Bool.and_eq_true, Bool.or_eq_true] at ha
      simp only [List.cons_append, textsClosed, Bool.and_eq_true, Bool.or_eq_true]
      refine ⟨?_, ih ha.2⟩
      rcases ha.1 with h | h
      · exact Or.inl h
      · exact Or.inr (closesNext_append b h)
    | comment c => exact ih ha
    | pi x y => exact ih ha
    | dir c => exact ih ha
    | start p l as => exact ih ha
    | stop p l => exact ih ha

theorem textsClosed_pend_stop (s l : Str) : textsClosed (pend s ++ [Tok.stop [] l]) = true := by
  unfold pend
  split <;> simp [textsClosed, closesNext_stop]

theorem textsClosed_elemToks (app : List Tok) (happ : textsClosed app = true) : ∀ (ts : List Tok) (st : List Frame) (seen : Bool),
    textsClosed (elemToks app st seen ts) = true := by
  intro ts
  induction ts with
  | nil => intro _ _; rfl
  | cons t r ih =>
    intro st seen
    cases t with
    | start p l as =>
      simp only [elemToks]
      apply textsClosed_append _ (ih _ _)
      split <;> rfl
    | stop p l =>
      cases st with
      | nil => simp only [elemToks]; exact ih _ _
      | cons f st' =>
        simp only [elemToks]
        apply textsClosed_append _ (ih _ _)
        split
        · rw [List.append_assoc]
          apply textsClosed_append _ (textsClosed_pend_stop _ _)
          unfold appAt; split
          · exact happ
          · rfl
        · rfl
    | text s => cases st <;> simp only [elemToks] <;> exact ih _ _
    | comment c => simp only [elemToks]; exact ih _ _
    | pi a b => simp only [elemToks]; exact ih _ _
    | dir c => simp only [elemToks]; exact ih _ _

theorem textsClosed_of_no_text {l : List Tok} (h : ∀ x ∈ l, structural x = false) : textsClosed l = true := by
  induction l with
  | nil => rfl
  | cons t r ih =>
    have ht := h t List.mem_cons_self
    have hr := ih (fun x hx => h x (List.mem_cons_of_mem _ hx))
    cases t <;> simp_all [textsClosed, structural]

/-- a stream without comments in which every text is closed: only processing instructions are deleted -/
theorem dropCovered_closed (d : Bool) : ∀ l : List Tok, textsClosed l = true → hasComment l = false →
    dropCovered d l = if d then l.filter (fun t => !t.isPI) else l := by
  intro l
  induction l with
  | nil => intro _ _; cases d <;> rfl
  | cons t r ih =>
    intro hc hm
    have hm' : hasComment r = false := by
      simp only [hasComment, List.any_cons, Bool.or_eq_false_iff] at hm; exact hm.2
    cases t with
    | comment c => simp [hasComment, Tok.isComment] at hm
    | text s =>
      simp only [textsClosed, Bool.and_eq_true, Bool.or_eq_true] at hc
      have hk : (!s.isEmpty && !closesNext r) = false := by
        rcases hc.1 with h | h <;> simp [h]
      rw [dropCovered_text, hk, ih hc.2 hm']
      cases d <;> simp [Tok.isPI]
    | pi a b =>
      rw [dropCovered_pi, ih hc hm']
      cases d <;> simp [Tok.isPI]
    | start p l as => rw [dropCovered_start, ih hc hm']; cases d <;> simp [Tok.isPI]
    | stop p l => rw [dropCovered_stop, ih hc hm']; cases d <;> simp [Tok.isPI]
    | dir c => rw [dropCovered_dir, ih hc hm']; cases d <;> simp [Tok.isPI]

/-! ## the theorem -/

theorem plain_not_prefixed {x : Tok} (h : plain x = true) : prefixed x = false := by
  simp only [plain, Bool.and_eq_true, Bool.not_eq_true'] at h; exact h.2

theorem plain_not_pi {x : Tok} (h : plain x = true) : x.isPI = false := by
  cases x <;> simp_all [plain, elemKind, Tok.isPI]

theorem plain_not_comment {x : Tok} (h : plain x = true) : x.isComment = false := by
  cases x <;> simp_all [plain, elemKind, Tok.isComment]

theorem sublist_drop_any {l' l : List Tok} (h : l'.Sublist l) (p : Tok → Bool) (n : Nat) (hp : (l.drop n).any p = false) :
    (l'.drop n).any p = false := by
  rw [List.any_eq_false] at hp ⊢
  intro x hx
  exact hp x ((h.drop n).subset hx)

/-- **Content kept modulo the named features.**  For every token stream that is a document, whatever plain elements
(with their texts closed) are appended to the root: after deleting from the base and from the modelled printed document
what the features cover — comments, prefixes, the processing instructions when one of them is not the first token,
character data that is not the last thing in its element — the rest of the base is, in order, within the rest of the
printed document. -/
theorem keptMod_of_doc (app ts : List Tok) (happ : ∀ a ∈ app, plain a = true) (hcl : textsClosed app = true)
    (hd : docShape [] false ts = true) : keepsContentMod ts (printedToks app ts) = true := by
  unfold keepsContentMod
  rw [List.isSublist_iff_sublist]
  generalize hdd : piMoved ts = d
  -- the normal form of the base: a document without lossy features, printed unchanged
  have hdoc : docShape [] false (normal d ts) = true := by simpa using docShape_normal d ts [] false hd
  have hpi : piMoved (normal d ts) = false := by
    unfold piMoved normal
    rw [content_unprefix, ← List.map_drop, any_isPI_unprefix]
    cases d with
    | true =>
      apply any_drop_false
      rw [any_pi_content]
      exact any_isPI_dropCovered_true ts
    | false =>
      have hs : (content (dropCovered false ts)).Sublist (content ts) := (dropCovered_sublist false ts).filter _
      exact sublist_drop_any hs _ 1 (by simpa [piMoved] using hdd)
  have hlf : lossFree (normal d ts) = true := by
    simp only [lossFree, Bool.and_eq_true, Bool.not_eq_true']
    refine ⟨⟨⟨?_, ?_⟩, ?_⟩, hpi⟩
    · unfold normal; rw [hasComment_unprefix]; exact hasComment_dropCovered d ts
    · unfold normal; rw [mixedText_unprefix]; exact mixedText_dropCovered d ts
    · exact hasPrefix_unprefix _
  have hX := printed_nil_of_lossFree (normal d ts) hdoc hlf
  rw [← hX]
  -- the printed document: only its processing instruction can be deleted
  have hPc : hasComment (printedToks app ts) = false := by
    simp only [hasComment]
    rw [List.any_eq_false]
    intro x hx
    rcases printed_mem app ts x hx with h | h | h | h
    · simp [plain_not_comment (happ x h)]
    · simp [plain_not_comment h]
    · cases x <;> simp_all [Tok.isPI, Tok.isComment]
    · cases x <;> simp_all [Tok.isDir, Tok.isComment]
  have hPt : textsClosed (printedToks app ts) = true := by
    simp only [printedToks]
    apply textsClosed_append _ (textsClosed_elemToks app hcl ts [] false)
    apply textsClosed_of_no_text
    intro x hx
    simp only [List.mem_append, Option.mem_toList] at hx
    rcases hx with hx | hx
    · have := (lastPI_some hx).1
      cases x <;> simp_all [Tok.isPI, structural]
    · simp only [dirs, List.mem_filter] at hx
      have := hx.2
      cases x <;> simp_all [Tok.isDir, structural]
  have hPp : ∀ x ∈ printedToks app ts, prefixed x = false := by
    intro x hx
    rcases printed_mem app ts x hx with h | h | h | h
    · exact plain_not_prefixed (happ x h)
    · exact plain_not_prefixed h
    · cases x <;> simp_all [Tok.isPI, prefixed]
    · cases x <;> simp_all [Tok.isDir, prefixed]
  have hN : normal d (printedToks app ts) = if d then (printedToks app ts).filter (fun t => !t.isPI) else printedToks app ts := by
    unfold normal
    rw [map_unprefix_eq_self (fun x hx => hPp x ((dropCovered_sublist d _).subset hx)), dropCovered_closed d _ hPt hPc]
  rw [hN, ← content_printed_nil (normal d ts)]
  unfold content
  apply List.Sublist.filter
  -- piece by piece
  have hE : (elemToks [] [] false (normal d ts)).Sublist (elemToks app [] false ts) := by
    unfold normal
    rw [elemToks_unprefix]
    exact elemToks_dropCovered_sublist app d ts [] [] false trivial (by simp) (by simp [topText])
  have hD : dirs (normal d ts) = dirs ts := by unfold normal; rw [dirs_unprefix, dirs_dropCovered]
  simp only [printedToks, hD]
  cases d with
  | false =>
    have hL : lastPI (normal false ts) = lastPI ts := by unfold normal; rw [lastPI_unprefix, lastPI_dropCovered_false]
    rw [hL]
    simp only [Bool.false_eq_true, if_false]
    exact List.Sublist.append (List.Sublist.refl _) hE
  | true =>
    have hL : lastPI (normal true ts) = none := by
      rw [lastPI_none_iff]; unfold normal; rw [any_isPI_unprefix]; exact any_isPI_dropCovered_true ts
    rw [hL]
    simp only [if_true, Option.toList_none, List.nil_append, List.filter_append]
    have h1 : (dirs ts).filter (fun t => !t.isPI) = dirs ts := by
      rw [List.filter_eq_self]
      intro x hx
      simp only [dirs, List.mem_filter] at hx
      have := hx.2
      cases x <;> simp_all [Tok.isDir, Tok.isPI]
    have h2 : (elemToks app [] false ts).filter (fun t => !t.isPI) = elemToks app [] false ts := by
      rw [List.filter_eq_self]
      intro x hx
      rcases elemToks_mem app ts [] false x hx with h | h
      · simp [plain_not_pi (happ x h)]
      · simp [plain_not_pi h]
    rw [h1, h2, List.append_assoc]
    exact (List.Sublist.append (List.Sublist.refl _) hE).trans (List.sublist_append_right _ _)

/-- the tokens of the appended elements: every text is followed by its end tag -/
theorem appToks_textsClosed (nodes : List SvgNode) : textsClosed (appToks nodes) = true := by
  induction nodes with
  | nil => rfl
  | cons n r ih =>
    simp only [appToks, List.flatMap_cons] at ih ⊢
    apply textsClosed_append _ ih
    simp only [nodeToks, List.append_assoc]
    exact textsClosed_append rfl (textsClosed_pend_stop _ _)

end RawPanelVerif.Xmldom
