import RawPanelVerif.Model.TileObs
import RawPanelVerif.Lemmas.TileBar
/-!
# The argument after the call (C18, clause `argument`): `fillNil`

`WriteDisplayTileNew` replaces absent `TextStyling`, `TextStyling.TextFont`, `TextStyling.TitleFont` and `Scale` of
its argument by empty messages.  `fillNil` is idempotent, changes nothing else (`fillNil_arg_ok`: the Spec's clause
`argument`), and the filled state renders exactly like the original one (`tileAcc_fillNil`, `tileColours_fillNil`).
-/
namespace RawPanelVerif.Tile
open RawPanelVerif RawPanelVerif.Mono

theorem fill_idem (st : Styling) : st.fill.fill = st.fill := by
  unfold Styling.fill; simp

theorem fillNil_idem (inp : TileIn) : fillNil (fillNil inp) = fillNil inp := by
  unfold fillNil
  simp only [Option.getD_some, fill_idem]

/-- every scalar field, string and colour is unchanged -/
theorem fillNil_rest (inp : TileIn) :
    (fillNil inp).intVal = inp.intVal ∧ (fillNil inp).intVal2 = inp.intVal2 ∧ (fillNil inp).fmt = inp.fmt ∧
    (fillNil inp).stateIcon = inp.stateIcon ∧ (fillNil inp).modIcon = inp.modIcon ∧ (fillNil inp).title = inp.title ∧
    (fillNil inp).solid = inp.solid ∧ (fillNil inp).line1 = inp.line1 ∧ (fillNil inp).line2 = inp.line2 ∧
    (fillNil inp).pair = inp.pair ∧ (fillNil inp).pix = inp.pix ∧ (fillNil inp).bg = inp.bg :=
  ⟨rfl, rfl, rfl, rfl, rfl, rfl, rfl, rfl, rfl, rfl, rfl, rfl⟩

/-- a present sub-message is kept as it is; an absent one becomes the empty message -/
theorem fillNil_subs (inp : TileIn) :
    (fillNil inp).scale = some (inp.scale.getD {}) ∧
    (∃ st', (fillNil inp).styling = some st' ∧
      st'.fixedWidth = (inp.styling.getD {}).fixedWidth ∧ st'.titlePad = (inp.styling.getD {}).titlePad ∧
      st'.extraSp = (inp.styling.getD {}).extraSp ∧ st'.unfSize = (inp.styling.getD {}).unfSize ∧
      st'.textFont = some ((inp.styling.getD {}).textFont.getD {}) ∧
      st'.titleFont = some ((inp.styling.getD {}).titleFont.getD {})) :=
  ⟨rfl, _, rfl, rfl, rfl, rfl, rfl, rfl, rfl⟩

theorem keptOrEmpty_font (f : Option Font) :
    Spec.Tile.keptOrEmpty Spec.Tile.emptyFont (f.map obsFont) (some (obsFont (f.getD {}))) = true := by
  cases f with
  | none => simp [Spec.Tile.keptOrEmpty, obsFont, Spec.Tile.emptyFont]
  | some a => simp [Spec.Tile.keptOrEmpty]

theorem styleKept_fill (st : Styling) : Spec.Tile.styleKept (obsStyle st) (obsStyle st.fill) = true := by
  unfold Spec.Tile.styleKept obsStyle Styling.fill
  simp only [Option.map_some, keptOrEmpty_font, beq_self_eq_true, Bool.and_self]

/-- **argument** (`Spec.Tile.argOk`): the state after the call is the state before it, up to absent → empty -/
theorem fillNil_arg_ok (inp : TileIn) (inverted : Bool) :
    Spec.Tile.argOk (obsArg inp inverted) (obsArg (fillNil inp) inverted) = true := by
  have hsc : Spec.Tile.keptOrEmpty Spec.Tile.emptyScale (inp.scale.map obsScale)
      (some (obsScale (inp.scale.getD {}))) = true := by
    cases inp.scale with
    | none => simp [Spec.Tile.keptOrEmpty, obsScale, Spec.Tile.emptyScale]
    | some a => simp [Spec.Tile.keptOrEmpty]
  have hst : Spec.Tile.stylingKept (inp.styling.map obsStyle) (some (obsStyle (inp.styling.getD {}).fill)) = true := by
    cases inp.styling with
    | none =>
      simp only [Option.map_none, Option.getD_none, Spec.Tile.stylingKept]
      exact styleKept_fill {}
    | some a =>
      simp only [Option.map_some, Option.getD_some, Spec.Tile.stylingKept]
      exact styleKept_fill a
  unfold Spec.Tile.argOk obsArg fillNil
  simp only [Option.map_some, hsc, hst, beq_self_eq_true, decide_true, Bool.and_self]

theorem contentIter_fillNil (acc : Acc) (g : Geom) (inp : TileIn) (sc : Scale) (a w h aw ah m1 m2 f1 f2 : Int) :
    contentIter acc g (fillNil inp) sc a w h aw ah m1 m2 f1 f2 = contentIter acc g inp sc a w h aw ah m1 m2 f1 f2 := rfl

theorem tileAccWith_fillNil (ci : Acc → Geom → Scale → Int → Int → Int → Int → Int → Int → Int → Int → Int → Acc)
    (inp : TileIn) (width height shrink border : Int) :
    tileAccWith ci (fillNil inp) width height shrink border = tileAccWith ci inp width height shrink border := by
  obtain ⟨iv, iv2, fmt, si, mi, title, solid, l1, l2, pair, scale, styling, pix, bg⟩ := inp
  cases scale <;> cases styling with
  | none => rfl
  | some st =>
    obtain ⟨tf, ttf, fx, pad, sp, unf⟩ := st
    cases tf <;> cases ttf <;> rfl

/-- the filled state lays out exactly like the original one -/
theorem tileAcc_fillNil (inp : TileIn) (width height shrink border : Int) :
    tileAcc (fillNil inp) width height shrink border = tileAcc inp width height shrink border := by
  rw [tileAcc_eq_with, tileAcc_eq_with]
  have e : (fun acc g sc a w h aw ah m1 m2 f1 f2 => contentIter acc g (fillNil inp) sc a w h aw ah m1 m2 f1 f2) =
      (fun acc g sc a w h aw ah m1 m2 f1 f2 => contentIter acc g inp sc a w h aw ah m1 m2 f1 f2) := rfl
  rw [e]
  exact tileAccWith_fillNil _ inp width height shrink border

theorem tileColours_fillNil (inp : TileIn) : tileColours (fillNil inp) = tileColours inp := rfl

theorem renderTile_fillNil (inp : TileIn) (inverted : Bool) (w h : Nat) (shrink border : Int) :
    renderTile (fillNil inp) inverted w h shrink border = renderTile inp inverted w h shrink border := by
  unfold renderTile tileOps layoutOps
  rw [tileAcc_fillNil]

/-- non-vacuity: a state without sub-messages is really changed, a complete one is not -/
example : fillNil {} ≠ ({} : TileIn) ∧
    fillNil { styling := some { textFont := some {}, titleFont := some {} }, scale := some {} } =
      { styling := some { textFont := some {}, titleFont := some {} }, scale := some {} } := by decide

end RawPanelVerif.Tile
