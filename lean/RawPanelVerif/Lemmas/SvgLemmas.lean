import RawPanelVerif.Model.SvgIcon
import RawPanelVerif.Spec.SvgSpec
import RawPanelVerif.Lemmas.TopoLookup
/-! Helper lemmas for C15: attributes of the generated elements, string splitting, group structure. -/
namespace RawPanelVerif.Topo.Svg
open RawPanelVerif RawPanelVerif.Topo

theorem bytes_eq (s : String) : Spec.Svg.bytes s = b s := rfl

theorem dec_nat (n : Nat) : Spec.Svg.dec (n : Int) = natLit n := by
  unfold Spec.Svg.dec natLit
  have : ¬ ((n : Int) < 0) := by omega
  simp [this]

theorem dec_eq_itoa (n : Int) : Spec.Svg.dec n = itoa n := by
  unfold Spec.Svg.dec itoa intLit natLit
  by_cases h : n < 0
  · have e : (-n).toNat = n.natAbs := by omega
    simp [h, e]
  · have e : n.toNat = n.natAbs := by omega
    simp [h, e]

/-! ## attributes -/

theorem find_setFirst_some (k v : Str) (l l' : List (Str × Str)) (q : Str) (h : setFirst k v l = some l') :
    (l'.find? (fun a => a.1 == q)) = if k = q then some (k, v) else l.find? (fun a => a.1 == q) := by
  induction l generalizing l' with
  | nil => simp [setFirst] at h
  | cons a r ih =>
    simp only [setFirst] at h
    by_cases ha : a.1 = k
    · simp only [ha, if_true, Option.some.injEq] at h
      subst h
      by_cases hq : k = q
      · simp [hq]
      · have : (k == q) = false := by simp [hq]
        have h2 : (a.1 == q) = false := by rw [ha]; exact this
        simp [List.find?_cons, this, h2, hq]
    · simp only [ha, if_false] at h
      cases hr : setFirst k v r with
      | none => simp [hr] at h
      | some r' =>
        simp only [hr, Option.map_some, Option.some.injEq] at h
        subst h
        have := ih r' hr
        simp only [List.find?_cons]
        by_cases hq : (a.1 == q) = true
        · have hkq : k ≠ q := by
            intro e; subst e; simp at hq; exact ha hq
          simp [hq, hkq]
        · simp only [hq, this]

theorem find_setFirst_none (k v : Str) (l : List (Str × Str)) (h : setFirst k v l = none) :
    l.find? (fun a => a.1 == k) = none := by
  induction l with
  | nil => rfl
  | cons a r ih =>
    simp only [setFirst] at h
    by_cases ha : a.1 = k
    · simp [ha] at h
    · simp only [ha, if_false, Option.map_eq_none_iff] at h
      have : (a.1 == k) = false := by simp [ha]
      simp [List.find?_cons, this, ih h]

theorem attr_setAttr (n : Node) (kv : Str × Str) (k : String) :
    Spec.Svg.attr (setAttr n kv) k = if kv.1 = b k then some kv.2 else Spec.Svg.attr n k := by
  unfold setAttr Spec.Svg.attr
  rw [bytes_eq]
  cases h : setFirst kv.1 kv.2 n.attrs with
  | some l =>
    simp only [find_setFirst_some _ _ _ _ _ h]
    split <;> simp
  | none =>
    have hn := find_setFirst_none _ _ _ h
    simp only [List.find?_append]
    by_cases hk : kv.1 = b k
    · rw [← hk, hn]; simp
    · have : (kv.1 == b k) = false := by simp [hk]
      simp [hk, this]

theorem name_setAttr (n : Node) (kv : Str × Str) : (setAttr n kv).name = n.name := by
  unfold setAttr; split <;> rfl

theorem text_setAttr (n : Node) (kv : Str × Str) : (setAttr n kv).text = n.text := by
  unfold setAttr; split <;> rfl

theorem setAttrs_cons (n : Node) (kv : Str × Str) (l : List (Str × Str)) :
    setAttrs n (kv :: l) = setAttrs (setAttr n kv) l := rfl

theorem setAttrs_nil (n : Node) : setAttrs n [] = n := rfl

theorem attr_withRotate (rot : Str → RotInfo) (td : TypeDef) (c : HWc) (n : Node) (k : String) (h : b "transform" ≠ b k) :
    Spec.Svg.attr (withRotate rot td c n) k = Spec.Svg.attr n k := by
  unfold withRotate
  split
  · rw [attr_setAttr]; simp [h]
  · rfl

theorem attr_withRotate_transform (rot : Str → RotInfo) (td : TypeDef) (c : HWc) (n : Node) :
    Spec.Svg.attr (withRotate rot td c n) "transform"
      = if rotIsZero td.rotate = false then some (rotateStr (rot td.rotate).fmt c) else Spec.Svg.attr n "transform" := by
  unfold withRotate
  split
  · rw [attr_setAttr]; simp [bytes_eq]
  · rfl

theorem wantTransform_eq (rot : Str → RotInfo) (c : HWc) (td : TypeDef) :
    Spec.Svg.wantTransform (fmtOf rot) c td
      = if rotIsZero td.rotate = false then some (rotateStr (rot td.rotate).fmt c) else none := by
  unfold Spec.Svg.wantTransform rotateStr fmtOf
  cases rotIsZero td.rotate with
  | true => rfl
  | false =>
    simp only [Bool.false_eq_true, if_false, if_true, dec_eq_itoa, bytes_eq]
    rfl

theorem name_withRotate (rot : Str → RotInfo) (td : TypeDef) (c : HWc) (n : Node) :
    (withRotate rot td c n).name = n.name := by
  unfold withRotate; split <;> simp [name_setAttr]

theorem text_withRotate (rot : Str → RotInfo) (td : TypeDef) (c : HWc) (n : Node) :
    (withRotate rot td c n).text = n.text := by
  unfold withRotate; split <;> simp [text_setAttr]

theorem attr_empty (nm : Str) (k : String) : Spec.Svg.attr ({ name := nm } : Node) k = none := rfl

theorem attr_mk (nm tx : Str) (X : Node) (k : String) :
    Spec.Svg.attr ({ name := nm, attrs := X.attrs, text := tx } : Node) k = Spec.Svg.attr X k := rfl

theorem itoa_nat (n : Nat) : itoa (n : Int) = natLit n := by rw [← dec_eq_itoa, dec_nat]

/-! ## the elements, one by one -/

/-- `transform` of a freshly built node (no `transform` among the attributes set so far) after `withRotate` -/
theorem transform_fresh (rot : Str → RotInfo) (td : TypeDef) (c : HWc) (n : Node)
    (h : Spec.Svg.attr n "transform" = none) :
    Spec.Svg.attr (withRotate rot td c n) "transform" = Spec.Svg.wantTransform (fmtOf rot) c td := by
  rw [attr_withRotate_transform, wantTransform_eq, h]

theorem mainOk_mainShape (rot : Str → RotInfo) (c : HWc) (td : TypeDef) :
    Spec.Svg.mainOk (fmtOf rot) c td (mainShape rot c td) = true := by
  unfold Spec.Svg.mainOk mainShape
  by_cases h : td.h > 0
  · simp (config := { decide := true }) only [h, if_true, addFormatting, setAttrs_cons, setAttrs_nil, attr_setAttr,
      name_setAttr, attr_withRotate, name_withRotate, attr_empty, dec_eq_itoa, itoa_nat, bytes_eq]
    rw [transform_fresh]
    · simp
    · simp (config := { decide := true }) only [attr_setAttr, attr_empty, if_false]
  · simp (config := { decide := true }) only [h, if_false, addFormatting, setAttrs_cons, setAttrs_nil, attr_setAttr,
      name_setAttr, attr_withRotate, name_withRotate, attr_empty, dec_eq_itoa, itoa_nat, bytes_eq]
    rw [transform_fresh]
    · simp
    · simp (config := { decide := true }) only [attr_setAttr, attr_empty, if_false]

theorem subExtra_ok (rot : Str → RotInfo) (c : HWc) (td : TypeDef) (s : SubEl) (n0 : Node)
    (ht : Spec.Svg.attr n0 "transform" = none) (hrx : Spec.Svg.attr n0 "rx" = none)
    (hry : Spec.Svg.attr n0 "ry" = none) (hst : Spec.Svg.attr n0 "style" = none) :
    Spec.Svg.subExtraOk (fmtOf rot) c td s (addSubElFormatting (withRotate rot td c n0) s) = true := by
  unfold Spec.Svg.subExtraOk addSubElFormatting Spec.Svg.wantInt Spec.Svg.wantStr
  have hT := transform_fresh rot td c n0 ht
  by_cases h1 : s.rx = 0 <;> by_cases h2 : s.ry = 0 <;> by_cases h3 : s.style = [] <;>
  simp (config := { decide := true }) [h1, h2, h3, setAttrs_cons, setAttrs_nil, attr_setAttr, attr_withRotate, hT,
    hrx, hry, hst, dec_eq_itoa, bytes_eq]

theorem subRect_ok (rot : Str → RotInfo) (c : HWc) (td : TypeDef) (s : SubEl) :
    Spec.Svg.slotOk (fmtOf rot) c td (.subRect s) (addSubElFormatting (withRotate rot td c (setAttrs { name := b "rect" }
      [(b "x", itoa (c.x + s.x)), (b "y", itoa (c.y + s.y)), (b "width", itoa s.w), (b "height", itoa s.h),
       (b "pointer-events", b "none")])) s) = true := by
  unfold Spec.Svg.slotOk
  rw [Bool.and_eq_true]
  refine ⟨?_, subExtra_ok rot c td s _ ?_ ?_ ?_ ?_⟩
  · unfold addSubElFormatting
    simp (config := { decide := true }) only [setAttrs_cons, setAttrs_nil, attr_setAttr,
        name_setAttr, dec_eq_itoa, bytes_eq]
    split <;> split <;> split <;>
    simp (config := { decide := true }) [attr_setAttr, name_setAttr, attr_withRotate, name_withRotate, attr_empty, attr_mk]
  all_goals simp (config := { decide := true }) only [setAttrs_cons, setAttrs_nil, attr_setAttr, attr_empty, if_false]

theorem subCircle_ok (rot : Str → RotInfo) (c : HWc) (td : TypeDef) (s : SubEl) :
    Spec.Svg.slotOk (fmtOf rot) c td (.subCircle s) (addSubElFormatting (withRotate rot td c (setAttrs { name := b "circle" }
      [(b "cx", itoa (c.x + s.x)), (b "cy", itoa (c.y + s.y)), (b "r", itoa s.r), (b "pointer-events", b "none")])) s)
      = true := by
  unfold Spec.Svg.slotOk
  rw [Bool.and_eq_true]
  refine ⟨?_, subExtra_ok rot c td s _ ?_ ?_ ?_ ?_⟩
  · unfold addSubElFormatting
    simp (config := { decide := true }) only [setAttrs_cons, setAttrs_nil, attr_setAttr,
        name_setAttr, dec_eq_itoa, bytes_eq]
    split <;> split <;> split <;>
    simp (config := { decide := true }) [attr_setAttr, name_setAttr, attr_withRotate, name_withRotate, attr_empty, attr_mk]
  all_goals simp (config := { decide := true }) only [setAttrs_cons, setAttrs_nil, attr_setAttr, attr_empty, if_false]

theorem label_ok (rot : Str → RotInfo) (o : Opts) (c : HWc) (td : TypeDef) (ro : List Str) (cnt a : Nat) (txt : Str) :
    Spec.Svg.slotOk (fmtOf rot) c td (.label txt) (labelNode rot o c td ro cnt a txt) = true := by
  unfold Spec.Svg.slotOk labelNode
  simp only [dec_eq_itoa, bytes_eq]
  split
  · split <;>
    simp (config := { decide := true }) [setAttrs_cons, setAttrs_nil, attr_setAttr, name_setAttr, text_setAttr, attr_empty, attr_mk]
  · simp (config := { decide := true }) [setAttrs_cons, setAttrs_nil, attr_setAttr, name_setAttr, text_setAttr,
      attr_withRotate, name_withRotate, attr_empty, attr_mk]

/-! ## string splitting -/

theorem splitOn_ne_nil (sep : UInt8) (s : Str) : splitOn sep s ≠ [] := by
  induction s with
  | nil => simp [splitOn]
  | cons c r ih =>
    simp only [splitOn]
    split
    · simp
    · split <;> simp

theorem splitOn_eq (sep : UInt8) (s : Str) :
    splitOn sep s = s.takeWhile (· != sep) ::
      (match s.dropWhile (· != sep) with | [] => [] | _ :: rest => splitOn sep rest) := by
  induction s with
  | nil => simp [splitOn]
  | cons c r ih =>
    simp only [splitOn, List.takeWhile_cons, List.dropWhile_cons]
    cases hs : splitOn sep r with
    | nil => exact absurd hs (splitOn_ne_nil sep r)
    | cons p ps =>
      rw [hs] at ih
      by_cases hc : c = sep
      · subst hc
        simp [hs]
      · have : (c != sep) = true := by simp [hc]
        simp only [hc, if_false, this, if_true]
        simp only [List.cons.injEq] at ih
        rw [ih.1, ih.2]

theorem parts_eq (sep : UInt8) (fuel : Nat) (s : Str) (h : s.length ≤ fuel) :
    Spec.Svg.parts sep fuel s = splitOn sep s := by
  induction fuel generalizing s with
  | zero =>
    have : s = [] := List.eq_nil_of_length_eq_zero (by omega)
    subst this; rfl
  | succ n ih =>
    rw [splitOn_eq]
    simp only [Spec.Svg.parts]
    cases hd : s.dropWhile (· != sep) with
    | nil => rfl
    | cons x rest =>
      simp only
      have hl : (s.dropWhile (· != sep)).length ≤ s.length := (List.dropWhile_sublist _).length_le
      rw [hd] at hl
      simp only [List.length_cons] at hl
      rw [ih rest (by omega)]

theorem split_eq (sep : UInt8) (s : Str) : Spec.Svg.split sep s = splitOn sep s :=
  parts_eq sep s.length s (Nat.le_refl _)

theorem hasHint_eq (render : Str) (hint : String) :
    Spec.Svg.hasHint render hint = isIn (b hint) (splitOn 44 render) := by
  unfold Spec.Svg.hasHint isIn
  rw [split_eq, bytes_eq]
  induction splitOn 44 render with
  | nil => rfl
  | cons x r ih =>
    simp only [List.contains_cons, List.any_cons, ih]
    congr 1
    by_cases h : x = b hint
    · simp [h]
    · have h' : ¬ (b hint = x) := fun e => h e.symm
      simp [h, h']

theorem labelLines_eq (txt : Str) :
    (List.range (labelCount (splitOn 124 txt))).map (fun a => (splitOn 124 txt).getD a [])
      = Spec.Svg.labelLines txt := by
  unfold Spec.Svg.labelLines
  rw [split_eq]
  cases h : splitOn 124 txt with
  | nil => exact absurd h (splitOn_ne_nil _ _)
  | cons l1 r =>
    cases r with
    | nil => simp [labelCount, List.range_succ]
    | cons l2 r2 =>
      by_cases h2 : l2 = []
      · subst h2; simp [labelCount, List.range_succ]
      · have : l2.length > 0 := by cases l2 with
          | nil => exact absurd rfl h2
          | cons _ _ => simp
        simp [labelCount, this, h2, List.range_succ]

theorem visible_eq (mask : Option (List (Nat × Nat))) (c : HWc) : Spec.Svg.visible mask c = !masked mask c.id := by
  unfold Spec.Svg.visible masked
  cases mask with
  | none => rfl
  | some m =>
    simp only
    cases m.find? (fun e => e.1 == c.id) with
    | none => simp
    | some e => simp [bne]

/-! ## groups -/

theorem allOk_append {fmt : Str → Str} {td : TypeDef} (c : HWc) (s1 s2 : List Spec.Svg.Slot) (n1 n2 : List Node)
    (h1 : Spec.Svg.allOk fmt c td s1 n1 = true) (h2 : Spec.Svg.allOk fmt c td s2 n2 = true) :
    Spec.Svg.allOk fmt c td (s1 ++ s2) (n1 ++ n2) = true := by
  induction s1 generalizing n1 with
  | nil =>
    cases n1 with
    | nil => simpa using h2
    | cons _ _ => simp [Spec.Svg.allOk] at h1
  | cons s ss ih =>
    cases n1 with
    | nil => simp [Spec.Svg.allOk] at h1
    | cons n ns =>
      simp only [Spec.Svg.allOk, Bool.and_eq_true] at h1
      simp only [List.cons_append, Spec.Svg.allOk, Bool.and_eq_true]
      exact ⟨h1.1, ih ns h1.2⟩

theorem allOk_length {fmt : Str → Str} {td : TypeDef} (c : HWc) (s : List Spec.Svg.Slot) (n : List Node) (h : Spec.Svg.allOk fmt c td s n = true) :
    n.length = s.length := by
  induction s generalizing n with
  | nil =>
    cases n with
    | nil => rfl
    | cons _ _ => simp [Spec.Svg.allOk] at h
  | cons x xs ih =>
    cases n with
    | nil => simp [Spec.Svg.allOk] at h
    | cons y ys =>
      simp only [Spec.Svg.allOk, Bool.and_eq_true] at h
      simp [ih ys h.2]

theorem allOk_nil {fmt : Str → Str} {td : TypeDef} (c : HWc) : Spec.Svg.allOk fmt c td [] [] = true := rfl

theorem allOk_one {fmt : Str → Str} {td : TypeDef} (c : HWc) (s : Spec.Svg.Slot) (n : Node) (h : Spec.Svg.slotOk fmt c td s n = true) :
    Spec.Svg.allOk fmt c td [s] [n] = true := by simp [Spec.Svg.allOk, h]

theorem subs_ok (rot : Str → RotInfo) (c : HWc) (td : TypeDef) (l : List SubEl) :
    Spec.Svg.allOk (fmtOf rot) c td (l.flatMap Spec.Svg.subSlots) (l.flatMap (subShapes rot c td)) = true := by
  induction l with
  | nil => rfl
  | cons s r ih =>
    simp only [List.flatMap_cons]
    apply allOk_append _ _ _ _ _ _ ih
    unfold Spec.Svg.subSlots subShapes
    rw [bytes_eq, bytes_eq]
    by_cases hr : s.objType = b "r"
    · have hc : ¬ s.objType = b "c" := by rw [hr]; decide
      simp only [hr, hc, if_true, if_false, List.append_nil]
      exact allOk_one _ _ _ (subRect_ok rot c td s)
    · by_cases hc : s.objType = b "c"
      · simp only [hr, hc, if_true, if_false, List.nil_append]
        exact allOk_one _ _ _ (subCircle_ok rot c td s)
      · simp only [hr, hc, if_false, List.append_nil]
        rfl

theorem labels_ok (rot : Str → RotInfo) (o : Opts) (c : HWc) (td : TypeDef) :
    Spec.Svg.allOk (fmtOf rot) c td
      (if (o.showLabels || Spec.Svg.hasHint td.render "txt") = true then (Spec.Svg.labelLines c.txt).map .label else [])
      (labelNodes rot o c td (splitOn 44 td.render)) = true := by
  unfold labelNodes
  rw [hasHint_eq]
  split
  · simp only
    rw [← labelLines_eq]
    generalize labelCount (splitOn 124 c.txt) = cnt
    have : ∀ (l : List Nat), Spec.Svg.allOk (fmtOf rot) c td
        ((l.map (fun a => (splitOn 124 c.txt).getD a [])).map .label)
        (l.map (fun a => labelNode rot o c td (splitOn 44 td.render) cnt a ((splitOn 124 c.txt).getD a []))) = true := by
      intro l
      induction l with
      | nil => rfl
      | cons a r ih =>
        simp only [List.map_cons, Spec.Svg.allOk, Bool.and_eq_true]
        exact ⟨label_ok _ _ _ _ _ _ _ _, ih⟩
    exact this _
  · rfl

theorem type_ok (rot : Str → RotInfo) (o : Opts) (c : HWc) (td : TypeDef) :
    Spec.Svg.allOk (fmtOf rot) c td (if o.showType = true then [.devText] else []) (typeNode rot o c td) = true := by
  unfold typeNode
  split
  · apply allOk_one
    unfold Spec.Svg.slotOk
    simp (config := { decide := true }) [setAttrs_cons, setAttrs_nil, attr_setAttr, name_setAttr,
      attr_withRotate, name_withRotate, attr_empty, attr_mk, bytes_eq]
  · rfl

theorem dispSize_ok (rot : Str → RotInfo) (o : Opts) (c : HWc) (td : TypeDef) :
    Spec.Svg.allOk (fmtOf rot) c td (if (o.showDisplaySize && td.disp.isSome) = true then [.devText] else [])
      (dispSizeNode rot o c td) = true := by
  unfold dispSizeNode
  cases td.disp with
  | none => simp [Spec.Svg.allOk]
  | some d =>
    simp only [Option.isSome_some, Bool.and_true]
    split
    · apply allOk_one
      unfold Spec.Svg.slotOk
      simp (config := { decide := true }) [setAttrs_cons, setAttrs_nil, attr_setAttr, name_setAttr,
        attr_withRotate, name_withRotate, attr_empty, attr_mk, bytes_eq]
    · rfl

theorem id_ok (rot : Str → RotInfo) (o : Opts) (c : HWc) (td : TypeDef) :
    Spec.Svg.allOk (fmtOf rot) c td (if (o.showHWCID || Spec.Svg.hasHint td.render "hwcid") = true then [.idText] else [])
      (idNode rot o c td (splitOn 44 td.render)) = true := by
  unfold idNode
  rw [hasHint_eq]
  split
  · apply allOk_one
    unfold Spec.Svg.slotOk
    simp only [dec_nat, bytes_eq]
    split <;>
    simp (config := { decide := true }) [setAttrs_cons, setAttrs_nil, attr_setAttr, name_setAttr, text_setAttr,
      attr_withRotate, name_withRotate, text_withRotate, attr_empty, attr_mk]
  · rfl

/-- the elements after the main shape fill exactly the expected slots -/
theorem rest_ok (rot : Str → RotInfo) (o : Opts) (c : HWc) (td : TypeDef) :
    Spec.Svg.allOk (fmtOf rot) c td (Spec.Svg.slots o c td)
      (td.sub.flatMap (subShapes rot c td) ++ labelNodes rot o c td (splitOn 44 td.render) ++ typeNode rot o c td ++
        dispSizeNode rot o c td ++ idNode rot o c td (splitOn 44 td.render)) = true := by
  unfold Spec.Svg.slots
  exact allOk_append _ _ _ _ _ (allOk_append _ _ _ _ _ (allOk_append _ _ _ _ _ (allOk_append _ _ _ _ _
    (subs_ok rot c td td.sub) (labels_ok rot o c td)) (type_ok rot o c td)) (dispSize_ok rot o c td)) (id_ok rot o c td)

theorem groups_ok (rot : Str → RotInfo) (o : Opts) (t : Topology) (mask : Option (List (Nat × Nat))) (l : List HWc) :
    Spec.Svg.checkGroups (fmtOf rot) o t (l.filter (Spec.Svg.visible mask)) (l.flatMap (componentNodes rot o t mask)) = none := by
  induction l with
  | nil => rfl
  | cons c r ih =>
    simp only [List.filter_cons, List.flatMap_cons]
    by_cases hv : Spec.Svg.visible mask c = true
    · have hm : masked mask c.id = false := by
        rw [visible_eq] at hv; simpa using hv
      simp only [hv, if_true, componentNodes, hm, Bool.false_eq_true, if_false, resolveA_overlay, List.cons_append]
      simp only [Spec.Svg.checkGroups, mainOk_mainShape, Bool.not_true, Bool.false_eq_true, if_false]
      have hr := rest_ok rot o c (Spec.Topo.resolved t c)
      have hl := allOk_length _ _ _ hr
      rw [List.take_left' hl, List.drop_left' hl]
      simp only [hr, Bool.not_true, Bool.false_eq_true, if_false]
      exact ih
    · have hm : masked mask c.id = true := by
        rw [visible_eq] at hv; simpa using hv
      simp only [hv, componentNodes, hm, if_true, List.nil_append]
      exact ih

end RawPanelVerif.Topo.Svg
