import RawPanelVerif.Lemmas.LifecycleStep
/-! Invariant E: what the newest history entry says about the phase (used for "returns directly after a
disconnect callback only if it was reported as cancelled"). -/
namespace RawPanelVerif.Lifecycle

structure InvE (s : St) : Prop where
  discFalse : ∀ r, s.log = .disconnect false :: r → s.phase = .retrySleep
  retAfter : ∀ b r, s.log = .returned :: .disconnect b :: r → b = true
  retPhase : ∀ r, s.log = .returned :: r → s.phase = .returned

theorem invE_init (nc rc : Nat) : InvE (initWith nc rc) := ⟨by simp [initWith], by simp [initWith], by simp [initWith]⟩

theorem InvE.same_log {s s' : St} (hi : InvE s) (hl : s'.log = s.log)
    (hp : s.phase = .retrySleep → s'.phase = .retrySleep) (hr : s.phase = .returned → s'.phase = .returned) : InvE s' :=
  ⟨fun r h => hp (hi.discFalse r (hl ▸ h)), fun b r h => hi.retAfter b r (hl ▸ h), fun r h => hr (hi.retPhase r (hl ▸ h))⟩

theorem invE_step (ae : Bool) (s s' : St) (l : Lbl) (hi : InvE s) (hs : step ae s l = some s') : InvE s' := by
  cases l with
  | cancel => have := step_cancel hs; subst this; exact hi.same_log rfl id id
  | offer => have := step_offer hs; subst this; exact hi.same_log rfl id id
  | consumerStop => have := step_consumerStop hs; subst this; exact hi.same_log rfl id id
  | consumerResume => have := step_consumerResume hs; subst this; exact hi.same_log rfl id id
  | tick d => have := step_tick hs; subst this; exact hi.same_log rfl id id
  | dialFail => obtain ⟨hp, rfl⟩ := step_dialFail hs; exact hi.same_log rfl (by simp [hp]) (by simp [hp])
  | noConnTimer => obtain ⟨hp, _, rfl⟩ := step_noConnTimer hs; exact hi.same_log rfl (by simp [hp]) (by simp [hp])
  | noConnDrain => obtain ⟨hp, _, rfl⟩ := step_noConnDrain hs; exact hi.same_log rfl (by simp [hp]) (by simp [hp])
  | peerClose => obtain ⟨c, rest, _, _, rfl⟩ := step_peerClose hs; exact hi.same_log rfl id id
  | byteArrive fin => obtain ⟨c, rest, _, _, _, rfl⟩ := step_byteArrive hs; exact hi.same_log rfl id id
  | takeFrame => obtain ⟨c, rest, _, _, _, _, _, rfl⟩ := step_takeFrame hs; exact hi.same_log rfl id id
  | spawnWriter => obtain ⟨c, rest, _, hp, rfl⟩ := step_spawnWriter hs; exact hi.same_log rfl (by simp [hp]) (by simp [hp])
  | readErr => obtain ⟨c, rest, _, hp, _, _, rfl⟩ := step_readErr hs; exact hi.same_log rfl (by simp [hp]) (by simp [hp])
  | readFault =>
    obtain ⟨c, rest, _, hp, _, _, _, _, _, rfl⟩ := step_readFault hs; exact hi.same_log rfl (by simp [hp]) (by simp [hp])
  | closeQuit => obtain ⟨c, rest, _, hp, rfl⟩ := step_closeQuit hs; exact hi.same_log rfl (by simp [hp]) (by simp [hp])
  | connClose => obtain ⟨c, rest, _, hp, rfl⟩ := step_connClose hs; exact hi.same_log rfl (by simp [hp]) (by simp [hp])
  | writerStart i => obtain ⟨c, _, _, rfl⟩ := step_writerStart hs; exact hi.same_log rfl id id
  | writerSeesCancel i => obtain ⟨c, _, _, _, rfl⟩ := step_writerSeesCancel hs; exact hi.same_log rfl id id
  | writerSeesQuit i => obtain ⟨c, _, _, _, rfl⟩ := step_writerSeesQuit hs; exact hi.same_log rfl id id
  | writerTake i => obtain ⟨c, _, _, _, rfl⟩ := step_writerTake hs; exact hi.same_log rfl id id
  | writeDone i => obtain ⟨c, _, _, _, rfl⟩ := step_writeDone hs; exact hi.same_log rfl id id
  | writeErr i => obtain ⟨c, _, _, _, rfl⟩ := step_writeErr hs; exact hi.same_log rfl id id
  | dialOk bin => obtain ⟨hp, rfl⟩ := step_dialOk hs; exact ⟨by simp, by simp, by simp⟩
  | onConnect => obtain ⟨hp, rfl⟩ := step_onConnect hs; exact ⟨by simp, by simp, by simp⟩
  | deliver => obtain ⟨c, rest, _, hp, _, _, rfl⟩ := step_deliver hs; exact ⟨by simp, by simp, by simp⟩
  | sleepDone => obtain ⟨hp, _, rfl⟩ := step_sleepDone hs; exact ⟨by simp, by simp, by simp⟩
  | onDisconnect b =>
    obtain ⟨c, rest, _, hp, _, rfl⟩ := step_onDisconnect hs
    refine ⟨?_, by simp, by simp⟩
    intro r h; simp at h; simp [h.1]
  | ret =>
    obtain ⟨hp, rfl⟩ := step_ret hs
    refine ⟨by simp, ?_, by simp⟩
    intro b r h
    simp at h
    cases b with
    | true => rfl
    | false =>
      have := hi.discFalse r h
      rcases hp with hp | ⟨hp, _⟩ <;> simp [hp] at this

theorem invE_reachable {ae : Bool} {s : St} (h : Reachable ae s) : InvE s := by
  induction h with
  | init nc rc => exact invE_init nc rc
  | step l _ hs ih => exact invE_step ae _ _ l ih hs

end RawPanelVerif.Lifecycle
