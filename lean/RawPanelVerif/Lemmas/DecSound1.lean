import RawPanelVerif.Lemmas.DecShape
/-! C02 `dec_sound`: per-family lemmas — a well-formed line of the family makes the decoder append messages whose
effects are what the reference reader reads from that line (`LineSound`).  Families here: `HWC#`, `HWCx#`, `HWCc#`,
`HWCrawADCValues#`, the nine `key=num` commands, `PanelBrightness` (one and two arguments), `SetCalibrationProfile`,
`SetNetworkConfig`, `SimulateEnvironmentalHealth`. -/
namespace RawPanelVerif.DecSound
open RawPanelVerif RawPanelVerif.Bytes RawPanelVerif.MsgIn RawPanelVerif.Model.In RawPanelVerif.InBits RawPanelVerif.ReadIn
open RawPanelVerif.Spec.In RawPanelVerif.EncSound RawPanelVerif.TotalIn RawPanelVerif.DecShape

namespace C02kern
theorem flatMap_singleton {α β : Type} (l : List α) (f : α → β) : l.flatMap (fun a => [f a]) = l.map f := by
  induction l with
  | nil => rfl
  | cons a as ih => simp [List.flatMap_cons, ih]

theorem effects_stateMsg (s : State) : effectsOfIn (stateMsg s) = effectsOfState s := by
  simp [effectsOfIn, stateMsg, effectsOfFlow, opt]

theorem u32_nat (n : Nat) (h : n < 4294967296) : u32 (n : Int) = n := by unfold u32; omega

theorem mode (ids : List Nat) (v : Nat) (hv : v < 4294967296) :
    effectsOfIn (decMode ids (v : Int)) = ids.map (fun id => Effect.setMode id (readMode v)) := by
  unfold decMode
  rw [effects_stateMsg]
  unfold effectsOfState effectsOfStateId
  simp only [opt, List.append_nil]
  rw [flatMap_singleton]
  congr 1
  funext id
  unfold readMode
  rw [landNat_15, shr_nat, landNat_15, u32_nat _ (by omega)]
  have hb := landNat_bit v 5 (by omega)
  simp only [show (2:Nat)^5 = 32 from rfl] at hb
  rw [hb]
  simp only [show (2:Nat)^8 = 256 from rfl, Int.toNat_natCast]
  congr 2
  by_cases h : v / 32 % 2 = 1
  · simp [h]
  · have : v / 32 % 2 = 0 := by omega
    simp [this]

theorem ext (ids : List Nat) (v : Nat) (hv : v < 4294967296) :
    effectsOfIn (decExt ids (v : Int)) = ids.map (fun id => Effect.setExt id (readExt v)) := by
  unfold decExt
  rw [effects_stateMsg]
  unfold effectsOfState effectsOfStateId
  simp only [opt, List.append_nil, List.nil_append]
  rw [flatMap_singleton]
  congr 1
  funext id
  unfold readExt
  rw [shr_nat, landNat_15, landNat_4095, u32_nat _ (by omega)]
  simp only [show (2:Nat)^12 = 4096 from rfl, Int.toNat_natCast]

theorem level2_85 (k : Nat) (h : k < 4) : level2 (85 * k) = k := by unfold level2; omega

theorem color (ids : List Nat) (v : Nat) (hv : v < 4294967296) :
    effectsOfIn (decColor ids (v : Int)) = ids.map (fun id => Effect.setColor id (readColor v)) := by
  unfold decColor readColor
  have hb := landNat_bit v 6 (by omega)
  simp only [show (2:Nat)^6 = 64 from rfl] at hb
  rw [hb]
  by_cases h : v / 64 % 2 = 1
  · have h' : v / 64 % 2 * 64 > 0 := by omega
    rw [if_pos h', if_pos h]
    rw [effects_stateMsg]
    unfold effectsOfState effectsOfStateId
    simp only [opt, List.append_nil, List.nil_append, colorOf]
    rw [flatMap_singleton]
    congr 1
    funext id
    rw [shr_nat, shr_nat, shr_nat, landNat_3, landNat_3, landNat_3,
      expand2_eq _ (by omega), expand2_eq _ (by omega), expand2_eq _ (by omega),
      level2_85 _ (by omega), level2_85 _ (by omega), level2_85 _ (by omega)]
    simp only [show (2:Nat)^4 = 16 from rfl, show (2:Nat)^2 = 4 from rfl, show (2:Nat)^0 = 1 from rfl, Nat.div_one]
  · have h' : ¬ v / 64 % 2 * 64 > 0 := by omega
    rw [if_neg h', if_neg h]
    rw [effects_stateMsg]
    unfold effectsOfState effectsOfStateId
    simp only [opt, List.append_nil, List.nil_append, colorOf]
    rw [flatMap_singleton]
    congr 1
    funext id
    rw [landNat_31]
    simp only [Int.toNat_natCast]

end C02kern

/-! ## A. cuts, literal words -/

theorem cut_some (sep : UInt8) (s a b : Bytes) (h : cut sep s = some (a, b)) : s = a ++ sep :: b ∧ sep ∉ a := by
  induction s generalizing a with
  | nil => simp [cut] at h
  | cons c cs ih =>
    unfold cut at h
    split at h
    · rename_i e
      simp only [Option.some.injEq, Prod.mk.injEq] at h
      obtain ⟨rfl, rfl⟩ := h
      subst e
      exact ⟨rfl, by simp⟩
    · rename_i hne
      cases hc : cut sep cs with
      | none => rw [hc] at h; simp at h
      | some p =>
        obtain ⟨a', b'⟩ := p
        rw [hc] at h
        simp only [Option.map_some, Option.some.injEq, Prod.mk.injEq] at h
        obtain ⟨rfl, rfl⟩ := h
        obtain ⟨h1, h2⟩ := ih a' hc
        refine ⟨by rw [h1]; rfl, ?_⟩
        intro hm
        simp only [List.mem_cons] at hm
        rcases hm with hm | hm
        · exact hne hm.symm
        · exact h2 hm

/-- a literal word of the switch contains no `#`, and `=` only in `ActivePanel=1` -/
theorem literal_facts (s : Bytes) (m : Option InMsg) (h : literalMsg s = some m) (hs : s ≠ []) :
    (35 : UInt8) ∉ s ∧ ((61 : UInt8) ∈ s → s = asc "ActivePanel=1") ∧ s.head? ≠ some 123 ∧ s.head? ≠ some 91 := by
  unfold literalMsg at h
  rw [if_neg hs] at h
  by_cases e : s = asc "ping"
  · subst e; decide
  rw [if_neg e] at h
  clear e
  by_cases e : s = asc "ack"
  · subst e; decide
  rw [if_neg e] at h
  clear e
  by_cases e : s = asc "nack"
  · subst e; decide
  rw [if_neg e] at h
  clear e
  by_cases e : s = asc "ActivePanel=1"
  · subst e; decide
  rw [if_neg e] at h
  clear e
  by_cases e : s = asc "list"
  · subst e; decide
  rw [if_neg e] at h
  clear e
  by_cases e : s = asc "map"
  · subst e; decide
  rw [if_neg e] at h
  clear e
  by_cases e : s = asc "PanelTopology?"
  · subst e; decide
  rw [if_neg e] at h
  clear e
  by_cases e : s = asc "BurninProfile?"
  · subst e; decide
  rw [if_neg e] at h
  clear e
  by_cases e : s = asc "CalibrationProfile?"
  · subst e; decide
  rw [if_neg e] at h
  clear e
  by_cases e : s = asc "NetworkConfig?"
  · subst e; decide
  rw [if_neg e] at h
  clear e
  by_cases e : s = asc "Registers?"
  · subst e; decide
  rw [if_neg e] at h
  clear e
  by_cases e : s = asc "Connections?"
  · subst e; decide
  rw [if_neg e] at h
  clear e
  by_cases e : s = asc "RunTimeStats?"
  · subst e; decide
  rw [if_neg e] at h
  clear e
  by_cases e : s = asc "Clear"
  · subst e; decide
  rw [if_neg e] at h
  clear e
  by_cases e : s = asc "ClearLEDs"
  · subst e; decide
  rw [if_neg e] at h
  clear e
  by_cases e : s = asc "ClearDisplays"
  · subst e; decide
  rw [if_neg e] at h
  clear e
  by_cases e : s = asc "SleepTimer?"
  · subst e; decide
  rw [if_neg e] at h
  clear e
  by_cases e : s = asc "WakeUp!"
  · subst e; decide
  rw [if_neg e] at h
  clear e
  by_cases e : s = asc "Reboot"
  · subst e; decide
  rw [if_neg e] at h
  clear e
  simp at h

/-! ## B. numerals -/

theorem digitsVal_spec (s : Bytes) (n : Nat) (h : digitsVal? s = some n) : s ≠ [] ∧ s.all isDigit = true ∧ natOfDigits s = n := by
  unfold digitsVal? at h
  split at h
  · rename_i hc
    simp only [Option.some.injEq] at h
    exact ⟨hc.1, hc.2, h⟩
  · simp at h

theorem num_spec (s : Bytes) (n : Nat) (h : num? s = some n) :
    s ≠ [] ∧ s.all isDigit = true ∧ natOfDigits s = n ∧ n < 4294967296 := by
  unfold num? at h
  cases hd : digitsVal? s with
  | none => rw [hd] at h; simp at h
  | some k =>
    rw [hd] at h
    simp only [] at h
    split at h
    · rename_i hk
      simp only [Option.some.injEq] at h
      subst h
      obtain ⟨h1, h2, h3⟩ := digitsVal_spec s k hd
      exact ⟨h1, h2, h3, hk⟩
    · simp at h

theorem atoiV_digits (d : Bytes) (hne : d ≠ []) (hd : d.all isDigit = true) (hv : natOfDigits d < 4294967296) :
    atoiV d = (natOfDigits d : Int) := by
  have hs := scanU_ok d 0 hd (by unfold natOfDigits at hv; unfold maxUint64; omega)
  cases d with
  | nil => exact absurd rfl hne
  | cons c cs =>
    have hc : isDigit c = true := by simp only [List.all_cons, Bool.and_eq_true] at hd; exact hd.1
    have hr := isDigit_range c hc
    have h45 : c ≠ 45 := by intro e; subst e; simp at hr
    have h43 : c ≠ 43 := by intro e; subst e; simp at hr
    unfold atoiV
    split
    · rename_i ds heq; injection heq with e1 _; exact absurd e1 h45
    · rename_i ds heq; injection heq with e1 _; exact absurd e1 h43
    · simp only []
      rw [if_neg (by simp), hs]
      simp only [Bool.false_eq_true, if_false]
      unfold natOfDigits at hv ⊢
      unfold maxInt64
      rw [if_neg (by omega)]

theorem num_atoiV (s : Bytes) (n : Nat) (h : num? s = some n) : atoiV s = (n : Int) := by
  obtain ⟨h1, h2, h3, h4⟩ := num_spec s n h
  rw [atoiV_digits s h1 h2 (by omega), h3]

theorem u32_cast (n : Nat) (h : n < 4294967296) : u32 (n : Int) = n := by unfold u32; omega

theorem mapM_num (l : List Bytes) (r : List Nat) (h : mapM? num? l = some r) :
    (∀ f ∈ l, f ≠ [] ∧ f.all isDigit = true) ∧ l.map (fun v => u32 (atoiV v)) = r := by
  induction l generalizing r with
  | nil => simp [mapM?] at h; subst h; exact ⟨fun _ hf => by simp at hf, rfl⟩
  | cons a as ih =>
    unfold mapM? at h
    cases hf : num? a with
    | none => rw [hf] at h; simp at h
    | some b =>
      cases hm : mapM? num? as with
      | none => rw [hf, hm] at h; simp at h
      | some bs =>
        rw [hf, hm] at h
        simp only [Option.some.injEq] at h
        subst h
        obtain ⟨i1, i2⟩ := ih bs hm
        have hs := num_spec a b hf
        refine ⟨?_, ?_⟩
        · intro f hfm
          simp only [List.mem_cons] at hfm
          rcases hfm with rfl | hfm
          · exact ⟨hs.1, hs.2.1⟩
          · exact i1 f hfm
        · simp only [List.map_cons]
          rw [i2, num_atoiV _ _ hf, u32_cast _ hs.2.2.2]

theorem all_join (p : UInt8 → Bool) (sep : UInt8) (fs : List Bytes) (hs : p sep = true) (h : ∀ f ∈ fs, f.all p = true) :
    (join sep fs).all p = true := by
  rw [List.all_eq_true]
  intro b hb
  rcases mem_join sep b fs hb with e | ⟨f, hf, hbf⟩
  · rw [e]; exact hs
  · have := h f hf
    rw [List.all_eq_true] at this
    exact this b hbf

theorem isDigit_isDigitComma (f : Bytes) (h : f.all isDigit = true) : f.all isDigitComma = true := by
  rw [List.all_eq_true] at h ⊢
  intro b hb
  unfold isDigitComma
  rw [h b hb]; rfl

theorem ids_spec (s : Bytes) (ids : List Nat) (h : ids? s = some ids) :
    s ≠ [] ∧ s.all isDigitComma = true ∧ intExplode s = ids := by
  unfold ids? at h
  obtain ⟨hparts, hmap⟩ := mapM_num _ _ h
  have hj := join_splitOn 44 s
  refine ⟨?_, ?_, hmap⟩
  · intro e
    rw [e] at hparts
    have := hparts [] (by simp [splitOn])
    exact this.1 rfl
  · rw [← hj]
    exact all_join isDigitComma 44 _ (by decide) (fun f hfm => isDigit_isDigitComma f (hparts f hfm).2)

/-! ## C. the matchers on well-formed lines -/

def mismatch : Bytes → Bytes → Bool
  | p :: ps, k :: ks => p != k || mismatch ps ks
  | _, _ => false

theorem stripPrefix_mismatch (p k r : Bytes) (h : mismatch p k = true) : stripPrefix p (k ++ r) = none := by
  induction p generalizing k with
  | nil => simp [mismatch] at h
  | cons a as ih =>
    cases k with
    | nil => simp [mismatch] at h
    | cons b bs =>
      simp only [mismatch, Bool.or_eq_true, bne_iff_ne, ne_eq] at h
      simp only [List.cons_append, stripPrefix]
      by_cases e : a = b
      · rw [if_pos e]
        rcases h with h | h
        · exact absurd e h
        · exact ih bs h
      · rw [if_neg e]

/-- `firstKw` hits the `i`-th keyword when all earlier ones mismatch -/
theorem firstKw_hit (pre : List Bytes) (kw : Bytes) (post : List Bytes) (r : Bytes)
    (h : pre.all (fun p => mismatch p kw) = true) : firstKw (pre ++ kw :: post) (kw ++ r) = some (kw, r) := by
  induction pre with
  | nil => simp only [List.nil_append, firstKw, stripPrefix_append]
  | cons p ps ih =>
    simp only [List.all_cons, Bool.and_eq_true] at h
    simp only [List.cons_append, firstKw, stripPrefix_mismatch p kw r h.1]
    exact ih h.2

theorem matchCmd_hit (pre : List Bytes) (kw : Bytes) (post : List Bytes) (ids v : Bytes)
    (hk : kwCmd = pre ++ kw :: post) (hpre : pre.all (fun p => mismatch p kw) = true)
    (hne : ids ≠ []) (hids : ids.all isDigitComma = true) (hlf : noLF v = true) :
    matchCmd (kw ++ ids ++ 61 :: v) = some [kw ++ ids ++ 61 :: v, kw, ids, v] := by
  unfold matchCmd
  rw [hk, List.append_assoc, firstKw_hit pre kw post _ hpre]
  simp only []
  rw [spanP_append isDigitComma ids 61 v hids (by decide)]
  simp only [hne, if_false, hlf, if_true]

theorem noLF_digits (v : Bytes) (h : v.all isDigit = true) : noLF v = true := by
  unfold noLF
  have : (10 : UInt8) ∉ v := all_not_mem isDigit v 10 h (by decide)
  simp [this]

/-- the decoder on a line `kw ids = v` accepted by `regex_cmd` -/
theorem decLine_cmd (O : Oracles) (pinned : Bool) (st : DecSt) (l : Bytes) (m : List Bytes)
    (hlit : literalMsg l = none) (h1 : l.head? ≠ some 123) (h2 : l.head? ≠ some 91) (hm : matchCmd l = some m) :
    decLine O pinned st l = (match decCmd m with
      | .ok (some msg) => .ok { st with out := st.out ++ [some msg] }
      | .ok none => .ok st
      | .error e => .error e) := by
  unfold decLine
  simp only [hlit, hm, bind, Except.bind, pure, Except.pure]
  rw [if_neg h1, if_neg h2]
  cases decCmd m with
  | error e => rfl
  | ok r => cases r <;> rfl

/-! ## D. per-family soundness -/

def lineEffects (O : Oracles) (l : Bytes) : List Effect :=
  match readLine O l with
  | .effects es => es
  | .gfx _ => []

/-- the decoder appends messages whose effects are what the reference reader reads from the line; the graphics
state is untouched -/
def LineSound (O : Oracles) (l : Bytes) : Prop :=
  ∀ pinned st, ∃ outs, decLine O pinned st l = .ok { st with out := st.out ++ outs } ∧
    outs.flatMap effectsOfMsgOpt = lineEffects O l

theorem head_ne_of_cons (c : UInt8) (cs : Bytes) (x : UInt8) (h : c ≠ x) : (c :: cs).head? ≠ some x := by
  simp [h]

theorem readLine_hash (O : Oracles) (l key v fam ids : Bytes) (h1 : l.head? ≠ some 123) (h2 : l.head? ≠ some 91)
    (hc : cut 61 l = some (key, v)) (hf : cut 35 key = some (fam, ids)) : readLine O l = readHash fam ids v := by
  unfold readLine
  split
  · exact absurd rfl h1
  · exact absurd rfl h2
  · rw [hc]; simp only []; rw [hf]

theorem readLine_plain (O : Oracles) (l key v : Bytes) (h1 : l.head? ≠ some 123) (h2 : l.head? ≠ some 91)
    (hc : cut 61 l = some (key, v)) (hf : cut 35 key = none) : readLine O l = .effects (readPlain O key v) := by
  unfold readLine
  split
  · exact absurd rfl h1
  · exact absurd rfl h2
  · rw [hc]; simp only []; rw [hf]

theorem literal_none_of_hash (l : Bytes) (h : (35 : UInt8) ∈ l) : literalMsg l = none := by
  apply opt_none_of_forall
  intro m hm
  have hne : l ≠ [] := by intro e; rw [e] at h; simp at h
  exact (literal_facts l m hm hne).1 h

/-- a line `fam#ids=v` of one of the five `regex_cmd` families -/
theorem hash_line_eq (l key v fam ids : Bytes) (hc : cut 61 l = some (key, v)) (hf : cut 35 key = some (fam, ids)) :
    l = (fam ++ [35]) ++ ids ++ 61 :: v ∧ (35 : UInt8) ∈ l := by
  obtain ⟨e1, _⟩ := cut_some 61 l key v hc
  obtain ⟨e2, _⟩ := cut_some 35 key fam ids hf
  refine ⟨by rw [e1, e2]; simp, ?_⟩
  rw [e1, e2]; simp

theorem flatMap_single_some (m : InMsg) : [some m].flatMap effectsOfMsgOpt = effectsOfIn m := by
  simp [effectsOfMsgOpt]

theorem sound_of_cmd (O : Oracles) (l : Bytes) (pre : List Bytes) (kw : Bytes) (post : List Bytes) (ids v : Bytes) (msg : InMsg)
    (hl : l = kw ++ ids ++ 61 :: v) (h35 : (35 : UInt8) ∈ l) (hk0 : keyHeadOk kw = true)
    (hk : kwCmd = pre ++ kw :: post) (hpre : pre.all (fun p => mismatch p kw) = true)
    (hne : ids ≠ []) (hids : ids.all isDigitComma = true) (hlf : noLF v = true)
    (hdec : decCmd [l, kw, ids, v] = .ok (some msg)) (heff : effectsOfIn msg = lineEffects O l) : LineSound O l := by
  intro pinned st
  have hh : l.head? ≠ some 123 ∧ l.head? ≠ some 91 := by
    rw [hl]
    cases kw with
    | nil => simp [keyHeadOk] at hk0
    | cons c cs =>
      simp only [keyHeadOk, Bool.and_eq_true, bne_iff_ne, ne_eq] at hk0
      simp [hk0.1, hk0.2]
  have hm := matchCmd_hit pre kw post ids v hk hpre hne hids hlf
  rw [← hl] at hm
  refine ⟨[some msg], ?_, by rw [flatMap_single_some, heff]⟩
  rw [decLine_cmd O pinned st l _ (literal_none_of_hash l h35) hh.1 hh.2 hm, hdec]

theorem head_kw (kw r : Bytes) (h : keyHeadOk kw = true) : (kw ++ r).head? ≠ some 123 ∧ (kw ++ r).head? ≠ some 91 := by
  cases kw with
  | nil => simp [keyHeadOk] at h
  | cons c cs =>
    simp only [keyHeadOk, Bool.and_eq_true, bne_iff_ne, ne_eq] at h
    simp [h.1, h.2]

theorem forIds_some (idsText : Bytes) (ids : List Nat) (f : Nat → Effect) (h : ids? idsText = some ids) :
    forIds idsText f = ids.map f := by
  unfold forIds; rw [h]

theorem sound_mode (O : Oracles) (l key v ids : Bytes) (idl : List Nat) (n : Nat)
    (hc : cut 61 l = some (key, v)) (hf : cut 35 key = some (asc "HWC", ids))
    (hids : ids? ids = some idl) (hv : num? v = some n) : LineSound O l := by
  obtain ⟨hl, h35⟩ := hash_line_eq l key v _ ids hc hf
  obtain ⟨i1, i2, i3⟩ := ids_spec ids idl hids
  obtain ⟨v1, v2, v3, v4⟩ := num_spec v n hv
  have hl' : l = asc "HWC#" ++ ids ++ 61 :: v := by rw [hl]; rfl
  refine sound_of_cmd O l [] (asc "HWC#") _ ids v (decMode idl (n : Int)) hl' h35 (by decide) rfl (by decide) i1 i2
    (noLF_digits v v2) ?_ ?_
  · simp only [decCmd, sub, bind, Except.bind, pure, Except.pure, List.getElem?_cons_succ, List.getElem?_cons_zero]
    rw [if_pos trivial, i3, num_atoiV v n hv]
  · have hh : l.head? ≠ some 123 ∧ l.head? ≠ some 91 := by rw [hl', List.append_assoc]; exact head_kw _ _ (by decide)
    unfold lineEffects
    rw [readLine_hash O l key v _ ids hh.1 hh.2 hc hf]
    unfold readHash
    rw [if_pos rfl, hv]
    simp only []
    rw [forIds_some ids idl _ hids]
    exact C02kern.mode idl n v4

theorem sound_ext (O : Oracles) (l key v ids : Bytes) (idl : List Nat) (n : Nat)
    (hc : cut 61 l = some (key, v)) (hf : cut 35 key = some (asc "HWCx", ids))
    (hids : ids? ids = some idl) (hv : num? v = some n) : LineSound O l := by
  obtain ⟨hl, h35⟩ := hash_line_eq l key v _ ids hc hf
  obtain ⟨i1, i2, i3⟩ := ids_spec ids idl hids
  obtain ⟨v1, v2, v3, v4⟩ := num_spec v n hv
  have hl' : l = asc "HWCx#" ++ ids ++ 61 :: v := by rw [hl]; rfl
  refine sound_of_cmd O l [asc "HWC#"] (asc "HWCx#") _ ids v (decExt idl (n : Int)) hl' h35 (by decide) rfl (by decide) i1 i2
    (noLF_digits v v2) ?_ ?_
  · simp only [decCmd, sub, bind, Except.bind, pure, Except.pure, List.getElem?_cons_succ, List.getElem?_cons_zero]
    rw [if_neg (by decide), if_pos trivial, i3, num_atoiV v n hv]
  · have hh : l.head? ≠ some 123 ∧ l.head? ≠ some 91 := by rw [hl', List.append_assoc]; exact head_kw _ _ (by decide)
    unfold lineEffects
    rw [readLine_hash O l key v _ ids hh.1 hh.2 hc hf]
    unfold readHash
    rw [if_neg (by decide), if_pos rfl, hv]
    simp only []
    rw [forIds_some ids idl _ hids]
    exact C02kern.ext idl n v4

theorem sound_color (O : Oracles) (l key v ids : Bytes) (idl : List Nat) (n : Nat)
    (hc : cut 61 l = some (key, v)) (hf : cut 35 key = some (asc "HWCc", ids))
    (hids : ids? ids = some idl) (hv : num? v = some n) : LineSound O l := by
  obtain ⟨hl, h35⟩ := hash_line_eq l key v _ ids hc hf
  obtain ⟨i1, i2, i3⟩ := ids_spec ids idl hids
  obtain ⟨v1, v2, v3, v4⟩ := num_spec v n hv
  have hl' : l = asc "HWCc#" ++ ids ++ 61 :: v := by rw [hl]; rfl
  refine sound_of_cmd O l [asc "HWC#", asc "HWCx#"] (asc "HWCc#") _ ids v (decColor idl (n : Int)) hl' h35 (by decide) rfl (by decide) i1 i2
    (noLF_digits v v2) ?_ ?_
  · simp only [decCmd, sub, bind, Except.bind, pure, Except.pure, List.getElem?_cons_succ, List.getElem?_cons_zero]
    rw [if_neg (by decide), if_neg (by decide), if_pos trivial, i3, num_atoiV v n hv]
  · have hh : l.head? ≠ some 123 ∧ l.head? ≠ some 91 := by rw [hl', List.append_assoc]; exact head_kw _ _ (by decide)
    unfold lineEffects
    rw [readLine_hash O l key v _ ids hh.1 hh.2 hc hf]
    unfold readHash
    rw [if_neg (by decide), if_neg (by decide), if_pos rfl, hv]
    simp only []
    rw [forIds_some ids idl _ hids]
    exact C02kern.color idl n v4

theorem effects_raw (idl : List Nat) (b : Bool) :
    effectsOfIn (stateMsg { ids := idl, rawADC := some b }) = idl.map (fun id => Effect.setRawADC id b) := by
  rw [C02kern.effects_stateMsg]
  unfold effectsOfState effectsOfStateId
  simp only [opt, List.nil_append]
  exact C02kern.flatMap_singleton idl _

theorem sound_raw (O : Oracles) (l key v ids : Bytes) (idl : List Nat)
    (hc : cut 61 l = some (key, v)) (hf : cut 35 key = some (asc "HWCrawADCValues", ids))
    (hids : ids? ids = some idl) (hv : v = asc "0" ∨ v = asc "1") : LineSound O l := by
  obtain ⟨hl, h35⟩ := hash_line_eq l key v _ ids hc hf
  obtain ⟨i1, i2, i3⟩ := ids_spec ids idl hids
  have hl' : l = asc "HWCrawADCValues#" ++ ids ++ 61 :: v := by rw [hl]; rfl
  have hh : l.head? ≠ some 123 ∧ l.head? ≠ some 91 := by rw [hl', List.append_assoc]; exact head_kw _ _ (by decide)
  have hr : readLine O l = readHash (asc "HWCrawADCValues") ids v := readLine_hash O l key v _ ids hh.1 hh.2 hc hf
  rcases hv with rfl | rfl
  · refine sound_of_cmd O l [asc "HWC#", asc "HWCx#", asc "HWCc#", asc "HWCt#"] (asc "HWCrawADCValues#") _ ids _
      (stateMsg { ids := idl, rawADC := some false }) hl' h35 (by decide) rfl (by decide) i1 i2 (by decide) ?_ ?_
    · simp only [decCmd, sub, bind, Except.bind, pure, Except.pure, List.getElem?_cons_succ, List.getElem?_cons_zero]
      rw [if_neg (by decide), if_neg (by decide), if_neg (by decide), if_neg (by decide), if_pos trivial, i3]
      rfl
    · unfold lineEffects
      rw [hr]
      unfold readHash
      rw [if_neg (by decide), if_neg (by decide), if_neg (by decide), if_neg (by decide), if_pos rfl,
        if_neg (by decide), if_pos rfl, forIds_some ids idl _ hids]
      exact effects_raw idl false
  · refine sound_of_cmd O l [asc "HWC#", asc "HWCx#", asc "HWCc#", asc "HWCt#"] (asc "HWCrawADCValues#") _ ids _
      (stateMsg { ids := idl, rawADC := some true }) hl' h35 (by decide) rfl (by decide) i1 i2 (by decide) ?_ ?_
    · simp only [decCmd, sub, bind, Except.bind, pure, Except.pure, List.getElem?_cons_succ, List.getElem?_cons_zero]
      rw [if_neg (by decide), if_neg (by decide), if_neg (by decide), if_neg (by decide), if_pos trivial, i3]
      rfl
    · unfold lineEffects
      rw [hr]
      unfold readHash
      rw [if_neg (by decide), if_neg (by decide), if_neg (by decide), if_neg (by decide), if_pos rfl,
        if_pos rfl, forIds_some ids idl _ hids]
      exact effects_raw idl true

/-! ### plain keys -/

theorem literal_none_plain (l key v : Bytes) (hc : cut 61 l = some (key, v)) (hk : key ≠ asc "ActivePanel") :
    literalMsg l = none := by
  apply opt_none_of_forall
  intro m hm
  obtain ⟨e, _⟩ := cut_some 61 l key v hc
  have hne : l ≠ [] := by rw [e]; simp
  have h61 : (61 : UInt8) ∈ l := by rw [e]; simp
  have := (literal_facts l m hm hne).2.1 h61
  rw [this] at hc
  have hd : cut 61 (asc "ActivePanel=1") = some (asc "ActivePanel", asc "1") := by decide
  rw [hd] at hc
  simp only [Option.some.injEq, Prod.mk.injEq] at hc
  exact hk hc.1.symm

theorem kwCmd_facts (kw : Bytes) (h : kw ∈ kwCmd) : (61 : UInt8) ∉ kw ∧ (35 : UInt8) ∈ kw := by
  simp only [kwCmd, List.mem_cons, List.not_mem_nil, or_false] at h
  rcases h with rfl | rfl | rfl | rfl | rfl <;> exact ⟨by decide, by decide⟩

theorem kwGfx_facts (kw : Bytes) (h : kw ∈ kwGfx) : (61 : UInt8) ∉ kw ∧ (35 : UInt8) ∈ kw := by
  simp only [kwGfx, List.mem_cons, List.not_mem_nil, or_false] at h
  rcases h with rfl | rfl | rfl <;> exact ⟨by decide, by decide⟩

theorem cut_none_iff (sep : UInt8) (k : Bytes) (h : cut sep k = none) : sep ∉ k := by
  induction k with
  | nil => simp
  | cons c cs ih =>
    unfold cut at h
    split at h
    · simp at h
    · rename_i hne
      cases hc : cut sep cs with
      | none =>
        intro hm
        simp only [List.mem_cons] at hm
        rcases hm with hm | hm
        · exact hne hm.symm
        · exact ih hc hm
      | some p => rw [hc] at h; simp at h

theorem matchCmd_none_plain (l key v : Bytes) (hc : cut 61 l = some (key, v)) (hf : cut 35 key = none) : matchCmd l = none := by
  apply opt_none_of_forall
  intro m hm
  obtain ⟨kw, ids, v', hk, _, hids, _, hs, _⟩ := matchCmd_some l m hm
  obtain ⟨k1, k2⟩ := kwCmd_facts kw hk
  have : (61 : UInt8) ∉ kw ++ ids := by
    intro h; simp only [List.mem_append] at h
    rcases h with h | h
    · exact k1 h
    · exact all_dc_no61 _ hids h
  rw [hs, cut_append 61 _ _ this] at hc
  simp only [Option.some.injEq, Prod.mk.injEq] at hc
  have h35 := cut_none_iff 35 key hf
  rw [← hc.1] at h35
  exact h35 (by simp [k2])

theorem matchGfx_none_plain (l key v : Bytes) (hc : cut 61 l = some (key, v)) (hf : cut 35 key = none) : matchGfx l = none := by
  apply opt_none_of_forall
  intro m hm
  obtain ⟨kw, ids, v', hk, hids, hs⟩ := matchGfx_prefix l m hm
  obtain ⟨k1, k2⟩ := kwGfx_facts kw hk
  have : (61 : UInt8) ∉ kw ++ ids := by
    intro h; simp only [List.mem_append] at h
    rcases h with h | h
    · exact k1 h
    · exact all_dc_no61 _ hids h
  rw [hs, cut_append 61 _ _ this] at hc
  simp only [Option.some.injEq, Prod.mk.injEq] at hc
  have h35 := cut_none_iff 35 key hf
  rw [← hc.1] at h35
  exact h35 (by simp [k2])

theorem decLine_single (O : Oracles) (pinned : Bool) (st : DecSt) (l : Bytes) (m : List Bytes)
    (hlit : literalMsg l = none) (h1 : l.head? ≠ some 123) (h2 : l.head? ≠ some 91)
    (h3 : matchCmd l = none) (h4 : matchGfx l = none) (hm : matchSingle l = some m) :
    decLine O pinned st l = (match decSingle m with
      | .ok (some msg) => .ok { st with out := st.out ++ [some msg] }
      | .ok none => .ok st
      | .error e => .error e) := by
  unfold decLine
  simp only [hlit, h3, h4, hm, bind, Except.bind, pure, Except.pure]
  rw [if_neg h1, if_neg h2]
  cases decSingle m with
  | error e => rfl
  | ok r => cases r <;> rfl

theorem matchSingle_hit (pre : List Bytes) (kw : Bytes) (post : List Bytes) (d : Bytes)
    (hk : kwSingle = pre ++ kw :: post) (hpre : pre.all (fun p => mismatch p kw) = true)
    (hne : d ≠ []) (hd : d.all isDigit = true) :
    matchSingle (kw ++ 61 :: d) = some [kw ++ 61 :: d, kw, d] := by
  unfold matchSingle
  rw [hk, firstKw_hit pre kw post _ hpre]
  simp only [hne, hd, ne_eq, not_false_eq_true, and_self, if_true]

/-- a numeric command line `kw=d` -/
theorem sound_of_single (O : Oracles) (l kw d : Bytes) (pre post : List Bytes) (msg : InMsg)
    (hc : cut 61 l = some (kw, d)) (hf : cut 35 kw = none) (hka : kw ≠ asc "ActivePanel") (hk0 : keyHeadOk kw = true)
    (hk : kwSingle = pre ++ kw :: post) (hpre : pre.all (fun p => mismatch p kw) = true)
    (hne : d ≠ []) (hd : d.all isDigit = true)
    (hdec : decSingle [l, kw, d] = .ok (some msg)) (heff : effectsOfIn msg = readPlain O kw d) : LineSound O l := by
  intro pinned st
  obtain ⟨e, _⟩ := cut_some 61 l kw d hc
  have hh := head_kw kw (61 :: d) hk0
  rw [← e] at hh
  have hm := matchSingle_hit pre kw post d hk hpre hne hd
  rw [← e] at hm
  refine ⟨[some msg], ?_, ?_⟩
  · rw [decLine_single O pinned st l _ (literal_none_plain l kw d hc hka) hh.1 hh.2
      (matchCmd_none_plain l kw d hc hf) (matchGfx_none_plain l kw d hc hf) hm, hdec]
  · rw [flatMap_single_some, heff]
    unfold lineEffects
    rw [readLine_plain O l kw d hh.1 hh.2 hc hf]

theorem enumArg_i32 (n : Nat) (h : n < 4294967296) : enumArg (i32 (n : Int)) = n := by
  unfold enumArg i32; omega
theorem enumArg_i32u32 (n : Nat) (h : n < 4294967296) : enumArg (i32 (u32 (n : Int))) = n := by
  unfold enumArg i32 u32; omega

theorem effects_cmdOnly (c : Command) : effectsOfIn (cmdOnly c) = effectsOfCmd c := by
  simp [effectsOfIn, cmdOnly, effectsOfFlow, opt]

theorem readPlain_num (O : Oracles) (K d : Bytes) (n : Nat) (mk : Nat → CmdE)
    (hsp : K ≠ asc "ActivePanel" ∧ K ≠ asc "PanelBrightness" ∧ K ≠ asc "SetCalibrationProfile" ∧ K ≠ asc "SetNetworkConfig" ∧
           K ≠ asc "SimulateEnvironmentalHealth")
    (hl : numCmdTable.lookup K = some mk) (hn : num? d = some n) : readPlain O K d = [.cmd (mk n)] := by
  unfold readPlain
  rw [if_neg hsp.1, if_neg hsp.2.1, if_neg hsp.2.2.1, if_neg hsp.2.2.2.1, if_neg hsp.2.2.2.2, hl]
  simp only [hn]

theorem sound_HeartBeatTimer (O : Oracles) (l d : Bytes) (n : Nat) (hc : cut 61 l = some (asc "HeartBeatTimer", d)) (hn : num? d = some n) :
    LineSound O l := by
  obtain ⟨v1, v2, v3, v4⟩ := num_spec d n hn
  refine sound_of_single O l (asc "HeartBeatTimer") d [] [asc "DimmedGain", asc "PublishSystemStat", asc "LoadCPU", asc "SleepTimer", asc "SleepMode", asc "SleepScreenSaver", asc "Webserver", asc "JSONonOutbound", asc "PanelBrightness"] (cmdOnly { setHeartBeatTimer := some (u32 (n : Int)) }) hc (by decide) (by decide) (by decide)
    (by decide) (by decide) v1 v2 ?_ ?_
  · simp only [decSingle, sub, bind, Except.bind, pure, Except.pure, List.getElem?_cons_succ, List.getElem?_cons_zero]
    rw [if_pos trivial, num_atoiV d n hn]
  · rw [effects_cmdOnly, readPlain_num O (asc "HeartBeatTimer") d n CmdE.heartBeatTimer (by kwfacts) (by rfl) hn]
    unfold effectsOfCmd
    simp only [flagE, opt, Bool.false_eq_true, if_false, List.append_nil, List.nil_append]
    first
      | rw [enumArg_i32u32 n v4]
      | rw [enumArg_i32 n v4]
      | rw [u32_cast n v4]
      | (congr 3; simp)

theorem sound_DimmedGain (O : Oracles) (l d : Bytes) (n : Nat) (hc : cut 61 l = some (asc "DimmedGain", d)) (hn : num? d = some n) :
    LineSound O l := by
  obtain ⟨v1, v2, v3, v4⟩ := num_spec d n hn
  refine sound_of_single O l (asc "DimmedGain") d [asc "HeartBeatTimer"] [asc "PublishSystemStat", asc "LoadCPU", asc "SleepTimer", asc "SleepMode", asc "SleepScreenSaver", asc "Webserver", asc "JSONonOutbound", asc "PanelBrightness"] (cmdOnly { setDimmedGain := some (u32 (n : Int)) }) hc (by decide) (by decide) (by decide)
    (by decide) (by decide) v1 v2 ?_ ?_
  · simp only [decSingle, sub, bind, Except.bind, pure, Except.pure, List.getElem?_cons_succ, List.getElem?_cons_zero]
    rw [if_neg (by decide), if_pos trivial, num_atoiV d n hn]
  · rw [effects_cmdOnly, readPlain_num O (asc "DimmedGain") d n CmdE.dimmedGain (by kwfacts) (by rfl) hn]
    unfold effectsOfCmd
    simp only [flagE, opt, Bool.false_eq_true, if_false, List.append_nil, List.nil_append]
    first
      | rw [enumArg_i32u32 n v4]
      | rw [enumArg_i32 n v4]
      | rw [u32_cast n v4]
      | (congr 3; simp)

theorem sound_PublishSystemStat (O : Oracles) (l d : Bytes) (n : Nat) (hc : cut 61 l = some (asc "PublishSystemStat", d)) (hn : num? d = some n) :
    LineSound O l := by
  obtain ⟨v1, v2, v3, v4⟩ := num_spec d n hn
  refine sound_of_single O l (asc "PublishSystemStat") d [asc "HeartBeatTimer", asc "DimmedGain"] [asc "LoadCPU", asc "SleepTimer", asc "SleepMode", asc "SleepScreenSaver", asc "Webserver", asc "JSONonOutbound", asc "PanelBrightness"] (cmdOnly { publishSystemStat := some (u32 (n : Int)) }) hc (by decide) (by decide) (by decide)
    (by decide) (by decide) v1 v2 ?_ ?_
  · simp only [decSingle, sub, bind, Except.bind, pure, Except.pure, List.getElem?_cons_succ, List.getElem?_cons_zero]
    rw [if_neg (by decide), if_neg (by decide), if_pos trivial, num_atoiV d n hn]
  · rw [effects_cmdOnly, readPlain_num O (asc "PublishSystemStat") d n CmdE.publishSystemStat (by kwfacts) (by rfl) hn]
    unfold effectsOfCmd
    simp only [flagE, opt, Bool.false_eq_true, if_false, List.append_nil, List.nil_append]
    first
      | rw [enumArg_i32u32 n v4]
      | rw [enumArg_i32 n v4]
      | rw [u32_cast n v4]
      | (congr 3; simp)

theorem sound_LoadCPU (O : Oracles) (l d : Bytes) (n : Nat) (hc : cut 61 l = some (asc "LoadCPU", d)) (hn : num? d = some n) :
    LineSound O l := by
  obtain ⟨v1, v2, v3, v4⟩ := num_spec d n hn
  refine sound_of_single O l (asc "LoadCPU") d [asc "HeartBeatTimer", asc "DimmedGain", asc "PublishSystemStat"] [asc "SleepTimer", asc "SleepMode", asc "SleepScreenSaver", asc "Webserver", asc "JSONonOutbound", asc "PanelBrightness"] (cmdOnly { loadCPU := some (i32 (u32 (n : Int))) }) hc (by decide) (by decide) (by decide)
    (by decide) (by decide) v1 v2 ?_ ?_
  · simp only [decSingle, sub, bind, Except.bind, pure, Except.pure, List.getElem?_cons_succ, List.getElem?_cons_zero]
    rw [if_neg (by decide), if_neg (by decide), if_neg (by decide), if_pos trivial, num_atoiV d n hn]
  · rw [effects_cmdOnly, readPlain_num O (asc "LoadCPU") d n CmdE.loadCPU (by kwfacts) (by rfl) hn]
    unfold effectsOfCmd
    simp only [flagE, opt, Bool.false_eq_true, if_false, List.append_nil, List.nil_append]
    first
      | rw [enumArg_i32u32 n v4]
      | rw [enumArg_i32 n v4]
      | rw [u32_cast n v4]
      | (congr 3; simp)

theorem sound_SleepTimer (O : Oracles) (l d : Bytes) (n : Nat) (hc : cut 61 l = some (asc "SleepTimer", d)) (hn : num? d = some n) :
    LineSound O l := by
  obtain ⟨v1, v2, v3, v4⟩ := num_spec d n hn
  refine sound_of_single O l (asc "SleepTimer") d [asc "HeartBeatTimer", asc "DimmedGain", asc "PublishSystemStat", asc "LoadCPU"] [asc "SleepMode", asc "SleepScreenSaver", asc "Webserver", asc "JSONonOutbound", asc "PanelBrightness"] (cmdOnly { setSleepTimeout := some (u32 (n : Int)) }) hc (by decide) (by decide) (by decide)
    (by decide) (by decide) v1 v2 ?_ ?_
  · simp only [decSingle, sub, bind, Except.bind, pure, Except.pure, List.getElem?_cons_succ, List.getElem?_cons_zero]
    rw [if_neg (by decide), if_neg (by decide), if_neg (by decide), if_neg (by decide), if_pos trivial, num_atoiV d n hn]
  · rw [effects_cmdOnly, readPlain_num O (asc "SleepTimer") d n CmdE.sleepTimer (by kwfacts) (by rfl) hn]
    unfold effectsOfCmd
    simp only [flagE, opt, Bool.false_eq_true, if_false, List.append_nil, List.nil_append]
    first
      | rw [enumArg_i32u32 n v4]
      | rw [enumArg_i32 n v4]
      | rw [u32_cast n v4]
      | (congr 3; simp)

theorem sound_SleepMode (O : Oracles) (l d : Bytes) (n : Nat) (hc : cut 61 l = some (asc "SleepMode", d)) (hn : num? d = some n) :
    LineSound O l := by
  obtain ⟨v1, v2, v3, v4⟩ := num_spec d n hn
  refine sound_of_single O l (asc "SleepMode") d [asc "HeartBeatTimer", asc "DimmedGain", asc "PublishSystemStat", asc "LoadCPU", asc "SleepTimer"] [asc "SleepScreenSaver", asc "Webserver", asc "JSONonOutbound", asc "PanelBrightness"] (cmdOnly { setSleepMode := some (i32 (n : Int)) }) hc (by decide) (by decide) (by decide)
    (by decide) (by decide) v1 v2 ?_ ?_
  · simp only [decSingle, sub, bind, Except.bind, pure, Except.pure, List.getElem?_cons_succ, List.getElem?_cons_zero]
    rw [if_neg (by decide), if_neg (by decide), if_neg (by decide), if_neg (by decide), if_neg (by decide), if_pos trivial, num_atoiV d n hn]
  · rw [effects_cmdOnly, readPlain_num O (asc "SleepMode") d n CmdE.sleepMode (by kwfacts) (by rfl) hn]
    unfold effectsOfCmd
    simp only [flagE, opt, Bool.false_eq_true, if_false, List.append_nil, List.nil_append]
    first
      | rw [enumArg_i32u32 n v4]
      | rw [enumArg_i32 n v4]
      | rw [u32_cast n v4]
      | (congr 3; simp)

theorem sound_SleepScreenSaver (O : Oracles) (l d : Bytes) (n : Nat) (hc : cut 61 l = some (asc "SleepScreenSaver", d)) (hn : num? d = some n) :
    LineSound O l := by
  obtain ⟨v1, v2, v3, v4⟩ := num_spec d n hn
  refine sound_of_single O l (asc "SleepScreenSaver") d [asc "HeartBeatTimer", asc "DimmedGain", asc "PublishSystemStat", asc "LoadCPU", asc "SleepTimer", asc "SleepMode"] [asc "Webserver", asc "JSONonOutbound", asc "PanelBrightness"] (cmdOnly { setSleepScreenSaver := some (i32 (n : Int)) }) hc (by decide) (by decide) (by decide)
    (by decide) (by decide) v1 v2 ?_ ?_
  · simp only [decSingle, sub, bind, Except.bind, pure, Except.pure, List.getElem?_cons_succ, List.getElem?_cons_zero]
    rw [if_neg (by decide), if_neg (by decide), if_neg (by decide), if_neg (by decide), if_neg (by decide), if_neg (by decide), if_pos trivial, num_atoiV d n hn]
  · rw [effects_cmdOnly, readPlain_num O (asc "SleepScreenSaver") d n CmdE.sleepScreenSaver (by kwfacts) (by rfl) hn]
    unfold effectsOfCmd
    simp only [flagE, opt, Bool.false_eq_true, if_false, List.append_nil, List.nil_append]
    first
      | rw [enumArg_i32u32 n v4]
      | rw [enumArg_i32 n v4]
      | rw [u32_cast n v4]
      | (congr 3; simp)

theorem sound_Webserver (O : Oracles) (l d : Bytes) (n : Nat) (hc : cut 61 l = some (asc "Webserver", d)) (hn : num? d = some n) :
    LineSound O l := by
  obtain ⟨v1, v2, v3, v4⟩ := num_spec d n hn
  refine sound_of_single O l (asc "Webserver") d [asc "HeartBeatTimer", asc "DimmedGain", asc "PublishSystemStat", asc "LoadCPU", asc "SleepTimer", asc "SleepMode", asc "SleepScreenSaver"] [asc "JSONonOutbound", asc "PanelBrightness"] (cmdOnly { setWebserverEnabled := some (decide ((n : Int) > 0)) }) hc (by decide) (by decide) (by decide)
    (by decide) (by decide) v1 v2 ?_ ?_
  · simp only [decSingle, sub, bind, Except.bind, pure, Except.pure, List.getElem?_cons_succ, List.getElem?_cons_zero]
    rw [if_neg (by decide), if_neg (by decide), if_neg (by decide), if_neg (by decide), if_neg (by decide), if_neg (by decide), if_neg (by decide), if_pos trivial, num_atoiV d n hn]
  · rw [effects_cmdOnly, readPlain_num O (asc "Webserver") d n (fun n => CmdE.webserver (n > 0)) (by kwfacts) (by rfl) hn]
    unfold effectsOfCmd
    simp only [flagE, opt, Bool.false_eq_true, if_false, List.append_nil, List.nil_append]
    first
      | rw [enumArg_i32u32 n v4]
      | rw [enumArg_i32 n v4]
      | rw [u32_cast n v4]
      | (congr 3; simp)

theorem sound_JSONonOutbound (O : Oracles) (l d : Bytes) (n : Nat) (hc : cut 61 l = some (asc "JSONonOutbound", d)) (hn : num? d = some n) :
    LineSound O l := by
  obtain ⟨v1, v2, v3, v4⟩ := num_spec d n hn
  refine sound_of_single O l (asc "JSONonOutbound") d [asc "HeartBeatTimer", asc "DimmedGain", asc "PublishSystemStat", asc "LoadCPU", asc "SleepTimer", asc "SleepMode", asc "SleepScreenSaver", asc "Webserver"] [asc "PanelBrightness"] (cmdOnly { jsonConfig := some (decide ((n : Int) > 0)) }) hc (by decide) (by decide) (by decide)
    (by decide) (by decide) v1 v2 ?_ ?_
  · simp only [decSingle, sub, bind, Except.bind, pure, Except.pure, List.getElem?_cons_succ, List.getElem?_cons_zero]
    rw [if_neg (by decide), if_neg (by decide), if_neg (by decide), if_neg (by decide), if_neg (by decide), if_neg (by decide), if_neg (by decide), if_neg (by decide), if_pos trivial, num_atoiV d n hn]
  · rw [effects_cmdOnly, readPlain_num O (asc "JSONonOutbound") d n (fun n => CmdE.jsonOnOutbound (n > 0)) (by kwfacts) (by rfl) hn]
    unfold effectsOfCmd
    simp only [flagE, opt, Bool.false_eq_true, if_false, List.append_nil, List.nil_append]
    first
      | rw [enumArg_i32u32 n v4]
      | rw [enumArg_i32 n v4]
      | rw [u32_cast n v4]
      | (congr 3; simp)


theorem sound_brightness1 (O : Oracles) (l d : Bytes) (n : Nat) (hc : cut 61 l = some (asc "PanelBrightness", d)) (hn : num? d = some n) :
    LineSound O l := by
  obtain ⟨v1, v2, v3, v4⟩ := num_spec d n hn
  refine sound_of_single O l (asc "PanelBrightness") d
    [asc "HeartBeatTimer", asc "DimmedGain", asc "PublishSystemStat", asc "LoadCPU", asc "SleepTimer", asc "SleepMode",
     asc "SleepScreenSaver", asc "Webserver", asc "JSONonOutbound"] []
    (cmdOnly { panelBrightness := some (u32 (n : Int), u32 (n : Int)) }) hc (by decide) (by decide) (by decide)
    (by decide) (by decide) v1 v2 ?_ ?_
  · simp only [decSingle, sub, bind, Except.bind, pure, Except.pure, List.getElem?_cons_succ, List.getElem?_cons_zero]
    rw [if_neg (by decide), if_neg (by decide), if_neg (by decide), if_neg (by decide), if_neg (by decide),
      if_neg (by decide), if_neg (by decide), if_neg (by decide), if_neg (by decide), if_pos trivial, num_atoiV d n hn]
  · rw [effects_cmdOnly]
    unfold readPlain
    rw [if_neg (by decide), if_pos rfl]
    unfold readBrightness
    rw [cut_none 44 d (all_not_mem isDigit d 44 v2 (by decide)), hn]
    unfold effectsOfCmd
    simp only [flagE, opt, Bool.false_eq_true, if_false, List.append_nil, List.nil_append]
    rw [u32_cast n v4]

theorem matchSingle_none_of_comma (l kw d : Bytes) (hc : cut 61 l = some (kw, d)) (h44 : (44 : UInt8) ∈ d) : matchSingle l = none := by
  apply opt_none_of_forall
  intro m hm
  obtain ⟨kw', d', hk, _, hd, hs, _⟩ := matchSingle_some l m hm
  have h61 : (61 : UInt8) ∉ kw' := by
    simp only [kwSingle, List.mem_cons, List.not_mem_nil, or_false] at hk
    rcases hk with rfl | rfl | rfl | rfl | rfl | rfl | rfl | rfl | rfl | rfl <;> decide
  rw [hs, cut_append 61 _ _ h61] at hc
  simp only [Option.some.injEq, Prod.mk.injEq] at hc
  rw [hc.2] at hd
  exact all_not_mem isDigit d 44 hd (by decide) h44

theorem decLine_dual (O : Oracles) (pinned : Bool) (st : DecSt) (l : Bytes) (m : List Bytes)
    (hlit : literalMsg l = none) (h1 : l.head? ≠ some 123) (h2 : l.head? ≠ some 91)
    (h3 : matchCmd l = none) (h4 : matchGfx l = none) (h5 : matchSingle l = none) (hm : matchDual l = some m) :
    decLine O pinned st l = (match decDual m with
      | .ok (some msg) => .ok { st with out := st.out ++ [some msg] }
      | .ok none => .ok st
      | .error e => .error e) := by
  unfold decLine
  simp only [hlit, h3, h4, h5, hm, bind, Except.bind, pure, Except.pure]
  rw [if_neg h1, if_neg h2]
  cases decDual m with
  | error e => rfl
  | ok r => cases r <;> rfl

theorem sound_brightness2 (O : Oracles) (l v a b : Bytes) (x y : Nat) (hc : cut 61 l = some (asc "PanelBrightness", v))
    (hv : cut 44 v = some (a, b)) (ha : num? a = some x) (hb : num? b = some y) : LineSound O l := by
  intro pinned st
  obtain ⟨a1, a2, a3, a4⟩ := num_spec a x ha
  obtain ⟨b1, b2, b3, b4⟩ := num_spec b y hb
  obtain ⟨e, _⟩ := cut_some 61 l _ v hc
  obtain ⟨ev, _⟩ := cut_some 44 v a b hv
  have hh := head_kw (asc "PanelBrightness") (61 :: v) (by decide)
  rw [← e] at hh
  have hf : cut 35 (asc "PanelBrightness") = none := by decide
  have hm : matchDual l = some [l, asc "PanelBrightness", a, b] := by
    rw [e, ev]
    unfold matchDual
    rw [show asc "PanelBrightness" ++ 61 :: (a ++ 44 :: b) = asc "PanelBrightness=" ++ (a ++ 44 :: b) by
      rw [show asc "PanelBrightness=" = asc "PanelBrightness" ++ [61] by decide]; simp]
    rw [stripPrefix_append]
    simp only []
    unfold digits1
    rw [spanP_append isDigit a 44 b a2 (by decide)]
    simp only [a1, if_false, b1, b2, ne_eq, not_false_eq_true, and_self, if_true]
  refine ⟨[some (cmdOnly { panelBrightness := some (u32 (x : Int), u32 (y : Int)) })], ?_, ?_⟩
  · rw [decLine_dual O pinned st l _ (literal_none_plain l _ v hc (by decide)) hh.1 hh.2
      (matchCmd_none_plain l _ v hc hf) (matchGfx_none_plain l _ v hc hf)
      (matchSingle_none_of_comma l _ v hc (by rw [ev]; simp)) hm]
    simp only [decDual, sub, bind, Except.bind, pure, Except.pure, List.getElem?_cons_succ, List.getElem?_cons_zero]
    rw [if_pos trivial, num_atoiV a x ha, num_atoiV b y hb]
  · rw [flatMap_single_some, effects_cmdOnly]
    unfold lineEffects
    rw [readLine_plain O l _ v hh.1 hh.2 hc hf]
    simp only []
    unfold readPlain
    rw [if_neg (by decide), if_pos rfl]
    unfold readBrightness
    rw [hv]
    simp only [ha, hb]
    unfold effectsOfCmd
    simp only [flagE, opt, Bool.false_eq_true, if_false, List.append_nil, List.nil_append]
    rw [u32_cast x a4, u32_cast y b4]

theorem kwSingle_no61 (kw : Bytes) (hk : kw ∈ kwSingle) : (61 : UInt8) ∉ kw := by
  simp only [kwSingle, List.mem_cons, List.not_mem_nil, or_false] at hk
  rcases hk with rfl | rfl | rfl | rfl | rfl | rfl | rfl | rfl | rfl | rfl <;> decide

theorem matchSingle_none_key (l key v : Bytes) (hc : cut 61 l = some (key, v)) (hk : key ∉ kwSingle) : matchSingle l = none := by
  apply opt_none_of_forall
  intro m hm
  obtain ⟨kw', d', hk', _, _, hs, _⟩ := matchSingle_some l m hm
  rw [hs, cut_append 61 _ _ (kwSingle_no61 kw' hk')] at hc
  simp only [Option.some.injEq, Prod.mk.injEq] at hc
  rw [← hc.1] at hk
  exact hk hk'

theorem matchDual_none_key (l key v : Bytes) (hc : cut 61 l = some (key, v)) (hk : key ≠ asc "PanelBrightness") : matchDual l = none := by
  apply opt_none_of_forall
  intro m hm
  obtain ⟨a, b, _, _, _, _, hs, _⟩ := matchDual_some l m hm
  rw [hs, cut_append 61 _ _ (by decide)] at hc
  simp only [Option.some.injEq, Prod.mk.injEq] at hc
  exact hk hc.1.symm

theorem decLine_str (O : Oracles) (pinned : Bool) (st : DecSt) (l : Bytes) (m : List Bytes)
    (hlit : literalMsg l = none) (h1 : l.head? ≠ some 123) (h2 : l.head? ≠ some 91)
    (h3 : matchCmd l = none) (h4 : matchGfx l = none) (h5 : matchSingle l = none) (h6 : matchDual l = none)
    (hm : matchStr l = some m) :
    decLine O pinned st l = (match decStr O m with
      | .ok (some msg) => .ok { st with out := st.out ++ [some msg] }
      | .ok none => .ok st
      | .error e => .error e) := by
  unfold decLine
  simp only [hlit, h3, h4, h5, h6, hm, bind, Except.bind, pure, Except.pure]
  rw [if_neg h1, if_neg h2]
  cases decStr O m with
  | error e => rfl
  | ok r => cases r <;> rfl

theorem matchStr_hit (pre : List Bytes) (kw : Bytes) (post : List Bytes) (v : Bytes)
    (hk : kwStr = pre ++ kw :: post) (hpre : pre.all (fun p => mismatch p kw) = true) (hlf : noLF v = true) :
    matchStr (kw ++ 61 :: v) = some [kw ++ 61 :: v, kw, v] := by
  unfold matchStr
  rw [hk, firstKw_hit pre kw post _ hpre]
  simp only [hlf, if_true]

theorem noLF_of_contains (l key v : Bytes) (hc : cut 61 l = some (key, v)) (h : l.contains 10 = false) : noLF v = true := by
  obtain ⟨e, _⟩ := cut_some 61 l key v hc
  unfold noLF
  have : (10 : UInt8) ∉ l := by simpa using h
  have : (10 : UInt8) ∉ v := by intro hm; apply this; rw [e]; simp [hm]
  simp [this]

/-- a `key=text` line of the three string commands; `r` is what the decoder appends -/
theorem sound_of_str (O : Oracles) (l kw v : Bytes) (pre post : List Bytes) (r : Option InMsg)
    (hc : cut 61 l = some (kw, v)) (hf : cut 35 kw = none) (hka : kw ≠ asc "ActivePanel") (hk0 : keyHeadOk kw = true)
    (hks : kw ∉ kwSingle) (hkd : kw ≠ asc "PanelBrightness")
    (hk : kwStr = pre ++ kw :: post) (hpre : pre.all (fun p => mismatch p kw) = true) (hlf : l.contains 10 = false)
    (hdec : decStr O [l, kw, v] = .ok r) (heff : effectsOfMsgOpt r = readPlain O kw v) : LineSound O l := by
  intro pinned st
  obtain ⟨e, _⟩ := cut_some 61 l kw v hc
  have hh := head_kw kw (61 :: v) hk0
  rw [← e] at hh
  have hm := matchStr_hit pre kw post v hk hpre (noLF_of_contains l kw v hc hlf)
  rw [← e] at hm
  have hd := decLine_str O pinned st l _ (literal_none_plain l kw v hc hka) hh.1 hh.2
      (matchCmd_none_plain l kw v hc hf) (matchGfx_none_plain l kw v hc hf) (matchSingle_none_key l kw v hc hks)
      (matchDual_none_key l kw v hc hkd) hm
  rw [hdec] at hd
  cases r with
  | none =>
    refine ⟨[], by rw [hd]; simp, ?_⟩
    unfold lineEffects
    rw [readLine_plain O l kw v hh.1 hh.2 hc hf]
    simp only [effectsOfMsgOpt] at heff
    rw [← heff]; rfl
  | some msg =>
    refine ⟨[some msg], by rw [hd], ?_⟩
    unfold lineEffects
    rw [readLine_plain O l kw v hh.1 hh.2 hc hf, flatMap_single_some]
    exact heff

theorem sound_cal (O : Oracles) (l v : Bytes) (hc : cut 61 l = some (asc "SetCalibrationProfile", v))
    (hlf : l.contains 10 = false) (hnorm : normPayload v = v) : LineSound O l := by
  refine sound_of_str O l _ v [] [asc "SimulateEnvironmentalHealth", asc "SetNetworkConfig"]
    (some (cmdOnly { setCalibrationProfile := some v })) hc (by decide) (by decide) (by decide) (by decide) (by decide)
    (by decide) (by decide) hlf ?_ ?_
  · simp only [decStr, sub, bind, Except.bind, pure, Except.pure, List.getElem?_cons_succ, List.getElem?_cons_zero]
    rw [if_pos trivial]
  · simp only [effectsOfMsgOpt]
    rw [effects_cmdOnly]
    unfold readPlain
    rw [if_neg (by decide), if_neg (by decide), if_pos rfl]
    unfold effectsOfCmd
    simp only [flagE, opt, Bool.false_eq_true, if_false, List.append_nil, List.nil_append]
    rw [hnorm]

theorem sound_net (O : Oracles) (l v : Bytes) (hc : cut 61 l = some (asc "SetNetworkConfig", v))
    (hlf : l.contains 10 = false) : LineSound O l := by
  refine sound_of_str O l _ v [asc "SetCalibrationProfile", asc "SimulateEnvironmentalHealth"] []
    (some (cmdOnly { setNetworkConfig := O.parseNet v })) hc (by decide) (by decide) (by decide) (by decide) (by decide)
    (by decide) (by decide) hlf ?_ ?_
  · simp only [decStr, sub, bind, Except.bind, pure, Except.pure, List.getElem?_cons_succ, List.getElem?_cons_zero]
    rw [if_neg (by decide), if_pos trivial]
  · simp only [effectsOfMsgOpt]
    rw [effects_cmdOnly]
    unfold readPlain
    rw [if_neg (by decide), if_neg (by decide), if_neg (by decide), if_pos rfl]
    unfold effectsOfCmd
    simp only [flagE, Bool.false_eq_true, if_false, List.append_nil, List.nil_append]
    cases O.parseNet v <;> rfl

theorem sound_env (O : Oracles) (l v : Bytes) (hc : cut 61 l = some (asc "SimulateEnvironmentalHealth", v))
    (hlf : l.contains 10 = false) : LineSound O l := by
  have key : ∀ r, decStr O [l, asc "SimulateEnvironmentalHealth", v] = .ok r →
      effectsOfMsgOpt r = readPlain O (asc "SimulateEnvironmentalHealth") v → LineSound O l := fun r h1 h2 =>
    sound_of_str O l _ v [asc "SetCalibrationProfile"] [asc "SetNetworkConfig"] r hc (by decide) (by decide) (by decide)
      (by decide) (by decide) (by decide) (by decide) hlf h1 h2
  have hd : ∀ r : Option InMsg, (if v = asc "Normal" then Except.ok (some (cmdOnly { simulateEnvironmentalHealth := some 0 }))
      else if v = asc "Safemode" then Except.ok (some (cmdOnly { simulateEnvironmentalHealth := some 1 }))
      else if v = asc "Blocked" then Except.ok (some (cmdOnly { simulateEnvironmentalHealth := some 2 }))
      else (Except.ok none : Except Panic (Option InMsg))) = .ok r → decStr O [l, asc "SimulateEnvironmentalHealth", v] = .ok r := by
    intro r h
    simp only [decStr, sub, bind, Except.bind, pure, Except.pure, List.getElem?_cons_succ, List.getElem?_cons_zero]
    rw [if_neg (by decide), if_neg (by decide), if_pos trivial]
    exact h
  have hr : readPlain O (asc "SimulateEnvironmentalHealth") v = readEnv v := by
    unfold readPlain
    rw [if_neg (by decide), if_neg (by decide), if_neg (by decide), if_neg (by decide), if_pos rfl]
  have eff : ∀ k : Int, effectsOfCmd { simulateEnvironmentalHealth := some k } = envOf k := by
    intro k
    unfold effectsOfCmd
    simp only [flagE, opt, Bool.false_eq_true, if_false, List.append_nil, List.nil_append]
  by_cases h1 : v = asc "Normal"
  · refine key _ (hd _ (by rw [if_pos h1])) ?_
    simp only [effectsOfMsgOpt]
    rw [effects_cmdOnly, hr, eff, h1]; rfl
  · by_cases h2 : v = asc "Safemode"
    · refine key _ (hd _ (by rw [if_neg h1, if_pos h2])) ?_
      simp only [effectsOfMsgOpt]
      rw [effects_cmdOnly, hr, eff, h2]; rfl
    · by_cases h3 : v = asc "Blocked"
      · refine key _ (hd _ (by rw [if_neg h1, if_neg h2, if_pos h3])) ?_
        simp only [effectsOfMsgOpt]
        rw [effects_cmdOnly, hr, eff, h3]; rfl
      · refine key none (hd _ (by rw [if_neg h1, if_neg h2, if_neg h3])) ?_
        rw [hr]
        unfold readEnv
        rw [if_neg h1, if_neg h2, if_neg h3]
        rfl

/-! ### registers -/

theorem dropPrefix_some (p s r : Bytes) (h : dropPrefix p s = some r) : s = p ++ r := by
  induction p generalizing s with
  | nil => simp [dropPrefix] at h; subst h; rfl
  | cons c cs ih =>
    cases s with
    | nil => simp [dropPrefix] at h
    | cons d ds =>
      simp only [dropPrefix] at h
      split at h
      · rename_i e; subst e
        rw [ih ds h]; rfl
      · simp at h

theorem readRegKey_some (key id : Bytes) (k : RegKind) (h : readRegKey regWord key = some (k, id)) :
    id.all Spec.In.isUpperDigit = true ∧
    ((key = asc "Mem" ++ id ∧ k = .mem) ∨ (key = asc "Shift" ++ id ∧ k = .shift) ∨ (key = asc "State" ++ id ∧ k = .state)) := by
  unfold regWord at h
  unfold readRegKey at h
  cases h1 : dropPrefix (asc "Mem") key with
  | some id1 =>
    rw [h1] at h
    simp only [] at h
    by_cases hu : id1.all Spec.In.isUpperDigit = true
    · rw [if_pos hu] at h
      simp only [Option.some.injEq, Prod.mk.injEq] at h
      obtain ⟨rfl, rfl⟩ := h
      exact ⟨hu, Or.inl ⟨dropPrefix_some _ _ _ h1, rfl⟩⟩
    · exfalso
      rw [if_neg hu] at h
      -- key starts with "Mem": the other words cannot match
      have e := dropPrefix_some _ _ _ h1
      rw [e] at h
      unfold readRegKey at h
      have : dropPrefix (asc "Shift") (asc "Mem" ++ id1) = none := by
        rw [show asc "Mem" = [77, 101, 109] by decide, show asc "Shift" = [83, 104, 105, 102, 116] by decide]; simp [dropPrefix]
      rw [this] at h
      simp only [] at h
      unfold readRegKey at h
      have : dropPrefix (asc "State") (asc "Mem" ++ id1) = none := by
        rw [show asc "Mem" = [77, 101, 109] by decide, show asc "State" = [83, 116, 97, 116, 101] by decide]; simp [dropPrefix]
      rw [this] at h
      simp [readRegKey] at h
  | none =>
    rw [h1] at h
    simp only [] at h
    unfold readRegKey at h
    cases h2 : dropPrefix (asc "Shift") key with
    | some id2 =>
      rw [h2] at h
      simp only [] at h
      by_cases hu : id2.all Spec.In.isUpperDigit = true
      · rw [if_pos hu] at h
        simp only [Option.some.injEq, Prod.mk.injEq] at h
        obtain ⟨rfl, rfl⟩ := h
        exact ⟨hu, Or.inr (Or.inl ⟨dropPrefix_some _ _ _ h2, rfl⟩)⟩
      · exfalso
        rw [if_neg hu] at h
        have e := dropPrefix_some _ _ _ h2
        rw [e] at h
        unfold readRegKey at h
        have : dropPrefix (asc "State") (asc "Shift" ++ id2) = none := by
          rw [show asc "Shift" = [83, 104, 105, 102, 116] by decide, show asc "State" = [83, 116, 97, 116, 101] by decide]; simp [dropPrefix]
        rw [this] at h
        simp [readRegKey] at h
    | none =>
      rw [h2] at h
      simp only [] at h
      unfold readRegKey at h
      cases h3 : dropPrefix (asc "State") key with
      | some id3 =>
        rw [h3] at h
        simp only [] at h
        by_cases hu : id3.all Spec.In.isUpperDigit = true
        · rw [if_pos hu] at h
          simp only [Option.some.injEq, Prod.mk.injEq] at h
          obtain ⟨rfl, rfl⟩ := h
          exact ⟨hu, Or.inr (Or.inr ⟨dropPrefix_some _ _ _ h3, rfl⟩)⟩
        · rw [if_neg hu] at h
          simp [readRegKey] at h
      | none =>
        rw [h3] at h
        simp [readRegKey] at h

end RawPanelVerif.DecSound
