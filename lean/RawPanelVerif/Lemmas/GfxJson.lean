import RawPanelVerif.Lemmas.GfxSafeStream
import RawPanelVerif.Lemmas.GfxAgree
/-!
C05: the JSON hop of the serialised reader.  `json.Marshal` / `json.Unmarshal` replace every invalid UTF-8 byte of a
string by U+FFFD (`jsonFix`), so a held chunk line whose payload is not valid UTF-8 comes back *changed*.  This file
proves that the change is harmless: the groups 1–10 of a chunk line are ASCII and survive, the payload stays
undecodable base64 exactly when it was (a payload with a byte ≥ 0x80 never decodes, before or after), so the batch
decoder treats the rewritten line exactly as the original (`step_fix`), and therefore the serialised reader returns,
at every line of every history and from every serialised state, what the plain reader returns (`serial_stream`).
-/
namespace RawPanelVerif.Gfx
open RawPanelVerif

/-! ### `jsonFix`, rune by rune -/

def asciiB (s : Bytes) : Bool := s.all (fun c => c < 0x80)

theorem jsonFix_cons_ascii (c : UInt8) (r : Bytes) (h : c < 0x80) : jsonFix (c :: r) = c :: jsonFix r := by
  conv => lhs; unfold jsonFix
  simp only [h, if_true]

theorem two_lead (a b : UInt8) (h : utf8Two a b = true) : ¬ a < 0x80 := by
  simp only [utf8Two, Bool.and_eq_true, decide_eq_true_eq, UInt8.le_iff_toNat_le] at h
  have h1 := h.1.1
  simp only [UInt8.reduceToNat] at h1
  simp only [UInt8.lt_iff_toNat_lt, UInt8.reduceToNat]; omega

theorem three_lead (a b c : UInt8) (h : utf8Three a b c = true) : ¬ a < 0x80 ∧ ∀ x, utf8Two a x = false := by
  simp only [utf8Three, Bool.and_eq_true, decide_eq_true_eq, UInt8.le_iff_toNat_le] at h
  have h1 := h.1.1.1
  simp only [UInt8.reduceToNat] at h1
  refine ⟨?_, fun x => ?_⟩
  · simp only [UInt8.lt_iff_toNat_lt, UInt8.reduceToNat]; omega
  · simp only [utf8Two, Bool.and_eq_false_iff, decide_eq_false_iff_not, UInt8.le_iff_toNat_le, UInt8.reduceToNat]
    left; right; omega

theorem four_lead (a b c d : UInt8) (h : utf8Four a b c d = true) :
    ¬ a < 0x80 ∧ (∀ x, utf8Two a x = false) ∧ ∀ x y, utf8Three a x y = false := by
  simp only [utf8Four, Bool.and_eq_true, decide_eq_true_eq, UInt8.le_iff_toNat_le] at h
  have h1 := h.1.1.1.1
  simp only [UInt8.reduceToNat] at h1
  refine ⟨?_, fun x => ?_, fun x y => ?_⟩
  · simp only [UInt8.lt_iff_toNat_lt, UInt8.reduceToNat]; omega
  · simp only [utf8Two, Bool.and_eq_false_iff, decide_eq_false_iff_not, UInt8.le_iff_toNat_le, UInt8.reduceToNat]
    left; right; omega
  · simp only [utf8Three, Bool.and_eq_false_iff, decide_eq_false_iff_not, UInt8.le_iff_toNat_le, UInt8.reduceToNat]
    left; left; right; omega

theorem fix_two (a b : UInt8) (x : Bytes) (h : utf8Two a b = true) : jsonFix (a :: b :: x) = a :: b :: jsonFix x := by
  conv => lhs; unfold jsonFix
  simp only [two_lead a b h, if_false, h, if_true]

theorem fix_three (a b c : UInt8) (x : Bytes) (h : utf8Three a b c = true) :
    jsonFix (a :: b :: c :: x) = a :: b :: c :: jsonFix x := by
  obtain ⟨h1, h2⟩ := three_lead a b c h
  conv => lhs; unfold jsonFix
  simp only [h1, if_false, h2 b, Bool.false_eq_true, h, if_true]

theorem fix_four (a b c d : UInt8) (x : Bytes) (h : utf8Four a b c d = true) :
    jsonFix (a :: b :: c :: d :: x) = a :: b :: c :: d :: jsonFix x := by
  obtain ⟨h1, h2, h3⟩ := four_lead a b c d h
  conv => lhs; unfold jsonFix
  simp only [h1, if_false, h2 b, h3 b c, Bool.false_eq_true, h, if_true]

theorem fix_replacement (x : Bytes) : jsonFix (replacement ++ x) = replacement ++ jsonFix x :=
  fix_three 0xEF 0xBF 0xBD x (by decide)

theorem fix_bad1 (a : UInt8) (ha : ¬ a < 0x80) : jsonFix [a] = replacement ++ jsonFix [] := by
  conv => lhs; unfold jsonFix
  simp only [ha, if_false]

theorem fix_bad2 (a b : UInt8) (ha : ¬ a < 0x80) (h2 : ¬ utf8Two a b = true) :
    jsonFix [a, b] = replacement ++ jsonFix [b] := by
  conv => lhs; unfold jsonFix
  simp only [ha, if_false, h2, Bool.false_eq_true]

theorem fix_bad3 (a b c : UInt8) (ha : ¬ a < 0x80) (h2 : ¬ utf8Two a b = true) (h3 : ¬ utf8Three a b c = true) :
    jsonFix [a, b, c] = replacement ++ jsonFix [b, c] := by
  conv => lhs; unfold jsonFix
  simp only [ha, if_false, h2, h3, Bool.false_eq_true]

theorem fix_bad4 (a b c d : UInt8) (r3 : Bytes) (ha : ¬ a < 0x80) (h2 : ¬ utf8Two a b = true)
    (h3 : ¬ utf8Three a b c = true) (h4 : ¬ utf8Four a b c d = true) :
    jsonFix (a :: b :: c :: d :: r3) = replacement ++ jsonFix (b :: c :: d :: r3) := by
  conv => lhs; unfold jsonFix
  simp only [ha, if_false, h2, h3, h4, Bool.false_eq_true]

/-- one rune of `jsonFix`: the bytes consumed, what is written for them, and the rest -/
structure FixStep (a : UInt8) (r : Bytes) (consumed pre rest : Bytes) : Prop where
  split : a :: r = consumed ++ rest
  ne : consumed ≠ []
  eq : jsonFix (a :: r) = pre ++ jsonFix rest
  again : ∀ x, jsonFix (pre ++ x) = pre ++ jsonFix x
  what : pre = consumed ∨ pre = replacement
  ascii : a < 0x80 → consumed = [a] ∧ pre = [a]
  high : ¬ a < 0x80 → ∃ y t, pre = y :: t ∧ ¬ y < 0x80

theorem fixStep (a : UInt8) (r : Bytes) : ∃ consumed pre rest, FixStep a r consumed pre rest := by
  have rep : ∀ (ha : ¬ a < 0x80) (h : jsonFix (a :: r) = replacement ++ jsonFix r), ∃ consumed pre rest,
      FixStep a r consumed pre rest := fun ha h =>
    ⟨[a], replacement, r, rfl, by simp, h, fix_replacement, Or.inr rfl, fun h' => absurd h' ha,
      fun _ => ⟨0xEF, _, rfl, by decide⟩⟩
  by_cases ha : a < 0x80
  · exact ⟨[a], [a], r, rfl, by simp, jsonFix_cons_ascii a r ha, fun x => jsonFix_cons_ascii a x ha, Or.inl rfl,
      fun _ => ⟨rfl, rfl⟩, fun h => absurd ha h⟩
  · cases r with
    | nil => exact rep ha (fix_bad1 a ha)
    | cons b r1 =>
      by_cases h2 : utf8Two a b = true
      · exact ⟨[a, b], [a, b], r1, rfl, by simp, fix_two a b r1 h2, fun x => fix_two a b x h2, Or.inl rfl,
          fun h => absurd h ha, fun _ => ⟨a, _, rfl, ha⟩⟩
      · cases r1 with
        | nil => exact rep ha (fix_bad2 a b ha h2)
        | cons c r2 =>
          by_cases h3 : utf8Three a b c = true
          · exact ⟨[a, b, c], [a, b, c], r2, rfl, by simp, fix_three a b c r2 h3, fun x => fix_three a b c x h3,
              Or.inl rfl, fun h => absurd h ha, fun _ => ⟨a, _, rfl, ha⟩⟩
          · cases r2 with
            | nil => exact rep ha (fix_bad3 a b c ha h2 h3)
            | cons d r3 =>
              by_cases h4 : utf8Four a b c d = true
              · exact ⟨[a, b, c, d], [a, b, c, d], r3, rfl, by simp, fix_four a b c d r3 h4,
                  fun x => fix_four a b c d x h4, Or.inl rfl, fun h => absurd h ha, fun _ => ⟨a, _, rfl, ha⟩⟩
              · exact rep ha (fix_bad4 a b c d r3 ha h2 h3 h4)

/-! ### consequences, by induction on the length -/

theorem fix_induction (P : Bytes → Prop) (hnil : P [])
    (hstep : ∀ a r consumed pre rest, FixStep a r consumed pre rest → P rest → P (a :: r)) : ∀ s, P s := by
  intro s
  induction hn : s.length using Nat.strongRecOn generalizing s with
  | _ n ih =>
    cases s with
    | nil => exact hnil
    | cons a r =>
      obtain ⟨consumed, pre, rest, hs⟩ := fixStep a r
      apply hstep a r consumed pre rest hs
      have hlen : rest.length < (a :: r).length := by
        have h1 := congrArg List.length hs.split
        have h2 : 0 < consumed.length := List.length_pos_iff.mpr hs.ne
        simp only [List.length_append] at h1; omega
      exact ih rest.length (by omega) rest rfl

/-- idempotent: the output is valid UTF-8, which the hop leaves alone -/
theorem jsonFix_idem : ∀ s, jsonFix (jsonFix s) = jsonFix s :=
  fix_induction _ rfl (fun a r consumed pre rest hs ih => by rw [hs.eq, hs.again, ih])

theorem jsonFix_append_ascii (a : Bytes) (h : asciiB a = true) (b : Bytes) : jsonFix (a ++ b) = a ++ jsonFix b := by
  induction a with
  | nil => rfl
  | cons c cs ih =>
    simp only [asciiB, List.all_cons, Bool.and_eq_true, decide_eq_true_eq] at h
    rw [List.cons_append, jsonFix_cons_ascii c _ h.1, ih (by simpa [asciiB] using h.2)]
    rfl

theorem jsonFix_ascii (a : Bytes) (h : asciiB a = true) : jsonFix a = a := by
  have := jsonFix_append_ascii a h []
  simpa [jsonFix] using this

/-- a string with a byte ≥ 0x80 keeps one -/
theorem jsonFix_high : ∀ s, asciiB s = false → asciiB (jsonFix s) = false :=
  fix_induction _ (fun h => by simp [asciiB] at h) (fun a r consumed pre rest hs ih h => by
    rw [hs.eq]
    by_cases ha : a < 0x80
    · obtain ⟨hc, hp⟩ := hs.ascii ha
      have hr : rest = r := by
        have := hs.split; rw [hc] at this; simpa using this.symm
      subst hr
      rw [hp]
      simp only [asciiB, List.all_cons, ha, decide_true, Bool.true_and] at h
      simp only [asciiB, List.cons_append, List.nil_append, List.all_cons, ha, decide_true, Bool.true_and]
      exact ih h
    · obtain ⟨y, t, hp, hy⟩ := hs.high ha
      rw [hp]
      simp [asciiB, hy])

/-- every byte of the output is a byte of the input or one of EF BF BD -/
theorem mem_jsonFix : ∀ s, ∀ c ∈ jsonFix s, c ∈ s ∨ c ∈ replacement :=
  fix_induction _ (fun c hc => by simp [jsonFix] at hc) (fun a r consumed pre rest hs ih c hc => by
    rw [hs.eq, List.mem_append] at hc
    rcases hc with hc | hc
    · rcases hs.what with h | h
      · left; rw [hs.split, List.mem_append]; left; rw [← h]; exact hc
      · right; rw [← h]; exact hc
    · rcases ih c hc with h | h
      · left; rw [hs.split, List.mem_append]; right; exact h
      · right; exact h)

/-! ### base64 never decodes a text with a byte ≥ 0x80 -/

theorem decChar_ascii (c : UInt8) (v : Nat) (h : B64.decChar c = some v) : c < 0x80 := by
  unfold B64.decChar at h
  simp only [UInt8.lt_iff_toNat_lt, UInt8.reduceToNat]
  simp only [] at h
  repeat' split at h
  all_goals first | omega | exact absurd h (by simp)

theorem decodeCore_ok_ascii (t : Bytes) : (B64.decodeCore t).2 = true → asciiB t = true := by
  fun_induction B64.decodeCore t with
  | case1 => intro _; rfl
  | case2 c0 c1 c2 c3 rest s0 s1 h1 h0 s2 h2 s3 h3 r ih =>
    intro h
    have := ih h
    simp only [asciiB, List.all_cons, Bool.and_eq_true, decide_eq_true_eq] at this ⊢
    exact ⟨decChar_ascii c0 s0 h0, decChar_ascii c1 s1 h1, decChar_ascii c2 s2 h2, decChar_ascii c3 s3 h3, this⟩
  | case3 c0 c1 c2 rest s0 s1 h1 h0 s2 h2 h3 =>
    intro h
    simp only [List.isEmpty_iff] at h
    subst h
    simp only [asciiB, List.all_cons, List.all_nil, Bool.and_true, Bool.and_eq_true, decide_eq_true_eq]
    exact ⟨decChar_ascii c0 s0 h0, decChar_ascii c1 s1 h1, decChar_ascii c2 s2 h2, by decide⟩
  | case4 c0 c1 c2 c3 rest s0 s1 h1 h0 s2 h2 h3 hp => intro h; exact absurd h (by simp)
  | case5 c0 c1 c2 c3 rest s0 s1 h1 h0 h2 hp =>
    intro h
    simp only [List.isEmpty_iff] at h
    subst h
    obtain ⟨rfl, rfl⟩ := hp
    simp only [asciiB, List.all_cons, List.all_nil, Bool.and_true, Bool.and_eq_true, decide_eq_true_eq]
    exact ⟨decChar_ascii c0 s0 h0, decChar_ascii c1 s1 h1, by decide, by decide⟩
  | case6 c0 c1 c2 c3 rest s0 s1 h1 h0 h2 hp => intro h; exact absurd h (by simp)
  | case7 c0 c1 c2 c3 rest hn => intro h; exact absurd h (by simp)
  | case8 t h1 h2 => intro h; exact absurd h (by simp)

theorem asciiB_filter (s : Bytes) (p : UInt8 → Bool) (h : asciiB s = true) : asciiB (s.filter p) = true := by
  simp only [asciiB, List.all_eq_true, decide_eq_true_eq, List.mem_filter] at h ⊢
  exact fun c hc => h c hc.1

/-- a decodable payload is ASCII -/
theorem decodeGo_ok_ascii (s : Bytes) (h : (B64.decodeGo s).2 = true) : asciiB s = true := by
  have h1 := decodeCore_ok_ascii _ h
  simp only [asciiB, List.all_eq_true, decide_eq_true_eq, List.mem_filter] at h1 ⊢
  intro c hc
  by_cases hn : B64.isNewline c = true
  · simp only [B64.isNewline, Bool.or_eq_true, beq_iff_eq] at hn
    rcases hn with rfl | rfl <;> decide
  · exact h1 c ⟨hc, by simpa using hn⟩

/-- the hop does not change whether a payload decodes, nor — if it does — what it decodes to -/
theorem decodeGo_fix (s : Bytes) :
    (B64.decodeGo (jsonFix s)).2 = (B64.decodeGo s).2 ∧
      ((B64.decodeGo s).2 = true → (B64.decodeGo (jsonFix s)).1 = (B64.decodeGo s).1) := by
  by_cases ha : asciiB s = true
  · rw [jsonFix_ascii s ha]; exact ⟨rfl, fun _ => rfl⟩
  · have ha' : asciiB s = false := by simpa using ha
    have h1 : (B64.decodeGo s).2 = false := by
      cases h : (B64.decodeGo s).2 with
      | false => rfl
      | true => rw [decodeGo_ok_ascii s h] at ha'; exact absurd ha' (by simp)
    have h2 : (B64.decodeGo (jsonFix s)).2 = false := by
      cases h : (B64.decodeGo (jsonFix s)).2 with
      | false => rfl
      | true =>
        have := jsonFix_high s ha'
        rw [decodeGo_ok_ascii _ h] at this; exact absurd this (by simp)
    exact ⟨by rw [h1, h2], fun h => by rw [h1] at h; exact absurd h (by simp)⟩

/-! ### a chunk line through the hop -/

theorem asciiB_append (a b : Bytes) : asciiB (a ++ b) = (asciiB a && asciiB b) := by simp [asciiB, List.all_append]

theorem asciiB_cons (c : UInt8) (r : Bytes) : asciiB (c :: r) = (decide (c < 0x80) && asciiB r) := rfl

theorem ascii_of_all (p : UInt8 → Bool) (hp : ∀ c, p c = true → c < 0x80) (s : Bytes) (h : s.all p = true) :
    asciiB s = true := by
  simp only [asciiB, List.all_eq_true, decide_eq_true_eq] at h ⊢
  exact fun c hc => hp c (h c hc)

theorem isRhsChar_ascii (c : UInt8) (h : isRhsChar c = true) : c < 0x80 := by
  simp only [isRhsChar, isDigit, Bool.or_eq_true, Bool.and_eq_true, decide_eq_true_eq, beq_iff_eq] at h
  simp only [UInt8.lt_iff_toNat_lt, UInt8.le_iff_toNat_le, ← UInt8.toNat_inj, UInt8.reduceToNat] at h ⊢
  omega

theorem isIdChar_ascii (c : UInt8) (h : isIdChar c = true) : c < 0x80 := by
  simp only [isIdChar, isDigit, Bool.or_eq_true, Bool.and_eq_true, decide_eq_true_eq, beq_iff_eq] at h
  simp only [UInt8.lt_iff_toNat_lt, UInt8.le_iff_toNat_le, ← UInt8.toNat_inj, UInt8.reduceToNat] at h ⊢
  omega

theorem pfx_ascii (g1 : Bytes) (h : IsPfx g1) : asciiB g1 = true := by
  rcases h with rfl | rfl | rfl <;> decide

/-- the groups with another payload -/
def withPayload (m : Sub) (p : Bytes) : Sub := { m with g11 := p }

theorem rhsShape_payload (rhs : Bytes) (m : Sub) (p : Bytes) (h : RhsShape rhs m) : RhsShape rhs (withPayload m p) := by
  cases h
  · exact .simple _ _ _ p (by assumption)
  · exact .hdr3 _ _ _ _ _ _ p (by assumption) (by assumption) (by assumption) (by assumption)
  · exact .hdr5 _ _ _ _ _ _ _ _ p (by assumption) (by assumption) (by assumption) (by assumption) (by assumption)
      (by assumption)

theorem tailOK_fix (p : Bytes) (h : tailOK p = true) : tailOK (jsonFix p) = true := by
  unfold tailOK at h ⊢
  simp only [Bool.not_eq_true', List.contains_eq_mem, decide_eq_false_iff_not] at h ⊢
  intro hm
  rcases mem_jsonFix p 10 hm with h1 | h1
  · exact h h1
  · exact absurd h1 (by decide)

/-- a chunk line comes back from the hop as a chunk line with the same groups 1–10 and the rewritten payload -/
theorem matchGfx_fix (l : Bytes) (m : Sub) (h : matchGfx l = some m) :
    matchGfx (jsonFix l) = some (withPayload m (jsonFix m.g11)) := by
  obtain ⟨hp, hv, ht, rhs, hrhs, rfl⟩ := shape_of_match l m h
  apply match_of_shape
  refine ⟨hp, hv, tailOK_fix _ ht, rhs, rhsShape_payload rhs m _ hrhs, ?_⟩
  have e : m.g1 ++ (m.g2 ++ 61 :: (rhs ++ 58 :: m.g11)) = (m.g1 ++ (m.g2 ++ 61 :: (rhs ++ [58]))) ++ m.g11 := by
    simp [List.append_assoc]
  have ha : asciiB (m.g1 ++ (m.g2 ++ 61 :: (rhs ++ [58]))) = true := by
    simp only [asciiB_append, asciiB_cons, pfx_ascii _ hp, ascii_of_all _ isIdChar_ascii _ hv.2,
      ascii_of_all _ isRhsChar_ascii _ (RhsShape.chars rhs m hrhs), Bool.true_and, Bool.and_true]
    decide
  rw [e, jsonFix_append_ascii _ ha]
  simp [withPayload, List.append_assoc]

theorem stepP_data (s : BState) (p : Parsed) (d : Bytes) (h : p.ok = false) :
    Batch.stepP s { p with data := d } = Batch.stepP s p := by
  simp [Batch.stepP, resetIntake, h]

/-- the batch decoder treats the rewritten line exactly as the original -/
theorem step_fix (l : Bytes) (m : Sub) (h : matchGfx l = some m) (s : BState) :
    Batch.step s (jsonFix l) = Batch.step s l := by
  unfold Batch.step
  rw [matchGfx_fix l m h, h]
  simp only []
  obtain ⟨h1, h2⟩ := decodeGo_fix m.g11
  by_cases hok : (B64.decodeGo m.g11).2 = true
  · have : parsedOf (withPayload m (jsonFix m.g11)) = parsedOf m := by
      simp only [parsedOf, withPayload, h1, h2 hok]
      rfl
    rw [this]
  · have hok' : (B64.decodeGo m.g11).2 = false := by simpa using hok
    have : parsedOf (withPayload m (jsonFix m.g11)) =
        { parsedOf m with data := (B64.decodeGo (jsonFix m.g11)).1 } := by
      simp only [parsedOf, withPayload, h1]
      rfl
    rw [this]
    exact stepP_data s (parsedOf m) _ (by simp [parsedOf, hok'])

end RawPanelVerif.Gfx

namespace RawPanelVerif.Gfx

/-! ### the serialised reader simulates the plain reader -/

/-- two strings no ASCII text can tell apart: equal, or both with a byte ≥ 0x80 -/
def Eqv (a b : Bytes) : Prop := a = b ∨ (asciiB a = false ∧ asciiB b = false)

theorem Eqv.refl (a : Bytes) : Eqv a a := Or.inl rfl

theorem Eqv.trans {a b c : Bytes} (h1 : Eqv a b) (h2 : Eqv b c) : Eqv a c := by
  rcases h1 with rfl | ⟨ha, hb⟩
  · exact h2
  · rcases h2 with rfl | ⟨_, hc⟩
    · exact Or.inr ⟨ha, hb⟩
    · exact Or.inr ⟨ha, hc⟩

theorem eqv_fix (b : Bytes) : Eqv b (jsonFix b) := by
  by_cases h : asciiB b = true
  · left; exact (jsonFix_ascii b h).symm
  · have h' : asciiB b = false := by simpa using h
    exact Or.inr ⟨h', jsonFix_high b h'⟩

theorem eqv_ascii {a b : Bytes} (c : Bytes) (h : Eqv a b) (hc : asciiB c = true) : a = c ↔ b = c := by
  rcases h with rfl | ⟨ha, hb⟩
  · exact Iff.rfl
  · constructor
    · intro e; rw [e, hc] at ha; exact absurd ha (by simp)
    · intro e; rw [e, hc] at hb; exact absurd hb (by simp)

/-- two buffered lines the batch decoder cannot tell apart: the same line (a fixed point of the hop), or two chunk lines
on which every step of the decoder agrees -/
def LR (l l' : Bytes) : Prop :=
  (l = l' ∧ jsonFix l' = l') ∨
    ((matchGfx l).isSome = true ∧ (matchGfx l').isSome = true ∧ ∀ s, Batch.step s l' = Batch.step s l)

inductive LRs : List Bytes → List Bytes → Prop where
  | nil : LRs [] []
  | cons (l l' : Bytes) (a b : List Bytes) (h : LR l l') (t : LRs a b) : LRs (l :: a) (l' :: b)

theorem LR.step {l l' : Bytes} (h : LR l l') (s : BState) : Batch.step s l' = Batch.step s l := by
  rcases h with ⟨rfl, _⟩ | ⟨_, _, h⟩
  · rfl
  · exact h s

theorem LRs.snoc {a b : List Bytes} (h : LRs a b) (l l' : Bytes) (hl : LR l l') : LRs (a ++ [l]) (b ++ [l']) := by
  induction h with
  | nil => exact .cons l l' [] [] hl .nil
  | cons x x' a b hx _ ih => exact .cons x x' _ _ hx ih

theorem LRs.run {a b : List Bytes} (h : LRs a b) : ∀ (s : BState) (pos : Nat),
    Batch.runFrom Batch.step s pos b = Batch.runFrom Batch.step s pos a := by
  induction h with
  | nil => intro s pos; rfl
  | cons l l' a b hl _ ih =>
    intro s pos
    simp only [Batch.runFrom, hl.step s, ih]

theorem LRs.decode {a b : List Bytes} (h : LRs a b) : Batch.decode Batch.step b = Batch.decode Batch.step a := by
  unfold Batch.decode Batch.run
  rw [h.run]

theorem LR.fix {l l' : Bytes} (h : LR l l') : LR l (jsonFix l') := by
  rcases h with ⟨rfl, hf⟩ | ⟨h1, h2, h3⟩
  · exact Or.inl ⟨hf.symm, by rw [hf, hf]⟩
  · obtain ⟨m, hm⟩ := Option.isSome_iff_exists.mp h2
    refine Or.inr ⟨h1, by rw [matchGfx_fix l' m hm]; rfl, fun s => ?_⟩
    rw [step_fix l' m hm s, h3 s]

theorem LRs.fix {a b : List Bytes} (h : LRs a b) : LRs a (b.map jsonFix) := by
  induction h with
  | nil => exact .nil
  | cons l l' a b hl _ ih => exact .cons l _ a _ hl.fix ih

theorem LRs.refl_fixed : ∀ (a : List Bytes), (∀ l ∈ a, jsonFix l = l) → LRs a a
  | [], _ => .nil
  | l :: a, h => .cons l l a a (Or.inl ⟨rfl, h l (by simp)⟩) (LRs.refl_fixed a (fun x hx => h x (by simp [hx])))

inductive BufRel : Option (List Bytes) → Option (List Bytes) → Prop where
  | none : BufRel none none
  | some (a b : List Bytes) (h : LRs a b) : BufRel (some a) (some b)

theorem BufRel.getD {x y : Option (List Bytes)} (h : BufRel x y) : LRs (x.getD []) (y.getD []) := by
  cases h with
  | none => exact .nil
  | some a b h => exact h

/-- the plain reader's state `s` and the serialised reader's state `s'` (after any number of hops) -/
structure Sim (s s' : RState) : Prop where
  count : s'.count = s.count
  max : s'.max = s.max
  ty : Eqv s.ty s'.ty
  list : Eqv s.list s'.list
  buf : BufRel s.buf s'.buf

/-- what `json.Unmarshal(json.Marshal(reader))` gives back -/
def fixState (s : RState) : RState :=
  { s with ty := jsonFix s.ty, buf := s.buf.map (·.map jsonFix), list := jsonFix s.list }

theorem restore_serialise (s : RState) : restore (some (serialise s)) = fixState s := by
  simp only [restore, serialise, fixState, jsonFix_idem]
  congr 1
  cases s.buf with
  | none => rfl
  | some b => simp [List.map_map, Function.comp_def, jsonFix_idem]

theorem BufRel.fix {x y : Option (List Bytes)} (h : BufRel x y) : BufRel x (y.map (·.map jsonFix)) := by
  cases h with
  | none => exact .none
  | some a b hab => exact .some a _ hab.fix

theorem bufRel_none_right {y : Option (List Bytes)} (h : BufRel Option.none y) : y = Option.none := by
  cases h; rfl

theorem Sim.hop {s s' : RState} (h : Sim s s') : Sim s (fixState s') :=
  ⟨h.count, h.max, h.ty.trans (eqv_fix _), h.list.trans (eqv_fix _), h.buf.fix⟩

theorem sim_restore (w : Option Wire) : Sim (restore w) (restore w) := by
  refine ⟨rfl, rfl, Eqv.refl _, Eqv.refl _, ?_⟩
  cases w with
  | none => exact .none
  | some w =>
    simp only [restore]
    cases w.buf with
    | none => exact .none
    | some b =>
      refine .some _ _ (LRs.refl_fixed _ ?_)
      intro l hl
      obtain ⟨x, _, rfl⟩ := List.mem_map.mp hl
      exact jsonFix_idem x

theorem sim_initRule {s s' : RState} (h : Sim s s') : Sim s.initRule s'.initRule := by
  have e1 : s.list = [] ↔ s'.list = [] := eqv_ascii [] h.list rfl
  have e2 : s.ty = [] ↔ s'.ty = [] := eqv_ascii [] h.ty rfl
  unfold RState.initRule
  by_cases hc : s.list = [] ∧ s.ty = []
  · rw [if_pos hc, if_pos ⟨e1.mp hc.1, e2.mp hc.2⟩]
    exact ⟨rfl, h.max, h.ty, h.list, h.buf⟩
  · rw [if_neg hc, if_neg (fun hc' => hc ⟨e1.mpr hc'.1, e2.mpr hc'.2⟩)]
    exact h

theorem sim_cleared {s s' : RState} (h : Sim s s') : Sim s.cleared s'.cleared :=
  ⟨rfl, h.max, Eqv.refl _, Eqv.refl _, .none⟩

theorem sim_buffered {s s' : RState} (h : Sim s s') (line : Bytes) (hm : (matchGfx line).isSome = true) :
    Sim (buffered s line) (buffered s' line) := by
  refine ⟨by simp [buffered, h.count], h.max, h.ty, h.list, ?_⟩
  simp only [buffered]
  exact .some _ _ (h.buf.getD.snoc line line (Or.inr ⟨hm, hm, fun _ => rfl⟩))

/-- one `Parse` call on related states: the same messages, related states -/
theorem sim_parse {s s' : RState} (h : Sim s s') (l : Bytes) :
    (Stream.parse s' l).2 = (Stream.parse s l).2 ∧ Sim (Stream.parse s l).1 (Stream.parse s' l).1 := by
  have hi := sim_initRule h
  rw [parse_eq, parse_eq]
  rcases read_cases (trimSpace l) with ⟨hp, _⟩ | ⟨m, hm, hp, _⟩
  · rw [hp]; exact ⟨rfl, hi⟩
  · rw [hp]
    simp only []
    obtain ⟨hg1, _, hid, _⟩ := matchGfx_fields _ m hm
    have hpfx : asciiB (parsedOf m).pfx = true := pfx_ascii _ hg1
    have hlist : asciiB (parsedOf m).list = true := ascii_of_all _ isIdChar_ascii _ hid
    have hmatch : (matchGfx (trimSpace l)).isSome = true := by rw [hm]; rfl
    generalize parsedOf m = p at hpfx hlist ⊢
    generalize trimSpace l = line at hmatch ⊢
    -- the states after the optional "reset image intake"
    have ht : Sim (afterIntake s.initRule p) (afterIntake s'.initRule p) := by
      unfold afterIntake
      split
      · exact ⟨rfl, rfl, Eqv.refl _, Eqv.refl _, .some [] [] .nil⟩
      · exact hi
    generalize hts : afterIntake s.initRule p = t at ht
    generalize hts' : afterIntake s'.initRule p = t' at ht
    have c1 : (t.ty = p.pfx ∧ t.list = p.list) ↔ (t'.ty = p.pfx ∧ t'.list = p.list) := by
      rw [eqv_ascii _ ht.ty hpfx, eqv_ascii _ ht.list hlist]
    have c2 : p.idx = t.count + 1 ↔ p.idx = t'.count + 1 := by rw [ht.count]
    have c3 : p.idx = t.max ↔ p.idx = t'.max := by rw [ht.max]
    have k := parseP_cases s.initRule p line
    have k' := parseP_cases s'.initRule p line
    simp only [hts] at k
    simp only [hts'] at k'
    rcases k with ⟨hn, he⟩ | ⟨hc, hn, he⟩ | ⟨hc, ha, hnm, he⟩ | ⟨hc, ha, hm', he⟩
    · rcases k' with ⟨_, he'⟩ | ⟨hc', _⟩ | ⟨hc', _⟩ | ⟨hc', _⟩
      · rw [he, he']; exact ⟨rfl, ht⟩
      · exact absurd (c1.mpr hc') hn
      · exact absurd (c1.mpr hc') hn
      · exact absurd (c1.mpr hc') hn
    · rcases k' with ⟨hn', _⟩ | ⟨_, _, he'⟩ | ⟨_, ha', _⟩ | ⟨_, ha', _⟩
      · exact absurd (c1.mp hc) hn'
      · rw [he, he']; exact ⟨rfl, sim_cleared ht⟩
      · exact absurd (c2.mpr ha') hn
      · exact absurd (c2.mpr ha') hn
    · rcases k' with ⟨hn', _⟩ | ⟨_, hn', _⟩ | ⟨_, _, _, he'⟩ | ⟨_, _, hm'', _⟩
      · exact absurd (c1.mp hc) hn'
      · exact absurd (c2.mp ha) hn'
      · rw [he, he']; exact ⟨rfl, sim_buffered ht line hmatch⟩
      · exact absurd (c3.mpr hm'') hnm
    · rcases k' with ⟨hn', _⟩ | ⟨_, hn', _⟩ | ⟨_, _, hnm', _⟩ | ⟨_, _, _, he'⟩
      · exact absurd (c1.mp hc) hn'
      · exact absurd (c2.mp ha) hn'
      · exact absurd (c3.mp hm') hnm'
      · rw [he, he']
        refine ⟨?_, sim_cleared (sim_buffered ht line hmatch)⟩
        exact (ht.buf.getD.snoc line line (Or.inr ⟨hmatch, hmatch, fun _ => rfl⟩)).decode

/-- **the JSON hop is invisible**: from related states the serialised reader returns at every line what the plain
reader returns, and the states stay related -/
theorem serial_sim : ∀ (ls : List Bytes) (w : Option Wire) (s : RState) (pos : Nat), Sim s (restore w) →
    (Serial.runFrom Stream.parse w pos ls).2 = (Stream.runFrom Stream.parse s pos ls).2 ∧
      Sim (Stream.runFrom Stream.parse s pos ls).1 (restore (Serial.runFrom Stream.parse w pos ls).1) := by
  intro ls
  induction ls with
  | nil => intro w s pos h; exact ⟨rfl, h⟩
  | cons l ls ih =>
    intro w s pos h
    obtain ⟨ho, hs⟩ := sim_parse h l
    have hs' := hs.hop
    rw [← restore_serialise] at hs'
    obtain ⟨i1, i2⟩ := ih (some (serialise (Stream.parse (restore w) l).1)) (Stream.parse s l).1 (pos + 1) hs'
    simp only [Serial.runFrom, Stream.runFrom, cCall]
    exact ⟨by rw [i1, ho], i2⟩

/-- from any serialised state (any JSON document `w`, or none) -/
theorem serial_stream (ls : List Bytes) (w : Option Wire) (pos : Nat) :
    (Serial.runFrom Stream.parse w pos ls).2 = (Stream.runFrom Stream.parse (restore w) pos ls).2 ∧
      Sim (Stream.runFrom Stream.parse (restore w) pos ls).1 (restore (Serial.runFrom Stream.parse w pos ls).1) :=
  serial_sim ls w (restore w) pos (sim_restore w)

/-- a state related to the reset reader is the reset reader -/
theorem sim_rdone (n : Nat) (s' : RState) (h : Sim (rdone n) s') : s' = rdone n := by
  obtain ⟨h1, h2, h3, h4, h5⟩ := h
  have e3 : s'.ty = [] := ((eqv_ascii [] h3 rfl).mp rfl)
  have e4 : s'.list = [] := ((eqv_ascii [] h4 rfl).mp rfl)
  have e5 : s'.buf = none := bufRel_none_right h5
  cases s'
  simp only [rdone] at *
  simp [h1, h2, e3, e4, e5]

theorem serial_safe (lines : List Bytes) (hdom : Spec.Gfx.inDomainOn (lines.map readTrimmed) = true) :
    Spec.Gfx.safetyOn (lines.map readTrimmed) (delivsOfStream (Serial.run Stream.parse lines).2) = none := by
  have := (serial_stream lines none 0).1
  unfold Serial.run
  rw [this]
  exact stream_safe lines hdom

end RawPanelVerif.Gfx
