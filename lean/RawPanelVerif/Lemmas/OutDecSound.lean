import RawPanelVerif.Lemmas.OutDec
import RawPanelVerif.Lemmas.OutSound
/-! Lemmas for `decOut_sound` / `nongrammar_silent` (C04): inversion of the Spec reader, the decoder model on every well-formed shape. -/
namespace RawPanelVerif.OutLemmas
open RawPanelVerif RawPanelVerif.Bytes RawPanelVerif.MsgOut RawPanelVerif.EncOut RawPanelVerif.DecOut
open RawPanelVerif.Spec.Out

/-! ### inversion lemmas for the Spec reader's primitives -/

theorem stripPrefix_eq_dropPrefix (p s : Bytes) : stripPrefix p s = dropPrefix p s := by
  induction p generalizing s with
  | nil => cases s <;> rfl
  | cons a as ih =>
    cases s with
    | nil => rfl
    | cons c cs => simp only [stripPrefix, dropPrefix, ih]

theorem dropPrefix_some (p s r : Bytes) (h : dropPrefix p s = some r) : s = p ++ r := by
  induction p generalizing s with
  | nil => cases s <;> simp_all [dropPrefix]
  | cons a as ih =>
    cases s with
    | nil => simp [dropPrefix] at h
    | cons c cs =>
      simp only [dropPrefix] at h
      split at h
      · rename_i e; subst e; rw [ih cs h]; rfl
      · exact absurd h (by simp)

theorem splitOn_eq_two (sep : UInt8) (s a b : Bytes) (h : splitOn sep s = [a, b]) :
    s = a ++ sep :: b ∧ sep ∉ a ∧ sep ∉ b := by
  have hj := join_splitOn sep s
  rw [h] at hj
  refine ⟨by simpa [join] using hj.symm, ?_, ?_⟩
  · exact not_mem_of_mem_splitOn sep s a (by rw [h]; simp)
  · exact not_mem_of_mem_splitOn sep s b (by rw [h]; simp)

theorem splitOn_eq_one (sep : UInt8) (s a : Bytes) (h : splitOn sep s = [a]) : s = a ∧ sep ∉ a := by
  have hj := join_splitOn sep s
  rw [h] at hj
  exact ⟨by simpa [join] using hj.symm, not_mem_of_mem_splitOn sep s a (by rw [h]; simp)⟩

theorem splitFirst_some (sep : UInt8) (s k v : Bytes) (h : splitFirst sep s = some (k, v)) : s = k ++ sep :: v ∧ sep ∉ k := by
  induction s generalizing k with
  | nil => simp [splitFirst] at h
  | cons c cs ih =>
    simp only [splitFirst] at h
    split at h
    · rename_i e; injection h with h; injection h with h1 h2; subst h1 h2 e; simp
    · rename_i hne
      cases hs : splitFirst sep cs with
      | none => rw [hs] at h; simp at h
      | some p =>
        rw [hs] at h
        simp only [Option.map_some, Option.some.injEq, Prod.mk.injEq] at h
        obtain ⟨h1, h2⟩ := h
        obtain ⟨e, hn⟩ := ih p.1 (by rw [hs, ← h2])
        subst h1
        refine ⟨by rw [e]; rfl, ?_⟩
        intro hm; simp only [List.mem_cons] at hm
        rcases hm with hm | hm
        · exact hne hm.symm
        · exact hn hm

/-- `readInt` success: the text is `[-]digits` -/
theorem readInt_some (v : Bytes) (x : Int) (h : readInt v = some x) :
    (∃ d, v = 45 :: d ∧ IsNum d ∧ x = -(natOfDigits d : Int)) ∨ (IsNum v ∧ v.head? ≠ some 45 ∧ x = (natOfDigits v : Int)) := by
  unfold readInt at h
  split at h
  · rename_i d
    cases hr : readNum d with
    | none => rw [hr] at h; simp [bind, Option.bind] at h
    | some n =>
      rw [hr] at h
      obtain ⟨hn, e⟩ := readNum_some d n hr
      left; refine ⟨d, rfl, hn, ?_⟩
      simp [bind, Option.bind, pure] at h
      rw [← h, e]
  · rename_i d hnd
    cases hr : readNum v with
    | none => rw [hr] at h; simp [bind, Option.bind] at h
    | some n =>
      rw [hr] at h
      obtain ⟨hn, e⟩ := readNum_some v n hr
      right; refine ⟨hn, ?_, ?_⟩
      · intro hh
        cases v with
        | nil => simp at hh
        | cons c cs => simp at hh; subst hh; exact hnd cs rfl
      · simp [bind, Option.bind, pure] at h
        rw [← h, e]

/-- `Atoi("-" ++ digits)` without overflow -/
theorem atoiV_neg_digits (ds : Bytes) (hne : ds ≠ []) (hall : ds.all isDigit = true) (hle : (natOfDigits ds : Int) ≤ maxInt64) :
    atoiV (45 :: ds) = -(natOfDigits ds : Int) := by
  have hs : scanU 0 ds = .ok (natOfDigits ds) := by
    have := scanU_ok ds 0 hall (by
      have e : ds.foldl (fun acc b => 10 * acc + (b.toNat - 48)) 0 = natOfDigits ds := rfl
      rw [e]; unfold maxUint64; unfold maxInt64 at hle; omega)
    exact this
  unfold atoiV
  simp only []
  rw [if_neg hne, hs]
  unfold minInt64 maxInt64 at *
  simp only [if_true]
  split <;> omega

theorem intval_neg (ds : Bytes) (h : IsNum ds) : intval (45 :: ds) = -(natOfDigits ds : Int) := by
  unfold intval
  exact atoiV_neg_digits ds h.1 h.2.1 (by have := h.2.2; unfold u32Max at this; unfold maxInt64; omega)

theorem i32_id (x : Int) (h : inI32 x = true) : i32 x = x := by
  obtain ⟨h1, h2⟩ := inI32_range x h
  unfold i32; simp only []; split <;> omega

theorem u32_id (x : Int) (h0 : 0 ≤ x) (h1 : x ≤ 4294967295) : (u32 x : Int) = x := by
  unfold u32; omega

/-- effects of what one line decodes to -/
def D (o : OutOracle) (l : Bytes) : List Effect := (decLine repaired o l).toList.flatMap (effectsOfOut o)

theorem D_some (o : OutOracle) (l : Bytes) (m : OutMsg) (h : decLine repaired o l = some m) : D o l = effectsOfOut o m := by
  unfold D; rw [h]; simp

/-! ### flow words -/
theorem dec_flow (o : OutOracle) (l : Bytes) (h : l ∈ flowWords) : D o l = [.flow l] := by
  simp only [flowWords, List.mem_cons, List.not_mem_nil, or_false] at h
  rcases h with h | h | h | h | h | h <;> subst h
  · exact D_some o _ { flow := 1 } (by unfold decLine; rw [if_neg (by decide)]; rfl)
  · exact D_some o _ { flow := 2 } (by unfold decLine; rw [if_neg (by decide)]; rfl)
  · exact D_some o _ { flow := 3 } (by unfold decLine; rw [if_neg (by decide)]; rfl)
  · exact D_some o _ { flow := 4 } (by unfold decLine; rw [if_neg (by decide)]; rfl)
  · exact D_some o _ { flow := 5 } (by unfold decLine; rw [if_neg (by decide)]; rfl)
  · exact D_some o _ { flow := 100 } (by unfold decLine; rw [if_neg (by decide)]; rfl)

theorem flowOfWord_mem (l : Bytes) (f : Int) (h : flowOfWord l = some f) : l ∈ flowWords := by
  unfold flowOfWord at h
  repeat' split at h
  all_goals first | (rename_i e; subst e; decide) | exact absurd h (by simp)

theorem flowOfWord_none (l : Bytes) (h : l ∉ flowWords) : flowOfWord l = none := by
  cases hf : flowOfWord l with
  | none => rfl
  | some f => exact absurd (flowOfWord_mem l f hf) h

theorem kMap_lit : kMap = [109, 97, 112, 61] := by decide

theorem flowOfWord_map (r : Bytes) : flowOfWord (kMap ++ r) = none := by
  unfold flowOfWord
  rw [kMap_lit, asc_ping, asc_ack, asc_nack, asc_BSY, asc_RDY, asc_list]
  simp

theorem matchCmd_not_hwc (kinds : List Bytes) (l : Bytes) (h : dropPrefix (asc "HWC#") l = none) : matchCmd kinds l = none := by
  unfold matchCmd
  rw [stripPrefix_eq_dropPrefix]
  have : kHWC = asc "HWC#" := rfl
  rw [this, h]

theorem matchMap_not_map (l : Bytes) (h : dropPrefix (asc "map=") l = none) : matchMap l = none := by
  unfold matchMap
  rw [stripPrefix_eq_dropPrefix]
  have : kMap = asc "map=" := rfl
  rw [this, h]

theorem matchMap_line (k v : Bytes) (hk : IsNum k) (hv : IsNum v) : matchMap (kMap ++ (k ++ 58 :: v)) = some (k, v) := by
  unfold matchMap
  rw [stripPrefix_append]
  simp only []
  rw [spanP_digits k (58 :: v) hk.2.1 (by intro c cs e; injection e with e _; subst e; decide)]
  simp only []
  rw [if_pos ⟨hk.1, hv.1, hv.2.1⟩]

theorem flowEff0 : flowEff 0 = [] := by decide

theorem eff_map (o : OutOracle) (a b : Nat) : effectsOfOut o { avail := [(a, b)] } = [.mapEntry a b] := by
  unfold effectsOfOut
  simp only [flowEff0, optEff, List.flatMap_nil, List.append_nil, List.nil_append, List.map_cons, List.map_nil]

/-- map line -/
theorem dec_map (o : OutOracle) (rest : Bytes) (effs : List Effect) (h : readMap rest = .grammar effs) :
    D o (asc "map=" ++ rest) = effs := by
  unfold readMap at h
  split at h
  · rename_i k v hs
    obtain ⟨e, _, _⟩ := splitOn_eq_two 58 rest k v hs
    cases hk : readNum k with
    | none => rw [hk] at h; simp at h
    | some a =>
      cases hv : readNum v with
      | none => rw [hk, hv] at h; simp at h
      | some b =>
        rw [hk, hv] at h
        simp only [LineClass.grammar.injEq] at h
        obtain ⟨hkn, ea⟩ := readNum_some k a hk
        obtain ⟨hvn, eb⟩ := readNum_some v b hv
        subst e
        have hl : asc "map=" = kMap := rfl
        rw [hl, D_some o _ { avail := [(a, b)] } (by
          unfold decLine
          rw [if_neg (by rw [kMap_lit]; simp), flowOfWord_map]
          simp only []
          rw [matchCmd_not_hwc _ _ (by rw [← hl]; exact hwc_not_map _)]
          simp only []
          rw [matchMap_line k v hkn hvn]
          simp only [u32_num k hkn, u32_num v hvn, ← ea, ← eb]), eff_map, ← h]
  · exact absurd h (by simp)

theorem asc_Down : asc "Down" = [68, 111, 119, 110] := by decide
theorem asc_Up : asc "Up" = [85, 112] := by decide
theorem asc_Press : asc "Press" = [80, 114, 101, 115, 115] := by decide
theorem asc_Abs : asc "Abs" = [65, 98, 115] := by decide
theorem asc_Speed : asc "Speed" = [83, 112, 101, 101, 100] := by decide
theorem asc_Enc : asc "Enc" = [69, 110, 99] := by decide
theorem asc_Raw : asc "Raw" = [82, 97, 119] := by decide

theorem matchTail_value (k v : Bytes) (hk : k = asc "Enc" ∨ k = asc "Speed" ∨ k = asc "Abs" ∨ k = asc "Raw")
    (hne : v ≠ []) (hall : v.all isDashDigit = true) :
    matchTail kindsRepaired (k ++ 58 :: v) = some (k, 58 :: v, v) := by
  have hall' : ∀ x ∈ v, isDashDigit x = true := by simpa using hall
  rcases hk with h | h | h | h <;> subst h <;>
    simp [matchTail, kindsRepaired, asc_Down, asc_Up, asc_Press, asc_Abs, asc_Speed, asc_Enc, asc_Raw, stripPrefix, tailValue, hne] <;>
    first | exact hall' | (rw [List.findSome?_cons]; simp [stripPrefix, hne]; rw [if_pos hall'])

theorem isNum_dashDigit (d : Bytes) (h : IsNum d) : d.all isDashDigit = true := by
  have := h.2.1
  rw [List.all_eq_true] at this ⊢
  intro c hc; unfold isDashDigit; simp [this c hc]

theorem eff_events (o : OutOracle) (evs : List Event) : effectsOfOut o { events := evs } = evs.flatMap eventEff := by
  unfold effectsOfOut
  simp only [flowEff0, optEff, List.flatMap_nil, List.append_nil, List.nil_append, List.map_nil]

/-- inversion of `readIdEdge` -/
theorem readIdEdge_some (lhs : Bytes) (id : Nat) (edge : Option Nat) (h : readIdEdge lhs = some (id, edge)) :
    ∃ ids eo, IsNum ids ∧ id = natOfDigits ids ∧ EdgeOk eo ∧ lhs = ids ++ edgeText eo ∧
      edge = eo.map natOfDigits ∧ (edgeVal eo).toNat = edge.getD 0 ∧ 0 ≤ edgeVal eo := by
  unfold readIdEdge at h
  split at h
  · rename_i i hs
    obtain ⟨e, _⟩ := splitOn_eq_one 46 lhs i hs
    cases hr : readNum i with
    | none => rw [hr] at h; simp at h
    | some n =>
      rw [hr] at h
      simp only [Option.map_some, Option.some.injEq, Prod.mk.injEq] at h
      obtain ⟨hn, en⟩ := readNum_some i n hr
      refine ⟨i, none, hn, by rw [← h.1, en], trivial, by simp [edgeText, e], by simp [← h.2], by simp [edgeVal, ← h.2], by simp [edgeVal]⟩
  · rename_i i ed hs
    obtain ⟨e, _, _⟩ := splitOn_eq_two 46 lhs i ed hs
    cases hr : readNum i with
    | none => rw [hr] at h; simp at h
    | some n =>
      cases hre : readNum ed with
      | none => rw [hr, hre] at h; simp at h
      | some m =>
        rw [hr, hre] at h
        simp only [] at h
        split at h
        · rename_i hmem
          simp only [Option.some.injEq, Prod.mk.injEq] at h
          obtain ⟨hn, en⟩ := readNum_some i n hr
          obtain ⟨hm, em⟩ := readNum_some ed m hre
          have hlt : natOfDigits ed < 2147483648 := by
            rw [← em]; unfold edgeValues at hmem
            simp only [List.mem_cons, List.not_mem_nil, or_false] at hmem; omega
          refine ⟨i, some ed, hn, by rw [← h.1, en], ⟨hm, hlt⟩, by simp [edgeText, e], by simp [← h.2, em], ?_, ?_⟩
          · simp [edgeVal, ← h.2, em]
          · simp [edgeVal]
        · exact absurd h (by simp)
  · exact absurd h (by simp)

theorem eff_binEv (id : Nat) (p : Bool) (e : Int) : eventEff (binEv id p e) = [.event .binary id e.toNat p 0] := by
  simp [eventEff, binEv, optEff]

theorem intval_readInt (v : Bytes) (x : Int) (h : readInt v = some x) : intval v = x ∧ v ≠ [] ∧ v.all isDashDigit = true := by
  rcases readInt_some v x h with ⟨d, e, hd, ex⟩ | ⟨hv, _, ex⟩
  · subst e
    refine ⟨by rw [intval_neg d hd, ex], by simp, ?_⟩
    simp only [List.all_cons, Bool.and_eq_true]
    exact ⟨by decide, isNum_dashDigit d hd⟩
  · exact ⟨by rw [intval_num v hv, ex], hv.1, isNum_dashDigit v hv⟩

/-- the digits of an optional edge suffix (sub-match 3) -/
def edgeDigits : Option Bytes → Bytes | none => [] | some e => e

/-- `HWC#id[.edge]=Kind:value` for the four value-carrying kinds: the event regex matches, sub-match 3 = the edge digits -/
theorem decLine_value (o : OutOracle) (ids : Bytes) (eo : Option Bytes) (k v : Bytes) (hid : IsNum ids) (heo : EdgeOk eo)
    (hk : k = asc "Enc" ∨ k = asc "Speed" ∨ k = asc "Abs" ∨ k = asc "Raw") (hne : v ≠ []) (hall : v.all isDashDigit = true) :
    decLine repaired o (kHWC ++ (ids ++ edgeText eo ++ 61 :: (k ++ 58 :: v))) = decEvent ids (edgeDigits eo) k v := by
  cases eo with
  | none =>
    have := matchCmd_plain kindsRepaired ids (k ++ 58 :: v) hid k (58 :: v) v (matchTail_value k v hk hne hall)
    rw [List.append_assoc] at this
    simp only [edgeText, List.append_nil, edgeDigits]
    exact decLine_hwc repaired o _ _ this
  | some e =>
    have := matchCmd_edge kindsRepaired ids e (k ++ 58 :: v) hid heo.1 k (58 :: v) v (matchTail_value k v hk hne hall)
    rw [List.append_assoc] at this
    simp only [edgeText, edgeDigits, List.append_assoc, List.cons_append]
    exact decLine_hwc repaired o _ _ this

/-- the value-carrying kinds ignore the edge sub-match, whatever it is -/
theorem decEvent_enc (ids e v : Bytes) : decEvent ids e (asc "Enc") v =
    some { events := [{ hwcid := u32 (intval ids), pulsed := some (i32 (intval v)) }] } := by
  unfold decEvent; simp only []
  rw [if_neg (by decide), if_neg (by decide)]
  first | exact if_pos rfl | exact if_pos trivial
theorem decEvent_abs (ids e v : Bytes) : decEvent ids e (asc "Abs") v =
    some { events := [{ hwcid := u32 (intval ids), absolute := some (u32 (intval v)) }] } := by
  unfold decEvent; simp only []
  rw [if_neg (by decide), if_neg (by decide), if_neg (by decide)]
  first | exact if_pos rfl | exact if_pos trivial
theorem decEvent_speed (ids e v : Bytes) : decEvent ids e (asc "Speed") v =
    some { events := [{ hwcid := u32 (intval ids), speed := some (i32 (intval v)) }] } := by
  unfold decEvent; simp only []
  rw [if_neg (by decide), if_neg (by decide), if_neg (by decide), if_neg (by decide)]
  first | exact if_pos rfl | exact if_pos trivial
theorem decEvent_raw (ids e v : Bytes) : decEvent ids e (asc "Raw") v =
    some { events := [{ hwcid := u32 (intval ids), rawAnalog := some (u32 (intval v)) }] } := by
  unfold decEvent; simp only []
  rw [if_neg (by decide), if_neg (by decide), if_neg (by decide), if_neg (by decide), if_neg (by decide)]
  first | exact if_pos rfl | exact if_pos trivial

/-- event lines: whatever the reader accepts, the decoder decodes to the same event(s) -/
theorem dec_event (o : OutOracle) (rest : Bytes) (effs : List Effect) (h : readEvent rest = .grammar effs) :
    D o (asc "HWC#" ++ rest) = effs := by
  have hl : asc "HWC#" = kHWC := rfl
  unfold readEvent at h
  split at h
  · rename_i lhs rhs hs
    obtain ⟨e, _, _⟩ := splitOn_eq_two 61 rest lhs rhs hs
    by_cases hkw : kindOf rhs ∉ kindWords
    · rw [if_pos hkw] at h; exact absurd h (by simp)
    rw [if_neg hkw] at h
    cases hie : readIdEdge lhs with
    | none => rw [hie] at h; simp at h
    | some ie =>
      obtain ⟨id, edge⟩ := ie
      rw [hie] at h
      simp only [] at h
      obtain ⟨ids, eo, hid, eid, heo, elhs, eedge, etoNat, _⟩ := readIdEdge_some lhs id edge hie
      subst e elhs
      by_cases hD : rhs = asc "Down"
      · rw [if_pos hD] at h
        simp only [LineClass.grammar.injEq] at h
        subst hD
        rw [hl, ← List.append_assoc, ← List.append_assoc, D_some o _ _ (decLine_binary o ids hid eo heo _ (Or.inl rfl)),
          eff_events, ← h, eid, ← etoNat]
        have e1 : ¬ (asc "Down" = asc "Press") := by decide
        have e2 : (asc "Down" == asc "Down") = true := by decide
        rw [if_neg e1, e2]
        simp [eff_binEv]
      rw [if_neg hD] at h
      by_cases hU : rhs = asc "Up"
      · rw [if_pos hU] at h
        simp only [LineClass.grammar.injEq] at h
        subst hU
        rw [hl, ← List.append_assoc, ← List.append_assoc, D_some o _ _ (decLine_binary o ids hid eo heo _ (Or.inr (Or.inl rfl))),
          eff_events, ← h, eid, ← etoNat]
        have e1 : ¬ (asc "Up" = asc "Press") := by decide
        have e2 : (asc "Up" == asc "Down") = false := by decide
        rw [if_neg e1, e2]
        simp [eff_binEv]
      rw [if_neg hU] at h
      by_cases hP : rhs = asc "Press"
      · rw [if_pos hP] at h
        simp only [LineClass.grammar.injEq] at h
        subst hP
        rw [hl, ← List.append_assoc, ← List.append_assoc, D_some o _ _ (decLine_binary o ids hid eo heo _ (Or.inr (Or.inr rfl))),
          eff_events, ← h, eid, ← etoNat]
        rw [if_pos rfl]
        simp [eff_binEv]
      rw [if_neg hP] at h
      split at h
      · rename_i k v hs2
        obtain ⟨e2, _, _⟩ := splitOn_eq_two 58 rhs k v hs2
        subst e2
        cases hri : readInt v with
        | none => rw [hri] at h; simp at h
        | some x =>
          rw [hri] at h
          simp only [] at h
          obtain ⟨eiv, hne, hall⟩ := intval_readInt v x hri
          by_cases hE : k = asc "Enc"
          · rw [if_pos hE] at h
            split at h
            · rename_i hr
              simp only [LineClass.grammar.injEq] at h
              subst hE
              rw [hl, D_some o _ _ (by rw [decLine_value o ids eo _ v hid heo (Or.inl rfl) hne hall, decEvent_enc]),
                eff_events, ← h, u32_num ids hid, eiv, i32_id x hr, eid]
              simp [eventEff, optEff]
            · exact absurd h (by simp)
          rw [if_neg hE] at h
          by_cases hS : k = asc "Speed"
          · rw [if_pos hS] at h
            split at h
            · rename_i hr
              simp only [LineClass.grammar.injEq] at h
              subst hS
              rw [hl, D_some o _ _ (by rw [decLine_value o ids eo _ v hid heo (Or.inr (Or.inl rfl)) hne hall, decEvent_speed]),
                eff_events, ← h, u32_num ids hid, eiv, i32_id x hr, eid]
              simp [eventEff, optEff]
            · exact absurd h (by simp)
          rw [if_neg hS] at h
          have hnat : ∀ (hc : 0 ≤ x ∧ v.head? ≠ some 45), (u32 (intval v) : Int) = x := by
            intro hc
            rcases readInt_some v x hri with ⟨d, e, _, _⟩ | ⟨hv, _, ex⟩
            · subst e; exact absurd rfl hc.2
            · rw [u32_num v hv, ex]
          by_cases hA : k = asc "Abs"
          · rw [if_pos hA] at h
            split at h
            · rename_i hc
              simp only [LineClass.grammar.injEq] at h
              subst hA
              rw [hl, D_some o _ _ (by rw [decLine_value o ids eo _ v hid heo (Or.inr (Or.inr (Or.inl rfl))) hne hall, decEvent_abs]),
                eff_events, ← h, u32_num ids hid, eid]
              simp [eventEff, optEff, hnat hc]
            · exact absurd h (by simp)
          rw [if_neg hA] at h
          by_cases hR : k = asc "Raw"
          · rw [if_pos hR] at h
            split at h
            · rename_i hc
              simp only [LineClass.grammar.injEq] at h
              subst hR
              rw [hl, D_some o _ _ (by rw [decLine_value o ids eo _ v hid heo (Or.inr (Or.inr (Or.inr rfl))) hne hall, decEvent_raw]),
                eff_events, ← h, u32_num ids hid, eid]
              simp [eventEff, optEff, hnat hc]
            · exact absurd h (by simp)
          rw [if_neg hR] at h
          exact absurd h (by simp)
      · exact absurd h (by simp)
  · exact absurd h (by simp)

/-! ### SysStat: the sliding scan on a well-formed line = one assignment per pair -/

/-- characters a well-formed SysStat value can consist of -/
def valChar (b : UInt8) : Bool := isDigit b || b = 45 || b = 43 || b = 46 || b = 101 || b = 69

theorem sysKeys_not_val : ∀ k ∈ sysKeys, k.all valChar = false := by decide

theorem sysAssign_nokey (o : OutOracle) (k v : Bytes) (st : SysStat) (h : k ∉ sysKeys) : sysAssign o k v st = st := by
  have hk : ∀ K ∈ sysKeys, k ≠ K := fun K hK e => h (e ▸ hK)
  unfold sysAssign
  simp only [sysKeys, List.mem_cons, List.not_mem_nil, or_false, forall_eq_or_imp, forall_eq] at hk
  obtain ⟨h1, h2, h3, h4, h5, h6, h7, h8, h9, h10, h11, h12, h13, h14, h15, h16, h17, h18, h19, h20⟩ := hk
  rw [if_neg h1, if_neg h2, if_neg h3, if_neg h4, if_neg h5, if_neg h6, if_neg h7, if_neg h8, if_neg h9, if_neg h10,
    if_neg h11, if_neg h12, if_neg h13, if_neg h14, if_neg h15, if_neg h16, if_neg h17, if_neg h18, if_neg h19, if_neg h20]

theorem val_not_key (v : Bytes) (h : v.all valChar = true) : v ∉ sysKeys := by
  intro hm
  have := sysKeys_not_val v hm
  rw [h] at this; exact absurd this (by decide)

/-- the value part of a pair the Spec accepts consists of value characters -/
theorem readSysVal_valChars (o : OutOracle) (k v : Bytes) (x : Val) (h : readSysVal o k v = some x) : v.all valChar = true := by
  unfold readSysVal at h
  split at h
  · cases hr : readNum v with
    | none => rw [hr] at h; simp at h
    | some n =>
      obtain ⟨hn, _⟩ := readNum_some v n hr
      have := hn.2.1
      rw [List.all_eq_true] at this ⊢
      intro c hc; unfold valChar; simp [this c hc]
  · split at h
    · split at h
      · rename_i hf
        unfold floatTextOk at hf
        simp only [Bool.and_eq_true] at hf
        exact hf.2
      · exact absurd h (by simp)
    · split at h
      · cases hr : readInt v with
        | none => rw [hr] at h; simp at h
        | some y =>
          obtain ⟨_, _, hall⟩ := intval_readInt v y hr
          rw [List.all_eq_true] at hall ⊢
          intro c hc
          have := hall c hc
          unfold isDashDigit at this
          unfold valChar
          simp only [Bool.or_eq_true, decide_eq_true_eq] at this ⊢
          rcases this with h | h
          · exact Or.inl (Or.inl (Or.inl (Or.inl (Or.inr h))))
          · exact Or.inl (Or.inl (Or.inl (Or.inl (Or.inl h))))
      · split at h
        · split at h
          · rename_i e; subst e; decide
          · split at h
            · rename_i e; subst e; decide
            · exact absurd h (by simp)
        · exact absurd h (by simp)

/-- `pairUp` success: the parts are the flattened pairs, optionally followed by one empty part -/
theorem pairUp_some (l : List Bytes) (ps : List (Bytes × Bytes)) (h : pairUp l = some ps) :
    l = ps.flatMap (fun kv => [kv.1, kv.2]) ∨ l = ps.flatMap (fun kv => [kv.1, kv.2]) ++ [[]] := by
  induction ps generalizing l with
  | nil =>
    match l, h with
    | [], _ => left; rfl
    | [x], h =>
      simp only [pairUp] at h
      split at h
      · rename_i e; subst e; right; rfl
      · exact absurd h (by simp)
    | k :: v :: r, h =>
      simp only [pairUp] at h
      cases hp : pairUp r with
      | none => rw [hp] at h; simp at h
      | some q => rw [hp] at h; simp at h
  | cons kv rest ih =>
    match l, h with
    | [], h => simp [pairUp] at h
    | [x], h =>
      simp only [pairUp] at h
      split at h <;> simp at h
    | k :: v :: r, h =>
      simp only [pairUp] at h
      cases hp : pairUp r with
      | none => rw [hp] at h; simp at h
      | some q =>
        rw [hp] at h
        simp only [Option.map_some, Option.some.injEq, List.cons.injEq] at h
        obtain ⟨e1, e2⟩ := h
        subst e1 e2
        rcases ih r hp with e | e
        · left; rw [e]; rfl
        · right; rw [e]; rfl

/-- the sliding scan (`a++`) over the parts of a well-formed line = one assignment per key/value pair -/
theorem sysScan_pairs (o : OutOracle) (ps : List (Bytes × Bytes)) (tail : List Bytes) (st : SysStat)
    (hv : ∀ kv ∈ ps, kv.2.all valChar = true) (ht : tail = [] ∨ tail = [[]]) :
    sysScan o (ps.flatMap (fun kv => [kv.1, kv.2]) ++ tail) st = ps.foldl (fun st kv => sysAssign o kv.1 kv.2 st) st := by
  induction ps generalizing st with
  | nil => rcases ht with e | e <;> subst e <;> rfl
  | cons kv rest ih =>
    have hvk : kv.2 ∉ sysKeys := val_not_key _ (hv kv (by simp))
    have ih' := ih (sysAssign o kv.1 kv.2 st) (fun x hx => hv x (by simp [hx]))
    simp only [List.flatMap_cons, List.cons_append, List.nil_append, List.foldl_cons]
    rw [sysScan]
    -- the window (value, next key): the value is not a key
    cases hr : (rest.flatMap (fun kv => [kv.1, kv.2]) ++ tail) with
    | nil =>
      rw [hr] at ih'
      rw [← ih']; rfl
    | cons nk more =>
      rw [hr] at ih'
      rw [sysScan, sysAssign_nokey o kv.2 nk _ hvk, ih']

end RawPanelVerif.OutLemmas
