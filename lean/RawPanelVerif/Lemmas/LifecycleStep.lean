import RawPanelVerif.Model.Lifecycle
/-! Inversion lemmas for `Lifecycle.step`: what a successful step of each label says about the two states. -/
namespace RawPanelVerif.Lifecycle

theorem step_cancel {ae s s'} (h : step ae s .cancel = some s') : s' = { s with cancelled := true } := by
  simp [step] at h; exact h.symm

theorem step_offer {ae s s'} (h : step ae s .offer = some s') : s' = { s with offered := s.offered + 1 } := by
  simp [step] at h; exact h.symm

theorem step_consumerStop {ae s s'} (h : step ae s .consumerStop = some s') : s' = { s with consumer := false } := by
  simp [step] at h; exact h.symm

theorem step_consumerResume {ae s s'} (h : step ae s .consumerResume = some s') : s' = { s with consumer := true } := by
  simp [step] at h; exact h.symm

theorem step_tick {ae s s' d} (h : step ae s (.tick d) = some s') : s' = { s with now := s.now + d } := by
  simp [step] at h; exact h.symm

theorem step_dialOk {ae s s' bin} (h : step ae s (.dialOk bin) = some s') :
    s.phase = .dialing ∧ s' = { s with phase := .probing, conns := { binary := bin } :: s.conns, log := .dial :: s.log,
                                       stamps := s.now :: s.stamps } := by
  simp [step] at h; exact ⟨h.1, h.2.symm⟩

theorem step_dialFail {ae s s'} (h : step ae s .dialFail = some s') :
    s.phase = .dialing ∧ s' = { s with phase := .noConnWait, wake := s.now + s.nc } := by
  simp [step] at h; exact ⟨h.1, h.2.symm⟩

theorem step_noConnTimer {ae s s'} (h : step ae s .noConnTimer = some s') :
    s.phase = .noConnWait ∧ s.wake ≤ s.now ∧ s' = { s with phase := .dialing } := by
  simp [step] at h; exact ⟨h.1.1, h.1.2, h.2.symm⟩

theorem step_noConnDrain {ae s s'} (h : step ae s .noConnDrain = some s') :
    s.phase = .noConnWait ∧ 0 < s.offered ∧ s' = { s with phase := .dialing, offered := s.offered - 1 } := by
  simp [step] at h; exact ⟨h.1.1, h.1.2, h.2.symm⟩

theorem step_onConnect {ae s s'} (h : step ae s .onConnect = some s') :
    s.phase = .announcing ∧ s' = { s with phase := .connected, log := .connect :: s.log, stamps := s.now :: s.stamps } := by
  simp [step] at h; exact ⟨h.1, h.2.symm⟩

theorem step_sleepDone {ae s s'} (h : step ae s .sleepDone = some s') :
    s.phase = .retrySleep ∧ s.wake ≤ s.now ∧
      s' = { s with phase := .dialing, log := .sleepDone :: s.log, stamps := s.now :: s.stamps } := by
  simp [step] at h; exact ⟨h.1.1, h.1.2, h.2.symm⟩

theorem step_ret {ae s s'} (h : step ae s .ret = some s') :
    (s.phase = .exiting ∨ (s.phase = .noConnWait ∧ s.cancelled = true)) ∧
      s' = { s with phase := .returned, wg := s.wg - 1, log := .returned :: s.log, stamps := s.now :: s.stamps } := by
  simp [step] at h; exact ⟨h.1, h.2.symm⟩

theorem step_peerClose {ae s s'} (h : step ae s .peerClose = some s') :
    ∃ c rest, s.conns = c :: rest ∧ c.peerClosed = false ∧
      s' = { s with conns := { c with peerClosed := true } :: rest } := by
  simp only [step] at h
  split at h
  · rename_i c rest hc
    split at h
    · simp at h
    · rename_i hp
      simp at h; exact ⟨c, rest, hc, by simpa using hp, h.symm⟩
  · simp at h

theorem step_byteArrive {ae s s' fin} (h : step ae s (.byteArrive fin) = some s') :
    ∃ c rest, s.conns = c :: rest ∧ (s.phase = .announcing ∨ s.phase = .connected) ∧ c.peerClosed = false ∧
      s' = { s with conns := { c with rx := fin :: c.rx } :: rest } := by
  simp only [step] at h
  split at h
  · rename_i c rest hc
    split at h
    · rename_i hg
      simp at h; exact ⟨c, rest, hc, hg.1, hg.2, h.symm⟩
    · simp at h
  · simp at h

theorem step_spawnWriter {ae s s'} (h : step ae s .spawnWriter = some s') :
    ∃ c rest, s.conns = c :: rest ∧ s.phase = .probing ∧
      s' = { s with phase := .announcing, conns := { c with w := .spawned } :: rest,
                    wg := if ae then s.wg + 1 else s.wg } := by
  simp only [step] at h
  split at h
  · rename_i c rest hc
    split at h
    · rename_i hg
      simp at h; exact ⟨c, rest, hc, hg, h.symm⟩
    · simp at h
  · simp at h

theorem step_takeFrame {ae s s'} (h : step ae s .takeFrame = some s') :
    ∃ c rest, s.conns = c :: rest ∧ s.phase = .connected ∧ c.held = false ∧ c.delivered < c.arrived ∧ c.closed = false ∧
      s' = { s with conns := { c with held := true } :: rest } := by
  simp only [step] at h
  split at h
  · rename_i c rest hc
    split at h
    · rename_i hg
      simp at h; exact ⟨c, rest, hc, hg.1, hg.2.1, hg.2.2.1, hg.2.2.2, h.symm⟩
    · simp at h
  · simp at h

theorem step_deliver {ae s s'} (h : step ae s .deliver = some s') :
    ∃ c rest, s.conns = c :: rest ∧ s.phase = .connected ∧ c.held = true ∧ s.consumer = true ∧
      s' = { s with conns := { c with held := false, delivered := c.delivered + 1 } :: rest,
                    log := .deliver rest.length c.delivered :: s.log, stamps := s.now :: s.stamps } := by
  simp only [step] at h
  split at h
  · rename_i c rest hc
    split at h
    · rename_i hg
      simp at h; exact ⟨c, rest, hc, hg.1, hg.2.1, hg.2.2, h.symm⟩
    · simp at h
  · simp at h

theorem step_readErr {ae s s'} (h : step ae s .readErr = some s') :
    ∃ c rest, s.conns = c :: rest ∧ s.phase = .connected ∧ c.held = false ∧
      (c.closed = true ∨ (c.peerClosed = true ∧ c.delivered = c.arrived)) ∧
      s' = { s with phase := .teardown .quit } := by
  simp only [step] at h
  split at h
  · rename_i c rest hc
    split at h
    · rename_i hg
      simp at h; exact ⟨c, rest, hc, hg.1, hg.2.1, hg.2.2, h.symm⟩
    · simp at h
  · simp at h

theorem step_readFault {ae s s'} (h : step ae s .readFault = some s') :
    ∃ c rest, s.conns = c :: rest ∧ s.phase = .connected ∧ c.held = false ∧ c.binary = true ∧ c.closed = false ∧
      c.delivered = c.arrived ∧ 0 < c.partial ∧
      s' = { s with phase := .teardown .quit, conns := { c with fault := true } :: rest } := by
  simp only [step] at h
  split at h
  · rename_i c rest hc
    split at h
    · rename_i hg
      simp at h; exact ⟨c, rest, hc, hg.1, hg.2.1, hg.2.2.1, hg.2.2.2.1, hg.2.2.2.2.1, hg.2.2.2.2.2, h.symm⟩
    · simp at h
  · simp at h

theorem step_closeQuit {ae s s'} (h : step ae s .closeQuit = some s') :
    ∃ c rest, s.conns = c :: rest ∧ s.phase = .teardown .quit ∧
      s' = { s with phase := .teardown .close, conns := { c with quit := true } :: rest } := by
  simp only [step] at h
  split at h
  · rename_i c rest hc
    split at h
    · rename_i hg
      simp at h; exact ⟨c, rest, hc, hg, h.symm⟩
    · simp at h
  · simp at h

theorem step_connClose {ae s s'} (h : step ae s .connClose = some s') :
    ∃ c rest, s.conns = c :: rest ∧ s.phase = .teardown .close ∧
      s' = { s with phase := .teardown .callback, conns := { c with closed := true } :: rest } := by
  simp only [step] at h
  split at h
  · rename_i c rest hc
    split at h
    · rename_i hg
      simp at h; exact ⟨c, rest, hc, hg, h.symm⟩
    · simp at h
  · simp at h

theorem step_onDisconnect {ae s s' b} (h : step ae s (.onDisconnect b) = some s') :
    ∃ c rest, s.conns = c :: rest ∧ s.phase = .teardown .callback ∧ b = c.exit ∧
      s' = { s with phase := if b then .exiting else .retrySleep, log := .disconnect b :: s.log, stamps := s.now :: s.stamps,
                    wake := s.now + s.rc } := by
  simp only [step] at h
  split at h
  · rename_i c rest hc
    split at h
    · rename_i hg
      simp at h; exact ⟨c, rest, hc, hg.1, hg.2, h.symm⟩
    · simp at h
  · simp at h

theorem step_writerStart {ae s s' i} (h : step ae s (.writerStart i) = some s') :
    ∃ c, s.conns[i]? = some c ∧ c.w = .spawned ∧
      s' = { s with conns := s.conns.set i { c with w := .running }, wg := if ae then s.wg else s.wg + 1 } := by
  simp only [step] at h
  split at h
  · rename_i c hc
    split at h
    · rename_i hg
      simp at h; exact ⟨c, hc, hg, h.symm⟩
    · simp at h
  · simp at h

theorem step_writerSeesCancel {ae s s' i} (h : step ae s (.writerSeesCancel i) = some s') :
    ∃ c, s.conns[i]? = some c ∧ c.w = .running ∧ s.cancelled = true ∧
      s' = { s with conns := s.conns.set i { c with w := .exited, exit := true, closed := true }, wg := s.wg - 1 } := by
  simp only [step] at h
  split at h
  · rename_i c hc
    split at h
    · rename_i hg
      simp at h; exact ⟨c, hc, hg.1, hg.2, h.symm⟩
    · simp at h
  · simp at h

theorem step_writerSeesQuit {ae s s' i} (h : step ae s (.writerSeesQuit i) = some s') :
    ∃ c, s.conns[i]? = some c ∧ c.w = .running ∧ c.quit = true ∧
      s' = { s with conns := s.conns.set i { c with w := .exited }, wg := s.wg - 1 } := by
  simp only [step] at h
  split at h
  · rename_i c hc
    split at h
    · rename_i hg
      simp at h; exact ⟨c, hc, hg.1, hg.2, h.symm⟩
    · simp at h
  · simp at h

theorem step_writerTake {ae s s' i} (h : step ae s (.writerTake i) = some s') :
    ∃ c, s.conns[i]? = some c ∧ c.w = .running ∧ 0 < s.offered ∧
      s' = { s with conns := s.conns.set i { c with w := .writing }, offered := s.offered - 1 } := by
  simp only [step] at h
  split at h
  · rename_i c hc
    split at h
    · rename_i hg
      simp at h; exact ⟨c, hc, hg.1, hg.2, h.symm⟩
    · simp at h
  · simp at h

theorem step_writeDone {ae s s' i} (h : step ae s (.writeDone i) = some s') :
    ∃ c, s.conns[i]? = some c ∧ c.w = .writing ∧ c.closed = false ∧
      s' = { s with conns := s.conns.set i { c with w := .running } } := by
  simp only [step] at h
  split at h
  · rename_i c hc
    split at h
    · rename_i hg
      simp at h; exact ⟨c, hc, hg.1, hg.2, h.symm⟩
    · simp at h
  · simp at h

theorem step_writeErr {ae s s' i} (h : step ae s (.writeErr i) = some s') :
    ∃ c, s.conns[i]? = some c ∧ c.w = .writing ∧ (c.closed = true ∨ c.peerClosed = true) ∧
      s' = { s with conns := s.conns.set i { c with w := .running } } := by
  simp only [step] at h
  split at h
  · rename_i c hc
    split at h
    · rename_i hg
      simp at h; exact ⟨c, hc, hg.1, hg.2, h.symm⟩
    · simp at h
  · simp at h

end RawPanelVerif.Lifecycle
