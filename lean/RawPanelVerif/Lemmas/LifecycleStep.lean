import RawPanelVerif.Model.Lifecycle
/-! Inversion lemmas for `Lifecycle.step`: what a successful step of each label says about the two states. -/
namespace RawPanelVerif.Lifecycle

theorem step_cancel {ae s s'} (h : step ae s .cancel = some s') : s' = { s with cancelled := true } := by
  simp [step] at h; exact h.symm

theorem step_dialOk {ae s s'} (h : step ae s .dialOk = some s') :
    s.phase = .dialing ∧ s' = { s with phase := .probing, conns := {} :: s.conns, log := .dial :: s.log } := by
  simp [step] at h; exact ⟨h.1, h.2.symm⟩

theorem step_dialFail {ae s s'} (h : step ae s .dialFail = some s') :
    s.phase = .dialing ∧ s' = { s with phase := .noConnWait } := by
  simp [step] at h; exact ⟨h.1, h.2.symm⟩

theorem step_noConnTimer {ae s s'} (h : step ae s .noConnTimer = some s') :
    s.phase = .noConnWait ∧ s' = { s with phase := .dialing } := by
  simp [step] at h; exact ⟨h.1, h.2.symm⟩

theorem step_peerClose {ae s s'} (h : step ae s .peerClose = some s') :
    ∃ c rest, s.conns = c :: rest ∧ c.peerClosed = false ∧
      s' = { s with conns := { c with peerClosed := true } :: rest } := by
  simp only [step] at h
  split at h
  · rename_i c rest hc
    split at h
    · simp at h
    · rename_i hp
      simp at h; exact ⟨c, rest, hc, by simpa using hp, h.symm⟩
  · simp at h

theorem step_frameComplete {ae s s'} (h : step ae s .frameComplete = some s') :
    ∃ c rest, s.conns = c :: rest ∧ (s.phase = .announcing ∨ s.phase = .connected) ∧ c.peerClosed = false ∧
      s' = { s with conns := { c with arrived := c.arrived + 1 } :: rest } := by
  simp only [step] at h
  split at h
  · rename_i c rest hc
    split at h
    · rename_i hg
      simp at h; exact ⟨c, rest, hc, hg.1, hg.2, h.symm⟩
    · simp at h
  · simp at h

theorem step_spawnWriter {ae s s'} (h : step ae s .spawnWriter = some s') :
    ∃ c rest, s.conns = c :: rest ∧ s.phase = .probing ∧
      s' = { s with phase := .announcing, conns := { c with w := .spawned } :: rest,
                    wg := if ae then s.wg + 1 else s.wg } := by
  simp only [step] at h
  split at h
  · rename_i c rest hc
    split at h
    · rename_i hg
      simp at h; exact ⟨c, rest, hc, hg, h.symm⟩
    · simp at h
  · simp at h

theorem step_onConnect {ae s s'} (h : step ae s .onConnect = some s') :
    s.phase = .announcing ∧ s' = { s with phase := .connected, log := .connect :: s.log } := by
  simp [step] at h; exact ⟨h.1, h.2.symm⟩

theorem step_deliver {ae s s'} (h : step ae s .deliver = some s') :
    ∃ c rest, s.conns = c :: rest ∧ s.phase = .connected ∧ c.delivered < c.arrived ∧ c.closed = false ∧
      s' = { s with conns := { c with delivered := c.delivered + 1 } :: rest,
                    log := .deliver rest.length c.delivered :: s.log } := by
  simp only [step] at h
  split at h
  · rename_i c rest hc
    split at h
    · rename_i hg
      simp at h; exact ⟨c, rest, hc, hg.1, hg.2.1, hg.2.2, h.symm⟩
    · simp at h
  · simp at h

theorem step_readErr {ae s s'} (h : step ae s .readErr = some s') :
    ∃ c rest, s.conns = c :: rest ∧ s.phase = .connected ∧
      (c.closed = true ∨ (c.peerClosed = true ∧ c.delivered = c.arrived)) ∧
      s' = { s with phase := .teardown .quit } := by
  simp only [step] at h
  split at h
  · rename_i c rest hc
    split at h
    · rename_i hg
      simp at h; exact ⟨c, rest, hc, hg.1, hg.2, h.symm⟩
    · simp at h
  · simp at h

theorem step_closeQuit {ae s s'} (h : step ae s .closeQuit = some s') :
    ∃ c rest, s.conns = c :: rest ∧ s.phase = .teardown .quit ∧
      s' = { s with phase := .teardown .close, conns := { c with quit := true } :: rest } := by
  simp only [step] at h
  split at h
  · rename_i c rest hc
    split at h
    · rename_i hg
      simp at h; exact ⟨c, rest, hc, hg, h.symm⟩
    · simp at h
  · simp at h

theorem step_connClose {ae s s'} (h : step ae s .connClose = some s') :
    ∃ c rest, s.conns = c :: rest ∧ s.phase = .teardown .close ∧
      s' = { s with phase := .teardown .callback, conns := { c with closed := true } :: rest } := by
  simp only [step] at h
  split at h
  · rename_i c rest hc
    split at h
    · rename_i hg
      simp at h; exact ⟨c, rest, hc, hg, h.symm⟩
    · simp at h
  · simp at h

theorem step_onDisconnect {ae s s' b} (h : step ae s (.onDisconnect b) = some s') :
    ∃ c rest, s.conns = c :: rest ∧ s.phase = .teardown .callback ∧ b = c.exit ∧
      s' = { s with phase := if b then .exiting else .retrySleep, log := .disconnect b :: s.log } := by
  simp only [step] at h
  split at h
  · rename_i c rest hc
    split at h
    · rename_i hg
      simp at h; exact ⟨c, rest, hc, hg.1, hg.2, h.symm⟩
    · simp at h
  · simp at h

theorem step_sleepDone {ae s s'} (h : step ae s .sleepDone = some s') :
    s.phase = .retrySleep ∧ s' = { s with phase := .dialing, log := .sleepDone :: s.log } := by
  simp [step] at h; exact ⟨h.1, h.2.symm⟩

theorem step_ret {ae s s'} (h : step ae s .ret = some s') :
    (s.phase = .exiting ∨ (s.phase = .noConnWait ∧ s.cancelled = true)) ∧
      s' = { s with phase := .returned, wg := s.wg - 1, log := .returned :: s.log } := by
  simp [step] at h; exact ⟨h.1, h.2.symm⟩

theorem step_writerStart {ae s s' i} (h : step ae s (.writerStart i) = some s') :
    ∃ c, s.conns[i]? = some c ∧ c.w = .spawned ∧
      s' = { s with conns := s.conns.set i { c with w := .running }, wg := if ae then s.wg else s.wg + 1 } := by
  simp only [step] at h
  split at h
  · rename_i c hc
    split at h
    · rename_i hg
      simp at h; exact ⟨c, hc, hg, h.symm⟩
    · simp at h
  · simp at h

theorem step_writerSeesCancel {ae s s' i} (h : step ae s (.writerSeesCancel i) = some s') :
    ∃ c, s.conns[i]? = some c ∧ c.w = .running ∧ s.cancelled = true ∧
      s' = { s with conns := s.conns.set i { c with w := .exited, exit := true, closed := true }, wg := s.wg - 1 } := by
  simp only [step] at h
  split at h
  · rename_i c hc
    split at h
    · rename_i hg
      simp at h; exact ⟨c, hc, hg.1, hg.2, h.symm⟩
    · simp at h
  · simp at h

theorem step_writerSeesQuit {ae s s' i} (h : step ae s (.writerSeesQuit i) = some s') :
    ∃ c, s.conns[i]? = some c ∧ c.w = .running ∧ c.quit = true ∧
      s' = { s with conns := s.conns.set i { c with w := .exited }, wg := s.wg - 1 } := by
  simp only [step] at h
  split at h
  · rename_i c hc
    split at h
    · rename_i hg
      simp at h; exact ⟨c, hc, hg.1, hg.2, h.symm⟩
    · simp at h
  · simp at h

end RawPanelVerif.Lifecycle
