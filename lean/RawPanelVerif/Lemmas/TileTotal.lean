import RawPanelVerif.Model.TileChecked
import RawPanelVerif.Lemmas.MonoTotal
import RawPanelVerif.Lemmas.TileBar
/-!
# The tile renderer does not panic (C18): checked layout = plain layout

For **every** text state and geometry `tileAccC … = some (tileAcc …)`, `tileColoursC … = some (tileColours …)`, and for
`0 ≤ width, height` the whole checked call `renderTileC` returns `some` of the plain model's canvas and colours.
-/
namespace RawPanelVerif.Tile
open RawPanelVerif RawPanelVerif.Mono RawPanelVerif.Gen

theorem ite_some {α : Type} (c : Prop) [Decidable c] (a b : α) : (if c then some a else some b) = some (if c then a else b) := by
  split <;> rfl

theorem Acc.strWidthC_eq (a : Acc) (s : List Nat) : a.strWidthC s = some (a.strWidth s) := Mono.strWidthC_eq a.t s

theorem Acc.renderC_eq (a : Acc) (g : Geom) (s : List Nat) : a.renderC g s = some (a.render g s) := by
  obtain ⟨k, e, _⟩ := renderTextC_runs s { geo := g, bytes := #[] } 0 a.t
  unfold Acc.renderC Acc.render
  rw [e]
  rfl

theorem Acc.narrowC_eq (a : Acc) (s : List Nat) (aw h v : Int) :
    a.narrowC s aw h v = some (if aw < a.strWidth s then a.size h v else a) := by
  unfold Acc.narrowC; rw [Acc.strWidthC_eq]; rfl

theorem contentIterC_eq (acc : Acc) (g : Geom) (inp : TileIn) (sc : Scale) (a w h aw ah m1 m2 f1 f2 : Int) :
    contentIterC acc g inp sc a w h aw ah m1 m2 f1 f2 = some (contentIter acc g inp sc a w h aw ah m1 m2 f1 f2) := by
  unfold contentIterC
  simp only [Acc.strWidthC_eq, Acc.renderC_eq, Acc.narrowC_eq, Option.map_some, Option.bind_some, ite_some]
  rfl

/-- the modifier-icon table is indexed only under the guard `1 ≤ ModifierIcon ≤ 7`, and has 7 entries -/
theorem icon_guard {α : Type} (m : Int) (f : Array UInt8 → α) (x : α) :
    (if m ≥ 1 ∧ m ≤ 7 then (iconBytesC (m - 1).toNat).map f else some x) =
      some (if m ≥ 1 ∧ m ≤ 7 then f (iconBytes (m - 1).toNat) else x) := by
  by_cases h : m ≥ 1 ∧ m ≤ 7
  · rw [if_pos h, if_pos h]
    have hs : icons8by8.size = 7 := by decide
    have hk : (m - 1).toNat < icons8by8.size := by omega
    unfold iconBytesC iconBytes
    rw [Array.getElem?_eq_getElem hk, Array.getD_eq_getD_getElem?, Array.getElem?_eq_getElem hk]
    rfl
  · rw [if_neg h, if_neg h]

theorem tileAccWithC_eq
    (ciC : Acc → Geom → Scale → Int → Int → Int → Int → Int → Int → Int → Int → Int → Option Acc)
    (ci : Acc → Geom → Scale → Int → Int → Int → Int → Int → Int → Int → Int → Int → Acc)
    (hci : ∀ acc g sc a w h aw ah m1 m2 f1 f2, ciC acc g sc a w h aw ah m1 m2 f1 f2 = some (ci acc g sc a w h aw ah m1 m2 f1 f2))
    (inp : TileIn) (width height shrink border : Int) :
    tileAccWithC ciC inp width height shrink border = some (tileAccWith ci inp width height shrink border) := by
  unfold tileAccWithC
  simp only [hci, Acc.strWidthC_eq, Acc.renderC_eq, Option.map_some, Option.bind_some, ite_some, icon_guard]
  rfl

/-- **the layout does not panic**: for every text state and geometry the checked layout returns what the plain model
computes (font tables, icon table: every index inside its table) -/
theorem tileAccC_eq (inp : TileIn) (width height shrink border : Int) :
    tileAccC inp width height shrink border = some (tileAcc inp width height shrink border) := by
  unfold tileAccC
  rw [tileAcc_eq_with]
  exact tileAccWithC_eq _ _ (fun acc g sc a w h aw ah m1 m2 f1 f2 => contentIterC_eq acc g inp sc a w h aw ah m1 m2 f1 f2) _ _ _ _ _

/-! ## colours -/

theorem color6C_eq (c : Col) : color6C c = some (color6 c) := by
  cases c with
  | rgb r g b => rfl
  | empty => rfl
  | idx i =>
    unfold color6C color6
    simp only []
    generalize (i.emod 32).toNat = k
    have h0 : (0 : Nat) < buttonColors.size := by decide
    rw [Array.getElem?_eq_getElem h0]
    simp only []
    by_cases hk : k < buttonColors.size
    · rw [if_pos hk, if_pos hk, Array.getElem?_eq_getElem hk, Array.getD_eq_getD_getElem?, Array.getElem?_eq_getElem hk]
      rfl
    · rw [if_neg hk, if_neg hk, Array.getD_eq_getD_getElem?, Array.getElem?_eq_getElem h0]
      rfl

theorem tileColoursC_eq (inp : TileIn) : tileColoursC inp = some (tileColours inp) := by
  unfold tileColoursC tileColours
  cases inp.bg <;> cases inp.pix <;> simp only [color6C_eq, Option.map_some]

/-- the pinned tree read `buttonColors[index]` before looking at the length test: index colours 19..31 panic -/
theorem color6Pinned_panics (i : Int) (h : 19 ≤ i.emod 32) : color6Pinned (.idx i) = none := by
  unfold color6Pinned
  simp only []
  have hs : buttonColors.size = 19 := by decide
  have : buttonColors[(i.emod 32).toNat]? = none := Array.getElem?_eq_none (by omega)
  rw [this]

/-! ## the whole call -/

theorem runOpsCList_runs (ops : List Op) (c : Canvas) (n : Nat) :
    Runs (runOpsCList (c, n) ops) (ops.foldl applyOp c) n (ops.map opWork).sum := by
  induction ops generalizing c n with
  | nil => exact runs_some c n _
  | cons op rest ih =>
    obtain ⟨k1, e1, b1⟩ := applyOpC_runs c n op
    obtain ⟨k2, e2, b2⟩ := ih (applyOp c op) (n + k1)
    refine ⟨k1 + k2, ?_, ?_⟩
    · unfold runOpsCList; rw [e1]; simp only [List.foldl_cons]; rw [e2]; congr 2; omega
    · simp only [List.map_cons, List.sum_cons]; omega

/-- the loop-iteration budget of one call: the sum of the budgets of the operations it performs -/
def tileWork (inp : TileIn) (width height shrink border : Int) : Nat :=
  ((tileOps inp width height shrink border).map opWork).sum

/-- **the whole call does not panic and does not hang**: for every text state, `0 ≤ width, height` and every shrink /
border, the checked call returns the plain model's canvas and colours after at most `tileWork` loop iterations -/
theorem renderTileC_eq (inp : TileIn) (inverted : Bool) (w h : Nat) (shrink border : Int) :
    ∃ k, renderTileC inp inverted w h shrink border =
        some (renderTile inp inverted w h shrink border, tileColours inp, k) ∧ k ≤ tileWork inp w h shrink border := by
  obtain ⟨k, e, b⟩ := runOpsCList_runs (tileOps inp w h shrink border) (invertPixels (newCanvas w h) inverted) 0
  refine ⟨k, ?_, b⟩
  unfold renderTileC newCanvasC
  rw [if_neg (by omega), tileColoursC_eq, tileAccC_eq]
  simp only [Int.toNat_natCast]
  have : (Mono.Op.frect 0 0 (w : Int) (h : Int) false :: Mono.Op.bbox border border (activeWH w h shrink border).1
      (activeWH w h shrink border).2 :: (tileAcc inp w h shrink border).ops.toList.map DOp.toOp) =
      tileOps inp w h shrink border := rfl
  rw [this, e]
  simp [renderTile]

/-- a negative size is outside the domain: `make([]byte, n)` with `n < 0` panics -/
theorem renderTileC_negative (inp : TileIn) (inverted : Bool) (w h shrink border : Int) (hneg : w < 0 ∨ h < 0) :
    renderTileC inp inverted w h shrink border = none := by
  unfold renderTileC newCanvasC
  rw [if_pos hneg]

end RawPanelVerif.Tile
