import RawPanelVerif.Lemmas.ReadIn
/-! C01 `enc_sound`, section flow + commands: every line the encoder emits for the flow signal and the 29 command
fields is read back by the reference reader as the corresponding effect. -/
namespace RawPanelVerif.EncSound
open RawPanelVerif RawPanelVerif.Bytes RawPanelVerif.MsgIn RawPanelVerif.Model.In RawPanelVerif.InBits RawPanelVerif.ReadIn
open RawPanelVerif.Spec.In

variable (O : Oracles)

def keyHeadOk : Bytes → Bool
  | c :: _ => c != 123 && c != 91
  | [] => false

/-- `readLine_kv` for a key given as a whole -/
theorem readLine_kv' (key v : Bytes) (h0 : keyHeadOk key = true)
    (h3 : (61 : UInt8) ∉ key) :
    readLine O (key ++ 61 :: v) =
      (match cut 35 key with
       | some (fam, idsText) => readHash fam idsText v
       | none => .effects (readPlain O key v)) := by
  cases key with
  | nil => simp [keyHeadOk] at h0
  | cons c cs =>
    simp only [keyHeadOk, Bool.and_eq_true, bne_iff_ne, ne_eq] at h0
    exact readLine_kv O c cs v h0.1 h0.2 h3

/-- a line without `=`, not JSON: a word -/
theorem readLine_word (l : Bytes) (h0 : (match l with | c :: _ => c != 123 && c != 91 | [] => true) = true)
    (h3 : (61 : UInt8) ∉ l) :
    readLine O l = .effects (match wordTable.lookup l with | some e => [e] | none => []) := by
  have hc := cut_none 61 l h3
  unfold readLine
  split
  · simp at h0
  · simp at h0
  · rw [hc]
    rfl

theorem flow_reads (f : Int) (h : enumOk f 3 = true) : Reads O (flowLines f) (effectsOfFlow f) := by
  unfold enumOk at h
  simp only [Bool.and_eq_true, decide_eq_true_eq] at h
  have : f = 0 ∨ f = 1 ∨ f = 2 ∨ f = 3 := by omega
  rcases this with rfl | rfl | rfl | rfl
  · exact Reads.nil O
  · exact Reads.single (by rfl)
  · exact Reads.single (by rfl)
  · exact Reads.single (by rfl)

theorem flag_reads (b : Bool) (w : Bytes) (c : CmdE) (h : readLine O w = .effects [.cmd c]) :
    Reads O (flag b w) (flagE b c) := by
  cases b
  · exact Reads.nil O
  · exact Reads.single h

theorem optLine_reads {α : Type} (o : Option α) (f : α → List Bytes) (g : α → List Effect)
    (h : ∀ a, o = some a → Reads O (f a) (g a)) : Reads O (optLine o f) (opt o g) := by
  cases o with
  | none => exact Reads.nil O
  | some a => exact h a rfl

/-- `key=num` commands -/
theorem read_numCmd (K : Bytes) (mk : Nat → CmdE) (v : Nat) (hv : v < 4294967296)
    (h0 : keyHeadOk K = true)
    (h61 : (61 : UInt8) ∉ K) (h35 : cut 35 K = none)
    (hsp : K ≠ asc "ActivePanel" ∧ K ≠ asc "PanelBrightness" ∧ K ≠ asc "SetCalibrationProfile" ∧ K ≠ asc "SetNetworkConfig" ∧
           K ≠ asc "SimulateEnvironmentalHealth")
    (hl : numCmdTable.lookup K = some mk) :
    readLine O (K ++ 61 :: utoa v) = .effects [.cmd (mk v)] := by
  rw [readLine_kv' O K _ h0 h61, h35]
  simp only []
  unfold readPlain
  rw [if_neg hsp.1, if_neg hsp.2.1, if_neg hsp.2.2.1, if_neg hsp.2.2.2.1, if_neg hsp.2.2.2.2, hl]
  simp only [num_utoa v hv]

theorem kw_split (K : Bytes) (v : Bytes) : (K ++ [61]) ++ v = K ++ 61 :: v := by simp

macro "kwfacts" : tactic => `(tactic| first | decide | rfl | (refine ⟨?_, ?_, ?_, ?_, ?_⟩ <;> decide))

theorem hb_line (v : Nat) (hv : v < 4294967296) :
    readLine O (asc "HeartBeatTimer=" ++ utoa v) = .effects [.cmd (.heartBeatTimer v)] := by
  rw [show asc "HeartBeatTimer=" = asc "HeartBeatTimer" ++ [61] by decide, kw_split]
  exact read_numCmd O _ _ v hv (by kwfacts) (by kwfacts) (by kwfacts) (by kwfacts) (by kwfacts)

theorem itoa_nonneg (z : Int) (h : 0 ≤ z) : itoa z = utoa z.toNat := by
  unfold utoa
  congr 1; omega

theorem b01_eq (b : Bool) : b01 b = utoa (if b then 1 else 0) := by
  cases b <;> decide

theorem optOk_some {α : Type} (o : Option α) (p : α → Bool) (a : α) (h : optOk o p = true) (ha : o = some a) : p a = true := by
  subst ha; exact h

theorem u32ok_lt (n : Nat) (h : u32ok n = true) : n < 4294967296 := by
  unfold u32ok at h; exact of_decide_eq_true h

theorem enumOk_range (n hi : Int) (h : enumOk n hi = true) : 0 ≤ n ∧ n ≤ hi := by
  unfold enumOk at h
  simp only [Bool.and_eq_true, decide_eq_true_eq] at h
  exact h

theorem enumArg_eq (v : Int) (h : 0 ≤ v ∧ v ≤ 2147483647) : enumArg v = v.toNat := by
  unfold enumArg; omega

theorem numLine (K Keq : Bytes) (mk : Nat → CmdE) (v : Nat) (hv : v < 4294967296) (he : Keq = K ++ [61])
    (h0 : keyHeadOk K = true)
    (h61 : (61 : UInt8) ∉ K) (h35 : cut 35 K = none)
    (hsp : K ≠ asc "ActivePanel" ∧ K ≠ asc "PanelBrightness" ∧ K ≠ asc "SetCalibrationProfile" ∧ K ≠ asc "SetNetworkConfig" ∧
           K ≠ asc "SimulateEnvironmentalHealth")
    (hl : numCmdTable.lookup K = some mk) :
    readLine O (Keq ++ utoa v) = .effects [.cmd (mk v)] := by
  rw [he, kw_split]
  exact read_numCmd O K mk v hv h0 h61 h35 hsp hl

theorem brightness_line (a b : Nat) (ha : a < 4294967296) (hb : b < 4294967296) :
    readLine O (asc "PanelBrightness=" ++ utoa a ++ asc "," ++ utoa b) = .effects [.cmd (.brightness a b)] := by
  rw [show asc "PanelBrightness=" = asc "PanelBrightness" ++ [61] by decide, List.append_assoc, List.append_assoc, kw_split]
  rw [readLine_kv' O _ _ (by decide) (by decide), show cut 35 (asc "PanelBrightness") = none by decide]
  simp only []
  unfold readPlain
  rw [if_neg (by decide), if_pos rfl]
  unfold readBrightness
  rw [show asc "," = [44] by decide, List.singleton_append, cut_append 44 _ _ (not_mem_utoa a 44 (by decide))]
  simp only [num_utoa a ha, num_utoa b hb]

theorem cal_line (j : Bytes) :
    readLine O (asc "SetCalibrationProfile=" ++ Strip.stripLineBreaks j) = .effects [.cmd (.setCalibrationProfile (normPayload j))] := by
  rw [show asc "SetCalibrationProfile=" = asc "SetCalibrationProfile" ++ [61] by decide, kw_split]
  rw [readLine_kv' O _ _ (by decide) (by decide), show cut 35 (asc "SetCalibrationProfile") = none by decide]
  simp only []
  unfold readPlain
  rw [if_neg (by decide), if_neg (by decide), if_pos rfl]
  rfl

theorem net_line (n : NetCfg) (h : O.parseNet (O.netJson n) = some n) :
    readLine O (asc "SetNetworkConfig=" ++ O.netJson n) = .effects [.cmd (.setNetworkConfig n)] := by
  rw [show asc "SetNetworkConfig=" = asc "SetNetworkConfig" ++ [61] by decide, kw_split]
  rw [readLine_kv' O _ _ (by decide) (by decide), show cut 35 (asc "SetNetworkConfig") = none by decide]
  simp only []
  unfold readPlain
  rw [if_neg (by decide), if_neg (by decide), if_neg (by decide), if_pos rfl, h]

theorem env_reads (m : Int) (h : enumOk m 2 = true) : Reads O (envLine m) (envOf m) := by
  have := enumOk_range m 2 h
  have : m = 0 ∨ m = 1 ∨ m = 2 := by omega
  rcases this with rfl | rfl | rfl
  · exact Reads.single (by rfl)
  · exact Reads.single (by rfl)
  · exact Reads.single (by rfl)

theorem cmd_reads (c : Command) (h : cmdOk O c = true) : Reads O (cmdLines O c) (effectsOfCmd c) := by
  simp only [cmdOk, Bool.and_eq_true] at h
  obtain ⟨⟨⟨⟨⟨⟨⟨⟨⟨h1, h2⟩, h3⟩, h4⟩, h5⟩, h6⟩, h7⟩, h8⟩, h9⟩, h10⟩ := h
  unfold cmdLines effectsOfCmd
  repeat' apply Reads.append
  any_goals (exact flag_reads O _ _ _ (by rfl))
  · -- brightness
    refine optLine_reads O _ _ _ (fun p hp => Reads.single ?_)
    have := optOk_some _ _ _ h1 hp
    simp only [Bool.and_eq_true] at this
    exact brightness_line O p.1 p.2 (u32ok_lt _ this.1) (u32ok_lt _ this.2)
  · exact optLine_reads O _ _ _ (fun j _ => Reads.single (cal_line O j))
  · refine optLine_reads O _ _ _ (fun n hn => Reads.single ?_)
    have := optOk_some _ _ _ h2 hn
    simp only [Bool.and_eq_true, beq_iff_eq] at this
    exact net_line O n this.1
  · refine optLine_reads O _ _ _ (fun m hm => env_reads O m ?_)
    exact optOk_some _ (fun e => enumOk e 2) m h3 hm
  · refine optLine_reads O _ _ _ (fun v hv => Reads.single ?_)
    exact numLine O (asc "SleepTimer") _ _ v (u32ok_lt _ (optOk_some _ _ _ h4 hv)) (by decide) (by decide) (by decide) (by decide) (by kwfacts) (by rfl)
  · refine optLine_reads O _ _ _ (fun v hv => ?_)
    have hr := enumOk_range v 2147483647 (optOk_some _ (fun e => enumOk e 2147483647) v h5 hv)
    rw [itoa_nonneg v hr.1, enumArg_eq v hr]
    exact Reads.single (numLine O (asc "SleepMode") _ _ v.toNat (by omega) (by decide) (by decide) (by decide) (by decide) (by kwfacts) (by rfl))
  · refine optLine_reads O _ _ _ (fun v hv => ?_)
    have hr := enumOk_range v 2147483647 (optOk_some _ (fun e => enumOk e 2147483647) v h6 hv)
    rw [itoa_nonneg v hr.1, enumArg_eq v hr]
    exact Reads.single (numLine O (asc "SleepScreenSaver") _ _ v.toNat (by omega) (by decide) (by decide) (by decide) (by decide) (by kwfacts) (by rfl))
  · refine optLine_reads O _ _ _ (fun v hv => Reads.single ?_)
    exact numLine O (asc "DimmedGain") _ _ v (u32ok_lt _ (optOk_some _ _ _ h7 hv)) (by decide) (by decide) (by decide) (by decide) (by kwfacts) (by rfl)
  · refine optLine_reads O _ _ _ (fun v hv => Reads.single ?_)
    exact numLine O (asc "HeartBeatTimer") _ _ v (u32ok_lt _ (optOk_some _ _ _ h8 hv)) (by decide) (by decide) (by decide) (by decide) (by kwfacts) (by rfl)
  · refine optLine_reads O _ _ _ (fun v hv => Reads.single ?_)
    exact numLine O (asc "PublishSystemStat") _ _ v (u32ok_lt _ (optOk_some _ _ _ h9 hv)) (by decide) (by decide) (by decide) (by decide) (by kwfacts) (by rfl)
  · refine optLine_reads O _ _ _ (fun v hv => ?_)
    have hr := enumOk_range v 2147483647 (optOk_some _ (fun e => enumOk e 2147483647) v h10 hv)
    rw [itoa_nonneg v hr.1, enumArg_eq v hr]
    exact Reads.single (numLine O (asc "LoadCPU") _ _ v.toNat (by omega) (by decide) (by decide) (by decide) (by decide) (by kwfacts) (by rfl))
  · refine optLine_reads O _ _ _ (fun v _ => ?_)
    rw [b01_eq]
    have := numLine O (asc "Webserver") (asc "Webserver=") _ (if v then 1 else 0) (by cases v <;> decide) (by decide) (by decide) (by decide) (by decide) (by kwfacts) (by rfl)
    cases v <;> exact Reads.single this
  · refine optLine_reads O _ _ _ (fun v _ => ?_)
    rw [b01_eq]
    have := numLine O (asc "JSONonOutbound") (asc "JSONonOutbound=") _ (if v then 1 else 0) (by cases v <;> decide) (by decide) (by decide) (by decide) (by decide) (by kwfacts) (by rfl)
    cases v <;> exact Reads.single this

end RawPanelVerif.EncSound
