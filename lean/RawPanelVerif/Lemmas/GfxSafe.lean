import RawPanelVerif.Lemmas.GfxRead
/-! C05 safety: lemmas about the Spec's legitimacy check, then the invariant of the repaired batch decoder. -/
namespace RawPanelVerif.Gfx
open RawPanelVerif

/-! ### the Spec's loop -/

/-- deliveries, each legitimate where it was returned, belonging to pairwise different transfers not in `used`,
and unaltered -/
inductive Good (cs : List (Option Spec.Gfx.Chunk)) : List Spec.Gfx.Deliv → List Nat → Prop where
  | nil (used : List Nat) : Good cs [] used
  | cons (d : Spec.Gfx.Deliv) (ds : List Spec.Gfx.Deliv) (used : List Nat) (p p0 : Nat)
      (hpos : d.pos = some p) (hl : Spec.Gfx.legitAt cs p d.img = some p0) (hu : p0 ∉ used)
      (hf : d.final = d.img.data) (rest : Good cs ds (p0 :: used)) : Good cs (d :: ds) used

theorem safetyLoop_of_good (cs : List (Option Spec.Gfx.Chunk)) (n : Nat) (ds : List Spec.Gfx.Deliv)
    (used : List Nat) (h : Good cs ds used) : ∀ j next, Spec.Gfx.safetyLoop cs n ds j next used = none := by
  induction h with
  | nil used => intro j next; rfl
  | cons d ds used p p0 hpos hl hu hf _ ih =>
    intro j next
    unfold Spec.Gfx.safetyLoop
    simp only [hpos, hl]
    have h1 : used.contains p0 = false := by simpa using hu
    have h2 : (d.final != d.img.data) = false := by simp [hf]
    simp only [h1, h2, Bool.false_eq_true, if_false]
    exact ih _ _

theorem good_append (cs : List (Option Spec.Gfx.Chunk)) (d1 : List Spec.Gfx.Deliv) :
    ∀ used, d1 = [] → ∀ d2, Good cs d2 used → Good cs (d1 ++ d2) used := by
  intro used h d2 hg; subst h; simpa using hg

/-! ### start of the transfer -/

theorem startOf_of (cs : List (Option Spec.Gfx.Chunk)) (p0 : Nat) (h0 : Spec.Gfx.isChunk0 cs[p0]? = true) :
    ∀ d, (∀ q, p0 < q → q ≤ p0 + d → Spec.Gfx.isChunk0 cs[q]? = false) → Spec.Gfx.startOf cs (p0 + d) = some p0 := by
  intro d
  induction d with
  | zero =>
    intro _
    cases p0 with
    | zero => simp [Spec.Gfx.startOf, h0]
    | succ n => simp [Spec.Gfx.startOf, h0]
  | succ d ih =>
    intro hz
    have : Spec.Gfx.isChunk0 cs[p0 + d + 1]? = false := hz (p0 + d + 1) (by omega) (by omega)
    rw [show p0 + (d + 1) = (p0 + d) + 1 by omega]
    simp only [Spec.Gfx.startOf, this, Bool.false_eq_true, if_false]
    exact ih (fun q h1 h2 => hz q h1 (by omega))

/-! ### reachability -/

theorem reach_snoc (D : Bytes) (c0 : Spec.Gfx.Chunk) (n0 : Nat) (mid : List (Option Spec.Gfx.Chunk))
    (oc : Option Spec.Gfx.Chunk) : Spec.Gfx.reach D c0 n0 (mid ++ [oc]) = Spec.Gfx.reachStep D c0 (Spec.Gfx.reach D c0 n0 mid) oc := by
  simp [Spec.Gfx.reach, List.foldl_append]

theorem mem_reachStep_of_mem (D : Bytes) (c0 : Spec.Gfx.Chunk) (st : List (Nat × Nat)) (oc : Option Spec.Gfx.Chunk)
    (x : Nat × Nat) (h : x ∈ st) : x ∈ Spec.Gfx.reachStep D c0 st oc := by
  unfold Spec.Gfx.reachStep
  split
  · exact h
  · split
    · split
      · exact h
      · exact List.mem_append_left _ h
    · exact h

theorem mem_reachStep_next (D : Bytes) (c0 c : Spec.Gfx.Chunk) (st : List (Nat × Nat)) (pl : Bytes) (k off : Nat)
    (hf : c.fmt = c0.fmt) (hi : c.ids = c0.ids) (hp : c.payload = some pl) (hk : c.idx = k)
    (hpre : Spec.Gfx.prefixAt D off pl = true) (h : (k, off) ∈ st) :
    (k + 1, off + pl.length) ∈ Spec.Gfx.reachStep D c0 st (some c) := by
  unfold Spec.Gfx.reachStep
  simp only [hf, hi, and_self, if_true, hp]
  apply List.mem_append_right
  simp only [List.mem_map, List.mem_filter]
  exact ⟨(k, off), ⟨h, by simp [hk, hpre]⟩, rfl⟩

theorem take_succ_drop (cs : List (Option Spec.Gfx.Chunk)) (i p0 : Nat) (oc : Option Spec.Gfx.Chunk)
    (hi : cs[i]? = some oc) (hp : p0 < i) :
    (cs.take (i + 1)).drop (p0 + 1) = (cs.take i).drop (p0 + 1) ++ [oc] := by
  have hlt : i < cs.length := by
    rcases Nat.lt_or_ge i cs.length with h | h
    · exact h
    · rw [List.getElem?_eq_none h] at hi; exact absurd hi (by simp)
  rw [List.take_succ, hi]
  simp only [Option.toList_some]
  rw [List.drop_append_of_le_length (by rw [List.length_take]; omega)]

/-! ### prefixes -/

theorem prefixAt_nil (D : Bytes) (off : Nat) : Spec.Gfx.prefixAt D off [] = true := by simp [Spec.Gfx.prefixAt]

theorem prefixAt_self (D : Bytes) : Spec.Gfx.prefixAt D 0 D = true := by simp [Spec.Gfx.prefixAt]

theorem prefixAt_append (D a b : Bytes) :
    Spec.Gfx.prefixAt D 0 (a ++ b) = true ↔ Spec.Gfx.prefixAt D 0 a = true ∧ Spec.Gfx.prefixAt D a.length b = true := by
  simp only [Spec.Gfx.prefixAt, List.drop_zero, beq_iff_eq, List.length_append]
  rw [List.take_add]
  constructor
  · intro h
    have hl : (D.take a.length).length = a.length := by
      have := congrArg List.length h
      simp only [List.length_append, List.length_take, List.length_drop] at this
      rw [List.length_take]; omega
    exact List.append_inj h hl
  · rintro ⟨h1, h2⟩; rw [h1, h2]

end RawPanelVerif.Gfx

namespace RawPanelVerif.Gfx

/-! ### the step of the repaired batch decoder, case by case -/

/-- the locals after the optional "reset image intake" -/
def afterReset (s : BState) (p : Parsed) : BState := if p.idx = 0 then resetIntake s p else s

theorem stepP_cases (s : BState) (p : Parsed) :
    let s1 := afterReset s p
    (¬ (s1.ty = p.ty ∧ p.list = s1.list) ∧ Batch.stepP s p = (s1, none)) ∨
    ((s1.ty = p.ty ∧ p.list = s1.list) ∧ ¬ (p.idx = s1.count + 1 ∧ p.ok = true) ∧
        Batch.stepP s p = (s1.closed, none)) ∨
    ((s1.ty = p.ty ∧ p.list = s1.list) ∧ (p.idx = s1.count + 1 ∧ p.ok = true) ∧ p.idx ≠ s1.max ∧
        Batch.stepP s p =
          ({ s1 with count := s1.count + 1, store := appendAt s1.store s1.cur p.data }, none)) ∨
    ((s1.ty = p.ty ∧ p.list = s1.list) ∧ (p.idx = s1.count + 1 ∧ p.ok = true) ∧ p.idx = s1.max ∧
        Batch.stepP s p =
          ({ store := appendAt s1.store s1.cur p.data ++ [{}], cur := (appendAt s1.store s1.cur p.data).length,
             count := s1.count + 1, max := s1.max, list := [], ty := s1.ty },
            some (.gfx (intExplode s1.list) s1.cur))) := by
  intro s1
  have hs1 : (if p.idx = 0 then resetIntake s p else s) = s1 := rfl
  unfold Batch.stepP
  simp only [hs1]
  by_cases h1 : s1.ty = p.ty
  · by_cases h2 : p.list = s1.list
    · by_cases h3 : p.idx = s1.count + 1 ∧ p.ok = true
      · by_cases h4 : p.idx = s1.max
        · right; right; right
          refine ⟨⟨h1, h2⟩, h3, h4, ?_⟩
          simp only [h1, h2, h3, and_self, if_true]
          rw [if_pos (by have := h3.1; omega)]
        · right; right; left
          refine ⟨⟨h1, h2⟩, h3, h4, ?_⟩
          simp only [h1, h2, h3, and_self, if_true]
          rw [if_neg (by have := h3.1; omega)]
      · right; left
        exact ⟨⟨h1, h2⟩, h3, by simp only [h1, h2, if_true, h3, if_false]⟩
    · left; exact ⟨fun h => h2 h.2, by simp only [h1, h2, if_true, if_false]⟩
  · left; exact ⟨fun h => h1 h.1, by simp only [h1, if_false]⟩

theorem appendAt_length (st : List Img) (c : Nat) (bs : Bytes) : (appendAt st c bs).length = st.length := by
  simp [appendAt]

theorem appendAt_getD_ne (st : List Img) (c ref : Nat) (bs : Bytes) (h : ref ≠ c) :
    (appendAt st c bs).getD ref {} = st.getD ref {} := by
  simp only [appendAt, List.getD_eq_getElem?_getD]
  rw [List.getElem?_modify_ne _ _ (Ne.symm h)]

theorem appendAt_getD_self (st : List Img) (c : Nat) (bs : Bytes) (h : c < st.length) :
    (appendAt st c bs).getD c {} = { st.getD c {} with data := (st.getD c {}).data ++ bs } := by
  simp only [appendAt, List.getD_eq_getElem?_getD, List.getElem?_modify_eq, List.getElem?_eq_getElem h]
  rfl

theorem getD_append_lt (st x : List Img) (ref : Nat) (h : ref < st.length) :
    (st ++ x).getD ref {} = st.getD ref {} := by
  simp only [List.getD_eq_getElem?_getD, List.getElem?_append_left h]

theorem getD_append_len (st : List Img) (x : Img) : (st ++ [x]).getD st.length {} = x := by
  simp [List.getD_eq_getElem?_getD]

/-- heap discipline of one step: cells below the current one are never written, the current index never decreases -/
theorem stepP_store (s : BState) (p : Parsed) (hc : s.cur < s.store.length) :
    (Batch.stepP s p).1.cur < (Batch.stepP s p).1.store.length ∧ s.cur ≤ (Batch.stepP s p).1.cur ∧
      ∀ ref, ref < s.cur → (Batch.stepP s p).1.store.getD ref {} = s.store.getD ref {} := by
  have h1 : (afterReset s p).cur < (afterReset s p).store.length ∧ s.cur ≤ (afterReset s p).cur ∧
      ∀ ref, ref < s.cur → (afterReset s p).store.getD ref {} = s.store.getD ref {} := by
    unfold afterReset
    split
    · simp only [resetIntake, List.length_append, List.length_singleton]
      refine ⟨by omega, by omega, fun ref hr => getD_append_lt _ _ _ (by omega)⟩
    · exact ⟨hc, Nat.le_refl _, fun _ _ => rfl⟩
  obtain ⟨ha, hb, hd⟩ := h1
  rcases stepP_cases s p with ⟨_, h⟩ | ⟨_, _, h⟩ | ⟨_, _, _, h⟩ | ⟨_, _, _, h⟩
  · rw [h]; exact ⟨ha, hb, hd⟩
  · rw [h]; exact ⟨ha, hb, hd⟩
  · rw [h]
    simp only [appendAt_length]
    refine ⟨ha, hb, fun ref hr => ?_⟩
    rw [appendAt_getD_ne _ _ _ _ (by omega)]; exact hd ref hr
  · rw [h]
    simp only [appendAt_length, List.length_append, List.length_singleton]
    refine ⟨by omega, by omega, fun ref hr => ?_⟩
    rw [getD_append_lt _ _ _ (by rw [appendAt_length]; omega), appendAt_getD_ne _ _ _ _ (by omega)]
    exact hd ref hr

theorem step_store (s : BState) (l : Bytes) (hc : s.cur < s.store.length) :
    (Batch.step s l).1.cur < (Batch.step s l).1.store.length ∧ s.cur ≤ (Batch.step s l).1.cur ∧
      ∀ ref, ref < s.cur → (Batch.step s l).1.store.getD ref {} = s.store.getD ref {} := by
  rw [step_eq]
  cases parseLine? l with
  | none => exact ⟨hc, Nat.le_refl _, fun _ _ => rfl⟩
  | some p => exact stepP_store s p hc

/-- cells below the current one keep their content for the rest of the call -/
theorem run_stable : ∀ (ls : List Bytes) (s : BState) (pos : Nat), s.cur < s.store.length →
    ∀ ref, ref < s.cur → (Batch.runFrom Batch.step s pos ls).1.store.getD ref {} = s.store.getD ref {} := by
  intro ls
  induction ls with
  | nil => intro s pos _ ref _; rfl
  | cons l ls ih =>
    intro s pos hc ref hr
    obtain ⟨h1, h2, h3⟩ := step_store s l hc
    have := ih (Batch.step s l).1 (pos + 1) h1 ref (by omega)
    simp only [Batch.runFrom]
    split
    · simp only; rw [this, h3 ref hr]
    · rw [this, h3 ref hr]

end RawPanelVerif.Gfx

namespace RawPanelVerif.Gfx

/-! ### the invariant of the repaired batch decoder over an arbitrary history -/

/-- the Spec only looks at the metadata of the image, not at its bytes -/
theorem metaOK_data (h : Spec.Gfx.Header) (c0 : Spec.Gfx.Chunk) (ids : List Nat) (i : Img) (D : Bytes) :
    Spec.Gfx.metaOK h c0 (specImg ids { i with data := D }) = Spec.Gfx.metaOK h c0 (specImg ids i) := rfl

theorem metaOK_hdrImg (c : Spec.Gfx.Chunk) :
    Spec.Gfx.metaOK (Spec.Gfx.declared c) c (specImg (Spec.Gfx.idsOf c.ids) (hdrImg (Spec.Gfx.declared c) c.fmt)) = true := by
  unfold Spec.Gfx.metaOK specImg hdrImg
  cases hxy : (Spec.Gfx.declared c).xy with
  | none => simp
  | some xy => obtain ⟨x, y⟩ := xy; simp

/-- a transfer is open: ghost position `p0` of its chunk 0, `k` = index of the last accepted chunk -/
structure OpenB (cs : List (Option Spec.Gfx.Chunk)) (i : Nat) (s : BState) (p0 : Nat) (c0 : Spec.Gfx.Chunk)
    (pl0 : Bytes) (k : Nat) : Prop where
  lt : p0 < i
  at0 : cs[p0]? = some (some c0)
  idx0 : c0.idx = 0
  pay0 : c0.payload = some pl0
  nozero : ∀ q, p0 < q → q < i → Spec.Gfx.isChunk0 cs[q]? = false
  list : s.list = c0.ids
  ty : s.ty = c0.fmt
  max : s.max = ((Spec.Gfx.declared c0).last : Int)
  count : s.count = (k : Int)
  ids : intExplode c0.ids = Spec.Gfx.idsOf c0.ids
  ne : c0.ids ≠ []
  metaok : Spec.Gfx.metaOK (Spec.Gfx.declared c0) c0 (specImg (Spec.Gfx.idsOf c0.ids) (s.store.getD s.cur {})) = true
  pre : Spec.Gfx.prefixAt (s.store.getD s.cur {}).data 0 pl0 = true
  reach : ∀ D, Spec.Gfx.prefixAt D 0 (s.store.getD s.cur {}).data = true →
    (k + 1, (s.store.getD s.cur {}).data.length) ∈
      Spec.Gfx.reach D c0 pl0.length ((cs.take i).drop (p0 + 1))

/-- invariant after `i` lines: heap index sane, all delivered transfers started before any open one -/
def InvB (cs : List (Option Spec.Gfx.Chunk)) (i : Nat) (s : BState) (used : List Nat) : Prop :=
  s.cur < s.store.length ∧ (∀ u ∈ used, u < i) ∧
    (s.list = [] ∨ ∃ p0 c0 pl0 k, OpenB cs i s p0 c0 pl0 k ∧ ∀ u ∈ used, u < p0)

theorem isChunk0_some (c : Spec.Gfx.Chunk) : Spec.Gfx.isChunk0 (some (some c)) = (c.idx == 0) := rfl

/-- a line that leaves the locals alone and is not a chunk 0 keeps the invariant -/
theorem inv_skip (cs : List (Option Spec.Gfx.Chunk)) (i : Nat) (s : BState) (used : List Nat) (oc : Option Spec.Gfx.Chunk)
    (hi : cs[i]? = some oc) (hz : Spec.Gfx.isChunk0 (some oc) = false) (h : InvB cs i s used) :
    InvB cs (i + 1) s used := by
  obtain ⟨h1, h2, h3⟩ := h
  refine ⟨h1, fun u hu => by have := h2 u hu; omega, ?_⟩
  rcases h3 with h3 | ⟨p0, c0, pl0, k, ho, hu⟩
  · exact Or.inl h3
  · refine Or.inr ⟨p0, c0, pl0, k, ?_, hu⟩
    refine { ho with lt := by have := ho.lt; omega, nozero := ?_, reach := ?_ }
    · intro q hq1 hq2
      rcases Nat.lt_or_ge q i with hlt | hge
      · exact ho.nozero q hq1 hlt
      · have : q = i := by omega
        subst this; rw [hi]; exact hz
    · intro D hD
      rw [take_succ_drop cs i p0 oc hi ho.lt, reach_snoc]
      exact mem_reachStep_of_mem _ _ _ _ _ (ho.reach D hD)

theorem prefixAt_mono (a b x : Bytes) (h : Spec.Gfx.prefixAt a 0 x = true) : Spec.Gfx.prefixAt (a ++ b) 0 x = true := by
  simp only [Spec.Gfx.prefixAt, List.drop_zero, beq_iff_eq] at h ⊢
  have hl : x.length ≤ a.length := by
    have := congrArg List.length h
    simp only [List.length_take] at this; omega
  rw [List.take_append_of_le_length hl]; exact h

theorem closed_inv (cs : List (Option Spec.Gfx.Chunk)) (i : Nat) (s : BState) (used : List Nat)
    (hc : s.cur < s.store.length) (hu : ∀ u ∈ used, u < i) (hl : s.list = []) : InvB cs i s used :=
  ⟨hc, hu, Or.inl hl⟩

end RawPanelVerif.Gfx

namespace RawPanelVerif.Gfx

theorem legitAt_intro (cs : List (Option Spec.Gfx.Chunk)) (p p0 : Nat) (c0 c : Spec.Gfx.Chunk) (pl0 pl : Bytes)
    (d : Spec.Gfx.Img) (hs : Spec.Gfx.startOf cs p = some p0) (h0 : cs[p0]? = some (some c0))
    (hp : cs[p]? = some (some c)) (hpl0 : c0.payload = some pl0) (hpl : c.payload = some pl)
    (hm : Spec.Gfx.metaOK (Spec.Gfx.declared c0) c0 d = true) (hf : c.fmt = c0.fmt) (hids : c.ids = c0.ids)
    (hidx : c.idx = (Spec.Gfx.declared c0).last)
    (hdata : if p = p0 then d.data = pl0 else
      Spec.Gfx.prefixAt d.data 0 pl0 = true ∧
        ∃ ko ∈ Spec.Gfx.reach d.data c0 pl0.length ((cs.take p).drop (p0 + 1)),
          ko.1 = (Spec.Gfx.declared c0).last ∧ d.data.drop ko.2 = pl) :
    Spec.Gfx.legitAt cs p d = some p0 := by
  unfold Spec.Gfx.legitAt
  simp only [hs, h0, hp, hpl0, hpl]
  rw [if_pos]
  simp only [hm, hf, hids, hidx, beq_self_eq_true, Bool.true_and, Bool.and_eq_true]
  by_cases hpp : p = p0
  · simp only [hpp, if_true] at hdata ⊢
    simp [hdata]
  · simp only [hpp, if_false] at hdata ⊢
    obtain ⟨h1, ko, hk1, hk2, hk3⟩ := hdata
    simp only [h1, Bool.true_and, List.any_eq_true, Bool.and_eq_true, beq_iff_eq]
    exact ⟨ko, hk1, hk2, hk3⟩

end RawPanelVerif.Gfx

namespace RawPanelVerif.Gfx

/-- what one step must establish: either nothing is delivered and the invariant moves on, or an image is delivered
that is legitimate at this line, belongs to a transfer that started after all delivered ones, sits in a cell below
the new current one, and the invariant moves on with that transfer recorded -/
def StepOK (cs : List (Option Spec.Gfx.Chunk)) (i : Nat) (used : List Nat) (r : BState × Option Out) : Prop :=
  (r.2 = none ∧ InvB cs (i + 1) r.1 used) ∨
  (∃ ids ref p0, r.2 = some (.gfx ids ref) ∧
    Spec.Gfx.legitAt cs i (specImg ids (r.1.store.getD ref {})) = some p0 ∧ (∀ u ∈ used, u < p0) ∧
    ref < r.1.cur ∧ InvB cs (i + 1) r.1 (p0 :: used))

theorem inv_step_zero (cs : List (Option Spec.Gfx.Chunk)) (i : Nat) (s : BState) (used : List Nat) (p : Parsed)
    (c : Spec.Gfx.Chunk) (hi : cs[i]? = some (some c)) (hr : Rel p c) (hz : c.idx = 0) (h : InvB cs i s used) :
    StepOK cs i used (Batch.stepP s p) := by
  obtain ⟨hcur, hused, _⟩ := h
  have hp0 : p.idx = 0 := by rw [hr.idx, hz]; rfl
  have hs1 : afterReset s p = resetIntake s p := by simp [afterReset, hp0]
  have himg : p.img.data = [] := by rw [hr.img]; rfl
  have hcell : (appendAt (s.store ++ [p.img]) s.store.length p.data).getD s.store.length {} =
      { p.img with data := p.data } := by
    rw [appendAt_last, getD_append_len, himg]; rfl
  have hused' : ∀ u ∈ used, u < i + 1 := fun u hu => by have := hused u hu; omega
  have hmeta : ∀ D, Spec.Gfx.metaOK (Spec.Gfx.declared c) c
      (specImg (Spec.Gfx.idsOf c.ids) { p.img with data := D }) = true := by
    intro D; rw [metaOK_data, hr.img]; exact metaOK_hdrImg c
  have h0 : Spec.Gfx.isChunk0 cs[i]? = true := by rw [hi, isChunk0_some, hz]; rfl
  have hcases := stepP_cases s p
  simp only [hs1] at hcases
  rcases hcases with ⟨hn, _⟩ | ⟨_, hn, he⟩ | ⟨_, ha, hm, he⟩ | ⟨_, ha, hm, he⟩
  · exact absurd ⟨rfl, rfl⟩ hn
  · left; rw [he]
    exact ⟨rfl, closed_inv _ _ _ _ (by simp [BState.closed, resetIntake]) hused' rfl⟩
  · -- chunk 0 accepted, more to come
    left; rw [he]
    have hpay : c.payload = some p.data := by rw [hr.payload, ha.2]; rfl
    refine ⟨rfl, by simp [resetIntake, appendAt_length], hused', Or.inr ⟨i, c, p.data, 0, ?_, hused⟩⟩
    simp only [resetIntake]
    refine { lt := by omega, at0 := hi, idx0 := hz, pay0 := hpay, nozero := fun q h1 h2 => by omega,
             list := hr.list, ty := hr.ty, max := hr.max, count := by simp, ids := hr.ids, ne := hr.ids_ne,
             metaok := ?_, pre := ?_, reach := ?_ }
    · simp only [hcell]; exact hmeta _
    · simp only [hcell]; exact prefixAt_self _
    · intro D _
      simp only [hcell]
      have : (cs.take (i + 1)).drop (i + 1) = [] := by
        apply List.drop_eq_nil_of_le; rw [List.length_take]; omega
      rw [this]; simp [Spec.Gfx.reach]
  · -- chunk 0 is the whole transfer
    right; rw [he]
    have hpay : c.payload = some p.data := by rw [hr.payload, ha.2]; rfl
    refine ⟨intExplode p.list, s.store.length, i, by simp [resetIntake], ?_, hused, ?_, ?_⟩
    · simp only [resetIntake]
      rw [getD_append_lt _ _ _ (by rw [appendAt_length]; simp), hcell, hr.list, hr.ids]
      have hlast : c.idx = (Spec.Gfx.declared c).last := by
        have h1 := hr.idx; have h2 := hr.max
        simp only [resetIntake] at hm
        omega
      exact legitAt_intro cs i i c c p.data p.data _ (by simpa using startOf_of cs i h0 0 (fun q h1 h2 => by omega))
        hi hi hpay hpay (hmeta _) rfl rfl hlast (by simp [specImg])
    · simp [resetIntake, appendAt_length]
    · exact closed_inv _ _ _ _ (by simp [resetIntake, appendAt_length])
        (by intro u hu; simp only [List.mem_cons] at hu; rcases hu with rfl | hu
            · omega
            · exact hused' u hu) rfl

end RawPanelVerif.Gfx

namespace RawPanelVerif.Gfx

theorem inv_step_next (cs : List (Option Spec.Gfx.Chunk)) (i : Nat) (s : BState) (used : List Nat) (p : Parsed)
    (c : Spec.Gfx.Chunk) (hi : cs[i]? = some (some c)) (hr : Rel p c) (hz : c.idx ≠ 0) (h : InvB cs i s used) :
    StepOK cs i used (Batch.stepP s p) := by
  have hinv := h
  obtain ⟨hcur, hused, hopen⟩ := h
  have hp0 : ¬ (p.idx = 0) := by rw [hr.idx]; omega
  have hs1 : afterReset s p = s := by simp [afterReset, hp0]
  have hused' : ∀ u ∈ used, u < i + 1 := fun u hu => by have := hused u hu; omega
  have hnz : Spec.Gfx.isChunk0 (some (some c)) = false := by rw [isChunk0_some]; simpa using hz
  have hcases := stepP_cases s p
  simp only [hs1] at hcases
  rcases hcases with ⟨_, he⟩ | ⟨hmatch, hn, he⟩ | ⟨hmatch, ha, hm, he⟩ | ⟨hmatch, ha, hm, he⟩
  · -- not for the transfer in progress: ignored
    left; rw [he]; exact ⟨rfl, inv_skip cs i s used (some c) hi hnz hinv⟩
  · -- out of sequence or damaged: transfer dropped
    left; rw [he]; exact ⟨rfl, closed_inv _ _ _ _ hcur hused' rfl⟩
  · -- accepted, more to come
    left; rw [he]
    rcases hopen with hcl | ⟨p0, c0, pl0, k, ho, hu⟩
    · exact absurd (show c.ids = [] by rw [← hr.list, hmatch.2, hcl]) hr.ids_ne
    · have hfmt : c.fmt = c0.fmt := by rw [← hr.ty, ← hmatch.1, ho.ty]
      have hids : c.ids = c0.ids := by rw [← hr.list, hmatch.2, ho.list]
      have hpay : c.payload = some p.data := by rw [hr.payload, ha.2]; rfl
      have hidx : c.idx = k + 1 := by
        have h1 := hr.idx; have h2 := ho.count; have h3 := ha.1; omega
      have hcell : (appendAt s.store s.cur p.data).getD s.cur {} =
          { s.store.getD s.cur {} with data := (s.store.getD s.cur {}).data ++ p.data } :=
        appendAt_getD_self _ _ _ hcur
      refine ⟨rfl, by simpa [appendAt_length] using hcur, hused', Or.inr ⟨p0, c0, pl0, k + 1, ?_, hu⟩⟩
      refine { lt := by have := ho.lt; omega, at0 := ho.at0, idx0 := ho.idx0, pay0 := ho.pay0, nozero := ?_,
               list := ho.list, ty := ho.ty, max := ho.max, count := by simp [ho.count], ids := ho.ids,
               ne := ho.ne, metaok := ?_, pre := ?_, reach := ?_ }
      · intro q hq1 hq2
        rcases Nat.lt_or_ge q i with hlt | hge
        · exact ho.nozero q hq1 hlt
        · have : q = i := by omega
          subst this; rw [hi]; exact hnz
      · simp only [hcell]; rw [metaOK_data]; exact ho.metaok
      · simp only [hcell]; exact prefixAt_mono _ _ _ ho.pre
      · intro D hD
        simp only [hcell] at hD ⊢
        rw [prefixAt_append] at hD
        rw [take_succ_drop cs i p0 (some c) hi ho.lt, reach_snoc, List.length_append]
        exact mem_reachStep_next D c0 c _ p.data (k + 1) _ hfmt hids hpay hidx hD.2 (ho.reach D hD.1)
  · -- accepted and complete: delivered
    right; rw [he]
    rcases hopen with hcl | ⟨p0, c0, pl0, k, ho, hu⟩
    · exact absurd (show c.ids = [] by rw [← hr.list, hmatch.2, hcl]) hr.ids_ne
    · have hfmt : c.fmt = c0.fmt := by rw [← hr.ty, ← hmatch.1, ho.ty]
      have hids : c.ids = c0.ids := by rw [← hr.list, hmatch.2, ho.list]
      have hpay : c.payload = some p.data := by rw [hr.payload, ha.2]; rfl
      have hidx : c.idx = k + 1 := by
        have h1 := hr.idx; have h2 := ho.count; have h3 := ha.1; omega
      have hlast : c.idx = (Spec.Gfx.declared c0).last := by
        have h1 := hr.idx; have h2 := ho.max; omega
      have hcell : (appendAt s.store s.cur p.data).getD s.cur {} =
          { s.store.getD s.cur {} with data := (s.store.getD s.cur {}).data ++ p.data } :=
        appendAt_getD_self _ _ _ hcur
      refine ⟨intExplode s.list, s.cur, p0, rfl, ?_, hu, by simpa [appendAt_length] using hcur, ?_⟩
      · simp only []
        rw [getD_append_lt _ _ _ (by rw [appendAt_length]; exact hcur), hcell, ho.list, ho.ids]
        have hstart : Spec.Gfx.startOf cs i = some p0 := by
          have h0 : Spec.Gfx.isChunk0 cs[p0]? = true := by rw [ho.at0, isChunk0_some, ho.idx0]; rfl
          have := startOf_of cs p0 h0 (i - p0) (fun q h1 h2 => by
            rcases Nat.lt_or_ge q i with hlt | hge
            · exact ho.nozero q h1 hlt
            · have : q = i := by have := ho.lt; omega
              subst this; rw [hi]; exact hnz)
          rwa [show p0 + (i - p0) = i by have := ho.lt; omega] at this
        refine legitAt_intro cs i p0 c0 c pl0 p.data _ hstart ho.at0 hi ho.pay0 hpay ?_ hfmt hids hlast ?_
        · rw [metaOK_data]; exact ho.metaok
        · have hne : ¬ (i = p0) := by have := ho.lt; omega
          simp only [hne, if_false, specImg]
          refine ⟨prefixAt_mono _ _ _ ho.pre, (k + 1, (s.store.getD s.cur {}).data.length), ?_, ?_, ?_⟩
          · exact ho.reach _ (prefixAt_mono _ _ _ (prefixAt_self _))
          · simp only []; omega
          · simp only [List.drop_left]
      · exact closed_inv _ _ _ _ (by simp [appendAt_length])
          (by intro u hu'; simp only [List.mem_cons] at hu'; rcases hu' with rfl | hu'
              · have := ho.lt; omega
              · exact hused' u hu') rfl

end RawPanelVerif.Gfx

namespace RawPanelVerif.Gfx

/-- what the Spec gets to see of the messages of one call: image as it was when the message was created (ghost
snapshot) and the bytes its object holds in the heap `final` -/
def delivsOf (final : List Img) (evs : List Event) : List Spec.Gfx.Deliv :=
  evs.filterMap (fun e =>
    match e.out with
    | .gfx ids ref =>
      some { pos := some e.pos, img := specImg ids (e.snap.getD ref {}), final := (final.getD ref {}).data }
    | .other _ => none)

theorem read_cases (l : Bytes) :
    (parseLine? l = none ∧ readLine l = none) ∨
      ∃ m, matchGfx l = some m ∧ parseLine? l = some (parsedOf m) ∧ readLine l = some (chunkOf m) := by
  unfold parseLine? readLine
  cases h : matchGfx l with
  | none => left; simp
  | some m => right; exact ⟨m, rfl, by simp, by simp⟩

theorem drop_cons_facts {α} (lines : List α) (i : Nat) (l : α) (ls : List α) (h : lines.drop i = l :: ls) :
    lines[i]? = some l ∧ lines.drop (i + 1) = ls := by
  constructor
  · have := congrArg List.head? h
    simpa [List.head?_drop] using this
  · have := congrArg List.tail h
    simpa [List.tail_drop] using this

theorem batch_good (lines : List Bytes) (hdom : Spec.Gfx.inDomainOn (lines.map readLine) = true) :
    ∀ (rest : List Bytes) (i : Nat) (s : BState) (used : List Nat), lines.drop i = rest →
      InvB (lines.map readLine) i s used →
      Good (lines.map readLine)
        (delivsOf (Batch.runFrom Batch.step s i rest).1.store (Batch.runFrom Batch.step s i rest).2) used := by
  intro rest
  induction rest with
  | nil => intro i s used _ _; exact Good.nil used
  | cons l ls ih =>
    intro i s used hdrop hinv
    obtain ⟨hl, hdrop'⟩ := drop_cons_facts lines i l ls hdrop
    have hci : (lines.map readLine)[i]? = some (readLine l) := by simp [hl]
    simp only [Batch.runFrom]
    rcases read_cases l with ⟨hp, hrd⟩ | ⟨m, hm, hp, hrd⟩
    · -- not a graphics line
      have hstep : Batch.step s l = (s, some (.other l)) := by rw [step_eq, hp]
      rw [hstep]
      simp only [delivsOf, List.filterMap_cons]
      rw [hrd] at hci
      exact ih (i + 1) s used hdrop' (inv_skip _ i s used none hci rfl hinv)
    · have hsmall : (chunkOf m).small = true := by
        have := List.all_eq_true.mp hdom (some (chunkOf m)) (by
          rw [← hrd]; exact List.mem_of_getElem? hci)
        simpa using this
      have hrel := rel_of_match l m hm hsmall
      rw [hrd] at hci
      have hok : StepOK (lines.map readLine) i used (Batch.stepP s (parsedOf m)) := by
        by_cases hz : (chunkOf m).idx = 0
        · exact inv_step_zero _ i s used _ _ hci hrel hz hinv
        · exact inv_step_next _ i s used _ _ hci hrel hz hinv
      have hstep : Batch.step s l = Batch.stepP s (parsedOf m) := by rw [step_eq, hp]
      rw [hstep]
      rcases hok with ⟨hnone, hinv'⟩ | ⟨ids, ref, p0, hsome, hleg, hu, href, hinv'⟩
      · simp only [hnone]
        exact ih (i + 1) _ used hdrop' hinv'
      · simp only [hsome, delivsOf, List.filterMap_cons]
        refine Good.cons _ _ used i p0 rfl hleg (fun hmem => by have := hu p0 hmem; omega) ?_
          (ih (i + 1) _ (p0 :: used) hdrop' hinv')
        simp only [specImg]
        rw [run_stable ls _ (i + 1) hinv'.1 ref href]

/-- **batch safety**: for every history in the domain, the deliveries of one call of the repaired decoder pass the
Spec's check -/
theorem batch_safe (lines : List Bytes) (hdom : Spec.Gfx.inDomainOn (lines.map readLine) = true) :
    Spec.Gfx.safetyOn (lines.map readLine)
      (delivsOf (Batch.run Batch.step lines).1.store (Batch.run Batch.step lines).2) = none := by
  unfold Spec.Gfx.safetyOn Batch.run
  apply safetyLoop_of_good
  exact batch_good lines hdom lines 0 {} [] rfl
    ⟨by decide, fun u hu => by simp at hu, Or.inl rfl⟩

end RawPanelVerif.Gfx
