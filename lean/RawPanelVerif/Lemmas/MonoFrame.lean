import RawPanelVerif.Model.Mono
/-!
# Frame / paint calculus for the mono canvas

`Touch R c c'` : geometry and well-formedness are kept and every stored bit outside `R` is unchanged.
`Paint R v c c'`: additionally every stored bit inside `R` has value `v` afterwards.
Both compose along loops, which is all the composite drawing primitives are.
-/
namespace RawPanelVerif.Mono

theorem setBit_get (b : BitVec 8) (s k : Nat) (hs : s < 8) (hk : k < 8) (on : Bool) :
    (setBit b s on).getLsbD k = (if k = s then on else b.getLsbD k) := by
  have : s = 0 ∨ s = 1 ∨ s = 2 ∨ s = 3 ∨ s = 4 ∨ s = 5 ∨ s = 6 ∨ s = 7 := by omega
  have : k = 0 ∨ k = 1 ∨ k = 2 ∨ k = 3 ∨ k = 4 ∨ k = 5 ∨ k = 6 ∨ k = 7 := by omega
  unfold setBit
  cases on <;>
  rcases ‹s = 0 ∨ _› with h|h|h|h|h|h|h|h <;> subst h <;>
  rcases ‹k = 0 ∨ _› with h|h|h|h|h|h|h|h <;> subst h <;> simp <;> bv_omega

theorem idx_inj (w y y' a a' : Nat) (ha : a < w) (ha' : a' < w) (h : y * w + a = y' * w + a') :
    y = y' ∧ a = a' := by
  have h1 : (y * w + a) / w = y := by
    rw [Nat.mul_comm, Nat.mul_add_div (by omega)]; simp [Nat.div_eq_of_lt ha]
  have h2 : (y' * w + a') / w = y' := by
    rw [Nat.mul_comm, Nat.mul_add_div (by omega)]; simp [Nat.div_eq_of_lt ha']
  have : y = y' := by rw [← h1, ← h2, h]
  subst this
  exact ⟨rfl, by omega⟩

theorem wMax_le (g : Geom) : wMax g ≤ g.W := by unfold wMax; split <;> omega
theorem hMax_le (g : Geom) : hMax g ≤ g.H := by unfold hMax; split <;> omega
theorem xMin_nonneg (g : Geom) : 0 ≤ xMin g := by unfold xMin; split <;> omega
theorem yMin_nonneg (g : Geom) : 0 ≤ yMin g := by unfold yMin; split <;> omega

theorem inClip_bounds {g : Geom} {X Y : Int} (h : inClip g X Y) :
    0 ≤ X ∧ 0 ≤ Y ∧ X < g.W ∧ Y < g.H := by
  obtain ⟨h1, h2, h3, h4⟩ := h
  have := wMax_le g; have := hMax_le g; have := xMin_nonneg g; have := yMin_nonneg g
  omega

theorem drawPixel_geo (c : Canvas) (x y : Int) (col : Bool) : (drawPixel c x y col).geo = c.geo := by
  unfold drawPixel; simp only []; split
  · split <;> rfl
  · rfl

theorem drawPixel_len (c : Canvas) (x y : Int) (col : Bool) :
    (drawPixel c x y col).bytes.size = c.bytes.size := by
  unfold drawPixel; simp only []; split
  · split <;> simp
  · rfl

theorem drawPixel_wf (c : Canvas) (x y : Int) (col : Bool) (h : c.WF) : (drawPixel c x y col).WF := by
  unfold Canvas.WF at *
  rw [drawPixel_geo, drawPixel_len]; exact h

/-- **Exact effect of `DrawPixel`** on every stored bit (padding bits included). -/
theorem drawPixel_exact' (c : Canvas) (hwf : c.WF) (x y : Int) (col : Bool) (X' Y' : Nat)
    (hX' : X' < c.geo.wib * 8) :
    getPx (drawPixel c x y col) X' Y' =
      if inClip c.geo (x + c.geo.bx) (y + c.geo.byy) ∧ (X' : Int) = x + c.geo.bx ∧ (Y' : Int) = y + c.geo.byy
      then (col != c.geo.inv) else getPx c X' Y' := by
  obtain ⟨hw, hl⟩ := hwf
  unfold drawPixel
  simp only []
  by_cases hc : inClip c.geo (x + c.geo.bx) (y + c.geo.byy)
  · obtain ⟨hX0, hY0, hXW, hYH⟩ := inClip_bounds hc
    rw [if_pos hc]
    generalize x + c.geo.bx = Xi at *
    generalize y + c.geo.byy = Yi at *
    obtain ⟨X, hX⟩ := Int.eq_ofNat_of_zero_le hX0
    obtain ⟨Y, hY⟩ := Int.eq_ofNat_of_zero_le hY0
    subst hX hY
    have hXW : X < c.geo.W := by omega
    have hYH : Y < c.geo.H := by omega
    have htd : (X : Int).tdiv 8 = ((X / 8 : Nat) : Int) := by
      rw [Int.tdiv_eq_ediv_of_nonneg (by omega)]; rfl
    have htm : (X : Int).tmod 8 = ((X % 8 : Nat) : Int) := by
      rw [Int.tmod_eq_emod_of_nonneg (by omega)]; rfl
    have hidx : (Y : Int) * c.geo.wib + (X:Int).tdiv 8 = ((Y * c.geo.wib + X / 8 : Nat) : Int) := by
      rw [htd]; simp
    have hX8 : X / 8 < c.geo.wib := by omega
    have hlt : Y * c.geo.wib + X / 8 < c.bytes.size := by
      refine Nat.lt_of_lt_of_le ?_ hl
      calc Y * c.geo.wib + X / 8 < Y * c.geo.wib + c.geo.wib := by omega
        _ = (Y + 1) * c.geo.wib := by rw [Nat.add_mul]; simp
        _ ≤ c.geo.H * c.geo.wib := Nat.mul_le_mul_right _ (by omega)
        _ = c.geo.wib * c.geo.H := Nat.mul_comm _ _
    rw [hidx]
    have hin : (0:Int) ≤ ((Y * c.geo.wib + X / 8 : Nat) : Int) ∧
        ((Y * c.geo.wib + X / 8 : Nat) : Int) < (c.bytes.size : Int) := by
      constructor <;> omega
    rw [if_pos hin]
    simp only [Int.toNat_natCast, hc, true_and]
    rw [htm]
    have hs : (7 - ((X % 8 : Nat) : Int)).toNat = 7 - X % 8 := by omega
    rw [hs]
    unfold getPx
    simp only []
    by_cases hsame : Y' * c.geo.wib + X' / 8 = Y * c.geo.wib + X / 8
    · have hX'8 : X' / 8 < c.geo.wib := by omega
      obtain ⟨hyy, hxx⟩ := idx_inj c.geo.wib Y' Y (X'/8) (X/8) hX'8 hX8 hsame
      subst hyy
      rw [hsame, Array.getD_eq_getD_getElem?, Array.getElem?_setIfInBounds_self, if_pos hlt]
      simp only [Option.getD_some]
      rw [setBit_get _ _ _ (by omega) (by omega)]
      by_cases hbit : X' % 8 = X % 8
      · have : X' = X := by omega
        subst this; simp
      · have h1 : ¬ (7 - X' % 8 = 7 - X % 8) := by omega
        have h2 : ¬ ((X':Int) = X) := by omega
        simp [h1, h2, Array.getD_eq_getD_getElem?]
    · have hne : ¬ ((X':Int) = X ∧ (Y':Int) = Y) := by
        rintro ⟨h1, h2⟩
        have : X' = X := by omega
        have : Y' = Y := by omega
        subst_vars; exact hsame rfl
      rw [if_neg hne, Array.getD_eq_getD_getElem?, Array.getElem?_setIfInBounds_ne (Ne.symm hsame),
        ← Array.getD_eq_getD_getElem?]
  · rw [if_neg hc]; simp [hc]

theorem drawPixel_exact (c : Canvas) (hwf : c.WF) (x y : Int) (col : Bool) (X' Y' : Nat)
    (hX' : X' < c.geo.wib * 8) (_hY' : Y' < c.geo.H) :
    getPx (drawPixel c x y col) X' Y' =
      if inClip c.geo (x + c.geo.bx) (y + c.geo.byy) ∧ (X' : Int) = x + c.geo.bx ∧ (Y' : Int) = y + c.geo.byy
      then (col != c.geo.inv) else getPx c X' Y' := drawPixel_exact' c hwf x y col X' Y' hX'

/-- bytes beyond the `wib·H` bytes of the canvas rows (a longer slice installed by `CreateFromBytes`) are never written -/
theorem drawPixel_tail (c : Canvas) (hwf : c.WF) (x y : Int) (col : Bool) (i : Nat) (hi : c.geo.wib * c.geo.H ≤ i) :
    (drawPixel c x y col).bytes[i]? = c.bytes[i]? := by
  have hw := hwf.1
  unfold drawPixel
  simp only []
  split
  · rename_i hc
    obtain ⟨hX0, hY0, hXW, hYH⟩ := inClip_bounds hc
    split
    · generalize x + c.geo.bx = Xi at *
      generalize y + c.geo.byy = Yi at *
      obtain ⟨X, hX⟩ := Int.eq_ofNat_of_zero_le hX0
      obtain ⟨Y, hY⟩ := Int.eq_ofNat_of_zero_le hY0
      subst hX hY
      have htd : (X : Int).tdiv 8 = ((X / 8 : Nat) : Int) := by
        rw [Int.tdiv_eq_ediv_of_nonneg (by omega)]; rfl
      have hidx : ((Y : Int) * c.geo.wib + (X:Int).tdiv 8).toNat = Y * c.geo.wib + X / 8 := by
        rw [htd]; omega
      rw [hidx]
      have hlt : Y * c.geo.wib + X / 8 < c.geo.wib * c.geo.H := by
        have hYH : Y < c.geo.H := by omega
        have hX8 : X / 8 < c.geo.wib := by omega
        calc Y * c.geo.wib + X / 8 < Y * c.geo.wib + c.geo.wib := by omega
          _ = (Y + 1) * c.geo.wib := by rw [Nat.add_mul]; simp
          _ ≤ c.geo.H * c.geo.wib := Nat.mul_le_mul_right _ (by omega)
          _ = c.geo.wib * c.geo.H := Nat.mul_comm _ _
      have hne : Y * c.geo.wib + X / 8 ≠ i := by omega
      simp only [Array.getElem?_setIfInBounds_ne hne]
    · rfl
  · rfl

/-! ## Touch / Paint -/

/-- stored-bit region predicate -/
abbrev Region := Nat → Nat → Prop

structure Touch (R : Region) (c c' : Canvas) : Prop where
  wf : c'.WF
  geo : c'.geo = c.geo
  same : ∀ X Y, X < c.geo.wib * 8 → Y < c.geo.H → ¬ R X Y → getPx c' X Y = getPx c X Y
  /-- the buffer keeps its size … -/
  size : c'.bytes.size = c.bytes.size
  /-- … and bytes beyond the `wib·H` row bytes (longer slice from `CreateFromBytes`) keep their value -/
  tail : ∀ i, c.geo.wib * c.geo.H ≤ i → c'.bytes[i]? = c.bytes[i]?

structure Paint (R : Region) (v : Bool) (c c' : Canvas) : Prop extends Touch R c c' where
  inside : ∀ X Y, X < c.geo.wib * 8 → Y < c.geo.H → R X Y → getPx c' X Y = v

theorem Touch.refl (R : Region) (c : Canvas) (h : c.WF) : Touch R c c :=
  ⟨h, rfl, fun _ _ _ _ _ => rfl, rfl, fun _ _ => rfl⟩

theorem Touch.mono {R R' : Region} {c c' : Canvas} (h : Touch R c c') (hsub : ∀ X Y, R X Y → R' X Y) :
    Touch R' c c' := ⟨h.wf, h.geo, fun X Y hX hY hn => h.same X Y hX hY (fun hr => hn (hsub X Y hr)), h.size, h.tail⟩

theorem Touch.trans {R : Region} {a b c : Canvas} (h1 : Touch R a b) (h2 : Touch R b c) : Touch R a c :=
  ⟨h2.wf, h2.geo.trans h1.geo, fun X Y hX hY hn => by
    rw [h2.same X Y (by rw [h1.geo]; exact hX) (by rw [h1.geo]; exact hY) hn, h1.same X Y hX hY hn],
    h2.size.trans h1.size,
    fun i hi => by rw [h2.tail i (by rw [h1.geo]; exact hi), h1.tail i hi]⟩

theorem Touch.len {R : Region} {c c' : Canvas} (h : Touch R c c') (_hc : c.WF) :
    c'.bytes.size = c.bytes.size := h.size

theorem Paint.refl_empty (v : Bool) (c : Canvas) (h : c.WF) : Paint (fun _ _ => False) v c c :=
  { Touch.refl _ c h with inside := fun _ _ _ _ hf => hf.elim }

/-- sequential composition: regions add up, same colour -/
theorem Paint.seq {R R' : Region} {v : Bool} {a b c : Canvas} (h1 : Paint R v a b) (h2 : Paint R' v b c) :
    Paint (fun X Y => R X Y ∨ R' X Y) v a c where
  wf := h2.wf
  geo := h2.geo.trans h1.geo
  size := h2.size.trans h1.size
  tail := fun i hi => by rw [h2.tail i (by rw [h1.geo]; exact hi), h1.tail i hi]
  same := fun X Y hX hY hn => by
    have hX' : X < b.geo.wib * 8 := by rw [h1.geo]; exact hX
    have hY' : Y < b.geo.H := by rw [h1.geo]; exact hY
    rw [h2.same X Y hX' hY' (fun h => hn (Or.inr h)), h1.same X Y hX hY (fun h => hn (Or.inl h))]
  inside := fun X Y hX hY hr => by
    have hX' : X < b.geo.wib * 8 := by rw [h1.geo]; exact hX
    have hY' : Y < b.geo.H := by rw [h1.geo]; exact hY
    by_cases h' : R' X Y
    · exact h2.inside X Y hX' hY' h'
    · rw [h2.same X Y hX' hY' h']
      rcases hr with hr | hr
      · exact h1.inside X Y hX hY hr
      · exact absurd hr h'

theorem Paint.congr {R R' : Region} {v : Bool} {a b : Canvas} (h : Paint R v a b)
    (hiff : ∀ X Y, R X Y ↔ R' X Y) : Paint R' v a b where
  wf := h.wf
  geo := h.geo
  size := h.size
  tail := h.tail
  same := fun X Y hX hY hn => h.same X Y hX hY (fun hr => hn ((hiff X Y).1 hr))
  inside := fun X Y hX hY hr => h.inside X Y hX hY ((hiff X Y).2 hr)

/-- the clip predicate on stored-bit coordinates -/
def clipR (g : Geom) : Region := fun X Y => inClip g (X : Int) (Y : Int)

/-- `DrawPixel` paints exactly the addressed pixel if it is inside the clip. -/
theorem drawPixel_paint (c : Canvas) (hwf : c.WF) (x y : Int) (col : Bool) :
    Paint (fun X Y => clipR c.geo X Y ∧ (X : Int) = x + c.geo.bx ∧ (Y : Int) = y + c.geo.byy)
      (col != c.geo.inv) c (drawPixel c x y col) where
  wf := drawPixel_wf c x y col hwf
  geo := drawPixel_geo c x y col
  size := drawPixel_len c x y col
  tail := drawPixel_tail c hwf x y col
  same := fun X Y hX hY hn => by
    rw [drawPixel_exact c hwf x y col X Y hX hY]
    split
    · rename_i h
      exfalso; apply hn
      obtain ⟨h1, h2, h3⟩ := h
      refine ⟨?_, h2, h3⟩
      unfold clipR; rw [h2, h3]; exact h1
    · rfl
  inside := fun X Y hX hY hr => by
    rw [drawPixel_exact c hwf x y col X Y hX hY]
    obtain ⟨h1, h2, h3⟩ := hr
    unfold clipR at h1; rw [h2, h3] at h1
    rw [if_pos ⟨h1, h2, h3⟩]

/-! ## Loops -/

theorem loopN_succ (n : Nat) (f : Canvas → Nat → Canvas) (c : Canvas) :
    loopN (n + 1) f c = f (loopN n f c) n := by
  unfold loopN; rw [List.range_succ, List.foldl_append]; rfl

theorem loopN_zero (f : Canvas → Nat → Canvas) (c : Canvas) : loopN 0 f c = c := rfl

/-- A loop whose every iteration paints (in colour `v`) a region that depends only on the (invariant)
geometry paints the union of the regions. -/
theorem loopN_paint (g : Geom) (v : Bool) (R : Nat → Region) (f : Canvas → Nat → Canvas)
    (n : Nat)
    (hstep : ∀ (c : Canvas) (i : Nat), i < n → c.WF → c.geo = g → Paint (R i) v c (f c i))
    (c : Canvas) (hwf : c.WF) (hg : c.geo = g) :
    Paint (fun X Y => ∃ i, i < n ∧ R i X Y) v c (loopN n f c) := by
  induction n with
  | zero =>
    rw [loopN_zero]
    exact (Paint.refl_empty v c hwf).congr (fun X Y => ⟨fun h => h.elim, fun ⟨i, hi, _⟩ => by omega⟩)
  | succ n ih =>
    rw [loopN_succ]
    have ih := ih (fun c i hi => hstep c i (by omega))
    have h2 := hstep (loopN n f c) n (by omega) ih.wf (ih.geo.trans hg)
    exact (ih.seq h2).congr (fun X Y => by
      constructor
      · rintro (⟨i, hi, hr⟩ | hr)
        · exact ⟨i, by omega, hr⟩
        · exact ⟨n, by omega, hr⟩
      · rintro ⟨i, hi, hr⟩
        by_cases h : i = n
        · subst h; exact Or.inr hr
        · exact Or.inl ⟨i, by omega, hr⟩)

/-- Same for `Touch` (mixed colours). -/
theorem loopN_touch (g : Geom) (R : Region) (f : Canvas → Nat → Canvas)
    (n : Nat)
    (hstep : ∀ (c : Canvas) (i : Nat), i < n → c.WF → c.geo = g → Touch R c (f c i))
    (c : Canvas) (hwf : c.WF) (hg : c.geo = g) :
    Touch R c (loopN n f c) := by
  induction n with
  | zero => rw [loopN_zero]; exact Touch.refl R c hwf
  | succ n ih =>
    rw [loopN_succ]
    have ih := ih (fun c i hi => hstep c i (by omega))
    exact ih.trans (hstep (loopN n f c) n (by omega) ih.wf (ih.geo.trans hg))

end RawPanelVerif.Mono
