import RawPanelVerif.Model.TopoJsonText
/-! C14 helper lemmas: `unescape ∘ escape = id` on every byte string. -/
namespace RawPanelVerif.Topo

theorem unescape_cons_ne (b : UInt8) (r : Str) (h : b ≠ 92) : unescape (b :: r) = (unescape r).map (b :: ·) := by
  rw [unescape.eq_def]
  split <;> simp_all

theorem hex4_byte : ∀ n, n < 256 → hex4 48 48 (hexDigit (n / 16)) (hexDigit (n % 16)) = some n := by
  decide +kernel

theorem unescape_u00 (b : UInt8) (r : Str) (hb : b < 128) :
    unescape (92 :: 117 :: 48 :: 48 :: hexDigit (b.toNat / 16) :: hexDigit (b.toNat % 16) :: r)
      = (unescape r).map (b :: ·) := by
  have h1 : b.toNat < 128 := by simpa [UInt8.lt_iff_toNat_lt] using hb
  have h := hex4_byte b.toNat (by omega)
  simp only [unescape, h, utf8enc, h1, if_true]
  have : b.toNat.toUInt8 = b := by simp
  simp [this]

theorem unescape_escByte (b : UInt8) (r : Str) : unescape (escByte b ++ r) = (unescape r).map (b :: ·) := by
  unfold escByte
  split
  · rename_i h; subst h; simp [unescape]
  split
  · rename_i h; subst h; simp [unescape]
  split
  · rename_i h; subst h; simp [unescape]
  split
  · rename_i h; subst h; simp [unescape]
  split
  · rename_i h; subst h; simp [unescape]
  split
  · rename_i h; subst h; simp [unescape]
  split
  · rename_i h; subst h; simp [unescape]
  split
  · rename_i h
    have hb : b < 128 := by
      rcases h with h | h | h | h
      · exact UInt8.lt_trans h (by decide)
      · subst h; decide
      · subst h; decide
      · subst h; decide
    simpa using unescape_u00 b r hb
  · rename_i h1 h2 h3 h4 h5 h6 h7 h8
    simpa using unescape_cons_ne b r h2

theorem unescape_escape (s : Str) : unescape (escape s) = some s := by
  fun_induction escape s with
  | case1 => rfl
  | case2 r ih => simp [unescape, hex4, hexVal, utf8enc, ih]
  | case3 r ih => simp [unescape, hex4, hexVal, utf8enc, ih]
  | case4 b r h1 h2 ih => rw [unescape_escByte, ih]; rfl

end RawPanelVerif.Topo
